(* Equivalence of the GENERATED model of the signal-definition normalisation of /repo/src/core.c
   (GenCore.v, written by tools/c2gallina.py from the current source: u32_max,
   round_up_to_multiple, signal_def_defaults, jls_core_signal_def_validate,
   jls_core_signal_def_align and the format.h helpers jls_datatype_parse_size / _q / _basetype)
   and the hand-written model SigDef.v.

   Representation.  The generated functions work on the whole C struct jls_signal_def_s; the hand
   model on the six storage parameters `d_of g : sd_sigdef` and the sample width
   `width g = (data_type >> 8) & 0xff`.  `put g d` is g with the six parameters replaced by d.
   Results of align:  SdOk d' = returns 0, struct = put g d';  SdErr rc = returns rc, struct holds
   the definition after defaults;  SdFault SdDivZero = Fault Div_zero;  SdFault SdNonterm =
   Fault Out_of_fuel.  All six parameters are uint32_t (`in_range`). *)
From Coq Require Import NArith ZArith List Bool Lia.
From Coq Require Import ZifyBool ZifyN ZifyNat.
From JLS Require Import Generated GenLib GenCore SigDef SigDefProofs.
Import ListNotations.
Local Open Scope N_scope.
Ltac Zify.zify_post_hook ::= Z.div_mod_to_equations.

(* ---- representation ---- *)
Definition d_of (g : jls_signal_def_s) : sd_sigdef :=
  mkSigDef g.(jls_signal_def_s_samples_per_data) g.(jls_signal_def_s_sample_decimate_factor)
           g.(jls_signal_def_s_entries_per_summary) g.(jls_signal_def_s_summary_decimate_factor)
           g.(jls_signal_def_s_annotation_decimate_factor) g.(jls_signal_def_s_utc_decimate_factor).
Definition put (g : jls_signal_def_s) (d : sd_sigdef) : jls_signal_def_s :=
  mk_jls_signal_def_s g.(jls_signal_def_s_signal_id) g.(jls_signal_def_s_source_id)
    g.(jls_signal_def_s_signal_type) g.(jls_signal_def_s_rsv16_0) g.(jls_signal_def_s_data_type)
    g.(jls_signal_def_s_sample_rate) (spd d) (sdf d) (eps d) (sumdf d) (sd_anno d) (sd_utc d)
    g.(jls_signal_def_s_sample_id_offset) g.(jls_signal_def_s_name) g.(jls_signal_def_s_units).
Definition width (g : jls_signal_def_s) : N := sample_size g.(jls_signal_def_s_data_type).

Definition r_align (g : jls_signal_def_s) (r : sd_result sd_sigdef) : res (Z * jls_signal_def_s) :=
  match r with
  | SdOk d' => Ok (0%Z, put g d')
  | SdErr rc => Ok (Z.of_N rc, put g (sd_defaults (width g) (d_of g)))
  | SdFault SdDivZero => Fault Div_zero
  | SdFault SdNonterm => Fault Out_of_fuel
  end.

Lemma put_d_of : forall g, put g (d_of g) = g.
Proof. intros []. reflexivity. Qed.
Lemma d_of_put : forall g d, d_of (put g d) = d.
Proof. intros g []. reflexivity. Qed.
Lemma width_put : forall g d, width (put g d) = width g.
Proof. reflexivity. Qed.
Lemma put_put : forall g d d', put (put g d) d' = put g d'.
Proof. reflexivity. Qed.

(* ---- small functions ---- *)
Lemma land255_lt : forall x, N.land x 255 < 256.
Proof. intros x. change 255 with (N.ones 8). rewrite N.land_ones. apply N.mod_lt. discriminate. Qed.
Lemma u8_land255 : forall x, u8 (N.land x 255) = N.land x 255.
Proof. intros x. unfold u8. apply N.mod_small. apply land255_lt. Qed.

Lemma parse_size_eq : forall dt, jls_datatype_parse_size dt = sample_size dt.
Proof. intros dt. unfold jls_datatype_parse_size, sample_size. apply u8_land255. Qed.
Lemma parse_q_eq : forall dt, jls_datatype_parse_q dt = sd_dt_q dt.
Proof. intros dt. unfold jls_datatype_parse_q, sd_dt_q. apply u8_land255. Qed.
Lemma parse_basetype_eq : forall dt, jls_datatype_parse_basetype dt = dt_basetype dt.
Proof.
  intros dt. unfold jls_datatype_parse_basetype, dt_basetype, u8. apply N.mod_small.
  change 15 with (N.ones 4). rewrite N.land_ones. pose proof (N.mod_lt dt (2 ^ 4)). change (2 ^ 4) with 16 in *. lia.
Qed.
Lemma sample_size_lt : forall dt, sample_size dt < 256.
Proof. intros dt. unfold sample_size. apply land255_lt. Qed.

Lemma u32_max_eq : forall a b, u32_max a b = N.max a b.
Proof. intros a b. unfold u32_max. destruct (b <? a) eqn:E; lia. Qed.

(* ---- round_up_to_multiple ---- *)
Definition r_round (y : N) (r : sd_result N) : res (Z * N) :=
  match r with
  | SdOk v => Ok (0%Z, v)
  | SdErr rc => Ok (Z.of_N rc, y)
  | SdFault _ => Fault Div_zero
  end.

Theorem gen_round_up_eq : forall x m y, x < 4294967296 -> m < 4294967296 ->
  round_up_to_multiple x m y = r_round y (sd_round_up x m).
Proof.
  intros x m y Hx Hm. unfold round_up_to_multiple, sd_round_up, udiv.
  destruct (m =? 0) eqn:E0; [reflexivity|]. apply N.eqb_neq in E0.
  cbn [bind]. cbv zeta.
  assert (E1 : u64 (u64 (x + m) + 18446744073709551616 - 1) = x + m - 1) by (unfold u64; lia).
  rewrite E1.
  assert (E2 : (x + m - 1) / m * m <= x + m - 1) by apply div_mul_le.
  assert (E3 : u64 ((x + m - 1) / m * m) = (x + m - 1) / m * m) by (unfold u64; apply N.mod_small; lia).
  rewrite E3. change U32MAX with 4294967295.
  destruct (4294967295 <? (x + m - 1) / m * m) eqn:E4; [reflexivity|].
  cbn [r_round]. unfold GenLib.u32. rewrite N.mod_small by lia. reflexivity.
Qed.

(* ---- the while loop ---- *)
Definition r_fit (r : sd_result N) : res N :=
  match r with
  | SdOk k => Ok k
  | SdErr _ => Fault Fell_off_end          (* sd_fit_loop never yields SdErr *)
  | SdFault SdDivZero => Fault Div_zero
  | SdFault SdNonterm => Fault Out_of_fuel
  end.

Lemma gen_loop_eq : forall f e epd, e < 4294967296 -> epd < 4294967296 ->
  jls_core_signal_def_align'loop1 (S f) e epd = r_fit (sd_fit_loop f e epd).
Proof.
  induction f as [|f IH]; intros e epd He Hp.
  - cbn [jls_core_signal_def_align'loop1 sd_fit_loop]. unfold udiv, sd_is_div.
    destruct (epd =? 0) eqn:E0; [reflexivity|]. cbn [bind].
    assert (E1 : GenLib.u32 (e / epd * epd) = e / epd * epd).
    { unfold GenLib.u32. apply N.mod_small. pose proof (div_mul_le e epd). lia. }
    rewrite E1. destruct (e =? e / epd * epd); reflexivity.
  - cbn [jls_core_signal_def_align'loop1 sd_fit_loop]. unfold udiv, sd_is_div.
    destruct (epd =? 0) eqn:E0; [reflexivity|]. cbn [bind]. apply N.eqb_neq in E0.
    assert (E1 : GenLib.u32 (e / epd * epd) = e / epd * epd).
    { unfold GenLib.u32. apply N.mod_small. pose proof (div_mul_le e epd). lia. }
    rewrite E1. destruct (e =? e / epd * epd); cbn [negb]; [reflexivity|].
    cbv zeta.
    assert (E2 : GenLib.u32 (epd + 4294967296 - 1) = N.pred epd) by (unfold GenLib.u32; lia).
    rewrite E2. apply IH; lia.
Qed.

(* more fuel does not change a result that is not "out of fuel" *)
Lemma fit_loop_mono : forall f e epd, sd_fit_loop f e epd <> SdFault SdNonterm ->
  forall f', (f <= f')%nat -> sd_fit_loop f' e epd = sd_fit_loop f e epd.
Proof.
  induction f as [|f IH]; intros e epd H f' Hf.
  - destruct f' as [|f']; [reflexivity|]. cbn [sd_fit_loop] in *.
    destruct (epd =? 0); [reflexivity|]. destruct (sd_is_div e epd); [reflexivity|]. congruence.
  - destruct f' as [|f']; [lia|]. cbn [sd_fit_loop] in *.
    destruct (epd =? 0); [reflexivity|]. destruct (sd_is_div e epd); [reflexivity|].
    apply IH; [exact H | lia].
Qed.

(* with any fuel above 2^32 the generated loop is the hand model's loop with its own fuel *)
Lemma gen_loop_fuel : forall fuel e epd, e < 4294967296 -> epd < 4294967296 ->
  (N.to_nat 4294967296 <= fuel)%nat ->
  jls_core_signal_def_align'loop1 fuel e epd = r_fit (sd_fit_loop (N.to_nat epd) e epd).
Proof.
  intros fuel e epd He Hp Hf. destruct fuel as [|f]; [lia|].
  rewrite (gen_loop_eq f e epd He Hp).
  rewrite (fit_loop_mono (N.to_nat epd) e epd (fit_loop_never_nonterm e epd) f) by lia. reflexivity.
Qed.

(* ---- signal_def_defaults ---- *)
Ltac sd_projs :=
  cbn [jls_signal_def_s_signal_id jls_signal_def_s_source_id jls_signal_def_s_signal_type
       jls_signal_def_s_rsv16_0 jls_signal_def_s_data_type jls_signal_def_s_sample_rate
       jls_signal_def_s_samples_per_data jls_signal_def_s_sample_decimate_factor
       jls_signal_def_s_entries_per_summary jls_signal_def_s_summary_decimate_factor
       jls_signal_def_s_annotation_decimate_factor jls_signal_def_s_utc_decimate_factor
       jls_signal_def_s_sample_id_offset jls_signal_def_s_name jls_signal_def_s_units
       set_jls_signal_def_s_samples_per_data set_jls_signal_def_s_sample_decimate_factor
       set_jls_signal_def_s_entries_per_summary set_jls_signal_def_s_summary_decimate_factor
       set_jls_signal_def_s_annotation_decimate_factor set_jls_signal_def_s_utc_decimate_factor
       spd sdf eps sumdf sd_anno sd_utc d_of put].

(* one case of the switch: w is a literal; the generated table constant against the hand table *)
Ltac defaults_case :=
  unfold sd_defaults, sd_defaults_with, sd_table, sd_table_old, sd_take;
  match goal with |- context [if ?a =? 24 then _ else _] => change (a =? 24) with false || change (a =? 24) with true end;
  repeat match goal with |- context [if N.eqb (Npos ?a) (Npos ?b) then _ else _] =>
    let v := eval vm_compute in (N.eqb (Npos a) (Npos b)) in change (N.eqb (Npos a) (Npos b)) with v end;
  cbv iota; rewrite !u32_max_eq;
  repeat (sd_projs; match goal with |- context [0 =? ?x] => is_var x; rewrite (N.eqb_sym 0 x); destruct (x =? 0) end);
  reflexivity.

Theorem gen_defaults_eq : forall g,
  signal_def_defaults g = put g (sd_defaults (width g) (d_of g)).
Proof.
  intros g. unfold signal_def_defaults. rewrite parse_size_eq. fold (width g).
  set (w := width g). clearbody w. cbv zeta.
  destruct g as [sid src sty rsv dt sr gspd gsdf geps gsum gan gut off nm un].
  destruct (Z.of_N w =? 1)%Z eqn:E1; [assert (w = 1) as -> by lia; defaults_case|].
  destruct (Z.of_N w =? 4)%Z eqn:E4; [assert (w = 4) as -> by lia; defaults_case|].
  destruct (Z.of_N w =? 8)%Z eqn:E8; [assert (w = 8) as -> by lia; defaults_case|].
  destruct (Z.of_N w =? 16)%Z eqn:E16; [assert (w = 16) as -> by lia; defaults_case|].
  destruct (Z.of_N w =? 24)%Z eqn:E24; [assert (w = 24) as -> by lia; defaults_case|].
  destruct (Z.of_N w =? 32)%Z eqn:E32; [assert (w = 32) as -> by lia; defaults_case|].
  destruct (Z.of_N w =? 64)%Z eqn:E64; [assert (w = 64) as -> by lia; defaults_case|].
  unfold sd_defaults, sd_table, sd_table_old.
  assert (w =? 24 = false) as -> by lia. assert (w =? 1 = false) as -> by lia.
  assert (w =? 4 = false) as -> by lia. assert (w =? 8 = false) as -> by lia.
  assert (w =? 16 = false) as -> by lia. assert (w =? 32 = false) as -> by lia.
  assert (w =? 64 = false) as -> by lia. reflexivity.
Qed.

(* ---- jls_core_signal_def_validate ---- *)
Theorem gen_validate_eq : forall g,
  jls_core_signal_def_validate g =
  Z.of_N (sd_validate g.(jls_signal_def_s_signal_id) g.(jls_signal_def_s_source_id)
                      g.(jls_signal_def_s_signal_type) g.(jls_signal_def_s_data_type)).
Proof.
  intros g. unfold jls_core_signal_def_validate, sd_validate.
  rewrite parse_q_eq, parse_basetype_eq.
  generalize (jls_signal_def_s_signal_id g) (jls_signal_def_s_source_id g) (jls_signal_def_s_signal_type g).
  intros sid src sty.
  generalize (sd_dt_q (jls_signal_def_s_data_type g)) (dt_basetype (jls_signal_def_s_data_type g))
             (N.land (jls_signal_def_s_data_type g) 65535).
  intros q bt x. cbv zeta.
  repeat match goal with |- context [N.lor ?a ?b] =>
    let v := eval vm_compute in (N.lor a b) in change (N.lor a b) with v end.
  change (Z.lor 1 2) with 3%Z.
  let v := eval vm_compute in sd_datatypes in change sd_datatypes with v.
  let v := eval vm_compute in BASETYPE_INT in change BASETYPE_INT with v.
  let v := eval vm_compute in BASETYPE_UINT in change BASETYPE_UINT with v.
  change JLS_SIGNAL_COUNT with 256. change JLS_SOURCE_COUNT with 256.
  change JLS_SIGNAL_TYPE_FSR with 0. change JLS_SIGNAL_TYPE_VSR with 1.
  change JLS_ERROR_PARAMETER_INVALID with 5.
  cbn [existsb].
  destruct (256 <=? sid) eqn:E1; [assert ((256 <=? Z.of_N sid)%Z = true) as -> by lia; reflexivity|].
  assert ((256 <=? Z.of_N sid)%Z = false) as -> by lia.
  destruct (256 <=? src) eqn:E2; [assert ((256 <=? Z.of_N src)%Z = true) as -> by lia; reflexivity|].
  assert ((256 <=? Z.of_N src)%Z = false) as -> by lia.
  assert ((Z.of_N sty =? 0)%Z = (sty =? 0)) as -> by lia.
  assert ((Z.of_N sty =? 1)%Z = (sty =? 1)) as -> by lia.
  destruct (negb (sty =? 0) && negb (sty =? 1)); [reflexivity|].
  assert ((Z.of_N bt =? 1)%Z = (bt =? 1)) as -> by lia.
  assert ((Z.of_N bt =? 3)%Z = (bt =? 3)) as -> by lia.
  assert ((Z.of_N bt =? 4)%Z = (bt =? 4)) as -> by lia.
  assert (T : (if negb (q =? 0)
               then if bt =? 1 then 0%Z else if bt =? 3 then 0%Z else if bt =? 4 then 5%Z else 5%Z
               else 0%Z) =
              Z.of_N (if negb (q =? 0) then if (bt =? 1) || (bt =? 3) then 0 else 5 else 0)).
  { destruct (negb (q =? 0)); [|reflexivity]. destruct (bt =? 1); [reflexivity|].
    destruct (bt =? 3); [reflexivity|]. destruct (bt =? 4); reflexivity. }
  repeat match goal with |- context [if ?x =? ?c then _ else _] =>
    is_var x; match x with q => fail 1 | bt => fail 1 | _ => idtac end;
    destruct (x =? c); cbn [orb negb]; [exact T|] end.
  reflexivity.
Qed.

(* ---- jls_core_signal_def_align ---- *)
Lemma defaults_in_range_any : forall w d, in_range d -> in_range (sd_defaults w d).
Proof.
  intros w d Hd. destruct (in_dec N.eq_dec w sd_widths) as [Hw|Hw]; [now apply defaults_in_range|].
  unfold sd_widths in Hw. cbn [In] in Hw.
  unfold sd_defaults, sd_table, sd_table_old.
  assert (w =? 24 = false) as -> by lia. assert (w =? 1 = false) as -> by lia.
  assert (w =? 4 = false) as -> by lia. assert (w =? 8 = false) as -> by lia.
  assert (w =? 16 = false) as -> by lia. assert (w =? 32 = false) as -> by lia.
  assert (w =? 64 = false) as -> by lia. exact Hd.
Qed.

Lemma round_up_cases : forall x m,
  (exists v, sd_round_up x m = SdOk v /\ v < 4294967296) \/
  sd_round_up x m = SdErr 5 \/ sd_round_up x m = SdFault SdDivZero.
Proof.
  intros x m. unfold sd_round_up. destruct (m =? 0); [auto|].
  change U32MAX with 4294967295.
  destruct (4294967295 <? (x + m - 1) / m * m) eqn:E; [auto|].
  left. eexists. split; [reflexivity | lia].
Qed.

Lemma fit_loop_cases : forall f e epd,
  (exists k, sd_fit_loop f e epd = SdOk k /\ k <= epd) \/ (exists ft, sd_fit_loop f e epd = SdFault ft).
Proof.
  induction f as [|f IH]; intros e epd; cbn [sd_fit_loop].
  - destruct (epd =? 0); [eauto|]. destruct (sd_is_div e epd); [left; eexists; split; [reflexivity|lia] | eauto].
  - destruct (epd =? 0) eqn:E0; [eauto|]. destruct (sd_is_div e epd); [left; eexists; split; [reflexivity|lia]|].
    destruct (IH e (N.pred epd)) as [(k & Hk & Hle)|(ft & Hf)]; [left; exists k; split; [exact Hk | lia] | eauto].
Qed.

Lemma multiple_eq : forall w, w <> 0 -> w < 256 ->
  (if (24 =? Z.of_N w)%Z then Ok 32%Z
   else bind (sint 32 (32 * 8)) (fun t2 => bind (sdiv 32 t2 (Z.of_N w)) (fun t3 => Ok t3)))
  = Ok (Z.of_N (sd_multiple w)).
Proof.
  intros w H0 Hw. unfold sd_multiple. change (SAMPLE_SIZE_BYTES_MAX * 8) with 256.
  destruct (w =? 24) eqn:E.
  - assert ((24 =? Z.of_N w)%Z = true) as -> by lia. reflexivity.
  - assert ((24 =? Z.of_N w)%Z = false) as -> by lia.
    change (sint 32 (32 * 8)) with (Ok (A := Z) 256%Z). cbn [bind]. unfold sdiv.
    assert ((Z.of_N w =? 0)%Z = false) as -> by lia.
    assert (Q : Z.quot 256 (Z.of_N w) = Z.of_N (256 / w)).
    { rewrite Z.quot_div_nonneg by lia. change 256%Z with (Z.of_N 256). now rewrite <- N2Z.inj_div. }
    rewrite Q. unfold sint, in_sint.
    assert (256 / w <= 256) by (apply N.div_le_upper_bound; lia).
    assert (((- 2 ^ (32 - 1) <=? Z.of_N (256 / w)) && (Z.of_N (256 / w) <? 2 ^ (32 - 1)))%Z = true) as ->.
    { change (2 ^ (32 - 1))%Z with 2147483648%Z. lia. }
    reflexivity.
Qed.

Lemma cast_u32_of_N : forall x, x < 4294967296 -> cast_u 32 (Z.of_N x) = x.
Proof.
  intros x Hx. unfold cast_u. change (2 ^ 32)%Z with (Z.of_N 4294967296).
  rewrite <- N2Z.inj_mod, N2Z.id. now apply N.mod_small.
Qed.

(* the two buffer-size tests and the final stores *)
Lemma tail_eq : forall g w d1 sdf1 eps1 sumdf1 epd1, w < 256 -> sdf1 < 4294967296 -> eps1 < 4294967296 ->
  (let def := put g d1 in
   let samples_per_data := GenLib.u32 (sdf1 * epd1) in
   bind (udiv (u64 (samples_per_data * w)) 8) (fun t14 =>
   bind (udiv 4294967295 2) (fun t15 =>
   if t15 <? t14 then Ok (5%Z, def)
   else bind (udiv 4294967295 2) (fun t16 =>
     if t16 <? u64 (u64 (eps1 * 4) * 8) then Ok (5%Z, def)
     else
       let def := set_jls_signal_def_s_sample_decimate_factor def sdf1 in
       let def := set_jls_signal_def_s_samples_per_data def samples_per_data in
       let def := set_jls_signal_def_s_entries_per_summary def eps1 in
       let def := set_jls_signal_def_s_summary_decimate_factor def sumdf1 in
       Ok (0%Z, def)))))
  = match (let spd2 := SigDef.u32 (sdf1 * epd1) in
           if sd_block_too_big w spd2 then SdErr JLS_ERROR_PARAMETER_INVALID else
           if sd_summary_too_big eps1 then SdErr JLS_ERROR_PARAMETER_INVALID else
           SdOk (mkSigDef spd2 sdf1 eps1 sumdf1 (sd_anno d1) (sd_utc d1))) with
    | SdOk d' => Ok (0%Z, put g d')
    | SdErr rc => Ok (Z.of_N rc, put g d1)
    | SdFault SdDivZero => Fault Div_zero
    | SdFault SdNonterm => Fault Out_of_fuel
    end.
Proof.
  intros g w d1 sdf1 eps1 sumdf1 epd1 Hw Hs He. cbv zeta.
  change (GenLib.u32 (sdf1 * epd1)) with (SigDef.u32 (sdf1 * epd1)).
  set (spd2 := SigDef.u32 (sdf1 * epd1)).
  assert (Hspd : spd2 < 4294967296) by (unfold spd2, SigDef.u32, U32; lia).
  unfold udiv. cbn [N.eqb bind]. change (4294967295 / 2) with 2147483647.
  unfold sd_block_too_big, sd_summary_too_big.
  change (U32MAX / 2) with 2147483647. change JLS_SUMMARY_FSR_COUNT with 4. change SD_SIZEOF_DOUBLE with 8.
  change JLS_ERROR_PARAMETER_INVALID with 5.
  assert (u64 (spd2 * w) = spd2 * w) as -> by (unfold u64; apply N.mod_small; nia).
  assert (u64 (u64 (eps1 * 4) * 8) = eps1 * 4 * 8) as -> by (unfold u64; lia).
  destruct (2147483647 <? spd2 * w / 8); [reflexivity|].
  destruct (2147483647 <? eps1 * 4 * 8); [reflexivity|].
  destruct g, d1; reflexivity.
Qed.

Lemma multiple_lt : forall w, sd_multiple w < 4294967296.
Proof.
  intros w. unfold sd_multiple. change (SAMPLE_SIZE_BYTES_MAX * 8) with 256. destruct (w =? 24); [reflexivity|].
  destruct (N.eq_dec w 0) as [->|H0]; [reflexivity|].
  assert (256 / w <= 256) by (apply N.div_le_upper_bound; lia). lia.
Qed.

Theorem gen_align_eq : forall fuel g,
  in_range (d_of g) -> (N.to_nat 4294967296 <= fuel)%nat ->
  jls_core_signal_def_align fuel g = r_align g (sd_align (width g) (d_of g)).
Proof.
  intros fuel g HR HF. unfold jls_core_signal_def_align.
  rewrite gen_defaults_eq.
  pose proof (defaults_in_range_any (width g) (d_of g) HR) as HR1.
  unfold sd_align, r_align.
  assert (Hw : width g < 256) by apply sample_size_lt.
  rewrite parse_size_eq.
  change (sample_size (jls_signal_def_s_data_type (put g (sd_defaults (width g) (d_of g))))) with (width g).
  set (w := width g) in *. clearbody w.
  set (d1 := sd_defaults w (d_of g)) in *. clearbody d1.
  unfold in_range, U32 in HR1. destruct HR1 as (R1 & R2 & R3 & R4 & R5 & R6).
  change (jls_signal_def_s_sample_decimate_factor (put g d1)) with (sdf d1).
  change (jls_signal_def_s_samples_per_data (put g d1)) with (spd d1).
  change (jls_signal_def_s_entries_per_summary (put g d1)) with (eps d1).
  change (jls_signal_def_s_summary_decimate_factor (put g d1)) with (sumdf d1).
  change SAMPLE_DECIMATE_FACTOR_MIN with 10. change SAMPLES_PER_DATA_MIN with 10.
  change ENTRIES_PER_SUMMARY_MIN with 10. change SUMMARY_DECIMATE_FACTOR_MIN with 10.
  cbv zeta. rewrite !u32_max_eq.
  destruct (w =? 0) eqn:E0.
  - assert (w = 0) as -> by lia. reflexivity.
  - rewrite (multiple_eq w) by lia. cbn [bind].
    pose proof (multiple_lt w) as Hm. rewrite (cast_u32_of_N _ Hm).
    set (m := sd_multiple w) in *. clearbody m.
    rewrite gen_round_up_eq by lia.
    destruct (round_up_cases (N.max (sdf d1) 10) m) as [(sdf1 & E1 & B1)|[E1|E1]]; rewrite E1;
      cbn [r_round bind sd_bind Z.eqb negb]; [| reflexivity | reflexivity].
    rewrite gen_round_up_eq by lia.
    destruct (round_up_cases (N.max (eps d1) 10) (N.max (sumdf d1) 10)) as [(eps1 & E2 & B2)|[E2|E2]]; rewrite E2;
      cbn [r_round bind sd_bind Z.eqb negb]; [| reflexivity | reflexivity].
    rewrite gen_round_up_eq by lia.
    destruct (round_up_cases (N.max (spd d1) 10) sdf1) as [(spd1 & E3 & B3)|[E3|E3]]; rewrite E3;
      cbn [r_round bind sd_bind Z.eqb negb]; [| reflexivity | reflexivity].
    unfold udiv at 1. destruct (sdf1 =? 0) eqn:E4; [reflexivity|]. cbn [bind].
    assert (B4 : spd1 / sdf1 < 4294967296) by (apply N.div_lt_upper_bound; nia).
    rewrite (gen_loop_fuel fuel eps1 (spd1 / sdf1) B2 B4 HF).
    destruct (fit_loop_cases (N.to_nat (spd1 / sdf1)) eps1 (spd1 / sdf1)) as [(k & EK & _)|(ft & EF)].
    + rewrite EK. cbn [r_fit bind sd_bind].
      exact (tail_eq g w d1 sdf1 eps1 (N.max (sumdf d1) 10) k Hw B1 B2).
    + rewrite EF. destruct ft; reflexivity.
Qed.

(* ================= the C16 theorems on the generated functions ================= *)

(* a definition accepted by the generated validate has one of the 7 widths *)
Lemma gen_validate_width : forall g,
  jls_core_signal_def_validate g = 0%Z -> In (width g) [1; 4; 8; 16; 24; 32; 64].
Proof.
  intros g H. rewrite gen_validate_eq in H.
  apply (validate_ok_width g.(jls_signal_def_s_signal_id) g.(jls_signal_def_s_source_id)
                           g.(jls_signal_def_s_signal_type) g.(jls_signal_def_s_data_type)). lia.
Qed.

(* THE PROPERTY on the generated jls_core_signal_def_align: for every width, every 32-bit input and
   every fuel >= 2^32 the function returns - never a fault, never out of fuel - either
   JLS_ERROR_PARAMETER_INVALID (5), or 0 with only the six storage parameters changed and the
   stored parameters consistent, within uint32_t and within the buffer-size limits *)
Lemma gen_align_total : forall fuel g,
  In (width g) [1; 4; 8; 16; 24; 32; 64] -> in_range (d_of g) -> (N.to_nat 4294967296 <= fuel)%nat ->
  (exists g', jls_core_signal_def_align fuel g = Ok (0%Z, g') /\ g' = put g (d_of g') /\
              Consistent (width g) (d_of g') /\ in_range (d_of g') /\ sizes_ok (width g) (d_of g')) \/
  (exists g', jls_core_signal_def_align fuel g = Ok (5%Z, g') /\ g' = put g (sd_defaults (width g) (d_of g))).
Proof.
  intros fuel g Hw HR HF. rewrite (gen_align_eq fuel g HR HF).
  destruct (align_total (width g) (d_of g) Hw HR) as [(d' & E & C & R & S)|E]; rewrite E; cbn [r_align].
  - left. exists (put g d'). rewrite d_of_put. split; [reflexivity|]. split; [reflexivity|]. split; [exact C|]. split; [exact R | exact S].
  - right. eexists. split; reflexivity.
Qed.

(* whatever is stored is stored again unchanged *)
Lemma gen_align_idem : forall fuel g g',
  In (width g) [1; 4; 8; 16; 24; 32; 64] -> in_range (d_of g) -> (N.to_nat 4294967296 <= fuel)%nat ->
  jls_core_signal_def_align fuel g = Ok (0%Z, g') ->
  jls_core_signal_def_align fuel g' = Ok (0%Z, g').
Proof.
  intros fuel g g' Hw HR HF H. rewrite (gen_align_eq fuel g HR HF) in H.
  destruct (align_total (width g) (d_of g) Hw HR) as [(d' & E & C & R & S)|E]; rewrite E in H; cbn [r_align] in H;
    [|discriminate].
  injection H as <-.
  assert (HR' : in_range (d_of (put g d'))) by (rewrite d_of_put; exact R).
  rewrite (gen_align_eq fuel (put g d') HR' HF). rewrite d_of_put, width_put.
  rewrite (align_idem (width g) (d_of g) d' Hw E). cbn [r_align]. reflexivity.
Qed.

(* hypotheses satisfiable, and the generated function computes *)
Lemma gen_sd_ex :
  let g0 := mk_jls_signal_def_s 1 1 0 0 JLS_DATATYPE_F32 1000 0 0 0 0 0 0 0 Null Null in
  let g1 := mk_jls_signal_def_s 2 1 0 0 JLS_DATATYPE_I24 1000 100 11 100 10 5 5 0 Null Null in
  jls_core_signal_def_validate g0 = 0%Z /\ In (width g0) [1; 4; 8; 16; 24; 32; 64] /\
  in_range (d_of g0) /\
  (N.to_nat 4294967296 <= N.to_nat 4294967296)%nat /\
  jls_core_signal_def_align 100 g0 = Ok (0%Z, put g0 (mkSigDef 8192 128 640 20 100 100)) /\
  jls_core_signal_def_align 100 g1 = Ok (0%Z, put g1 (mkSigDef 128 32 100 10 10 10)).
Proof.
  cbv zeta. split; [vm_compute; reflexivity|]. split; [vm_compute; auto 10|].
  split; [unfold in_range, U32; cbn; lia|]. split; [apply le_n|].
  split; vm_compute; reflexivity.
Qed.
