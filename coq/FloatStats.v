(* Forward error bounds for the binary64 evaluation of /repo/src/statistics.c:

     jls_statistics_add          (Welford update)      fp_stats_add, fp_stats_add_list
     jls_statistics_compute_f64  first pass (the mean) fp_sum, fp_mean2
   (the first pass is also the level-1 mean of /repo/src/wr_fsr.c jls_core_fsr_summary1:
    v_mean += v over the entry's samples, then v_mean /= count - see FloatSumm.v).

   Model of the arithmetic: every C double operation op(a, b) is RN (a op b), RN = rounding to
   nearest even into binary64 (Flocq FLT format, 53 bits, emin = -1074; FloatTmap.RN).  This is
   what IEEE-754 arithmetic returns as long as no operation overflows (FloatTmap.b64_*_RN and
   Flocq's Bplus_correct / Bmult_correct / Bdiv_correct); the theorems state the magnitude guard
   under which every intermediate value stays below 2^1024 (fp_mean_bounded).  Underflow IS
   covered: a division or multiplication may return a subnormal number, which adds the absolute
   error eta64 = 2^-1075 instead of a relative one; additions and subtractions of doubles have
   no underflow error.  The compiler is assumed not to contract a*b+c into a fused
   multiply-add (x86-64 SSE2 code as built under /verif/build does not).
   min, max and k are exact in C (comparisons, integer increment): nothing to bound.

   Closed theorems; axioms = the classical real numbers of the standard library (Flocq). *)
From Coq Require Import ZArith Reals QArith Qreals List Lia Lra Psatz.
From Flocq Require Import Core Relative Plus_error BinarySingleNaN.
From JLS Require Import StatsQ FloatTmap.
Import ListNotations.
Local Open Scope R_scope.

(* ====================================================================================== *)
(* 1. rounding lemmas                                                                      *)
(* ====================================================================================== *)
Definition fmt (x : R) : Prop := generic_format radix2 (FLT_exp (-1074) 53) x.
(* half the smallest positive subnormal: the absolute error of an underflowing operation *)
Definition eta64 : R := bpow radix2 (-1075).

Lemma eta64_pos : 0 < eta64.
Proof. apply bpow_gt_0. Qed.

Lemma fmt_0 : fmt 0.
Proof. apply generic_format_0. Qed.

Lemma fmt_RN : forall x, fmt (RN x).
Proof. exact RN_format. Qed.

Lemma uprime_le : u64 / (1 + u64) <= u64.
Proof.
  pose proof u64_pos as Hu. apply Rmult_le_reg_r with (1 + u64); [lra|].
  unfold Rdiv. rewrite Rmult_assoc, Rinv_l by lra. nra.
Qed.

(* sums and differences of doubles: relative error only *)
Lemma RN_plus_rel : forall x y, fmt x -> fmt y ->
  exists eps, Rabs eps <= u64 /\ RN (x + y) = (x + y) * (1 + eps).
Proof.
  intros x y Fx Fy.
  destruct (@FLT_plus_error_N_ex radix2 (-1074) 53 eq_refl (fun t => negb (Z.even t)) x y Fx Fy) as [eps [H1 H2]].
  rewrite u_ro_64 in H1. exists eps. split; [pose proof uprime_le; lra|exact H2].
Qed.

Lemma RN_minus_rel : forall x y, fmt x -> fmt y ->
  exists eps, Rabs eps <= u64 /\ RN (x - y) = (x - y) * (1 + eps).
Proof.
  intros x y Fx Fy. apply (RN_plus_rel x (- y)); [exact Fx|apply generic_format_opp; exact Fy].
Qed.

(* any operation: relative error u64 plus absolute error eta64 *)
Lemma RN_gen : forall x, exists eps eta, Rabs eps <= u64 /\ Rabs eta <= eta64 /\ RN x = x * (1 + eps) + eta.
Proof.
  intros x.
  destruct (error_N_FLT radix2 (-1074) 53 eq_refl (fun t => negb (Z.even t)) x) as [eps [eta [H1 [H2 [_ H3]]]]].
  exists eps, eta. split; [|split; [|exact H3]].
  - replace u64 with (/ 2 * bpow radix2 (-53 + 1)); [exact H1|].
    unfold u64. change (-53)%Z with (-1 + (-53 + 1))%Z at 2. rewrite (bpow_plus radix2 (-1)). reflexivity.
  - replace eta64 with (/ 2 * bpow radix2 (-1074)); [exact H2|].
    unfold eta64. change (-1075)%Z with (-1 + -1074)%Z. rewrite (bpow_plus radix2 (-1)). reflexivity.
Qed.

(* (double) k for a count k <= 2^53 is exact *)
Lemma RN_INR : forall k : nat, (Z.of_nat k <= 2 ^ 53)%Z -> RN (INR k) = INR k.
Proof.
  intros k Hk. rewrite INR_IZR_INZ. apply RN_id. apply format_IZR. lia.
Qed.

(* ====================================================================================== *)
(* 2. jls_statistics_add in binary64                                                       *)
(* ====================================================================================== *)
Record fstats : Type := mkFstats { f_k : nat; f_mean : R; f_s : R }.

(*  ++s->k; m_old = s->mean; m_new = s->mean + (x - s->mean) / (double) s->k; s->mean = m_new;
    s->s += (x - m_old) * (x - m_new);                                                       *)
Definition fp_stats_add (st : fstats) (x : R) : fstats :=
  let k := S (f_k st) in
  let m_old := f_mean st in
  let m_new := RN (m_old + RN (RN (x - m_old) / RN (INR k))) in
  mkFstats k m_new (RN (f_s st + RN (RN (x - m_old) * RN (x - m_new)))).

Definition fp_stats_reset : fstats := mkFstats 0 0 0.
Definition fp_stats_add_list (xs : list R) : fstats := fold_left fp_stats_add xs fp_stats_reset.

(* exact reference values *)
Definition rsum (xs : list R) : R := fold_right Rplus 0 xs.
Definition rmean (xs : list R) : R := rsum xs / INR (length xs).
Definition rssq (xs : list R) : R := rsum (map (fun x => (x - rmean xs) * (x - rmean xs)) xs).

Lemma rsum_app : forall a b, rsum (a ++ b) = rsum a + rsum b.
Proof. unfold rsum. induction a as [|x a IH]; intros b; simpl; [lra|]. rewrite IH. lra. Qed.

Lemma fp_add_list_snoc : forall xs x, fp_stats_add_list (xs ++ [x]) = fp_stats_add (fp_stats_add_list xs) x.
Proof. intros xs x. unfold fp_stats_add_list. rewrite fold_left_app. reflexivity. Qed.

Lemma fp_add_list_k : forall xs, f_k (fp_stats_add_list xs) = length xs.
Proof.
  induction xs as [|x xs IH] using rev_ind; [reflexivity|].
  rewrite fp_add_list_snoc, app_length. cbn [fp_stats_add f_k length]. rewrite IH. lia.
Qed.

Lemma fp_add_list_fmt : forall xs, fmt (f_mean (fp_stats_add_list xs)).
Proof.
  induction xs as [|x xs IH] using rev_ind; [apply fmt_0|].
  rewrite fp_add_list_snoc. cbn [fp_stats_add f_mean]. apply fmt_RN.
Qed.

(* ---- the error recurrence of the mean, as a statement about real numbers ---- *)
Section MeanStep.
Variable M : R.
Hypothesis HM : 0 <= M.

(* theta = (1+u)^2 - 1 : relative error of the subtraction followed by the division *)
Definition theta64 : R := 2 * u64 + u64 * u64.
(* error added by one jls_statistics_add *)
Definition cstep : R := (1 + u64) * (theta64 * M + eta64) + u64 * M.

Lemma theta64_pos : 0 < theta64.
Proof. unfold theta64. pose proof u64_pos. nra. Qed.
Lemma theta64_small : theta64 * (1 + u64) <= / 2.
Proof. unfold theta64. pose proof u64_pos. pose proof u64_lt. nra. Qed.
Lemma cstep_nonneg : 0 <= cstep.
Proof.
  unfold cstep. pose proof u64_pos. pose proof theta64_pos. pose proof eta64_pos.
  assert (0 <= theta64 * M) by (apply Rmult_le_pos; lra).
  assert (0 <= (1 + u64) * (theta64 * M + eta64)) by (apply Rmult_le_pos; lra).
  assert (0 <= u64 * M) by (apply Rmult_le_pos; lra). lra.
Qed.

(* K = the new count; e = error of the old mean; the new error is at most K * cstep *)
Lemma mean_recurrence : forall (K e : R), 1 <= K -> 2 * K * u64 <= 1 ->
  Rabs e <= (K - 1) * cstep ->
  (1 + u64) * (Rabs e * (1 - (1 - theta64) / K) + theta64 * M + eta64) + u64 * M <= K * cstep.
Proof.
  intros K e HK HKu He.
  pose proof u64_pos as Hu. pose proof u64_lt as Hu1. pose proof theta64_pos as Ht. pose proof theta64_small as Hts.
  pose proof cstep_nonneg as Hc. pose proof (Rabs_pos e) as He0.
  assert (HKi : 0 < / K <= 1).
  { split; [apply Rinv_0_lt_compat; lra|]. rewrite <- Rinv_1. apply Rinv_le_contravar; lra. }
  (* the damping factor: (1+u)(1 - (1-theta)/K) <= 1 *)
  assert (Hf : (1 + u64) * (1 - (1 - theta64) / K) <= 1).
  { apply Rmult_le_reg_r with K; [lra|].
    replace ((1 + u64) * (1 - (1 - theta64) / K) * K) with ((1 + u64) * (K - 1 + theta64)) by (field; lra).
    assert (theta64 < 1) by nra. nra. }
  assert (Hf0 : 0 <= 1 - (1 - theta64) / K).
  { assert (theta64 < 1) by nra. assert ((1 - theta64) / K <= 1); [|lra].
    apply Rmult_le_reg_r with K; [lra|]. unfold Rdiv. rewrite Rmult_assoc, Rinv_l by lra. lra. }
  assert (H1 : (1 + u64) * (Rabs e * (1 - (1 - theta64) / K)) <= (K - 1) * cstep).
  { replace ((1 + u64) * (Rabs e * (1 - (1 - theta64) / K))) with (Rabs e * ((1 + u64) * (1 - (1 - theta64) / K))) by ring.
    apply Rle_trans with (Rabs e * 1); [|lra].
    apply Rmult_le_compat_l; [exact He0|exact Hf]. }
  unfold cstep in *. nra.
Qed.
End MeanStep.

(* one step of the C on concrete doubles *)
Lemma fp_mean_step : forall (M : R) (k : nat) (mh m x : R),
  0 <= M -> fmt mh -> fmt x -> Rabs x <= M ->
  (Z.of_nat (S k) <= 2 ^ 52)%Z ->
  (k = 0%nat -> m = 0) -> Rabs m <= M ->
  Rabs (mh - m) <= INR k * cstep M ->
  let m' := m + (x - m) / INR (S k) in
  let mh' := RN (mh + RN (RN (x - mh) / RN (INR (S k)))) in
  Rabs (mh' - m') <= INR (S k) * cstep M.
Proof.
  intros M k mh m x HM Fm Fx Hx Hk Hm0 Hm He m' mh'.
  pose proof u64_pos as Hu. pose proof u64_lt as Hu1. pose proof eta64_pos as Heta.
  set (K := INR (S k)) in *.
  assert (HK1 : 1 <= K) by (unfold K; rewrite S_INR; pose proof (pos_INR k); lra).
  assert (HKu : 2 * K * u64 <= 1).
  { unfold K. rewrite INR_IZR_INZ. rewrite u64_val.
    assert (IZR (Z.of_nat (S k)) <= IZR (2 ^ 52)) by (apply IZR_le; exact Hk).
    assert (P : 0 < IZR (2 ^ 53)) by (apply IZR_lt; reflexivity).
    apply Rmult_le_reg_r with (IZR (2 ^ 53)); [exact P|].
    rewrite Rmult_assoc, Rinv_l by lra.
    replace (IZR (2 ^ 53)) with (2 * IZR (2 ^ 52)) by (rewrite <- mult_IZR; reflexivity). lra. }
  assert (HKk : INR k = K - 1) by (unfold K; rewrite S_INR; ring).
  assert (HRK : RN K = K) by (unfold K; apply RN_INR; lia).
  unfold mh'. rewrite HRK.
  destruct (RN_minus_rel x mh Fx Fm) as [d1 [D1 E1]].
  destruct (RN_gen (RN (x - mh) / K)) as [d2 [h2 [D2 [H2 E2]]]].
  destruct (RN_plus_rel mh (RN (RN (x - mh) / K)) Fm (fmt_RN _)) as [d3 [D3 E3]].
  rewrite E3, E2, E1.
  set (e := mh - m) in *.
  set (th := (1 + d1) * (1 + d2) - 1).
  assert (Hth : Rabs th <= theta64).
  { unfold th, theta64. replace ((1 + d1) * (1 + d2) - 1) with (d1 + d2 + d1 * d2) by ring.
    eapply Rle_trans; [apply Rabs_triang|]. eapply Rle_trans; [apply Rplus_le_compat_r, Rabs_triang|].
    rewrite Rabs_mult. pose proof (Rabs_pos d1). pose proof (Rabs_pos d2). nra. }
  set (A := e * (1 - / K) + th * ((x - mh) / K) + h2).
  assert (HA : (mh + ((x - mh) * (1 + d1) / K * (1 + d2) + h2)) * (1 + d3) - m' = A * (1 + d3) + d3 * m').
  { unfold A, m', th, e. fold K. field. lra. }
  rewrite HA.
  (* |x - mh| / K <= M + |e| / K *)
  assert (Hxm : Rabs (x - m) <= K * M).
  { destruct k as [|k'].
    - rewrite (Hm0 eq_refl), Rminus_0_r. nra.
    - eapply Rle_trans; [apply Rabs_triang|]. rewrite Rabs_Ropp.
      assert (2 <= K) by (unfold K; rewrite !S_INR; pose proof (pos_INR k'); lra). nra. }
  assert (HKi : 0 < / K <= 1).
  { split; [apply Rinv_0_lt_compat; lra|]. rewrite <- Rinv_1. apply Rinv_le_contravar; lra. }
  assert (Hq : Rabs ((x - mh) / K) <= M + Rabs e / K).
  { unfold Rdiv. rewrite Rabs_mult, (Rabs_pos_eq (/ K)) by lra.
    replace (x - mh) with ((x - m) + - e) by (unfold e; ring).
    assert (Rabs (x - m + - e) <= Rabs (x - m) + Rabs e) by (eapply Rle_trans; [apply Rabs_triang|rewrite Rabs_Ropp; lra]).
    assert (Rabs (x - m) * / K <= M).
    { apply Rmult_le_reg_r with K; [lra|]. rewrite Rmult_assoc, Rinv_l by lra. lra. }
    pose proof (Rabs_pos e). pose proof (Rabs_pos (x - m)). nra. }
  assert (HAb : Rabs A <= Rabs e * (1 - (1 - theta64) / K) + theta64 * M + eta64).
  { unfold A. eapply Rle_trans; [apply Rabs_triang|]. eapply Rle_trans; [apply Rplus_le_compat_r, Rabs_triang|].
    rewrite !Rabs_mult. rewrite (Rabs_pos_eq (1 - / K)) by lra.
    assert (Rabs th * Rabs ((x - mh) / K) <= theta64 * (M + Rabs e / K)).
    { apply Rmult_le_compat; try apply Rabs_pos; assumption. }
    replace (Rabs e * (1 - (1 - theta64) / K)) with (Rabs e * (1 - / K) + theta64 * (Rabs e / K)) by (field; lra).
    lra. }
  (* the exact new mean is bounded by M *)
  assert (Hm' : Rabs m' <= M).
  { unfold m'. fold K. replace (m + (x - m) / K) with ((INR k * m + x) / K) by (rewrite HKk; field; lra).
    unfold Rdiv. rewrite Rabs_mult, (Rabs_pos_eq (/ K)) by lra.
    apply Rmult_le_reg_r with K; [lra|]. rewrite Rmult_assoc, Rinv_l by lra. rewrite Rmult_1_r.
    eapply Rle_trans; [apply Rabs_triang|]. rewrite Rabs_mult, (Rabs_pos_eq (INR k)) by apply pos_INR.
    pose proof (pos_INR k). rewrite HKk in *. nra. }
  eapply Rle_trans; [apply Rabs_triang|]. rewrite !Rabs_mult.
  assert (H1d : Rabs (1 + d3) <= 1 + u64).
  { eapply Rle_trans; [apply Rabs_triang|]. rewrite Rabs_R1. lra. }
  assert (Rabs A * Rabs (1 + d3) <= (Rabs e * (1 - (1 - theta64) / K) + theta64 * M + eta64) * (1 + u64)).
  { apply Rmult_le_compat; try apply Rabs_pos; assumption. }
  assert (Rabs d3 * Rabs m' <= u64 * M).
  { apply Rmult_le_compat; try apply Rabs_pos; assumption. }
  pose proof (mean_recurrence M HM K e HK1 HKu) as Hrec.
  rewrite HKk in He. specialize (Hrec He). lra.
Qed.

(* ---- the invariant over the samples added so far ---- *)
Lemma fp_mean_invariant : forall (M : R) (xs : list R), 0 <= M ->
  Forall (fun x => fmt x /\ Rabs x <= M) xs -> (Z.of_nat (length xs) <= 2 ^ 52)%Z ->
  exists m : R,
    INR (length xs) * m = rsum xs /\ (length xs = 0%nat -> m = 0) /\ Rabs m <= M /\
    Rabs (f_mean (fp_stats_add_list xs) - m) <= INR (length xs) * cstep M.
Proof.
  intros M xs HM. induction xs as [|x xs IH] using rev_ind; intros Hall Hlen.
  - exists 0. cbn. rewrite Rminus_0_r, Rabs_R0. repeat split; try lra; try reflexivity.
  - apply Forall_app in Hall. destruct Hall as [Hxs Hx]. inversion Hx as [|? ? [Fx Bx] _]. subst.
    rewrite app_length in Hlen. cbn [length] in Hlen.
    destruct (IH Hxs ltac:(lia)) as [m [Hsum [Hm0 [Hm He]]]].
    exists (m + (x - m) / INR (S (length xs))).
    assert (HK : 0 < INR (S (length xs))) by (apply lt_0_INR; lia).
    rewrite app_length. cbn [length]. replace (length xs + 1)%nat with (S (length xs)) by lia.
    split; [|split; [|split]].
    + rewrite rsum_app. cbn [rsum fold_right]. rewrite <- Hsum. rewrite S_INR. field. rewrite <- S_INR. lra.
    + intros H. lia.
    + replace (m + (x - m) / INR (S (length xs))) with ((INR (length xs) * m + x) / INR (S (length xs))) by (rewrite S_INR; field; rewrite <- S_INR; lra).
      unfold Rdiv. rewrite Rabs_mult, (Rabs_pos_eq (/ _)) by (apply Rlt_le, Rinv_0_lt_compat; exact HK).
      apply Rmult_le_reg_r with (INR (S (length xs))); [exact HK|]. rewrite Rmult_assoc, Rinv_l by lra. rewrite Rmult_1_r.
      eapply Rle_trans; [apply Rabs_triang|]. rewrite Rabs_mult, (Rabs_pos_eq (INR (length xs))) by apply pos_INR.
      pose proof (pos_INR (length xs)). rewrite S_INR. nra.
    + rewrite fp_add_list_snoc. unfold fp_stats_add. cbn [f_mean]. rewrite fp_add_list_k.
      apply fp_mean_step; try assumption; [apply fp_add_list_fmt|lia].
Qed.

(* forward error of the running mean after n = length xs calls of jls_statistics_add *)
Theorem fp_mean_error : forall (M : R) (xs : list R), 0 <= M -> xs <> [] ->
  Forall (fun x => fmt x /\ Rabs x <= M) xs -> (Z.of_nat (length xs) <= 2 ^ 52)%Z ->
  Rabs (f_mean (fp_stats_add_list xs) - rmean xs) <= INR (length xs) * cstep M.
Proof.
  intros M xs HM Hne Hall Hlen.
  destruct (fp_mean_invariant M xs HM Hall Hlen) as [m [Hsum [_ [_ He]]]].
  assert (HK : 0 < INR (length xs)) by (apply lt_0_INR; destruct xs; [contradiction|cbn; lia]).
  replace (rmean xs) with m; [exact He|]. unfold rmean. rewrite <- Hsum. field. lra.
Qed.

(* cstep M <= (2 + u)^2 u M once the absolute underflow term is absorbed (M >= 2^-1022) *)
Lemma cstep_le : forall M, bpow radix2 (-1022) <= M -> cstep M <= (2 + u64) * (2 + u64) * u64 * M.
Proof.
  intros M HM. unfold cstep, theta64.
  assert (Heta : eta64 <= u64 * M).
  { unfold eta64, u64. change (-1075)%Z with (-53 + -1022)%Z. rewrite bpow_plus.
    apply Rmult_le_compat_l; [apply bpow_ge_0|exact HM]. }
  pose proof u64_pos as Hu. pose proof (bpow_gt_0 radix2 (-1022)).
  assert (H1 : (1 + u64) * eta64 <= (1 + u64) * (u64 * M)) by (apply Rmult_le_compat_l; lra).
  replace ((2 + u64) * (2 + u64) * u64 * M) with ((1 + u64) * ((2 * u64 + u64 * u64) * M) + (1 + u64) * (u64 * M) + u64 * M) by ring.
  lra.
Qed.

Theorem fp_mean_error_5nuM : forall (M : R) (xs : list R), bpow radix2 (-1022) <= M -> xs <> [] ->
  Forall (fun x => fmt x /\ Rabs x <= M) xs -> (Z.of_nat (length xs) <= 2 ^ 52)%Z ->
  Rabs (f_mean (fp_stats_add_list xs) - rmean xs) <= 5 * INR (length xs) * u64 * M.
Proof.
  intros M xs HM Hne Hall Hlen.
  pose proof (bpow_gt_0 radix2 (-1022)) as Hb.
  eapply Rle_trans; [apply (fp_mean_error M); try assumption; lra|].
  pose proof (cstep_le M HM) as Hc. pose proof u64_pos as Hu. pose proof u64_lt as Hu1.
  pose proof (pos_INR (length xs)) as Hn.
  assert ((2 + u64) * (2 + u64) * u64 * M <= 5 * u64 * M).
  { assert (H0 : 0 <= u64 * M) by (apply Rmult_le_pos; lra).
    assert (H5 : (2 + u64) * (2 + u64) <= 5) by nra.
    replace ((2 + u64) * (2 + u64) * u64 * M) with ((2 + u64) * (2 + u64) * (u64 * M)) by ring.
    replace (5 * u64 * M) with (5 * (u64 * M)) by ring.
    apply Rmult_le_compat_r; assumption. }
  replace (5 * INR (length xs) * u64 * M) with (INR (length xs) * (5 * u64 * M)) by ring.
  apply Rmult_le_compat_l; [exact Hn|lra].
Qed.

(* ---- the same statement against the exact model StatsQ (samples = doubles given as rationals) ---- *)
Lemma Q2R_qsum : forall xs : list Q, Q2R (qsum xs) = rsum (map Q2R xs).
Proof.
  induction xs as [|x xs IH]; [unfold qsum, rsum; cbn; apply RMicromega.Q2R_0|].
  unfold qsum, rsum in *. cbn [fold_right map]. rewrite Q2R_plus, IH. reflexivity.
Qed.

Lemma Q2R_mean_of : forall xs : list Q, xs <> [] -> Q2R (mean_of xs) = rmean (map Q2R xs).
Proof.
  intros xs Hne. unfold mean_of, rmean, qlen. rewrite map_length.
  assert (Hl : (0 < Z.of_nat (length xs))%Z) by (destruct xs; [contradiction|cbn [length]; lia]).
  rewrite Q2R_div.
  - rewrite Q2R_qsum, Q2R_inject_Z, <- INR_IZR_INZ. reflexivity.
  - intro H. unfold Qeq, inject_Z in H. cbn [Qnum Qden] in H. lia.
Qed.

Theorem fp_mean_error_Q : forall (M : R) (xs : list Q), bpow radix2 (-1022) <= M -> xs <> [] ->
  Forall (fun x => fmt (Q2R x) /\ Rabs (Q2R x) <= M) xs -> (Z.of_nat (length xs) <= 2 ^ 52)%Z ->
  Rabs (f_mean (fp_stats_add_list (map Q2R xs)) - Q2R (mean_of xs)) <= 5 * INR (length xs) * u64 * M.
Proof.
  intros M xs HM Hne Hall Hlen. rewrite Q2R_mean_of by exact Hne.
  replace (length xs) with (length (map Q2R xs)) by apply map_length.
  apply fp_mean_error_5nuM; try assumption.
  - destruct xs; [contradiction|discriminate].
  - apply Forall_map. exact Hall.
  - rewrite map_length. exact Hlen.
Qed.

(* ====================================================================================== *)
(* 3. the two-pass mean: v_mean = 0; for (...) v_mean += x[i]; v_mean /= count             *)
(*    (jls_statistics_compute_f64, jls_core_fsr_summary1)                                  *)
(* ====================================================================================== *)
Definition fp_sum (xs : list R) : R := fold_left (fun acc x => RN (acc + x)) xs 0.
Definition fp_mean2 (xs : list R) : R := RN (fp_sum xs / RN (INR (length xs))).

Lemma fp_sum_snoc : forall xs x, fp_sum (xs ++ [x]) = RN (fp_sum xs + x).
Proof. intros xs x. unfold fp_sum. rewrite fold_left_app. reflexivity. Qed.

Lemma fp_sum_fmt : forall xs, fmt (fp_sum xs).
Proof. induction xs as [|x xs IH] using rev_ind; [apply fmt_0|]. rewrite fp_sum_snoc. apply fmt_RN. Qed.

Lemma rsum_bound : forall (M : R) (xs : list R), Forall (fun x => Rabs x <= M) xs -> Rabs (rsum xs) <= INR (length xs) * M.
Proof.
  intros M xs H. induction H as [|x xs Hx _ IH].
  - cbn. rewrite Rabs_R0. lra.
  - cbn [rsum fold_right length]. fold (rsum xs). rewrite S_INR.
    eapply Rle_trans; [apply Rabs_triang|]. lra.
Qed.

Lemma pow1u_ge : forall k : nat, 1 + INR k * u64 <= (1 + u64) ^ k.
Proof.
  induction k as [|k IH]; [cbn; lra|]. rewrite S_INR. cbn [pow].
  pose proof u64_pos. pose proof (pos_INR k). nra.
Qed.

Theorem fp_sum_error : forall (M : R) (xs : list R), 0 <= M ->
  Forall (fun x => fmt x /\ Rabs x <= M) xs ->
  Rabs (fp_sum xs - rsum xs) <= INR (length xs) * M * ((1 + u64) ^ length xs - 1).
Proof.
  intros M xs HM. induction xs as [|x xs IH] using rev_ind; intros Hall.
  - cbn. rewrite Rminus_0_r, Rabs_R0. lra.
  - apply Forall_app in Hall. destruct Hall as [Hxs Hx]. inversion Hx as [|? ? [Fx Bx] _]. subst.
    specialize (IH Hxs).
    rewrite fp_sum_snoc, rsum_app, app_length. cbn [length rsum fold_right].
    replace (length xs + 1)%nat with (S (length xs)) by lia. rewrite Rplus_0_r.
    destruct (RN_plus_rel (fp_sum xs) x (fp_sum_fmt xs) Fx) as [d [D E]]. rewrite E.
    set (n := length xs) in *. set (S0 := rsum xs) in *. set (sh := fp_sum xs) in *.
    replace ((sh + x) * (1 + d) - (S0 + x)) with ((sh - S0) * (1 + d) + d * (S0 + x)) by ring.
    assert (HS : Rabs (S0 + x) <= INR (S n) * M).
    { rewrite S_INR. eapply Rle_trans; [apply Rabs_triang|].
      assert (Rabs S0 <= INR n * M); [|lra].
      apply rsum_bound. eapply Forall_impl; [|exact Hxs]. intros a [_ Ha]. exact Ha. }
    eapply Rle_trans; [apply Rabs_triang|]. rewrite !Rabs_mult.
    assert (H1d : Rabs (1 + d) <= 1 + u64).
    { eapply Rle_trans; [apply Rabs_triang|]. rewrite Rabs_R1. lra. }
    pose proof u64_pos as Hu. pose proof (pos_INR n) as Hn. pose proof (pow1u_ge (S n)) as Hp.
    rewrite S_INR in *. cbn [pow] in *.
    set (P := (1 + u64) ^ n) in *.
    assert (HP1 : 1 <= P) by (pose proof (pow1u_ge n); fold P in H; nra).
    assert (H1 : Rabs (sh - S0) * Rabs (1 + d) <= INR n * M * (P - 1) * (1 + u64)).
    { apply Rmult_le_compat; try apply Rabs_pos; assumption. }
    assert (H2 : Rabs d * Rabs (S0 + x) <= u64 * ((INR n + 1) * M)).
    { apply Rmult_le_compat; try apply Rabs_pos; assumption. }
    assert (H3 : 0 <= M * ((1 + u64) * P - 1 - u64)).
    { apply Rmult_le_pos; [exact HM|]. nra. }
    nra.
Qed.

(* (1+u)^k - 1 <= k u (1 + k u) while k u <= 1 *)
Lemma pow1u_le : forall k : nat, INR k * u64 <= 1 -> (1 + u64) ^ k <= 1 + INR k * u64 + (INR k * u64) * (INR k * u64).
Proof.
  induction k as [|k IH]; intros Hk; [cbn; lra|].
  rewrite S_INR in *. pose proof u64_pos as Hu. pose proof (pos_INR k) as Hn.
  assert (Hk' : INR k * u64 <= 1) by nra. specialize (IH Hk'). cbn [pow].
  set (a := INR k * u64) in *.
  assert (H0 : 0 <= a) by (unfold a; nra).
  assert ((1 + u64) * (1 + u64) ^ k <= (1 + u64) * (1 + a + a * a)) by (apply Rmult_le_compat_l; lra).
  replace ((INR k + 1) * u64) with (a + u64) by (unfold a; ring).
  (* (1+u)(1+a+a^2) <= 1 + (a+u) + (a+u)^2  <=  a^2 u <= a u + u^2, i.e. a^2 <= a + u: a <= 1 *)
  assert (a * a <= a) by nra.
  nra.
Qed.

Theorem fp_mean2_error : forall (M : R) (xs : list R), 0 <= M -> xs <> [] ->
  Forall (fun x => fmt x /\ Rabs x <= M) xs -> (Z.of_nat (length xs) <= 2 ^ 53)%Z ->
  Rabs (fp_mean2 xs - rmean xs) <= M * ((1 + u64) ^ S (length xs) - 1) + eta64.
Proof.
  intros M xs HM Hne Hall Hlen.
  pose proof (fp_sum_error M xs HM Hall) as Hs.
  assert (HK : 0 < INR (length xs)) by (apply lt_0_INR; destruct xs; [contradiction|cbn; lia]).
  unfold fp_mean2, rmean. rewrite RN_INR by exact Hlen.
  destruct (RN_gen (fp_sum xs / INR (length xs))) as [d [h [D [H E]]]]. rewrite E.
  set (n := length xs) in *. set (K := INR n) in *. set (S0 := rsum xs) in *. set (sh := fp_sum xs) in *.
  replace (sh / K * (1 + d) + h - S0 / K) with ((sh - S0) / K * (1 + d) + d * (S0 / K) + h) by (field; lra).
  assert (HS : Rabs (S0 / K) <= M).
  { unfold Rdiv. rewrite Rabs_mult, (Rabs_pos_eq (/ K)) by (apply Rlt_le, Rinv_0_lt_compat; exact HK).
    apply Rmult_le_reg_r with K; [exact HK|]. rewrite Rmult_assoc, Rinv_l by lra. rewrite Rmult_1_r.
    rewrite Rmult_comm. apply rsum_bound. eapply Forall_impl; [|exact Hall]. intros a [_ Ha]. exact Ha. }
  assert (He : Rabs ((sh - S0) / K) <= M * ((1 + u64) ^ n - 1)).
  { unfold Rdiv. rewrite Rabs_mult, (Rabs_pos_eq (/ K)) by (apply Rlt_le, Rinv_0_lt_compat; exact HK).
    apply Rmult_le_reg_r with K; [exact HK|]. rewrite Rmult_assoc, Rinv_l by lra. rewrite Rmult_1_r.
    eapply Rle_trans; [exact Hs|]. fold K. lra. }
  eapply Rle_trans; [apply Rabs_triang|]. eapply Rle_trans; [apply Rplus_le_compat_r, Rabs_triang|].
  rewrite !Rabs_mult.
  assert (H1d : Rabs (1 + d) <= 1 + u64).
  { eapply Rle_trans; [apply Rabs_triang|]. rewrite Rabs_R1. lra. }
  pose proof u64_pos as Hu. pose proof (pow1u_ge n) as Hp. fold K in Hp.
  assert (HP0 : 0 <= (1 + u64) ^ n - 1) by (pose proof (pos_INR n) as Hn0; fold K in Hn0; nra).
  assert (H1 : Rabs ((sh - S0) / K) * Rabs (1 + d) <= M * ((1 + u64) ^ n - 1) * (1 + u64)).
  { apply Rmult_le_compat; try apply Rabs_pos; assumption. }
  assert (H2 : Rabs d * Rabs (S0 / K) <= u64 * M).
  { apply Rmult_le_compat; try apply Rabs_pos; assumption. }
  cbn [pow]. lra.
Qed.

(* counts up to 2^26 (any sample_decimate_factor in use) and |x| <= M with M >= 2^-1022 *)
Theorem fp_mean2_error_simple : forall (M : R) (xs : list R), bpow radix2 (-1022) <= M -> xs <> [] ->
  Forall (fun x => fmt x /\ Rabs x <= M) xs -> (Z.of_nat (length xs) + 1 <= 2 ^ 26)%Z ->
  Rabs (fp_mean2 xs - rmean xs) <= (INR (length xs) + 3) * u64 * M.
Proof.
  intros M xs HM Hne Hall Hlen.
  pose proof (bpow_gt_0 radix2 (-1022)) as Hb.
  eapply Rle_trans; [apply (fp_mean2_error M); try assumption; [lra|lia]|].
  set (n := length xs) in *.
  assert (Heta : eta64 <= u64 * M).
  { unfold eta64, u64. change (-1075)%Z with (-53 + -1022)%Z. rewrite bpow_plus.
    apply Rmult_le_compat_l; [apply bpow_ge_0|exact HM]. }
  pose proof u64_pos as Hu.
  assert (Hk : INR (S n) * u64 <= / IZR (2 ^ 27)).
  { rewrite INR_IZR_INZ, u64_val.
    assert (IZR (Z.of_nat (S n)) <= IZR (2 ^ 26)) by (apply IZR_le; lia).
    replace (/ IZR (2 ^ 27)) with (IZR (2 ^ 26) * / IZR (2 ^ 53)).
    - apply Rmult_le_compat_r; [|assumption]. apply Rlt_le, Rinv_0_lt_compat, IZR_lt. reflexivity.
    - replace (IZR (2 ^ 53)) with (IZR (2 ^ 26) * IZR (2 ^ 27)) by (rewrite <- mult_IZR; reflexivity).
      field. split; apply not_0_IZR; discriminate. }
  assert (H27 : / IZR (2 ^ 27) < 1) by (rewrite <- Rinv_1; apply Rinv_lt_contravar; [rewrite Rmult_1_l|]; apply IZR_lt; reflexivity).
  pose proof (pow1u_le (S n) ltac:(lra)) as Hp.
  set (a := INR (S n) * u64) in *.
  assert (Ha0 : 0 <= a) by (unfold a; apply Rmult_le_pos; [apply pos_INR|lra]).
  (* a * a <= u : (n+1)^2 u^2 <= u since (n+1)^2 <= 2^52 *)
  assert (Haa : a * a <= u64).
  { assert (a * INR (S n) <= 1).
    { unfold a. rewrite INR_IZR_INZ, u64_val.
      assert (H26 : IZR (Z.of_nat (S n)) <= IZR (2 ^ 26)) by (apply IZR_le; lia).
      assert (0 <= IZR (Z.of_nat (S n))) by (apply IZR_le; lia).
      assert (P53 : 0 < / IZR (2 ^ 53)) by (apply Rinv_0_lt_compat, IZR_lt; reflexivity).
      replace (IZR (Z.of_nat (S n)) * / IZR (2 ^ 53) * IZR (Z.of_nat (S n))) with (IZR (Z.of_nat (S n)) * IZR (Z.of_nat (S n)) * / IZR (2 ^ 53)) by ring.
      apply Rmult_le_reg_r with (IZR (2 ^ 53)); [apply IZR_lt; reflexivity|].
      rewrite Rmult_assoc, Rinv_l by (apply not_0_IZR; discriminate). rewrite Rmult_1_r, Rmult_1_l.
      replace (IZR (2 ^ 53)) with (2 * (IZR (2 ^ 26) * IZR (2 ^ 26))) by (rewrite <- !mult_IZR; reflexivity).
      assert (0 <= IZR (2 ^ 26)) by (apply IZR_le; lia). nra. }
    replace (a * a) with (a * INR (S n) * u64) by (unfold a; ring). nra. }
  replace ((INR n + 3) * u64 * M) with (M * (a + 2 * u64)) by (unfold a; rewrite S_INR; ring).
  assert (M * ((1 + u64) ^ S n - 1) <= M * (a + a * a)) by (apply Rmult_le_compat_l; lra).
  assert (M * (a * a) <= M * u64) by (apply Rmult_le_compat_l; lra).
  lra.
Qed.

Theorem fp_mean2_error_Q : forall (M : R) (xs : list Q), bpow radix2 (-1022) <= M -> xs <> [] ->
  Forall (fun x => fmt (Q2R x) /\ Rabs (Q2R x) <= M) xs -> (Z.of_nat (length xs) + 1 <= 2 ^ 26)%Z ->
  Rabs (fp_mean2 (map Q2R xs) - Q2R (mean_of xs)) <= (INR (length xs) + 3) * u64 * M.
Proof.
  intros M xs HM Hne Hall Hlen. rewrite Q2R_mean_of by exact Hne.
  replace (length xs) with (length (map Q2R xs)) by apply map_length.
  apply fp_mean2_error_simple; try assumption.
  - destruct xs; [contradiction|discriminate].
  - apply Forall_map. exact Hall.
  - rewrite map_length. exact Hlen.
Qed.

(* ---- no overflow in the mean update: the exact result of each of the three operations of
   m + (x - m) / k is at most 10 M in magnitude, so M <= 2^1019 keeps them below 2^1023 and IEEE
   arithmetic returns RN of the exact result (Flocq Bminus_correct / Bdiv_correct / Bplus_correct) ---- *)
Theorem fp_add_mean_bounded : forall (M : R) (xs : list R) (x : R), bpow radix2 (-1022) <= M ->
  Forall (fun x => fmt x /\ Rabs x <= M) xs -> fmt x -> Rabs x <= M ->
  (Z.of_nat (S (length xs)) <= 2 ^ 52)%Z ->
  let mh := f_mean (fp_stats_add_list xs) in
  let K := INR (S (length xs)) in
  Rabs (x - mh) <= 10 * M /\ Rabs (RN (x - mh) / K) <= 10 * M /\ Rabs (mh + RN (RN (x - mh) / K)) <= 10 * M.
Proof.
  intros M xs x HM Hall Fx Bx Hlen mh K.
  pose proof (bpow_gt_0 radix2 (-1022)) as Hb. pose proof u64_pos as Hu. pose proof u64_lt as Hu1.
  destruct (fp_mean_invariant M xs ltac:(lra) Hall ltac:(lia)) as [m [_ [_ [Hm He]]]]. fold mh in He.
  assert (Hn : INR (length xs) * cstep M <= 3 * M).
  { pose proof (cstep_le M HM) as Hc. pose proof (cstep_nonneg M ltac:(lra)) as Hc0.
    assert (Hnu : INR (length xs) * u64 <= / 2).
    { rewrite INR_IZR_INZ, u64_val.
      assert (IZR (Z.of_nat (length xs)) <= IZR (2 ^ 52)) by (apply IZR_le; lia).
      apply Rmult_le_reg_r with (IZR (2 ^ 53)); [apply IZR_lt; reflexivity|].
      rewrite Rmult_assoc, Rinv_l by (apply not_0_IZR; discriminate).
      replace (IZR (2 ^ 53)) with (2 * IZR (2 ^ 52)) by (rewrite <- mult_IZR; reflexivity). lra. }
    pose proof (pos_INR (length xs)) as Hn0.
    assert (H5 : (2 + u64) * (2 + u64) <= 5) by nra.
    assert (cstep M <= 5 * (u64 * M)).
    { eapply Rle_trans; [exact Hc|].
      replace ((2 + u64) * (2 + u64) * u64 * M) with ((2 + u64) * (2 + u64) * (u64 * M)) by ring.
      apply Rmult_le_compat_r; [apply Rmult_le_pos; lra|exact H5]. }
    assert (INR (length xs) * cstep M <= INR (length xs) * (5 * (u64 * M))) by (apply Rmult_le_compat_l; lra).
    assert (INR (length xs) * u64 * M <= / 2 * M) by (apply Rmult_le_compat_r; lra).
    lra. }
  assert (A1 : Rabs mh <= 4 * M).
  { replace mh with (m + (mh - m)) by ring. eapply Rle_trans; [apply Rabs_triang|]. lra. }
  assert (A2 : Rabs (x - mh) <= 5 * M).
  { eapply Rle_trans; [apply Rabs_triang|]. rewrite Rabs_Ropp. lra. }
  assert (HK1 : 1 <= K) by (unfold K; rewrite S_INR; pose proof (pos_INR (length xs)); lra).
  assert (HKi : 0 < / K <= 1).
  { split; [apply Rinv_0_lt_compat; lra|]. rewrite <- Rinv_1. apply Rinv_le_contravar; lra. }
  destruct (RN_minus_rel x mh Fx (fp_add_list_fmt xs)) as [d1 [D1 E1]].
  assert (A3 : Rabs (RN (x - mh)) <= 11 / 2 * M).
  { rewrite E1, Rabs_mult.
    assert (Rabs (1 + d1) <= 1 + u64) by (eapply Rle_trans; [apply Rabs_triang|]; rewrite Rabs_R1; lra).
    assert (Rabs (x - mh) * Rabs (1 + d1) <= 5 * M * (1 + u64)) by (apply Rmult_le_compat; try apply Rabs_pos; assumption).
    nra. }
  assert (A4 : Rabs (RN (x - mh) / K) <= 11 / 2 * M).
  { unfold Rdiv. rewrite Rabs_mult, (Rabs_pos_eq (/ K)) by lra. pose proof (Rabs_pos (RN (x - mh))). nra. }
  destruct (RN_gen (RN (x - mh) / K)) as [d2 [h2 [D2 [H2 E2]]]].
  assert (Heta : eta64 <= u64 * M).
  { unfold eta64, u64. change (-1075)%Z with (-53 + -1022)%Z. rewrite bpow_plus.
    apply Rmult_le_compat_l; [apply bpow_ge_0|exact HM]. }
  assert (A5 : Rabs (RN (RN (x - mh) / K)) <= 6 * M).
  { rewrite E2. eapply Rle_trans; [apply Rabs_triang|]. rewrite Rabs_mult.
    assert (Rabs (1 + d2) <= 1 + u64) by (eapply Rle_trans; [apply Rabs_triang|]; rewrite Rabs_R1; lra).
    assert (Rabs (RN (x - mh) / K) * Rabs (1 + d2) <= 11 / 2 * M * (1 + u64)) by (apply Rmult_le_compat; try apply Rabs_pos; assumption).
    nra. }
  split; [lra|]. split; [lra|].
  eapply Rle_trans; [apply Rabs_triang|]. lra.
Qed.

(* ====================================================================================== *)
(* 4. the hypotheses are satisfiable                                                       *)
(* ====================================================================================== *)
Lemma fmt_dyadic : forall (m e : Z), (Z.abs m < 2 ^ 53)%Z -> (-1074 <= e)%Z -> fmt (IZR m * bpow radix2 e).
Proof.
  intros m e Hm He. apply generic_format_FLT. exists (Float radix2 m e).
  - reflexivity.
  - exact Hm.
  - exact He.
Qed.

Ltac fmt_q m e :=
  match goal with |- fmt (Q2R ?q) /\ Rabs (Q2R ?q) <= ?B =>
    replace (Q2R q) with (IZR m * bpow radix2 e) by (unfold Q2R; cbn; lra);
    split; [apply fmt_dyadic; [reflexivity|lia]|cbn; apply Rabs_le; lra]
  end.

Lemma fp_stats_example_hyps :
  let xs := [3 # 2; -(5 # 4); 7; 7; 1 # 1024]%Q in
  bpow radix2 (-1022) <= 7 /\ xs <> [] /\
  Forall (fun x => fmt (Q2R x) /\ Rabs (Q2R x) <= 7) xs /\
  (Z.of_nat (length xs) <= 2 ^ 52)%Z /\ (Z.of_nat (length xs) + 1 <= 2 ^ 26)%Z.
Proof.
  cbv zeta. split.
  - apply Rle_trans with (bpow radix2 0); [apply bpow_le; lia|cbn; lra].
  - split; [discriminate|]. split; [|split; cbn; lia].
    apply Forall_cons; [fmt_q 3%Z (-1)%Z|].
    apply Forall_cons; [fmt_q (-5)%Z (-2)%Z|].
    apply Forall_cons; [fmt_q 7%Z 0%Z|].
    apply Forall_cons; [fmt_q 7%Z 0%Z|].
    apply Forall_cons; [fmt_q 1%Z (-10)%Z|].
    apply Forall_nil.
Qed.

(* ====================================================================================== *)
(* 5. the sum of squared deviations s of jls_statistics_add                                *)
(* ====================================================================================== *)
Definition rsumsq (xs : list R) : R := rsum (map (fun x => x * x) xs).
(* exact sum of squared deviations, in the form sum x^2 - n mean^2 (rss_eq_rssq below) *)
Definition rss (xs : list R) : R := rsumsq xs - INR (length xs) * (rmean xs * rmean xs).

Lemma rmean_nil : rmean [] = 0.
Proof. unfold rmean. cbn. unfold Rdiv. apply Rmult_0_l. Qed.

Lemma rmean_snoc : forall xs x, rmean (xs ++ [x]) = rmean xs + (x - rmean xs) / INR (S (length xs)).
Proof.
  intros xs x. unfold rmean. rewrite rsum_app, app_length. cbn [length rsum fold_right].
  replace (length xs + 1)%nat with (S (length xs)) by lia. rewrite Rplus_0_r.
  assert (HK : 0 < INR (S (length xs))) by (apply lt_0_INR; lia).
  destruct xs as [|y ys].
  - cbn. unfold Rdiv. rewrite Rmult_0_l. field.
  - assert (0 < INR (length (y :: ys))) by (apply lt_0_INR; cbn; lia).
    rewrite (S_INR (length (y :: ys))) in *. field. split; lra.
Qed.

Lemma rmean_bound : forall (M : R) (xs : list R), 0 <= M -> Forall (fun x => Rabs x <= M) xs -> Rabs (rmean xs) <= M.
Proof.
  intros M xs HM H. destruct xs as [|y ys].
  - rewrite rmean_nil, Rabs_R0. exact HM.
  - assert (HK : 0 < INR (length (y :: ys))) by (apply lt_0_INR; cbn; lia).
    unfold rmean, Rdiv. rewrite Rabs_mult, (Rabs_pos_eq (/ _)) by (apply Rlt_le, Rinv_0_lt_compat; exact HK).
    apply Rmult_le_reg_r with (INR (length (y :: ys))); [exact HK|]. rewrite Rmult_assoc, Rinv_l by lra.
    rewrite Rmult_1_r, Rmult_comm. apply rsum_bound. exact H.
Qed.

Lemma rsumsq_snoc : forall xs x, rsumsq (xs ++ [x]) = rsumsq xs + x * x.
Proof. intros xs x. unfold rsumsq. rewrite map_app, rsum_app. cbn. lra. Qed.

(* Welford's identity: s_k = s_(k-1) + (x - m_(k-1)) (x - m_k) *)
Lemma rss_snoc : forall xs x, rss (xs ++ [x]) = rss xs + (x - rmean xs) * (x - rmean (xs ++ [x])).
Proof.
  intros xs x. unfold rss. rewrite rsumsq_snoc, rmean_snoc, app_length. cbn [length].
  replace (length xs + 1)%nat with (S (length xs)) by lia.
  assert (HK : 0 < INR (S (length xs))) by (apply lt_0_INR; lia).
  rewrite S_INR in *. field. lra.
Qed.

Lemma rsum_sq_shift : forall (c : R) (xs : list R),
  rsum (map (fun x => (x - c) * (x - c)) xs) = rsumsq xs - 2 * c * rsum xs + INR (length xs) * (c * c).
Proof.
  intros c xs. unfold rsumsq. induction xs as [|x xs IH]; [cbn; lra|].
  cbn [map rsum fold_right length] in *. rewrite S_INR.
  change (fold_right Rplus 0 (map (fun x0 : R => (x0 - c) * (x0 - c)) xs)) with (rsum (map (fun x0 : R => (x0 - c) * (x0 - c)) xs)).
  rewrite IH. unfold rsum. lra.
Qed.

Lemma rss_eq_rssq : forall xs, rss xs = rssq xs.
Proof.
  intros xs. unfold rssq. rewrite rsum_sq_shift. unfold rss.
  destruct xs as [|y ys]; [rewrite rmean_nil; cbn; lra|].
  assert (HK : 0 < INR (length (y :: ys))) by (apply lt_0_INR; cbn; lia).
  assert (E : rsum (y :: ys) = INR (length (y :: ys)) * rmean (y :: ys)) by (unfold rmean; field; lra).
  rewrite E. ring.
Qed.

Lemma rss_bound : forall (M : R) (xs : list R), 0 <= M -> Forall (fun x => Rabs x <= M) xs ->
  Rabs (rss xs) <= 4 * INR (length xs) * (M * M).
Proof.
  intros M xs HM. induction xs as [|x xs IH] using rev_ind; intros H.
  - unfold rss, rsumsq. cbn. rewrite rmean_nil. rewrite Rabs_pos_eq; lra.
  - pose proof H as H'. apply Forall_app in H. destruct H as [Hxs Hx]. inversion Hx as [|? ? Bx _]. subst.
    rewrite rss_snoc, app_length. cbn [length]. replace (length xs + 1)%nat with (S (length xs)) by lia. rewrite S_INR.
    eapply Rle_trans; [apply Rabs_triang|]. rewrite Rabs_mult.
    pose proof (rmean_bound M xs HM Hxs) as B1. pose proof (rmean_bound M (xs ++ [x]) HM H') as B2.
    assert (A1 : Rabs (x - rmean xs) <= 2 * M) by (eapply Rle_trans; [apply Rabs_triang|]; rewrite Rabs_Ropp; lra).
    assert (A2 : Rabs (x - rmean (xs ++ [x])) <= 2 * M) by (eapply Rle_trans; [apply Rabs_triang|]; rewrite Rabs_Ropp; lra).
    assert (Rabs (x - rmean xs) * Rabs (x - rmean (xs ++ [x])) <= 2 * M * (2 * M)) by (apply Rmult_le_compat; try apply Rabs_pos; assumption).
    specialize (IH Hxs). lra.
Qed.

(* the mean error bound for every prefix, the empty one included *)
Lemma fp_mean_error0 : forall (M : R) (xs : list R), 0 <= M ->
  Forall (fun x => fmt x /\ Rabs x <= M) xs -> (Z.of_nat (length xs) <= 2 ^ 52)%Z ->
  Rabs (f_mean (fp_stats_add_list xs) - rmean xs) <= INR (length xs) * cstep M.
Proof.
  intros M xs HM Hall Hlen. destruct xs as [|y ys].
  - cbn. rewrite rmean_nil, Rminus_0_r, Rabs_R0. lra.
  - apply fp_mean_error; try assumption. discriminate.
Qed.

Lemma fp_add_list_fmt_s : forall xs, fmt (f_s (fp_stats_add_list xs)).
Proof.
  induction xs as [|x xs IH] using rev_ind; [apply fmt_0|].
  rewrite fp_add_list_snoc. cbn [fp_stats_add f_s]. apply fmt_RN.
Qed.

Lemma Rabs_1p : forall d, Rabs d <= u64 -> Rabs (1 + d) <= 1 + u64.
Proof. intros d H. eapply Rle_trans; [apply Rabs_triang|]. rewrite Rabs_R1. lra. Qed.

(* one update of s, with mean errors at most eps before and after *)
Definition sdelta (M eps : R) : R := eps * (1 + u64) + 2 * u64 * M.
Definition spi (M eps : R) : R := (1 + u64) * (sdelta M eps * (4 * M + sdelta M eps)) + 4 * u64 * (M * M) + eta64.

Lemma fp_s_step : forall (M eps S' : R) (mh mh' m m' sh s x : R),
  0 <= M -> 0 <= eps -> fmt mh -> fmt mh' -> fmt x -> fmt sh ->
  Rabs x <= M -> Rabs m <= M -> Rabs m' <= M ->
  Rabs (mh - m) <= eps -> Rabs (mh' - m') <= eps ->
  Rabs (s + (x - m) * (x - m')) <= S' ->
  Rabs (RN (sh + RN (RN (x - mh) * RN (x - mh'))) - (s + (x - m) * (x - m'))) <=
    (1 + u64) * (Rabs (sh - s) + spi M eps) + u64 * S'.
Proof.
  intros M eps S' mh mh' m m' sh s x HM Heps Fmh Fmh' Fx Fsh Bx Bm Bm' He He' HS'.
  pose proof u64_pos as Hu. pose proof u64_lt as Hu1. pose proof eta64_pos as Heta.
  destruct (RN_minus_rel x mh Fx Fmh) as [da [Da Ea]].
  destruct (RN_minus_rel x mh' Fx Fmh') as [db [Db Eb]].
  destruct (RN_gen (RN (x - mh) * RN (x - mh'))) as [dp [hp [Dp [Hp Ep]]]].
  destruct (RN_plus_rel sh (RN (RN (x - mh) * RN (x - mh'))) Fsh (fmt_RN _)) as [ds [Ds Es]].
  rewrite Es.
  set (ph := RN (RN (x - mh) * RN (x - mh'))) in *.
  set (a0 := x - m). set (b0 := x - m'). set (p0 := a0 * b0) in *.
  set (ah := RN (x - mh)) in *. set (bh := RN (x - mh')) in *.
  set (D := sdelta M eps).
  assert (HD0 : 0 <= D) by (unfold D, sdelta; nra).
  assert (Ba0 : Rabs a0 <= 2 * M) by (unfold a0; eapply Rle_trans; [apply Rabs_triang|]; rewrite Rabs_Ropp; lra).
  assert (Bb0 : Rabs b0 <= 2 * M) by (unfold b0; eapply Rle_trans; [apply Rabs_triang|]; rewrite Rabs_Ropp; lra).
  assert (Ha : Rabs (ah - a0) <= D).
  { rewrite Ea. replace ((x - mh) * (1 + da) - a0) with (- (mh - m) * (1 + da) + a0 * da) by (unfold a0; ring).
    eapply Rle_trans; [apply Rabs_triang|]. rewrite !Rabs_mult, Rabs_Ropp.
    pose proof (Rabs_1p da Da).
    assert (Rabs (mh - m) * Rabs (1 + da) <= eps * (1 + u64)) by (apply Rmult_le_compat; try apply Rabs_pos; assumption).
    assert (Rabs a0 * Rabs da <= 2 * M * u64) by (apply Rmult_le_compat; try apply Rabs_pos; assumption).
    unfold D, sdelta. lra. }
  assert (Hb : Rabs (bh - b0) <= D).
  { rewrite Eb. replace ((x - mh') * (1 + db) - b0) with (- (mh' - m') * (1 + db) + b0 * db) by (unfold b0; ring).
    eapply Rle_trans; [apply Rabs_triang|]. rewrite !Rabs_mult, Rabs_Ropp.
    pose proof (Rabs_1p db Db).
    assert (Rabs (mh' - m') * Rabs (1 + db) <= eps * (1 + u64)) by (apply Rmult_le_compat; try apply Rabs_pos; assumption).
    assert (Rabs b0 * Rabs db <= 2 * M * u64) by (apply Rmult_le_compat; try apply Rabs_pos; assumption).
    unfold D, sdelta. lra. }
  assert (Bbh : Rabs bh <= 2 * M + D).
  { replace bh with (b0 + (bh - b0)) by ring. eapply Rle_trans; [apply Rabs_triang|]. lra. }
  assert (Hab : Rabs (ah * bh - p0) <= D * (4 * M + D)).
  { replace (ah * bh - p0) with ((ah - a0) * bh + a0 * (bh - b0)) by (unfold p0; ring).
    eapply Rle_trans; [apply Rabs_triang|]. rewrite !Rabs_mult.
    assert (Rabs (ah - a0) * Rabs bh <= D * (2 * M + D)) by (apply Rmult_le_compat; try apply Rabs_pos; assumption).
    assert (Rabs a0 * Rabs (bh - b0) <= 2 * M * D) by (apply Rmult_le_compat; try apply Rabs_pos; assumption).
    lra. }
  assert (Bp0 : Rabs p0 <= 4 * (M * M)).
  { unfold p0. rewrite Rabs_mult.
    assert (Rabs a0 * Rabs b0 <= 2 * M * (2 * M)) by (apply Rmult_le_compat; try apply Rabs_pos; assumption). lra. }
  assert (Hph : Rabs (ph - p0) <= spi M eps).
  { rewrite Ep.
    replace (ah * bh * (1 + dp) + hp - p0) with ((ah * bh - p0) * (1 + dp) + p0 * dp + hp) by ring.
    eapply Rle_trans; [apply Rabs_triang|]. eapply Rle_trans; [apply Rplus_le_compat_r, Rabs_triang|].
    rewrite !Rabs_mult. pose proof (Rabs_1p dp Dp).
    assert (Rabs (ah * bh - p0) * Rabs (1 + dp) <= D * (4 * M + D) * (1 + u64)) by (apply Rmult_le_compat; try apply Rabs_pos; assumption).
    assert (Rabs p0 * Rabs dp <= 4 * (M * M) * u64) by (apply Rmult_le_compat; try apply Rabs_pos; assumption).
    unfold spi. fold D. lra. }
  fold p0 in HS' |- *.
  replace ((sh + ph) * (1 + ds) - (s + p0)) with (((sh - s) + (ph - p0)) * (1 + ds) + (s + p0) * ds) by ring.
  eapply Rle_trans; [apply Rabs_triang|]. rewrite !Rabs_mult. pose proof (Rabs_1p ds Ds).
  assert (Rabs (sh - s + (ph - p0)) <= Rabs (sh - s) + spi M eps) by (eapply Rle_trans; [apply Rabs_triang|]; lra).
  assert (Rabs (sh - s + (ph - p0)) * Rabs (1 + ds) <= (Rabs (sh - s) + spi M eps) * (1 + u64)).
  { apply Rmult_le_compat; try apply Rabs_pos; assumption. }
  assert (Rabs (s + p0) * Rabs ds <= S' * u64) by (apply Rmult_le_compat; try apply Rabs_pos; assumption).
  lra.
Qed.

(* error added to s by one call, when at most N samples are added in total *)
Definition sstep (M : R) (N : nat) : R :=
  (1 + 2 * INR N * u64) * ((1 + u64) * spi M (INR N * cstep M) + 4 * u64 * INR N * (M * M)).

Lemma spi_nonneg : forall M eps, 0 <= M -> 0 <= eps -> 0 <= spi M eps.
Proof.
  intros M eps HM He. unfold spi, sdelta. pose proof u64_pos. pose proof eta64_pos.
  assert (0 <= eps * (1 + u64) + 2 * u64 * M) by nra.
  assert (0 <= (eps * (1 + u64) + 2 * u64 * M) * (4 * M + (eps * (1 + u64) + 2 * u64 * M))) by (apply Rmult_le_pos; lra).
  assert (0 <= M * M) by nra. nra.
Qed.

Lemma fp_s_invariant : forall (M : R) (N : nat) (xs : list R), 0 <= M -> (Z.of_nat N <= 2 ^ 52)%Z ->
  Forall (fun x => fmt x /\ Rabs x <= M) xs -> (length xs <= N)%nat ->
  Rabs (f_s (fp_stats_add_list xs) - rss xs) <= INR (length xs) * sstep M N.
Proof.
  intros M N xs HM HN. induction xs as [|x xs IH] using rev_ind; intros Hall Hlen.
  - cbn. unfold rss, rsumsq. cbn. rewrite rmean_nil. replace (0 - (0 - 0 * (0 * 0))) with 0 by ring.
    rewrite Rabs_R0. lra.
  - pose proof Hall as Hall'. apply Forall_app in Hall. destruct Hall as [Hxs Hx]. inversion Hx as [|? ? [Fx Bx] _]. subst.
    rewrite app_length in Hlen. cbn [length] in Hlen.
    specialize (IH Hxs ltac:(lia)).
    pose proof u64_pos as Hu. pose proof u64_lt as Hu1.
    pose proof (cstep_nonneg M HM) as Hc0.
    set (eps := INR N * cstep M).
    assert (Heps : 0 <= eps) by (unfold eps; apply Rmult_le_pos; [apply pos_INR|exact Hc0]).
    assert (Hbx : Forall (fun x => Rabs x <= M) xs) by (eapply Forall_impl; [|exact Hxs]; intros a [_ Ha]; exact Ha).
    assert (Hbx' : Forall (fun x => Rabs x <= M) (xs ++ [x])) by (eapply Forall_impl; [|exact Hall']; intros a [_ Ha]; exact Ha).
    (* mean errors before and after *)
    assert (He : Rabs (f_mean (fp_stats_add_list xs) - rmean xs) <= eps).
    { eapply Rle_trans; [apply (fp_mean_error0 M); [exact HM|exact Hxs|lia]|].
      unfold eps. apply Rmult_le_compat_r; [exact Hc0|apply le_INR; lia]. }
    assert (He' : Rabs (f_mean (fp_stats_add_list (xs ++ [x])) - rmean (xs ++ [x])) <= eps).
    { eapply Rle_trans; [apply (fp_mean_error0 M); [exact HM|exact Hall'|rewrite app_length; cbn [length]; lia]|].
      unfold eps. apply Rmult_le_compat_r; [exact Hc0|apply le_INR; rewrite app_length; cbn [length]; lia]. }
    pose proof (rss_bound M (xs ++ [x]) HM Hbx') as HS.
    rewrite rss_snoc in HS |- *.
    rewrite app_length in HS |- *. cbn [length] in HS |- *. replace (length xs + 1)%nat with (S (length xs)) in HS |- * by lia.
    rewrite fp_add_list_snoc in He' |- *. unfold fp_stats_add in He' |- *. cbn [f_mean f_s] in He' |- *.
    eapply Rle_trans.
    { apply (fp_s_step M eps (4 * INR (S (length xs)) * (M * M))); try assumption.
      - apply fp_add_list_fmt.
      - apply fmt_RN.
      - apply fp_add_list_fmt_s.
      - apply rmean_bound; assumption.
      - apply rmean_bound; assumption. }
    (* close the recurrence *)
    set (k := INR (length xs)) in *. set (Pi := spi M eps) in *.
    assert (HPi : 0 <= Pi) by (apply spi_nonneg; assumption).
    assert (Hk0 : 0 <= k) by apply pos_INR.
    assert (HkN : k + 1 <= INR N) by (unfold k; rewrite <- S_INR; apply le_INR; lia).
    assert (Ht : 2 * INR N * u64 <= 1).
    { rewrite INR_IZR_INZ, u64_val.
      assert (IZR (Z.of_nat N) <= IZR (2 ^ 52)) by (apply IZR_le; exact HN).
      apply Rmult_le_reg_r with (IZR (2 ^ 53)); [apply IZR_lt; reflexivity|].
      rewrite Rmult_assoc, Rinv_l by (apply not_0_IZR; discriminate).
      replace (IZR (2 ^ 53)) with (2 * IZR (2 ^ 52)) by (rewrite <- mult_IZR; reflexivity). lra. }
    rewrite S_INR. fold k.
    unfold sstep in *. fold eps Pi in IH |- *.
    set (X := (1 + u64) * Pi + 4 * u64 * INR N * (M * M)) in *.
    assert (HMM : 0 <= M * M) by nra.
    assert (HX : 0 <= X).
    { unfold X. assert (0 <= 4 * u64 * INR N * (M * M)); [|nra].
      apply Rmult_le_pos; [|exact HMM]. apply Rmult_le_pos; [lra|apply pos_INR]. }
    set (t := INR N * u64) in *.
    assert (Ht0 : 0 <= t) by (unfold t; apply Rmult_le_pos; [apply pos_INR|lra]).
    replace (2 * INR N * u64) with (2 * t) in * by (unfold t; ring).
    assert (H1 : (1 + u64) * (Rabs (f_s (fp_stats_add_list xs) - rss xs) + Pi) <= (1 + u64) * (k * ((1 + 2 * t) * X) + Pi)).
    { apply Rmult_le_compat_l; lra. }
    (* u k D <= t D ;  4 u (k+1) M^2 <= 4 u N M^2 *)
    assert (H2 : u64 * (k * ((1 + 2 * t) * X)) <= t * ((1 + 2 * t) * X)).
    { replace (u64 * (k * ((1 + 2 * t) * X))) with (k * u64 * ((1 + 2 * t) * X)) by ring.
      apply Rmult_le_compat_r; [apply Rmult_le_pos; lra|]. unfold t. apply Rmult_le_compat_r; lra. }
    assert (H3 : u64 * (4 * (k + 1) * (M * M)) <= 4 * u64 * INR N * (M * M)).
    { replace (u64 * (4 * (k + 1) * (M * M))) with (4 * u64 * (k + 1) * (M * M)) by ring.
      apply Rmult_le_compat_r; [exact HMM|]. apply Rmult_le_compat_l; lra. }
    assert (H4 : t * ((1 + 2 * t) * X) <= 2 * t * X).
    { replace (t * ((1 + 2 * t) * X)) with (t * X * (1 + 2 * t)) by ring.
      replace (2 * t * X) with (t * X * 2) by ring. apply Rmult_le_compat_l; [apply Rmult_le_pos; lra|lra]. }
    unfold X in *. nra.
Qed.

(* forward error of s after n calls of jls_statistics_add; rssq = exact sum of squared deviations *)
Theorem fp_s_error : forall (M : R) (xs : list R), 0 <= M ->
  Forall (fun x => fmt x /\ Rabs x <= M) xs -> (Z.of_nat (length xs) <= 2 ^ 52)%Z ->
  Rabs (f_s (fp_stats_add_list xs) - rssq xs) <= INR (length xs) * sstep M (length xs).
Proof.
  intros M xs HM Hall Hlen. rewrite <- rss_eq_rssq. apply fp_s_invariant; try assumption. lia.
Qed.

(* the constant, for n <= 2^32 samples and M >= 2^-511:  n * sstep M n <= (21 n + 14) n u M^2 *)
Lemma sstep_simple : forall (M : R) (n : nat), bpow radix2 (-511) <= M -> (Z.of_nat n <= 2 ^ 32)%Z ->
  INR n * sstep M n <= (21 * INR n + 14) * INR n * u64 * (M * M).
Proof.
  intros M n HM Hn.
  pose proof u64_pos as Hu. pose proof u64_lt as Hu1. pose proof (bpow_gt_0 radix2 (-511)) as Hb.
  destruct n as [|n']; [cbn [INR]; lra|]. set (n := S n') in *.
  assert (HN1 : 1 <= INR n) by (unfold n; rewrite S_INR; pose proof (pos_INR n'); lra).
  set (N := INR n) in *. set (t := N * u64).
  assert (Ht : t <= / 1000000).
  { unfold t, N. rewrite INR_IZR_INZ, u64_val.
    assert (IZR (Z.of_nat n) <= IZR (2 ^ 32)) by (apply IZR_le; exact Hn).
    apply Rle_trans with (IZR (2 ^ 32) * / IZR (2 ^ 53)).
    - apply Rmult_le_compat_r; [apply Rlt_le, Rinv_0_lt_compat, IZR_lt; reflexivity|assumption].
    - replace (IZR (2 ^ 53)) with (IZR (2 ^ 32) * IZR (2 ^ 21)) by (rewrite <- mult_IZR; reflexivity).
      rewrite Rinv_mult, <- Rmult_assoc, Rinv_r, Rmult_1_l by (apply not_0_IZR; discriminate).
      apply Rinv_le_contravar; [lra|]. apply IZR_le. lia. }
  assert (Ht0 : u64 <= t) by (unfold t; nra).
  assert (HM0 : 0 < M) by lra.
  assert (HMM : 0 < M * M) by nra.
  (* eta64 <= u M^2 *)
  assert (Heta : eta64 <= u64 * (M * M)).
  { unfold eta64, u64. change (-1075)%Z with (-53 + (-511 + -511))%Z. rewrite !bpow_plus.
    apply Rmult_le_compat_l; [apply bpow_ge_0|]. apply Rmult_le_compat; try apply bpow_ge_0; assumption. }
  assert (Hc : cstep M <= (2 + u64) * (2 + u64) * u64 * M).
  { apply cstep_le. eapply Rle_trans; [|exact HM]. apply bpow_le. lia. }
  pose proof (cstep_nonneg M ltac:(lra)) as Hc0.
  set (eps := N * cstep M).
  assert (Heps0 : 0 <= eps) by (unfold eps; nra).
  assert (Heps : eps <= 401 / 100 * t * M).
  { unfold eps. apply Rle_trans with (N * ((2 + u64) * (2 + u64) * u64 * M)); [apply Rmult_le_compat_l; lra|].
    replace (N * ((2 + u64) * (2 + u64) * u64 * M)) with ((2 + u64) * (2 + u64) * (t * M)) by (unfold t; ring).
    replace (401 / 100 * t * M) with (401 / 100 * (t * M)) by ring.
    apply Rmult_le_compat_r; [unfold t; nra|nra]. }
  set (D := sdelta M eps).
  assert (HD0 : 0 <= D) by (unfold D, sdelta; nra).
  assert (HD : D <= (402 / 100 * t + 2 * u64) * M).
  { unfold D, sdelta.
    assert (eps * (1 + u64) <= 401 / 100 * t * M * (1 + u64)) by (apply Rmult_le_compat_r; lra).
    assert (0 <= t * M) by (unfold t; nra).
    nra. }
  set (D2 := (402 / 100 * t + 2 * u64) * M) in *.
  assert (HD2 : D2 <= 21 / 10000 * M) by (unfold D2; apply Rmult_le_compat_r; lra).
  assert (HDD : D * (4 * M + D) <= (1609 / 100 * t + 8005 / 1000 * u64) * (M * M)).
  { apply Rle_trans with (D2 * (4 * M + D2)); [apply Rmult_le_compat; lra|].
    apply Rle_trans with (D2 * (40021 / 10000 * M)); [apply Rmult_le_compat_l; [unfold D2; nra|lra]|].
    unfold D2. replace ((402 / 100 * t + 2 * u64) * M * (40021 / 10000 * M)) with ((402 / 100 * t + 2 * u64) * (40021 / 10000) * (M * M)) by ring.
    apply Rmult_le_compat_r; [lra|]. unfold t in *. nra. }
  assert (Hspi : spi M eps <= (1611 / 100 * t + 1302 / 100 * u64) * (M * M)).
  { unfold spi. fold D.
    assert ((1 + u64) * (D * (4 * M + D)) <= (1 + u64) * ((1609 / 100 * t + 8005 / 1000 * u64) * (M * M))) by (apply Rmult_le_compat_l; lra).
    assert ((1 + u64) * ((1609 / 100 * t + 8005 / 1000 * u64) * (M * M)) <= (1611 / 100 * t + 802 / 100 * u64) * (M * M)).
    { replace ((1 + u64) * ((1609 / 100 * t + 8005 / 1000 * u64) * (M * M))) with ((1 + u64) * (1609 / 100 * t + 8005 / 1000 * u64) * (M * M)) by ring.
      apply Rmult_le_compat_r; [lra|]. unfold t in *. nra. }
    lra. }
  assert (HX : (1 + u64) * spi M eps + 4 * u64 * N * (M * M) <= (2013 / 100 * t + 1304 / 100 * u64) * (M * M)).
  { assert ((1 + u64) * spi M eps <= (1 + u64) * ((1611 / 100 * t + 1302 / 100 * u64) * (M * M))) by (apply Rmult_le_compat_l; lra).
    assert ((1 + u64) * ((1611 / 100 * t + 1302 / 100 * u64) * (M * M)) <= (1613 / 100 * t + 1304 / 100 * u64) * (M * M)).
    { replace ((1 + u64) * ((1611 / 100 * t + 1302 / 100 * u64) * (M * M))) with ((1 + u64) * (1611 / 100 * t + 1302 / 100 * u64) * (M * M)) by ring.
      apply Rmult_le_compat_r; [lra|]. unfold t in *. nra. }
    replace (4 * u64 * N * (M * M)) with (4 * t * (M * M)) by (unfold t; ring). lra. }
  assert (HX0 : 0 <= (1 + u64) * spi M eps + 4 * u64 * N * (M * M)).
  { pose proof (spi_nonneg M eps ltac:(lra) Heps0). assert (0 <= 4 * u64 * N * (M * M)) by (apply Rmult_le_pos; [nra|lra]). nra. }
  assert (Hs : sstep M n <= (2014 / 100 * t + 1305 / 100 * u64) * (M * M)).
  { unfold sstep. fold N eps. replace (2 * N * u64) with (2 * t) by (unfold t; ring).
    apply Rle_trans with ((1 + 2 * t) * ((2013 / 100 * t + 1304 / 100 * u64) * (M * M))); [apply Rmult_le_compat_l; [unfold t; nra|lra]|].
    replace ((1 + 2 * t) * ((2013 / 100 * t + 1304 / 100 * u64) * (M * M))) with ((1 + 2 * t) * (2013 / 100 * t + 1304 / 100 * u64) * (M * M)) by ring.
    apply Rmult_le_compat_r; [lra|]. unfold t in *. nra. }
  apply Rle_trans with (N * ((2014 / 100 * t + 1305 / 100 * u64) * (M * M))); [apply Rmult_le_compat_l; lra|].
  replace (N * ((2014 / 100 * t + 1305 / 100 * u64) * (M * M))) with ((2014 / 100 * N + 1305 / 100) * N * u64 * (M * M)) by (unfold t; ring).
  apply Rmult_le_compat_r; [lra|]. apply Rmult_le_compat_r; [lra|]. nra.
Qed.

Theorem fp_s_error_simple : forall (M : R) (xs : list R), bpow radix2 (-511) <= M ->
  Forall (fun x => fmt x /\ Rabs x <= M) xs -> (Z.of_nat (length xs) <= 2 ^ 32)%Z ->
  Rabs (f_s (fp_stats_add_list xs) - rssq xs) <= (21 * INR (length xs) + 14) * INR (length xs) * u64 * (M * M).
Proof.
  intros M xs HM Hall Hlen. pose proof (bpow_gt_0 radix2 (-511)).
  eapply Rle_trans; [apply (fp_s_error M); [lra|exact Hall|lia]|]. apply sstep_simple; assumption.
Qed.

(* against the exact model's ssq_of *)
Lemma Q2R_ssq_of : forall xs : list Q, xs <> [] -> Q2R (ssq_of xs) = rssq (map Q2R xs).
Proof.
  intros xs Hne. unfold ssq_of, rssq. rewrite Q2R_qsum, map_map, map_map. rewrite <- Q2R_mean_of by exact Hne.
  f_equal. apply map_ext. intros a. rewrite Q2R_mult, Q2R_minus. reflexivity.
Qed.

Theorem fp_s_error_Q : forall (M : R) (xs : list Q), bpow radix2 (-511) <= M -> xs <> [] ->
  Forall (fun x => fmt (Q2R x) /\ Rabs (Q2R x) <= M) xs -> (Z.of_nat (length xs) <= 2 ^ 32)%Z ->
  Rabs (f_s (fp_stats_add_list (map Q2R xs)) - Q2R (ssq_of xs)) <=
    (21 * INR (length xs) + 14) * INR (length xs) * u64 * (M * M).
Proof.
  intros M xs HM Hne Hall Hlen. rewrite Q2R_ssq_of by exact Hne.
  replace (length xs) with (length (map Q2R xs)) by apply map_length.
  apply fp_s_error_simple; try assumption.
  - apply Forall_map. exact Hall.
  - rewrite map_length. exact Hlen.
Qed.

(* ====================================================================================== *)
(* 6. IEEE-754 binary64 operations (Flocq BinarySingleNaN) refine the model RN             *)
(* ====================================================================================== *)
(* jls_statistics_add on binary64 values, operation by operation as the C evaluates it
   (no fused multiply-add).  Computable: vm_compute runs it (fp_stats_matches_C). *)
Definition b64_plus (x y : b64) : b64 := @Bplus 53 1024 b64_prec_gt_0 b64_prec_lt_emax mode_NE x y.
Definition b64_minus (x y : b64) : b64 := @Bminus 53 1024 b64_prec_gt_0 b64_prec_lt_emax mode_NE x y.

Record bstats : Type := mkBstats { b_k : Z; b_mean : b64; b_s : b64 }.
Definition b64_stats_reset : bstats := mkBstats 0 (B754_zero false) (B754_zero false).
Definition b64_stats_add (st : bstats) (x : b64) : bstats :=
  let k := (b_k st + 1)%Z in
  let m_old := b_mean st in
  let m_new := b64_plus m_old (b64_div (b64_minus x m_old) (b64_of_Z k)) in
  mkBstats k m_new (b64_plus (b_s st) (b64_mul (b64_minus x m_old) (b64_minus x m_new))).
Definition b64_stats_add_list (xs : list b64) : bstats := fold_left b64_stats_add xs b64_stats_reset.

Lemma b64_plus_RN : forall x y : b64, is_finite x = true -> is_finite y = true ->
  Rabs (B2R x + B2R y) <= bpow radix2 1023 ->
  B2R (b64_plus x y) = RN (B2R x + B2R y) /\ is_finite (b64_plus x y) = true.
Proof.
  intros x y Fx Fy Hb. unfold b64_plus.
  pose proof (Bplus_correct 53 1024 b64_prec_gt_0 b64_prec_lt_emax mode_NE x y Fx Fy) as H.
  rewrite b64_fexp in H. cbn [round_mode] in H. fold (RN (B2R x + B2R y)) in H.
  rewrite Rlt_bool_true in H.
  - destruct H as [H1 [H2 _]]. split; assumption.
  - apply Rle_lt_trans with (bpow radix2 1023); [apply RN_abs_le_bpow; [lia|exact Hb]|apply bpow_lt; reflexivity].
Qed.

Lemma b64_minus_RN : forall x y : b64, is_finite x = true -> is_finite y = true ->
  Rabs (B2R x - B2R y) <= bpow radix2 1023 ->
  B2R (b64_minus x y) = RN (B2R x - B2R y) /\ is_finite (b64_minus x y) = true.
Proof.
  intros x y Fx Fy Hb. unfold b64_minus.
  pose proof (Bminus_correct 53 1024 b64_prec_gt_0 b64_prec_lt_emax mode_NE x y Fx Fy) as H.
  rewrite b64_fexp in H. cbn [round_mode] in H. fold (RN (B2R x - B2R y)) in H.
  rewrite Rlt_bool_true in H.
  - destruct H as [H1 [H2 _]]. split; assumption.
  - apply Rle_lt_trans with (bpow radix2 1023); [apply RN_abs_le_bpow; [lia|exact Hb]|apply bpow_lt; reflexivity].
Qed.

Lemma fmt_B2R : forall x : b64, fmt (B2R x).
Proof. intros x. unfold fmt. rewrite <- b64_fexp. apply generic_format_B2R. Qed.

(* one call: if the exact result of each of the six operations is below 2^1023 in magnitude, the
   IEEE operations deliver exactly the values of the model fp_stats_add *)
Lemma b64_stats_add_refines : forall (st : bstats) (x : b64),
  is_finite (b_mean st) = true -> is_finite (b_s st) = true -> is_finite x = true ->
  (0 <= b_k st)%Z -> (b_k st + 1 <= 2 ^ 53)%Z ->
  let fst := mkFstats (Z.to_nat (b_k st)) (B2R (b_mean st)) (B2R (b_s st)) in
  let mo := B2R (b_mean st) in
  let K := INR (S (Z.to_nat (b_k st))) in
  let mn := f_mean (fp_stats_add fst (B2R x)) in
  Rabs (B2R x - mo) <= bpow radix2 1023 ->
  Rabs (RN (B2R x - mo) / K) <= bpow radix2 1023 ->
  Rabs (mo + RN (RN (B2R x - mo) / K)) <= bpow radix2 1023 ->
  Rabs (B2R x - mn) <= bpow radix2 1023 ->
  Rabs (RN (B2R x - mo) * RN (B2R x - mn)) <= bpow radix2 1023 ->
  Rabs (B2R (b_s st) + RN (RN (B2R x - mo) * RN (B2R x - mn))) <= bpow radix2 1023 ->
  let st' := b64_stats_add st x in
  is_finite (b_mean st') = true /\ is_finite (b_s st') = true /\
  b_k st' = (b_k st + 1)%Z /\
  B2R (b_mean st') = f_mean (fp_stats_add fst (B2R x)) /\
  B2R (b_s st') = f_s (fp_stats_add fst (B2R x)).
Proof.
  intros st x Fm Fs Fx Hk0 Hk fst mo K mn B1 B2 B3 B4 B5 B6 st'.
  assert (HK : IZR (b_k st + 1) = K).
  { unfold K. rewrite INR_IZR_INZ. f_equal. lia. }
  assert (HKpos : 0 < K) by (unfold K; apply lt_0_INR; lia).
  assert (HRK : RN K = K) by (unfold K; apply RN_INR; lia).
  destruct (b64_of_Z_exact (b_k st + 1) ltac:(lia)) as [Vk Fk]. rewrite HK in Vk.
  destruct (b64_minus_RN x (b_mean st) Fx Fm B1) as [Va Fa]. fold mo in Va.
  destruct (b64_div_RN (b64_minus x (b_mean st)) (b64_of_Z (b_k st + 1))) as [Vq Fq].
  { rewrite Vk. lra. } { exact Fa. } { rewrite Va, Vk. exact B2. }
  rewrite Va, Vk in Vq.
  destruct (b64_plus_RN (b_mean st) (b64_div (b64_minus x (b_mean st)) (b64_of_Z (b_k st + 1))) Fm Fq) as [Vm Fmn].
  { rewrite Vq. fold mo. exact B3. }
  rewrite Vq in Vm. fold mo in Vm.
  assert (Emn : mn = RN (mo + RN (RN (B2R x - mo) / K))).
  { unfold mn, fp_stats_add, fst. cbn [f_mean f_k]. fold mo K. rewrite HRK. reflexivity. }
  rewrite <- Emn in Vm.
  destruct (b64_minus_RN x (b64_plus (b_mean st) (b64_div (b64_minus x (b_mean st)) (b64_of_Z (b_k st + 1)))) Fx Fmn) as [Vb Fb].
  { rewrite Vm. exact B4. }
  rewrite Vm in Vb.
  destruct (b64_mul_RN _ _ Fa Fb) as [Vp Fp].
  { rewrite Va, Vb. exact B5. }
  rewrite Va, Vb in Vp.
  destruct (b64_plus_RN (b_s st) _ Fs Fp) as [Vs Fsn].
  { rewrite Vp. exact B6. }
  rewrite Vp in Vs.
  unfold st', b64_stats_add. cbn [b_mean b_s b_k].
  split; [exact Fmn|]. split; [exact Fsn|]. split; [reflexivity|].
  split; [exact Vm|].
  rewrite Vs. unfold fp_stats_add, fst. cbn [f_s f_mean f_k]. fold mo K. rewrite HRK. rewrite <- Emn. reflexivity.
Qed.

Lemma fp_mean_abs_bound : forall (M : R) (xs : list R), bpow radix2 (-1022) <= M ->
  Forall (fun x => fmt x /\ Rabs x <= M) xs -> (Z.of_nat (length xs) <= 2 ^ 52)%Z ->
  Rabs (f_mean (fp_stats_add_list xs)) <= 4 * M.
Proof.
  intros M xs HM Hall Hlen.
  pose proof (bpow_gt_0 radix2 (-1022)) as Hb. pose proof u64_pos as Hu. pose proof u64_lt as Hu1.
  destruct (fp_mean_invariant M xs ltac:(lra) Hall Hlen) as [m [_ [_ [Hm He]]]].
  assert (Hn : INR (length xs) * cstep M <= 3 * M).
  { pose proof (cstep_le M HM) as Hc. pose proof (cstep_nonneg M ltac:(lra)) as Hc0.
    assert (Hnu : INR (length xs) * u64 <= / 2).
    { rewrite INR_IZR_INZ, u64_val.
      assert (IZR (Z.of_nat (length xs)) <= IZR (2 ^ 52)) by (apply IZR_le; lia).
      apply Rmult_le_reg_r with (IZR (2 ^ 53)); [apply IZR_lt; reflexivity|].
      rewrite Rmult_assoc, Rinv_l by (apply not_0_IZR; discriminate).
      replace (IZR (2 ^ 53)) with (2 * IZR (2 ^ 52)) by (rewrite <- mult_IZR; reflexivity). lra. }
    pose proof (pos_INR (length xs)) as Hn0.
    assert (H5 : (2 + u64) * (2 + u64) <= 5) by nra.
    assert (cstep M <= 5 * (u64 * M)).
    { eapply Rle_trans; [exact Hc|].
      replace ((2 + u64) * (2 + u64) * u64 * M) with ((2 + u64) * (2 + u64) * (u64 * M)) by ring.
      apply Rmult_le_compat_r; [apply Rmult_le_pos; lra|exact H5]. }
    assert (INR (length xs) * cstep M <= INR (length xs) * (5 * (u64 * M))) by (apply Rmult_le_compat_l; lra).
    assert (INR (length xs) * u64 * M <= / 2 * M) by (apply Rmult_le_compat_r; lra).
    lra. }
  replace (f_mean (fp_stats_add_list xs)) with (m + (f_mean (fp_stats_add_list xs) - m)) by ring.
  eapply Rle_trans; [apply Rabs_triang|]. lra.
Qed.

Lemma fp_s_abs_bound : forall (M : R) (xs : list R), bpow radix2 (-511) <= M ->
  Forall (fun x => fmt x /\ Rabs x <= M) xs -> (Z.of_nat (length xs) <= 2 ^ 32)%Z ->
  Rabs (f_s (fp_stats_add_list xs)) <= IZR (2 ^ 35) * (M * M).
Proof.
  intros M xs HM Hall Hlen.
  pose proof (bpow_gt_0 radix2 (-511)) as Hb. pose proof u64_pos as Hu.
  pose proof (fp_s_error_simple M xs HM Hall Hlen) as He. rewrite <- rss_eq_rssq in He.
  assert (Hbx : Forall (fun x => Rabs x <= M) xs) by (eapply Forall_impl; [|exact Hall]; intros a [_ Ha]; exact Ha).
  pose proof (rss_bound M xs ltac:(lra) Hbx) as Hs.
  set (N := INR (length xs)) in *.
  assert (HN : 0 <= N <= IZR (2 ^ 32)).
  { split; [apply pos_INR|]. unfold N. rewrite INR_IZR_INZ. apply IZR_le. exact Hlen. }
  assert (HMM : 0 <= M * M) by nra.
  (* (21 N + 14) N u <= 35 * 2^64 * 2^-53 = 35 * 2^11 *)
  assert (Hq : (21 * N + 14) * N * u64 <= IZR (35 * 2 ^ 11)).
  { rewrite u64_val.
    apply Rmult_le_reg_r with (IZR (2 ^ 53)); [apply IZR_lt; reflexivity|].
    rewrite Rmult_assoc, Rinv_l by (apply not_0_IZR; discriminate). rewrite Rmult_1_r.
    rewrite <- mult_IZR. replace (IZR (35 * 2 ^ 11 * 2 ^ 53)) with (35 * (IZR (2 ^ 32) * IZR (2 ^ 32))) by (rewrite <- !mult_IZR; reflexivity).
    assert (1 <= IZR (2 ^ 32)) by (apply IZR_le; lia). nra. }
  replace (f_s (fp_stats_add_list xs)) with (rss xs + (f_s (fp_stats_add_list xs) - rss xs)) by ring.
  eapply Rle_trans; [apply Rabs_triang|].
  assert (H1 : (21 * N + 14) * N * u64 * (M * M) <= IZR (35 * 2 ^ 11) * (M * M)) by (apply Rmult_le_compat_r; assumption).
  assert (H2 : 4 * N * (M * M) <= 4 * IZR (2 ^ 32) * (M * M)) by (apply Rmult_le_compat_r; [assumption|lra]).
  replace (IZR (2 ^ 35)) with (4 * IZR (2 ^ 32) + IZR (2 ^ 34)) by (rewrite <- mult_IZR, <- plus_IZR; reflexivity).
  assert (IZR (35 * 2 ^ 11) <= IZR (2 ^ 34)) by (apply IZR_le; lia).
  nra.
Qed.

(* the whole run: n <= 2^32 finite doubles of magnitude at most M, 2^-511 <= M <= 2^480: no
   operation overflows and the IEEE computation IS the model fp_stats_add_list *)
Theorem b64_stats_add_list_refines : forall (M : R) (xs : list b64),
  bpow radix2 (-511) <= M <= bpow radix2 480 ->
  Forall (fun x => is_finite x = true /\ Rabs (B2R x) <= M) xs -> (Z.of_nat (length xs) <= 2 ^ 32)%Z ->
  let st := b64_stats_add_list xs in
  is_finite (b_mean st) = true /\ is_finite (b_s st) = true /\ b_k st = Z.of_nat (length xs) /\
  fp_stats_add_list (map B2R xs) = mkFstats (length xs) (B2R (b_mean st)) (B2R (b_s st)).
Proof.
  intros M xs [HM HM2]. induction xs as [|x xs IH] using rev_ind; intros Hall Hlen.
  - cbn. repeat split; reflexivity.
  - apply Forall_app in Hall. destruct Hall as [Hxs Hx]. inversion Hx as [|? ? [Fx Bx] _]. subst.
    rewrite app_length in Hlen |- *. cbn [length] in Hlen |- *.
    destruct (IH Hxs ltac:(lia)) as [Fm [Fs [Hk Hst]]]. clear IH.
    cbv zeta. unfold b64_stats_add_list. rewrite fold_left_app. cbn [fold_left]. fold (b64_stats_add_list xs).
    set (st := b64_stats_add_list xs) in *.
    pose proof (bpow_gt_0 radix2 (-511)) as Hb. pose proof u64_pos as Hu. pose proof u64_lt as Hu1.
    assert (HM1022 : bpow radix2 (-1022) <= M) by (eapply Rle_trans; [|exact HM]; apply bpow_le; lia).
    assert (HallR : Forall (fun x => fmt x /\ Rabs x <= M) (map B2R xs)).
    { apply Forall_map. eapply Forall_impl; [|exact Hxs]. intros a [_ Ha]. split; [apply fmt_B2R|exact Ha]. }
    assert (HallR' : Forall (fun x => fmt x /\ Rabs x <= M) (map B2R (xs ++ [x]))).
    { rewrite map_app. apply Forall_app. split; [exact HallR|]. constructor; [|constructor]. split; [apply fmt_B2R|exact Bx]. }
    assert (Efst : mkFstats (Z.to_nat (b_k st)) (B2R (b_mean st)) (B2R (b_s st)) = fp_stats_add_list (map B2R xs)).
    { rewrite Hst, Hk, Nat2Z.id. reflexivity. }
    assert (Emo : B2R (b_mean st) = f_mean (fp_stats_add_list (map B2R xs))) by (rewrite Hst; reflexivity).
    assert (Eso : B2R (b_s st) = f_s (fp_stats_add_list (map B2R xs))) by (rewrite Hst; reflexivity).
    assert (Enew : fp_stats_add (fp_stats_add_list (map B2R xs)) (B2R x) = fp_stats_add_list (map B2R (xs ++ [x]))).
    { rewrite map_app. cbn [map]. rewrite fp_add_list_snoc. reflexivity. }
    (* magnitudes *)
    assert (L0 : (Z.of_nat (length xs) + 1 <= 2 ^ 32)%Z) by (clear - Hlen; lia).
    assert (L1 : (Z.of_nat (length (map B2R xs)) <= 2 ^ 52)%Z) by (rewrite map_length; clear - L0; lia).
    assert (L1' : (Z.of_nat (length (map B2R (xs ++ [x]))) <= 2 ^ 52)%Z) by (rewrite map_length, app_length; cbn [length]; clear - L0; lia).
    pose proof (fp_mean_abs_bound M _ HM1022 HallR L1) as Amo.
    pose proof (fp_mean_abs_bound M _ HM1022 HallR' L1') as Amn.
    destruct (fp_add_mean_bounded M (map B2R xs) (B2R x) HM1022 HallR (fmt_B2R x) Bx ltac:(rewrite map_length; clear - L0; lia)) as [C1 [C2 C3]].
    rewrite map_length in C2, C3.
    assert (L2 : (Z.of_nat (length (map B2R xs)) <= 2 ^ 32)%Z) by (rewrite map_length; clear - L0; lia).
    pose proof (fp_s_abs_bound M _ HM HallR L2) as As.
    assert (HMb : 10 * M <= bpow radix2 1023).
    { apply Rle_trans with (bpow radix2 4 * bpow radix2 480); [|rewrite <- bpow_plus; apply bpow_le; lia].
      rewrite (bpow_IZR 4) by lia. change (IZR (2 ^ 4)) with 16. nra. }
    assert (HMM : M * M <= bpow radix2 960).
    { change 960%Z with (480 + 480)%Z. rewrite bpow_plus. apply Rmult_le_compat; lra. }
    assert (HMM0 : 0 <= M * M) by nra.
    destruct (b64_stats_add_refines st x Fm Fs Fx ltac:(clear - Hk; lia) ltac:(clear - Hk L0; lia)) as [R1 [R2 [R3 [R4 R5]]]].
    + rewrite Emo. lra.
    + rewrite Emo, Hk, Nat2Z.id. lra.
    + rewrite Emo, Hk, Nat2Z.id. lra.
    + rewrite Efst, Enew. eapply Rle_trans; [apply Rabs_triang|]. rewrite Rabs_Ropp. lra.
    + rewrite Efst, Enew, Emo.
      (* |RN (x - mo)| <= 6 M, |RN (x - mn)| <= 6 M *)
      assert (Ha : Rabs (RN (B2R x - f_mean (fp_stats_add_list (map B2R xs)))) <= 6 * M).
      { destruct (RN_minus_rel (B2R x) _ (fmt_B2R x) (fp_add_list_fmt (map B2R xs))) as [d [D E]]. rewrite E, Rabs_mult.
        assert (Rabs (B2R x - f_mean (fp_stats_add_list (map B2R xs))) <= 5 * M) by (eapply Rle_trans; [apply Rabs_triang|]; rewrite Rabs_Ropp; lra).
        pose proof (Rabs_1p d D).
        assert (Rabs (B2R x - f_mean (fp_stats_add_list (map B2R xs))) * Rabs (1 + d) <= 5 * M * (1 + u64)) by (apply Rmult_le_compat; try apply Rabs_pos; assumption).
        nra. }
      assert (Hbn : Rabs (RN (B2R x - f_mean (fp_stats_add_list (map B2R (xs ++ [x]))))) <= 6 * M).
      { destruct (RN_minus_rel (B2R x) _ (fmt_B2R x) (fp_add_list_fmt (map B2R (xs ++ [x])))) as [d [D E]]. rewrite E, Rabs_mult.
        assert (Rabs (B2R x - f_mean (fp_stats_add_list (map B2R (xs ++ [x])))) <= 5 * M) by (eapply Rle_trans; [apply Rabs_triang|]; rewrite Rabs_Ropp; lra).
        pose proof (Rabs_1p d D).
        assert (Rabs (B2R x - f_mean (fp_stats_add_list (map B2R (xs ++ [x])))) * Rabs (1 + d) <= 5 * M * (1 + u64)) by (apply Rmult_le_compat; try apply Rabs_pos; assumption).
        nra. }
      rewrite Rabs_mult.
      apply Rle_trans with (6 * M * (6 * M)); [apply Rmult_le_compat; try apply Rabs_pos; assumption|].
      apply Rle_trans with (bpow radix2 6 * bpow radix2 960); [|rewrite <- bpow_plus; apply bpow_le; lia].
      rewrite (bpow_IZR 6) by lia. change (IZR (2 ^ 6)) with 64. nra.
    + rewrite Efst, Enew, Emo, Eso.
      assert (Ha : Rabs (RN (B2R x - f_mean (fp_stats_add_list (map B2R xs)))) <= 6 * M).
      { destruct (RN_minus_rel (B2R x) _ (fmt_B2R x) (fp_add_list_fmt (map B2R xs))) as [d [D E]]. rewrite E, Rabs_mult.
        assert (Rabs (B2R x - f_mean (fp_stats_add_list (map B2R xs))) <= 5 * M) by (eapply Rle_trans; [apply Rabs_triang|]; rewrite Rabs_Ropp; lra).
        pose proof (Rabs_1p d D).
        assert (Rabs (B2R x - f_mean (fp_stats_add_list (map B2R xs))) * Rabs (1 + d) <= 5 * M * (1 + u64)) by (apply Rmult_le_compat; try apply Rabs_pos; assumption).
        nra. }
      assert (Hbn : Rabs (RN (B2R x - f_mean (fp_stats_add_list (map B2R (xs ++ [x]))))) <= 6 * M).
      { destruct (RN_minus_rel (B2R x) _ (fmt_B2R x) (fp_add_list_fmt (map B2R (xs ++ [x])))) as [d [D E]]. rewrite E, Rabs_mult.
        assert (Rabs (B2R x - f_mean (fp_stats_add_list (map B2R (xs ++ [x])))) <= 5 * M) by (eapply Rle_trans; [apply Rabs_triang|]; rewrite Rabs_Ropp; lra).
        pose proof (Rabs_1p d D).
        assert (Rabs (B2R x - f_mean (fp_stats_add_list (map B2R (xs ++ [x])))) * Rabs (1 + d) <= 5 * M * (1 + u64)) by (apply Rmult_le_compat; try apply Rabs_pos; assumption).
        nra. }
      set (a := RN (B2R x - f_mean (fp_stats_add_list (map B2R xs)))) in *.
      set (b := RN (B2R x - f_mean (fp_stats_add_list (map B2R (xs ++ [x]))))) in *.
      assert (Hab : Rabs (a * b) <= 36 * (M * M)).
      { rewrite Rabs_mult. apply Rle_trans with (6 * M * (6 * M)); [apply Rmult_le_compat; try apply Rabs_pos; assumption|lra]. }
      destruct (RN_gen (a * b)) as [d [h [D [H E]]]].
      assert (Heta : eta64 <= u64 * (M * M)).
      { unfold eta64, u64. change (-1075)%Z with (-53 + (-511 + -511))%Z. rewrite !bpow_plus.
        apply Rmult_le_compat_l; [apply bpow_ge_0|]. apply Rmult_le_compat; try apply bpow_ge_0; lra. }
      assert (Hp : Rabs (RN (a * b)) <= 37 * (M * M)).
      { rewrite E. eapply Rle_trans; [apply Rabs_triang|]. rewrite Rabs_mult. pose proof (Rabs_1p d D).
        assert (Rabs (a * b) * Rabs (1 + d) <= 36 * (M * M) * (1 + u64)) by (apply Rmult_le_compat; try apply Rabs_pos; assumption).
        nra. }
      eapply Rle_trans; [apply Rabs_triang|].
      apply Rle_trans with (IZR (2 ^ 36) * (M * M)).
      { replace (IZR (2 ^ 36)) with (IZR (2 ^ 35) + IZR (2 ^ 35)) by (rewrite <- plus_IZR; reflexivity).
        assert (37 <= IZR (2 ^ 35)) by (apply IZR_le; lia). nra. }
      apply Rle_trans with (bpow radix2 36 * bpow radix2 960); [|rewrite <- bpow_plus; apply bpow_le; lia].
      rewrite (bpow_IZR 36) by lia. apply Rmult_le_compat_l; [apply IZR_le; lia|exact HMM].
    + split; [exact R1|]. split; [exact R2|]. split; [rewrite R3, Hk; clear; lia|].
      rewrite <- Enew, <- Efst. rewrite R4, R5.
      replace (length xs + 1)%nat with (S (Z.to_nat (b_k st))) by (rewrite Hk, Nat2Z.id; lia).
      reflexivity.
Qed.

(* ---- the bounds of sections 2 and 5 for the IEEE computation itself ---- *)
Theorem b64_stats_add_error : forall (M : R) (xs : list b64),
  bpow radix2 (-511) <= M <= bpow radix2 480 -> xs <> [] ->
  Forall (fun x => is_finite x = true /\ Rabs (B2R x) <= M) xs -> (Z.of_nat (length xs) <= 2 ^ 32)%Z ->
  let st := b64_stats_add_list xs in
  is_finite (b_mean st) = true /\ is_finite (b_s st) = true /\ b_k st = Z.of_nat (length xs) /\
  Rabs (B2R (b_mean st) - rmean (map B2R xs)) <= 5 * INR (length xs) * u64 * M /\
  Rabs (B2R (b_s st) - rssq (map B2R xs)) <= (21 * INR (length xs) + 14) * INR (length xs) * u64 * (M * M).
Proof.
  intros M xs HM Hne Hall Hlen st.
  destruct (b64_stats_add_list_refines M xs HM Hall Hlen) as [Fm [Fs [Hk Hst]]]. fold st in Fm, Fs, Hk, Hst.
  split; [exact Fm|]. split; [exact Fs|]. split; [exact Hk|].
  assert (HallR : Forall (fun x => fmt x /\ Rabs x <= M) (map B2R xs)).
  { apply Forall_map. eapply Forall_impl; [|exact Hall]. intros a [_ Ha]. split; [apply fmt_B2R|exact Ha]. }
  assert (Em : B2R (b_mean st) = f_mean (fp_stats_add_list (map B2R xs))) by (rewrite Hst; reflexivity).
  assert (Es : B2R (b_s st) = f_s (fp_stats_add_list (map B2R xs))) by (rewrite Hst; reflexivity).
  rewrite Em, Es. replace (length xs) with (length (map B2R xs)) by apply map_length.
  destruct HM as [HM1 HM2]. split.
  - apply fp_mean_error_5nuM; try assumption.
    + eapply Rle_trans; [|exact HM1]. apply bpow_le. lia.
    + destruct xs; [contradiction|discriminate].
    + rewrite map_length. lia.
  - apply fp_s_error_simple; try assumption. rewrite map_length. exact Hlen.
Qed.

(* the binary64 model returns, bit for bit, what the real C printed (build/plain/jlsrun stats,
   "R 0 A 0 0 n P 0": reset, n calls of jls_statistics_add, print) for two sequences;
   values as (mantissa, exponent) *)
Definition b64_mk (p : Z * Z) : b64 :=
  binary_normalize 53 1024 b64_prec_gt_0 b64_prec_lt_emax mode_NE (fst p) (snd p) false.

Lemma fp_stats_matches_C :
  (let st := b64_stats_add_list (map b64_mk [(3, -1); (-5, -2); (7, 0); (7, 0); (1, -10)]%Z) in
   Beqb (b_mean st) (b64_mk (6418069273654067, -51)%Z) && Beqb (b_s st) (b64_mk (8612350992685466, -47)%Z)) = true /\
  (let st := b64_stats_add_list (map b64_mk [(4503599627370497, -12); (4503599627370499, -12); (4503599627370498, -12); (-1, -20); (1, 30); (3, 0)]%Z) in
   Beqb (b_mean st) (b64_mk (4505065642878295, -13)%Z) && Beqb (b_s st) (b64_mk (6751004973671767, 28)%Z)) = true.
Proof. split; vm_compute; reflexivity. Qed.

Lemma b64_mk_exact : forall m e : Z, (Z.abs m <= 2 ^ 53)%Z -> (-1074 <= e <= 900)%Z ->
  is_finite (b64_mk (m, e)) = true /\ B2R (b64_mk (m, e)) = IZR m * bpow radix2 e.
Proof.
  intros m e Hm He. unfold b64_mk. cbn [fst snd].
  pose proof (binary_normalize_correct 53 1024 b64_prec_gt_0 b64_prec_lt_emax mode_NE m e false) as H.
  cbv zeta in H. rewrite b64_fexp in H. cbn [round_mode] in H.
  set (x := F2R (Float radix2 m e)) in *. fold (RN x) in H.
  assert (Hx : x = IZR m * bpow radix2 e) by reflexivity.
  assert (Fx : fmt x) by (rewrite Hx; apply format_IZR_bpow; [exact Hm|lia]).
  rewrite (RN_id x Fx) in H.
  rewrite Rlt_bool_true in H.
  - destruct H as [H1 [H2 _]]. split; [exact H2|]. rewrite H1. exact Hx.
  - rewrite Hx, Rabs_mult, (Rabs_pos_eq (bpow _ _)) by apply bpow_ge_0.
    apply Rle_lt_trans with (bpow radix2 53 * bpow radix2 900).
    + apply Rmult_le_compat; [apply Rabs_pos|apply bpow_ge_0| |apply bpow_le; lia].
      rewrite (bpow_IZR 53) by lia. apply IZR_abs_le. exact Hm.
    + rewrite <- bpow_plus. apply bpow_lt. reflexivity.
Qed.

Lemma b64_stats_example_hyps :
  let xs := map b64_mk [(3, -1); (-5, -2); (7, 0); (7, 0); (1, -10)]%Z in
  bpow radix2 (-511) <= 7 <= bpow radix2 480 /\ xs <> [] /\
  Forall (fun x => is_finite x = true /\ Rabs (B2R x) <= 7) xs /\ (Z.of_nat (length xs) <= 2 ^ 32)%Z.
Proof.
  cbv zeta. split; [split|].
  - apply Rle_trans with (bpow radix2 0); [apply bpow_le; lia|cbn; lra].
  - apply Rle_trans with (bpow radix2 3); [cbn; lra|apply bpow_le; lia].
  - split; [discriminate|]. split; [|cbn; lia].
    cbn [map].
    repeat (apply Forall_cons; [match goal with |- is_finite (b64_mk (?m, ?e)) = true /\ _ =>
      destruct (b64_mk_exact m e ltac:(lia) ltac:(lia)) as [F V]; split; [exact F|rewrite V; cbn; apply Rabs_le; lra] end|]).
    apply Forall_nil.
Qed.

(* ====================================================================================== *)
(* 7. the two-pass sum of squared deviations                                               *)
(*    for (...) { m = x[i] - v_mean; v_var += m * m; }                                     *)
(*    (jls_statistics_compute_f64: s = v_var; jls_core_fsr_summary1: v_var /= count)       *)
(* ====================================================================================== *)
(* second pass around any double c (the C uses c = the mean computed by the first pass) *)
Definition fp_ssq_about (c : R) (xs : list R) : R :=
  fold_left (fun acc x => RN (acc + RN (RN (x - c) * RN (x - c)))) xs 0.
Definition fp_ssq2 (xs : list R) : R := fp_ssq_about (fp_mean2 xs) xs.
(* population variance of an entry: v_var /= count *)
Definition fp_var1 (xs : list R) : R := RN (fp_ssq2 xs / RN (INR (length xs))).

Definition rsq_about (c : R) (xs : list R) : R := rsum (map (fun x => (x - c) * (x - c)) xs).

Lemma fp_ssq_about_snoc : forall c xs x,
  fp_ssq_about c (xs ++ [x]) = RN (fp_ssq_about c xs + RN (RN (x - c) * RN (x - c))).
Proof. intros c xs x. unfold fp_ssq_about. rewrite fold_left_app. reflexivity. Qed.

Lemma fp_ssq_about_fmt : forall c xs, fmt (fp_ssq_about c xs).
Proof. intros c xs. induction xs as [|x xs IH] using rev_ind; [apply fmt_0|]. rewrite fp_ssq_about_snoc. apply fmt_RN. Qed.

Lemma rsq_about_snoc : forall c xs x, rsq_about c (xs ++ [x]) = rsq_about c xs + (x - c) * (x - c).
Proof. intros c xs x. unfold rsq_about. rewrite map_app, rsum_app. cbn. lra. Qed.

Lemma rsq_about_nonneg : forall c xs, 0 <= rsq_about c xs.
Proof.
  intros c xs. induction xs as [|x xs IH] using rev_ind; [unfold rsq_about; cbn; lra|].
  rewrite rsq_about_snoc. pose proof (Rle_0_sqr (x - c)) as H. unfold Rsqr in H. lra.
Qed.

Lemma pow1u_ge1 : forall k : nat, 1 <= (1 + u64) ^ k.
Proof. intros k. pose proof (pow1u_ge k). pose proof (pos_INR k). pose proof u64_pos. nra. Qed.

Lemma pow1u_mono : forall j k : nat, (j <= k)%nat -> (1 + u64) ^ j <= (1 + u64) ^ k.
Proof. intros j k H. apply Rle_pow; [pose proof u64_pos; lra|exact H]. Qed.

(* sum of non-negative terms: the error is RELATIVE to the exact sum (no cancellation) *)
Theorem fp_ssq_about_error : forall (c : R) (xs : list R), fmt c -> Forall fmt xs ->
  Rabs (fp_ssq_about c xs - rsq_about c xs) <=
    ((1 + u64) ^ (length xs + 3) - 1) * rsq_about c xs + INR (length xs) * (1 + u64) ^ length xs * eta64.
Proof.
  intros c xs Fc. induction xs as [|x xs IH] using rev_ind; intros Hall.
  - unfold fp_ssq_about, rsq_about. cbn [fold_left map rsum fold_right length INR]. rewrite Rminus_0_r, Rabs_R0. lra.
  - apply Forall_app in Hall. destruct Hall as [Hxs Hx]. inversion Hx as [|? ? Fx _]. subst.
    specialize (IH Hxs).
    rewrite fp_ssq_about_snoc, rsq_about_snoc, app_length. cbn [length].
    replace (length xs + 1)%nat with (S (length xs)) by lia.
    pose proof u64_pos as Hu. pose proof eta64_pos as Heta.
    set (k := length xs) in *. set (S0 := rsq_about c xs) in *. set (sh := fp_ssq_about c xs) in *.
    assert (HS0 : 0 <= S0) by apply rsq_about_nonneg.
    set (T := (x - c) * (x - c)). assert (HT : 0 <= T) by (pose proof (Rle_0_sqr (x - c)) as H; unfold Rsqr in H; exact H).
    destruct (RN_minus_rel x c Fx Fc) as [d1 [D1 E1]].
    destruct (RN_gen (RN (x - c) * RN (x - c))) as [d2 [h2 [D2 [H2 E2]]]].
    destruct (RN_plus_rel sh (RN (RN (x - c) * RN (x - c))) (fp_ssq_about_fmt c xs) (fmt_RN _)) as [d3 [D3 E3]].
    rewrite E3, E2, E1.
    (* t = T (1 + th) + h2 with |th| <= (1+u)^3 - 1 *)
    set (th := (1 + d1) * (1 + d1) * (1 + d2) - 1).
    assert (Hth : Rabs th <= (1 + u64) ^ 3 - 1).
    { unfold th. apply Rabs_le_inv in D1. apply Rabs_le_inv in D2. pose proof u64_lt as Hu1.
      assert (0 <= 1 + d1 <= 1 + u64) by lra. assert (0 <= 1 + d2 <= 1 + u64) by lra.
      assert (1 - u64 <= 1 + d1) by lra. assert (1 - u64 <= 1 + d2) by lra.
      assert (U1 : (1 + d1) * (1 + d1) <= (1 + u64) * (1 + u64)) by (apply Rmult_le_compat; lra).
      assert (U2 : (1 + d1) * (1 + d1) * (1 + d2) <= (1 + u64) * (1 + u64) * (1 + u64)).
      { apply Rmult_le_compat; try lra. apply Rmult_le_pos; lra. }
      assert (L1 : (1 - u64) * (1 - u64) <= (1 + d1) * (1 + d1)) by (pose proof u64_lt; apply Rmult_le_compat; lra).
      assert (L2 : (1 - u64) * (1 - u64) * (1 - u64) <= (1 + d1) * (1 + d1) * (1 + d2)).
      { pose proof u64_lt. apply Rmult_le_compat; try lra. apply Rmult_le_pos; lra. }
      cbn [pow]. rewrite Rmult_1_r. apply Rabs_le. pose proof u64_lt. nra. }
    replace ((sh + ((x - c) * (1 + d1) * ((x - c) * (1 + d1)) * (1 + d2) + h2)) * (1 + d3) - (S0 + T))
      with (((sh - S0) + (T * th + h2)) * (1 + d3) + d3 * (S0 + T)) by (unfold T, th; ring).
    eapply Rle_trans; [apply Rabs_triang|]. rewrite !Rabs_mult.
    pose proof (Rabs_1p d3 D3) as H1d.
    assert (Hin : Rabs (sh - S0 + (T * th + h2)) <=
                  ((1 + u64) ^ (k + 3) - 1) * S0 + INR k * (1 + u64) ^ k * eta64 + (T * ((1 + u64) ^ 3 - 1) + eta64)).
    { eapply Rle_trans; [apply Rabs_triang|]. apply Rplus_le_compat; [exact IH|].
      eapply Rle_trans; [apply Rabs_triang|]. rewrite Rabs_mult, (Rabs_pos_eq T) by exact HT.
      apply Rplus_le_compat; [apply Rmult_le_compat_l; assumption|exact H2]. }
    assert (H1 : Rabs (sh - S0 + (T * th + h2)) * Rabs (1 + d3) <=
                 (((1 + u64) ^ (k + 3) - 1) * S0 + INR k * (1 + u64) ^ k * eta64 + (T * ((1 + u64) ^ 3 - 1) + eta64)) * (1 + u64)).
    { apply Rmult_le_compat; try apply Rabs_pos; assumption. }
    assert (H2' : Rabs d3 * Rabs (S0 + T) <= u64 * (S0 + T)).
    { rewrite (Rabs_pos_eq (S0 + T)) by lra. apply Rmult_le_compat_r; lra. }
    (* closing: the three groups of terms *)
    replace (S k + 3)%nat with (S (k + 3)) by lia.
    cbn [pow]. rewrite S_INR.
    set (P := (1 + u64) ^ (k + 3)) in *. set (Pk := (1 + u64) ^ k) in *.
    assert (HP : (1 + u64) ^ 3 <= P) by (unfold P; apply pow1u_mono; lia).
    assert (HPk : 1 <= Pk) by apply pow1u_ge1.
    assert (Hk0 : 0 <= INR k) by apply pos_INR.
    assert (G1 : (P - 1) * S0 * (1 + u64) + u64 * S0 = ((1 + u64) * P - 1) * S0) by ring.
    assert (G2 : T * ((1 + u64) ^ 3 - 1) * (1 + u64) + u64 * T <= ((1 + u64) * P - 1) * T).
    { replace (T * ((1 + u64) ^ 3 - 1) * (1 + u64) + u64 * T) with (T * ((1 + u64) * (1 + u64) ^ 3 - 1)) by ring.
      rewrite (Rmult_comm _ T). apply Rmult_le_compat_l; [exact HT|]. nra. }
    assert (G3 : (INR k * Pk * eta64 + eta64) * (1 + u64) <= (INR k + 1) * ((1 + u64) * Pk) * eta64).
    { replace ((INR k * Pk * eta64 + eta64) * (1 + u64)) with ((INR k * ((1 + u64) * Pk) + (1 + u64)) * eta64) by ring.
      replace ((INR k + 1) * ((1 + u64) * Pk) * eta64) with ((INR k * ((1 + u64) * Pk) + (1 + u64) * Pk) * eta64) by ring.
      apply Rmult_le_compat_r; [lra|]. nra. }
    apply Rle_trans with (((P - 1) * S0 + INR k * Pk * eta64 + (T * ((1 + u64) ^ 3 - 1) + eta64)) * (1 + u64) + u64 * (S0 + T)); [lra|].
    replace (((P - 1) * S0 + INR k * Pk * eta64 + (T * ((1 + u64) ^ 3 - 1) + eta64)) * (1 + u64) + u64 * (S0 + T))
      with (((P - 1) * S0 * (1 + u64) + u64 * S0) + (T * ((1 + u64) ^ 3 - 1) * (1 + u64) + u64 * T) + (INR k * Pk * eta64 + eta64) * (1 + u64)) by ring.
    rewrite G1.
    replace (((1 + u64) * P - 1) * (S0 + T)) with (((1 + u64) * P - 1) * S0 + ((1 + u64) * P - 1) * T) by ring.
    lra.
Qed.

Lemma rsq_about_shift : forall c xs, rsq_about c xs = rssq xs + INR (length xs) * ((c - rmean xs) * (c - rmean xs)).
Proof.
  intros c xs. unfold rsq_about. rewrite rsum_sq_shift. rewrite <- rss_eq_rssq. unfold rss.
  destruct xs as [|y ys]; [cbn; lra|].
  assert (HK : 0 < INR (length (y :: ys))) by (apply lt_0_INR; cbn; lia).
  assert (E : rsum (y :: ys) = INR (length (y :: ys)) * rmean (y :: ys)) by (unfold rmean; field; lra).
  rewrite E. ring.
Qed.

Lemma rssq_nonneg : forall xs, 0 <= rssq xs.
Proof. intros xs. unfold rssq. fold (rsq_about (rmean xs) xs). apply rsq_about_nonneg. Qed.

(* numeric facts for counts up to 2^26 *)
Lemma small_count_facts : forall n : nat, (Z.of_nat n + 4 <= 2 ^ 26)%Z ->
  (1 + u64) ^ (n + 3) - 1 <= (INR n + 4) * u64 /\ (INR n + 4) * u64 <= / 1000 /\ (1 + u64) ^ n <= 2.
Proof.
  intros n Hn. pose proof u64_pos as Hu.
  assert (Hk : INR (n + 3) * u64 <= / IZR (2 ^ 27)).
  { rewrite INR_IZR_INZ, u64_val.
    assert (IZR (Z.of_nat (n + 3)) <= IZR (2 ^ 26)) by (apply IZR_le; lia).
    replace (/ IZR (2 ^ 27)) with (IZR (2 ^ 26) * / IZR (2 ^ 53)).
    - apply Rmult_le_compat_r; [|assumption]. apply Rlt_le, Rinv_0_lt_compat, IZR_lt. reflexivity.
    - replace (IZR (2 ^ 53)) with (IZR (2 ^ 26) * IZR (2 ^ 27)) by (rewrite <- mult_IZR; reflexivity).
      field. split; apply not_0_IZR; discriminate. }
  assert (H27 : / IZR (2 ^ 27) <= / 1000000) by (apply Rinv_le_contravar; [lra|apply IZR_le; lia]).
  pose proof (pow1u_le (n + 3) ltac:(lra)) as Hp.
  set (a := INR (n + 3) * u64) in *.
  assert (Ha0 : 0 <= a) by (unfold a; apply Rmult_le_pos; [apply pos_INR|lra]).
  assert (Haa : a * a <= u64).
  { assert (a * INR (n + 3) <= 1).
    { unfold a. rewrite INR_IZR_INZ, u64_val.
      assert (H26 : IZR (Z.of_nat (n + 3)) <= IZR (2 ^ 26)) by (apply IZR_le; lia).
      assert (0 <= IZR (Z.of_nat (n + 3))) by (apply IZR_le; lia).
      replace (IZR (Z.of_nat (n + 3)) * / IZR (2 ^ 53) * IZR (Z.of_nat (n + 3))) with (IZR (Z.of_nat (n + 3)) * IZR (Z.of_nat (n + 3)) * / IZR (2 ^ 53)) by ring.
      apply Rmult_le_reg_r with (IZR (2 ^ 53)); [apply IZR_lt; reflexivity|].
      rewrite Rmult_assoc, Rinv_l by (apply not_0_IZR; discriminate). rewrite Rmult_1_r, Rmult_1_l.
      replace (IZR (2 ^ 53)) with (2 * (IZR (2 ^ 26) * IZR (2 ^ 26))) by (rewrite <- !mult_IZR; reflexivity).
      assert (0 <= IZR (2 ^ 26)) by (apply IZR_le; lia). nra. }
    replace (a * a) with (a * INR (n + 3) * u64) by (unfold a; ring). nra. }
  assert (Ea : a = (INR n + 3) * u64) by (unfold a; rewrite plus_INR; cbn [INR]; ring).
  assert (Hu3 : 3 * u64 <= a) by (rewrite Ea; pose proof (pos_INR n); nra).
  split; [|split].
  - rewrite Ea in *. lra.
  - rewrite Ea in *. lra.
  - apply Rle_trans with ((1 + u64) ^ (n + 3)); [apply pow1u_mono; lia|]. lra.
Qed.

(* the second pass of the two-pass computation: RELATIVE error (n + 4) u on the sum of squared
   deviations, plus second-order terms from the error of the mean and from underflow *)
Theorem fp_ssq2_error : forall (M : R) (xs : list R), bpow radix2 (-1022) <= M -> xs <> [] ->
  Forall (fun x => fmt x /\ Rabs x <= M) xs -> (Z.of_nat (length xs) + 4 <= 2 ^ 26)%Z ->
  let n := INR (length xs) in
  Rabs (fp_ssq2 xs - rssq xs) <=
    (n + 4) * u64 * rssq xs + 2 * n * (((n + 3) * u64 * M) * ((n + 3) * u64 * M)) + 2 * n * eta64.
Proof.
  intros M xs HM Hne Hall Hlen n.
  pose proof u64_pos as Hu. pose proof eta64_pos as Heta.
  pose proof (fp_mean2_error_simple M xs HM Hne Hall ltac:(lia)) as He. fold n in He.
  assert (Hfx : Forall fmt xs) by (eapply Forall_impl; [|exact Hall]; intros a [Ha _]; exact Ha).
  unfold fp_ssq2. set (c := fp_mean2 xs) in *.
  assert (Fc : fmt c) by (unfold c, fp_mean2; apply fmt_RN).
  pose proof (fp_ssq_about_error c xs Fc Hfx) as E.
  destruct (small_count_facts (length xs) Hlen) as [G1 [G2 G3]]. fold n in G1, G2.
  rewrite rsq_about_shift in E. fold n in E.
  set (e2 := (c - rmean xs) * (c - rmean xs)) in *.
  set (B := (n + 3) * u64 * M) in *.
  assert (HB : e2 <= B * B).
  { unfold e2. apply Rabs_le_inv in He.
    assert (0 <= B) by (unfold B; pose proof (pos_INR (length xs)); fold n in H; pose proof (bpow_gt_0 radix2 (-1022)); apply Rmult_le_pos; [apply Rmult_le_pos; lra|lra]).
    nra. }
  assert (He2 : 0 <= e2) by (unfold e2; pose proof (Rle_0_sqr (c - rmean xs)) as H; unfold Rsqr in H; exact H).
  pose proof (rssq_nonneg xs) as Hs0.
  assert (Hn0 : 0 <= n) by apply pos_INR.
  set (g := (1 + u64) ^ (length xs + 3) - 1) in *.
  assert (Hg0 : 0 <= g) by (unfold g; pose proof (pow1u_ge1 (length xs + 3)); lra).
  replace (fp_ssq_about c xs - rssq xs) with ((fp_ssq_about c xs - (rssq xs + n * e2)) + n * e2) by ring.
  eapply Rle_trans; [apply Rabs_triang|]. rewrite (Rabs_pos_eq (n * e2)) by (apply Rmult_le_pos; lra).
  assert (H1 : g * (rssq xs + n * e2) <= (n + 4) * u64 * rssq xs + g * (n * e2)).
  { replace (g * (rssq xs + n * e2)) with (g * rssq xs + g * (n * e2)) by ring.
    apply Rplus_le_compat_r. apply Rmult_le_compat_r; lra. }
  assert (Hne2 : n * e2 <= n * (B * B)) by (apply Rmult_le_compat_l; lra).
  assert (H2 : g * (n * e2) + n * e2 <= 2 * n * (B * B)).
  { assert (g <= 1) by lra. assert (0 <= n * e2) by (apply Rmult_le_pos; lra). nra. }
  assert (H3 : n * (1 + u64) ^ length xs * eta64 <= 2 * n * eta64).
  { replace (n * (1 + u64) ^ length xs * eta64) with (n * eta64 * (1 + u64) ^ length xs) by ring.
    replace (2 * n * eta64) with (n * eta64 * 2) by ring. apply Rmult_le_compat_l; [apply Rmult_le_pos; lra|exact G3]. }
  lra.
Qed.

(* population variance of a level-1 entry, v_var / count *)
Theorem fp_var1_error : forall (M : R) (xs : list R), bpow radix2 (-1022) <= M -> xs <> [] ->
  Forall (fun x => fmt x /\ Rabs x <= M) xs -> (Z.of_nat (length xs) + 4 <= 2 ^ 26)%Z ->
  let n := INR (length xs) in
  Rabs (fp_var1 xs - rssq xs / n) <=
    (n + 6) * u64 * (rssq xs / n) + 3 * (((n + 3) * u64 * M) * ((n + 3) * u64 * M)) + 4 * eta64.
Proof.
  intros M xs HM Hne Hall Hlen n.
  pose proof u64_pos as Hu. pose proof u64_lt as Hu1. pose proof eta64_pos as Heta.
  pose proof (fp_ssq2_error M xs HM Hne Hall Hlen) as E. cbv zeta in E. fold n in E.
  destruct (small_count_facts (length xs) Hlen) as [_ [G2 _]]. fold n in G2.
  assert (HK : 1 <= n).
  { unfold n. destruct xs as [|y ys]; [contradiction|]. cbn [length]. rewrite S_INR. pose proof (pos_INR (length ys)). lra. }
  unfold fp_var1. rewrite RN_INR by lia. fold n.
  destruct (RN_gen (fp_ssq2 xs / n)) as [d [h [D [H E2]]]]. rewrite E2.
  set (sh := fp_ssq2 xs) in *. set (s := rssq xs) in *. set (B2 := ((n + 3) * u64 * M) * ((n + 3) * u64 * M)) in *.
  pose proof (rssq_nonneg xs) as Hs0. fold s in Hs0.
  assert (HB2 : 0 <= B2) by (unfold B2; pose proof (Rle_0_sqr ((n + 3) * u64 * M)) as HH; unfold Rsqr in HH; exact HH).
  assert (HKi : 0 < / n <= 1) by (split; [apply Rinv_0_lt_compat; lra|rewrite <- Rinv_1; apply Rinv_le_contravar; lra]).
  replace (sh / n * (1 + d) + h - s / n) with ((sh - s) / n * (1 + d) + d * (s / n) + h) by (field; lra).
  eapply Rle_trans; [apply Rabs_triang|]. eapply Rle_trans; [apply Rplus_le_compat_r, Rabs_triang|].
  rewrite !Rabs_mult. pose proof (Rabs_1p d D) as H1d.
  assert (Hv0 : 0 <= s / n) by (apply Rmult_le_pos; lra).
  assert (Hq : Rabs ((sh - s) / n) <= (n + 4) * u64 * (s / n) + 2 * B2 + 2 * eta64).
  { unfold Rdiv at 1. rewrite Rabs_mult, (Rabs_pos_eq (/ n)) by lra.
    apply Rle_trans with (((n + 4) * u64 * s + 2 * n * B2 + 2 * n * eta64) * / n); [apply Rmult_le_compat_r; lra|].
    right. field. lra. }
  assert (H1 : Rabs ((sh - s) / n) * Rabs (1 + d) <= ((n + 4) * u64 * (s / n) + 2 * B2 + 2 * eta64) * (1 + u64)).
  { apply Rmult_le_compat; try apply Rabs_pos; assumption. }
  assert (H2 : Rabs d * Rabs (s / n) <= u64 * (s / n)) by (rewrite (Rabs_pos_eq (s / n)) by exact Hv0; apply Rmult_le_compat_r; lra).
  (* (n+4) u (1+u) + u <= (n+6) u ; 2 (1+u) <= 3 ; 2 (1+u) + 1 <= 4 *)
  assert (H3 : (n + 4) * u64 * (s / n) * (1 + u64) + u64 * (s / n) <= (n + 6) * u64 * (s / n)).
  { replace ((n + 4) * u64 * (s / n) * (1 + u64) + u64 * (s / n)) with (((n + 4) * u64 * (1 + u64) + u64) * (s / n)) by ring.
    apply Rmult_le_compat_r; [exact Hv0|]. nra. }
  nra.
Qed.

Theorem fp_var1_error_Q : forall (M : R) (xs : list Q), bpow radix2 (-1022) <= M -> xs <> [] ->
  Forall (fun x => fmt (Q2R x) /\ Rabs (Q2R x) <= M) xs -> (Z.of_nat (length xs) + 4 <= 2 ^ 26)%Z ->
  let n := INR (length xs) in
  Rabs (fp_var1 (map Q2R xs) - Q2R (ssq_of xs / qlen xs)) <=
    (n + 6) * u64 * Q2R (ssq_of xs / qlen xs) + 3 * (((n + 3) * u64 * M) * ((n + 3) * u64 * M)) + 4 * eta64.
Proof.
  intros M xs HM Hne Hall Hlen n.
  assert (Hl : (0 < Z.of_nat (length xs))%Z) by (destruct xs; [contradiction|cbn [length]; lia]).
  assert (Eq : Q2R (ssq_of xs / qlen xs) = rssq (map Q2R xs) / INR (length (map Q2R xs))).
  { rewrite Q2R_div.
    - rewrite Q2R_ssq_of by exact Hne. unfold qlen. rewrite Q2R_inject_Z, <- INR_IZR_INZ, map_length. reflexivity.
    - unfold qlen. intro H. unfold Qeq, inject_Z in H. cbn [Qnum Qden] in H. lia. }
  rewrite Eq. unfold n. replace (length xs) with (length (map Q2R xs)) by apply map_length.
  apply fp_var1_error; try assumption.
  - destruct xs; [contradiction|discriminate].
  - apply Forall_map. exact Hall.
  - rewrite map_length. exact Hlen.
Qed.
