(* WHAT THE REPAIR-ON-OPEN WRITES, part 1: the classifier over (file, backend events) and its basic theory.

   [rw_check strict f pos evs]: the events [evs] (oldest first) of an open of the file with bytes [f] whose backward
   scan stopped at the chunk at offset [pos] are, in order,
     (e)  nothing at all, or only the 32-byte file header at offset 0 carrying the current length, or
     (a)  ONE truncation to T = pos + 32 + disk length of the chunk at pos (the end of the last complete chunk), then
     (g)  the re-write of that last chunk: its 32 header bytes re-encoded at pos, and (payload_length <> 0) its payload
          with the identical bytes of f at pos + 32 followed by zero pad + the CRC-32C of that payload, then any number of
     (b)  32-byte in-place header writes below the end of the file: a CRC-consistent chunk header image whose bytes
          8..27 (item_prev, tag, rsv0, chunk_meta, payload_length, payload_prev_length) are those of a CRC-valid
          header that stood at this offset in the file or in one of its earlier versions during this open - i.e.
          nothing but item_next and crc32 differs (strict = false also accepts bytes 8..27 all zero: see
          C03_repair_zero_header_refuted in Properties_C03_repair.v),
     (c)  in-place writes of the payload of a TRACK_*_HEAD chunk (at most 128 bytes at o + 32 where a CRC-valid
          header with that payload_length stands / stood at o, and where the file given to the open has a header of
          chunk kind HEAD - tag & 7 = 1, the test of jls_core_scan_signals - with payload_length 128, the chunk
          lying completely inside the file; strict = true: exactly 128 bytes) immediately followed by zero pad +
          CRC of exactly those bytes,
     (d)  appends at exactly the current end of the file of complete chunks: a 32-byte CRC-valid header with
          item_next = 0 and tag FSR INDEX or FSR SUMMARY, then a non-empty payload whose length is the header's
          payload_length field, then zero pad + CRC; or the 32 bytes of an END chunk header (payload_length 0),
     (e)  and last the 32-byte file header at offset 0 carrying the length of the file at that moment.
   No fsync, no second truncation, nothing after the file header.  The classification may be ambiguous for
   byte strings no writer produces (a 32-byte table), so the classifier explores all of them (rw_runs).
   Every top-level name starts with rw_. *)
From Coq Require Import NArith ZArith List Bool Lia Arith.
From Coq Require Import ZifyBool ZifyN ZifyNat.
From JLS Require Import Generated CrcDefs Spec Format FormatProofs WriteOnce WriteOnceProofs WmRaw WmCore WmFsr WriterModel WmProofs
  RepairRaw RawReadProofs RepairModel RepairProofs.
Import ListNotations.
Local Open Scope N_scope.
Ltac Zify.zify_post_hook ::= Z.div_mod_to_equations.

Local Opaque crc32c.

(* ================================================================ little-endian encodings, any value *)
Lemma rw_enc_mod : forall n x, fm_enc n (x mod 256 ^ N.of_nat n) = fm_enc n x.
Proof.
  induction n as [| n IH]; intros x; [reflexivity |].
  cbn [fm_enc].
  replace (256 ^ N.of_nat (S n)) with (256 * 256 ^ N.of_nat n) by (rewrite Nat2N.inj_succ, N.pow_succ_r'; reflexivity).
  assert (Hm : 256 ^ N.of_nat n <> 0) by (apply N.pow_nonzero; discriminate).
  rewrite (N.mod_mul_r x 256 (256 ^ N.of_nat n)) by (try discriminate; exact Hm).
  set (y := (x / 256) mod 256 ^ N.of_nat n).
  replace ((x mod 256 + 256 * y) mod 256) with (x mod 256) by lia.
  replace ((x mod 256 + 256 * y) / 256) with y by lia.
  unfold y. rewrite IH. reflexivity.
Qed.
Lemma rw_dec_enc : forall n x, fm_dec (fm_enc n x) = x mod 256 ^ N.of_nat n.
Proof.
  intros n x. rewrite <- (rw_enc_mod n x). apply fm_dec_enc. apply N.mod_lt. apply N.pow_nonzero. discriminate.
Qed.
Lemma rw_enc_dec_enc : forall n x, fm_enc n (fm_dec (fm_enc n x)) = fm_enc n x.
Proof. intros. rewrite rw_dec_enc. apply rw_enc_mod. Qed.

(* ================================================================ the parts of a chunk header image *)
(* bytes 8..27: what a re-link never changes *)
Definition rw_rest (h : fm_chunk_header) : list N :=
  fm_enc_u64 (fm_item_prev h) ++ fm_enc_u8 (fm_tag h) ++ fm_enc_u8 (fm_rsv0 h) ++ fm_enc_u16 (fm_chunk_meta h)
  ++ fm_enc_u32 (fm_payload_length h) ++ fm_enc_u32 (fm_payload_prev_length h).
Definition rw_hdr_bytes (nx rest : list N) : list N := let b := nx ++ rest in b ++ fm_enc_u32 (crc32c b).

Lemma rw_encode_split : forall h, fm_encode_chunk_header h = rw_hdr_bytes (fm_enc_u64 (fm_item_next h)) (rw_rest h).
Proof. reflexivity. Qed.
Lemma rw_rest_length : forall h, length (rw_rest h) = 20%nat.
Proof.
  intros h. unfold rw_rest, fm_enc_u64, fm_enc_u32, fm_enc_u16, fm_enc_u8. rewrite !app_length, !fm_enc_length. reflexivity.
Qed.
Lemma rw_rest_set_next : forall h x, rw_rest (wm_hdr_set_next h x) = rw_rest h.
Proof. reflexivity. Qed.
Lemma rw_hdr_bytes_parts : forall nx rest r, length nx = 8%nat -> length rest = 20%nat ->
  firstn 8 (rw_hdr_bytes nx rest ++ r) = nx /\ fm_sub 8 20 (rw_hdr_bytes nx rest ++ r) = rest /\
  length (rw_hdr_bytes nx rest) = 32%nat.
Proof.
  intros nx rest r H1 H2. unfold rw_hdr_bytes. cbv zeta. rewrite <- !app_assoc.
  split; [apply firstn_app_exact; exact H1 |]. split.
  - unfold fm_sub. change (N.to_nat 8) with 8%nat. change (N.to_nat 20) with 20%nat.
    rewrite skipn_app_exact by exact H1. apply firstn_app_exact. exact H2.
  - rewrite !app_length, H1, H2. unfold fm_enc_u32. rewrite fm_enc_length. reflexivity.
Qed.

(* the fields of a header image built from 8 + 20 bytes *)
Lemma rw_decode_bytes : forall nx h r, length nx = 8%nat ->
  exists h', fm_decode_chunk_header (rw_hdr_bytes nx (rw_rest h) ++ r) = Some h' /\ rw_rest h' = rw_rest h /\
             fm_item_next h' = fm_dec nx /\ fm_tag h' = fm_tag h mod 256 /\
             fm_payload_length h' = fm_payload_length h mod 4294967296.
Proof.
  intros nx h r H1. unfold rw_hdr_bytes, rw_rest. cbv zeta. rewrite <- app_assoc.
  set (c := crc32c _).
  edestruct (fm_ch_fields_app nx (fm_enc_u64 (fm_item_prev h)) (fm_enc_u8 (fm_tag h))
               (fm_enc_u8 (fm_rsv0 h)) (fm_enc_u16 (fm_chunk_meta h)) (fm_enc_u32 (fm_payload_length h))
               (fm_enc_u32 (fm_payload_prev_length h)) (fm_enc_u32 c) r) as (Hf & Hb & Hc & Hk);
    try apply fm_enc_length; try exact H1.
  eexists. split.
  - unfold fm_decode_chunk_header, fm_ch_crc_ok. rewrite Hk, Hb, Hc.
    unfold fm_enc_u32 at 1. rewrite (fm_dec_enc 4 c) by (subst c; apply fm_crc32c_lt).
    subst c. rewrite N.eqb_refl. cbn [andb]. rewrite Hf. reflexivity.
  - cbn [fm_item_prev fm_tag fm_rsv0 fm_chunk_meta fm_payload_length fm_payload_prev_length fm_item_next].
    unfold fm_enc_u64, fm_enc_u32, fm_enc_u16, fm_enc_u8. rewrite !rw_enc_dec_enc.
    split; [reflexivity |]. split; [reflexivity |]. rewrite !rw_dec_enc. split; reflexivity.
Qed.
Lemma rw_decode_encode : forall h r,
  exists h', fm_decode_chunk_header (fm_encode_chunk_header h ++ r) = Some h' /\ rw_rest h' = rw_rest h /\
             fm_item_next h' = fm_item_next h mod fm_two64 /\ fm_tag h' = fm_tag h mod 256 /\
             fm_payload_length h' = fm_payload_length h mod 4294967296.
Proof.
  intros h r. rewrite rw_encode_split.
  destruct (rw_decode_bytes (fm_enc_u64 (fm_item_next h)) h r) as (h' & A & B & C & D & E); [apply fm_enc_length |].
  exists h'. split; [exact A |]. split; [exact B |]. split; [| split; assumption].
  rewrite C. unfold fm_enc_u64. rewrite rw_dec_enc. reflexivity.
Qed.
(* a decoded header re-encodes to the bytes it was decoded from, as far as bytes 8..27 go, when they are bytes;
   in general: its image has the same CRC-consistent shape *)
Lemma rw_rest_zero : rw_rest wm_hdr0 = repeat 0 20.
Proof. reflexivity. Qed.

(* ================================================================ headers in a file *)
Definition rw_hdr_at (g : list N) (o : N) : option fm_chunk_header := fm_decode_chunk_header (skipn (N.to_nat o) g).

Lemma rw_hdr_at_rr : forall g o h, rr_hdr_at g o h -> rw_hdr_at g o = Some h.
Proof.
  intros g o h H. destruct (rr_hdr_at_decode g o h H) as (_ & D). unfold rw_hdr_at.
  unfold fm_sub in D. change (N.to_nat 32) with 32%nat in D. rewrite fm_decode_chunk_header_firstn in D. exact D.
Qed.
Lemma rw_hdr_at_bound : forall g o h, rw_hdr_at g o = Some h -> o + 32 <= rp_len g.
Proof.
  intros g o h H. unfold rw_hdr_at in H. apply fm_decode_chunk_header_some in H. destruct H as (H & _).
  rewrite skipn_length in H. unfold rp_len. lia.
Qed.

(* a header with the given bytes 8..27 stood at o in one of the versions *)
Definition rw_seen (hist : list (list N)) (o : N) (rest : list N) : bool :=
  existsb (fun g => match rw_hdr_at g o with Some h0 => fm_list_eqb (rw_rest h0) rest | None => false end) hist.
Definition rw_seen_pl (hist : list (list N)) (o : N) (pl : N) : bool :=
  existsb (fun g => match rw_hdr_at g o with Some h0 => fm_payload_length h0 =? pl | None => false end) hist.
Definition rw_seen_head (hist : list (list N)) (o : N) : bool :=
  existsb (fun g => match rw_hdr_at g o with
                    | Some h0 => (fm_tag_chunk_kind (fm_tag h0) =? JLS_TRACK_CHUNK_HEAD) && (fm_payload_length h0 =? SIZEOF_track_head)
                    | None => false end) hist.

Lemma rw_existsb_incl : forall (A : Type) (p : A -> bool) l l', incl l l' -> existsb p l = true -> existsb p l' = true.
Proof.
  intros A p l l' Hi H. apply existsb_exists in H. destruct H as (x & Hx & Hp). apply existsb_exists. exists x. split; [apply Hi; exact Hx | exact Hp].
Qed.
Lemma rw_seen_incl : forall h h' o r, incl h h' -> rw_seen h o r = true -> rw_seen h' o r = true.
Proof. intros h h' o r. apply rw_existsb_incl. Qed.
Lemma rw_seen_pl_incl : forall h h' o r, incl h h' -> rw_seen_pl h o r = true -> rw_seen_pl h' o r = true.
Proof. intros h h' o r. apply rw_existsb_incl. Qed.
Lemma rw_seen_head_incl : forall h h' o, incl h h' -> rw_seen_head h o = true -> rw_seen_head h' o = true.
Proof. intros h h' o. apply rw_existsb_incl. Qed.
Lemma rw_seen_intro : forall hist g o h0, In g hist -> rw_hdr_at g o = Some h0 -> rw_seen hist o (rw_rest h0) = true.
Proof.
  intros hist g o h0 Hin Hh. apply existsb_exists. exists g. split; [exact Hin |]. rewrite Hh. apply fm_list_eqb_eq. reflexivity.
Qed.

(* ================================================================ the classifier *)
Inductive rw_stage :=
| RwStart                      (* no event yet *)
| RwLastH                      (* truncated: the header of the last chunk comes next *)
| RwLastP                      (* ... then its payload *)
| RwLastF (p : list N)         (* ... then its pad + CRC *)
| RwIdle
| RwHdr (pl : N)               (* an INDEX / SUMMARY header was appended: its payload is expected; pl = the payload_length field *)
| RwPay (p : list N)           (* the payload p was appended: pad + CRC expected *)
| RwTbl (o : N) (p : list N)   (* the payload of the HEAD chunk at o was rewritten with p: pad + CRC expected *)
| RwDone.                      (* the file header was written: nothing may follow *)

Record rw_st := { rw_g : list N; rw_n : N; rw_hist : list (list N); rw_stg : rw_stage }.
Definition rw_st0 (f : list N) : rw_st := {| rw_g := f; rw_n := rp_len f; rw_hist := [f]; rw_stg := RwStart |}.

Definition rw_is_link (strict : bool) (hist : list (list N)) (n off : N) (b : list N) : bool :=
  let rest := fm_sub 8 20 b in
  negb (off =? 0) && (off + 32 <=? n) && fm_list_eqb b (rw_hdr_bytes (firstn 8 b) rest)
  && (rw_seen hist off rest || (negb strict && fm_list_eqb rest (rw_rest wm_hdr0))).
Definition rw_is_tbl (strict : bool) (hist : list (list N)) (n off : N) (b : list N) : bool :=
  (32 <? off) && (off + 136 <=? n) && (if strict then rp_len b =? SIZEOF_track_head else rp_len b <=? SIZEOF_track_head)
  && rw_seen_pl hist (off - 32) (rp_len b) && rw_seen_head hist (off - 32).
Definition rw_is_app (b : list N) : option rw_stage :=
  match fm_decode_chunk_header b with
  | Some h =>
    if (rp_len b =? 32) && (fm_item_next h =? 0) then
      if (fm_tag h =? JLS_TAG_TRACK_FSR_INDEX) || (fm_tag h =? JLS_TAG_TRACK_FSR_SUMMARY) then Some (RwHdr (fm_payload_length h))
      else if (fm_tag h =? JLS_TAG_END) && (fm_payload_length h =? 0) then Some RwIdle
      else None
    else None
  | None => None
  end.
Definition rw_opt (c : bool) (s : rw_stage) : list rw_stage := if c then [s] else [].

(* the stages an event can lead to (the file after the event does not depend on the classification) *)
Definition rw_next (strict : bool) (f : list N) (pos : N) (st : rw_st) (e : wm_entry) : list rw_stage :=
  let n := rw_n st in
  match e with
  | WmSync => []
  | WmTrunc len =>
    match rw_stg st, rw_hdr_at f pos with
    | RwStart, Some h => rw_opt ((len =? pos + 32 + fm_disk_len (fm_payload_length h)) && (len <=? n)) RwLastH
    | _, _ => []
    end
  | WmWrite off b =>
    match rw_stg st with
    | RwStart => rw_opt ((off =? 0) && fm_list_eqb b (wm_file_header_bytes n)) RwDone
    | RwLastH =>
      match rw_hdr_at f pos with
      | Some h => rw_opt ((off =? pos) && fm_list_eqb b (fm_encode_chunk_header h)) (if fm_payload_length h =? 0 then RwIdle else RwLastP)
      | None => []
      end
    | RwLastP =>
      match rw_hdr_at f pos with
      | Some h => rw_opt ((off =? pos + 32) && fm_list_eqb b (fm_sub (pos + 32) (fm_payload_length h) f)) (RwLastF b)
      | None => []
      end
    | RwLastF p =>
      match rw_hdr_at f pos with
      | Some h => rw_opt ((off =? pos + 32 + fm_payload_length h) && fm_list_eqb b (wm_footer (fm_payload_length h) (crc32c p))) RwIdle
      | None => []
      end
    | RwIdle =>
      rw_opt ((off =? 0) && fm_list_eqb b (wm_file_header_bytes n)) RwDone
      ++ (if off =? n then match rw_is_app b with Some s => [s] | None => [] end else [])
      ++ rw_opt (rw_is_link strict (rw_hist st) n off b) RwIdle
      ++ rw_opt (rw_is_tbl strict (rw_hist st) n off b) (RwTbl (off - 32) b)
    | RwHdr pl => rw_opt ((off =? n) && negb (rp_len b =? 0) && (pl =? rp_len b mod 4294967296)) (RwPay b)
    | RwPay p => rw_opt ((off =? n) && fm_list_eqb b (wm_footer (rp_len p) (crc32c p))) RwIdle
    | RwTbl o p => rw_opt ((off =? o + 32 + rp_len p) && fm_list_eqb b (wm_footer (rp_len p) (crc32c p))) RwIdle
    | RwDone => []
    end
  end.

Definition rw_after (st : rw_st) (e : wm_entry) (s : rw_stage) : rw_st :=
  let fl := rp_apply (rw_g st, rw_n st) e in
  {| rw_g := fst fl; rw_n := snd fl; rw_hist := fst fl :: rw_hist st; rw_stg := s |}.

(* all states reachable by classifying the events one after the other *)
Fixpoint rw_runs (strict : bool) (f : list N) (pos : N) (st : rw_st) (evs : list wm_entry) : list rw_st :=
  match evs with
  | [] => [st]
  | e :: r => flat_map (fun s => rw_runs strict f pos (rw_after st e s) r) (rw_next strict f pos st e)
  end.
Definition rw_final (s : rw_stage) : bool := match s with RwStart | RwDone => true | _ => false end.
Definition rw_check (strict : bool) (f : list N) (pos : N) (evs : list wm_entry) : bool :=
  existsb (fun st => rw_final (rw_stg st)) (rw_runs strict f pos (rw_st0 f) evs).

(* the offset at which the backward scan of the open stops, and the truncation point it implies *)
Definition rw_pos (f : list N) : N := match rp_scan f with inr c => rp_offset (rp_r (rp_io_ c)) | inl _ => 0 end.
Definition rw_T (f : list N) (pos : N) : N :=
  match rw_hdr_at f pos with Some h => pos + 32 + fm_disk_len (fm_payload_length h) | None => 0 end.

(* ---------------------------------------------------------------- runs compose *)
Lemma rw_runs_app : forall strict f pos l1 l2 st st1 st2,
  In st1 (rw_runs strict f pos st l1) -> In st2 (rw_runs strict f pos st1 l2) -> In st2 (rw_runs strict f pos st (l1 ++ l2)).
Proof.
  intros strict f pos. induction l1 as [| e l1 IH]; intros l2 st st1 st2 H1 H2; cbn [rw_runs app] in *.
  - destruct H1 as [H1 | []]. subst st1. exact H2.
  - apply in_flat_map in H1. destruct H1 as (s & Hs & H1). apply in_flat_map. exists s. split; [exact Hs |].
    eapply IH; eauto.
Qed.
Lemma rw_runs_one : forall strict f pos st e s, In s (rw_next strict f pos st e) -> In (rw_after st e s) (rw_runs strict f pos st [e]).
Proof. intros. cbn [rw_runs]. apply in_flat_map. exists s. split; [assumption | now left]. Qed.
Lemma rw_runs_snoc : forall strict f pos l st st1 e s,
  In st1 (rw_runs strict f pos st l) -> In s (rw_next strict f pos st1 e) -> In (rw_after st1 e s) (rw_runs strict f pos st (l ++ [e])).
Proof. intros. eapply rw_runs_app; [eassumption |]. now apply rw_runs_one. Qed.

(* the file of a reached state is the file with the events applied; the history only grows *)
Lemma rw_runs_file : forall strict f pos l st st', In st' (rw_runs strict f pos st l) ->
  (rw_g st', rw_n st') = fold_left rp_apply l (rw_g st, rw_n st) /\ incl (rw_hist st) (rw_hist st') /\ In (rw_g st') (rw_g st :: rw_hist st').
Proof.
  intros strict f pos. induction l as [| e l IH]; intros st st' H; cbn [rw_runs fold_left] in *.
  - destruct H as [H | []]. subst st'. split; [reflexivity |]. split; [apply incl_refl | now left].
  - apply in_flat_map in H. destruct H as (s & _ & H). destruct (IH _ _ H) as (A & B & C).
    cbn [rw_after rw_g rw_n rw_hist] in A, B, C. split; [rewrite A; destruct (rp_apply (rw_g st, rw_n st) e); reflexivity |].
    split; [intros x Hx; apply B; now right |].
    right. destruct C as [C | C]; [apply B; left; exact C | exact C].
Qed.
Lemma rw_runs_len : forall strict f pos l st st', In st' (rw_runs strict f pos st l) -> rw_n st = rp_len (rw_g st) -> rw_n st' = rp_len (rw_g st').
Proof.
  intros strict f pos l st st' H Hn. destruct (rw_runs_file _ _ _ _ _ _ H) as (A & _).
  assert (G : forall l fl, snd fl = rp_len (fst fl) -> snd (fold_left rp_apply l fl) = rp_len (fst (fold_left rp_apply l fl))).
  { induction l0 as [| e l0 IH]; intros fl Hfl; [exact Hfl |]. cbn [fold_left]. apply IH. apply rpp_apply_len. exact Hfl. }
  specialize (G l (rw_g st, rw_n st) Hn). rewrite <- A in G. exact G.
Qed.
Lemma rw_apply_log_fold : forall seg fl, rp_apply_log fl seg = fold_left rp_apply (rev seg) fl.
Proof.
  intros seg fl. unfold rp_apply_log.
  rewrite <- (rev_involutive seg) at 1. rewrite (fold_left_rev_right (fun e a => rp_apply a e) (rev seg) fl). reflexivity.
Qed.

(* strict classification is a classification *)
Lemma rw_is_link_strict : forall hist n off b, rw_is_link true hist n off b = true -> rw_is_link false hist n off b = true.
Proof.
  intros hist n off b H. unfold rw_is_link in *. cbv zeta in *.
  apply andb_true_iff in H. destruct H as [H1 H2]. rewrite H1. cbn [andb].
  apply orb_true_iff in H2. destruct H2 as [H2 | H2]; [rewrite H2; reflexivity | discriminate H2].
Qed.
Lemma rw_is_tbl_strict : forall hist n off b, rw_is_tbl true hist n off b = true -> rw_is_tbl false hist n off b = true.
Proof.
  intros hist n off b H. unfold rw_is_tbl in *.
  apply andb_true_iff in H. destruct H as [H H5]. apply andb_true_iff in H. destruct H as [H H4].
  apply andb_true_iff in H. destruct H as [H H3]. rewrite H, H4, H5. cbn [andb].
  apply N.eqb_eq in H3. rewrite H3. reflexivity.
Qed.
Lemma rw_next_strict : forall f pos st e s, In s (rw_next true f pos st e) -> In s (rw_next false f pos st e).
Proof.
  intros f pos st e s H. destruct e as [off b | len |]; cbn [rw_next] in *; try exact H.
  destruct (rw_stg st); try exact H.
  apply in_app_or in H. apply in_or_app. destruct H as [H | H]; [left; exact H | right].
  apply in_app_or in H. apply in_or_app. destruct H as [H | H]; [left; exact H | right].
  apply in_app_or in H. apply in_or_app. destruct H as [H | H]; [left | right].
  - unfold rw_opt in *. destruct (rw_is_link true (rw_hist st) (rw_n st) off b) eqn:E; [| destruct H].
    rewrite (rw_is_link_strict _ _ _ _ E). exact H.
  - unfold rw_opt in *. destruct (rw_is_tbl true (rw_hist st) (rw_n st) off b) eqn:E; [| destruct H].
    rewrite (rw_is_tbl_strict _ _ _ _ E). exact H.
Qed.
Lemma rw_runs_strict : forall f pos l st st', In st' (rw_runs true f pos st l) -> In st' (rw_runs false f pos st l).
Proof.
  intros f pos. induction l as [| e l IH]; intros st st' H; cbn [rw_runs] in *; [exact H |].
  apply in_flat_map in H. destruct H as (s & Hs & H). apply in_flat_map. exists s.
  split; [apply rw_next_strict; exact Hs | apply IH; exact H].
Qed.
Lemma rw_check_strict : forall f pos evs, rw_check true f pos evs = true -> rw_check false f pos evs = true.
Proof.
  intros f pos evs H. unfold rw_check in *. apply existsb_exists in H. destruct H as (st & Hin & Hf).
  apply existsb_exists. exists st. split; [apply rw_runs_strict; exact Hin | exact Hf].
Qed.
