(* Byte-faithful model of the synchronous writer, layer 2: /repo/src/core.c (write side) and
   /repo/src/track.c.

     struct jls_core_chunk_s          wm_chunk   (offset + cached header)
     struct jls_core_track_s          wm_track   (head chunk, head_offsets[16], data_head,
                                                  index_head[16], summary_head[16])
     struct jls_core_s (global part)  wm_base    (raw, source_head, signal_head, user_data_head)
     jls_core_update_item_head        wm_update_item_head
     jls_track_wr_def / _wr_head / _update     wm_track_wr_def / wm_track_wr_head / wm_track_update
     jls_core_wr_data / _index / _summary / _end   wm_core_wr_data / _index / _summary / _end

   The three 16-element arrays are lists of length 16 (index = level).  jls_core_signal_validate at the
   top of jls_core_wr_* always succeeds on these paths (the API layer has validated the signal).
   Definitions only. *)
From Coq Require Import NArith ZArith List Bool.
From JLS Require Import Generated CrcDefs Format WmRaw.
Import ListNotations.
Local Open Scope N_scope.

Record wm_chunk := { wm_ck_offset : N; wm_ck_hdr : fm_chunk_header }.
Definition wm_chunk0 : wm_chunk := {| wm_ck_offset := 0; wm_ck_hdr := wm_hdr0 |}.

Record wm_track := {
  wm_tk_type : N;
  wm_tk_head : wm_chunk;                 (* the TRACK_*_HEAD chunk *)
  wm_tk_offsets : list N;                (* head_offsets[JLS_SUMMARY_LEVEL_COUNT] *)
  wm_tk_data_head : wm_chunk;
  wm_tk_index_head : list wm_chunk;
  wm_tk_summary_head : list wm_chunk }.

Definition wm_level_count : nat := N.to_nat JLS_SUMMARY_LEVEL_COUNT.
Definition wm_track0 (ty : N) : wm_track :=
  {| wm_tk_type := ty; wm_tk_head := wm_chunk0; wm_tk_offsets := repeat 0 wm_level_count;
     wm_tk_data_head := wm_chunk0; wm_tk_index_head := repeat wm_chunk0 wm_level_count;
     wm_tk_summary_head := repeat wm_chunk0 wm_level_count |}.

Definition wm_tk_set_head (t : wm_track) (c : wm_chunk) : wm_track :=
  {| wm_tk_type := wm_tk_type t; wm_tk_head := c; wm_tk_offsets := wm_tk_offsets t; wm_tk_data_head := wm_tk_data_head t;
     wm_tk_index_head := wm_tk_index_head t; wm_tk_summary_head := wm_tk_summary_head t |}.
Definition wm_tk_set_offsets (t : wm_track) (l : list N) : wm_track :=
  {| wm_tk_type := wm_tk_type t; wm_tk_head := wm_tk_head t; wm_tk_offsets := l; wm_tk_data_head := wm_tk_data_head t;
     wm_tk_index_head := wm_tk_index_head t; wm_tk_summary_head := wm_tk_summary_head t |}.
Definition wm_tk_set_data_head (t : wm_track) (c : wm_chunk) : wm_track :=
  {| wm_tk_type := wm_tk_type t; wm_tk_head := wm_tk_head t; wm_tk_offsets := wm_tk_offsets t; wm_tk_data_head := c;
     wm_tk_index_head := wm_tk_index_head t; wm_tk_summary_head := wm_tk_summary_head t |}.
Definition wm_tk_set_index_head (t : wm_track) (l : list wm_chunk) : wm_track :=
  {| wm_tk_type := wm_tk_type t; wm_tk_head := wm_tk_head t; wm_tk_offsets := wm_tk_offsets t; wm_tk_data_head := wm_tk_data_head t;
     wm_tk_index_head := l; wm_tk_summary_head := wm_tk_summary_head t |}.
Definition wm_tk_set_summary_head (t : wm_track) (l : list wm_chunk) : wm_track :=
  {| wm_tk_type := wm_tk_type t; wm_tk_head := wm_tk_head t; wm_tk_offsets := wm_tk_offsets t; wm_tk_data_head := wm_tk_data_head t;
     wm_tk_index_head := wm_tk_index_head t; wm_tk_summary_head := l |}.

Record wm_base := {
  wm_b_raw : wm_raw;
  wm_b_source_head : wm_chunk; wm_b_signal_head : wm_chunk; wm_b_ud_head : wm_chunk }.
Definition wm_b_set_raw (b : wm_base) (r : wm_raw) : wm_base :=
  {| wm_b_raw := r; wm_b_source_head := wm_b_source_head b; wm_b_signal_head := wm_b_signal_head b; wm_b_ud_head := wm_b_ud_head b |}.
Definition wm_b_set_source_head (b : wm_base) (c : wm_chunk) : wm_base :=
  {| wm_b_raw := wm_b_raw b; wm_b_source_head := c; wm_b_signal_head := wm_b_signal_head b; wm_b_ud_head := wm_b_ud_head b |}.
Definition wm_b_set_signal_head (b : wm_base) (c : wm_chunk) : wm_base :=
  {| wm_b_raw := wm_b_raw b; wm_b_source_head := wm_b_source_head b; wm_b_signal_head := c; wm_b_ud_head := wm_b_ud_head b |}.
Definition wm_b_set_ud_head (b : wm_base) (c : wm_chunk) : wm_base :=
  {| wm_b_raw := wm_b_raw b; wm_b_source_head := wm_b_source_head b; wm_b_signal_head := wm_b_signal_head b; wm_b_ud_head := c |}.
Definition wm_b_fault (b : wm_base) : wm_base := wm_b_set_raw b (wm_set_fault (wm_b_raw b)).

(* array cell update / read *)
Fixpoint wm_upd {A} (n : nat) (x : A) (l : list A) : list A :=
  match l with
  | [] => []
  | y :: r => match n with O => x :: r | S n' => y :: wm_upd n' x r end
  end.
Definition wm_get_off (l : list N) (level : N) : N := nth (N.to_nat level) l 0.
Definition wm_get_chunk (l : list wm_chunk) (level : N) : wm_chunk := nth (N.to_nat level) l wm_chunk0.

(* a fresh header as the writer fills it in before jls_raw_wr: item_next 0, rsv0 0; payload_prev_length is
   whatever the struct held (0 for the calloc'ed source chunk; stack garbage elsewhere, always overwritten
   by the stamp in jls_raw_wr_header because those chunks are appended) *)
Definition wm_mk_hdr (prev tag meta plen : N) : fm_chunk_header :=
  {| fm_item_next := 0; fm_item_prev := prev; fm_tag := tag; fm_rsv0 := 0; fm_chunk_meta := meta;
     fm_payload_length := plen; fm_payload_prev_length := 0 |}.
(* chunk_meta of track chunks: signal_id | level << 12 (uint16_t) *)
Definition wm_meta (signal_id level : N) : N := (N.lor signal_id (N.shiftl level 12)) mod 65536.

(* jls_core_update_item_head: seek to the list's last chunk, rewrite its cached 32-byte header with the new
   item_next, seek back; then *head = *next.  Skipped for the first item of a list (head->offset = 0). *)
Definition wm_update_item_head (r : wm_raw) (head next : wm_chunk) : wm_raw * wm_chunk :=
  if wm_ck_offset head =? 0 then (r, next)
  else
    let current_pos := wm_raw_chunk_tell r in
    let h := wm_hdr_set_next (wm_ck_hdr head) (wm_ck_offset next) in
    let r1 := wm_raw_chunk_seek r (wm_ck_offset head) in
    let '(r2, _) := wm_raw_wr_header r1 h in
    (wm_raw_chunk_seek r2 current_pos, next).

(* ---- track.c ---- *)
Definition wm_head_payload (offsets : list N) : list N := flat_map fm_enc_u64 offsets.

(* jls_track_wr_def: empty-payload chunk on the signal list *)
Definition wm_track_wr_def (b : wm_base) (signal_id track_type : N) : wm_base :=
  let r := wm_b_raw b in
  let h := wm_mk_hdr (wm_ck_offset (wm_b_signal_head b)) (fm_track_tag track_type JLS_TRACK_CHUNK_DEF) signal_id 0 in
  let off := wm_raw_chunk_tell r in
  let '(r1, h1) := wm_raw_wr r h [] in
  let '(r2, sh) := wm_update_item_head r1 (wm_b_signal_head b) {| wm_ck_offset := off; wm_ck_hdr := h1 |} in
  wm_b_set_signal_head (wm_b_set_raw b r2) sh.

(* jls_track_wr_head: first call = a chunk on the signal list; later calls rewrite the 128-byte payload in
   place (seek, jls_raw_wr_payload = header re-read + two writes, seek back) *)
Definition wm_track_wr_head (b : wm_base) (signal_id : N) (t : wm_track) : wm_base * wm_track :=
  let r := wm_b_raw b in
  let payload := wm_head_payload (wm_tk_offsets t) in
  if wm_ck_offset (wm_tk_head t) =? 0 then
    let h := wm_mk_hdr (wm_ck_offset (wm_b_signal_head b)) (fm_track_tag (wm_tk_type t) JLS_TRACK_CHUNK_HEAD)
                       signal_id SIZEOF_track_head in
    let off := wm_raw_chunk_tell r in
    let '(r1, h1) := wm_raw_wr r h payload in
    let c := {| wm_ck_offset := off; wm_ck_hdr := h1 |} in
    let '(r2, sh) := wm_update_item_head r1 (wm_b_signal_head b) c in
    (wm_b_set_signal_head (wm_b_set_raw b r2) sh, wm_tk_set_head t c)
  else
    let pos := wm_raw_chunk_tell r in
    let r1 := wm_raw_chunk_seek r (wm_ck_offset (wm_tk_head t)) in
    let r2 := wm_raw_wr_payload r1 SIZEOF_track_head payload in
    (wm_b_set_raw b (wm_raw_chunk_seek r2 pos), t).

(* jls_track_update *)
Definition wm_track_update (b : wm_base) (signal_id : N) (t : wm_track) (level pos : N) : wm_base * wm_track :=
  if wm_get_off (wm_tk_offsets t) level =? 0
  then wm_track_wr_head b signal_id (wm_tk_set_offsets t (wm_upd (N.to_nat level) pos (wm_tk_offsets t)))
  else (b, t).

(* ---- core.c ---- *)
(* jls_core_wr_data: chunk, then link, then (first data chunk of the track) head table *)
Definition wm_core_wr_data (b : wm_base) (signal_id : N) (t : wm_track) (payload : list N) (payload_length : N)
  : wm_base * wm_track :=
  let r := wm_b_raw b in
  let h := wm_mk_hdr (wm_ck_offset (wm_tk_data_head t)) (fm_track_tag (wm_tk_type t) JLS_TRACK_CHUNK_DATA)
                     (wm_meta signal_id 0) payload_length in
  let off := wm_raw_chunk_tell r in
  let '(r1, h1) := wm_raw_wr r h payload in
  let '(r2, dh) := wm_update_item_head r1 (wm_tk_data_head t) {| wm_ck_offset := off; wm_ck_hdr := h1 |} in
  let t1 := wm_tk_set_data_head t dh in
  let b1 := wm_b_set_raw b r2 in
  if wm_get_off (wm_tk_offsets t1) 0 =? 0
  then wm_track_wr_head b1 signal_id (wm_tk_set_offsets t1 (wm_upd 0 off (wm_tk_offsets t1)))
  else (b1, t1).

(* jls_core_wr_summary: chunk, then link *)
Definition wm_core_wr_summary (b : wm_base) (signal_id : N) (t : wm_track) (level : N) (payload : list N) (payload_length : N)
  : wm_base * wm_track :=
  let r := wm_b_raw b in
  let head := wm_get_chunk (wm_tk_summary_head t) level in
  let h := wm_mk_hdr (wm_ck_offset head) (fm_track_tag (wm_tk_type t) JLS_TRACK_CHUNK_SUMMARY)
                     (wm_meta signal_id level) payload_length in
  let off := wm_raw_chunk_tell r in
  let '(r1, h1) := wm_raw_wr r h payload in
  let '(r2, nh) := wm_update_item_head r1 head {| wm_ck_offset := off; wm_ck_hdr := h1 |} in
  (wm_b_set_raw b r2, wm_tk_set_summary_head t (wm_upd (N.to_nat level) nh (wm_tk_summary_head t))).

(* jls_core_wr_index: chunk, then link, then jls_track_update(level) *)
Definition wm_core_wr_index (b : wm_base) (signal_id : N) (t : wm_track) (level : N) (payload : list N) (payload_length : N)
  : wm_base * wm_track :=
  let r := wm_b_raw b in
  let head := wm_get_chunk (wm_tk_index_head t) level in
  let h := wm_mk_hdr (wm_ck_offset head) (fm_track_tag (wm_tk_type t) JLS_TRACK_CHUNK_INDEX)
                     (wm_meta signal_id level) payload_length in
  let off := wm_raw_chunk_tell r in
  let '(r1, h1) := wm_raw_wr r h payload in
  let '(r2, nh) := wm_update_item_head r1 head {| wm_ck_offset := off; wm_ck_hdr := h1 |} in
  let t1 := wm_tk_set_index_head t (wm_upd (N.to_nat level) nh (wm_tk_index_head t)) in
  wm_track_update (wm_b_set_raw b r2) signal_id t1 level off.

(* jls_core_wr_end *)
Definition wm_core_wr_end (b : wm_base) : wm_base :=
  let '(r1, _) := wm_raw_wr (wm_b_raw b) (wm_mk_hdr 0 JLS_TAG_END 0 0) [] in
  wm_b_set_raw b r1.

(* the 16-byte struct jls_payload_header_s *)
Definition wm_payload_header (ts : Z) (entry_count entry_size_bits : N) : list N :=
  fm_encode_payload_header {| fm_ph_timestamp := ts; fm_ph_entry_count := entry_count;
                              fm_ph_entry_size_bits := entry_size_bits; fm_ph_rsv16 := 0 |}.
