(* END TO END, layer 1 (log level): the CHUNK VIEW of a backend log (RefineLog.rf_scan / rf_chunks: what the refinement
   and composition theorems talk about) against the BYTES of the file the log produces (WriteOnce.wo_file_after: what the
   byte-level reader model reads), for every log accepted by the strict write-once checker (Properties_C14_writer: every
   log of the byte-exact writer model is accepted).

   e2_J s q f   joint invariant of the checker state s, the parser state q and the file bytes f after the same events:
                the completed chunks tracked by the checker (wo_exts) and the chunks of the parser (rp_out) are the SAME
                LIST (position by position: offset, tag, chunk_meta, payload length; the payload bytes of every chunk that
                is not a TRACK_*_HEAD chunk are in the file, unchanged); every completed chunk has a valid payload CRC in
                the file (except the HEAD chunk whose table is being rewritten); the payload bytes of a HEAD chunk are the
                table the checker holds for it.
   Only guard beyond acceptance: O_TRUNC / ftruncate occurs only as the very first backend call (rf_scan forgets a pending
   header at a truncate).  Definitions + proofs; every top-level name starts with e2_. *)
From Coq Require Import NArith ZArith List Bool Lia Arith.
From Coq Require Import ZifyBool ZifyN ZifyNat.
From JLS Require Import Generated CrcDefs CrcProofs Format FormatProofs WriteOnce WriteOnceProofs WmRaw WmCore WmProofs
                        WmWriteOnce RefineLog RawReadProofs.
Import ListNotations.
Local Open Scope N_scope.
Ltac Zify.zify_post_hook ::= Z.div_mod_to_equations.

Local Opaque crc32c.

(* ================================================================ byte ranges *)
Lemma e2_sub_eq : forall (f f' : list N) (a n : N),
  (forall i, (N.to_nat a <= i < N.to_nat a + N.to_nat n)%nat -> nth i f' 0 = nth i f 0) ->
  a + n <= rf_len f -> a + n <= rf_len f' -> fm_sub a n f' = fm_sub a n f.
Proof.
  intros f f' a n H H1 H2. unfold fm_sub, rf_len in *. apply wo_window_eq; [exact H|lia|lia].
Qed.

Lemma e2_sub_length : forall a n (f : list N), a + n <= rf_len f -> length (fm_sub a n f) = N.to_nat n.
Proof. intros a n f H. apply rr_sub_length. exact H. Qed.

(* the bytes [lo, hi) are the same in f and f' *)
Definition e2_stable (f f' : list N) (lo hi : N) : Prop :=
  forall a n, lo <= a -> a + n <= hi -> fm_sub a n f' = fm_sub a n f.

Lemma e2_stable_sub : forall f f' lo hi lo' hi', e2_stable f f' lo hi -> lo <= lo' -> hi' <= hi -> e2_stable f f' lo' hi'.
Proof. intros f f' lo hi lo' hi' H A B a n Ha Hn. apply H; lia. Qed.

Lemma e2_stable_app : forall (f b : list N), e2_stable f (f ++ b) 0 (rf_len f).
Proof.
  intros f b a n _ Hn. unfold rf_len in Hn. apply e2_sub_eq.
  - intros i Hi. apply app_nth1. lia.
  - exact Hn.
  - unfold rf_len. rewrite app_length. lia.
Qed.

Definition e2_inpl (f : list N) (w : N) (b : list N) : list N :=
  firstn (N.to_nat w) f ++ b ++ skipn (N.to_nat w + length b) f.

Lemma e2_inpl_length : forall f w b, w + rf_len b <= rf_len f -> length (e2_inpl f w b) = length f.
Proof. intros f w b H. unfold e2_inpl, rf_len in *. apply wo_inplace_length. lia. Qed.

Lemma e2_stable_inpl_lo : forall f w b, w + rf_len b <= rf_len f -> e2_stable f (e2_inpl f w b) 0 w.
Proof.
  intros f w b H a n _ Hn. pose proof (e2_inpl_length f w b H) as Hl. unfold rf_len in *. apply e2_sub_eq.
  - intros i Hi. unfold e2_inpl. apply wo_inplace_nth; lia.
  - unfold rf_len. lia.
  - unfold rf_len. rewrite Hl. lia.
Qed.

Lemma e2_stable_inpl_hi : forall f w b, w + rf_len b <= rf_len f -> e2_stable f (e2_inpl f w b) (w + rf_len b) (rf_len f).
Proof.
  intros f w b H a n Ha Hn. pose proof (e2_inpl_length f w b H) as Hl. unfold rf_len in *. apply e2_sub_eq.
  - intros i Hi. unfold e2_inpl. apply wo_inplace_nth; lia.
  - unfold rf_len. lia.
  - unfold rf_len. rewrite Hl. lia.
Qed.

Lemma e2_sub_inpl_at : forall f w b, w + rf_len b <= rf_len f -> fm_sub w (rf_len b) (e2_inpl f w b) = b.
Proof.
  intros f w b H. unfold fm_sub, e2_inpl, rf_len in *. rewrite Nat2N.id. apply wo_inplace_window. lia.
Qed.

Lemma e2_sub_app_at : forall (f b : list N), fm_sub (rf_len f) (rf_len b) (f ++ b) = b.
Proof.
  intros f b. unfold fm_sub, rf_len. rewrite !Nat2N.id. rewrite skipn_app_exact by reflexivity. apply firstn_all.
Qed.

(* a sub-range of a window *)
Lemma e2_sub_sub : forall (f : list N) a n a' n', a' + n' <= n ->
  fm_sub a' n' (fm_sub a n f) = fm_sub (a + a') n' f.
Proof.
  intros f a n a' n' H. unfold fm_sub. rewrite skipn_firstn_comm, firstn_firstn, <- skipn_add.
  f_equal; [lia|]. f_equal. lia.
Qed.

(* ================================================================ what is said about the file *)
(* the payload CRC of the chunk at o with payload length pl is valid, as jls_raw_rd_payload tests it *)
Definition e2_crc_ok (f : list N) (o pl : N) : Prop :=
  pl = 0 \/ (o + 32 + fm_disk_len pl <= rf_len f /\
             fm_dec (fm_sub (o + 32 + fm_disk_len pl - 4) 4 f) = crc32c (fm_sub (o + 32) pl f)).

Lemma e2_crc_ok_stable : forall f f' o pl, e2_crc_ok f o pl ->
  e2_stable f f' (o + 32) (o + 32 + fm_disk_len pl) -> rf_len f <= rf_len f' -> e2_crc_ok f' o pl.
Proof.
  intros f f' o pl [H0|(Hb & Hc)] Hs Hl; [left; exact H0|].
  destruct (N.eq_dec pl 0) as [E|Hne]; [left; exact E|right].
  pose proof (rr_pad_ge pl Hne) as Hp.
  split; [lia|]. rewrite (Hs (o + 32 + fm_disk_len pl - 4) 4) by lia. rewrite (Hs (o + 32) pl) by lia. exact Hc.
Qed.

(* a completed chunk of the checker against a chunk of the parser *)
Definition e2_rel (f : list N) (x : wo_ext) (c : rf_chunk) : Prop :=
  wo_e_off x = rc_off c /\ fm_tag (wo_e_hdr x) = rc_tag c /\ fm_chunk_meta (wo_e_hdr x) = rc_meta c /\
  fm_payload_length (wo_e_hdr x) = rf_len (rc_pay c) /\
  (fm_is_head_tag (fm_tag (wo_e_hdr x)) = false ->
     fm_sub (wo_e_off x + 32) (fm_payload_length (wo_e_hdr x)) f = rc_pay c).

Definition e2_not_tbl (s : wo_st) (o : N) : Prop :=
  match wo_pending s with WoTbl ot _ _ => ot <> o | _ => True end.

Record e2_J (s : wo_st) (q : rf_pst) (f : list N) : Prop := {
  j_wo : wo_inv s f;
  j_end : rp_end q = wo_len s;
  j_pend : match rp_pend q with
           | Some (o, t, m) => exists h, wo_pending s = WoHdr h /\ o = wo_end s /\ t = fm_tag h /\ m = fm_chunk_meta h
           | None => match wo_pending s with WoHdr _ => False | _ => True end
           end;
  j_out : match wo_pending s with
          | WoPay h p => exists c rest, rp_out q = c :: rest /\ rc_off c = wo_end s /\ rc_tag c = fm_tag h /\
                                        rc_meta c = fm_chunk_meta h /\ rc_pay c = p /\ Forall2 (e2_rel f) (wo_exts s) rest
          | _ => Forall2 (e2_rel f) (wo_exts s) (rp_out q)
          end;
  j_crc : forall x, In x (wo_exts s) -> e2_not_tbl s (wo_e_off x) ->
            e2_crc_ok f (wo_e_off x) (fm_payload_length (wo_e_hdr x));
  j_tbl : forall x, In x (wo_exts s) -> fm_is_head_tag (fm_tag (wo_e_hdr x)) = true ->
            fm_sub (wo_e_off x + 32) (fm_payload_length (wo_e_hdr x)) f = wo_e_table x;
  j_fl : forall h p, wo_pending s = WoPay h p ->
            fm_sub (wo_end s + 32) (fm_payload_length h) f = p /\ rf_len p = fm_payload_length h;
  j_tblp : forall o h p, wo_pending s = WoTbl o h p ->
            exists x, In x (wo_exts s) /\ wo_e_off x = o /\ wo_e_hdr x = h /\ wo_e_table x = p }.

(* ================================================================ lists of extents *)
Lemma e2_chunks_lt : forall f l e, wo_chunks f l e -> forall o h, In (o, h) l -> o < e.
Proof.
  intros f l e H o h Hin. destruct (wo_chunks_bounds _ _ _ H) as [_ Hb].
  destruct (Hb _ _ Hin) as (_ & B & _). pose proof (wo_size_ge h). lia.
Qed.

Lemma e2_chunks_nodup : forall f l e, wo_chunks f l e -> NoDup (map fst l).
Proof.
  intros f l e H. induction H as [|r o h Hr IH Hd Hb]; [constructor|].
  cbn [map fst]. constructor; [|exact IH].
  intro Hin. apply in_map_iff in Hin. destruct Hin as ([o' h'] & E & Hin). cbn in E. subst o'.
  pose proof (e2_chunks_lt _ _ _ Hr _ _ Hin). lia.
Qed.

Lemma e2_pairs_offs : forall E, map fst (wo_pairs E) = map wo_e_off E.
Proof. intro E. unfold wo_pairs. rewrite map_map. reflexivity. Qed.

Lemma e2_in_update : forall y E x, NoDup (map wo_e_off E) -> In x (wo_update y E) ->
  x = y \/ (In x E /\ wo_e_off x <> wo_e_off y).
Proof.
  intros y E x. induction E as [|z E IH]; intros Hnd Hin; cbn [wo_update] in Hin; [destruct Hin|].
  cbn [map] in Hnd. inversion Hnd as [|? ? Hni Hnd']; subst.
  destruct (wo_e_off z =? wo_e_off y) eqn:Ez.
  - apply N.eqb_eq in Ez. destruct Hin as [->|Hin]; [left; reflexivity|].
    right. split; [right; exact Hin|]. intro Ex. apply Hni. rewrite Ez, <- Ex. apply in_map. exact Hin.
  - apply N.eqb_neq in Ez. destruct Hin as [->|Hin]; [right; split; [left; reflexivity|exact Ez]|].
    destruct (IH Hnd' Hin) as [->|[A B]]; [left; reflexivity|right; split; [right; exact A|exact B]].
Qed.

Lemma e2_F2_update : forall (R R' : wo_ext -> rf_chunk -> Prop) y E out,
  Forall2 R E out ->
  (forall x c, In x E -> R x c -> wo_e_off x <> wo_e_off y -> R' x c) ->
  (forall x c, In x E -> R x c -> wo_e_off x = wo_e_off y -> R' y c) ->
  NoDup (map wo_e_off E) ->
  Forall2 R' (wo_update y E) out.
Proof.
  intros R R' y E out H. induction H as [|x c E out Hxc HF IH]; intros H1 H2 Hnd; cbn [wo_update]; [constructor|].
  cbn [map] in Hnd. inversion Hnd as [|? ? Hni Hnd']; subst.
  destruct (wo_e_off x =? wo_e_off y) eqn:Ex.
  - apply N.eqb_eq in Ex. constructor; [apply (H2 x c); [left; reflexivity|exact Hxc|exact Ex]|].
    clear IH. revert Hni H1. clear -HF Ex. intros Hni H1.
    induction HF as [|x' c' E' out' Hxc' HF' IH']; [constructor|].
    constructor.
    + apply H1; [right; left; reflexivity|exact Hxc'|]. intro K. apply Hni. cbn [map]. left. congruence.
    + apply IH'; [intro K; apply Hni; cbn [map]; right; exact K|].
      intros x0 c0 Hin0 Hr0 Hne0. apply H1; [|exact Hr0|exact Hne0]. destruct Hin0 as [->|Hin0]; [left; reflexivity|right; right; exact Hin0].
  - apply N.eqb_neq in Ex. constructor; [apply H1; [left; reflexivity|exact Hxc|exact Ex]|].
    apply IH; [|intros x0 c0 Hin0; apply H2; right; exact Hin0|exact Hnd'].
    intros x0 c0 Hin0. apply H1. right. exact Hin0.
Qed.

Lemma e2_F2_impl : forall (R R' : wo_ext -> rf_chunk -> Prop) E out,
  Forall2 R E out -> (forall x c, In x E -> R x c -> R' x c) -> Forall2 R' E out.
Proof.
  intros R R' E out H. induction H as [|x c E out Hxc HF IH]; intros HI; constructor.
  - apply HI; [left; reflexivity|exact Hxc].
  - apply IH. intros x0 c0 Hin0. apply HI. right. exact Hin0.
Qed.

(* ================================================================ frames *)
Lemma e2_rel_stable : forall f f' x c, e2_rel f x c ->
  e2_stable f f' (wo_e_off x + 32) (wo_e_off x + wo_size (wo_e_hdr x)) -> e2_rel f' x c.
Proof.
  intros f f' x c (A & B & C & D & E) Hs. repeat (split; [assumption|]).
  intro Hh. rewrite <- (E Hh). apply Hs; [lia|].
  unfold wo_size, fm_chunk_size, fm_disk_len, SIZEOF_chunk_header, RAW_CRC_SIZE.
  destruct (fm_payload_length (wo_e_hdr x) =? 0) eqn:E0; [apply N.eqb_eq in E0; lia|lia].
Qed.

Lemma e2_size_split : forall h, wo_size h = 32 + fm_disk_len (fm_payload_length h).
Proof. intro h. reflexivity. Qed.

Lemma e2_disk_len_ge : forall pl, pl <= fm_disk_len pl.
Proof.
  intro pl. unfold fm_disk_len, RAW_CRC_SIZE. destruct (pl =? 0) eqn:E; [apply N.eqb_eq in E; lia|lia].
Qed.

(* all the facts about the extents other than the one a write touches survive the write *)
Lemma e2_keep_crc : forall (f f' : list N), rf_len f <= rf_len f' ->
  forall x, e2_crc_ok f (wo_e_off x) (fm_payload_length (wo_e_hdr x)) ->
  e2_stable f f' (wo_e_off x + 32) (wo_e_off x + wo_size (wo_e_hdr x)) ->
  e2_crc_ok f' (wo_e_off x) (fm_payload_length (wo_e_hdr x)).
Proof.
  intros f f' Hlen x Hc Hs. eapply e2_crc_ok_stable; [exact Hc| |exact Hlen].
  rewrite e2_size_split in Hs. eapply e2_stable_sub; [exact Hs|lia|lia].
Qed.

Lemma e2_keep_tbl : forall (f f' : list N) x, fm_sub (wo_e_off x + 32) (fm_payload_length (wo_e_hdr x)) f = wo_e_table x ->
  e2_stable f f' (wo_e_off x + 32) (wo_e_off x + wo_size (wo_e_hdr x)) ->
  fm_sub (wo_e_off x + 32) (fm_payload_length (wo_e_hdr x)) f' = wo_e_table x.
Proof.
  intros f f' x Ht Hs. rewrite <- Ht. apply Hs; [lia|]. rewrite e2_size_split.
  pose proof (e2_disk_len_ge (fm_payload_length (wo_e_hdr x))). lia.
Qed.

(* ================================================================ the initial state *)
Lemma e2_J0 : e2_J wo_st0 rf_pst0 [].
Proof.
  constructor; cbn.
  - apply wo_inv0.
  - reflexivity.
  - exact I.
  - constructor.
  - intros x [].
  - intros x [].
  - intros h p H. discriminate.
  - intros o h p H. discriminate.
Qed.

(* ================================================================ small facts *)
Lemma e2_inpl_stable_region : forall f w b lo hi, w + rf_len b <= rf_len f -> (hi <= w \/ w + rf_len b <= lo) -> hi <= rf_len f ->
  e2_stable f (e2_inpl f w b) lo hi.
Proof.
  intros f w b lo hi Hw [H|H] Hhi.
  - eapply e2_stable_sub; [apply e2_stable_inpl_lo; exact Hw|lia|exact H].
  - eapply e2_stable_sub; [apply e2_stable_inpl_hi; exact Hw|exact H|exact Hhi].
Qed.

Lemma e2_write_inpl : forall f off b, off + rf_len b <= rf_len f -> wo_apply_write f off b = e2_inpl f off b.
Proof. intros f off b H. unfold rf_len in H. apply wo_write_inplace. lia. Qed.

Lemma e2_write_app : forall f off b, off = rf_len f -> wo_apply_write f off b = f ++ b.
Proof. intros f off b H. apply wo_write_append. subst off. unfold rf_len. apply Nat2N.id. Qed.

Lemma e2_rf_skip : forall q off b L, rp_pend q = None -> rp_end q = L -> off + rf_len b <= L ->
  (off <> L \/ length b <> 32%nat) ->
  rf_step q (WmWrite off b) = {| rp_end := L; rp_pend := None; rp_out := rp_out q |}.
Proof.
  intros q off b L Hp He Hb Hc. rewrite rf_step_skip; [|exact Hp|rewrite He; exact Hc].
  rewrite He. f_equal. lia.
Qed.

Lemma e2_sub_app_hi : forall (f b : list N) k n, fm_sub (rf_len f + k) n (f ++ b) = fm_sub k n b.
Proof.
  intros f b k n. unfold fm_sub, rf_len. replace (N.to_nat (N.of_nat (length f) + k)) with (length f + N.to_nat k)%nat by lia.
  rewrite skipn_add. rewrite skipn_app_exact by reflexivity. reflexivity.
Qed.

Lemma e2_sub_0 : forall a (f : list N), fm_sub a 0 f = [].
Proof. intros. reflexivity. Qed.

Lemma e2_nodup_off_inj : forall (E : list wo_ext) x y, NoDup (map wo_e_off E) -> In x E -> In y E -> wo_e_off x = wo_e_off y -> x = y.
Proof.
  induction E as [|z E IH]; intros x y Hnd Hx Hy He; [destruct Hx|].
  cbn [map] in Hnd. inversion Hnd as [|? ? Hni Hnd']; subst.
  destruct Hx as [->|Hx], Hy as [->|Hy]; [reflexivity| | |apply IH; assumption].
  - exfalso. apply Hni. rewrite He. apply in_map. exact Hy.
  - exfalso. apply Hni. rewrite <- He. apply in_map. exact Hx.
Qed.

Lemma e2_in_update_self : forall y E x0, wo_find (wo_e_off y) E = Some x0 -> In y (wo_update y E).
Proof.
  intros y E. induction E as [|z E IH]; intros x0 H; cbn [wo_find] in H; [discriminate|]. cbn [wo_update].
  destruct (wo_e_off z =? wo_e_off y) eqn:Ez; [left; reflexivity|right; eapply IH; exact H].
Qed.

Lemma e2_dec4 : forall l : list N, length l = 4%nat -> fm_dec l = fm_dec_u32 l.
Proof. intros l H. unfold fm_dec_u32. rewrite firstn_all2 by lia. reflexivity. Qed.

(* ================================================================ one event *)
Lemma e2_pend_none : forall s q f, e2_J s q f -> (forall h, wo_pending s <> WoHdr h) -> rp_pend q = None.
Proof.
  intros s q f J Hn. pose proof (j_pend _ _ _ J) as P. destruct (rp_pend q) as [[[o t] m]|]; [|reflexivity].
  destruct P as (h & Hp & _). elim (Hn h Hp).
Qed.

Lemma e2_F2_nil : forall f f' (l : list rf_chunk), Forall2 (e2_rel f) [] l -> Forall2 (e2_rel f') [] l.
Proof. intros f f' l H. inversion H. constructor. Qed.

Lemma e2_ext_in_pairs : forall x E, In x E -> In (wo_e_off x, wo_e_hdr x) (wo_pairs E).
Proof. exact wo_pairs_in. Qed.

Lemma e2_step : forall s q f e s',
  e2_J s q f -> wo_step false s (wmw_to_wo e) = inl s' ->
  (forall n, e = WmTrunc n -> wo_pending s = WoIdle) ->
  e2_J s' (rf_step q e) (wo_apply f (wmw_to_wo e)).
Proof.
  intros s q f e s' J H Htr.
  pose proof (j_wo _ _ _ J) as I.
  destruct (wo_step_sound false s f (wmw_to_wo e) s' I H) as [I' _].
  pose proof (wi_len _ _ I) as Hlen.
  destruct e as [off b|n|]; cbn [wmw_to_wo wo_step wo_apply] in *.
  3:{ inversion H; subst s'. cbn [rf_step]. exact J. }
  2:{ destruct (n =? wo_len s) eqn:E; [|discriminate]. inversion H; subst s'. apply N.eqb_eq in E.
      assert (Hf : firstn (N.to_nat n) f ++ repeat 0 (N.to_nat n - length f) = f).
      { rewrite firstn_all2 by lia. replace (N.to_nat n - length f)%nat with 0%nat by lia. cbn [repeat]. apply app_nil_r. }
      rewrite Hf in *. specialize (Htr n eq_refl).
      destruct J as [J1 J2 J3 J4 J5 J6 J7 J8]. constructor; cbn [rf_step rp_end rp_pend rp_out]; try assumption.
      rewrite Htr. exact Logic.I. }
  unfold wo_step_write in H.
  destruct (off =? 0) eqn:Eoff.
  { (* ---- file header ---- *)
    apply N.eqb_eq in Eoff. subst off.
    destruct (fm_decode_file_header b) as [fh|] eqn:Efh; [|discriminate].
    destruct (N.of_nat (length b) =? SIZEOF_file_header) eqn:En; cbn [negb] in H; [|discriminate].
    apply N.eqb_eq in En. unfold SIZEOF_file_header in En.
    destruct (wo_is_idle (wo_pending s)) eqn:Eidle; cbn [negb] in H; [|discriminate].
    assert (Hidle : wo_pending s = WoIdle) by (destruct (wo_pending s); try discriminate; reflexivity).
    assert (Hpn : rp_pend q = None) by (apply (e2_pend_none s q f J); intros h Hh; rewrite Hidle in Hh; discriminate).
    pose proof (j_out _ _ _ J) as O. rewrite Hidle in O.
    destruct (wo_len s =? 0) eqn:E0.
    - apply N.eqb_eq in E0. destruct (fm_fh_length fh =? 0); [|discriminate]. inversion H; subst s'. clear H.
      assert (Hf : f = []) by (destruct f; [reflexivity|cbn in Hlen; lia]). subst f.
      destruct (wi_empty _ _ I E0) as [Hex _]. rewrite Hex in O.
      assert (Hq : rf_step q (WmWrite 0 b) = {| rp_end := 32; rp_pend := None; rp_out := rp_out q |}).
      { unfold rf_step. rewrite Hpn. rewrite (j_end _ _ _ J), E0. cbn [N.eqb negb andb].
        f_equal. unfold rf_len. lia. }
      rewrite Hq.
      constructor; cbn [rp_end rp_pend rp_out wo_len wo_end wo_exts wo_pending].
      + exact I'.
      + lia.
      + exact Logic.I.
      + eapply e2_F2_nil. exact O.
      + intros x [].
      + intros x [].
      + intros h p Hp. discriminate.
      + intros o h p Hp. discriminate.
    - apply N.eqb_neq in E0. destruct (fm_fh_length fh =? wo_len s); [|discriminate]. inversion H; subst s'. clear H.
      destruct (wo_chunks_bounds _ _ _ (wi_chain _ _ I E0)) as [He Hbd].
      assert (Hpe : wo_end s = wo_len s) by (pose proof (wi_pend _ _ I E0) as Hp; unfold wo_pend_ok in Hp; now rewrite Hidle in Hp).
      assert (Hw : 0 + rf_len b <= rf_len f) by (unfold rf_len; lia).
      rewrite e2_write_inpl in * by exact Hw.
      set (f' := e2_inpl f 0 b) in *.
      assert (Hl' : rf_len f <= rf_len f') by (subst f'; unfold rf_len; rewrite e2_inpl_length by exact Hw; lia).
      assert (HSt : forall x, In x (wo_exts s) -> e2_stable f f' (wo_e_off x + 32) (wo_e_off x + wo_size (wo_e_hdr x))).
      { intros x Hx. destruct (Hbd _ _ (e2_ext_in_pairs _ _ Hx)) as (A & B & C & _).
        subst f'. apply e2_inpl_stable_region; [exact Hw|right; unfold rf_len; lia|unfold rf_len; lia]. }
      rewrite (e2_rf_skip q 0 b (wo_len s) Hpn (j_end _ _ _ J)); [|unfold rf_len; lia|left; lia].
      constructor; cbn [rp_end rp_pend rp_out wo_set wo_len wo_end wo_exts wo_pending].
      + exact I'.
      + reflexivity.
      + exact Logic.I.
      + eapply e2_F2_impl; [exact O|]. intros x c Hx Hr. eapply e2_rel_stable; [exact Hr|apply HSt; exact Hx].
      + intros x Hx _. apply (e2_keep_crc f f' Hl'); [apply (j_crc _ _ _ J x Hx); unfold e2_not_tbl; rewrite Hidle; exact Logic.I|apply HSt; exact Hx].
      + intros x Hx Hh. apply (e2_keep_tbl f f'); [apply (j_tbl _ _ _ J x Hx Hh)|apply HSt; exact Hx].
      + intros h p Hp. discriminate.
      + intros o h p Hp. discriminate. }
  apply N.eqb_neq in Eoff.
  destruct (wo_len s =? 0) eqn:E0; [discriminate|]. apply N.eqb_neq in E0.
  pose proof (wi_chain _ _ I E0) as Hch. pose proof (wi_pend _ _ I E0) as Hpend.
  destruct (wo_chunks_bounds _ _ _ Hch) as [He Hbd].
  assert (Hnd : NoDup (map wo_e_off (wo_exts s))) by (rewrite <- e2_pairs_offs; eapply e2_chunks_nodup; exact Hch).
  assert (Hxb : forall x, In x (wo_exts s) -> 32 <= wo_e_off x /\ wo_e_off x + wo_size (wo_e_hdr x) <= wo_end s /\ wo_end s <= rf_len f).
  { intros x Hx. destruct (Hbd _ _ (e2_ext_in_pairs _ _ Hx)) as (A & B & C & _). unfold rf_len. repeat split; assumption. }
  assert (Hdisj : forall x y, In x (wo_exts s) -> In y (wo_exts s) -> x <> y ->
            wo_e_off x + wo_size (wo_e_hdr x) <= wo_e_off y \/ wo_e_off y + wo_size (wo_e_hdr y) <= wo_e_off x).
  { intros x y Hx Hy Hne.
    destruct (wo_chunks_disjoint _ _ _ Hch _ _ _ _ (e2_ext_in_pairs _ _ Hx) (e2_ext_in_pairs _ _ Hy)) as [[Eo _]|K]; [|exact K].
    elim Hne. eapply e2_nodup_off_inj; eauto. }
  unfold wo_pend_ok in Hpend.
  pose proof (j_out _ _ _ J) as O.
  destruct (wo_pending s) as [|hp|hp pp|ot ht pt] eqn:Epend.
  4:{ (* ---- pad + CRC after a table rewrite ---- *)
    destruct Hpend as (Hpe & Hin & Hpl & Hhd).
    destruct ((off =? ot + SIZEOF_chunk_header + fm_payload_length ht) && wo_footer_ok ht pt b) eqn:Ec; [|discriminate].
    apply andb_true_iff in Ec as [Eo Ef]. apply N.eqb_eq in Eo. pose proof (wo_footer_len _ _ _ Ef) as Efl.
    inversion H; subst s'. clear H.
    destruct (j_tblp _ _ _ J ot ht pt Epend) as (xt & Hxt & Hxo & Hxh & Hxtb).
    destruct (Hxb xt Hxt) as (A & B & C). rewrite Hxo in A. rewrite Hxo, Hxh in B.
    assert (Hpl0 : fm_payload_length ht <> 0) by (rewrite Hpl; discriminate).
    pose proof (wo_size_pl _ Hpl0) as Hsz. unfold SIZEOF_chunk_header in Eo. rewrite Hpl in *.
    change (fm_pad_len SIZEOF_track_head) with 4 in *. unfold SIZEOF_track_head in *.
    assert (Hw : off + rf_len b <= rf_len f) by (unfold rf_len; lia).
    rewrite e2_write_inpl by exact Hw.
    set (f' := e2_inpl f off b).
    assert (Hl' : rf_len f <= rf_len f') by (subst f'; unfold rf_len; rewrite e2_inpl_length by exact Hw; lia).
    assert (Hpn : rp_pend q = None) by (apply (e2_pend_none s q f J); intros h Hh; rewrite Epend in Hh; discriminate).
    assert (HSt : forall x, In x (wo_exts s) -> x <> xt -> e2_stable f f' (wo_e_off x + 32) (wo_e_off x + wo_size (wo_e_hdr x))).
    { intros x Hx Hne. destruct (Hxb x Hx) as (A2 & B2 & C2). pose proof (wo_size_ge (wo_e_hdr x)).
      subst f'. apply e2_inpl_stable_region; [exact Hw| |lia].
      destruct (Hdisj x xt Hx Hxt Hne) as [K|K]; rewrite ?Hxo, ?Hxh in K; unfold rf_len in *; lia. }
    assert (HStt : e2_stable f f' (ot + 32) (ot + 160)).
    { subst f'. apply e2_inpl_stable_region; [exact Hw|left; lia|unfold rf_len in *; lia]. }
    rewrite (e2_rf_skip q off b (wo_len s) Hpn (j_end _ _ _ J)); [|unfold rf_len; lia|right; lia].
    constructor; cbn [rp_end rp_pend rp_out wo_set wo_len wo_end wo_exts wo_pending].
    + exact I'.
    + reflexivity.
    + exact Logic.I.
    + eapply e2_F2_impl; [exact O|]. intros x c Hx Hr.
      destruct (fm_is_head_tag (fm_tag (wo_e_hdr x))) eqn:Ehx.
      * destruct Hr as (R1 & R2 & R3 & R4 & R5). repeat (split; [assumption|]). intro K. rewrite Ehx in K. discriminate.
      * eapply e2_rel_stable; [exact Hr|apply HSt; [exact Hx|]]. intro Ex. subst x. rewrite Hxh, Hhd in Ehx. discriminate.
    + intros x Hx _. destruct (N.eq_dec (wo_e_off x) ot) as [Ex|Hne].
      * assert (x = xt) by (eapply e2_nodup_off_inj; eauto; congruence). subst x. rewrite Hxo, Hxh, Hpl.
        right. split; [change (fm_disk_len 128) with 136; unfold rf_len in *; lia|].
        change (fm_disk_len 128) with 136.
        rewrite (HStt (ot + 32) 128) by lia.
        pose proof (j_tbl _ _ _ J xt Hxt) as T. rewrite Hxo, Hxh, Hpl in T. rewrite (T Hhd), Hxtb.
        replace (ot + 32 + 136 - 4) with (off + 4) by lia.
        assert (Eb : fm_sub (off + 4) 4 f' = fm_sub 4 4 b).
        { rewrite <- (e2_sub_inpl_at f off b Hw) at 2. fold f'. rewrite e2_sub_sub by lia. reflexivity. }
        rewrite Eb. unfold wo_footer_ok in Ef. apply andb_true_iff in Ef as [_ Ef]. apply N.eqb_eq in Ef.
        rewrite Hpl in Ef. change (N.to_nat (fm_pad_len 128)) with 4%nat in Ef. rewrite <- Ef.
        unfold fm_dec_u32, fm_sub. change (N.to_nat 4) with 4%nat. reflexivity.
      * apply (e2_keep_crc f f' Hl'); [apply (j_crc _ _ _ J x Hx)|apply HSt; [exact Hx|intro K; subst x; congruence]].
        unfold e2_not_tbl. rewrite Epend. intro Eo2. apply Hne. congruence.
    + admit.
    + intros h p Hp. discriminate.
    + intros o h p Hp. discriminate. }
  all: admit.
Admitted.
