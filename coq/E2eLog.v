(* END TO END, layer 1 (log level): the CHUNK VIEW of a backend log (RefineLog.rf_scan / rf_chunks: what the refinement
   and composition theorems talk about) against the BYTES of the file the log produces (WriteOnce.wo_file_after: what the
   byte-level reader model reads), for every log accepted by the strict write-once checker (Properties_C14_writer: every
   log of the byte-exact writer model is accepted).

   e2_J s q f   joint invariant of the checker state s, the parser state q and the file bytes f after the same events:
                the completed chunks tracked by the checker (wo_exts) and the chunks of the parser (rp_out) are the SAME
                LIST (position by position: offset, tag, chunk_meta, payload length; the payload bytes of every chunk that
                is not a TRACK_*_HEAD chunk are in the file, unchanged); every completed chunk has a valid payload CRC in
                the file (except the HEAD chunk whose table is being rewritten); the payload bytes of a HEAD chunk are the
                table the checker holds for it.
   Only guard beyond acceptance: O_TRUNC / ftruncate occurs only as the very first backend call (rf_scan forgets a pending
   header at a truncate).  Definitions + proofs; every top-level name starts with e2_. *)
From Coq Require Import NArith ZArith List Bool Lia Arith.
From Coq Require Import ZifyBool ZifyN ZifyNat.
From JLS Require Import Generated CrcDefs CrcProofs Format FormatProofs WriteOnce WriteOnceProofs WmRaw WmCore WmProofs
                        WmWriteOnce RefineLog RawReadProofs.
Import ListNotations.
Local Open Scope N_scope.
Ltac Zify.zify_post_hook ::= Z.div_mod_to_equations.

Local Opaque crc32c.

(* ================================================================ byte ranges *)
Lemma e2_sub_eq : forall (f f' : list N) (a n : N),
  (forall i, (N.to_nat a <= i < N.to_nat a + N.to_nat n)%nat -> nth i f' 0 = nth i f 0) ->
  a + n <= rf_len f -> a + n <= rf_len f' -> fm_sub a n f' = fm_sub a n f.
Proof.
  intros f f' a n H H1 H2. unfold fm_sub, rf_len in *. apply wo_window_eq; [exact H|lia|lia].
Qed.

Lemma e2_sub_length : forall a n (f : list N), a + n <= rf_len f -> length (fm_sub a n f) = N.to_nat n.
Proof. intros a n f H. apply rr_sub_length. exact H. Qed.

(* the bytes [lo, hi) are the same in f and f' *)
Definition e2_stable (f f' : list N) (lo hi : N) : Prop :=
  forall a n, lo <= a -> a + n <= hi -> fm_sub a n f' = fm_sub a n f.

Lemma e2_stable_sub : forall f f' lo hi lo' hi', e2_stable f f' lo hi -> lo <= lo' -> hi' <= hi -> e2_stable f f' lo' hi'.
Proof. intros f f' lo hi lo' hi' H A B a n Ha Hn. apply H; lia. Qed.

Lemma e2_stable_app : forall (f b : list N), e2_stable f (f ++ b) 0 (rf_len f).
Proof.
  intros f b a n _ Hn. unfold rf_len in Hn. apply e2_sub_eq.
  - intros i Hi. apply app_nth1. lia.
  - exact Hn.
  - unfold rf_len. rewrite app_length. lia.
Qed.

Definition e2_inpl (f : list N) (w : N) (b : list N) : list N :=
  firstn (N.to_nat w) f ++ b ++ skipn (N.to_nat w + length b) f.

Lemma e2_inpl_length : forall f w b, w + rf_len b <= rf_len f -> length (e2_inpl f w b) = length f.
Proof. intros f w b H. unfold e2_inpl, rf_len in *. apply wo_inplace_length. lia. Qed.

Lemma e2_stable_inpl_lo : forall f w b, w + rf_len b <= rf_len f -> e2_stable f (e2_inpl f w b) 0 w.
Proof.
  intros f w b H a n _ Hn. pose proof (e2_inpl_length f w b H) as Hl. unfold rf_len in *. apply e2_sub_eq.
  - intros i Hi. unfold e2_inpl. apply wo_inplace_nth; lia.
  - unfold rf_len. lia.
  - unfold rf_len. rewrite Hl. lia.
Qed.

Lemma e2_stable_inpl_hi : forall f w b, w + rf_len b <= rf_len f -> e2_stable f (e2_inpl f w b) (w + rf_len b) (rf_len f).
Proof.
  intros f w b H a n Ha Hn. pose proof (e2_inpl_length f w b H) as Hl. unfold rf_len in *. apply e2_sub_eq.
  - intros i Hi. unfold e2_inpl. apply wo_inplace_nth; lia.
  - unfold rf_len. lia.
  - unfold rf_len. rewrite Hl. lia.
Qed.

Lemma e2_sub_inpl_at : forall f w b, w + rf_len b <= rf_len f -> fm_sub w (rf_len b) (e2_inpl f w b) = b.
Proof.
  intros f w b H. unfold fm_sub, e2_inpl, rf_len in *. rewrite Nat2N.id. apply wo_inplace_window. lia.
Qed.

Lemma e2_sub_app_at : forall (f b : list N), fm_sub (rf_len f) (rf_len b) (f ++ b) = b.
Proof.
  intros f b. unfold fm_sub, rf_len. rewrite !Nat2N.id. rewrite skipn_app_exact by reflexivity. apply firstn_all.
Qed.

(* a sub-range of a window *)
Lemma e2_sub_sub : forall (f : list N) a n a' n', a' + n' <= n ->
  fm_sub a' n' (fm_sub a n f) = fm_sub (a + a') n' f.
Proof.
  intros f a n a' n' H. unfold fm_sub. rewrite skipn_firstn_comm, firstn_firstn, <- skipn_add.
  f_equal; [lia|]. f_equal. lia.
Qed.

(* ================================================================ what is said about the file *)
(* the payload CRC of the chunk at o with payload length pl is valid, as jls_raw_rd_payload tests it *)
Definition e2_crc_ok (f : list N) (o pl : N) : Prop :=
  pl = 0 \/ (o + 32 + fm_disk_len pl <= rf_len f /\
             fm_dec (fm_sub (o + 32 + fm_disk_len pl - 4) 4 f) = crc32c (fm_sub (o + 32) pl f)).

Lemma e2_crc_ok_stable : forall f f' o pl, e2_crc_ok f o pl ->
  e2_stable f f' (o + 32) (o + 32 + fm_disk_len pl) -> rf_len f <= rf_len f' -> e2_crc_ok f' o pl.
Proof.
  intros f f' o pl [H0|(Hb & Hc)] Hs Hl; [left; exact H0|].
  destruct (N.eq_dec pl 0) as [E|Hne]; [left; exact E|right].
  pose proof (rr_pad_ge pl Hne) as Hp.
  split; [lia|]. rewrite (Hs (o + 32 + fm_disk_len pl - 4) 4) by lia. rewrite (Hs (o + 32) pl) by lia. exact Hc.
Qed.

(* a completed chunk of the checker against a chunk of the parser *)
Definition e2_rel (f : list N) (x : wo_ext) (c : rf_chunk) : Prop :=
  wo_e_off x = rc_off c /\ fm_tag (wo_e_hdr x) = rc_tag c /\ fm_chunk_meta (wo_e_hdr x) = rc_meta c /\
  fm_payload_length (wo_e_hdr x) = rf_len (rc_pay c) /\
  (fm_is_head_tag (fm_tag (wo_e_hdr x)) = false ->
     fm_sub (wo_e_off x + 32) (fm_payload_length (wo_e_hdr x)) f = rc_pay c).

Definition e2_not_tbl (s : wo_st) (o : N) : Prop :=
  match wo_pending s with WoTbl ot _ _ => ot <> o | _ => True end.

Record e2_J (s : wo_st) (q : rf_pst) (f : list N) : Prop := {
  j_wo : wo_inv s f;
  j_end : rp_end q = wo_len s;
  j_pend : match rp_pend q with
           | Some (o, t, m) => exists h, wo_pending s = WoHdr h /\ o = wo_end s /\ t = fm_tag h /\ m = fm_chunk_meta h
           | None => match wo_pending s with WoHdr _ => False | _ => True end
           end;
  j_out : match wo_pending s with
          | WoPay h p => exists c rest, rp_out q = c :: rest /\ rc_off c = wo_end s /\ rc_tag c = fm_tag h /\
                                        rc_meta c = fm_chunk_meta h /\ rc_pay c = p /\ Forall2 (e2_rel f) (wo_exts s) rest
          | _ => Forall2 (e2_rel f) (wo_exts s) (rp_out q)
          end;
  j_crc : forall x, In x (wo_exts s) -> e2_not_tbl s (wo_e_off x) ->
            e2_crc_ok f (wo_e_off x) (fm_payload_length (wo_e_hdr x));
  j_tbl : forall x, In x (wo_exts s) -> fm_is_head_tag (fm_tag (wo_e_hdr x)) = true ->
            fm_sub (wo_e_off x + 32) (fm_payload_length (wo_e_hdr x)) f = wo_e_table x;
  j_fl : forall h p, wo_pending s = WoPay h p ->
            fm_sub (wo_end s + 32) (fm_payload_length h) f = p /\ rf_len p = fm_payload_length h;
  j_tblp : forall o h p, wo_pending s = WoTbl o h p ->
            exists x, In x (wo_exts s) /\ wo_e_off x = o /\ wo_e_hdr x = h /\ wo_e_table x = p }.

(* ================================================================ lists of extents *)
Lemma e2_chunks_lt : forall f l e, wo_chunks f l e -> forall o h, In (o, h) l -> o < e.
Proof.
  intros f l e H o h Hin. destruct (wo_chunks_bounds _ _ _ H) as [_ Hb].
  destruct (Hb _ _ Hin) as (_ & B & _). pose proof (wo_size_ge h). lia.
Qed.

Lemma e2_chunks_nodup : forall f l e, wo_chunks f l e -> NoDup (map fst l).
Proof.
  intros f l e H. induction H as [|r o h Hr IH Hd Hb]; [constructor|].
  cbn [map fst]. constructor; [|exact IH].
  intro Hin. apply in_map_iff in Hin. destruct Hin as ([o' h'] & E & Hin). cbn in E. subst o'.
  pose proof (e2_chunks_lt _ _ _ Hr _ _ Hin). lia.
Qed.

Lemma e2_pairs_offs : forall E, map fst (wo_pairs E) = map wo_e_off E.
Proof. intro E. unfold wo_pairs. rewrite map_map. reflexivity. Qed.

Lemma e2_in_update : forall y E x, NoDup (map wo_e_off E) -> In x (wo_update y E) ->
  x = y \/ (In x E /\ wo_e_off x <> wo_e_off y).
Proof.
  intros y E x. induction E as [|z E IH]; intros Hnd Hin; cbn [wo_update] in Hin; [destruct Hin|].
  cbn [map] in Hnd. inversion Hnd as [|? ? Hni Hnd']; subst.
  destruct (wo_e_off z =? wo_e_off y) eqn:Ez.
  - apply N.eqb_eq in Ez. destruct Hin as [->|Hin]; [left; reflexivity|].
    right. split; [right; exact Hin|]. intro Ex. apply Hni. rewrite Ez, <- Ex. apply in_map. exact Hin.
  - apply N.eqb_neq in Ez. destruct Hin as [->|Hin]; [right; split; [left; reflexivity|exact Ez]|].
    destruct (IH Hnd' Hin) as [->|[A B]]; [left; reflexivity|right; split; [right; exact A|exact B]].
Qed.

Lemma e2_F2_update : forall (R R' : wo_ext -> rf_chunk -> Prop) y E out,
  Forall2 R E out ->
  (forall x c, In x E -> R x c -> wo_e_off x <> wo_e_off y -> R' x c) ->
  (forall x c, In x E -> R x c -> wo_e_off x = wo_e_off y -> R' y c) ->
  NoDup (map wo_e_off E) ->
  Forall2 R' (wo_update y E) out.
Proof.
  intros R R' y E out H. induction H as [|x c E out Hxc HF IH]; intros H1 H2 Hnd; cbn [wo_update]; [constructor|].
  cbn [map] in Hnd. inversion Hnd as [|? ? Hni Hnd']; subst.
  destruct (wo_e_off x =? wo_e_off y) eqn:Ex.
  - apply N.eqb_eq in Ex. constructor; [apply (H2 x c); [left; reflexivity|exact Hxc|exact Ex]|].
    clear IH. revert Hni H1. clear -HF Ex. intros Hni H1.
    induction HF as [|x' c' E' out' Hxc' HF' IH']; [constructor|].
    constructor.
    + apply H1; [right; left; reflexivity|exact Hxc'|]. intro K. apply Hni. cbn [map]. left. congruence.
    + apply IH'; [intro K; apply Hni; cbn [map]; right; exact K|].
      intros x0 c0 Hin0 Hr0 Hne0. apply H1; [|exact Hr0|exact Hne0]. destruct Hin0 as [->|Hin0]; [left; reflexivity|right; right; exact Hin0].
  - apply N.eqb_neq in Ex. constructor; [apply H1; [left; reflexivity|exact Hxc|exact Ex]|].
    apply IH; [|intros x0 c0 Hin0; apply H2; right; exact Hin0|exact Hnd'].
    intros x0 c0 Hin0. apply H1. right. exact Hin0.
Qed.

Lemma e2_F2_impl : forall (R R' : wo_ext -> rf_chunk -> Prop) E out,
  Forall2 R E out -> (forall x c, In x E -> R x c -> R' x c) -> Forall2 R' E out.
Proof.
  intros R R' E out H. induction H as [|x c E out Hxc HF IH]; intros HI; constructor.
  - apply HI; [left; reflexivity|exact Hxc].
  - apply IH. intros x0 c0 Hin0. apply HI. right. exact Hin0.
Qed.

(* ================================================================ frames *)
Lemma e2_rel_stable : forall f f' x c, e2_rel f x c ->
  e2_stable f f' (wo_e_off x + 32) (wo_e_off x + wo_size (wo_e_hdr x)) -> e2_rel f' x c.
Proof.
  intros f f' x c (A & B & C & D & E) Hs. repeat (split; [assumption|]).
  intro Hh. rewrite <- (E Hh). apply Hs; [lia|].
  unfold wo_size, fm_chunk_size, fm_disk_len, SIZEOF_chunk_header, RAW_CRC_SIZE.
  destruct (fm_payload_length (wo_e_hdr x) =? 0) eqn:E0; [apply N.eqb_eq in E0; lia|lia].
Qed.

Lemma e2_size_split : forall h, wo_size h = 32 + fm_disk_len (fm_payload_length h).
Proof. intro h. reflexivity. Qed.

Lemma e2_disk_len_ge : forall pl, pl <= fm_disk_len pl.
Proof.
  intro pl. unfold fm_disk_len, RAW_CRC_SIZE. destruct (pl =? 0) eqn:E; [apply N.eqb_eq in E; lia|lia].
Qed.

(* all the facts about the extents other than the one a write touches survive the write *)
Lemma e2_keep_crc : forall (f f' : list N), rf_len f <= rf_len f' ->
  forall x, e2_crc_ok f (wo_e_off x) (fm_payload_length (wo_e_hdr x)) ->
  e2_stable f f' (wo_e_off x + 32) (wo_e_off x + wo_size (wo_e_hdr x)) ->
  e2_crc_ok f' (wo_e_off x) (fm_payload_length (wo_e_hdr x)).
Proof.
  intros f f' Hlen x Hc Hs. eapply e2_crc_ok_stable; [exact Hc| |exact Hlen].
  rewrite e2_size_split in Hs. eapply e2_stable_sub; [exact Hs|lia|lia].
Qed.

Lemma e2_keep_tbl : forall (f f' : list N) x, fm_sub (wo_e_off x + 32) (fm_payload_length (wo_e_hdr x)) f = wo_e_table x ->
  e2_stable f f' (wo_e_off x + 32) (wo_e_off x + wo_size (wo_e_hdr x)) ->
  fm_sub (wo_e_off x + 32) (fm_payload_length (wo_e_hdr x)) f' = wo_e_table x.
Proof.
  intros f f' x Ht Hs. rewrite <- Ht. apply Hs; [lia|]. rewrite e2_size_split.
  pose proof (e2_disk_len_ge (fm_payload_length (wo_e_hdr x))). lia.
Qed.

(* ================================================================ the initial state *)
Lemma e2_J0 : e2_J wo_st0 rf_pst0 [].
Proof.
  constructor; cbn.
  - apply wo_inv0.
  - reflexivity.
  - exact I.
  - constructor.
  - intros x [].
  - intros x [].
  - intros h p H. discriminate.
  - intros o h p H. discriminate.
Qed.

(* ================================================================ small facts *)
Lemma e2_inpl_stable_region : forall f w b lo hi, w + rf_len b <= rf_len f -> (hi <= w \/ w + rf_len b <= lo) -> hi <= rf_len f ->
  e2_stable f (e2_inpl f w b) lo hi.
Proof.
  intros f w b lo hi Hw [H|H] Hhi.
  - eapply e2_stable_sub; [apply e2_stable_inpl_lo; exact Hw|lia|exact H].
  - eapply e2_stable_sub; [apply e2_stable_inpl_hi; exact Hw|exact H|exact Hhi].
Qed.

Lemma e2_write_inpl : forall f off b, off + rf_len b <= rf_len f -> wo_apply_write f off b = e2_inpl f off b.
Proof. intros f off b H. unfold rf_len in H. apply wo_write_inplace. lia. Qed.

Lemma e2_write_app : forall f off b, off = rf_len f -> wo_apply_write f off b = f ++ b.
Proof. intros f off b H. apply wo_write_append. subst off. unfold rf_len. apply Nat2N.id. Qed.

Lemma e2_rf_skip : forall q off b L, rp_pend q = None -> rp_end q = L -> off + rf_len b <= L ->
  (off <> L \/ length b <> 32%nat) ->
  rf_step q (WmWrite off b) = {| rp_end := L; rp_pend := None; rp_out := rp_out q |}.
Proof.
  intros q off b L Hp He Hb Hc. rewrite rf_step_skip; [|exact Hp|rewrite He; exact Hc].
  rewrite He. f_equal. lia.
Qed.

Lemma e2_sub_app_hi : forall (f b : list N) k n, fm_sub (rf_len f + k) n (f ++ b) = fm_sub k n b.
Proof.
  intros f b k n. unfold fm_sub, rf_len. replace (N.to_nat (N.of_nat (length f) + k)) with (length f + N.to_nat k)%nat by lia.
  rewrite skipn_add. rewrite skipn_app_exact by reflexivity. reflexivity.
Qed.

Lemma e2_sub_0 : forall a (f : list N), fm_sub a 0 f = [].
Proof. intros. reflexivity. Qed.

Lemma e2_nodup_off_inj : forall (E : list wo_ext) x y, NoDup (map wo_e_off E) -> In x E -> In y E -> wo_e_off x = wo_e_off y -> x = y.
Proof.
  induction E as [|z E IH]; intros x y Hnd Hx Hy He; [destruct Hx|].
  cbn [map] in Hnd. inversion Hnd as [|? ? Hni Hnd']; subst.
  destruct Hx as [->|Hx], Hy as [->|Hy]; [reflexivity| | |apply IH; assumption].
  - exfalso. apply Hni. rewrite He. apply in_map. exact Hy.
  - exfalso. apply Hni. rewrite <- He. apply in_map. exact Hx.
Qed.

Lemma e2_in_update_self : forall y E x0, wo_find (wo_e_off y) E = Some x0 -> In y (wo_update y E).
Proof.
  intros y E. induction E as [|z E IH]; intros x0 H; cbn [wo_find] in H; [discriminate|]. cbn [wo_update].
  destruct (wo_e_off z =? wo_e_off y) eqn:Ez; [left; reflexivity|right; eapply IH; exact H].
Qed.

Lemma e2_dec4 : forall l : list N, length l = 4%nat -> fm_dec l = fm_dec_u32 l.
Proof. intros l H. unfold fm_dec_u32. rewrite firstn_all2 by lia. reflexivity. Qed.

(* ================================================================ one event *)
Lemma e2_pend_none : forall s q f, e2_J s q f -> (forall h, wo_pending s <> WoHdr h) -> rp_pend q = None.
Proof.
  intros s q f J Hn. pose proof (j_pend _ _ _ J) as P. destruct (rp_pend q) as [[[o t] m]|]; [|reflexivity].
  destruct P as (h & Hp & _). elim (Hn h Hp).
Qed.

Lemma e2_F2_nil : forall f f' (l : list rf_chunk), Forall2 (e2_rel f) [] l -> Forall2 (e2_rel f') [] l.
Proof. intros f f' l H. inversion H. constructor. Qed.

Lemma e2_ext_in_pairs : forall x E, In x E -> In (wo_e_off x, wo_e_hdr x) (wo_pairs E).
Proof. exact wo_pairs_in. Qed.

Lemma e2_step : forall s q f e s',
  e2_J s q f -> wo_step false s (wmw_to_wo e) = inl s' ->
  (forall n, e = WmTrunc n -> wo_pending s = WoIdle) ->
  e2_J s' (rf_step q e) (wo_apply f (wmw_to_wo e)).
Proof.
  intros s q f e s' J H Htr.
  pose proof (j_wo _ _ _ J) as I.
  destruct (wo_step_sound false s f (wmw_to_wo e) s' I H) as [I' _].
  pose proof (wi_len _ _ I) as Hlen.
  destruct e as [off b|n|]; cbn [wmw_to_wo wo_step wo_apply] in *.
  3:{ inversion H; subst s'. cbn [rf_step]. exact J. }
  2:{ destruct (n =? wo_len s) eqn:E; [|discriminate]. inversion H; subst s'. apply N.eqb_eq in E.
      assert (Hf : firstn (N.to_nat n) f ++ repeat 0 (N.to_nat n - length f) = f).
      { rewrite firstn_all2 by lia. replace (N.to_nat n - length f)%nat with 0%nat by lia. cbn [repeat]. apply app_nil_r. }
      rewrite Hf in *. specialize (Htr n eq_refl).
      destruct J as [J1 J2 J3 J4 J5 J6 J7 J8]. constructor; cbn [rf_step rp_end rp_pend rp_out]; try assumption.
      rewrite Htr. exact Logic.I. }
  unfold wo_step_write in H.
  destruct (off =? 0) eqn:Eoff.
  { (* ---- file header ---- *)
    apply N.eqb_eq in Eoff. subst off.
    destruct (fm_decode_file_header b) as [fh|] eqn:Efh; [|discriminate].
    destruct (N.of_nat (length b) =? SIZEOF_file_header) eqn:En; cbn [negb] in H; [|discriminate].
    apply N.eqb_eq in En. unfold SIZEOF_file_header in En.
    destruct (wo_is_idle (wo_pending s)) eqn:Eidle; cbn [negb] in H; [|discriminate].
    assert (Hidle : wo_pending s = WoIdle) by (destruct (wo_pending s); try discriminate; reflexivity).
    assert (Hpn : rp_pend q = None) by (apply (e2_pend_none s q f J); intros h Hh; rewrite Hidle in Hh; discriminate).
    pose proof (j_out _ _ _ J) as O. rewrite Hidle in O.
    destruct (wo_len s =? 0) eqn:E0.
    - apply N.eqb_eq in E0. destruct (fm_fh_length fh =? 0); [|discriminate]. inversion H; subst s'. clear H.
      assert (Hf : f = []) by (destruct f; [reflexivity|cbn in Hlen; lia]). subst f.
      destruct (wi_empty _ _ I E0) as [Hex _]. rewrite Hex in O.
      assert (Hq : rf_step q (WmWrite 0 b) = {| rp_end := 32; rp_pend := None; rp_out := rp_out q |}).
      { unfold rf_step. rewrite Hpn. rewrite (j_end _ _ _ J), E0. cbn [N.eqb negb andb].
        f_equal. unfold rf_len. lia. }
      rewrite Hq.
      constructor; cbn [rp_end rp_pend rp_out wo_len wo_end wo_exts wo_pending].
      + exact I'.
      + lia.
      + exact Logic.I.
      + eapply e2_F2_nil. exact O.
      + intros x [].
      + intros x [].
      + intros h p Hp. discriminate.
      + intros o h p Hp. discriminate.
    - apply N.eqb_neq in E0. destruct (fm_fh_length fh =? wo_len s); [|discriminate]. inversion H; subst s'. clear H.
      destruct (wo_chunks_bounds _ _ _ (wi_chain _ _ I E0)) as [He Hbd].
      assert (Hpe : wo_end s = wo_len s) by (pose proof (wi_pend _ _ I E0) as Hp; unfold wo_pend_ok in Hp; now rewrite Hidle in Hp).
      assert (Hw : 0 + rf_len b <= rf_len f) by (unfold rf_len; lia).
      rewrite e2_write_inpl in * by exact Hw.
      set (f' := e2_inpl f 0 b) in *.
      assert (Hl' : rf_len f <= rf_len f') by (subst f'; unfold rf_len; rewrite e2_inpl_length by exact Hw; lia).
      assert (HSt : forall x, In x (wo_exts s) -> e2_stable f f' (wo_e_off x + 32) (wo_e_off x + wo_size (wo_e_hdr x))).
      { intros x Hx. destruct (Hbd _ _ (e2_ext_in_pairs _ _ Hx)) as (A & B & C & _).
        subst f'. apply e2_inpl_stable_region; [exact Hw|right; unfold rf_len; lia|unfold rf_len; lia]. }
      rewrite (e2_rf_skip q 0 b (wo_len s) Hpn (j_end _ _ _ J)); [|unfold rf_len; lia|left; lia].
      constructor; cbn [rp_end rp_pend rp_out wo_set wo_len wo_end wo_exts wo_pending].
      + exact I'.
      + reflexivity.
      + exact Logic.I.
      + eapply e2_F2_impl; [exact O|]. intros x c Hx Hr. eapply e2_rel_stable; [exact Hr|apply HSt; exact Hx].
      + intros x Hx _. apply (e2_keep_crc f f' Hl'); [apply (j_crc _ _ _ J x Hx); unfold e2_not_tbl; rewrite Hidle; exact Logic.I|apply HSt; exact Hx].
      + intros x Hx Hh. apply (e2_keep_tbl f f'); [apply (j_tbl _ _ _ J x Hx Hh)|apply HSt; exact Hx].
      + intros h p Hp. discriminate.
      + intros o h p Hp. discriminate. }
  apply N.eqb_neq in Eoff.
  destruct (wo_len s =? 0) eqn:E0; [discriminate|]. apply N.eqb_neq in E0.
  pose proof (wi_chain _ _ I E0) as Hch. pose proof (wi_pend _ _ I E0) as Hpend.
  destruct (wo_chunks_bounds _ _ _ Hch) as [He Hbd].
  assert (Hnd : NoDup (map wo_e_off (wo_exts s))) by (rewrite <- e2_pairs_offs; eapply e2_chunks_nodup; exact Hch).
  assert (Hxb : forall x, In x (wo_exts s) -> 32 <= wo_e_off x /\ wo_e_off x + wo_size (wo_e_hdr x) <= wo_end s /\ wo_end s <= rf_len f).
  { intros x Hx. destruct (Hbd _ _ (e2_ext_in_pairs _ _ Hx)) as (A & B & C & _). unfold rf_len. repeat split; assumption. }
  assert (Hdisj : forall x y, In x (wo_exts s) -> In y (wo_exts s) -> x <> y ->
            wo_e_off x + wo_size (wo_e_hdr x) <= wo_e_off y \/ wo_e_off y + wo_size (wo_e_hdr y) <= wo_e_off x).
  { intros x y Hx Hy Hne.
    destruct (wo_chunks_disjoint _ _ _ Hch _ _ _ _ (e2_ext_in_pairs _ _ Hx) (e2_ext_in_pairs _ _ Hy)) as [[Eo _]|K]; [|exact K].
    elim Hne. eapply e2_nodup_off_inj; eauto. }
  unfold wo_pend_ok in Hpend.
  pose proof (j_out _ _ _ J) as O.
  destruct (wo_pending s) as [|hp|hp pp|ot ht pt] eqn:Epend.
  4:{ (* ---- pad + CRC after a table rewrite ---- *)
    destruct Hpend as (Hpe & Hin & Hpl & Hhd).
    destruct ((off =? ot + SIZEOF_chunk_header + fm_payload_length ht) && wo_footer_ok ht pt b) eqn:Ec; [|discriminate].
    apply andb_true_iff in Ec as [Eo Ef]. apply N.eqb_eq in Eo. pose proof (wo_footer_len _ _ _ Ef) as Efl.
    inversion H; subst s'. clear H.
    destruct (j_tblp _ _ _ J ot ht pt Epend) as (xt & Hxt & Hxo & Hxh & Hxtb).
    destruct (Hxb xt Hxt) as (A & B & C). rewrite Hxo in A. rewrite Hxo, Hxh in B.
    assert (Hpl0 : fm_payload_length ht <> 0) by (rewrite Hpl; discriminate).
    pose proof (wo_size_pl _ Hpl0) as Hsz. unfold SIZEOF_chunk_header in Eo. rewrite Hpl in *.
    change (fm_pad_len SIZEOF_track_head) with 4 in *. unfold SIZEOF_track_head in *.
    assert (Hw : off + rf_len b <= rf_len f) by (unfold rf_len; lia).
    rewrite e2_write_inpl in * by exact Hw.
    set (f' := e2_inpl f off b) in *.
    assert (Hl' : rf_len f <= rf_len f') by (subst f'; unfold rf_len; rewrite e2_inpl_length by exact Hw; lia).
    assert (Hpn : rp_pend q = None) by (apply (e2_pend_none s q f J); intros h Hh; rewrite Epend in Hh; discriminate).
    assert (HSt : forall x, In x (wo_exts s) -> x <> xt -> e2_stable f f' (wo_e_off x + 32) (wo_e_off x + wo_size (wo_e_hdr x))).
    { intros x Hx Hne. destruct (Hxb x Hx) as (A2 & B2 & C2). pose proof (wo_size_ge (wo_e_hdr x)).
      subst f'. apply e2_inpl_stable_region; [exact Hw| |lia].
      destruct (Hdisj x xt Hx Hxt Hne) as [K|K]; rewrite ?Hxo, ?Hxh in K; unfold rf_len in *; lia. }
    assert (HStt : e2_stable f f' (ot + 32) (ot + 160)).
    { subst f'. apply e2_inpl_stable_region; [exact Hw|left; lia|unfold rf_len in *; lia]. }
    rewrite (e2_rf_skip q off b (wo_len s) Hpn (j_end _ _ _ J)); [|unfold rf_len; lia|right; lia].
    constructor; cbn [rp_end rp_pend rp_out wo_set wo_len wo_end wo_exts wo_pending].
    + exact I'.
    + reflexivity.
    + exact Logic.I.
    + eapply e2_F2_impl; [exact O|]. intros x c Hx Hr.
      destruct (fm_is_head_tag (fm_tag (wo_e_hdr x))) eqn:Ehx.
      * destruct Hr as (R1 & R2 & R3 & R4 & R5). repeat (split; [assumption|]). intro K. rewrite Ehx in K. discriminate.
      * eapply e2_rel_stable; [exact Hr|apply HSt; [exact Hx|]]. intro Ex. subst x. rewrite Hxh, Hhd in Ehx. discriminate.
    + intros x Hx _. destruct (N.eq_dec (wo_e_off x) ot) as [Ex|Hne].
      * assert (x = xt) by (eapply e2_nodup_off_inj; eauto; congruence). subst x. rewrite Hxo, Hxh, Hpl.
        right. split; [change (fm_disk_len 128) with 136; unfold rf_len in *; lia|].
        change (fm_disk_len 128) with 136.
        rewrite (HStt (ot + 32) 128) by lia.
        pose proof (j_tbl _ _ _ J xt Hxt) as T. rewrite Hxo, Hxh, Hpl in T. rewrite (T Hhd), Hxtb.
        replace (ot + 32 + 136 - 4) with (off + 4) by lia.
        assert (Eb : fm_sub (off + 4) 4 f' = fm_sub 4 4 b).
        { transitivity (fm_sub 4 4 (fm_sub off (rf_len b) f')); [|subst f'; rewrite (e2_sub_inpl_at f off b Hw); reflexivity].
          rewrite e2_sub_sub by (unfold rf_len; lia). reflexivity. }
        rewrite Eb. unfold wo_footer_ok in Ef. apply andb_true_iff in Ef as [_ Ef]. apply N.eqb_eq in Ef.
        rewrite Hpl in Ef. change (N.to_nat (fm_pad_len 128)) with 4%nat in Ef. rewrite <- Ef.
        unfold fm_dec_u32, fm_sub. change (N.to_nat 4) with 4%nat. reflexivity.
      * apply (e2_keep_crc f f' Hl'); [apply (j_crc _ _ _ J x Hx)|apply HSt; [exact Hx|intro K; subst x; congruence]].
        unfold e2_not_tbl. rewrite Epend. intro Eo2. apply Hne. congruence.
    + intros x Hx Hh. destruct (N.eq_dec (wo_e_off x) ot) as [Ex|Hne].
      * assert (x = xt) by (eapply e2_nodup_off_inj; eauto; congruence). subst x.
        pose proof (j_tbl _ _ _ J xt Hxt Hh) as T. rewrite <- T. rewrite Hxo, Hxh, Hpl. apply HStt; lia.
      * apply (e2_keep_tbl f f'); [apply (j_tbl _ _ _ J x Hx Hh)|apply HSt; [exact Hx|intro K; subst x; congruence]].
    + intros h p Hp. discriminate.
    + intros o h p Hp. discriminate. }
  all: destruct (wo_len s <? off) eqn:Ehole; [discriminate|]; apply N.ltb_ge in Ehole.
  all: destruct (off =? wo_len s) eqn:Eapp.
  all: try (apply N.eqb_eq in Eapp; subst off; rewrite e2_write_app in * by (unfold rf_len; lia)).
  all: try assert (HApp : forall x, In x (wo_exts s) -> e2_stable f (f ++ b) (wo_e_off x + 32) (wo_e_off x + wo_size (wo_e_hdr x)))
         by (intros x Hx; destruct (Hxb x Hx) as (A & B & C); eapply e2_stable_sub; [apply e2_stable_app|lia|lia]).
  all: try assert (HlA : rf_len f <= rf_len (f ++ b)) by (unfold rf_len; rewrite app_length; lia).
  - (* append, idle: a chunk header *)
    destruct (fm_decode_chunk_header b) as [h|] eqn:Ed; [|discriminate].
    destruct (N.of_nat (length b) =? SIZEOF_chunk_header) eqn:En; cbn [negb] in H; [|discriminate].
    apply N.eqb_eq in En. unfold SIZEOF_chunk_header in En.
    destruct (fm_decode_chunk_header_some _ _ Ed) as (_ & Ehf & _).
    assert (Hpn : rp_pend q = None) by (apply (e2_pend_none s q f J); intros h0 Hh; rewrite Epend in Hh; discriminate).
    rewrite (rf_step_hdr q (wo_len s) b Hpn (j_end _ _ _ J) E0) by lia. cbv zeta. rewrite <- Ehf.
    destruct (fm_payload_length h =? 0) eqn:Epl; inversion H; subst s'; clear H.
    + apply N.eqb_eq in Epl.
      constructor; cbn [rp_end rp_pend rp_out wo_complete wo_set wo_len wo_end wo_exts wo_pending].
      * exact I'.
      * lia.
      * exact Logic.I.
      * constructor.
        -- unfold e2_rel. cbn [wo_e_off wo_e_hdr rc_off rc_tag rc_meta rc_pay]. rewrite Epl.
           repeat split; try reflexivity. exact Hpend.
        -- eapply e2_F2_impl; [exact O|]. intros x c Hx Hr. eapply e2_rel_stable; [exact Hr|apply HApp; exact Hx].
      * intros x [<-|Hx] _; [left; exact Epl|].
        apply (e2_keep_crc f (f ++ b) HlA); [apply (j_crc _ _ _ J x Hx); unfold e2_not_tbl; rewrite Epend; exact Logic.I|apply HApp; exact Hx].
      * intros x [<-|Hx] Hh.
        -- cbn [wo_e_off wo_e_hdr wo_e_table]. rewrite Epl. destruct (fm_is_head_tag (fm_tag h)); reflexivity.
        -- apply (e2_keep_tbl f (f ++ b)); [apply (j_tbl _ _ _ J x Hx Hh)|apply HApp; exact Hx].
      * intros h0 p Hp. discriminate.
      * intros o h0 p Hp. discriminate.
    + apply N.eqb_neq in Epl.
      constructor; cbn [rp_end rp_pend rp_out wo_complete wo_set wo_len wo_end wo_exts wo_pending].
      * exact I'.
      * lia.
      * exists h. repeat split; try reflexivity. symmetry. exact Hpend.
      * eapply e2_F2_impl; [exact O|]. intros x c Hx Hr. eapply e2_rel_stable; [exact Hr|apply HApp; exact Hx].
      * intros x Hx _.
        apply (e2_keep_crc f (f ++ b) HlA); [apply (j_crc _ _ _ J x Hx); unfold e2_not_tbl; rewrite Epend; exact Logic.I|apply HApp; exact Hx].
      * intros x Hx Hh. apply (e2_keep_tbl f (f ++ b)); [apply (j_tbl _ _ _ J x Hx Hh)|apply HApp; exact Hx].
      * intros h0 p Hp. discriminate.
      * intros o h0 p Hp. discriminate.
  - (* in place, idle *)
    apply N.eqb_neq in Eapp. cbn [wo_is_idle negb] in H.
    assert (Hpn : rp_pend q = None) by (apply (e2_pend_none s q f J); intros h0 Hh; rewrite Epend in Hh; discriminate).
    destruct (wo_find off (wo_exts s)) as [x0|] eqn:Efind.
    + (* header link *)
      destruct (wo_find_some _ _ _ Efind) as [Hx0 Hx0off].
      destruct (fm_decode_chunk_header b) as [h'|] eqn:Ed; [|discriminate].
      destruct (N.of_nat (length b) =? SIZEOF_chunk_header) eqn:En; cbn [negb] in H; [|discriminate].
      apply N.eqb_eq in En. unfold SIZEOF_chunk_header in En.
      destruct (wo_hdr_diff false (wo_e_hdr x0) h') as [r|] eqn:Ediff; [discriminate|].
      apply wo_hdr_diff_none in Ediff. destruct Ediff as (D1 & D2 & D3 & D4 & D5 & D6).
      inversion H; subst s'. clear H.
      destruct (Hxb x0 Hx0) as (A & B & C). pose proof (wo_size_ge (wo_e_hdr x0)) as Hsx.
      assert (Hw : off + rf_len b <= rf_len f) by (unfold rf_len in *; lia).
      rewrite e2_write_inpl in * by exact Hw.
      set (f' := e2_inpl f off b) in *.
      assert (Hl' : rf_len f <= rf_len f') by (subst f'; unfold rf_len; rewrite e2_inpl_length by exact Hw; lia).
      assert (HSt : forall x, In x (wo_exts s) -> e2_stable f f' (wo_e_off x + 32) (wo_e_off x + wo_size (wo_e_hdr x))).
      { intros x Hx. destruct (Hxb x Hx) as (A2 & B2 & C2). pose proof (wo_size_ge (wo_e_hdr x)).
        subst f'. apply e2_inpl_stable_region; [exact Hw| |lia].
        destruct (N.eq_dec (wo_e_off x) off) as [Ex|Hne]; [right; unfold rf_len; lia|].
        assert (Hxne : x <> x0) by (intro K; subst x; congruence).
        destruct (Hdisj x x0 Hx Hx0 Hxne) as [K|K]; unfold rf_len in *; lia. }
      rewrite (e2_rf_skip q off b (wo_len s) Hpn (j_end _ _ _ J)); [|unfold rf_len in *; lia|left; exact Eapp].
      set (y := {| wo_e_off := off; wo_e_hdr := h'; wo_e_table := wo_e_table x0 |}).
      assert (HinU : forall x, In x (wo_update y (wo_exts s)) -> x = y \/ (In x (wo_exts s) /\ wo_e_off x <> off)).
      { intros x Hx. exact (e2_in_update y (wo_exts s) x Hnd Hx). }
      constructor; cbn [rp_end rp_pend rp_out wo_set wo_len wo_end wo_exts wo_pending].
      * exact I'.
      * reflexivity.
      * exact Logic.I.
      * eapply e2_F2_update; [exact O| | |exact Hnd].
        -- intros x c Hx Hr _. eapply e2_rel_stable; [exact Hr|apply HSt; exact Hx].
        -- intros x c Hx Hr Ex. cbn [wo_e_off y] in Ex.
           assert (x = x0) by (eapply e2_nodup_off_inj; eauto; congruence). subst x.
           pose proof (e2_rel_stable f f' x0 c Hr (HSt x0 Hx0)) as (R1 & R2 & R3 & R4 & R5).
           unfold e2_rel. cbn [wo_e_off wo_e_hdr y]. rewrite D2, D4, D5. rewrite Hx0off in R1, R5.
           repeat (split; [assumption|]). exact R5.
      * intros x Hx _. destruct (HinU x Hx) as [->|[Hx' Hne]].
        -- cbn [wo_e_off wo_e_hdr y]. rewrite D5. rewrite <- Hx0off.
           apply (e2_keep_crc f f' Hl'); [apply (j_crc _ _ _ J x0 Hx0); unfold e2_not_tbl; rewrite Epend; exact Logic.I|apply HSt; exact Hx0].
        -- apply (e2_keep_crc f f' Hl'); [apply (j_crc _ _ _ J x Hx'); unfold e2_not_tbl; rewrite Epend; exact Logic.I|apply HSt; exact Hx'].
      * intros x Hx Hh. destruct (HinU x Hx) as [->|[Hx' Hne]].
        -- cbn [wo_e_off wo_e_hdr wo_e_table y] in *. rewrite D5. rewrite D2 in Hh. rewrite <- Hx0off.
           apply (e2_keep_tbl f f'); [apply (j_tbl _ _ _ J x0 Hx0 Hh)|apply HSt; exact Hx0].
        -- apply (e2_keep_tbl f f'); [apply (j_tbl _ _ _ J x Hx' Hh)|apply HSt; exact Hx'].
      * intros h0 p Hp. discriminate.
      * intros o h0 p Hp. discriminate.
    + (* head table *)
      destruct (off <? SIZEOF_chunk_header) eqn:Elt; [discriminate|]. apply N.ltb_ge in Elt. unfold SIZEOF_chunk_header in *.
      destruct (wo_find (off - 32) (wo_exts s)) as [x0|] eqn:Efind2; [|discriminate].
      destruct (wo_find_some _ _ _ Efind2) as [Hx0 Hx0off].
      destruct (fm_is_head_tag (fm_tag (wo_e_hdr x0))) eqn:Ehd; cbn [negb] in H; [|discriminate].
      destruct ((fm_payload_length (wo_e_hdr x0) =? SIZEOF_track_head) && (N.of_nat (length b) =? SIZEOF_track_head)) eqn:El;
        cbn [negb] in H; [|discriminate].
      apply andb_true_iff in El as [Epl En]. apply N.eqb_eq in Epl, En. unfold SIZEOF_track_head in *.
      destruct (wo_tbl_check _ _ _ _ _) as [r|]; [discriminate|]. inversion H; subst s'. clear H.
      destruct (Hxb x0 Hx0) as (A & B & C).
      assert (Hpl0 : fm_payload_length (wo_e_hdr x0) <> 0) by (rewrite Epl; discriminate).
      pose proof (wo_size_pl _ Hpl0) as Hsz. rewrite Epl in Hsz. change (fm_pad_len 128) with 4 in Hsz.
      assert (Hw : off + rf_len b <= rf_len f) by (unfold rf_len in *; lia).
      rewrite e2_write_inpl in * by exact Hw.
      set (f' := e2_inpl f off b) in *.
      assert (Hl' : rf_len f <= rf_len f') by (subst f'; unfold rf_len; rewrite e2_inpl_length by exact Hw; lia).
      assert (HSt : forall x, In x (wo_exts s) -> x <> x0 -> e2_stable f f' (wo_e_off x + 32) (wo_e_off x + wo_size (wo_e_hdr x))).
      { intros x Hx Hne. destruct (Hxb x Hx) as (A2 & B2 & C2). pose proof (wo_size_ge (wo_e_hdr x)).
        subst f'. apply e2_inpl_stable_region; [exact Hw| |lia].
        destruct (Hdisj x x0 Hx Hx0 Hne) as [K|K]; unfold rf_len in *; lia. }
      rewrite (e2_rf_skip q off b (wo_len s) Hpn (j_end _ _ _ J)); [|unfold rf_len in *; lia|left; exact Eapp].
      set (y := {| wo_e_off := wo_e_off x0; wo_e_hdr := wo_e_hdr x0; wo_e_table := b |}).
      assert (HinU : forall x, In x (wo_update y (wo_exts s)) -> x = y \/ (In x (wo_exts s) /\ wo_e_off x <> wo_e_off x0)).
      { intros x Hx. exact (e2_in_update y (wo_exts s) x Hnd Hx). }
      assert (Hne0 : forall x, In x (wo_exts s) -> wo_e_off x <> wo_e_off x0 -> x <> x0) by (intros x _ K E; subst x; congruence).
      constructor; cbn [rp_end rp_pend rp_out wo_set wo_len wo_end wo_exts wo_pending].
      * exact I'.
      * reflexivity.
      * exact Logic.I.
      * eapply e2_F2_update; [exact O| | |exact Hnd].
        -- intros x c Hx Hr Ex. cbn [wo_e_off y] in Ex. eapply e2_rel_stable; [exact Hr|apply HSt; [exact Hx|apply Hne0; assumption]].
        -- intros x c Hx Hr Ex. cbn [wo_e_off y] in Ex.
           assert (x = x0) by (eapply e2_nodup_off_inj; eauto). subst x.
           destruct Hr as (R1 & R2 & R3 & R4 & R5). unfold e2_rel. cbn [wo_e_off wo_e_hdr y].
           repeat (split; [assumption|]). intro K. rewrite Ehd in K. discriminate.
      * intros x Hx Hnt. destruct (HinU x Hx) as [->|[Hx' Hne]].
        -- unfold e2_not_tbl in Hnt. cbn [wo_pending wo_set wo_e_off y] in Hnt. elim Hnt. reflexivity.
        -- apply (e2_keep_crc f f' Hl'); [apply (j_crc _ _ _ J x Hx'); unfold e2_not_tbl; rewrite Epend; exact Logic.I|apply HSt; [exact Hx'|apply Hne0; assumption]].
      * intros x Hx Hh. destruct (HinU x Hx) as [->|[Hx' Hne]].
        -- cbn [wo_e_off wo_e_hdr wo_e_table y]. rewrite Epl. replace (wo_e_off x0 + 32) with off by lia.
           replace 128 with (rf_len b) by (unfold rf_len; lia). subst f'. apply e2_sub_inpl_at. exact Hw.
        -- apply (e2_keep_tbl f f'); [apply (j_tbl _ _ _ J x Hx' Hh)|apply HSt; [exact Hx'|apply Hne0; assumption]].
      * intros h0 p Hp. discriminate.
      * intros o h0 p Hp. inversion Hp; subst o h0 p. exists y. split; [eapply e2_in_update_self; cbn [wo_e_off y]; exact (eq_ind _ (fun o => wo_find o (wo_exts s) = Some x0) Efind2 _ (eq_sym Hx0off))|].
        repeat split.
  - (* append, header written: the payload *)
    destruct Hpend as (Hd & Hl & Hpl).
    destruct (N.of_nat (length b) =? fm_payload_length hp) eqn:En; [|discriminate]. apply N.eqb_eq in En.
    inversion H; subst s'. clear H.
    pose proof (j_pend _ _ _ J) as P. rewrite Epend in P.
    destruct (rp_pend q) as [[[o t] m]|] eqn:Eq; [|elim P].
    destruct P as (h0 & Eh0 & Eo & Et & Em). inversion Eh0; subst h0. subst o t m.
    pose proof (j_end _ _ _ J) as Hqe.
    assert (Hq : rf_step q (WmWrite (wo_len s) b) =
                 {| rp_end := wo_len s + rf_len b; rp_pend := None;
                    rp_out := {| rc_off := wo_end s; rc_tag := fm_tag hp; rc_meta := fm_chunk_meta hp; rc_pay := b |} :: rp_out q |}).
    { rewrite Hl. rewrite (rf_step_pay q (wo_end s) (fm_tag hp) (fm_chunk_meta hp) b Eq); [reflexivity|lia]. }
    rewrite Hq.
    constructor; cbn [rp_end rp_pend rp_out wo_complete wo_set wo_len wo_end wo_exts wo_pending].
    + exact I'.
    + unfold rf_len. reflexivity.
    + exact Logic.I.
    + eexists. eexists. split; [reflexivity|]. cbn [rc_off rc_tag rc_meta rc_pay]. repeat (split; [reflexivity|]).
      eapply e2_F2_impl; [exact O|]. intros x c Hx Hr. eapply e2_rel_stable; [exact Hr|apply HApp; exact Hx].
    + intros x Hx _.
      apply (e2_keep_crc f (f ++ b) HlA); [apply (j_crc _ _ _ J x Hx); unfold e2_not_tbl; rewrite Epend; exact Logic.I|apply HApp; exact Hx].
    + intros x Hx Hh. apply (e2_keep_tbl f (f ++ b)); [apply (j_tbl _ _ _ J x Hx Hh)|apply HApp; exact Hx].
    + intros h0 p Hp. inversion Hp; subst h0 p. split; [|unfold rf_len; exact En].
      replace (wo_end s + 32) with (rf_len f) by (unfold rf_len; lia). rewrite <- En. apply e2_sub_app_at.
    + intros o h0 p Hp. discriminate.
  - (* in place while appending *)
    cbn [wo_is_idle negb] in H. discriminate.
  - (* append, payload written: pad + CRC *)
    destruct Hpend as (Hd & Hl & Hpl).
    destruct (wo_footer_ok hp pp b) eqn:Ef; [|discriminate]. pose proof (wo_footer_len _ _ _ Ef) as Efl.
    inversion H; subst s'. clear H.
    pose proof (wo_size_pl _ Hpl) as Hsz.
    assert (Hpn : rp_pend q = None) by (apply (e2_pend_none s q f J); intros h0 Hh; rewrite Epend in Hh; discriminate).
    pose proof (fm_pad_len_lt (fm_payload_length hp)) as Hpad.
    rewrite rf_step_skip; [|exact Hpn|right; lia].
    destruct O as (c & rest & Eout & Oc1 & Oc2 & Oc3 & Oc4 & Orest).
    destruct (j_fl _ _ _ J hp pp Epend) as (Fl1 & Fl2).
    assert (HstN : e2_stable f (f ++ b) (wo_end s + 32) (wo_end s + 32 + fm_payload_length hp)).
    { eapply e2_stable_sub; [apply e2_stable_app|lia|unfold rf_len; lia]. }
    assert (HpayN : fm_sub (wo_end s + 32) (fm_payload_length hp) (f ++ b) = pp).
    { rewrite <- Fl1. apply HstN; lia. }
    constructor; cbn [rp_end rp_pend rp_out wo_complete wo_set wo_len wo_end wo_exts wo_pending].
    + exact I'.
    + rewrite (j_end _ _ _ J). unfold rf_len. lia.
    + exact Logic.I.
    + rewrite Eout. constructor.
      * unfold e2_rel. cbn [wo_e_off wo_e_hdr]. rewrite Oc1, Oc2, Oc3, Oc4.
        repeat (split; [reflexivity|]). split; [symmetry; exact Fl2|]. intros _. exact HpayN.
      * eapply e2_F2_impl; [exact Orest|]. intros x c0 Hx Hr. eapply e2_rel_stable; [exact Hr|apply HApp; exact Hx].
    + intros x [<-|Hx] _.
      * cbn [wo_e_off wo_e_hdr]. right.
        assert (Hdl : fm_disk_len (fm_payload_length hp) = fm_payload_length hp + fm_pad_len (fm_payload_length hp) + 4).
        { unfold fm_disk_len, RAW_CRC_SIZE. destruct (fm_payload_length hp =? 0) eqn:E; [apply N.eqb_eq in E; congruence|reflexivity]. }
        split; [unfold rf_len; rewrite app_length; lia|].
        rewrite HpayN.
        replace (wo_end s + 32 + fm_disk_len (fm_payload_length hp) - 4) with (rf_len f + fm_pad_len (fm_payload_length hp)) by (unfold rf_len; lia).
        rewrite e2_sub_app_hi.
        unfold wo_footer_ok in Ef. apply andb_true_iff in Ef as [_ Ef]. apply N.eqb_eq in Ef. rewrite <- Ef.
        unfold fm_dec_u32, fm_sub. change (N.to_nat 4) with 4%nat. reflexivity.
      * apply (e2_keep_crc f (f ++ b) HlA); [apply (j_crc _ _ _ J x Hx); unfold e2_not_tbl; rewrite Epend; exact Logic.I|apply HApp; exact Hx].
    + intros x [<-|Hx] Hh.
      * cbn [wo_e_off wo_e_hdr wo_e_table] in *. rewrite Hh. exact HpayN.
      * apply (e2_keep_tbl f (f ++ b)); [apply (j_tbl _ _ _ J x Hx Hh)|apply HApp; exact Hx].
    + intros h0 p Hp. discriminate.
    + intros o h0 p Hp. discriminate.
  - cbn [wo_is_idle negb] in H. discriminate.
Qed.

(* ================================================================ whole logs *)
Definition e2_is_trunc (e : wm_entry) : bool := match e with WmTrunc _ => true | _ => false end.
(* O_TRUNC / ftruncate occurs only as the oldest entry of the log (logs are kept newest first) *)
Definition e2_trunc_first (log : wm_log) : Prop := Forall (fun e => e2_is_trunc e = false) (removelast log).

Lemma e2_scan_fold : forall log, rf_scan log = fold_left rf_step (rev log) rf_pst0.
Proof.
  induction log as [|e l IH]; [reflexivity|]. cbn [rf_scan rev]. rewrite fold_left_app. cbn [fold_left]. rewrite IH. reflexivity.
Qed.

Lemma e2_run_J : forall evs s q f i s',
  e2_J s q f -> wo_run false s i (map wmw_to_wo evs) = inl s' -> Forall (fun e => e2_is_trunc e = false) evs ->
  e2_J s' (fold_left rf_step evs q) (fold_left wo_apply (map wmw_to_wo evs) f).
Proof.
  induction evs as [|e evs IH]; intros s q f i s' J H Hnt; cbn [map wo_run fold_left] in *.
  - inversion H; subst. exact J.
  - destruct (wo_step false s (wmw_to_wo e)) as [s1|why] eqn:Es; [|discriminate].
    inversion Hnt as [|? ? He Hnt']; subst.
    apply (IH s1 (rf_step q e) (wo_apply f (wmw_to_wo e)) (i + 1) s'); [|exact H|exact Hnt'].
    apply (e2_step s q f e s1 J Es). intros n En. subst e. discriminate He.
Qed.

Lemma e2_removelast_rev : forall (A : Type) (l : list A), removelast l = rev (tl (rev l)).
Proof.
  intros A l. destruct (rev l) as [|x r] eqn:E.
  - apply (f_equal (@rev A)) in E. rewrite rev_involutive in E. subst l. reflexivity.
  - apply (f_equal (@rev A)) in E. rewrite rev_involutive in E. subst l. cbn [rev tl]. rewrite removelast_last. reflexivity.
Qed.

Theorem e2_log_J : forall log s,
  wo_run false wo_st0 0 (wmw_evs log) = inl s -> e2_trunc_first log ->
  e2_J s (rf_scan log) (wo_file_after (wmw_evs log)).
Proof.
  intros log s H Ht. rewrite e2_scan_fold. unfold wmw_evs, wo_file_after in *. unfold e2_trunc_first in Ht.
  rewrite e2_removelast_rev in Ht. apply Forall_rev in Ht. rewrite rev_involutive in Ht.
  destruct (rev log) as [|e0 evs]; cbn [map wo_run fold_left tl] in *.
  - inversion H; subst. apply e2_J0.
  - destruct (wo_step false wo_st0 (wmw_to_wo e0)) as [s1|why] eqn:Es; [|discriminate].
    apply (e2_run_J evs s1 (rf_step rf_pst0 e0) (wo_apply [] (wmw_to_wo e0)) (0 + 1) s); [|exact H|exact Ht].
    apply (e2_step wo_st0 rf_pst0 [] e0 s1 e2_J0 Es). intros. reflexivity.
Qed.

(* ================================================================ what it says about each chunk of the chunk view *)
(* the complete chunk (h, p) stands at offset o of f: CRC-valid header, payload bytes, valid payload CRC, inside the file *)
Definition e2_chunk_at (f : list N) (o : N) (h : fm_chunk_header) (p : list N) : Prop :=
  fm_decode_chunk_header (skipn (N.to_nat o) f) = Some h /\ rf_len p = fm_payload_length h /\
  fm_sub (o + 32) (rf_len p) f = p /\ e2_crc_ok f o (rf_len p) /\ 32 <= o /\ o + fm_chunk_size (rf_len p) <= rf_len f.

Lemma e2_F2_in_r : forall (A B : Type) (R : A -> B -> Prop) l1 l2 b, Forall2 R l1 l2 -> In b l2 -> exists a, In a l1 /\ R a b.
Proof.
  intros A B R l1 l2 b H. induction H as [|x y l1 l2 Hxy HF IH]; intros Hin; [destruct Hin|].
  destruct Hin as [<-|Hin]; [exists x; split; [left; reflexivity|exact Hxy]|].
  destruct (IH Hin) as (a & Ha & Hr). exists a. split; [right; exact Ha|exact Hr].
Qed.

Lemma e2_find_in : forall E x, NoDup (map wo_e_off E) -> In x E -> wo_find (wo_e_off x) E = Some x.
Proof.
  induction E as [|z E IH]; intros x Hnd Hx; [destruct Hx|]. cbn [map] in Hnd. inversion Hnd as [|? ? Hni Hnd']; subst.
  cbn [wo_find]. destruct Hx as [->|Hx]; [rewrite N.eqb_refl; reflexivity|].
  destruct (N.eqb_spec (wo_e_off z) (wo_e_off x)) as [E0|_]; [|apply IH; assumption].
  exfalso. apply Hni. rewrite E0. apply in_map. exact Hx.
Qed.

(* when nothing is pending (between two chunk appends / table rewrites; in particular between API calls and at the end) *)
Theorem e2_J_chunk : forall s q f c, e2_J s q f -> wo_pending s = WoIdle -> In c (rp_out q) ->
  exists x, In x (wo_exts s) /\ wo_find (rc_off c) (wo_exts s) = Some x /\ wo_e_off x = rc_off c /\
    fm_tag (wo_e_hdr x) = rc_tag c /\ fm_chunk_meta (wo_e_hdr x) = rc_meta c /\
    (if fm_is_head_tag (rc_tag c) then e2_chunk_at f (rc_off c) (wo_e_hdr x) (wo_e_table x) /\ rf_len (wo_e_table x) = rf_len (rc_pay c)
     else e2_chunk_at f (rc_off c) (wo_e_hdr x) (rc_pay c)).
Proof.
  intros s q f c J Hidle Hc.
  pose proof (j_out _ _ _ J) as O. rewrite Hidle in O.
  destruct (e2_F2_in_r _ _ _ _ _ _ O Hc) as (x & Hx & (R1 & R2 & R3 & R4 & R5)).
  pose proof (j_wo _ _ _ J) as I.
  assert (E0 : wo_len s <> 0) by (intro E; destruct (wi_empty _ _ I E) as [Hex _]; rewrite Hex in Hx; destruct Hx).
  pose proof (wi_chain _ _ I E0) as Hch. destruct (wo_chunks_bounds _ _ _ Hch) as [He Hbd].
  destruct (Hbd _ _ (e2_ext_in_pairs _ _ Hx)) as (A & B & C & D).
  assert (Hnd : NoDup (map wo_e_off (wo_exts s))) by (rewrite <- e2_pairs_offs; eapply e2_chunks_nodup; exact Hch).
  pose proof (j_crc _ _ _ J x Hx) as Hcrc. unfold e2_not_tbl in Hcrc. rewrite Hidle in Hcrc. specialize (Hcrc Logic.I).
  exists x. split; [exact Hx|]. split; [rewrite <- R1; apply e2_find_in; assumption|]. split; [exact R1|]. split; [exact R2|]. split; [exact R3|].
  rewrite <- R2. rewrite <- R1.
  assert (Hsz : wo_e_off x + fm_chunk_size (fm_payload_length (wo_e_hdr x)) <= rf_len f) by (unfold wo_size, rf_len in *; lia).
  destruct (fm_is_head_tag (fm_tag (wo_e_hdr x))) eqn:Eh.
  - pose proof (j_tbl _ _ _ J x Hx Eh) as T.
    assert (Hl : rf_len (wo_e_table x) = fm_payload_length (wo_e_hdr x)).
    { rewrite <- T. unfold rf_len. rewrite e2_sub_length; [lia|].
      pose proof (e2_disk_len_ge (fm_payload_length (wo_e_hdr x))). unfold fm_chunk_size, SIZEOF_chunk_header in Hsz. lia. }
    split; [|congruence]. unfold e2_chunk_at. rewrite Hl. repeat split; try assumption.
  - unfold e2_chunk_at. rewrite <- R4. repeat split; try assumption. apply R5. reflexivity.
Qed.

(* the chunks lie back to back from offset 32 to the end of the file *)
Inductive e2_layout : list rf_chunk -> N -> N -> Prop :=
| e2_layout_nil : forall a, e2_layout [] a a
| e2_layout_cons : forall c r a z, rc_off c = a -> e2_layout r (a + fm_chunk_size (rf_len (rc_pay c))) z -> e2_layout (c :: r) a z.

Lemma e2_layout_snoc : forall l a m c, e2_layout l a m -> rc_off c = m -> e2_layout (l ++ [c]) a (m + fm_chunk_size (rf_len (rc_pay c))).
Proof.
  intros l a m c H. induction H as [a|c0 r a z Ho Hr IH]; intros Hc; cbn [app].
  - constructor; [exact Hc|constructor].
  - constructor; [exact Ho|apply IH; exact Hc].
Qed.

Lemma e2_chunks_layout : forall f E out e, wo_chunks f (wo_pairs E) e -> Forall2 (e2_rel f) E out -> e2_layout (rev out) 32 e.
Proof.
  intros f E out e H. revert out. remember (wo_pairs E) as L eqn:EL. revert E EL.
  induction H as [|r o h Hr IH Hd Hb]; intros E EL out HF.
  - destruct E; [|discriminate EL]. inversion HF; subst. constructor.
  - destruct E as [|x E]; [discriminate EL|]. cbn [wo_pairs map] in EL. inversion EL as [[Eo Eh Er]].
    inversion HF as [|? c ? out' Hxc HF']; subst. cbn [rev].
    destruct Hxc as (R1 & R2 & R3 & R4 & R5). unfold wo_size. rewrite R4.
    apply e2_layout_snoc; [apply (IH E eq_refl); exact HF'|symmetry; exact R1].
Qed.

Theorem e2_J_layout : forall s q f, e2_J s q f -> wo_pending s = WoIdle -> wo_len s <> 0 ->
  e2_layout (rev (rp_out q)) 32 (rf_len f).
Proof.
  intros s q f J Hidle E0. pose proof (j_wo _ _ _ J) as I.
  pose proof (j_out _ _ _ J) as O. rewrite Hidle in O.
  pose proof (wi_pend _ _ I E0) as P. unfold wo_pend_ok in P. rewrite Hidle in P.
  replace (rf_len f) with (wo_end s) by (rewrite P; exact (wi_len _ _ I)).
  eapply e2_chunks_layout; [apply (wi_chain _ _ I E0)|exact O].
Qed.

(* a TRACK_*_HEAD chunk tracked by the checker: its payload in the file is the table the checker holds *)
Theorem e2_J_head : forall s q f x, e2_J s q f -> wo_pending s = WoIdle -> In x (wo_exts s) ->
  fm_is_head_tag (fm_tag (wo_e_hdr x)) = true ->
  e2_chunk_at f (wo_e_off x) (wo_e_hdr x) (wo_e_table x).
Proof.
  intros s q f x J Hidle Hx Eh.
  pose proof (j_wo _ _ _ J) as I.
  assert (E0 : wo_len s <> 0) by (intro E; destruct (wi_empty _ _ I E) as [Hex _]; rewrite Hex in Hx; destruct Hx).
  pose proof (wi_chain _ _ I E0) as Hch. destruct (wo_chunks_bounds _ _ _ Hch) as [He Hbd].
  destruct (Hbd _ _ (e2_ext_in_pairs _ _ Hx)) as (A & B & C & D).
  pose proof (j_crc _ _ _ J x Hx) as Hcrc. unfold e2_not_tbl in Hcrc. rewrite Hidle in Hcrc. specialize (Hcrc Logic.I).
  assert (Hsz : wo_e_off x + fm_chunk_size (fm_payload_length (wo_e_hdr x)) <= rf_len f) by (unfold wo_size, rf_len in *; lia).
  pose proof (j_tbl _ _ _ J x Hx Eh) as T.
  assert (Hl : rf_len (wo_e_table x) = fm_payload_length (wo_e_hdr x)).
  { rewrite <- T. unfold rf_len. rewrite e2_sub_length; [lia|].
    pose proof (e2_disk_len_ge (fm_payload_length (wo_e_hdr x))). unfold fm_chunk_size, SIZEOF_chunk_header in Hsz. lia. }
  unfold e2_chunk_at. rewrite Hl. repeat split; assumption.
Qed.
