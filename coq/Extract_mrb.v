(* private extraction file of the mrb slice (see SLICE_GUIDE.md); at integration the
   MrbModel names below are merged into coq/Extract.v *)
From Coq Require Import Extraction ExtrOcamlBasic NArith ZArith List.
From JLS Require Import MrbModel.
Extraction Language OCaml.
Extraction "jlsmodel_ext"
  BinInt.Z.add BinInt.Z.opp BinInt.Z.of_N BinInt.Z.to_N BinNat.N.add BinNat.N.mul BinNat.N.of_nat BinNat.N.to_nat
  MrbModel.init MrbModel.alloc MrbModel.alloc_fixed MrbModel.fill_fast MrbModel.peek MrbModel.pop
  MrbModel.read_msg MrbModel.extents.
