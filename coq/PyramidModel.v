(* Model of the index/summary PYRAMID of a fixed-sample-rate signal and of the reader's
   seek arithmetic, at the level of chunks and entries (no bytes, no sample values).

   What is modelled, function by function (control flow kept as in the C):
     /repo/src/wr_fsr.c
       jls_core_fsr_summary_level_alloc   py_cap  (index capacity of a level)
       wr_data                            py_wr_data
       jls_core_fsr_summary1              py_summary1
       wr_index + wr_summary              py_wr_summary (py_wr_chunks = the two chunk writes,
                                          py_feed = the body of jls_core_fsr_summaryN before its
                                          flush test, then the flush test / recursive call, then
                                          the two `entry_count = 0` resets)
       jls_core_fsr_summaryN              py_feed + the flush test inside py_wr_summary
       summary_close, jls_fsr_close       py_close_loop, py_close
       write_omit_data register           py_reg_enable / py_reg_shift / py_plan
     /repo/src/core.c, /repo/src/track.c
       jls_core_wr_data/_index, jls_track_update   py_emit + py_set_head
                                          (head_offsets[L] = FIRST chunk of the level)
       jls_core_scan_fsr_sample_id        py_sample_id_offset
       jls_core_fsr_seek                  py_step (the step_size loop), py_seek_loop, py_fsr_seek
       jls_core_fsr_length                py_len_loop, py_fsr_length
       jls_core_rd_fsr_level1             py_rd_level1 (cache = py_cache)
       jls_core_rd_fsr_data0 + the sample id / entry count computed by
       reconstruct_omitted_chunk          py_rd_data0

   A "disk" is the list of the FSR chunks of ONE signal in write order.  Chunks of other
   signals/tracks and in-place updates of the HEAD chunk only move the file position: op PySkip.
   Offsets are abstract (the position counter advances by 1 per chunk and by k for PySkip k);
   only "non-zero, strictly increasing" is ever used.  An INDEX and its SUMMARY are written
   back to back by wr_summary with nothing in between (the HEAD chunk exists since
   jls_wr_signal_def, so jls_track_update rewrites it in place), hence "the chunk that
   follows in the file" = the next element of the list.

   Numbers: Z everywhere (timestamps are int64 and may be negative; counts are uint32).
   Not modelled: int64 overflow of timestamps / step sizes (sample ids stay far below
   2^63 in every use), the payload bytes.  The two uint32 products of the reader that can
   wrap (entry_count * samples_per_data in the cache test, entry_count *
   sample_decimate_factor in the length) are taken mod 2^32 explicitly.
   The level buffers are allocated lazily in C (timestamps initialised to sample_id_offset,
   counts 0); an unallocated level behaves exactly like an allocated empty one (wr_summary
   returns at once, the timestamps are overwritten by the first append), so levels are
   modelled as always present with empty state.  Index and summary header timestamps are
   kept as two fields as in C.
   Faults are distinct results: PF_LevelOOB = self->level[16] (jls_core_fsr_summaryN(16)),
   PF_IndexOverflow / PF_SummaryOverflow = a write past the malloc'ed index / summary
   buffer of a level, PF_DivZero = an integer division by zero.

   Definitions only; proofs are in PyramidProofs.v. *)
From Coq Require Import ZArith List Bool Arith.
From JLS Require Import Generated.
Import ListNotations.
Local Open Scope Z_scope.

(* ---- definition parameters ---- *)
Record py_def : Set := { py_spd : Z; py_sdf : Z; py_eps : Z; py_sumdf : Z }.

(* entries_per_data of jls_core_fsr_summary_level_alloc *)
Definition py_epd (d : py_def) : Z := py_spd d / py_sdf d.

(* index capacity of a level: b->index_entries *)
Definition py_cap (d : py_def) (L : nat) : Z :=
  match L with
  | 1%nat => py_eps d / py_epd d
  | _ => py_sumdf d
  end.

(* what jls_core_signal_def_align guarantees (the relations of Spec.sp_align's output),
   plus the bound that keeps the reader's uint32 products exact *)
Definition py_consistent (d : py_def) : Prop :=
  0 < py_sdf d /\ 0 < py_spd d /\ 0 < py_eps d /\ 0 < py_sumdf d /\
  py_spd d mod py_sdf d = 0 /\
  py_eps d mod (py_spd d / py_sdf d) = 0 /\
  py_eps d mod py_sumdf d = 0 /\
  py_eps d * py_sdf d < 2 ^ 32.

Definition py_consistentb (d : py_def) : bool :=
  (0 <? py_sdf d) && (0 <? py_spd d) && (0 <? py_eps d) && (0 <? py_sumdf d) &&
  (py_spd d mod py_sdf d =? 0) && (py_eps d mod (py_spd d / py_sdf d) =? 0) &&
  (py_eps d mod py_sumdf d =? 0) && (py_eps d * py_sdf d <? 2 ^ 32).

(* the C would raise SIGFPE on these *)
Definition py_div_ok (d : py_def) : bool :=
  negb (py_sdf d =? 0) && negb (py_epd d =? 0) && negb (py_sumdf d =? 0) && negb (py_spd d =? 0).

(* ---- chunks ---- *)
Inductive py_kind : Set := PyData | PyIndex (L : nat) | PySummary (L : nat).

Record py_chunk : Set := {
  pc_off : Z;              (* file offset of the chunk header *)
  pc_kind : py_kind;
  pc_ts : Z;               (* payload header timestamp *)
  pc_count : Z;            (* payload header entry_count *)
  pc_entries : list Z }.   (* INDEX: the offsets (0 = block omitted); [] otherwise *)

Definition py_kind_eqb (a b : py_kind) : bool :=
  match a, b with
  | PyData, PyData => true
  | PyIndex x, PyIndex y => Nat.eqb x y
  | PySummary x, PySummary y => Nat.eqb x y
  | _, _ => false
  end.

Inductive py_fault : Set :=
| PF_LevelOOB | PF_IndexOverflow | PF_SummaryOverflow | PF_DivZero.

(* reader errors (return codes) and faults *)
Inductive py_err : Set :=
| PE_NotFound            (* JLS_ERROR_NOT_FOUND: no head offset *)
| PE_IO                  (* JLS_ERROR_IO: "invalid index", idx out of range in fsr_seek *)
| PE_Param               (* JLS_ERROR_PARAMETER_INVALID: entries past the payload *)
| PE_Seek                (* jls_raw_chunk_seek / rd_chunk failed: no chunk at that offset *)
| PE_OOB                 (* rd_fsr_data0 reads idx->offsets[idx_entry] past the index: no check in C *)
| PE_Fault (f : py_fault).

Inductive py_res (A : Type) : Type :=
| PyOk (a : A)
| PyErr (e : py_err).
Arguments PyOk {A} a.
Arguments PyErr {A} e.

Definition py_bind {A B} (r : py_res A) (f : A -> py_res B) : py_res B :=
  match r with PyOk a => f a | PyErr e => PyErr e end.

(* ---- small list helpers: arrays indexed by level ---- *)
Fixpoint py_upd {A} (dflt : A) (n : nat) (x : A) (l : list A) : list A :=
  match n, l with
  | O, [] => [x]
  | O, _ :: t => x :: t
  | S n', [] => dflt :: py_upd dflt n' x []
  | S n', h :: t => h :: py_upd dflt n' x t
  end.

Definition py_nilb {A} (l : list A) : bool := match l with [] => true | _ => false end.

(* ---- writer state ---- *)
Record py_lvl : Set := {
  pl_idx : list Z;     (* index->offsets[0 .. entry_count) *)
  pl_sum : Z;          (* summary->header.entry_count *)
  pl_its : Z;          (* index->header.timestamp *)
  pl_sts : Z }.        (* summary->header.timestamp *)
Definition py_lvl0 : py_lvl := {| pl_idx := []; pl_sum := 0; pl_its := 0; pl_sts := 0 |}.

Record py_wr : Set := {
  pw_disk : list py_chunk;
  pw_pos : Z;              (* jls_raw_chunk_tell: where the next chunk goes *)
  pw_lvls : list py_lvl;   (* self->level[] *)
  pw_heads : list Z;       (* track->head_offsets[] *)
  pw_dts : Z;              (* self->data->header.timestamp *)
  pw_dhead : Z }.          (* track->data_head.offset: last data chunk written, 0 = none *)

Definition py_lvl_get (st : py_wr) (L : nat) : py_lvl := nth L (pw_lvls st) py_lvl0.
Definition py_head_get (st : py_wr) (L : nat) : Z := nth L (pw_heads st) 0.

Definition py_lvl_set (st : py_wr) (L : nat) (v : py_lvl) : py_wr :=
  {| pw_disk := pw_disk st; pw_pos := pw_pos st; pw_lvls := py_upd py_lvl0 L v (pw_lvls st);
     pw_heads := pw_heads st; pw_dts := pw_dts st; pw_dhead := pw_dhead st |}.

(* jls_raw_wr of one chunk at the current position *)
Definition py_emit (st : py_wr) (k : py_kind) (ts cnt : Z) (ent : list Z) : py_wr :=
  {| pw_disk := pw_disk st ++ [{| pc_off := pw_pos st; pc_kind := k; pc_ts := ts; pc_count := cnt; pc_entries := ent |}];
     pw_pos := pw_pos st + 1; pw_lvls := pw_lvls st; pw_heads := pw_heads st;
     pw_dts := pw_dts st; pw_dhead := pw_dhead st |}.

(* jls_track_update / the head_offsets[0] test of jls_core_wr_data *)
Definition py_set_head (st : py_wr) (L : nat) (off : Z) : py_wr :=
  if py_head_get st L =? 0
  then {| pw_disk := pw_disk st; pw_pos := pw_pos st; pw_lvls := pw_lvls st;
          pw_heads := py_upd 0 L off (pw_heads st); pw_dts := pw_dts st; pw_dhead := pw_dhead st |}
  else st.

Definition py_init (t0 : Z) (pos0 : Z) : py_wr :=
  {| pw_disk := []; pw_pos := pos0; pw_lvls := []; pw_heads := []; pw_dts := t0; pw_dhead := 0 |}.

(* wr_index (nothing when the index is empty) then jls_core_wr_summary; returns pos_next *)
Definition py_wr_chunks (L : nat) (st : py_wr) : py_wr * Z :=
  let lv := py_lvl_get st L in
  let pos_next := pw_pos st in
  let st1 := match pl_idx lv with
             | [] => st
             | _ => py_set_head (py_emit st (PyIndex L) (pl_its lv) (Z.of_nat (length (pl_idx lv))) (pl_idx lv)) L pos_next
             end in
  (py_emit st1 (PySummary L) (pl_sts lv) (pl_sum lv) [], pos_next).

(* append one index entry and `add` summary entries to level M, timestamps taken from
   (its, sts) when the index of M is empty *)
Definition py_append (d : py_def) (M : nat) (pos add its sts : Z) (st : py_wr) : py_res py_wr :=
  let dst := py_lvl_get st M in
  if py_cap d M <=? Z.of_nat (length (pl_idx dst)) then PyErr (PE_Fault PF_IndexOverflow)
  else if py_eps d <? pl_sum dst + add then PyErr (PE_Fault PF_SummaryOverflow)
  else PyOk (py_lvl_set st M
    {| pl_idx := pl_idx dst ++ [pos]; pl_sum := pl_sum dst + add;
       pl_its := if py_nilb (pl_idx dst) then its else pl_its dst;
       pl_sts := if py_nilb (pl_idx dst) then sts else pl_sts dst |}).

(* jls_core_fsr_summaryN(M, pos) up to (excluding) its flush test; M >= 2 *)
Definition py_feed (d : py_def) (M : nat) (pos : Z) (st : py_wr) : py_res py_wr :=
  let src := py_lvl_get st (pred M) in
  py_append d M pos (pl_sum src / py_sumdf d) (pl_its src) (pl_sts src) st.

Definition py_lvl_reset (lv : py_lvl) : py_lvl :=
  {| pl_idx := []; pl_sum := 0; pl_its := pl_its lv; pl_sts := pl_sts lv |}.

(* wr_summary(level L); fuel = 16 - L (levels L .. 15 exist; level 16 is out of bounds) *)
Fixpoint py_wr_summary (fuel : nat) (d : py_def) (L : nat) (st : py_wr) : py_res py_wr :=
  match fuel with
  | O => PyErr (PE_Fault PF_LevelOOB)
  | S f =>
    let lv := py_lvl_get st L in
    if (pl_sum lv =? 0) && (py_nilb (pl_idx lv) || ((1 <? L)%nat && (py_head_get st L =? 0)))
    then PyOk st
    else
      let '(st2, pos_next) := py_wr_chunks L st in
      match f with
      | O => PyErr (PE_Fault PF_LevelOOB)          (* jls_core_fsr_summaryN(16): self->level[16] *)
      | S _ =>
        py_bind (py_feed d (S L) pos_next st2) (fun st3 =>
        py_bind (if py_eps d <=? pl_sum (py_lvl_get st3 (S L))
                 then py_wr_summary f d (S L) st3 else PyOk st3) (fun st4 =>
        PyOk (py_lvl_set st4 L (py_lvl_reset (py_lvl_get st4 L)))))
      end
  end.

(* jls_core_fsr_summary1(pos) for a block of n samples *)
Definition py_summary1 (d : py_def) (n pos : Z) (st : py_wr) : py_res py_wr :=
  py_bind (py_append d 1 pos (n / py_sdf d) (pw_dts st) (pw_dts st) st) (fun st1 =>
  if py_eps d <=? pl_sum (py_lvl_get st1 1) then py_wr_summary 15 d 1 st1 else PyOk st1).

(* wr_data for a block holding n samples; req = omit_data before the first-chunk mask *)
Definition py_wr_data (d : py_def) (n : Z) (req : bool) (st : py_wr) : py_res py_wr :=
  if n =? 0 then PyOk st else
  let omit := req && negb (pw_dhead st =? 0) in
  let pos := if omit then 0 else pw_pos st in
  let st1 := if omit then st else
    let e := py_set_head (py_emit st PyData (pw_dts st) n []) 0 (pw_pos st) in
    {| pw_disk := pw_disk e; pw_pos := pw_pos e; pw_lvls := pw_lvls e; pw_heads := pw_heads e;
       pw_dts := pw_dts e; pw_dhead := pw_pos st |} in
  py_bind (py_summary1 d n pos st1) (fun st2 =>
  PyOk {| pw_disk := pw_disk st2; pw_pos := pw_pos st2; pw_lvls := pw_lvls st2; pw_heads := pw_heads st2;
          pw_dts := pw_dts st2 + py_spd d; pw_dhead := pw_dhead st2 |}).

(* summary_close for levels L, L+1, ..., L+k-1 *)
Fixpoint py_close_loop (k : nat) (d : py_def) (L : nat) (st : py_wr) : py_res py_wr :=
  match k with
  | O => PyOk st
  | S k' => py_bind (py_wr_summary (16 - L) d L st) (fun st1 => py_close_loop k' d (S L) st1)
  end.
Definition py_close (d : py_def) (st : py_wr) : py_res py_wr := py_close_loop 15 d 1 st.

(* ---- programs ---- *)
Inductive py_op : Set :=
| PyBlk (n : Z) (req : bool)     (* wr_data on a buffer of n samples *)
| PySkip (k : Z).                (* other chunks written in between *)

Definition py_do (d : py_def) (o : py_op) (st : py_wr) : py_res py_wr :=
  match o with
  | PyBlk n req => py_wr_data d n req st
  | PySkip k => PyOk {| pw_disk := pw_disk st; pw_pos := pw_pos st + k; pw_lvls := pw_lvls st;
                        pw_heads := pw_heads st; pw_dts := pw_dts st; pw_dhead := pw_dhead st |}
  end.

Fixpoint py_do_all (d : py_def) (ops : list py_op) (st : py_wr) : py_res py_wr :=
  match ops with
  | [] => PyOk st
  | o :: r => py_bind (py_do d o st) (py_do_all d r)
  end.

(* all blocks, then jls_fsr_close *)
Definition py_run (d : py_def) (t0 pos0 : Z) (ops : list py_op) : py_res py_wr :=
  if py_div_ok d then py_bind (py_do_all d ops (py_init t0 pos0)) (py_close d)
  else PyErr (PE_Fault PF_DivZero).

(* specification-level view of a program: the blocks handed to wr_data as (sample count,
   effectively omitted); the first block is always stored (data_head.offset = 0) *)
Fixpoint py_blocks_from (started : bool) (ops : list py_op) : list (Z * bool) :=
  match ops with
  | [] => []
  | PyBlk n req :: r => (n, req && started) :: py_blocks_from true r
  | PySkip _ :: r => py_blocks_from started r
  end.
Definition py_blocks (ops : list py_op) : list (Z * bool) := py_blocks_from false ops.
Definition py_total (blks : list (Z * bool)) : Z := fold_right (fun b acc => fst b + acc) 0 blks.

(* the omit register: jls_wr_fsr_omit_data and the shift at the end of wr_data (uint8) *)
Definition py_reg_enable (r : Z) (en : bool) : Z := if en then Z.lor r 1 else 0.
Definition py_reg_shift (r : Z) : Z := (Z.lor (Z.shiftl r 1) (Z.land r 1)) mod 256.

(* script level: what the caller controls *)
Inductive py_sop : Set :=
| PsOmit (en : bool)               (* jls_wr_fsr_omit_data *)
| PsBlk (n : Z) (const : bool)     (* n samples reach wr_data; const = all bytes equal (w <= 8) *)
| PsSkip (k : Z).

(* small = sample width <= 8 bits *)
Fixpoint py_plan (small : bool) (sdf : Z) (reg : Z) (s : list py_sop) : list py_op :=
  match s with
  | [] => []
  | PsOmit en :: r => py_plan small sdf (py_reg_enable reg en) r
  | PsSkip k :: r => PySkip k :: py_plan small sdf reg r
  | PsBlk n c :: r =>
    if n =? 0 then py_plan small sdf reg r else
    let req := if small then c && (n mod sdf =? 0) else (1 <? reg) in
    PyBlk n req :: py_plan small sdf (py_reg_shift reg) r
  end.

Definition py_srun (d : py_def) (small : bool) (t0 pos0 : Z) (s : list py_sop) : py_res py_wr :=
  py_run d t0 pos0 (py_plan small (py_sdf d) 0 s).

(* ---- reader ---- *)
(* the chunk at an offset and the chunk that follows it in the file *)
Fixpoint py_find (disk : list py_chunk) (off : Z) : option (py_chunk * option py_chunk) :=
  match disk with
  | [] => None
  | c :: r => if pc_off c =? off then Some (c, match r with [] => None | n :: _ => Some n end)
              else py_find r off
  end.

(* highest level 15..0 with a non-zero head offset *)
Fixpoint py_top (heads : list Z) (k : nat) : option (nat * Z) :=   (* searches k-1 .. 0 *)
  match k with
  | O => None
  | S k' => let o := nth k' heads 0 in if o =? 0 then py_top heads k' else Some (k', o)
  end.

(* for (k = 3; k <= lvl; ++k) step_size *= summary_decimate_factor *)
Fixpoint py_mul_loop (n : nat) (m acc : Z) : Z :=
  match n with O => acc | S n' => py_mul_loop n' m (acc * m) end.

(* step_size of jls_core_fsr_seek at level lvl *)
Definition py_step (d : py_def) (lvl : nat) : Z :=
  let s0 := py_spd d in
  let s1 := if (1 <? lvl)%nat then s0 * (py_eps d / (py_spd d / py_sdf d)) else s0 in
  py_mul_loop (lvl - 2) (py_sumdf d) s1.

(* the descent loop of jls_core_fsr_seek: for (lvl = initial; lvl > level; --lvl) *)
Fixpoint py_seek_loop (d : py_def) (disk : list py_chunk) (lvl level : nat) (offset sid : Z) : py_res Z :=
  match lvl with
  | O => PyOk offset
  | S lvl' =>
    if (lvl <=? level)%nat then PyOk offset else
    let step := py_step d lvl in
    match py_find disk offset with
    | None => PyErr PE_Seek
    | Some (c, _) =>
      if step =? 0 then PyErr (PE_Fault PF_DivZero) else
      let idx := Z.quot (sid - pc_ts c) step in
      if (idx <? 0) || (pc_count c <=? idx) then PyErr PE_IO
      else match nth_error (pc_entries c) (Z.to_nat idx) with
           | None => PyErr PE_Param
           | Some o => py_seek_loop d disk lvl' level o sid
           end
    end
  end.

Definition py_fsr_seek (d : py_def) (disk : list py_chunk) (heads : list Z) (level : nat) (sid : Z) : py_res Z :=
  if negb (py_div_ok d) then PyErr (PE_Fault PF_DivZero) else
  match py_top heads 16 with
  | None => PyErr PE_NotFound
  | Some (l0, off) => py_seek_loop d disk l0 level off sid
  end.

(* signal_def.sample_id_offset as set by jls_core_scan_fsr_sample_id *)
Definition py_sample_id_offset (disk : list py_chunk) (heads : list Z) : Z :=
  let o := nth 0%nat heads 0 in
  if o =? 0 then 0 else
  match py_find disk o with
  | Some (c, _) => match pc_kind c with PyData => pc_ts c | _ => 0 end
  | None => 0
  end.

(* first loop of jls_core_fsr_length: highest level whose head offset can be seeked *)
Fixpoint py_len_top (disk : list py_chunk) (heads : list Z) (k : nat) : option (nat * Z) :=
  match k with
  | O => None
  | S k' => let o := nth k' heads 0 in
            if negb (o =? 0) && (match py_find disk o with Some _ => true | None => false end)
            then Some (k', o) else py_len_top disk heads k'
  end.

(* for (lvl = level; lvl > 0; --lvl): returns (offset, signal_length) *)
Fixpoint py_len_loop (d : py_def) (disk : list py_chunk) (sido : Z) (lvl : nat) (offset len : Z) : py_res (Z * Z) :=
  match lvl with
  | O => PyOk (offset, len)
  | S lvl' =>
    match py_find disk offset with
    | None => PyErr PE_Seek
    | Some (c, nxt) =>
      if Z.of_nat (length (pc_entries c)) <? pc_count c then PyErr PE_Param else
      let offset' := if 0 <? pc_count c then nth (Z.to_nat (pc_count c - 1)) (pc_entries c) 0 else offset in
      if (lvl =? 1)%nat then
        match nxt with
        | None => PyErr PE_Seek
        | Some s => py_len_loop d disk sido lvl' offset'
                      (pc_ts s + (pc_count s * py_sdf d) mod 2 ^ 32 - sido)
        end
      else py_len_loop d disk sido lvl' offset' len
    end
  end.

Definition py_fsr_length (d : py_def) (disk : list py_chunk) (heads : list Z) : py_res Z :=
  let sido := py_sample_id_offset disk heads in
  match py_len_top disk heads 16 with
  | None => PyOk 0
  | Some (level, off) =>
    py_bind (py_len_loop d disk sido level off (-1)) (fun '(offset, len) =>
    if offset =? 0 then PyOk len else
    match py_find disk offset with
    | None => PyErr PE_Seek
    | Some (c, _) => PyOk (pc_ts c + pc_count c - sido)
    end)
  end.

(* rd_index_chunk / rd_index / rd_summary *)
Record py_cache : Set := {
  cc_meta : Z;             (* rd_index_chunk.hdr.chunk_meta *)
  cc_off : Z;              (* rd_index_chunk.offset, 0 = invalid *)
  cc_index : py_chunk;     (* payload copied into rd_index *)
  cc_summary : py_chunk }. (* payload copied into rd_summary *)

Definition py_chunk0 : py_chunk := {| pc_off := 0; pc_kind := PyData; pc_ts := 0; pc_count := 0; pc_entries := [] |}.
Definition py_cache0 : py_cache := {| cc_meta := 0; cc_off := 0; cc_index := py_chunk0; cc_summary := py_chunk0 |}.

(* chunk_meta of a chunk of signal sig *)
Definition py_meta (sig : Z) (c : py_chunk) : Z :=
  match pc_kind c with
  | PyData => sig
  | PyIndex L => sig + 4096 * Z.of_nat L
  | PySummary L => sig + 4096 * Z.of_nat L
  end.

(* returns the cache as the call leaves it (also on errors) and the return code *)
Definition py_cache_inval (c : py_cache) : py_cache :=
  {| cc_meta := cc_meta c; cc_off := 0; cc_index := cc_index c; cc_summary := cc_summary c |}.

Definition py_cache_hit (d : py_def) (sig : Z) (cache : py_cache) (start : Z) : bool :=
  if negb (cc_meta cache =? 4096 + Z.land sig 255) then false
  else if cc_off cache =? 0 then false
  else let idx := cc_index cache in
       (pc_ts idx <=? start) && (start <? pc_ts idx + (pc_count idx * py_spd d) mod 2 ^ 32).

Definition py_rd_level1 (d : py_def) (disk : list py_chunk) (heads : list Z) (sig : Z)
           (cache : py_cache) (start : Z) : py_cache * option py_err :=
  if py_cache_hit d sig cache start then (cache, None) else
  let cache0 := py_cache_inval cache in
  match py_fsr_seek d disk heads 1 start with
  | PyErr e => (cache0, Some e)
  | PyOk off =>
    match py_find disk off with
    | None => (cache0, Some PE_Seek)                       (* rd_chunk(index) failed *)
    | Some (c, None) =>                                    (* rd_chunk(summary) failed: rd_summary is stale *)
      ({| cc_meta := py_meta sig c; cc_off := off; cc_index := c; cc_summary := cc_summary cache |}, Some PE_Seek)
    | Some (c, Some s) =>
      ({| cc_meta := py_meta sig c; cc_off := off; cc_index := c; cc_summary := s |}, None)
    end
  end.

(* what jls_core_rd_fsr_data0 leaves in self->buf *)
Inductive py_block : Set :=
| PyStored (c : py_chunk)               (* the data chunk read from the file *)
| PyOmitted (ts : Z) (count : Z).       (* reconstructed: header timestamp and entry count *)

Definition py_reconstruct (d : py_def) (cache : py_cache) (start : Z) : py_block :=
  let idx := cc_index cache in
  let s := cc_summary cache in
  let t_index := Z.quot (start - pc_ts idx) (py_spd d) in
  let sample_id := t_index * py_spd d + pc_ts idx in
  let s_index := Z.quot (sample_id - pc_ts s) (py_sdf d) in
  let avail := Z.max 0 (pc_count s - s_index) in
  PyOmitted sample_id (py_sdf d * Z.min (py_spd d / py_sdf d) avail).

Definition py_rd_data0 (d : py_def) (disk : list py_chunk) (heads : list Z) (sig : Z)
           (cache : py_cache) (start : Z) : py_res py_block * py_cache :=
  let '(cache', rc) := py_rd_level1 d disk heads sig cache start in
  match rc with
  | Some e => (PyErr e, cache')
  | None =>
    let idx := cc_index cache' in
    let idx_entry := Z.quot (start - pc_ts idx) (py_spd d) in
    if idx_entry <? 0 then (PyErr PE_OOB, cache') else
    match nth_error (pc_entries idx) (Z.to_nat idx_entry) with
    | None => (PyErr PE_OOB, cache')
    | Some offset =>
      if offset =? 0 then (PyOk (py_reconstruct d cache' start), cache')
      else match py_find disk offset with
           | None => (PyErr PE_NotFound, cache')
           | Some (c, _) =>
             if start <? pc_ts c then (PyOk (py_reconstruct d cache' start), cache')
             else (PyOk (PyStored c), cache')
           end
    end
  end.

(* the cache left by a sequence of earlier reads of this signal (any positions, failing or not) *)
Fixpoint py_reads (d : py_def) (disk : list py_chunk) (heads : list Z) (sig : Z)
         (cache : py_cache) (starts : list Z) : py_cache :=
  match starts with
  | [] => cache
  | s :: r => py_reads d disk heads sig (snd (py_rd_data0 d disk heads sig cache s)) r
  end.

(* ---- entry points for the correspondence driver ---- *)
Definition py_chunk_level (c : py_chunk) : nat :=
  match pc_kind c with PyData => O | PyIndex L => L | PySummary L => L end.
Definition py_chunk_tag (c : py_chunk) : Z :=
  match pc_kind c with
  | PyData => Z.of_N JLS_TAG_TRACK_FSR_DATA
  | PyIndex _ => Z.of_N JLS_TAG_TRACK_FSR_INDEX
  | PySummary _ => Z.of_N JLS_TAG_TRACK_FSR_SUMMARY
  end.
