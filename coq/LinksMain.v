(* jls_rd_open ON THE WRITER MODEL'S FILE, class P (the program class of Properties_e2e / Properties_compose):
   the reader state it hands out satisfies e2_R0, and the end-to-end theorem without the hypotheses about jls_rd_open.
   Guards beyond those of Properties_e2e (all decidable on a run): see lk_open_R0.  Every top-level name starts with lk_. *)
From Coq Require Import NArith ZArith List Bool Lia Arith.
From Coq Require Import ZifyBool ZifyN ZifyNat.
From JLS Require Import Generated CrcDefs Spec Format FormatProofs WriteOnce WriteOnceProofs
  WmRaw WmCore WmTs WmFsr WriterModel WmProofs WmWriteOnce WmWriteOnce2 WmWriteOnce3
  BitCopyModel FsrPackModel PyramidModel PyramidProofs RefineLog RefineFsr RefinePyr RefinePyr2 RefineBits2 RefineProg
  RepairRaw RepairModel ReaderModel ReaderProofs2 RawReadProofs ComposeFsr ComposeAlign ComposeTop
  E2eLog E2eNoTrunc E2eRead E2eModel E2eFsr E2eFsr2 E2eProg E2eDisk E2eTop E2eOpen E2eMain E2eCodec
  LinksCore LinksCore2 LinksFsr LinksApi LinksTop LinksRead LinksOpen LinksFold.
Import ListNotations.
Local Open Scope N_scope.
Ltac Zify.zify_post_hook ::= Z.div_mod_to_equations.
Local Opaque crc32c.

(* ================================================================ the track invariants at the end of the run *)
Lemma lk_fin_inv : forall pre, lk_ststep wm_state0 pre ->
  wm_st_fault (wmw_fin pre) = false -> wmw_bounded (wm_st_log (wmw_fin pre)) ->
  exists s, wo_run false wo_st0 0 (wmw_evs (wm_st_log (wmw_fin pre))) = inl s /\ wo_pending s = WoIdle /\
            Forall (lk_sig_ok (wo_exts s)) (wm_st_sigs pre).
Proof.
  intros pre Hreach Hf Hb.
  unfold wmw_fin, wm_st_fault, wm_st_log in *. cbn [wm_st_base wm_st_set_base wm_b_raw wm_b_set_raw] in *.
  assert (Hgood : wmw_good (wm_raw_close (wm_b_raw (wm_st_base pre)))) by (split; assumption).
  destruct (wmw_good_close _ Hgood) as [G1 G2].
  destruct (lk_reach_accepted pre Hreach G1 G2) as (s & Hinv).
  destruct Hinv as (((Hsim & _) & _) & Hsig).
  destruct (wmw_sim_close _ _ Hsim) as (s' & Hsim' & Hex).
  exists s'. split; [exact (proj1 Hsim')|]. split; [apply Hsim'|].
  rewrite Hex. exact Hsig.
Qed.

Lemma lk_F2_in_l : forall (A B : Type) (R : A -> B -> Prop) l1 l2 a, Forall2 R l1 l2 -> In a l1 -> exists b, In b l2 /\ R a b.
Proof.
  intros A B R l1 l2 a H. induction H as [|x y l1 l2 Hxy HF IH]; intros Hin; [destruct Hin|].
  destruct Hin as [<-|Hin]; [exists y; split; [left; reflexivity|exact Hxy]|].
  destruct (IH Hin) as (b & Hb & Rb). exists b. split; [right; exact Hb|exact Rb].
Qed.

(* the TRACK_FSR_HEAD chunk of a defined signal is a chunk of the chunk view *)
Lemma lk_head_chunk_pre : forall pre g, lk_ststep wm_state0 pre ->
  wm_st_fault (wmw_fin pre) = false -> wmw_bounded (wm_st_log (wmw_fin pre)) -> e2_trunc_first (wm_st_log (wmw_fin pre)) ->
  In g (wm_st_sigs pre) -> wmw_head_off (wmw_tk g 0) <> 0 ->
  length (wm_tk_offsets (wmw_tk g 0)) = 16%nat /\
  exists c, In c (rf_chunks (wm_st_log (wmw_fin pre))) /\ rc_off c = wmw_head_off (wmw_tk g 0) /\
            rc_tag c = JLS_TAG_TRACK_FSR_HEAD /\ rc_meta c = wm_sig_id g.
Proof.
  intros pre g Hreach Hf Hb Htf Hg Hh.
  destruct (lk_fin_inv pre Hreach Hf Hb) as (s & Hrun & Hidle & Hsig).
  rewrite Forall_forall in Hsig.
  destruct (Hsig g Hg 0 ltac:(reflexivity)) as [(T1 & T2 & T3 & T4 & T5 & T6 & T7 & T8) _].
  split; [exact T4|].
  destruct (T8 Hh) as (x & Hfx & X1 & X2 & _).
  pose proof (e2_log_J _ _ Hrun Htf) as J.
  pose proof (j_out _ _ _ J) as O. rewrite Hidle in O.
  destruct (wo_find_some _ _ _ Hfx) as [Hxin Hxoff].
  destruct (lk_F2_in_l _ _ _ _ _ _ O Hxin) as (c & Hc & (R1 & R2 & R3 & _)).
  exists c. split; [unfold rf_chunks; apply in_rev in Hc; exact Hc|]. split; [rewrite <- R1; exact Hxoff|]. split; [|rewrite <- R3; exact X2].
  rewrite <- R2, X1. reflexivity.
Qed.

Lemma lk_pre_sigs : forall summ1 summN st0,
  wm_st_sigs (lk_close_pre summ1 summN st0) = wm_st_sigs (fold_left (wm_close_signal summ1 summN) wm_signal_ids st0).
Proof.
  intros. unfold lk_close_pre. cbv zeta.
  generalize (fold_left (wm_close_signal summ1 summN) wm_signal_ids st0). intro st1. destruct st1. reflexivity.
Qed.

Lemma lk_head_chunk : forall summ1 summN p g,
  let st := fst (wm_run_full summ1 summN p) in
  wm_st_fault st = false -> wmw_bounded (wm_st_log st) ->
  In g (wm_st_sigs (e2_pre_end summ1 summN p)) -> wmw_head_off (wmw_tk g 0) <> 0 ->
  length (wm_tk_offsets (wmw_tk g 0)) = 16%nat /\
  exists c, In c (rf_chunks (wm_st_log st)) /\ rc_off c = wmw_head_off (wmw_tk g 0) /\
            rc_tag c = JLS_TAG_TRACK_FSR_HEAD /\ rc_meta c = wm_sig_id g.
Proof.
  intros summ1 summN p g. cbv zeta. unfold e2_pre_end. rewrite <- lk_pre_sigs.
  destruct (lk_run_pre summ1 summN p) as [Hreach Heq]. generalize (e2_run_trunc_first summ1 summN p). rewrite Heq.
  intros Htf Hf Hb Hg Hh. exact (lk_head_chunk_pre _ g Hreach Hf Hb Htf Hg Hh).
Qed.

(* ================================================================ what acceptance of the definition gives the reader *)
Lemma lk_align_fields : forall d0 d, wm_sig_align d0 = Some d ->
  sg_src d = sg_src d0 /\ sg_dtype d = sg_dtype d0 /\ sg_name d = sg_name d0 /\ sg_units d = sg_units d0.
Proof.
  intros d0 d H. unfold wm_sig_align in H. cbv zeta in H.
  destruct (wm_round_up _ _) as [sdf|]; [|discriminate].
  destruct (wm_round_up _ _) as [eps|]; [|discriminate].
  destruct (wm_round_up _ _) as [spd2|]; [|discriminate].
  destruct (_ <? _); [discriminate|]. destruct (_ <? _); [discriminate|].
  inversion H. repeat split.
Qed.

Lemma lk_accept_facts : forall st d0 d, snd (wm_api_signal_def st d0) = 0 -> wm_sig_align d0 = Some d ->
  sg_src d < 256 /\ wm_dt_valid (sg_dtype d) = true /\ wm_str_fits (sg_name d) = true /\ wm_str_fits (sg_units d) = true.
Proof.
  intros st d0 d H Hal. destruct (lk_align_fields d0 d Hal) as (E1 & E2 & E3 & E4). rewrite E1, E2, E3, E4.
  unfold wm_api_signal_def in H.
  destruct (JLS_SIGNAL_COUNT <=? sg_id d0); [discriminate H|].
  destruct (N.leb_spec JLS_SOURCE_COUNT (sg_src d0)) as [|Hsrc]; [discriminate H|].
  destruct (negb (existsb (N.eqb (sg_src d0)) (wm_st_srcs st))); [discriminate H|].
  destruct (wm_find_sig st (sg_id d0)); [discriminate H|].
  destruct (negb ((sg_type d0 =? JLS_SIGNAL_TYPE_FSR) || (sg_type d0 =? JLS_SIGNAL_TYPE_VSR))); [discriminate H|].
  destruct (wm_str_fits (sg_name d0) && wm_str_fits (sg_units d0)) eqn:Ef; cbn [negb] in H; [|discriminate H].
  apply andb_true_iff in Ef. destruct Ef as [F1 F2].
  destruct (wm_dt_valid (sg_dtype d0)); [|discriminate H]. unfold JLS_SOURCE_COUNT in Hsrc. auto.
Qed.

Lemma lk_ent_S0 : forall id, id < 256 -> lk_ent (map rp_sig0 rp_signal_ids) id = rp_sig0 id.
Proof.
  intros id Hid. unfold lk_ent, rp_signal_ids, wm_signal_ids. rewrite map_map.
  rewrite (nth_indep _ (rp_sig0 id) (rp_sig0 (N.of_nat 0))) by (rewrite map_length, seq_length; change (N.to_nat JLS_SIGNAL_COUNT) with 256%nat; lia).
  change (rp_sig0 (N.of_nat 0)) with ((fun x => rp_sig0 (N.of_nat x)) 0%nat).
  rewrite map_nth, seq_nth by (change (N.to_nat JLS_SIGNAL_COUNT) with 256%nat; lia). cbn [plus]. rewrite N2Nat.id. reflexivity.
Qed.

Lemma lk_py_find_in : forall disk pc, NoDup (map pc_off disk) -> In pc disk -> exists nx, py_find disk (pc_off pc) = Some (pc, nx).
Proof.
  induction disk as [|c r IH]; intros pc Hnd Hin; [destruct Hin|]. cbn [map] in Hnd. inversion Hnd as [|? ? Hni Hnd']; subst.
  cbn [py_find]. destruct Hin as [->|Hin]; [rewrite Z.eqb_refl; eexists; reflexivity|].
  destruct (Z.eqb_spec (pc_off c) (pc_off pc)) as [E|_]; [|apply IH; assumption].
  exfalso. apply Hni. rewrite E. apply in_map. exact Hin.
Qed.

Lemma lk_in_rsig_ids : forall sid, sid <> 0 -> sid < 256 -> In sid (tl rp_signal_ids).
Proof.
  intros sid H0 H. unfold rp_signal_ids, wm_signal_ids. change (N.to_nat JLS_SIGNAL_COUNT) with 256%nat.
  change (seq 0 256) with (0%nat :: seq 1 255). cbn [map tl]. apply in_map_iff. exists (N.to_nat sid). split; [apply N2Nat.id|].
  apply in_seq. lia.
Qed.

Lemma lk_data_payload_len : forall ts n w data, 16 <= rf_len (wm_fsr_data_payload ts n w data).
Proof.
  intros. unfold wm_fsr_data_payload, wm_payload_header, rf_len. rewrite app_length.
  assert (H : length (fm_encode_payload_header {| fm_ph_timestamp := ts; fm_ph_entry_count := n; fm_ph_entry_size_bits := w; fm_ph_rsv16 := 0 |}) = 16%nat).
  { unfold fm_encode_payload_header, fm_enc_i64, fm_enc_u32, fm_enc_u16. rewrite !app_length, !fm_enc_length. reflexivity. }
  rewrite H. lia.
Qed.

Lemma lk_rl_of_in : forall f l c, Forall2 (lk_ck_of f) (map (lk_rl1 f) l) l -> In c l -> lk_ck_of f (lk_rl1 f c) c.
Proof.
  intros f l. induction l as [|a l IH]; intros c H Hin; [destruct Hin|]. cbn [map] in H. inversion H as [|? ? ? ? Ha Hl]; subst.
  destruct Hin as [->|Hin]; [exact Ha|apply IH; assumption].
Qed.

Lemma lk_touch_hit : forall sid t, lk_touch sid t = true -> lk_hit sid t = true.
Proof.
  intros sid t. unfold lk_touch, lk_hit. cbv zeta. destruct (fm_tag (lk_ck_hdr t) =? JLS_TAG_SIGNAL_DEF); [auto|].
  intro H. apply andb_true_iff in H. apply H.
Qed.

Lemma lk_land_mask : forall sid, sid < 256 -> N.land sid CORE_SIGNAL_MASK = sid.
Proof.
  intros sid H. change CORE_SIGNAL_MASK with (N.ones 12). rewrite N.land_ones. apply N.mod_small.
  change (2 ^ 12) with 4096. lia.
Qed.

Lemma lk_Forall_nth16 : forall (l : list N) b, length l = 16%nat -> (forall L, (L < 16)%nat -> wm_get_off l (N.of_nat L) < b) -> Forall (fun x => x < b) l.
Proof.
  intros l b Hl H. apply Forall_forall. intros x Hx. destruct (In_nth l x 0 Hx) as (n & Hn & En). rewrite Hl in Hn.
  specialize (H n Hn). unfold wm_get_off in H. rewrite Nat2N.id, En in H. exact H.
Qed.

(* ================================================================ K2: jls_rd_open on the file of a class-P program *)
Theorem lk_open_R0 : forall (summ1 : N -> list N -> wm_sentry) (summN : bool -> list wm_sentry -> wm_sentry)
    (d0 d : sigdef) (pos0 : Z) (p1 p2 : list wop) (stf : py_wr),
  (0 < pos0)%Z -> sg_id d <> 0 -> sg_type d = JLS_SIGNAL_TYPE_FSR -> sg_eps d * sg_sdf d < 4294967296 ->
  let sid := sg_id d in
  let w := dt_bits (sg_dtype d) in
  let pd := rf_pd d in
  let p := p1 ++ WSig d0 :: p2 in
  Forall (rp_ok sid) p ->
  Forall (fun o => match o with WSig d' => sg_id d' <> sid | _ => True end) p1 ->
  snd (wm_api_signal_def (fst (wm_steps summ1 summN wm_api_open p1 [])) d0) = 0 -> wm_sig_align d0 = Some d ->
  let ops := rp_proj sid p2 in
  py_srun pd (w <=? 8) (rf_t0 ops) pos0 (rf_script d rf_bs0 ops) = PyOk stf ->
  wm_fill_sample (sg_dtype d) = fill_value (sg_dtype d) ->
  let g := fold_left (fun g c => fsr_write g (fst c) (snd c)) (rf_calls ops) (new_sig d) in
  rd_length g <> 0 ->
  let stF := fst (wm_run_full summ1 summN p) in
  wmw_bounded (wm_st_log stF) ->
  let f := e2_file summ1 summN p in
  let cs := filter (rf_mine d) (rf_chunks (wm_st_log stF)) in
  e2t_adjb cs = true -> e2t_bigb cs = true ->
  rf_len f < rp_two63 -> sg_spd d < 4294967296 ->
  (- e2_tsb <= rf_t0 ops)%Z /\ (rf_t0 ops + Z.of_N (rd_length g) + Z.of_N (sg_spd d) <= e2_tsb)%Z ->
  (forall k, (1 <= k)%nat -> nth k (pw_heads stf) 0%Z <> 0%Z -> (py_step pd k < rdm_two63)%Z) ->
  let psi := rf_psi (map rc_off cs) pos0 in
  (* the guards of the definition lists *)
  let csA := rf_chunks (wm_st_log stF) in
  e2t_bigb (filter (fun c => negb (lk_key (rc_tag c) =? 0)) csA) = true ->
  forallb (fun c => (JLS_SOURCE_COUNT <=? rc_meta c) || (rp_source_parse (rc_pay c) =? 0))
          (filter (fun c => lk_key (rc_tag c) =? 1) csA) = true ->
  sg_dtype d < 4294967296 -> sg_rate d < 4294967296 -> sg_sdf d < 4294967296 -> sg_eps d < 4294967296 ->
  sg_sumdf d < 4294967296 -> sg_adf d < 4294967296 -> sg_udf d < 4294967296 ->
  let R2 := map (lk_rl1 f) (filter (fun c => lk_key (rc_tag c) =? 2) csA) in
  (exists A tdef B thead C, R2 = A ++ tdef :: B ++ thead :: C /\
     Forall (fun t => lk_hit sid t = false) A /\ Forall (fun t => lk_hit sid t = false) B /\ Forall (fun t => lk_touch sid t = false) C /\
     fm_tag (lk_ck_hdr tdef) = JLS_TAG_SIGNAL_DEF /\ fm_chunk_meta (lk_ck_hdr tdef) = sid /\ lk_ck_pay tdef = wm_signal_payload d /\
     fm_tag (lk_ck_hdr thead) = JLS_TAG_TRACK_FSR_HEAD /\ N.land (fm_chunk_meta (lk_ck_hdr thead)) CORE_SIGNAL_MASK = sid) ->
  Forall (fun t => lk_fsrhead_other sid t = true -> fm_dec_u64 (lk_ck_pay t) = 0) R2 ->
  exists st, rdm_open f = RdmOpened st /\ e2_R0 f d (pw_heads stf) psi (rf_t0 ops) st.
Proof.
  intros summ1 summN d0 d pos0 p1 p2 stf Hpos0 Hsid0 Hty Hprod sid w pd p Hok Hns Hrc Hal ops Hpy Hfillv g Hne stF Hbnd f cs
         Hadj Hbig Gflen Gspd Gts Gstep psi csA GbigD Gparse B1 B2 B4 B5 B6 B7 B8 R2 Gpat Goth.
  pose proof (e2t_adjb_sound _ Hadj) as Gadj. pose proof (e2t_bigb_sound _ Hbig) as Gbig.
  destruct (e2t_env summ1 summN d0 d pos0 p1 p2 stf Hpos0 Hsid0 Hty Hprod Hok Hns Hrc Hal Hpy Hfillv Hne Hbnd Gadj Gbig Gflen Gspd Gts Gstep)
    as (Hflt & T & Henv).
  fold sid w pd p ops g stF f cs psi in Hflt, Henv.
  destruct (cmp_top_guards summ1 summN d0 d p1 Hprod Hrc Hal) as (A1 & A2 & A3 & A4 & A5 & A6 & A7 & A8 & A9).
  fold sid w in A1, A2, A3, A4, A5, A6, A7, A8.
  destruct (e2_prog_fsr_heads summ1 summN d0 d pos0 p1 p2 stf Hpos0 A1 Hsid0 Hty A2 A3 A5 A6 A7 A8 Hok Hns Hrc Hal Hpy)
    as (cs' & s3 & Ecs' & _ & Hs3in & Hs3id & Hs3off & Hs3tab).
  fold sid in Hs3id. fold sid ops in Hs3tab.
  destruct (e2_model_file summ1 summN p Hflt Hbnd) as (Hwf & (cs0 & Ecs0 & Hl0) & Hheads).
  fold p stF f in Hwf, Ecs0, Hheads, Ecs', Hs3in.
  (* the chunks of the signal in the complete log = those before the END chunk *)
  assert (Ecs : cs' = cs).
  { destruct Hwf as (_ & _ & _ & _ & _ & (cs1 & Eend)).
    rewrite Ecs0 in Eend. pose proof (e2t_app_tail1 _ _ _ _ _ Eend Hl0) as E0.
    unfold cs. rewrite Ecs0, filter_app, E0. cbn [filter]. unfold rf_mine at 2. cbn [rc_tag rc_meta].
    change ((JLS_TAG_END =? JLS_TAG_TRACK_FSR_DATA) || (JLS_TAG_END =? JLS_TAG_TRACK_FSR_INDEX) || (JLS_TAG_END =? JLS_TAG_TRACK_FSR_SUMMARY)) with false.
    cbn [andb]. rewrite app_nil_r. symmetry. exact Ecs'. }
  rewrite Ecs in Hs3tab. fold psi in Hs3tab. clear Ecs Ecs'.
  destruct (lk_accept_facts _ d0 d Hrc Hal) as (Hsrc & Hdt & F1 & F2).
  destruct (lk_scan_file_det summ1 summN p Hflt Hbnd Gflen GbigD Gparse) as (c & Es & Rc & Tend & F2l & OKs & Sg).
  fold p stF f csA R2 in Es, Rc, F2l, OKs, Sg.
  destruct Gpat as (A & tdef & B & thead & C & ER2 & HA & HB & HC & Td & Md & Pd & Th & Mh).
  rewrite Forall_forall in OKs.
  assert (Hind : In tdef R2) by (rewrite ER2; apply in_or_app; right; left; reflexivity).
  assert (Hinh : In thead R2) by (rewrite ER2; apply in_or_app; right; right; apply in_or_app; right; left; reflexivity).
  pose proof (lk_ck_off_pos f tdef (OKs _ Hind)) as Od.
  (* thead is the TRACK_FSR_HEAD chunk of the writer's signal *)
  assert (Hh3 : wmw_head_off (wmw_tk s3 0) <> 0) by exact Hs3off.
  destruct (lk_head_chunk summ1 summN p s3 Hflt Hbnd Hs3in Hh3) as (Hlen16 & ch & Hchin & Hchoff & Hchtag & Hchmeta).
  fold p stF csA in Hchin.
  assert (Hch2 : In ch (filter (fun c => lk_key (rc_tag c) =? 2) csA)) by (apply filter_In; split; [exact Hchin|rewrite Hchtag; reflexivity]).
  pose proof (lk_rl_of_in f _ ch F2l Hch2) as (_ & Hat' & Htag' & Hmeta').
  set (th' := lk_rl1 f ch) in *.
  assert (Hth'in : In th' R2) by (unfold R2, th'; apply in_map; exact Hch2).
  assert (Htouch' : lk_touch sid th' = true).
  { unfold lk_touch. cbv zeta. rewrite Htag', Hchtag, Hmeta', Hchmeta, Hs3id, (lk_land_mask sid A1), N.eqb_refl. reflexivity. }
  assert (Eth : th' = thead).
  { rewrite ER2 in Hth'in. apply in_app_or in Hth'in. destruct Hth'in as [Hi|[Hi|Hi]].
    - rewrite Forall_forall in HA. pose proof (HA _ Hi) as X. rewrite (lk_touch_hit _ _ Htouch') in X. discriminate.
    - exfalso. rewrite <- Hi in Htag'. rewrite Td, Hchtag in Htag'. discriminate.
    - apply in_app_or in Hi. destruct Hi as [Hi|[Hi|Hi]].
      + rewrite Forall_forall in HB. pose proof (HB _ Hi) as X. rewrite (lk_touch_hit _ _ Htouch') in X. discriminate.
      + symmetry. exact Hi.
      + rewrite Forall_forall in HC. pose proof (HC _ Hi) as X. rewrite Htouch' in X. discriminate. }
  (* its payload is the writer's head table *)
  destruct (Hheads s3 0 Hs3in ltac:(reflexivity) Hh3) as (hh & Hath & _ & _).
  rewrite Hchoff in Hat'. destruct (lk_chunk_at_inj _ _ _ _ _ _ Hat' Hath) as [_ Epay]. rewrite Eth in Epay.
  set (offs3 := wm_tk_offsets (wmw_tk s3 0)) in *.
  assert (Hs3tab' : forall L, (L < 16)%nat -> wm_get_off offs3 (N.of_nat L) = psi (nth L (pw_heads stf) 0%Z)) by exact Hs3tab.
  assert (Hpsi63 : forall L, psi (nth L (pw_heads stf) 0%Z) < rp_two63).
  { intro L. destruct (env_heads _ _ _ _ _ _ _ Henv L) as [Z|(cd & Hcd & Eo)].
    - rewrite Z, (env_psi0 _ _ _ _ _ _ _ Henv). reflexivity.
    - pose proof (env_disk _ _ _ _ _ _ _ Henv) as HD. rewrite Forall_forall in HD. destruct (HD _ Hcd) as (_ & _ & Hlt & _). rewrite <- Eo. exact Hlt. }
  assert (Hb64 : Forall (fun x => x < fm_two64) offs3).
  { apply lk_Forall_nth16; [exact Hlen16|]. intros L HL. rewrite (Hs3tab' L HL). pose proof (Hpsi63 L). unfold rp_two63, fm_two63, fm_two64 in *. lia. }
  destruct (e2c_head_table offs3 Hlen16 Hb64) as (Hdec & Hplen).
  assert (Ph : rf_len (lk_ck_pay thead) = SIZEOF_track_head) by (rewrite Epay; exact Hplen).
  (* the reader's entry for sid after the scan phase *)
  pose proof (lk_fold_pattern sid d A tdef B thead C A1 HA HB HC Td Md Pd Od Th Mh Ph Hsrc Hty Hdt B1 B2 Gspd B4 B5 B6 B7 B8 F1 F2) as HQ.
  rewrite <- ER2, <- Sg in HQ.
  set (ge := lk_ent (rp_sigs c) sid) in *.
  destruct HQ as (Q1 & Q2 & Q3 & Q4 & Q5 & Q6).
  assert (Hlen256 : length (rp_sigs c) = 256%nat) by (rewrite Sg, lk_fold_length; reflexivity).
  assert (Hoffs : wm_tk_offsets (snd (rp_sg_track ge JLS_TRACK_TYPE_FSR)) = offs3).
  { unfold rp_sg_track. change (N.to_nat JLS_TRACK_TYPE_FSR) with 0%nat. rewrite Q5. unfold lk_head_entry. cbn [snd wm_tk_offsets].
    rewrite Epay. exact Hdec. }
  (* the other signals are skipped by jls_core_scan_fsr_sample_id *)
  assert (Hoth : forall id, In id (tl rp_signal_ids) -> id <> sid -> lk_skip (lk_ent (rp_sigs c) id) id).
  { intros id Hin Hn. right. right. rewrite Sg.
    assert (Hid : id < 256).
    { apply (in_cons 0) in Hin. change (0 :: tl rp_signal_ids) with rp_signal_ids in Hin. unfold rp_signal_ids, wm_signal_ids in Hin.
      apply in_map_iff in Hin. destruct Hin as (k & <- & Hk). apply in_seq in Hk. change (N.to_nat JLS_SIGNAL_COUNT) with 256%nat in Hk. lia. }
    apply (lk_fold_off0 sid); [exact Hn|exact Goth|rewrite map_length; unfold rp_signal_ids, wm_signal_ids; rewrite map_length, seq_length; change (N.to_nat JLS_SIGNAL_COUNT) with 256%nat; lia|].
    rewrite (lk_ent_S0 id Hid). reflexivity. }
  (* the first DATA chunk *)
  set (T0 := rf_t0 ops) in *.
  assert (Hcase : (lk_off0 ge = 0 /\ rp_sg_sid0 ge = T0) \/
    exists t, lk_ck_ok f t /\ lk_ck_off t = lk_off0 ge /\ fm_tag (lk_ck_hdr t) = JLS_TAG_TRACK_FSR_DATA /\
              fm_dec_i64 (rp_take 8 (lk_ck_pay t)) = T0 /\ 8 <= rf_len (lk_ck_pay t)).
  { assert (Eoff0 : lk_off0 ge = psi (nth 0 (pw_heads stf) 0%Z)) by (unfold lk_off0; rewrite Hoffs; exact (Hs3tab' 0%nat ltac:(lia))).
    pose proof (env_sido _ _ _ _ _ _ _ Henv) as Hsido. unfold py_sample_id_offset in Hsido. cbv zeta in Hsido.
    destruct (env_heads _ _ _ _ _ _ _ Henv 0%nat) as [Z|(cd & Hcd & Eo)].
    - left. rewrite Eoff0, Z, (env_psi0 _ _ _ _ _ _ _ Henv). split; [reflexivity|]. rewrite Z in Hsido. cbn [Z.eqb] in Hsido. rewrite Q4. exact Hsido.
    - destruct (Z.eqb_spec (nth 0 (pw_heads stf) 0%Z) 0) as [Z|Hnz].
      + left. rewrite Eoff0, Z, (env_psi0 _ _ _ _ _ _ _ Henv). split; [reflexivity|]. rewrite Q4. exact Hsido.
      + right. pose proof (env_head0 _ _ _ _ _ _ _ Henv cd Hcd Eo) as Hkind.
        destruct (lk_py_find_in _ cd (env_nd _ _ _ _ _ _ _ Henv) Hcd) as (nx & Hfind). rewrite Eo in Hfind. rewrite Hfind, Hkind in Hsido.
        pose proof (env_disk _ _ _ _ _ _ _ Henv) as HD. rewrite Forall_forall in HD.
        destruct (HD _ Hcd) as (_ & H32 & Hlt & Hts & Hcnt & _ & (hd & pd' & Hatd & Htagd & _ & Hbigd & Hpayd)).
        rewrite Hkind in Hts, Htagd. unfold e2_pc_pay in Hpayd. rewrite Hkind in Hpayd. destruct Hpayd as (data & Epd).
        exists (psi (pc_off cd), hd, pd'). unfold lk_ck_ok, lk_ck_off, lk_ck_hdr, lk_ck_pay. cbn [fst snd].
        split; [split; [exact Hatd|split; [rewrite Htagd; discriminate|split; [exact Hbigd|exact Hlt]]]|].
        split; [rewrite Eoff0, Eo; reflexivity|]. split; [exact Htagd|].
        split.
        * rewrite Epd, <- Hsido. apply e2c_first_sample_id.
          -- unfold e2_i64, e2_tsb, fm_two63 in *. lia.
          -- lia.
          -- apply (env_w _ _ _ _ _ _ _ Henv).
        * rewrite Epd. pose proof (lk_data_payload_len (pc_ts cd) (Z.to_N (pc_count cd)) (dt_bits (sg_dtype d)) data). lia. }
  destruct (lk_scan_sid_loop f sid ge T0 (tl rp_signal_ids) c Rc Hlen256 A1 Hoth (or_introl eq_refl) Q1 ltac:(rewrite Q3; exact Hty) Hcase)
    as (c1 & E1 & R1 & L1 & O1 & _ & I1).
  specialize (I1 (lk_in_rsig_ids sid Hsid0 A1)).
  exists (rdm_st0 c1). split.
  { unfold rdm_open. rewrite Es, Tend. change (JLS_TAG_END =? JLS_TAG_END) with true. cbv iota.
    unfold rp_scan_fsr_sample_id. rewrite E1. reflexivity. }
  assert (Hent : rp_get_sig c1 sid = rp_sg_set_sid0 ge T0) by exact I1.
  subst sid. constructor.
  - exact R1.
  - unfold rp_signal_validate. cbn [rdm_st0 rdm_c]. rewrite Hent.
    destruct (N.leb_spec JLS_SIGNAL_COUNT (sg_id d)) as [E|_]; [unfold JLS_SIGNAL_COUNT in E; lia|].
    unfold rp_sg_set_sid0. cbn [rp_sg_sigid rp_sg_def_off]. rewrite Q1, N.eqb_refl, Q2. cbn [negb].
    destruct (N.eqb_spec (lk_ck_off tdef) 0); [contradiction|reflexivity].
  - unfold rdm_def, rdm_sig. cbn [rdm_st0 rdm_c]. rewrite Hent. unfold rp_sg_set_sid0. cbn [rp_sg_d]. rewrite Q3. exact Hty.
  - unfold rdm_def, rdm_sig. cbn [rdm_st0 rdm_c]. rewrite Hent. unfold rp_sg_set_sid0. cbn [rp_sg_d]. rewrite Q3. reflexivity.
  - unfold rdm_def, rdm_sig. cbn [rdm_st0 rdm_c]. rewrite Hent. unfold rp_sg_set_sid0. cbn [rp_sg_d]. rewrite Q3. reflexivity.
  - unfold rdm_def, rdm_sig. cbn [rdm_st0 rdm_c]. rewrite Hent. unfold rp_sg_set_sid0. cbn [rp_sg_d]. rewrite Q3. reflexivity.
  - unfold rdm_def, rdm_sig. cbn [rdm_st0 rdm_c]. rewrite Hent. unfold rp_sg_set_sid0. cbn [rp_sg_d]. rewrite Q3. reflexivity.
  - unfold rdm_def, rdm_sig. cbn [rdm_st0 rdm_c]. rewrite Hent. unfold rp_sg_set_sid0. cbn [rp_sg_d]. rewrite Q3. reflexivity.
  - unfold rdm_sid0, rdm_sig. cbn [rdm_st0 rdm_c]. rewrite Hent. reflexivity.
  - unfold rdm_sig. cbn [rdm_st0 rdm_c]. rewrite Hent. unfold rp_sg_set_sid0. cbn [rp_sg_tk]. rewrite Q6. lia.
  - intros L HL. unfold rdm_offsets, rdm_sig. cbn [rdm_st0 rdm_c]. rewrite Hent.
    change (rp_sg_track (rp_sg_set_sid0 ge T0) JLS_TRACK_TYPE_FSR) with (rp_sg_track ge JLS_TRACK_TYPE_FSR).
    rewrite Hoffs. exact (Hs3tab' L HL).
Qed.

(* ================================================================ K3: the end-to-end theorem without hypotheses about jls_rd_open *)
Theorem lk_C01_byte_level : forall (summ1 : N -> list N -> wm_sentry) (summN : bool -> list wm_sentry -> wm_sentry)
    (d0 d : sigdef) (pos0 : Z) (p1 p2 : list wop) (stf : py_wr),
  (0 < pos0)%Z -> sg_id d <> 0 -> sg_type d = JLS_SIGNAL_TYPE_FSR -> sg_eps d * sg_sdf d < 4294967296 ->
  let sid := sg_id d in
  let w := dt_bits (sg_dtype d) in
  let pd := rf_pd d in
  let p := p1 ++ WSig d0 :: p2 in
  Forall (rp_ok sid) p ->
  Forall (fun o => match o with WSig d' => sg_id d' <> sid | _ => True end) p1 ->
  snd (wm_api_signal_def (fst (wm_steps summ1 summN wm_api_open p1 [])) d0) = 0 -> wm_sig_align d0 = Some d ->
  let ops := rp_proj sid p2 in
  py_srun pd (w <=? 8) (rf_t0 ops) pos0 (rf_script d rf_bs0 ops) = PyOk stf ->
  wm_fill_sample (sg_dtype d) = fill_value (sg_dtype d) ->
  8 < w -> cmp_no_omit ops ->
  let g := fold_left (fun g c => fsr_write g (fst c) (snd c)) (rf_calls ops) (new_sig d) in
  rd_length g <> 0 ->
  let stF := fst (wm_run_full summ1 summN p) in
  wmw_bounded (wm_st_log stF) ->
  let f := e2_file summ1 summN p in
  let cs := filter (rf_mine d) (rf_chunks (wm_st_log stF)) in
  e2t_adjb cs = true -> e2t_bigb cs = true ->
  rf_len f < rp_two63 -> sg_spd d < 4294967296 ->
  (- e2_tsb <= rf_t0 ops)%Z /\ (rf_t0 ops + Z.of_N (rd_length g) + Z.of_N (sg_spd d) <= e2_tsb)%Z ->
  (forall k, (1 <= k)%nat -> nth k (pw_heads stf) 0%Z <> 0%Z -> (py_step pd k < rdm_two63)%Z) ->
  let psi := rf_psi (map rc_off cs) pos0 in
  let csA := rf_chunks (wm_st_log stF) in
  e2t_bigb (filter (fun c => negb (lk_key (rc_tag c) =? 0)) csA) = true ->
  forallb (fun c => (JLS_SOURCE_COUNT <=? rc_meta c) || (rp_source_parse (rc_pay c) =? 0))
          (filter (fun c => lk_key (rc_tag c) =? 1) csA) = true ->
  sg_dtype d < 4294967296 -> sg_rate d < 4294967296 -> sg_sdf d < 4294967296 -> sg_eps d < 4294967296 ->
  sg_sumdf d < 4294967296 -> sg_adf d < 4294967296 -> sg_udf d < 4294967296 ->
  let R2 := map (lk_rl1 f) (filter (fun c => lk_key (rc_tag c) =? 2) csA) in
  (exists A tdef B thead C, R2 = A ++ tdef :: B ++ thead :: C /\
     Forall (fun t => lk_hit sid t = false) A /\ Forall (fun t => lk_hit sid t = false) B /\ Forall (fun t => lk_touch sid t = false) C /\
     fm_tag (lk_ck_hdr tdef) = JLS_TAG_SIGNAL_DEF /\ fm_chunk_meta (lk_ck_hdr tdef) = sid /\ lk_ck_pay tdef = wm_signal_payload d /\
     fm_tag (lk_ck_hdr thead) = JLS_TAG_TRACK_FSR_HEAD /\ N.land (fm_chunk_meta (lk_ck_hdr thead)) CORE_SIGNAL_MASK = sid) ->
  Forall (fun t => lk_fsrhead_other sid t = true -> fm_dec_u64 (lk_ck_pay t) = 0) R2 ->
  let P := e2_P f d (pw_disk stf) (pw_heads stf) psi (rf_t0 ops) (Z.of_N (rd_length g)) in
  wm_st_fault stF = false /\
  exists st0, rdm_open f = RdmOpened st0 /\ P st0 /\
  forall st, P st ->
    (exists st', rdm_fsr_length st sid = (st', 0, Z.of_N (rd_length g)) /\ P st' /\
                 rdm_stale st' = rdm_stale st /\ rdm_flt st' = rdm_flt st) /\
    forall recon f32_of_f64 start len dst,
      (0 <= start)%Z -> (0 < len)%Z -> (start + len <= Z.of_N (rd_length g))%Z -> Z.to_N len * w <= 8 * N.of_nat (length dst) ->
      exists st' pcs out,
        rdm_fsr recon f32_of_f64 st sid start len dst = (st', 0, out, pcs) /\ P st' /\
        rdm_stale st' = rdm_stale st /\ rdm_flt st' = rdm_flt st /\ length out = length dst /\
        firstn (N.to_nat (Z.to_N len * w)) (bc_bits out) =
          flat_map (bits_of (N.to_nat w)) (firstn (Z.to_nat len) (skipn (Z.to_nat start) (ss_samples g))) /\
        skipn (N.to_nat (Z.to_N len * w)) (bc_bits out) = skipn (N.to_nat (Z.to_N len * w)) (bc_bits dst) /\
        (dst = repeat 0 (N.to_nat ((Z.to_N len * w + 7) / 8)) -> rd_window g (Z.to_N start) (Z.to_N len) = Some out).
Proof.
  intros summ1 summN d0 d pos0 p1 p2 stf Hpos0 Hsid0 Hty Hprod sid w pd p Hok Hns Hrc Hal ops Hpy Hfillv Hw8 Hno g Hne stF Hbnd f cs
         Hadj Hbig Gflen Gspd Gts Gstep psi csA GbigD Gparse B1 B2 B4 B5 B6 B7 B8 R2 Gpat Goth P.
  destruct (lk_open_R0 summ1 summN d0 d pos0 p1 p2 stf Hpos0 Hsid0 Hty Hprod Hok Hns Hrc Hal Hpy Hfillv Hne Hbnd Hadj Hbig Gflen Gspd Gts Gstep
              GbigD Gparse B1 B2 B4 B5 B6 B7 B8 Gpat Goth) as (st0 & Hopen & R0).
  destruct (e2m_fsr_read summ1 summN d0 d pos0 p1 p2 stf Hpos0 Hsid0 Hty Hprod Hok Hns Hrc Hal Hpy Hfillv Hw8 Hno Hne Hbnd Hadj Hbig Gflen Gspd Gts Gstep)
    as (Hflt & HP & Hall).
  split; [exact Hflt|]. exists st0. split; [exact Hopen|]. split; [exact (HP st0 Hopen R0)|exact Hall].
Qed.

(* ================================================================ the vocabulary of the reader-side statements, spelled out *)
Lemma lk_vocabulary_reader :
  (forall t : lk_ck, lk_ck_off t = fst (fst t) /\ lk_ck_hdr t = snd (fst t) /\ lk_ck_pay t = snd t) /\
  (forall f t, lk_ck_ok f t <->
     (e2_chunk_at f (lk_ck_off t) (lk_ck_hdr t) (lk_ck_pay t) /\ fm_tag (lk_ck_hdr t) <> JLS_TAG_INVALID /\
      fm_disk_len (rf_len (lk_ck_pay t)) <= JLS_BUF_DEFAULT_SIZE /\ lk_ck_off t < rp_two63)) /\
  (forall f t c, lk_ck_of f t c <->
     (lk_ck_off t = rc_off c /\ e2_chunk_at f (rc_off c) (lk_ck_hdr t) (lk_ck_pay t) /\
      fm_tag (lk_ck_hdr t) = rc_tag c /\ fm_chunk_meta (lk_ck_hdr t) = rc_meta c)) /\
  (forall f c, lk_rl1 f c =
     (rc_off c, fm_ch_fields (fm_sub (rc_off c) 32 f),
      fm_sub (rc_off c + 32) (fm_payload_length (fm_ch_fields (fm_sub (rc_off c) 32 f))) f)) /\
  (forall c1, lk_sig_handle c1 =
     if fm_tag (wm_ck_hdr (rp_cur (rp_io_ c1))) =? JLS_TAG_SIGNAL_DEF then rp_handle_signal_def c1
     else if N.land (fm_tag (wm_ck_hdr (rp_cur (rp_io_ c1)))) 7 =? JLS_TRACK_CHUNK_DEF then c1
     else if N.land (fm_tag (wm_ck_hdr (rp_cur (rp_io_ c1)))) 7 =? JLS_TRACK_CHUNK_HEAD then rp_handle_track_head c1
     else c1) /\
  (forall sigs t, lk_sigs_step sigs t =
     rp_sigs (lk_sig_handle
       {| rp_io_ := {| rp_file := []; rp_flen := 0; rp_r := rp_raw0; rp_buf := lk_ck_pay t; rp_buf_len := rf_len (lk_ck_pay t);
                       rp_cur := {| wm_ck_offset := lk_ck_off t; wm_ck_hdr := lk_ck_hdr t |}; rp_flt := 0 |};
          rp_src_head := wm_chunk0; rp_sig_head := wm_chunk0; rp_ud_head := wm_chunk0; rp_sigs := sigs |})) /\
  (forall sid t, lk_hit sid t =
     if fm_tag (lk_ck_hdr t) =? JLS_TAG_SIGNAL_DEF then fm_chunk_meta (lk_ck_hdr t) =? sid
     else (N.land (fm_tag (lk_ck_hdr t)) 7 =? JLS_TRACK_CHUNK_HEAD) && (N.land (fm_chunk_meta (lk_ck_hdr t)) CORE_SIGNAL_MASK =? sid)) /\
  (forall sid t, lk_touch sid t =
     if fm_tag (lk_ck_hdr t) =? JLS_TAG_SIGNAL_DEF then fm_chunk_meta (lk_ck_hdr t) =? sid
     else (N.land (fm_tag (lk_ck_hdr t)) 7 =? JLS_TRACK_CHUNK_HEAD) && (N.land (fm_chunk_meta (lk_ck_hdr t)) CORE_SIGNAL_MASK =? sid) &&
          (fm_tag_track_type (fm_tag (lk_ck_hdr t)) =? JLS_TRACK_TYPE_FSR)) /\
  (forall sid t, lk_fsrhead_other sid t =
     negb (fm_tag (lk_ck_hdr t) =? JLS_TAG_SIGNAL_DEF) && (N.land (fm_tag (lk_ck_hdr t)) 7 =? JLS_TRACK_CHUNK_HEAD) &&
     (fm_tag_track_type (fm_tag (lk_ck_hdr t)) =? JLS_TRACK_TYPE_FSR) && negb (N.land (fm_chunk_meta (lk_ck_hdr t)) CORE_SIGNAL_MASK =? sid)).
Proof.
  split; [intro t; repeat split|]. split; [intros; unfold lk_ck_ok; tauto|]. split; [intros; unfold lk_ck_of; tauto|].
  repeat split.
Qed.
