(* Refinement glue, FSR pyramid, part 2: whole call sequences.
     rf_op / rf_do      the calls on one FSR signal: jls_wr_fsr_data, jls_wr_fsr_omit_data
     rf_script          the PyramidModel script (py_sop list) of a call sequence: one PsBlk per block handed to
                        wr_data (full blocks cut from the stream, then the pending rest at close), PsOmit per
                        jls_wr_fsr_omit_data call - computed from the calls alone (block state = allocated?,
                        timestamp of the pending block, pending samples)
     rf_fsr_refines     the chunks the byte-exact model appends for the signal = PyramidModel's disk, chunk by chunk
   Definitions + proofs (glue file; nothing here changes a model). *)
From Coq Require Import NArith ZArith List Bool Lia Arith.
From Coq Require Import ZifyBool ZifyN ZifyNat.
From JLS Require Import Generated CrcDefs Spec Format FormatProofs WmRaw WmCore WmTs WmFsr WriterModel WmProofs
  PyramidModel PyramidProofs RefineLog RefineFsr RefinePyr.
Import ListNotations.
Local Open Scope N_scope.

(* ------------------------------------------------------------------ the omit register *)
Lemma rf_reg_shift : forall o, o < 256 ->
  Z.of_N (N.lor (N.shiftl o 1) (N.land o 1) mod 256) = py_reg_shift (Z.of_N o) /\
  N.lor (N.shiftl o 1) (N.land o 1) mod 256 < 256.
Proof.
  intros o Ho.
  assert (H : forallb (fun k => let o := N.of_nat k in
                 (Z.of_N (N.lor (N.shiftl o 1) (N.land o 1) mod 256) =? py_reg_shift (Z.of_N o))%Z) (seq 0 256) = true)
    by (vm_compute; reflexivity).
  rewrite forallb_forall in H. specialize (H (N.to_nat o) ltac:(apply in_seq; lia)). cbv zeta in H.
  rewrite N2Nat.id in H. split; [apply Z.eqb_eq; exact H|]. apply N.mod_lt. discriminate.
Qed.
Lemma rf_reg_enable : forall o, o < 256 -> Z.of_N (N.lor o 1) = py_reg_enable (Z.of_N o) true /\ N.lor o 1 < 256.
Proof.
  intros o Ho.
  assert (H : forallb (fun k => let o := N.of_nat k in
                 (Z.of_N (N.lor o 1) =? py_reg_enable (Z.of_N o) true)%Z && (N.lor o 1 <? 256)) (seq 0 256) = true)
    by (vm_compute; reflexivity).
  rewrite forallb_forall in H. specialize (H (N.to_nat o) ltac:(apply in_seq; lia)). cbv zeta in H.
  rewrite N2Nat.id in H. apply andb_true_iff in H as [H1 H2]. split; [apply Z.eqb_eq; exact H1|apply N.ltb_lt; exact H2].
Qed.

(* ------------------------------------------------------------------ calls and scripts *)
Inductive rf_op := RfData (sid : Z) (samples : list N) | RfOmit (en : N).

(* block state seen from outside: allocated?, timestamp of the pending block, pending samples (oldest first) *)
Record rf_bs := { bs_alloc : bool; bs_ts : Z; bs_pend : list N }.
Definition rf_bs0 : rf_bs := {| bs_alloc := false; bs_ts := 0%Z; bs_pend := [] |}.

Definition rf_const (w : N) (blk : list N) : bool :=
  let data := wm_pack w blk in wm_is_mem_const data (wm_data_const w (hd 0 data)).
Definition rf_sblk (w : N) (blk : list N) : py_sop := PsBlk (Z.of_nat (length blk)) (rf_const w blk).

(* one call: new block state, the blocks handed to wr_data *)
Definition rf_bs_data (d : sigdef) (s : rf_bs) (sid : Z) (samples : list N) : rf_bs * list (list N) :=
  match samples with
  | [] => (s, [])
  | _ =>
    let s1 := if bs_alloc s then s else {| bs_alloc := true; bs_ts := sid; bs_pend := [] |} in
    let next := (bs_ts s1 + Z.of_nat (length (bs_pend s1)))%Z in
    let all := bs_pend s1 ++ rf_extend (sg_dtype d) next sid samples in
    let '(bl, r) := rf_cut (S (length all)) (N.to_nat (sg_spd d)) all in
    ({| bs_alloc := true; bs_ts := (bs_ts s1 + Z.of_nat (length bl) * Z.of_N (sg_spd d))%Z; bs_pend := r |}, bl)
  end.

Fixpoint rf_script (d : sigdef) (s : rf_bs) (ops : list rf_op) : list py_sop :=
  match ops with
  | [] => if bs_alloc s then [rf_sblk (dt_bits (sg_dtype d)) (bs_pend s)] else []
  | RfOmit en :: r => PsOmit (negb (en =? 0)) :: rf_script d s r
  | RfData sid samples :: r =>
    let '(s1, bl) := rf_bs_data d s sid samples in map (rf_sblk (dt_bits (sg_dtype d))) bl ++ rf_script d s1 r
  end.

(* all blocks handed to wr_data, the pending rest at close last (when not empty) *)
Fixpoint rf_blocks (d : sigdef) (s : rf_bs) (ops : list rf_op) : list (list N) :=
  match ops with
  | [] => if bs_alloc s then (match bs_pend s with [] => [] | _ => [bs_pend s] end) else []
  | RfOmit _ :: r => rf_blocks d s r
  | RfData sid samples :: r => let '(s1, bl) := rf_bs_data d s sid samples in bl ++ rf_blocks d s1 r
  end.

(* the first sample id = t0 of PyramidModel *)
Fixpoint rf_t0 (ops : list rf_op) : Z :=
  match ops with
  | [] => 0%Z
  | RfData sid (_ :: _) :: _ => sid
  | _ :: r => rf_t0 r
  end.

Section RF_PYR2.
Variable summ1 : N -> list N -> wm_sentry.
Variable summN : bool -> list wm_sentry -> wm_sentry.
Variable d : sigdef.
Variable pos0 : Z.
Variable xs : wm_fx.
Variable n0 : nat.
Hypothesis Hpos0 : (0 < pos0)%Z.
Let pd := rf_pd d.
Let w := dt_bits (sg_dtype d).
Let small := w <=? 8.
Hypothesis Hsid : sg_id d < 256.
Hypothesis Hg_idx : forall L, (8 * py_cap pd L + 16 < 4294967296)%Z.
Hypothesis Hg_sum : (32 * py_eps pd + 16 < 4294967296)%Z.
Hypothesis Hspd : 0 < sg_spd d.
Hypothesis Hw : w < 8 \/ w mod 8 = 0.
Hypothesis Hg_data : 16 + (sg_spd d * w + 7) / 8 < 4294967296.
Hypothesis Hfill : 0 < wm_fill_buf_samples (sg_dtype d).

Definition rf_do (x : wm_fx) (o : rf_op) : wm_fx :=
  match o with
  | RfData sid samples => wm_fsr_data summ1 summN d x sid samples
  | RfOmit en => let f := wm_fx_fsr x in wm_fx_set_fsr x (wm_f_set_omit f (if en =? 0 then 0 else N.lor (wm_f_omit f) 1))
  end.

(* block state of the model = block state seen from outside *)
Definition rf_bs_rel (x : wm_fx) (s : rf_bs) : Prop :=
  let f := wm_fx_fsr x in
  wm_f_alloc f = bs_alloc s /\ wm_f_omit f < 256 /\
  (bs_alloc s = true -> wm_f_ts f = bs_ts s /\ wm_f_buf f = rev (bs_pend s) /\ rf_binv (sg_spd d) f) /\
  (bs_alloc s = false -> bs_pend s = []).

(* ---- a run of full blocks ---- *)
Lemma rf_req_plan : forall omit blk,
  rf_req d omit blk = (if small then rf_const w blk && (Z.of_nat (length blk) mod py_sdf pd =? 0)%Z else (1 <? Z.of_N omit)%Z).
Proof.
  intros omit blk. unfold rf_req, rf_const. fold w. fold small. destruct small.
  - f_equal. change (py_sdf pd) with (Z.of_N (sg_sdf d)). unfold rf_len.
    rewrite <- nat_N_Z, <- N2Z.inj_mod.
    destruct (N.eqb_spec (N.of_nat (length blk) mod sg_sdf d) 0) as [E|E]; [rewrite E; reflexivity|].
    destruct (Z.eqb_spec (Z.of_N (N.of_nat (length blk) mod sg_sdf d)) 0); [lia|reflexivity].
  - destruct (N.ltb_spec 1 omit); destruct (Z.ltb_spec 1 (Z.of_N omit)); try reflexivity; lia.
Qed.

Lemma rf_sim_blocks : forall t0 bl rest pre cs blks x st st',
  rf_S d pos0 t0 1 xs n0 pre cs blks x st ->
  Forall (fun b => length b = N.to_nat (sg_spd d)) bl ->
  pw_dts st = (t0 + py_spd pd * Z.of_nat (length blks))%Z ->
  wm_f_omit (wm_fx_fsr x) < 256 ->
  py_do_all pd (py_plan small (py_sdf pd) (Z.of_N (wm_f_omit (wm_fx_fsr x))) (map (rf_sblk w) bl ++ rest)) st = PyOk st' ->
  let x1 := fold_left (rf_flush summ1 summN d) bl x in
  exists cs' st1,
    rf_S d pos0 t0 1 xs n0 pre (cs ++ cs') (blks ++ bl) x1 st1 /\
    pw_dts st1 = (t0 + py_spd pd * Z.of_nat (length (blks ++ bl)))%Z /\
    wm_f_omit (wm_fx_fsr x1) < 256 /\
    py_do_all pd (py_plan small (py_sdf pd) (Z.of_N (wm_f_omit (wm_fx_fsr x1))) rest) st1 = PyOk st'.
Proof.
  intros t0 bl. induction bl as [|b bl IH]; intros rest pre cs blks x st st' HS Hfull Hdts Hom Hpy x1.
  - exists [], st. rewrite !app_nil_r. subst x1. cbn [fold_left]. cbn [map app] in Hpy. split; [exact HS|]. split; [exact Hdts|]. split; [exact Hom|exact Hpy].
  - inversion Hfull as [|? ? Hb Hbl]; subst.
    assert (Hbne : b <> []) by (intro E; subst b; cbn in Hb; lia).
    assert (Hblen : rf_len b <= sg_spd d) by (unfold rf_len; lia).
    cbn [map app py_plan rf_sblk] in Hpy.
    destruct (Z.eqb_spec (Z.of_nat (length b)) 0) as [E|_]; [lia|].
    cbn [py_do_all py_do] in Hpy. unfold py_bind in Hpy at 1.
    rewrite <- rf_req_plan in Hpy.
    destruct (py_wr_data pd (Z.of_nat (length b)) (rf_req d (wm_f_omit (wm_fx_fsr x)) b) st) as [st1|e] eqn:Ewd; [|discriminate].
    destruct (rf_sim_flush summ1 summN d pos0 t0 1 xs n0 Hpos0 Hsid Hg_idx Hg_sum Hspd Hw Hg_data ltac:(lia) pre cs blks x st b st1 HS Hbne Hblen Hdts Ewd)
      as (cs1 & HS1 & Hdts1).
    destruct (rf_flush_blk summ1 summN d x b Hbne) as (_ & _ & _ & _ & _ & Eom).
    destruct (rf_reg_shift _ Hom) as (Esh & Hom1).
    rewrite <- Esh, <- Eom in Hpy.
    destruct (IH rest pre (cs ++ cs1) (blks ++ [b]) _ st1 st' HS1 Hbl Hdts1 ltac:(rewrite Eom; exact Hom1) Hpy) as (cs2 & st2 & HS2 & Hdts2 & Hom2 & Hpy2).
    exists (cs1 ++ cs2), st2. subst x1. cbn [fold_left].
    rewrite app_assoc. replace (blks ++ b :: bl) with ((blks ++ [b]) ++ bl) by (rewrite <- app_assoc; reflexivity).
    split; [exact HS2|]. split; [exact Hdts2|]. split; [exact Hom2|exact Hpy2].
Qed.


(* ---- close: summary_close for levels 1 .. 15 ---- *)
Lemma rf_R_weaken : forall lo lo' offs x st, (lo <= lo')%nat -> rf_R d pos0 lo offs x st -> rf_R d pos0 lo' offs x st.
Proof.
  intros lo lo' offs x st Hle [Rbok Rtok Rty Rlvlen Rpos Rnz Rheads Rdhead Rlvls Rdts].
  constructor; try assumption. intros L HL. apply Rlvls. lia.
Qed.
Lemma rf_S_weaken : forall t0 lo lo' pre cs blks x st, (lo <= lo')%nat -> rf_S d pos0 t0 lo xs n0 pre cs blks x st -> rf_S d pos0 t0 lo' xs n0 pre cs blks x st.
Proof. intros t0 lo lo' pre cs blks x st Hle (A & B & C). split; [eapply rf_R_weaken; eauto|]. split; assumption. Qed.

Lemma rf_py_wr_summary_empty : forall k L st, pl_idx (py_lvl_get st L) = [] -> pl_sum (py_lvl_get st L) = 0%Z ->
  py_wr_summary (S k) pd L st = PyOk st.
Proof. intros k L st Hi Hs. cbn [py_wr_summary]. rewrite Hi, Hs. reflexivity. Qed.

Lemma rf_sim_close_level_gen : forall wfuel t0 L pre cs blks x st st', (16 <= wfuel)%nat ->
  rf_S d pos0 t0 L xs n0 pre cs blks x st -> (1 <= L <= 15)%nat ->
  py_wr_summary (16 - L) pd L st = PyOk st' ->
  exists cs', rf_S d pos0 t0 (S L) xs n0 pre (cs ++ cs') blks
    (match wm_f_get_level (wm_fx_fsr x) (N.of_nat L) with
     | None => x
     | Some _ => let x1 := wm_fsr_wr_summary summN wfuel d (N.of_nat L) x in
                 wm_fx_set_fsr x1 (wm_f_set_level (wm_fx_fsr x1) (N.of_nat L) None)
     end) st'.
Proof.
  intros wfuel t0 L pre cs blks x st st' Hwf HS HL Hpy.
  pose proof HS as (HR & HF & Hout).
  destruct (wm_f_get_level (wm_fx_fsr x) (N.of_nat L)) as [lv|] eqn:Elv.
  - destruct (rf_sim_wr_summary summ1 summN d pos0 t0 L xs n0 Hpos0 Hsid Hg_idx Hg_sum (16 - L) L wfuel pre cs blks x st st' lv HS
               ltac:(lia) ltac:(lia) eq_refl ltac:(lia) Elv Hpy) as (cs' & HS').
    exists cs'. cbv zeta. set (x1 := wm_fsr_wr_summary summN wfuel d (N.of_nat L) x) in *. clearbody x1.
    destruct HS' as (HR' & HF' & Hout').
    split; [|split; [exact HF'|unfold rf_out in *; cbn [wm_fx_set_fsr wm_fx_base]; exact Hout']].
    destruct HR' as [Rbok Rtok Rty Rlvlen Rpos Rnz Rheads Rdhead Rlvls Rdts].
    constructor; cbn [wm_fx_base wm_fx_tk wm_fx_fsr wm_fx_set_fsr]; try assumption.
    + rewrite rf_set_level_len. exact Rlvlen.
    + intros M HM. rewrite rf_get_set_level_neq by lia. apply Rlvls. lia.
  - exists []. rewrite app_nil_r.
    pose proof (R_lvls _ _ _ _ _ _ HR L ltac:(lia)) as Hrel. rewrite Elv in Hrel. destruct Hrel as (_ & _ & C & D).
    replace (16 - L)%nat with (S (15 - L)) in Hpy by lia.
    rewrite rf_py_wr_summary_empty in Hpy by (try exact D; apply C; exact D). injection Hpy as <-.
    apply (rf_S_weaken t0 L); [lia|exact HS].
Qed.

Lemma rf_sim_close_level : forall t0 L pre cs blks x st st',
  rf_S d pos0 t0 L xs n0 pre cs blks x st -> (1 <= L <= 15)%nat ->
  py_wr_summary (16 - L) pd L st = PyOk st' ->
  exists cs', rf_S d pos0 t0 (S L) xs n0 pre (cs ++ cs') blks (wm_fsr_summary_close summN d x (N.of_nat L)) st'.
Proof.
  intros t0 L pre cs blks x st st' HS HL Hpy.
  exact (rf_sim_close_level_gen wm_level_count t0 L pre cs blks x st st' (Nat.le_refl 16) HS HL Hpy).
Qed.

Lemma rf_sim_close_loop : forall t0 k L pre cs blks x st st',
  rf_S d pos0 t0 L xs n0 pre cs blks x st -> (1 <= L)%nat -> (L + k = 16)%nat ->
  py_close_loop k pd L st = PyOk st' ->
  exists cs', rf_S d pos0 t0 16 xs n0 pre (cs ++ cs') blks
                   (fold_left (wm_fsr_summary_close summN d) (map N.of_nat (seq L k)) x) st'.
Proof.
  intros t0 k. induction k as [|k IH]; intros L pre cs blks x st st' HS HL Hk Hpy.
  - cbn in Hpy. injection Hpy as <-. exists []. rewrite app_nil_r. cbn [seq map fold_left].
    replace L with 16%nat in HS by lia. exact HS.
  - cbn [py_close_loop] in Hpy. unfold py_bind in Hpy.
    destruct (py_wr_summary (16 - L) pd L st) as [st1|e] eqn:E1; [|discriminate].
    destruct (rf_sim_close_level t0 L pre cs blks x st st1 HS ltac:(lia) E1) as (cs1 & HS1).
    destruct (IH (S L) pre (cs ++ cs1) blks _ st1 st' HS1 ltac:(lia) ltac:(lia) Hpy) as (cs2 & HS2).
    exists (cs1 ++ cs2). rewrite app_assoc. cbn [seq map fold_left]. exact HS2.
Qed.


(* ---- the invariant between calls (after the first non-empty jls_wr_fsr_data) ---- *)
Definition rf_I (t0 : Z) (pre cs : list rf_chunk) (blks : list (list N)) (x : wm_fx) (st : py_wr) (s : rf_bs) : Prop :=
  rf_S d pos0 t0 1 xs n0 pre cs blks x st /\ rf_bs_rel x s /\ bs_alloc s = true /\
  pw_dts st = (t0 + py_spd pd * Z.of_nat (length blks))%Z.

Lemma rf_S_set_buf : forall t0 pre cs blks x st r,
  rf_S d pos0 t0 1 xs n0 pre cs blks x st -> rf_S d pos0 t0 1 xs n0 pre cs blks (rf_set_buf x r) st.
Proof.
  intros t0 pre cs blks x st r HS. pose proof HS as (HR & _).
  apply (rf_S_change d pos0 t0 1 xs n0 pre cs blks x st); [exact HS| |reflexivity|reflexivity].
  rewrite (rf_py_eta st). unfold rf_set_buf.
  apply (rf_R_fsr_change d pos0 1 _ x st _ (pw_dts st) HR); [reflexivity|].
  cbn [wm_f_set_block wm_f_ts]. symmetry. exact (R_dts _ _ _ _ _ _ HR).
Qed.

(* a feed (the body of jls_wr_fsr_data after Spec's extension) *)
Lemma rf_sim_feed : forall t0 data rest pre cs blks x st st',
  rf_S d pos0 t0 1 xs n0 pre cs blks x st ->
  pw_dts st = (t0 + py_spd pd * Z.of_nat (length blks))%Z ->
  wm_f_omit (wm_fx_fsr x) < 256 ->
  let all := rev (wm_f_buf (wm_fx_fsr x)) ++ data in
  let bl := fst (rf_cut (S (length all)) (N.to_nat (sg_spd d)) all) in
  py_do_all pd (py_plan small (py_sdf pd) (Z.of_N (wm_f_omit (wm_fx_fsr x))) (map (rf_sblk w) bl ++ rest)) st = PyOk st' ->
  let x1 := rf_feed summ1 summN d x data in
  exists cs' st1,
    rf_S d pos0 t0 1 xs n0 pre (cs ++ cs') (blks ++ bl) x1 st1 /\
    pw_dts st1 = (t0 + py_spd pd * Z.of_nat (length (blks ++ bl)))%Z /\
    wm_f_omit (wm_fx_fsr x1) < 256 /\
    py_do_all pd (py_plan small (py_sdf pd) (Z.of_N (wm_f_omit (wm_fx_fsr x1))) rest) st1 = PyOk st'.
Proof.
  intros t0 data rest pre cs blks x st st' HS Hdts Hom all bl Hpy x1.
  pose proof (rf_cut_spec (S (length all)) (N.to_nat (sg_spd d)) all ltac:(lia) ltac:(lia)) as Hcut.
  subst x1. unfold rf_feed. fold all. subst bl.
  destruct (rf_cut (S (length all)) (N.to_nat (sg_spd d)) all) as [bl r]. cbn [fst] in Hpy.
  destruct Hcut as (_ & _ & Hfull).
  destruct (rf_sim_blocks t0 bl rest pre cs blks x st st' HS Hfull Hdts Hom Hpy) as (cs' & st1 & HS1 & Hdts1 & Hom1 & Hpy1).
  exists cs', st1. split; [apply rf_S_set_buf; exact HS1|]. split; [exact Hdts1|]. split; [exact Hom1|exact Hpy1].
Qed.

Lemma rf_bs_rel_next : forall x s, rf_bs_rel x s -> bs_alloc s = true ->
  rf_next x = (bs_ts s + Z.of_nat (length (bs_pend s)))%Z /\ rev (wm_f_buf (wm_fx_fsr x)) = bs_pend s.
Proof.
  intros x s (A & B & C & D) Ha. destruct (C Ha) as (C1 & C2 & (C3 & C4)).
  unfold rf_next. rewrite C1, C3, C2. unfold rf_len. rewrite rev_length, rev_involutive. split; [lia|reflexivity].
Qed.

Lemma rf_bs_data_ne : forall s sid samples, samples <> [] ->
  rf_bs_data d s sid samples =
  (let s1 := if bs_alloc s then s else {| bs_alloc := true; bs_ts := sid; bs_pend := [] |} in
   let next := (bs_ts s1 + Z.of_nat (length (bs_pend s1)))%Z in
   let all := bs_pend s1 ++ rf_extend (sg_dtype d) next sid samples in
   let '(bl, r) := rf_cut (S (length all)) (N.to_nat (sg_spd d)) all in
   ({| bs_alloc := true; bs_ts := (bs_ts s1 + Z.of_nat (length bl) * Z.of_N (sg_spd d))%Z; bs_pend := r |}, bl)).
Proof. intros s sid samples H. destruct samples; [congruence|reflexivity]. Qed.

(* one call, the block buffer already allocated *)
Lemma rf_sim_op : forall t0 o ops pre cs blks x st s st',
  rf_I t0 pre cs blks x st s ->
  py_do_all pd (py_plan small (py_sdf pd) (Z.of_N (wm_f_omit (wm_fx_fsr x))) (rf_script d s (o :: ops))) st = PyOk st' ->
  exists cs' blks' st1 s1,
    rf_I t0 pre (cs ++ cs') (blks ++ blks') (rf_do x o) st1 s1 /\
    py_do_all pd (py_plan small (py_sdf pd) (Z.of_N (wm_f_omit (wm_fx_fsr (rf_do x o)))) (rf_script d s1 ops)) st1 = PyOk st' /\
    rf_blocks d s (o :: ops) = blks' ++ rf_blocks d s1 ops.
Proof.
  intros t0 o ops pre cs blks x st s st' (HS & Hbs & Ha & Hdts) Hpy.
  pose proof Hbs as (B1 & B2 & B3 & B4). destruct (B3 Ha) as (C1 & C2 & C3).
  destruct o as [sid samples|en].
  - (* data *)
    cbn [rf_script rf_blocks rf_do] in *.
    destruct samples as [|s0 sm] eqn:Esm.
    + cbn [rf_bs_data map app] in *. unfold wm_fsr_data. cbn [length N.of_nat N.eqb].
      exists [], [], st, s. rewrite !app_nil_r. split; [|split; [exact Hpy|reflexivity]].
      split; [exact HS|]. split; [exact Hbs|]. split; assumption.
    + rewrite <- Esm in *. assert (Hsne : samples <> []) by (rewrite Esm; discriminate). clear Esm.
      rewrite rf_fsr_data_feed; [|exact Hspd|exact Hfill|intros _; exact C3|exact Hsne].
      assert (Hx1 : rf_alloc x sid = x) by (unfold rf_alloc; rewrite B1, Ha; reflexivity).
      rewrite Hx1.
      destruct (rf_bs_rel_next x s Hbs Ha) as (Enext & Epend).
      rewrite (rf_bs_data_ne s sid samples Hsne) in *.
      assert (Esel : (if bs_alloc s then s else {| bs_alloc := true; bs_ts := sid; bs_pend := [] |}) = s) by (rewrite Ha; reflexivity).
      cbv zeta in Hpy |- *. rewrite Esel in Hpy |- *. rewrite <- Enext, <- Epend in Hpy |- *.
      set (all := rev (wm_f_buf (wm_fx_fsr x)) ++ rf_extend (sg_dtype d) (rf_next x) sid samples) in *.
      pose proof (rf_cut_spec (S (length all)) (N.to_nat (sg_spd d)) all ltac:(lia) ltac:(lia)) as Hcut.
      destruct (rf_cut (S (length all)) (N.to_nat (sg_spd d)) all) as [bl r] eqn:Ecut.
      destruct Hcut as (Hr & Hcat & Hfull).
      set (s1 := {| bs_alloc := true; bs_ts := (bs_ts s + Z.of_nat (length bl) * Z.of_N (sg_spd d))%Z; bs_pend := r |}) in *.
      pose proof (rf_sim_feed t0 (rf_extend (sg_dtype d) (rf_next x) sid samples) (rf_script d s1 ops) pre cs blks x st st' HS Hdts B2) as X.
      cbv zeta in X. fold all in X. rewrite Ecut in X. cbn [fst] in X.
      destruct (X Hpy) as (cs' & st1 & HS1 & Hdts1 & Hom1 & Hpy1).
      exists cs', bl, st1, s1. split; [|split; [exact Hpy1|reflexivity]].
      split; [exact HS1|]. split; [|split; [reflexivity|exact Hdts1]].
      (* block state after the feed *)
      unfold rf_feed. fold all. rewrite Ecut.
      set (y := fold_left (rf_flush summ1 summN d) bl x).
      assert (Hy : wm_f_alloc (wm_fx_fsr y) = true /\ wm_f_omit (wm_fx_fsr y) = wm_f_omit (wm_fx_fsr (rf_feed summ1 summN d x (rf_extend (sg_dtype d) (rf_next x) sid samples))) /\
                   wm_f_ts (wm_fx_fsr y) = (bs_ts s + Z.of_nat (length bl) * Z.of_N (sg_spd d))%Z).
      { split; [|split].
        - subst y. clear - B1 Ha Hfull Hspd. revert x B1. induction bl as [|b bl IH]; intros x B1; [cbn; congruence|].
          cbn [fold_left]. inversion Hfull; subst. apply IH; [assumption|].
          destruct (rf_flush_blk summ1 summN d x b) as (A & _); [intro E; subst b; cbn in *; lia|]. rewrite A. exact B1.
        - unfold rf_feed. fold all. rewrite Ecut. reflexivity.
        - subst y. rewrite <- C1. clear - Hfull Hspd. revert x. induction bl as [|b bl IH]; intros x; [cbn; lia|].
          cbn [fold_left length]. inversion Hfull; subst. rewrite IH by assumption.
          destruct (rf_flush_blk summ1 summN d x b) as (_ & _ & A & _); [intro E; subst b; cbn in *; lia|]. rewrite A. lia. }
      destruct Hy as (Hy1 & Hy2 & Hy3).
      unfold rf_bs_rel. cbn [wm_fx_fsr rf_set_buf wm_fx_set_fsr wm_f_set_block wm_f_alloc wm_f_omit wm_f_ts wm_f_buf bs_alloc bs_ts bs_pend].
      split; [exact Hy1|]. split; [rewrite Hy2; exact Hom1|].
      split; [|intro X0; discriminate X0]. intros _. split; [exact Hy3|]. split; [reflexivity|].
      unfold rf_binv. cbn [wm_f_count wm_f_buf wm_f_set_block]. unfold rf_len. rewrite rev_length. split; [reflexivity|lia].
  - (* omit *)
    cbn [rf_script rf_blocks rf_do py_plan] in *.
    exists [], [], st, s. rewrite !app_nil_r.
    assert (Hreg : Z.of_N (if en =? 0 then 0 else N.lor (wm_f_omit (wm_fx_fsr x)) 1) = py_reg_enable (Z.of_N (wm_f_omit (wm_fx_fsr x))) (negb (en =? 0))
                   /\ (if en =? 0 then 0 else N.lor (wm_f_omit (wm_fx_fsr x)) 1) < 256).
    { destruct (en =? 0); cbn [negb py_reg_enable]; [split; [reflexivity|lia]|]. apply rf_reg_enable. exact B2. }
    destruct Hreg as (Hreg & Hlt).
    split; [|split; [cbn [wm_fx_fsr wm_fx_set_fsr wm_f_set_omit wm_f_omit]; rewrite Hreg; exact Hpy|reflexivity]].
    split; [|split; [|split; [exact Ha|exact Hdts]]].
    + pose proof HS as (HR & _).
      apply (rf_S_change d pos0 t0 1 xs n0 pre cs blks x st); [exact HS| |reflexivity|reflexivity].
      rewrite (rf_py_eta st). apply (rf_R_fsr_change d pos0 1 _ x st _ (pw_dts st) HR); [reflexivity|].
      cbn [wm_f_set_omit wm_f_ts]. symmetry. exact (R_dts _ _ _ _ _ _ HR).
    + unfold rf_bs_rel. cbn [wm_fx_fsr wm_fx_set_fsr wm_f_set_omit wm_f_alloc wm_f_omit wm_f_ts wm_f_buf].
      split; [exact B1|]. split; [exact Hlt|]. split; [|exact B4]. intros _. split; [exact C1|]. split; [exact C2|]. exact C3.
Qed.


(* ---- jls_fsr_close ---- *)
Lemma rf_close_levels_eq : wm_fsr_close_levels = map N.of_nat (seq 1 15).
Proof. reflexivity. Qed.

Lemma rf_sim_fsr_close : forall t0 pre cs blks x st s stm st',
  rf_I t0 pre cs blks x st s ->
  py_do_all pd (py_plan small (py_sdf pd) (Z.of_N (wm_f_omit (wm_fx_fsr x))) (rf_script d s [])) st = PyOk stm ->
  py_close pd stm = PyOk st' ->
  exists cs', rf_S d pos0 t0 16 xs n0 pre (cs ++ cs') (blks ++ rf_blocks d s []) (wm_fsr_close summ1 summN d x) st'.
Proof.
  intros t0 pre cs blks x st s stm st' (HS & Hbs & Ha & Hdts) Hpy Hcl.
  pose proof Hbs as (B1 & B2 & B3 & B4). destruct (B3 Ha) as (C1 & C2 & (C3 & C4)).
  cbn [rf_script rf_blocks] in *. rewrite Ha in Hpy. rewrite Ha.
  unfold wm_fsr_close. rewrite B1, Ha. rewrite rf_close_levels_eq.
  (* the pending block *)
  assert (Hstep : exists cs1 y,
            wm_fsr_wr_data summ1 summN d x = y /\
            rf_S d pos0 t0 1 xs n0 pre (cs ++ cs1) (blks ++ match bs_pend s with [] => [] | _ => [bs_pend s] end) y stm).
  { assert (Hx : rf_set_buf x (rev (wm_f_buf (wm_fx_fsr x))) = x) by (apply rf_set_buf_same; exact C3).
    assert (Hp : rev (wm_f_buf (wm_fx_fsr x)) = bs_pend s) by (rewrite C2, rev_involutive; reflexivity).
    rewrite Hp in Hx.
    destruct (bs_pend s) as [|p0 pr] eqn:Ep.
    - cbn [map py_plan rf_sblk length Z.of_nat Z.eqb py_do_all] in Hpy. injection Hpy as <-.
      exists [], x. rewrite !app_nil_r. split; [|exact HS].
      unfold wm_fsr_wr_data. rewrite C3, C2. cbn [rev]. reflexivity.
    - rewrite <- Ep in *. assert (Hne : bs_pend s <> []) by (rewrite Ep; discriminate). clear Ep.
      cbn [py_plan rf_sblk] in Hpy.
      destruct (Z.eqb_spec (Z.of_nat (length (bs_pend s))) 0) as [E|_]; [destruct (bs_pend s); [congruence|cbn [length] in E; lia]|].
      cbn [py_plan py_do_all py_do] in Hpy. unfold py_bind in Hpy.
      rewrite <- rf_req_plan in Hpy.
      destruct (py_wr_data pd (Z.of_nat (length (bs_pend s))) (rf_req d (wm_f_omit (wm_fx_fsr x)) (bs_pend s)) st) as [st1|e] eqn:Ewd; [|discriminate].
      injection Hpy as <-.
      assert (Hlen : rf_len (bs_pend s) <= sg_spd d).
      { unfold rf_len in *. rewrite <- Hp, rev_length. lia. }
      destruct (rf_sim_flush summ1 summN d pos0 t0 1 xs n0 Hpos0 Hsid Hg_idx Hg_sum Hspd Hw Hg_data ltac:(lia) pre cs blks x st (bs_pend s) st1 HS Hne Hlen Hdts Ewd)
        as (cs1 & HS1 & _).
      exists cs1, (rf_flush summ1 summN d x (bs_pend s)). split; [unfold rf_flush; rewrite Hx; reflexivity|exact HS1]. }
  destruct Hstep as (cs1 & y & Ey & HSy). rewrite Ey. clear Ey.
  set (y1 := wm_fx_set_fsr y _).
  assert (HSy1 : rf_S d pos0 t0 1 xs n0 pre (cs ++ cs1) (blks ++ match bs_pend s with [] => [] | _ => [bs_pend s] end) y1 stm).
  { pose proof HSy as (HR & _).
    apply (rf_S_change d pos0 t0 1 xs n0 _ _ _ y stm); [exact HSy| |reflexivity|reflexivity].
    rewrite (rf_py_eta stm). apply (rf_R_fsr_change d pos0 1 _ y stm _ (pw_dts stm) HR); [reflexivity|].
    cbn [wm_f_set_block wm_f_ts]. symmetry. exact (R_dts _ _ _ _ _ _ HR). }
  clearbody y1.
  unfold py_close in Hcl.
  destruct (rf_sim_close_loop t0 15 1 pre (cs ++ cs1) _ y1 stm st' HSy1 ltac:(lia) ltac:(lia) Hcl) as (cs2 & HS2).
  exists (cs1 ++ cs2). rewrite app_assoc. exact HS2.
Qed.

Lemma rf_sim_ops : forall ops t0 pre cs blks x st s stm st',
  rf_I t0 pre cs blks x st s ->
  py_do_all pd (py_plan small (py_sdf pd) (Z.of_N (wm_f_omit (wm_fx_fsr x))) (rf_script d s ops)) st = PyOk stm ->
  py_close pd stm = PyOk st' ->
  exists cs', rf_S d pos0 t0 16 xs n0 pre (cs ++ cs') (blks ++ rf_blocks d s ops)
                   (wm_fsr_close summ1 summN d (fold_left rf_do ops x)) st'.
Proof.
  induction ops as [|o ops IH]; intros t0 pre cs blks x st s stm st' HI Hpy Hcl.
  - cbn [fold_left]. eapply rf_sim_fsr_close; eauto.
  - destruct (rf_sim_op t0 o ops pre cs blks x st s stm HI Hpy) as (cs1 & blks1 & st1 & s1 & HI1 & Hpy1 & Eb).
    destruct (IH t0 pre (cs ++ cs1) (blks ++ blks1) (rf_do x o) st1 s1 stm st' HI1 Hpy1 Hcl) as (cs2 & HS2).
    exists (cs1 ++ cs2). rewrite app_assoc. cbn [fold_left]. rewrite Eb, app_assoc. exact HS2.
Qed.


(* ---- the state after jls_wr_signal_def: nothing written on the FSR track yet ---- *)
Definition rf_fresh (x : wm_fx) : Prop :=
  rf_bok (wm_fx_base x) /\ rf_tok (wm_b_raw (wm_fx_base x)) (wm_fx_tk x) /\
  wm_tk_type (wm_fx_tk x) = JLS_TRACK_TYPE_FSR /\
  wm_tk_offsets (wm_fx_tk x) = repeat 0 16 /\ wm_ck_offset (wm_tk_data_head (wm_fx_tk x)) = 0 /\
  wm_f_levels (wm_fx_fsr x) = repeat None 16.

Lemma rf_cap_nonneg : forall L, (0 <= py_cap pd L)%Z.
Proof.
  intros L. unfold py_cap, py_epd. change (py_eps pd) with (Z.of_N (sg_eps d)). change (py_spd pd) with (Z.of_N (sg_spd d)).
  change (py_sdf pd) with (Z.of_N (sg_sdf d)). change (py_sumdf pd) with (Z.of_N (sg_sumdf d)).
  destruct L as [|[|L]]; try lia. apply Z_div_nonneg_nonneg; [lia|apply Z_div_nonneg_nonneg; lia].
Qed.

Lemma rf_R_init : forall x, rf_fresh x -> rf_R d pos0 1 [] x (py_init (wm_f_ts (wm_fx_fsr x)) pos0).
Proof.
  intros x (A & B & C & D & E & F).
  constructor; cbn [py_init pw_disk pw_pos pw_lvls pw_heads pw_dts pw_dhead length]; try assumption.
  - rewrite F. reflexivity.
  - lia.
  - constructor.
  - intros L HL. rewrite D. unfold py_head_get. cbn [py_init pw_heads]. rewrite nth_nil_dflt.
    split; [|left; reflexivity]. unfold wm_get_off, rf_psi. cbn [Z.eqb].
    rewrite Nat2N.id. destruct (nth_in_or_default L (repeat 0 16) 0) as [Hin|E0]; [apply repeat_spec in Hin; exact Hin|exact E0].
  - rewrite E. split; [reflexivity|left; reflexivity].
  - intros L HL. unfold wm_f_get_level. rewrite F, Nat2N.id.
    assert (Hn : nth L (repeat (@None wm_flevel) 16) None = None).
    { destruct (nth_in_or_default L (repeat (@None wm_flevel) 16) None) as [Hin|E0]; [apply repeat_spec in Hin; exact Hin|exact E0]. }
    rewrite Hn. unfold py_lvl_get. cbn [py_init pw_lvls]. rewrite nth_nil_dflt.
    unfold rf_lvl_rel. cbn [py_lvl0 pl_idx pl_sum length Z.of_nat]. fold pd.
    split; [apply rf_cap_nonneg|]. split; [change (py_eps pd) with (Z.of_N (sg_eps d)); lia|]. split; reflexivity.
  - reflexivity.
Qed.

Lemma rf_fresh_alloc : forall x sid, rf_fresh x -> rf_fresh (rf_alloc x sid).
Proof. intros x sid H. unfold rf_alloc. destruct (wm_f_alloc (wm_fx_fsr x)); exact H. Qed.

Lemma rf_fresh_omit : forall x o, rf_fresh x -> rf_fresh (wm_fx_set_fsr x (wm_f_set_omit (wm_fx_fsr x) o)).
Proof. intros x o H. exact H. Qed.

(* ---- the whole call sequence ---- *)
Lemma rf_sim_run : forall ops x stm st',
  rf_fresh x -> wm_f_alloc (wm_fx_fsr x) = false -> wm_f_ts (wm_fx_fsr x) = 0%Z -> wm_f_omit (wm_fx_fsr x) < 256 ->
  rf_dl xs n0 [] x ->
  py_do_all pd (py_plan small (py_sdf pd) (Z.of_N (wm_f_omit (wm_fx_fsr x))) (rf_script d rf_bs0 ops)) (py_init (rf_t0 ops) pos0) = PyOk stm ->
  py_close pd stm = PyOk st' ->
  exists cs, rf_S d pos0 (rf_t0 ops) 16 xs n0 (filter (rf_mine d) (rf_out x)) cs (rf_blocks d rf_bs0 ops)
                  (wm_fsr_close summ1 summN d (fold_left rf_do ops x)) st'.
Proof.
  induction ops as [|o ops IH]; intros x stm st' Hfr Hal Hts Hom Hdl0 Hpy Hcl.
  - (* no data at all *)
    cbn [rf_script rf_bs0 bs_alloc py_plan py_do_all rf_t0 rf_blocks fold_left] in *. injection Hpy as <-.
    unfold wm_fsr_close. rewrite Hal, rf_close_levels_eq.
    pose proof (rf_R_init x Hfr) as HR. rewrite Hts in HR.
    assert (HS : rf_S d pos0 0 1 xs n0 (filter (rf_mine d) (rf_out x)) [] [] x (py_init 0 pos0)).
    { split; [exact HR|]. split; [cbn [py_init pw_disk]; constructor|]. split; [reflexivity|exact Hdl0]. }
    unfold py_close in Hcl.
    destruct (rf_sim_close_loop 0%Z 15 1 _ [] [] x _ st' HS ltac:(lia) ltac:(lia) Hcl) as (cs & HS').
    exists cs. exact HS'.
  - destruct o as [sid samples|en].
    + destruct samples as [|s0 sm] eqn:Esm.
      * (* empty call: nothing happens *)
        cbn [rf_script rf_bs_data map app rf_t0 rf_blocks fold_left rf_do] in *.
        assert (Ex : wm_fsr_data summ1 summN d x sid [] = x) by reflexivity.
        rewrite Ex. apply (IH x stm st'); assumption.
      * (* the first samples: the block buffer is allocated with timestamp sid *)
        rewrite <- Esm in *. assert (Hsne : samples <> []) by (rewrite Esm; discriminate).
        assert (Et0 : rf_t0 (RfData sid samples :: ops) = sid) by (rewrite Esm; reflexivity).
        rewrite Et0 in *. clear Esm.
        set (x1 := rf_alloc x sid).
        set (s1 := {| bs_alloc := true; bs_ts := sid; bs_pend := [] |}).
        assert (Hx1f : wm_fx_fsr x1 = wm_f_set_sid0 (wm_f_set_block (wm_fx_fsr x) true sid 0 []) sid).
        { subst x1. unfold rf_alloc. rewrite Hal. reflexivity. }
        assert (Escr : rf_script d rf_bs0 (RfData sid samples :: ops) = rf_script d s1 (RfData sid samples :: ops)).
        { cbn [rf_script]. rewrite !(rf_bs_data_ne _ sid samples Hsne). reflexivity. }
        assert (Eblk : rf_blocks d rf_bs0 (RfData sid samples :: ops) = rf_blocks d s1 (RfData sid samples :: ops)).
        { cbn [rf_blocks]. rewrite !(rf_bs_data_ne _ sid samples Hsne). reflexivity. }
        assert (Edo : fold_left rf_do (RfData sid samples :: ops) x = fold_left rf_do (RfData sid samples :: ops) x1).
        { cbn [fold_left rf_do]. f_equal.
          rewrite (rf_fsr_data_feed summ1 summN d x sid samples Hspd Hfill) by (try exact Hsne; intro X; congruence).
          rewrite (rf_fsr_data_feed summ1 summN d x1 sid samples Hspd Hfill); [| |exact Hsne].
          - assert (E2 : rf_alloc x1 sid = x1) by (unfold rf_alloc; rewrite Hx1f; reflexivity). rewrite E2. reflexivity.
          - intros _. rewrite Hx1f. unfold rf_binv. cbn. split; [reflexivity|exact Hspd]. }
        rewrite Escr in Hpy. rewrite Eblk, Edo.
        assert (HI : rf_I sid (filter (rf_mine d) (rf_out x)) [] [] x1 (py_init sid pos0) s1).
        { split; [|split; [|split]].
          - split; [|split; [cbn [py_init pw_disk]; constructor|split; [subst x1; unfold rf_alloc; rewrite Hal; reflexivity|eapply rf_dl_same; [exact Hdl0|subst x1; unfold rf_alloc; rewrite Hal; reflexivity]]]].
            pose proof (rf_R_init x1 (rf_fresh_alloc x sid Hfr)) as HR. rewrite Hx1f in HR. exact HR.
          - unfold rf_bs_rel. rewrite Hx1f. cbn. split; [reflexivity|]. split; [exact Hom|]. split; [|intro X; discriminate X].
            intros _. split; [reflexivity|]. split; [reflexivity|]. split; [reflexivity|exact Hspd].
          - reflexivity.
          - cbn. lia. }
        assert (Hom1 : wm_f_omit (wm_fx_fsr x1) = wm_f_omit (wm_fx_fsr x)) by (rewrite Hx1f; reflexivity).
        rewrite <- Hom1 in Hpy.
        destruct (rf_sim_ops (RfData sid samples :: ops) sid _ [] [] x1 _ s1 stm st' HI Hpy Hcl) as (cs & HS).
        exists cs. exact HS.
    + (* omit before any data *)
      cbn [rf_script py_plan rf_t0 rf_blocks fold_left rf_do] in *.
      assert (Hreg : Z.of_N (if en =? 0 then 0 else N.lor (wm_f_omit (wm_fx_fsr x)) 1) = py_reg_enable (Z.of_N (wm_f_omit (wm_fx_fsr x))) (negb (en =? 0))
                     /\ (if en =? 0 then 0 else N.lor (wm_f_omit (wm_fx_fsr x)) 1) < 256).
      { destruct (en =? 0); cbn [negb py_reg_enable]; [split; [reflexivity|lia]|]. apply rf_reg_enable. exact Hom. }
      destruct Hreg as (Hreg & Hlt).
      set (x' := wm_fx_set_fsr x (wm_f_set_omit (wm_fx_fsr x) (if en =? 0 then 0 else N.lor (wm_f_omit (wm_fx_fsr x)) 1))).
      destruct (IH x' stm st') as (cs & HS).
      { exact Hfr. } { exact Hal. } { exact Hts. } { exact Hlt. }
      { eapply rf_dl_same; [exact Hdl0|reflexivity]. }
      { subst x'. cbn [wm_fx_fsr wm_fx_set_fsr wm_f_set_omit wm_f_omit]. rewrite Hreg. exact Hpy. }
      { exact Hcl. }
      exists cs. exact HS.
Qed.

End RF_PYR2.

(* ------------------------------------------------------------------ the component-level theorem *)
Lemma rf_guard_idx : forall d, 8 * sg_eps d + 16 < 4294967296 -> 8 * sg_sumdf d + 16 < 4294967296 ->
  forall L, (8 * py_cap (rf_pd d) L + 16 < 4294967296)%Z.
Proof.
  intros d H1 H2 L. unfold py_cap, py_epd, rf_pd. cbn [py_eps py_spd py_sdf py_sumdf].
  destruct L as [|[|L]]; [lia| |lia].
  rewrite <- !N2Z.inj_div.
  assert (sg_eps d / (sg_spd d / sg_sdf d) <= sg_eps d).
  { destruct (N.eq_dec (sg_spd d / sg_sdf d) 0) as [E|E]; [rewrite E; destruct (sg_eps d); cbn; lia|].
    apply N.div_le_upper_bound; [exact E|]. nia. }
  lia.
Qed.

Theorem rf_fsr_refines : forall summ1 summN d pos0 x0 ops st,
  (0 < pos0)%Z -> sg_id d < 256 -> 0 < sg_spd d ->
  (dt_bits (sg_dtype d) < 8 \/ dt_bits (sg_dtype d) mod 8 = 0) ->
  0 < wm_fill_buf_samples (sg_dtype d) ->
  32 * sg_eps d + 16 < 4294967296 -> 8 * sg_sumdf d + 16 < 4294967296 ->
  16 + (sg_spd d * dt_bits (sg_dtype d) + 7) / 8 < 4294967296 ->
  rf_fresh x0 -> wm_fx_fsr x0 = wm_fsr_open ->
  py_srun (rf_pd d) (dt_bits (sg_dtype d) <=? 8) (rf_t0 ops) pos0 (rf_script d rf_bs0 ops) = PyOk st ->
  let x := wm_fsr_close summ1 summN d (fold_left (rf_do summ1 summN d) ops x0) in
  exists cs,
    rf_out x = rev cs ++ rf_out x0 /\
    filter (rf_mine d) (rf_out x) = rev cs ++ filter (rf_mine d) (rf_out x0) /\
    Forall2 (rf_chunk_rel d pos0 (rf_t0 ops) (map rc_off cs) (rf_blocks d rf_bs0 ops)) cs (pw_disk st) /\
    wm_fault (wm_b_raw (wm_fx_base x)) = false /\ rf_bok (wm_fx_base x) /\
    (forall L, (L < 16)%nat ->
       wm_get_off (wm_tk_offsets (wm_fx_tk x)) (N.of_nat L) = rf_psi (map rc_off cs) pos0 (py_head_get st L)).
Proof.
  intros summ1 summN d pos0 x0 ops st Hpos0 Hsid Hspd Hw Hfill Hg1 Hg2 Hg3 Hfr Hopen Hpy x.
  unfold py_srun, py_run in Hpy. destruct (py_div_ok (rf_pd d)); [|discriminate].
  unfold py_bind in Hpy.
  destruct (py_do_all (rf_pd d) (py_plan (dt_bits (sg_dtype d) <=? 8) (py_sdf (rf_pd d)) 0 (rf_script d rf_bs0 ops)) (py_init (rf_t0 ops) pos0)) as [stm|e] eqn:Edo; [|discriminate].
  assert (Hg_idx := rf_guard_idx d ltac:(lia) Hg2).
  assert (Hg_sum : (32 * py_eps (rf_pd d) + 16 < 4294967296)%Z) by (unfold rf_pd; cbn [py_eps]; lia).
  assert (Hal : wm_f_alloc (wm_fx_fsr x0) = false) by (rewrite Hopen; reflexivity).
  assert (Hts : wm_f_ts (wm_fx_fsr x0) = 0%Z) by (rewrite Hopen; reflexivity).
  assert (Hom : wm_f_omit (wm_fx_fsr x0) = 0) by (rewrite Hopen; reflexivity).
  assert (Hdl0 : rf_dl x0 0 [] x0) by (split; [apply rf_ext_refl|split; [apply Nat.le_refl|reflexivity]]).
  destruct (rf_sim_run summ1 summN d pos0 x0 0 Hpos0 Hsid Hg_idx Hg_sum Hspd Hw Hg3 Hfill ops x0 stm st Hfr Hal Hts ltac:(rewrite Hom; lia) Hdl0
              ltac:(rewrite Hom; exact Edo) Hpy) as (cs & HR & HF & Hout & (_ & _ & Hall)).
  exists cs. fold x in HR, HF, Hout, Hall. cbn [skipn] in Hall. split; [exact Hall|]. split; [exact Hout|]. split; [exact HF|].
  destruct HR as [Rbok Rtok Rty Rlvlen Rpos Rnz Rheads Rdhead Rlvls Rdts].
  split; [destruct Rbok as (((_ & _ & Hf) & _) & _); exact Hf|]. split; [exact Rbok|].
  intros L HL. apply Rheads. exact HL.
Qed.

(* ------------------------------------------------------------------ the API calls are rf_do *)
Lemma rf_api_fsr : forall summ1 summN st sig sample_id samples s f,
  wm_signal_validate_typed st sig JLS_SIGNAL_TYPE_FSR = (0, Some s) -> wm_sg_fsr s = Some f ->
  let x' := rf_do summ1 summN (wm_sg_def s) {| wm_fx_base := wm_st_base st; wm_fx_tk := wm_sg_tk_fsr s; wm_fx_fsr := f |} (RfData sample_id samples) in
  wm_api_fsr summ1 summN st sig sample_id samples =
  (wm_put_sig st (wm_fx_base x') (wm_sg_set_fsr s (wm_fx_tk x') (Some (wm_fx_fsr x'))), 0).
Proof. intros summ1 summN st sig sample_id samples s f Hv Hf x'. unfold wm_api_fsr. rewrite Hv, Hf. reflexivity. Qed.

Lemma rf_api_omit : forall summ1 summN st sig en s f,
  wm_signal_validate_typed st sig JLS_SIGNAL_TYPE_FSR = (0, Some s) -> wm_sg_fsr s = Some f ->
  let x' := rf_do summ1 summN (wm_sg_def s) {| wm_fx_base := wm_st_base st; wm_fx_tk := wm_sg_tk_fsr s; wm_fx_fsr := f |} (RfOmit en) in
  wm_api_fsr_omit_data st sig en =
  (wm_put_sig st (wm_fx_base x') (wm_sg_set_fsr s (wm_fx_tk x') (Some (wm_fx_fsr x'))), 0).
Proof. intros summ1 summN st sig en s f Hv Hf x'. unfold wm_api_fsr_omit_data. rewrite Hv, Hf. reflexivity. Qed.
