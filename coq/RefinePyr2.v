(* Refinement glue, FSR pyramid, part 2: whole call sequences.
     rf_op / rf_do      the calls on one FSR signal: jls_wr_fsr_data, jls_wr_fsr_omit_data
     rf_script          the PyramidModel script (py_sop list) of a call sequence: one PsBlk per block handed to
                        wr_data (full blocks cut from the stream, then the pending rest at close), PsOmit per
                        jls_wr_fsr_omit_data call - computed from the calls alone (block state = allocated?,
                        timestamp of the pending block, pending samples)
     rf_fsr_refines     the chunks the byte-exact model appends for the signal = PyramidModel's disk, chunk by chunk
   Definitions + proofs (glue file; nothing here changes a model). *)
From Coq Require Import NArith ZArith List Bool Lia Arith.
From Coq Require Import ZifyBool ZifyN ZifyNat.
From JLS Require Import Generated CrcDefs Spec Format FormatProofs WmRaw WmCore WmFsr WmProofs
  PyramidModel PyramidProofs RefineLog RefineFsr RefinePyr.
Import ListNotations.
Local Open Scope N_scope.

(* ------------------------------------------------------------------ the omit register *)
Lemma rf_reg_shift : forall o, o < 256 ->
  Z.of_N (N.lor (N.shiftl o 1) (N.land o 1) mod 256) = py_reg_shift (Z.of_N o) /\
  N.lor (N.shiftl o 1) (N.land o 1) mod 256 < 256.
Proof.
  intros o Ho.
  assert (H : forallb (fun k => let o := N.of_nat k in
                 (Z.of_N (N.lor (N.shiftl o 1) (N.land o 1) mod 256) =? py_reg_shift (Z.of_N o))%Z) (seq 0 256) = true)
    by (vm_compute; reflexivity).
  rewrite forallb_forall in H. specialize (H (N.to_nat o) ltac:(apply in_seq; lia)). cbv zeta in H.
  rewrite N2Nat.id in H. split; [apply Z.eqb_eq; exact H|]. apply N.mod_lt. discriminate.
Qed.
Lemma rf_reg_enable : forall o, o < 256 -> Z.of_N (N.lor o 1) = py_reg_enable (Z.of_N o) true /\ N.lor o 1 < 256.
Proof.
  intros o Ho.
  assert (H : forallb (fun k => let o := N.of_nat k in
                 (Z.of_N (N.lor o 1) =? py_reg_enable (Z.of_N o) true)%Z && (N.lor o 1 <? 256)) (seq 0 256) = true)
    by (vm_compute; reflexivity).
  rewrite forallb_forall in H. specialize (H (N.to_nat o) ltac:(apply in_seq; lia)). cbv zeta in H.
  rewrite N2Nat.id in H. apply andb_true_iff in H as [H1 H2]. split; [apply Z.eqb_eq; exact H1|apply N.ltb_lt; exact H2].
Qed.

(* ------------------------------------------------------------------ calls and scripts *)
Inductive rf_op := RfData (sid : Z) (samples : list N) | RfOmit (en : N).

(* block state seen from outside: allocated?, timestamp of the pending block, pending samples (oldest first) *)
Record rf_bs := { bs_alloc : bool; bs_ts : Z; bs_pend : list N }.
Definition rf_bs0 : rf_bs := {| bs_alloc := false; bs_ts := 0%Z; bs_pend := [] |}.

Definition rf_const (w : N) (blk : list N) : bool :=
  let data := wm_pack w blk in wm_is_mem_const data (wm_data_const w (hd 0 data)).
Definition rf_sblk (w : N) (blk : list N) : py_sop := PsBlk (Z.of_nat (length blk)) (rf_const w blk).

(* one call: new block state, the blocks handed to wr_data *)
Definition rf_bs_data (d : sigdef) (s : rf_bs) (sid : Z) (samples : list N) : rf_bs * list (list N) :=
  match samples with
  | [] => (s, [])
  | _ =>
    let s1 := if bs_alloc s then s else {| bs_alloc := true; bs_ts := sid; bs_pend := [] |} in
    let next := (bs_ts s1 + Z.of_nat (length (bs_pend s1)))%Z in
    let all := bs_pend s1 ++ rf_extend (sg_dtype d) next sid samples in
    let '(bl, r) := rf_cut (S (length all)) (N.to_nat (sg_spd d)) all in
    ({| bs_alloc := true; bs_ts := (bs_ts s1 + Z.of_nat (length bl) * Z.of_N (sg_spd d))%Z; bs_pend := r |}, bl)
  end.

Fixpoint rf_script (d : sigdef) (s : rf_bs) (ops : list rf_op) : list py_sop :=
  match ops with
  | [] => if bs_alloc s then [rf_sblk (dt_bits (sg_dtype d)) (bs_pend s)] else []
  | RfOmit en :: r => PsOmit (negb (en =? 0)) :: rf_script d s r
  | RfData sid samples :: r =>
    let '(s1, bl) := rf_bs_data d s sid samples in map (rf_sblk (dt_bits (sg_dtype d))) bl ++ rf_script d s1 r
  end.

(* all blocks handed to wr_data, the pending rest at close last (when not empty) *)
Fixpoint rf_blocks (d : sigdef) (s : rf_bs) (ops : list rf_op) : list (list N) :=
  match ops with
  | [] => if bs_alloc s then (match bs_pend s with [] => [] | _ => [bs_pend s] end) else []
  | RfOmit _ :: r => rf_blocks d s r
  | RfData sid samples :: r => let '(s1, bl) := rf_bs_data d s sid samples in bl ++ rf_blocks d s1 r
  end.

(* the first sample id = t0 of PyramidModel *)
Fixpoint rf_t0 (ops : list rf_op) : Z :=
  match ops with
  | [] => 0%Z
  | RfData sid (_ :: _) :: _ => sid
  | _ :: r => rf_t0 r
  end.

Section RF_PYR2.
Variable summ1 : N -> list N -> wm_sentry.
Variable summN : bool -> list wm_sentry -> wm_sentry.
Variable d : sigdef.
Variable pos0 : Z.
Hypothesis Hpos0 : (0 < pos0)%Z.
Let pd := rf_pd d.
Let w := dt_bits (sg_dtype d).
Let small := w <=? 8.
Hypothesis Hsid : sg_id d < 256.
Hypothesis Hg_idx : forall L, (8 * py_cap pd L + 16 < 4294967296)%Z.
Hypothesis Hg_sum : (32 * py_eps pd + 16 < 4294967296)%Z.
Hypothesis Hspd : 0 < sg_spd d.
Hypothesis Hw : w < 8 \/ w mod 8 = 0.
Hypothesis Hg_data : 16 + (sg_spd d * w + 7) / 8 < 4294967296.
Hypothesis Hfill : 0 < wm_fill_buf_samples (sg_dtype d).

Definition rf_do (x : wm_fx) (o : rf_op) : wm_fx :=
  match o with
  | RfData sid samples => wm_fsr_data summ1 summN d x sid samples
  | RfOmit en => let f := wm_fx_fsr x in wm_fx_set_fsr x (wm_f_set_omit f (if en =? 0 then 0 else N.lor (wm_f_omit f) 1))
  end.

(* block state of the model = block state seen from outside *)
Definition rf_bs_rel (x : wm_fx) (s : rf_bs) : Prop :=
  let f := wm_fx_fsr x in
  wm_f_alloc f = bs_alloc s /\ wm_f_omit f < 256 /\
  (bs_alloc s = true -> wm_f_ts f = bs_ts s /\ wm_f_buf f = rev (bs_pend s) /\ rf_binv (sg_spd d) f) /\
  (bs_alloc s = false -> bs_pend s = []).

(* ---- a run of full blocks ---- *)
Lemma rf_req_plan : forall omit blk,
  rf_req d omit blk = (if small then rf_const w blk && (Z.of_nat (length blk) mod py_sdf pd =? 0)%Z else (1 <? Z.of_N omit)%Z).
Proof.
  intros omit blk. unfold rf_req, rf_const. fold w. fold small. destruct small.
  - f_equal. change (py_sdf pd) with (Z.of_N (sg_sdf d)). unfold rf_len.
    rewrite <- nat_N_Z, <- N2Z.inj_mod.
    destruct (N.eqb_spec (N.of_nat (length blk) mod sg_sdf d) 0) as [E|E]; [rewrite E; reflexivity|].
    destruct (Z.eqb_spec (Z.of_N (N.of_nat (length blk) mod sg_sdf d)) 0); [lia|reflexivity].
  - destruct (N.ltb_spec 1 omit); destruct (Z.ltb_spec 1 (Z.of_N omit)); try reflexivity; lia.
Qed.

Lemma rf_sim_blocks : forall t0 bl rest pre cs blks x st st',
  rf_S d pos0 t0 1 pre cs blks x st ->
  Forall (fun b => length b = N.to_nat (sg_spd d)) bl ->
  pw_dts st = (t0 + py_spd pd * Z.of_nat (length blks))%Z ->
  wm_f_omit (wm_fx_fsr x) < 256 ->
  py_do_all pd (py_plan small (py_sdf pd) (Z.of_N (wm_f_omit (wm_fx_fsr x))) (map (rf_sblk w) bl ++ rest)) st = PyOk st' ->
  let x1 := fold_left (rf_flush summ1 summN d) bl x in
  exists cs' st1,
    rf_S d pos0 t0 1 pre (cs ++ cs') (blks ++ bl) x1 st1 /\
    pw_dts st1 = (t0 + py_spd pd * Z.of_nat (length (blks ++ bl)))%Z /\
    wm_f_omit (wm_fx_fsr x1) < 256 /\
    py_do_all pd (py_plan small (py_sdf pd) (Z.of_N (wm_f_omit (wm_fx_fsr x1))) rest) st1 = PyOk st'.
Proof.
  intros t0 bl. induction bl as [|b bl IH]; intros rest pre cs blks x st st' HS Hfull Hdts Hom Hpy x1.
  - exists [], st. rewrite !app_nil_r. subst x1. cbn [fold_left]. cbn [map app] in Hpy. split; [exact HS|]. split; [exact Hdts|]. split; [exact Hom|exact Hpy].
  - inversion Hfull as [|? ? Hb Hbl]; subst.
    assert (Hbne : b <> []) by (intro E; subst b; cbn in Hb; lia).
    assert (Hblen : rf_len b <= sg_spd d) by (unfold rf_len; lia).
    cbn [map app py_plan rf_sblk] in Hpy.
    destruct (Z.eqb_spec (Z.of_nat (length b)) 0) as [E|_]; [lia|].
    cbn [py_do_all py_do] in Hpy. unfold py_bind in Hpy at 1.
    rewrite <- rf_req_plan in Hpy.
    destruct (py_wr_data pd (Z.of_nat (length b)) (rf_req d (wm_f_omit (wm_fx_fsr x)) b) st) as [st1|e] eqn:Ewd; [|discriminate].
    destruct (rf_sim_flush summ1 summN d pos0 t0 1 Hpos0 Hsid Hg_idx Hg_sum Hspd Hw Hg_data ltac:(lia) pre cs blks x st b st1 HS Hbne Hblen Hdts Ewd)
      as (cs1 & HS1 & Hdts1).
    destruct (rf_flush_blk summ1 summN d x b Hbne) as (_ & _ & _ & _ & _ & Eom).
    destruct (rf_reg_shift _ Hom) as (Esh & Hom1).
    rewrite <- Esh, <- Eom in Hpy.
    destruct (IH rest pre (cs ++ cs1) (blks ++ [b]) _ st1 st' HS1 Hbl Hdts1 ltac:(rewrite Eom; exact Hom1) Hpy) as (cs2 & st2 & HS2 & Hdts2 & Hom2 & Hpy2).
    exists (cs1 ++ cs2), st2. subst x1. cbn [fold_left].
    rewrite app_assoc. replace (blks ++ b :: bl) with ((blks ++ [b]) ++ bl) by (rewrite <- app_assoc; reflexivity).
    split; [exact HS2|]. split; [exact Hdts2|]. split; [exact Hom2|exact Hpy2].
Qed.


(* ---- close: summary_close for levels 1 .. 15 ---- *)
Lemma rf_R_weaken : forall lo lo' offs x st, (lo <= lo')%nat -> rf_R d pos0 lo offs x st -> rf_R d pos0 lo' offs x st.
Proof.
  intros lo lo' offs x st Hle [Rbok Rtok Rty Rlvlen Rpos Rnz Rheads Rdhead Rlvls Rdts].
  constructor; try assumption. intros L HL. apply Rlvls. lia.
Qed.
Lemma rf_S_weaken : forall t0 lo lo' pre cs blks x st, (lo <= lo')%nat -> rf_S d pos0 t0 lo pre cs blks x st -> rf_S d pos0 t0 lo' pre cs blks x st.
Proof. intros t0 lo lo' pre cs blks x st Hle (A & B & C). split; [eapply rf_R_weaken; eauto|]. split; assumption. Qed.

Lemma rf_py_wr_summary_empty : forall k L st, pl_idx (py_lvl_get st L) = [] -> pl_sum (py_lvl_get st L) = 0%Z ->
  py_wr_summary (S k) pd L st = PyOk st.
Proof. intros k L st Hi Hs. cbn [py_wr_summary]. rewrite Hi, Hs. reflexivity. Qed.

Lemma rf_sim_close_level_gen : forall wfuel t0 L pre cs blks x st st', (16 <= wfuel)%nat ->
  rf_S d pos0 t0 L pre cs blks x st -> (1 <= L <= 15)%nat ->
  py_wr_summary (16 - L) pd L st = PyOk st' ->
  exists cs', rf_S d pos0 t0 (S L) pre (cs ++ cs') blks
    (match wm_f_get_level (wm_fx_fsr x) (N.of_nat L) with
     | None => x
     | Some _ => let x1 := wm_fsr_wr_summary summN wfuel d (N.of_nat L) x in
                 wm_fx_set_fsr x1 (wm_f_set_level (wm_fx_fsr x1) (N.of_nat L) None)
     end) st'.
Proof.
  intros wfuel t0 L pre cs blks x st st' Hwf HS HL Hpy.
  pose proof HS as (HR & HF & Hout).
  destruct (wm_f_get_level (wm_fx_fsr x) (N.of_nat L)) as [lv|] eqn:Elv.
  - destruct (rf_sim_wr_summary summ1 summN d pos0 t0 L Hpos0 Hsid Hg_idx Hg_sum (16 - L) L wfuel pre cs blks x st st' lv HS
               ltac:(lia) ltac:(lia) eq_refl ltac:(lia) Elv Hpy) as (cs' & HS').
    exists cs'. cbv zeta. set (x1 := wm_fsr_wr_summary summN wfuel d (N.of_nat L) x) in *. clearbody x1.
    destruct HS' as (HR' & HF' & Hout').
    split; [|split; [exact HF'|unfold rf_out in *; cbn [wm_fx_set_fsr wm_fx_base]; exact Hout']].
    destruct HR' as [Rbok Rtok Rty Rlvlen Rpos Rnz Rheads Rdhead Rlvls Rdts].
    constructor; cbn [wm_fx_base wm_fx_tk wm_fx_fsr wm_fx_set_fsr]; try assumption.
    + rewrite rf_set_level_len. exact Rlvlen.
    + intros M HM. rewrite rf_get_set_level_neq by lia. apply Rlvls. lia.
  - exists []. rewrite app_nil_r.
    pose proof (R_lvls _ _ _ _ _ _ HR L ltac:(lia)) as Hrel. rewrite Elv in Hrel. destruct Hrel as (_ & _ & C & D).
    replace (16 - L)%nat with (S (15 - L)) in Hpy by lia.
    rewrite rf_py_wr_summary_empty in Hpy by (try exact D; apply C; exact D). injection Hpy as <-.
    apply (rf_S_weaken t0 L); [lia|exact HS].
Qed.

Lemma rf_sim_close_level : forall t0 L pre cs blks x st st',
  rf_S d pos0 t0 L pre cs blks x st -> (1 <= L <= 15)%nat ->
  py_wr_summary (16 - L) pd L st = PyOk st' ->
  exists cs', rf_S d pos0 t0 (S L) pre (cs ++ cs') blks (wm_fsr_summary_close summN d x (N.of_nat L)) st'.
Proof.
  intros t0 L pre cs blks x st st' HS HL Hpy.
  exact (rf_sim_close_level_gen wm_level_count t0 L pre cs blks x st st' (Nat.le_refl 16) HS HL Hpy).
Qed.

Lemma rf_sim_close_loop : forall t0 k L pre cs blks x st st',
  rf_S d pos0 t0 L pre cs blks x st -> (1 <= L)%nat -> (L + k = 16)%nat ->
  py_close_loop k pd L st = PyOk st' ->
  exists cs', rf_S d pos0 t0 16 pre (cs ++ cs') blks
                   (fold_left (wm_fsr_summary_close summN d) (map N.of_nat (seq L k)) x) st'.
Proof.
  intros t0 k. induction k as [|k IH]; intros L pre cs blks x st st' HS HL Hk Hpy.
  - cbn in Hpy. injection Hpy as <-. exists []. rewrite app_nil_r. cbn [seq map fold_left].
    replace L with 16%nat in HS by lia. exact HS.
  - cbn [py_close_loop] in Hpy. unfold py_bind in Hpy.
    destruct (py_wr_summary (16 - L) pd L st) as [st1|e] eqn:E1; [|discriminate].
    destruct (rf_sim_close_level t0 L pre cs blks x st st1 HS ltac:(lia) E1) as (cs1 & HS1).
    destruct (IH (S L) pre (cs ++ cs1) blks _ st1 st' HS1 ltac:(lia) ltac:(lia) Hpy) as (cs2 & HS2).
    exists (cs1 ++ cs2). rewrite app_assoc. cbn [seq map fold_left]. exact HS2.
Qed.

End RF_PYR2.
