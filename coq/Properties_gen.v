(* Theorems stated directly on the GENERATED models (GenMrb.v, GenCore.v: written by
   tools/c2gallina.py from /repo's current msg_ring_buffer.c and core.c on every run; helper
   definitions in GenLib.v).  Two kinds:
     *_is_model   the generated function equals the hand-written model function (MrbModel.v,
                  SigDef.v) on every input of the stated representation - so every theorem about
                  the hand model is a theorem about what the C says now;
     C08_gen_* / C16_gen_*   headline theorems of C08 / C16 restated on the generated functions.
   Also: payload_size_on_disk of raw.c (C05/C14 framing arithmetic, Format.v) and the binary search of
   interp_i64 of tmap.c (C12, TmapModel.search) - GenRaw.v, GenTmap.v.
   The omit-register shift of wr_data (wr_fsr.c, C15) and the step-size computation of
   jls_core_fsr_seek (core.c, C01) are fragments: GenFsr.v, GenCore.v against PyramidModel.v.
   Proofs: GenMrbEq.v, GenSigDefEq.v, GenRawEq.v, GenTmapEq.v, GenFsrEq.v, GenSeekEq.v.

   Representation (GenMrbEq.v).  s_of g m is the hand state whose fields are those of the C struct
   g and whose array is m; g_of s the struct of a hand state (buf = pointer to offset 0 of the
   array).  bytes m: every element < 256.  r_alloc / r_msg map results: Ok (s', None) = NULL,
   Ok (s', Some p) = pointer buf + p, faults constructor by constructor.
   Representation (GenSigDefEq.v).  d_of g = the six storage parameters of the C struct g,
   width g = (data_type >> 8) & 0xff, put g d = g with the six parameters replaced. *)
From Coq Require Import NArith ZArith List.
From JLS Require Import Generated GenLib GenMrb GenCore GenRaw GenTmap GenFsr MrbModel SigDef SigDefProofs Format
  TmapModel PyramidModel GenMrbEq GenSigDefEq GenRawEq GenTmapEq GenFsrEq GenSeekEq.
Import ListNotations.
Local Open Scope N_scope.

(* ====================== C08: msg_ring_buffer.c ====================== *)

(* --- the generated functions are the hand model's functions --- *)
Theorem C08_gen_init_is_model : forall (m : list N) (g0 : jls_mrb_s) (B : N), MrbModel.len m = B ->
  jls_mrb_init m g0 (Ptr 0) B = GenLib.Ok (g_of (init B), buf (init B)).
Proof. exact gen_init_eq. Qed.
Print Assumptions C08_gen_init_is_model.

Theorem C08_gen_clear_is_model : forall s : mrb, MrbModel.len (buf s) = size s ->
  jls_mrb_clear (buf s) (g_of s) = GenLib.Ok (g_of (clear s), buf (clear s)).
Proof. exact gen_clear_eq. Qed.
Print Assumptions C08_gen_clear_is_model.

(* the function of the current source is MrbModel.alloc_fixed ... *)
Theorem C08_gen_alloc_is_model : forall (s : mrb) (sz : N),
  MrbModel.len (buf s) = size s -> size s < 4294967296 ->
  jls_mrb_alloc (buf s) (g_of s) sz = r_alloc (alloc_fixed s sz).
Proof. exact gen_alloc_eq. Qed.
Print Assumptions C08_gen_alloc_is_model.

(* ... and not MrbModel.alloc (the function before the fix): capacity 100, 98 bytes *)
Theorem C08_gen_alloc_is_not_old_model :
  jls_mrb_alloc (buf (init 100)) (g_of (init 100)) 98 <> r_alloc (alloc (init 100) 98) /\
  jls_mrb_alloc (buf (init 100)) (g_of (init 100)) 98 = GenLib.Ok (Null, g_of (init 100), buf (init 100)).
Proof. exact gen_alloc_ne_alloc_old. Qed.
Print Assumptions C08_gen_alloc_is_not_old_model.

Theorem C08_gen_peek_is_model : forall (s : mrb) (z0 : N),
  MrbModel.len (buf s) = size s -> Forall (fun b => b < 256) (buf s) ->
  jls_mrb_peek (buf s) (g_of s) z0 = r_msg (peek s).
Proof. exact gen_peek_eq. Qed.
Print Assumptions C08_gen_peek_is_model.

Theorem C08_gen_pop_is_model : forall (s : mrb) (z0 : N),
  (MrbModel.len (buf s) = size s /\ size s < 4294967296 /\ head s < 4294967296 /\ tail s < 4294967296 /\
   count s < 4294967296 /\ Forall (fun b => b < 256) (buf s)) ->
  jls_mrb_pop (buf s) (g_of s) z0 = r_msg (pop s).
Proof. exact gen_pop_eq. Qed.
Print Assumptions C08_gen_pop_is_model.

(* --- alloc refines "append to the FIFO" (C08_alloc_fixed_refines) on the generated function --- *)
Theorem C08_gen_alloc_refines :
  forall (self : jls_mrb_s) (mem : list N) (sz p : N) (self' : jls_mrb_s) (mem' d : list N),
  self.(jls_mrb_s_buf) = Ptr 0 -> MInv (s_of self mem) ->
  jls_mrb_alloc mem self sz = GenLib.Ok (Ptr p, self', mem') -> MrbModel.len d = sz ->
  self'.(jls_mrb_s_buf) = Ptr 0 /\ self'.(jls_mrb_s_buf_size) = self.(jls_mrb_s_buf_size) /\
  MInv (s_of self' mem') /\
  (exists s'', fill (s_of self' mem') p d = MrbModel.Ok s'' /\ MInv s'' /\ size s'' = self.(jls_mrb_s_buf_size) /\
               mrb_abs s'' = mrb_abs (s_of self mem) ++ [d]) /\
  4 <= p /\ p + sz <= self.(jls_mrb_s_buf_size) /\ disjoint_from_live (s_of self mem) p sz.
Proof. exact gen_alloc_refines. Qed.
Print Assumptions C08_gen_alloc_refines.

(* a NULL return changes nothing and means "does not fit" (C08_alloc_fixed_fail_sound) *)
Theorem C08_gen_alloc_null_sound :
  forall (self : jls_mrb_s) (mem : list N) (sz : N) (self' : jls_mrb_s) (mem' : list N),
  self.(jls_mrb_s_buf) = Ptr 0 -> MInv (s_of self mem) ->
  jls_mrb_alloc mem self sz = GenLib.Ok (Null, self', mem') ->
  self' = self /\ mem' = mem /\ ~ fits (s_of self mem) sz.
Proof. exact gen_alloc_null_sound. Qed.
Print Assumptions C08_gen_alloc_null_sound.

(* in a state of the invariant the generated alloc never leaves the array, for any size *)
Theorem C08_gen_alloc_no_fault : forall (self : jls_mrb_s) (mem : list N) (sz : N),
  self.(jls_mrb_s_buf) = Ptr 0 -> MInv (s_of self mem) ->
  exists r, jls_mrb_alloc mem self sz = GenLib.Ok r.
Proof. exact gen_alloc_no_fault. Qed.
Print Assumptions C08_gen_alloc_no_fault.

(* peek / pop return the head of the FIFO with its size and bytes (C08_peek_refines, C08_pop_refines) *)
Theorem C08_gen_peek_refines : forall (self : jls_mrb_s) (mem : list N) (z0 : N),
  self.(jls_mrb_s_buf) = Ptr 0 -> MInv (s_of self mem) -> Forall (fun b => b < 256) mem ->
  match mrb_abs (s_of self mem) with
  | [] => jls_mrb_peek mem self z0 = GenLib.Ok (Null, self, 0, mem)
  | m :: _ => exists self' mem' p,
      jls_mrb_peek mem self z0 = GenLib.Ok (Ptr p, self', MrbModel.len m, mem') /\
      self'.(jls_mrb_s_buf) = Ptr 0 /\ self'.(jls_mrb_s_buf_size) = self.(jls_mrb_s_buf_size) /\
      read_msg (s_of self' mem') p (MrbModel.len m) = MrbModel.Ok m /\
      MInv (s_of self' mem') /\ mrb_abs (s_of self' mem') = mrb_abs (s_of self mem)
  end.
Proof. exact gen_peek_refines. Qed.
Print Assumptions C08_gen_peek_refines.

Theorem C08_gen_pop_refines : forall (self : jls_mrb_s) (mem : list N) (z0 : N),
  self.(jls_mrb_s_buf) = Ptr 0 -> MInv (s_of self mem) -> Forall (fun b => b < 256) mem ->
  match mrb_abs (s_of self mem) with
  | [] => jls_mrb_pop mem self z0 = GenLib.Ok (Null, self, 0, mem)
  | m :: q => exists self' mem' p,
      jls_mrb_pop mem self z0 = GenLib.Ok (Ptr p, self', MrbModel.len m, mem') /\
      self'.(jls_mrb_s_buf) = Ptr 0 /\ self'.(jls_mrb_s_buf_size) = self.(jls_mrb_s_buf_size) /\
      read_msg (s_of self' mem') p (MrbModel.len m) = MrbModel.Ok m /\
      MInv (s_of self' mem') /\ mrb_abs (s_of self' mem') = q
  end.
Proof. exact gen_pop_refines. Qed.
Print Assumptions C08_gen_pop_refines.

(* every operation sequence from the generated jls_mrb_init, run through the generated alloc / peek /
   pop (gen_run: the driver of MrbModel.run with the three functions replaced; messages are bytes):
   no fault, the invariant holds, the outputs are those of a FIFO (C08_reachable_inv_fixed) *)
Theorem C08_gen_reachable_inv : forall (B : N) (ops : list op) (mem0 : list N) (g0 : jls_mrb_s),
  B <= 2147483648 -> MrbModel.len mem0 = B ->
  Forall (fun o => match o with OAlloc d => Forall (fun b => b < 256) d | _ => True end) ops ->
  exists g m outs,
    GenLib.bind (jls_mrb_init mem0 g0 (Ptr 0) B) (fun '(g1, m1) => gen_run g1 m1 ops) = GenLib.Ok (g, m, outs) /\
    g.(jls_mrb_s_buf) = Ptr 0 /\ g.(jls_mrb_s_buf_size) = B /\ MInv (s_of g m) /\
    fifo [] ops outs = Some (mrb_abs (s_of g m)).
Proof. exact gen_reachable_inv. Qed.
Print Assumptions C08_gen_reachable_inv.

(* the whole-program driver on the generated functions is the hand model's, run for run *)
Theorem C08_gen_run_is_model : forall (ops : list op) (s : mrb),
  MInv s -> Forall (fun b => b < 256) (buf s) ->
  Forall (fun o => match o with OAlloc d => Forall (fun b => b < 256) d | _ => True end) ops ->
  gen_run (g_of s) (buf s) ops = r_run (run alloc_fixed s ops).
Proof. exact gen_run_eq. Qed.
Print Assumptions C08_gen_run_is_model.

(* the hypotheses are satisfiable: a wrapped queue of capacity 48 holding three messages *)
Example C08_gen_ex : exists (self : jls_mrb_s) (mem : list N),
  self.(jls_mrb_s_buf) = Ptr 0 /\ MInv (s_of self mem) /\ Forall (fun b => b < 256) mem /\
  self.(jls_mrb_s_buf_size) = 48 /\ self.(jls_mrb_s_head) = 6 /\ self.(jls_mrb_s_tail) = 14 /\
  mrb_abs (s_of self mem) = [repeat 2 10; repeat 3 10; repeat 4 2] /\
  (exists self' mem', jls_mrb_alloc mem self 1 = GenLib.Ok (Ptr 10, self', mem')) /\
  jls_mrb_alloc mem self 3 = GenLib.Ok (Null, self, mem).
Proof. exact gen_ex_state. Qed.
Print Assumptions C08_gen_ex.

(* ====================== C16: core.c, signal definition normalisation ====================== *)

(* --- the generated functions are the hand model's functions --- *)
Theorem C16_gen_round_up_is_model : forall x m y : N, x < 4294967296 -> m < 4294967296 ->
  round_up_to_multiple x m y =
  match sd_round_up x m with
  | SdOk v => GenLib.Ok (0%Z, v)
  | SdErr rc => GenLib.Ok (Z.of_N rc, y)
  | SdFault _ => GenLib.Fault Div_zero
  end.
Proof. exact gen_round_up_eq. Qed.
Print Assumptions C16_gen_round_up_is_model.

Theorem C16_gen_defaults_is_model : forall g : jls_signal_def_s,
  signal_def_defaults g = put g (sd_defaults (width g) (d_of g)).
Proof. exact gen_defaults_eq. Qed.
Print Assumptions C16_gen_defaults_is_model.

Theorem C16_gen_validate_is_model : forall g : jls_signal_def_s,
  jls_core_signal_def_validate g =
  Z.of_N (sd_validate g.(jls_signal_def_s_signal_id) g.(jls_signal_def_s_source_id)
                      g.(jls_signal_def_s_signal_type) g.(jls_signal_def_s_data_type)).
Proof. exact gen_validate_eq. Qed.
Print Assumptions C16_gen_validate_is_model.

(* the while loop: with ANY fuel of at least 2^32 the generated loop is the hand model's loop with the
   hand model's fuel (entries_per_data), which never runs out (C16_loop_never_nonterm) *)
Theorem C16_gen_loop_is_model : forall (fuel : nat) (e epd : N), e < 4294967296 -> epd < 4294967296 ->
  (N.to_nat 4294967296 <= fuel)%nat ->
  jls_core_signal_def_align'loop1 fuel e epd =
  match sd_fit_loop (N.to_nat epd) e epd with
  | SdOk k => GenLib.Ok k
  | SdErr _ => GenLib.Fault Fell_off_end
  | SdFault SdDivZero => GenLib.Fault Div_zero
  | SdFault SdNonterm => GenLib.Fault Out_of_fuel
  end.
Proof. exact gen_loop_fuel. Qed.
Print Assumptions C16_gen_loop_is_model.

Theorem C16_gen_align_is_model : forall (fuel : nat) (g : jls_signal_def_s),
  (spd (d_of g) < 2 ^ 32 /\ sdf (d_of g) < 2 ^ 32 /\ eps (d_of g) < 2 ^ 32 /\ sumdf (d_of g) < 2 ^ 32 /\
   sd_anno (d_of g) < 2 ^ 32 /\ sd_utc (d_of g) < 2 ^ 32) ->
  (N.to_nat 4294967296 <= fuel)%nat ->
  jls_core_signal_def_align fuel g =
  match sd_align (width g) (d_of g) with
  | SdOk d' => GenLib.Ok (0%Z, put g d')
  | SdErr rc => GenLib.Ok (Z.of_N rc, put g (sd_defaults (width g) (d_of g)))
  | SdFault SdDivZero => GenLib.Fault Div_zero
  | SdFault SdNonterm => GenLib.Fault Out_of_fuel
  end.
Proof. exact gen_align_eq. Qed.
Print Assumptions C16_gen_align_is_model.

(* --- THE PROPERTY (C16_align_total) on the generated jls_core_signal_def_align: for every width, every
   32-bit input and every fuel >= 2^32 it returns - no fault, fuel never exhausted - either
   JLS_ERROR_PARAMETER_INVALID, or 0 with only the six storage parameters changed, consistent, within
   uint32_t and within the buffer-size limits --- *)
Theorem C16_gen_align_total : forall (fuel : nat) (g : jls_signal_def_s),
  In (width g) [1; 4; 8; 16; 24; 32; 64] ->
  (spd (d_of g) < 2 ^ 32 /\ sdf (d_of g) < 2 ^ 32 /\ eps (d_of g) < 2 ^ 32 /\ sumdf (d_of g) < 2 ^ 32 /\
   sd_anno (d_of g) < 2 ^ 32 /\ sd_utc (d_of g) < 2 ^ 32) ->
  (N.to_nat 4294967296 <= fuel)%nat ->
  (exists g', jls_core_signal_def_align fuel g = GenLib.Ok (0%Z, g') /\ g' = put g (d_of g') /\
     (let w := width g in let d' := d_of g' in
       (sdf d' * w) mod 8 = 0 /\
       (sdf d' * w) mod (SAMPLE_SIZE_BYTES_MAX * 8) = 0 /\
       (sdf d' <> 0 /\ spd d' mod sdf d' = 0) /\
       (spd d' / sdf d' <> 0 /\ eps d' mod (spd d' / sdf d') = 0) /\
       (sumdf d' <> 0 /\ eps d' mod sumdf d' = 0) /\
       SAMPLES_PER_DATA_MIN <= spd d' /\ SAMPLE_DECIMATE_FACTOR_MIN <= sdf d' /\
       ENTRIES_PER_SUMMARY_MIN <= eps d' /\ SUMMARY_DECIMATE_FACTOR_MIN <= sumdf d' /\
       SUMMARY_DECIMATE_FACTOR_MIN <= sd_anno d' /\ SUMMARY_DECIMATE_FACTOR_MIN <= sd_utc d') /\
     (spd (d_of g') < 2 ^ 32 /\ sdf (d_of g') < 2 ^ 32 /\ eps (d_of g') < 2 ^ 32 /\ sumdf (d_of g') < 2 ^ 32 /\
      sd_anno (d_of g') < 2 ^ 32 /\ sd_utc (d_of g') < 2 ^ 32) /\
     (spd (d_of g') * width g / 8 <= (2 ^ 32 - 1) / 2 /\
      eps (d_of g') * JLS_SUMMARY_FSR_COUNT * SD_SIZEOF_DOUBLE <= (2 ^ 32 - 1) / 2)) \/
  (exists g', jls_core_signal_def_align fuel g = GenLib.Ok (5%Z, g') /\
              g' = put g (sd_defaults (width g) (d_of g))).
Proof. exact gen_align_total. Qed.
Print Assumptions C16_gen_align_total.

(* whatever is stored is stored again unchanged (C16_align_idem) *)
Theorem C16_gen_align_idem : forall (fuel : nat) (g g' : jls_signal_def_s),
  In (width g) [1; 4; 8; 16; 24; 32; 64] ->
  (spd (d_of g) < 2 ^ 32 /\ sdf (d_of g) < 2 ^ 32 /\ eps (d_of g) < 2 ^ 32 /\ sumdf (d_of g) < 2 ^ 32 /\
   sd_anno (d_of g) < 2 ^ 32 /\ sd_utc (d_of g) < 2 ^ 32) ->
  (N.to_nat 4294967296 <= fuel)%nat ->
  jls_core_signal_def_align fuel g = GenLib.Ok (0%Z, g') ->
  jls_core_signal_def_align fuel g' = GenLib.Ok (0%Z, g').
Proof. exact gen_align_idem. Qed.
Print Assumptions C16_gen_align_idem.

(* a definition accepted by the generated validate has one of the 7 widths (C16_validate_width) *)
Theorem C16_gen_validate_width : forall g : jls_signal_def_s,
  jls_core_signal_def_validate g = 0%Z -> In (width g) [1; 4; 8; 16; 24; 32; 64].
Proof. exact gen_validate_width. Qed.
Print Assumptions C16_gen_validate_width.

(* the hypotheses are satisfiable and the generated function computes: f32, all parameters 0 ->
   the defaults; 24-bit, odd parameters -> rounded (C16_align_examples) *)
Example C16_gen_ex :
  let g0 := mk_jls_signal_def_s 1 1 0 0 JLS_DATATYPE_F32 1000 0 0 0 0 0 0 0 Null Null in
  let g1 := mk_jls_signal_def_s 2 1 0 0 JLS_DATATYPE_I24 1000 100 11 100 10 5 5 0 Null Null in
  jls_core_signal_def_validate g0 = 0%Z /\ In (width g0) [1; 4; 8; 16; 24; 32; 64] /\
  (spd (d_of g0) < 2 ^ 32 /\ sdf (d_of g0) < 2 ^ 32 /\ eps (d_of g0) < 2 ^ 32 /\ sumdf (d_of g0) < 2 ^ 32 /\
   sd_anno (d_of g0) < 2 ^ 32 /\ sd_utc (d_of g0) < 2 ^ 32) /\
  (N.to_nat 4294967296 <= N.to_nat 4294967296)%nat /\
  jls_core_signal_def_align 100 g0 = GenLib.Ok (0%Z, put g0 (mkSigDef 8192 128 640 20 100 100)) /\
  jls_core_signal_def_align 100 g1 = GenLib.Ok (0%Z, put g1 (mkSigDef 128 32 100 10 10 10)).
Proof. exact gen_sd_ex. Qed.
Print Assumptions C16_gen_ex.

(* ====================== C05 / C14: raw.c, bytes a payload occupies on disk ====================== *)
(* the generated payload_size_on_disk is Format.fm_disk_len (payload + zero padding to 8k - 4 + CRC),
   computed in uint32_t ... *)
Theorem C05_gen_payload_size_on_disk_is_model : forall pl : N, pl < 4294967296 ->
  payload_size_on_disk pl = GenLib.Ok (GenLib.u32 (fm_disk_len pl)).
Proof. exact gen_payload_size_on_disk_eq. Qed.
Print Assumptions C05_gen_payload_size_on_disk_is_model.

(* ... hence exactly fm_disk_len (and header + that = fm_chunk_size) for every payload below 2^32 - 11 *)
Theorem C05_gen_payload_size_on_disk_exact : forall pl : N, pl + 11 < 4294967296 ->
  payload_size_on_disk pl = GenLib.Ok (fm_disk_len pl) /\
  (pl <> 0 -> GenLib.Ok (SIZEOF_chunk_header + fm_disk_len pl) = GenLib.Ok (A := N) (fm_chunk_size pl)).
Proof. exact gen_payload_size_on_disk_exact. Qed.
Print Assumptions C05_gen_payload_size_on_disk_exact.

(* ====================== C12: tmap.c, the binary search of interp_i64 ====================== *)
(* the generated search (statements of interp_i64 up to the clamp; x = the entries_length valid
   elements) returns what TmapModel.search returns - no read at or beyond entries_length, fuel never
   exhausted - for every list of at least 2 elements and every fuel >= entries_length *)
Theorem C12_gen_tmap_search_is_model : forall (fuel : nat) (g : jls_tmap_s) (xs : list Z) (x0 : Z),
  g.(jls_tmap_s_entries_length) = N.of_nat (length xs) -> (2 <= length xs)%nat ->
  N.of_nat (length xs) < 9223372036854775808 -> (length xs <= fuel)%nat ->
  exists c, search xs x0 = TmOk c /\ interp_i64'search fuel g x0 xs = GenLib.Ok (N.of_nat c) /\
            (c + 2 <= length xs)%nat.
Proof. exact gen_search_eq. Qed.
Print Assumptions C12_gen_tmap_search_is_model.

(* ====================== C15: wr_fsr.c, the omit register ====================== *)
(* the statement `write_omit_data = (write_omit_data << 1) | (write_omit_data & 1)` (uint8_t) at the end
   of wr_data is PyramidModel.py_reg_shift - and the expression WmFsr.v uses *)
Theorem C15_gen_omit_shift_is_model : forall g : jls_core_fsr_s,
  g.(jls_core_fsr_s_write_omit_data) < 256 ->
  wr_data'omit_shift g =
  GenLib.Ok (set_jls_core_fsr_s_write_omit_data g (Z.to_N (py_reg_shift (Z.of_N g.(jls_core_fsr_s_write_omit_data))))).
Proof. exact gen_omit_shift_eq. Qed.
Print Assumptions C15_gen_omit_shift_is_model.

Theorem C15_gen_omit_shift_N : forall g : jls_core_fsr_s,
  g.(jls_core_fsr_s_write_omit_data) < 256 ->
  wr_data'omit_shift g =
  GenLib.Ok (set_jls_core_fsr_s_write_omit_data g
        (N.lor (N.shiftl g.(jls_core_fsr_s_write_omit_data) 1) (N.land g.(jls_core_fsr_s_write_omit_data) 1) mod 256)).
Proof. exact gen_omit_shift_N. Qed.
Print Assumptions C15_gen_omit_shift_N.

(* ====================== C01: core.c, step size of jls_core_fsr_seek ====================== *)
(* whenever the generated step-size fragment returns (no division by zero, no int64 overflow) it
   returns PyramidModel.py_step ... *)
Theorem C01_gen_seek_step_sound : forall (fuel : nat) (g : GenCore.jls_signal_def_s) (lvl v : Z), (0 <= lvl)%Z ->
  jls_core_fsr_seek'step_size fuel g lvl = GenLib.Ok v -> v = py_step (dpy g) (Z.to_nat lvl).
Proof. exact gen_step_sound. Qed.
Print Assumptions C01_gen_seek_step_sound.

(* ... and it does return for levels 0..15 and fuel >= 16 when the divisors are non-zero and every
   intermediate product is below 2^63 *)
Theorem C01_gen_seek_step_total : forall (fuel : nat) (g : GenCore.jls_signal_def_s) (lvl : Z),
  (0 <= lvl < 16)%Z -> (16 <= fuel)%nat ->
  GenCore.jls_signal_def_s_sample_decimate_factor g <> 0 ->
  GenCore.jls_signal_def_s_samples_per_data g / GenCore.jls_signal_def_s_sample_decimate_factor g <> 0 ->
  (let d := dpy g in let lv := Z.to_nat lvl in
   let s1 := if (1 <? lv)%nat then (py_spd d * (py_eps d / (py_spd d / py_sdf d)))%Z else py_spd d in
   forall n, (n <= lv - 2)%nat -> (py_mul_loop n (py_sumdf d) s1 < 2 ^ 63)%Z) ->
  jls_core_fsr_seek'step_size fuel g lvl = GenLib.Ok (py_step (dpy g) (Z.to_nat lvl)).
Proof. exact gen_step_total. Qed.
Print Assumptions C01_gen_seek_step_total.

(* satisfiable; with the 32-bit defaults level 15 would overflow int64 (3.4e21 samples per entry) *)
Example C01_gen_seek_step_ex :
  let g := GenCore.mk_jls_signal_def_s 1 1 0 0 0 1000 8192 128 640 20 100 100 0 Null Null in
  step_fits (dpy g) 10 /\
  jls_core_fsr_seek'step_size 16 g 1 = GenLib.Ok 8192%Z /\ jls_core_fsr_seek'step_size 16 g 2 = GenLib.Ok 81920%Z /\
  jls_core_fsr_seek'step_size 16 g 4 = GenLib.Ok 32768000%Z /\
  jls_core_fsr_seek'step_size 16 g 15 = GenLib.Fault Signed_overflow.
Proof. exact gen_step_ex. Qed.
Print Assumptions C01_gen_seek_step_ex.
