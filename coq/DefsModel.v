(* C13 - definitions and user data: byte codecs of the definition payloads and the
   writer's / reader's definition tables.  Definitions only (proofs: DefsProofs.v).

   Transcribed from /repo/src:
     buffer.c   jls_buf_wr_u8/u16/u32/zero/str, jls_buf_rd_skip/u8/u16/u32/str,
                jls_buf_string_save (string blocks of JLS_BUF_STRING_SIZE bytes)
     writer.c   jls_wr_open, buf_wr_str, jls_wr_source_def, jls_wr_signal_def, jls_wr_user_data,
                the gates of jls_wr_fsr / jls_wr_fsr_omit_data / jls_wr_annotation / jls_wr_utc
     core.c     jls_core_signal_def_validate, jls_core_signal_validate(_typed), jls_core_scan_sources,
                handle_signal_def, jls_core_scan_signals, jls_core_sources, jls_core_signals, jls_core_signal
     reader.c   jls_core_user_data
     track.c    jls_track_wr_def / jls_track_wr_head (the DEF/HEAD chunks that follow a SIGNAL_DEF)

   Abstractions (stated, not hidden):
   * a payload is a [list N] of bytes; jls_buf_realloc (doubling) makes the buffer as large as needed,
     so there is no length limit in the model (allocation failure is not modelled);
   * "the file" is the ordered list of definition-relevant chunks ([df_entry], the definition log):
     tag, chunk_meta and payload of every SOURCE_DEF, SIGNAL_DEF, track DEF/HEAD and USER_DATA chunk in
     write order.  item_next/item_prev links, offsets, CRCs and the chunks of data tracks are the
     business of C05/C14; the reader's list walks are modelled as walks over that list;
   * the parameter normalisation of jls_core_signal_def_align is taken from Spec.sp_align (its arithmetic is
     property C16's subject, coq/SigDef.v); its failure conditions are df_align_ok; the payload writers
     still truncate to 32 bits;
   * I/O errors are not modelled. *)
From Coq Require Import NArith List Bool.
From JLS Require Import Generated Spec.
Import ListNotations.
Local Open Scope N_scope.

(* ------------------------------------------------------------------ results *)
(* every read stays inside the payload (the cursor is the list of remaining bytes), so there is no
   fault result: jls_buf_rd_str tests cur != end before it looks for the 0x1f after the NUL *)
Inductive df_res (A : Type) : Type :=
| DfOk (a : A)
| DfErr (rc : N).       (* the C function returns this error code *)
Arguments DfOk {A} a.
Arguments DfErr {A} rc.

Definition df_bind {A B} (r : df_res A) (f : A -> df_res B) : df_res B :=
  match r with DfOk a => f a | DfErr rc => DfErr rc end.

(* ------------------------------------------------------------------ jls_buf_wr_* *)
Definition df_u8 (v : N) : list N := [v mod 256].
Definition df_u16 (v : N) : list N := [v mod 256; (v / 256) mod 256].
Definition df_u32 (v : N) : list N :=
  [v mod 256; (v / 256) mod 256; (v / 65536) mod 256; (v / 16777216) mod 256].

(* strlen view of a caller's string: the bytes before the first NUL *)
Fixpoint df_cstr (l : list N) : list N :=
  match l with [] => [] | b :: r => if b =? 0 then [] else b :: df_cstr r end.

(* jls_buf_wr_str: the bytes, then {0, 0x1f}; NULL -> just {0, 0x1f} *)
Definition df_enc_str (s : strv) : list N := df_cstr (str_read s) ++ [0; 31].

(* string block capacity: jls_buf_string_save rejects sz = strlen + 1 > sizeof(buffer) - 1, and
   jls_buf_rd_str rejects a string whose bytes + NUL exceed sizeof(buffer) - 1 *)
Definition df_str_fitsb (l : list N) : bool := N.of_nat (length l) + 1 <=? JLS_BUF_STRING_SIZE - 1.
Definition df_str_fits (l : list N) : Prop := N.of_nat (length l) + 1 <= JLS_BUF_STRING_SIZE - 1.

(* ------------------------------------------------------------------ jls_buf_rd_* *)
(* read cursor = the remaining bytes of the payload (cur .. end) *)
Definition df_cur := list N.

Fixpoint df_skipn (n : nat) (l : list N) : option (list N) :=
  match n with
  | O => Some l
  | S k => match l with [] => None | _ :: r => df_skipn k r end
  end.

(* every fixed-size read checks (cur + n) > end first *)
Definition df_rd_skip (n : nat) (c : df_cur) : df_res df_cur :=
  match df_skipn n c with Some r => DfOk r | None => DfErr JLS_ERROR_EMPTY end.
Definition df_rd_u8 (c : df_cur) : df_res (N * df_cur) :=
  match c with
  | b0 :: r => DfOk (b0, r)
  | _ => DfErr JLS_ERROR_EMPTY
  end.
Definition df_rd_u16 (c : df_cur) : df_res (N * df_cur) :=
  match c with
  | b0 :: b1 :: r => DfOk (b0 + 256 * b1, r)
  | _ => DfErr JLS_ERROR_EMPTY
  end.
Definition df_rd_u32 (c : df_cur) : df_res (N * df_cur) :=
  match c with
  | b0 :: b1 :: b2 :: b3 :: r => DfOk (b0 + 256 * b1 + 65536 * b2 + 16777216 * b3, r)
  | _ => DfErr JLS_ERROR_EMPTY
  end.

(* after the NUL: skip one following 0x1f if there is a following byte at all *)
Definition df_after_nul (r : list N) : df_cur :=
  match r with
  | [] => []
  | x :: r' => if x =? 31 then r' else r
  end.

(* the copy loop; [room] = bytes still free in a string block that holds only this string
   (sizeof(buffer) - 1 - copied): the C moves a partial string to a fresh block, so a string
   is rejected exactly when it cannot fit an empty block *)
Fixpoint df_rd_str_go (room : N) (l : list N) : df_res (list N * df_cur) :=
  match l with
  | [] => DfErr JLS_ERROR_EMPTY                       (* while (cur != end) falls through *)
  | b :: r =>
    if room =? 0 then DfErr JLS_ERROR_TOO_BIG
    else if b =? 0 then DfOk ([], df_after_nul r)
    else match df_rd_str_go (room - 1) r with
         | DfOk (s, c) => DfOk (b :: s, c)
         | DfErr rc => DfErr rc
         end
  end.

(* jls_buf_rd_str *)
Definition df_rd_str (c : df_cur) : df_res (list N * df_cur) := df_rd_str_go (JLS_BUF_STRING_SIZE - 1) c.

(* the view asked for by the property: string and remaining bytes; None = any error *)
Definition df_dec_str (l : list N) : option (list N * list N) :=
  match df_rd_str l with
  | DfOk (s, r) => Some (s, r)
  | DfErr _ => None
  end.

(* ------------------------------------------------------------------ definition payloads *)
Definition df_enc_source_def (d : srcdef) : list N :=
  repeat 0 64 ++ df_enc_str (so_name d) ++ df_enc_str (so_vendor d) ++ df_enc_str (so_model d)
             ++ df_enc_str (so_version d) ++ df_enc_str (so_serial d).

(* jls_core_scan_sources, the part that parses one payload; [id] = chunk_meta *)
Definition df_dec_source_def (id : N) (pl : list N) : df_res srcdef :=
  df_bind (df_rd_skip 64 pl) (fun c0 =>
  df_bind (df_rd_str c0) (fun '(name, c1) =>
  df_bind (df_rd_str c1) (fun '(vendor, c2) =>
  df_bind (df_rd_str c2) (fun '(model, c3) =>
  df_bind (df_rd_str c3) (fun '(version, c4) =>
  df_bind (df_rd_str c4) (fun '(serial, _) =>
  DfOk {| so_id := id; so_name := SBytes name; so_vendor := SBytes vendor; so_model := SBytes model;
          so_version := SBytes version; so_serial := SBytes serial |})))))).

Definition df_enc_signal_def (d : sigdef) : list N :=
  df_u16 (sg_src d) ++ df_u8 (sg_type d) ++ df_u8 0 ++ df_u32 (sg_dtype d) ++ df_u32 (sg_rate d)
  ++ df_u32 (sg_spd d) ++ df_u32 (sg_sdf d) ++ df_u32 (sg_eps d) ++ df_u32 (sg_sumdf d)
  ++ df_u32 (sg_adf d) ++ df_u32 (sg_udf d) ++ repeat 0 92 ++ df_enc_str (sg_name d) ++ df_enc_str (sg_units d).

(* handle_signal_def, the parsing part *)
Definition df_dec_signal_def (id : N) (pl : list N) : df_res sigdef :=
  df_bind (df_rd_u16 pl) (fun '(src, c0) =>
  df_bind (df_rd_u8 c0) (fun '(ty, c1) =>
  df_bind (df_rd_skip 1 c1) (fun c2 =>
  df_bind (df_rd_u32 c2) (fun '(dt, c3) =>
  df_bind (df_rd_u32 c3) (fun '(rate, c4) =>
  df_bind (df_rd_u32 c4) (fun '(spd, c5) =>
  df_bind (df_rd_u32 c5) (fun '(sdf, c6) =>
  df_bind (df_rd_u32 c6) (fun '(eps, c7) =>
  df_bind (df_rd_u32 c7) (fun '(sumdf, c8) =>
  df_bind (df_rd_u32 c8) (fun '(adf, c9) =>
  df_bind (df_rd_u32 c9) (fun '(udf, c10) =>
  df_bind (df_rd_skip 92 c10) (fun c11 =>
  df_bind (df_rd_str c11) (fun '(name, c12) =>
  df_bind (df_rd_str c12) (fun '(units, _) =>
  DfOk {| sg_id := id; sg_src := src; sg_type := ty; sg_dtype := dt; sg_rate := rate;
          sg_spd := spd; sg_sdf := sdf; sg_eps := eps; sg_sumdf := sumdf; sg_adf := adf; sg_udf := udf;
          sg_name := SBytes name; sg_units := SBytes units |})))))))))))))).

(* what the reader hands out for a definition given to the writer: absent strings are empty *)
Definition df_str_out (s : strv) : strv := SBytes (df_cstr (str_read s)).
Definition df_src_read (d : srcdef) : srcdef :=
  {| so_id := so_id d; so_name := df_str_out (so_name d); so_vendor := df_str_out (so_vendor d);
     so_model := df_str_out (so_model d); so_version := df_str_out (so_version d); so_serial := df_str_out (so_serial d) |}.
Definition df_sig_read (d : sigdef) : sigdef :=
  {| sg_id := sg_id d; sg_src := sg_src d; sg_type := sg_type d; sg_dtype := sg_dtype d; sg_rate := sg_rate d;
     sg_spd := sg_spd d; sg_sdf := sg_sdf d; sg_eps := sg_eps d; sg_sumdf := sg_sumdf d; sg_adf := sg_adf d;
     sg_udf := sg_udf d; sg_name := df_str_out (sg_name d); sg_units := df_str_out (sg_units d) |}.

(* ------------------------------------------------------------------ the writer *)
(* one element of source_info[] / signal_info[]:
     DfEmpty      calloc'ed
     DfScratch a  the caller's definition was copied in (sdef := source / info->signal_def := signal)
                  but the call failed later: chunk_def.offset is still 0
     DfDefd a     chunk_def.offset != 0: defined *)
Inductive df_slot (A : Type) : Type := DfEmpty | DfScratch (a : A) | DfDefd (a : A).
Arguments DfEmpty {A}.
Arguments DfScratch {A} a.
Arguments DfDefd {A} a.
Definition df_is_defd {A} (s : df_slot A) : bool := match s with DfDefd _ => true | _ => false end.

Inductive df_entry :=
| DfLSrc (meta : N) (pl : list N)      (* SOURCE_DEF chunk *)
| DfLSig (meta : N) (pl : list N)      (* SIGNAL_DEF chunk *)
| DfLTrk (tag meta : N)                (* track DEF / HEAD chunk on the signal list *)
| DfLUd (meta : N) (pl : list N).      (* USER_DATA chunk *)

Inductive df_op :=
| DfSrc (d : srcdef)
| DfSig (d : sigdef)
| DfUd (meta st : N) (data : strv)     (* data pointer NULL or a buffer; BINARY: data_size = its length *)
| DfFsr (sig : N)
| DfOmit (sig : N)
| DfAnno (sig atype stype : N)
| DfUtc (sig : N)
| DfFlush.

Inductive df_out := DfRc (rc : N) | DfFault.   (* DfFault: a crash; no modelled call produces it (step_never_faults) *)

Record df_wr := {
  dfw_src : N -> df_slot srcdef;
  dfw_sig : N -> df_slot sigdef;
  dfw_log : list df_entry;             (* the definition log *)
  dfw_data : list df_op }.             (* accepted data calls, in order (content is C01/C11/C12's subject) *)

Definition df_upd {A} (m : N -> A) (k : N) (v : A) : N -> A := fun i => if i =? k then v else m i.

Definition df_set_src (w : df_wr) (k : N) (v : df_slot srcdef) (log : list df_entry) : df_wr :=
  {| dfw_src := df_upd (dfw_src w) k v; dfw_sig := dfw_sig w; dfw_log := log; dfw_data := dfw_data w |}.
Definition df_set_sig (w : df_wr) (k : N) (v : df_slot sigdef) (log : list df_entry) : df_wr :=
  {| dfw_src := dfw_src w; dfw_sig := df_upd (dfw_sig w) k v; dfw_log := log; dfw_data := dfw_data w |}.

(* buf_wr_str's jls_buf_string_save: NULL is not saved; otherwise TOO_BIG unless it fits a block *)
Definition df_save_ok (s : strv) : bool :=
  match s with SNull => true | SBytes l => df_str_fitsb (df_cstr l) end.

Definition df_wr_source (w : df_wr) (d : srcdef) : df_wr * df_out :=
  let id := so_id d in
  if JLS_SOURCE_COUNT <=? id then (w, DfRc JLS_ERROR_PARAMETER_INVALID)
  else if df_is_defd (dfw_src w id) then (w, DfRc JLS_ERROR_ALREADY_EXISTS)
  else if df_save_ok (so_name d) && df_save_ok (so_vendor d) && df_save_ok (so_model d)
          && df_save_ok (so_version d) && df_save_ok (so_serial d)
  then (df_set_src w id (DfDefd d) (dfw_log w ++ [DfLSrc id (df_enc_source_def d)]), DfRc 0)
  else (df_set_src w id (DfScratch d) (dfw_log w), DfRc JLS_ERROR_TOO_BIG).

(* jls_core_signal_def_validate *)
Definition df_validate (d : sigdef) : bool :=
  (sg_id d <? JLS_SIGNAL_COUNT) && (sg_src d <? JLS_SOURCE_COUNT)
  && ((sg_type d =? JLS_SIGNAL_TYPE_FSR) || (sg_type d =? JLS_SIGNAL_TYPE_VSR))
  && dt_valid (sg_dtype d).

(* the ways jls_core_signal_def_align fails (PARAMETER_INVALID), for a caller's definition d with uint32
   fields: one of the three round_up_to_multiple results exceeds UINT32_MAX (computed in 64 bits, so the
   values are those of Spec.sp_align: the rounded sample_decimate_factor and entries_per_summary are fields of
   sp_align d, the rounded samples_per_data is recomputed here), or the block buffer (samples_per_data
   samples) / the summary buffer (entries_per_summary entries of JLS_SUMMARY_FSR_COUNT doubles) exceeds
   UINT32_MAX / 2 bytes *)
Definition df_align_ok (d : sigdef) : bool :=
  let d' := sp_align d in
  let w := dt_bits (sg_dtype d) in
  (sg_sdf d' <=? 4294967295) && (sg_eps d' <=? 4294967295)
  && (sp_round_up (N.max (sp_dflt w 0 (sg_spd d)) SAMPLES_PER_DATA_MIN) (sg_sdf d') <=? 4294967295)
  && (sg_spd d' * w / 8 <=? 2147483647) && (sg_eps d' * (JLS_SUMMARY_FSR_COUNT * 8) <=? 2147483647).

Definition df_track_tag (track chunk : N) : N := JLS_TRACK_TAG_FLAG + 8 * track + chunk.
Definition df_tracks (ty : N) : list N :=
  if ty =? JLS_SIGNAL_TYPE_FSR then [JLS_TRACK_TYPE_FSR; JLS_TRACK_TYPE_ANNOTATION; JLS_TRACK_TYPE_UTC]
  else [JLS_TRACK_TYPE_VSR; JLS_TRACK_TYPE_ANNOTATION].
Definition df_track_entries (id ty : N) : list df_entry :=
  flat_map (fun t => [DfLTrk (df_track_tag t JLS_TRACK_CHUNK_DEF) id; DfLTrk (df_track_tag t JLS_TRACK_CHUNK_HEAD) id])
           (df_tracks ty).

Definition df_wr_signal (w : df_wr) (d : sigdef) : df_wr * df_out :=
  let id := sg_id d in
  if JLS_SIGNAL_COUNT <=? id then (w, DfRc JLS_ERROR_PARAMETER_INVALID)
  else if JLS_SOURCE_COUNT <=? sg_src d then (w, DfRc JLS_ERROR_PARAMETER_INVALID)
  else if negb (df_is_defd (dfw_src w (sg_src d))) then (w, DfRc JLS_ERROR_NOT_FOUND)
  else if df_is_defd (dfw_sig w id) then (w, DfRc JLS_ERROR_ALREADY_EXISTS)
  else if negb ((sg_type d =? JLS_SIGNAL_TYPE_FSR) || (sg_type d =? JLS_SIGNAL_TYPE_VSR))
       then (w, DfRc JLS_ERROR_PARAMETER_INVALID)
  else
    (* from here on info->signal_def holds the caller's definition *)
    let ws := df_set_sig w id (DfScratch d) (dfw_log w) in
    if negb (df_save_ok (sg_name d) && df_save_ok (sg_units d)) then (ws, DfRc JLS_ERROR_TOO_BIG)
    else if negb (df_validate d) then (ws, DfRc JLS_ERROR_PARAMETER_INVALID)
    else
      let d' := sp_align d in
      if negb (df_align_ok d) then (ws, DfRc JLS_ERROR_PARAMETER_INVALID)
      else if (sg_type d =? JLS_SIGNAL_TYPE_FSR) && (sg_rate d =? 0) then (ws, DfRc JLS_ERROR_PARAMETER_INVALID)
      else (df_set_sig w id (DfDefd d')
              (dfw_log w ++ DfLSig id (df_enc_signal_def d') :: df_track_entries id (sg_type d)), DfRc 0).

(* jls_wr_user_data.  STRING/JSON take strlen(data) + 1 bytes (the buffer is taken to be NUL
   terminated: a list without NUL stands for that list followed by its terminator);
   a NULL pointer with these types is refused. *)
Definition df_wr_user_data (w : df_wr) (meta st : N) (data : strv) : df_wr * df_out :=
  let put pl := ({| dfw_src := dfw_src w; dfw_sig := dfw_sig w;
                    dfw_log := dfw_log w ++ [DfLUd (N.land meta 4095 + 4096 * st) pl]; dfw_data := dfw_data w |}, DfRc 0) in
  if st =? JLS_STORAGE_TYPE_INVALID then put []
  else if st =? JLS_STORAGE_TYPE_BINARY then put (str_read data)
  else if (st =? JLS_STORAGE_TYPE_STRING) || (st =? JLS_STORAGE_TYPE_JSON) then
    match data with
    | SNull => (w, DfRc JLS_ERROR_PARAMETER_INVALID)
    | SBytes l => put (df_cstr l ++ [0])
    end
  else (w, DfRc JLS_ERROR_PARAMETER_INVALID).

(* jls_core_signal_validate on the writer's tables *)
Definition df_sig_validate (w : df_wr) (sig : N) : N :=
  if JLS_SIGNAL_COUNT <=? sig then JLS_ERROR_PARAMETER_INVALID
  else match dfw_sig w sig with DfDefd _ => 0 | _ => JLS_ERROR_NOT_FOUND end.
Definition df_sig_validate_typed (w : df_wr) (sig ty : N) : N :=
  let rc := df_sig_validate w sig in
  if negb (rc =? 0) then rc
  else match dfw_sig w sig with
       | DfDefd d => if sg_type d =? ty then 0 else JLS_ERROR_NOT_SUPPORTED
       | _ => JLS_ERROR_NOT_FOUND
       end.
Definition df_data (w : df_wr) (o : df_op) (rc : N) : df_wr * df_out :=
  if rc =? 0
  then ({| dfw_src := dfw_src w; dfw_sig := dfw_sig w; dfw_log := dfw_log w; dfw_data := dfw_data w ++ [o] |}, DfRc 0)
  else (w, DfRc rc).

Definition df_step (w : df_wr) (o : df_op) : df_wr * df_out :=
  match o with
  | DfSrc d => df_wr_source w d
  | DfSig d => df_wr_signal w d
  | DfUd meta st data => df_wr_user_data w meta st data
  | DfFsr sig => df_data w o (df_sig_validate_typed w sig JLS_SIGNAL_TYPE_FSR)
  | DfOmit sig => df_data w o (df_sig_validate_typed w sig JLS_SIGNAL_TYPE_FSR)
  | DfUtc sig => df_data w o (df_sig_validate_typed w sig JLS_SIGNAL_TYPE_FSR)
  | DfAnno sig atype stype =>
    let rc := df_sig_validate w sig in
    df_data w o (if negb (rc =? 0) then rc
                 else if (256 <=? atype) || (256 <=? stype) then JLS_ERROR_PARAMETER_INVALID
                 else if (1 <=? stype) && (stype <=? 3) then 0 else JLS_ERROR_PARAMETER_INVALID)
  | DfFlush => (w, DfRc 0)
  end.

Fixpoint df_run (w : df_wr) (p : list df_op) : df_wr * list df_out :=
  match p with
  | [] => (w, [])
  | o :: r => let '(w1, a) := df_step w o in let '(w2, l) := df_run w1 r in (w2, a :: l)
  end.

(* jls_wr_open: the reserved user-data chunk, source 0, signal 0 *)
Definition df_signal0_raw : sigdef :=
  {| sg_id := 0; sg_src := 0; sg_type := JLS_SIGNAL_TYPE_VSR; sg_dtype := JLS_DATATYPE_F32; sg_rate := 0;
     sg_spd := 10; sg_sdf := 10; sg_eps := 10; sg_sumdf := 10; sg_adf := 100; sg_udf := 100;
     sg_name := sg_name signal0; sg_units := sg_units signal0 |}.
Definition df_wr0 : df_wr :=
  {| dfw_src := fun _ => DfEmpty; dfw_sig := fun _ => DfEmpty; dfw_log := []; dfw_data := [] |}.
Definition df_open : df_wr :=
  fst (df_run df_wr0 [DfUd 0 JLS_STORAGE_TYPE_INVALID SNull; DfSrc source0; DfSig df_signal0_raw]).

(* the writer calls of Spec.v *)
Definition df_op_of (o : wop) : df_op :=
  match o with
  | WSrc d => DfSrc d
  | WSig d => DfSig d
  | WFsr sig _ _ => DfFsr sig
  | WOmit sig _ => DfOmit sig
  | WAnno sig a => DfAnno sig (an_type a) (an_stype a)
  | WUtc sig _ _ => DfUtc sig
  | WUd u => DfUd (ud_meta u) (ud_stype u) (SBytes (ud_data u))
  | WFlush => DfFlush
  end.
Definition df_accepted (o : df_out) : bool := match o with DfRc 0 => true | _ => false end.
Definition df_run_prog (p : list wop) : df_wr * list df_out := df_run df_open (map df_op_of p).

(* ------------------------------------------------------------------ the reader *)
Record df_rd := {
  dfr_src : N -> option srcdef;        (* source_info[i].source_def, Some when source_def.source_id == i *)
  dfr_sig : N -> option sigdef;        (* same for signals *)
  dfr_sigchunk : N -> bool;            (* signal_info[i].chunk_def.offset != 0 *)
  dfr_ud : list (N * list N) }.        (* the USER_DATA chunks in list order: chunk_meta, payload *)

(* calloc: source_def.source_id == 0 == i for i = 0, all strings NULL *)
Definition df_src_zero : srcdef :=
  {| so_id := 0; so_name := SNull; so_vendor := SNull; so_model := SNull; so_version := SNull; so_serial := SNull |}.
Definition df_sig_zero : sigdef :=
  {| sg_id := 0; sg_src := 0; sg_type := 0; sg_dtype := 0; sg_rate := 0; sg_spd := 0; sg_sdf := 0; sg_eps := 0;
     sg_sumdf := 0; sg_adf := 0; sg_udf := 0; sg_name := SNull; sg_units := SNull |}.
Definition df_rd0 : df_rd :=
  {| dfr_src := fun i => if i =? 0 then Some df_src_zero else None;
     dfr_sig := fun i => if i =? 0 then Some df_sig_zero else None;
     dfr_sigchunk := fun _ => false; dfr_ud := [] |}.

(* the three lists the reader walks: SOURCE_DEF chunks, SIGNAL_DEF chunks (the track DEF/HEAD chunks
   on the same list are checked by handle_track_def/head whose result is ignored and which do not touch
   the definitions), USER_DATA chunks; each as (chunk_meta, payload) in list order *)
Fixpoint df_log_src (log : list df_entry) : list (N * list N) :=
  match log with
  | [] => []
  | DfLSrc meta pl :: r => (meta, pl) :: df_log_src r
  | _ :: r => df_log_src r
  end.
Fixpoint df_log_sig (log : list df_entry) : list (N * list N) :=
  match log with
  | [] => []
  | DfLSig meta pl :: r => (meta, pl) :: df_log_sig r
  | _ :: r => df_log_sig r
  end.
Fixpoint df_log_ud (log : list df_entry) : list (N * list N) :=
  match log with
  | [] => []
  | DfLUd meta pl :: r => (meta, pl) :: df_log_ud r
  | _ :: r => df_log_ud r
  end.

(* jls_core_scan_sources: an unparsable payload aborts the scan (and jls_rd_open) *)
Fixpoint df_scan_sources (l : list (N * list N)) (t : N -> option srcdef) : df_res (N -> option srcdef) :=
  match l with
  | [] => DfOk t
  | (meta, pl) :: r =>
    if JLS_SOURCE_COUNT <=? meta then df_scan_sources r t
    else df_bind (df_dec_source_def meta pl) (fun d => df_scan_sources r (df_upd t meta (Some d)))
  end.

(* jls_core_scan_signals / handle_signal_def: the handler's error code is ignored; a definition that
   does not parse or validate leaves the entry not marked valid (the fields it had already stored are
   not modelled: they are not observable for an entry that is not valid, except for id 0) *)
Fixpoint df_scan_signals (l : list (N * list N)) (t : N -> option sigdef) (ch : N -> bool)
  : df_res ((N -> option sigdef) * (N -> bool)) :=
  match l with
  | [] => DfOk (t, ch)
  | (meta, pl) :: r =>
    if JLS_SIGNAL_COUNT <=? meta then df_scan_signals r t ch
    else match df_dec_signal_def meta pl with
         | DfOk d => if df_validate d then df_scan_signals r (df_upd t meta (Some d)) (df_upd ch meta true)
                     else df_scan_signals r t (df_upd ch meta true)
         | DfErr _ => df_scan_signals r t (df_upd ch meta true)
         end
  end.

(* jls_rd_open, the definition part *)
Definition df_scan (log : list df_entry) : df_res df_rd :=
  df_bind (df_scan_sources (df_log_src log) (dfr_src df_rd0)) (fun ts =>
  df_bind (df_scan_signals (df_log_sig log) (dfr_sig df_rd0) (dfr_sigchunk df_rd0)) (fun '(tg, ch) =>
  DfOk {| dfr_src := ts; dfr_sig := tg; dfr_sigchunk := ch; dfr_ud := df_log_ud log |})).

Definition df_ids : list N := map N.of_nat (seq 0 256).
Definition df_opt_list {A} (o : option A) : list A := match o with Some a => [a] | None => [] end.
(* jls_core_sources / jls_core_signals: ids 0..255 in order *)
Definition df_rd_sources (r : df_rd) : list srcdef := flat_map (fun i => df_opt_list (dfr_src r i)) df_ids.
Definition df_rd_signals (r : df_rd) : list sigdef := flat_map (fun i => df_opt_list (dfr_sig r i)) df_ids.
(* jls_core_signal *)
Definition df_rd_signal (r : df_rd) (id : N) : df_res sigdef :=
  if JLS_SIGNAL_COUNT <=? id then DfErr JLS_ERROR_PARAMETER_INVALID
  else match dfr_sig r id with
       | Some d => if dfr_sigchunk r id then DfOk d else DfErr JLS_ERROR_NOT_FOUND
       | None => DfErr JLS_ERROR_NOT_FOUND
       end.

(* jls_core_user_data with a callback that never stops: the chunks after the reserved first one;
   storage type INVALID is a placeholder chunk and is skipped; a storage type other than
   INVALID/BINARY/STRING/JSON ends the walk with PARAMETER_INVALID *)
Fixpoint df_ud_walk (l : list (N * list N)) : list udata * N :=
  match l with
  | [] => ([], 0)
  | (meta, pl) :: r =>
    let st := N.land (N.shiftr meta 12) 15 in
    if st =? 0 then df_ud_walk r
    else if (1 <=? st) && (st <=? 3)
    then let '(items, rc) := df_ud_walk r in
         ({| ud_meta := N.land meta 4095; ud_stype := st; ud_data := pl |} :: items, rc)
    else ([], JLS_ERROR_PARAMETER_INVALID)
  end.
Definition df_rd_user_data (r : df_rd) : list udata * N := df_ud_walk (tl (dfr_ud r)).

(* ------------------------------------------------------------------ vocabulary of the theorems *)
(* no NUL byte: the list is a C string *)
Definition df_nonul (l : list N) : Prop := forall b, In b l -> b <> 0.

Definition df_src_fits (d : srcdef) : Prop :=
  df_str_fits (df_cstr (str_read (so_name d))) /\ df_str_fits (df_cstr (str_read (so_vendor d))) /\
  df_str_fits (df_cstr (str_read (so_model d))) /\ df_str_fits (df_cstr (str_read (so_version d))) /\
  df_str_fits (df_cstr (str_read (so_serial d))).
Definition df_sig_fits (d : sigdef) : Prop :=
  df_str_fits (df_cstr (str_read (sg_name d))) /\ df_str_fits (df_cstr (str_read (sg_units d))).
(* field ranges of the C struct: uint16 source_id, uint8 signal_type, uint32 parameters *)
Definition df_sig_ranges (d : sigdef) : Prop :=
  sg_src d < 65536 /\ sg_type d < 256 /\ sg_dtype d < 4294967296 /\ sg_rate d < 4294967296 /\
  sg_spd d < 4294967296 /\ sg_sdf d < 4294967296 /\ sg_eps d < 4294967296 /\ sg_sumdf d < 4294967296 /\
  sg_adf d < 4294967296 /\ sg_udf d < 4294967296.

Definition df_src_nonul (d : srcdef) : Prop :=
  df_nonul (str_read (so_name d)) /\ df_nonul (str_read (so_vendor d)) /\ df_nonul (str_read (so_model d)) /\
  df_nonul (str_read (so_version d)) /\ df_nonul (str_read (so_serial d)).

(* the guard on programs:
   - definition strings are C strings (no NUL byte inside; any length: strings that do not fit a string block
     are refused by the writer and by Spec.wstep alike);
   - a signal's parameters pass jls_core_signal_def_align (df_align_ok; the writer refuses the others, which
     Spec.wstep does not model) and the stored parameters (Spec.sp_align) fit their uint32 fields;
   - STRING/JSON user data is a C string with its terminator *)
Definition df_wop_ok (o : wop) : Prop :=
  match o with
  | WSrc d => df_src_nonul d
  | WSig d => (df_nonul (str_read (sg_name d)) /\ df_nonul (str_read (sg_units d))) /\
              df_sig_ranges (sp_align d) /\ df_align_ok d = true
  | WUd u => (ud_stype u = JLS_STORAGE_TYPE_STRING \/ ud_stype u = JLS_STORAGE_TYPE_JSON) ->
             exists s, ud_data u = s ++ [0] /\ df_nonul s
  | _ => True
  end.
Definition df_prog_ok (p : list wop) : Prop := Forall df_wop_ok p.
