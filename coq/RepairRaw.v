(* Byte-faithful model of REPAIR-ON-OPEN of the reader, layer 1: the file, the backend read side
   (/repo/src/backend_posix.c), the raw layer read side (/repo/src/raw.c) and the chunk reader / the scans of
   /repo/src/core.c.  Nothing in this file writes: the state has no log.

     the file                      rp_file (bytes) + rp_flen (its length, kept beside it)
     struct jls_bkf_s + jls_raw_s   rp_raw      (fpos, fend, offset, hdr, last_payload_length; hdr with
                                                 tag = JLS_TAG_INVALID means "no current chunk", as in the C)
     core->buf, core->chunk_cur     rp_buf / rp_buf_len / rp_cur   (the buffer CONTENT is modelled: a read
                                                 overwrites a prefix, the rest keeps what earlier reads left;
                                                 bytes never written are 0 (calloc))
     jls_bk_fread / jls_bk_fseek    rp_bk_fread / rp_bk_fseek
     read_verify / jls_raw_open r,a rp_read_verify
     jls_raw_rd_header              rp_raw_rd_header
     jls_raw_rd_payload             rp_raw_rd_payload
     jls_raw_chunk_seek / _seek_end rp_chunk_seek / rp_seek_end
     jls_core_rd_chunk              rp_rd_chunk
     jls_core_rd_chunk_end          rp_rd_chunk_end  (windows of 1024 bytes stepping by 992; the unsigned underflow for a
                                                 window shorter than a header is kept as RpF_segv: no longer reachable)
     jls_core_scan_initial          rp_scan_initial
     jls_core_scan_sources          rp_scan_sources  (jls_buf_rd_skip / jls_buf_rd_str as far as success or
                                                 failure is concerned)
     handle_signal_def / _track_def / _track_head, jls_core_scan_signals      rp_handle_* / rp_scan_signals
     jls_core_signal_validate(_typed), jls_core_validate_track_tag           rp_signal_validate(_typed) / rp_validate_track_tag
     jls_core_scan_fsr_sample_id    rp_scan_fsr_sample_id

   Return codes are the C's (the JLS_ERROR_ constants of Generated.v).  Faults (the model leaves its domain; sticky code in
   rp_flt, first one wins): see the RpF_* constants.  Not modelled: I/O errors other than end of file,
   allocation failure, files of JLS_BUF_DEFAULT_SIZE - 16 bytes or more (jls_buf_realloc path: RpF_big),
   strings of 1 MiB.  Definitions only.  Every top-level name starts with rp_ / Rp. *)
From Coq Require Import NArith ZArith List Bool.
From JLS Require Import Generated CrcDefs Spec Format WmRaw WmCore WmFsr WriterModel.
Import ListNotations.
Local Open Scope N_scope.

(* ---- fault codes ---- *)
Definition RpF_none : N := 0.
Definition RpF_fuel : N := 1.        (* a loop of the C does not terminate (cyclic item_next chain) *)
Definition RpF_buf : N := 2.         (* the C reads core->buf beyond its allocation / reads uninitialised memory *)
Definition RpF_segv : N := 3.        (* jls_core_rd_chunk_end: index underflow, read far outside data[] *)
Definition RpF_big : N := 4.         (* payload larger than the initial buffer: realloc path not modelled *)
Definition RpF_wm : N := 5.          (* a writer-model function left its domain (wm_fault) *)
Definition RpF_heap : N := 6.        (* memcpy into a level / sample buffer that is too small; level[16] *)
Definition RpF_param : N := 7.       (* signal parameters the writer can not have produced (division by zero) *)
Definition RpF_short : N := 8.       (* file shorter than 24 bytes: the C tests an uninitialised length field *)
Definition RpF_fmt : N := 9.         (* chunk content the summary model can not represent (entry size, rsv16) *)

(* ---- the file ---- *)
Fixpoint rp_skip_pos (p : positive) (l : list N) : list N :=
  match l with
  | [] => []
  | _ :: t =>
    match p with
    | xH => t
    | xO q => rp_skip_pos q (rp_skip_pos q l)
    | xI q => rp_skip_pos q (rp_skip_pos q t)
    end
  end.
(* = skipn (N.to_nat n) l, without building the unary number *)
Definition rp_skip (n : N) (l : list N) : list N := match n with N0 => l | Npos p => rp_skip_pos p l end.
Definition rp_take (n : N) (l : list N) : list N := firstn (N.to_nat n) l.
Definition rp_len (l : list N) : N := N.of_nat (length l).

(* the bytes [off, off+n) of the file that exist *)
Definition rp_file_read (f : list N) (flen off n : N) : list N :=
  if flen <=? off then [] else rp_take n (rp_skip off f).

Definition rp_two63 : N := fm_two63.

(* ---- raw state ---- *)
Record rp_raw := { rp_fpos : N; rp_fend : N; rp_offset : N; rp_hdr : fm_chunk_header; rp_last_pl : N }.
Definition rp_raw0 : rp_raw := {| rp_fpos := 0; rp_fend := 0; rp_offset := 0; rp_hdr := wm_hdr0; rp_last_pl := 0 |}.
Definition rp_r_set_fpos (r : rp_raw) (p : N) : rp_raw :=
  {| rp_fpos := p; rp_fend := rp_fend r; rp_offset := rp_offset r; rp_hdr := rp_hdr r; rp_last_pl := rp_last_pl r |}.
Definition rp_r_set_fend (r : rp_raw) (p : N) : rp_raw :=
  {| rp_fpos := rp_fpos r; rp_fend := p; rp_offset := rp_offset r; rp_hdr := rp_hdr r; rp_last_pl := rp_last_pl r |}.
Definition rp_r_set_offset (r : rp_raw) (p : N) : rp_raw :=
  {| rp_fpos := rp_fpos r; rp_fend := rp_fend r; rp_offset := p; rp_hdr := rp_hdr r; rp_last_pl := rp_last_pl r |}.
Definition rp_r_set_hdr (r : rp_raw) (h : fm_chunk_header) : rp_raw :=
  {| rp_fpos := rp_fpos r; rp_fend := rp_fend r; rp_offset := rp_offset r; rp_hdr := h; rp_last_pl := rp_last_pl r |}.
Definition rp_r_valid (r : rp_raw) : bool := negb (fm_tag (rp_hdr r) =? JLS_TAG_INVALID).
Definition rp_r_invalidate (r : rp_raw) : rp_raw := rp_r_set_hdr r (wm_hdr_set_tag (rp_hdr r) JLS_TAG_INVALID).

(* ---- reader i/o state: file + raw + core->buf + core->chunk_cur ---- *)
Record rp_io := {
  rp_file : list N; rp_flen : N;
  rp_r : rp_raw;
  rp_buf : list N; rp_buf_len : N;
  rp_cur : wm_chunk;
  rp_flt : N }.
Definition rp_io_set_r (s : rp_io) (r : rp_raw) : rp_io :=
  {| rp_file := rp_file s; rp_flen := rp_flen s; rp_r := r; rp_buf := rp_buf s; rp_buf_len := rp_buf_len s;
     rp_cur := rp_cur s; rp_flt := rp_flt s |}.
Definition rp_io_set_buf (s : rp_io) (b : list N) (n : N) : rp_io :=
  {| rp_file := rp_file s; rp_flen := rp_flen s; rp_r := rp_r s; rp_buf := b; rp_buf_len := n;
     rp_cur := rp_cur s; rp_flt := rp_flt s |}.
Definition rp_io_set_cur (s : rp_io) (c : wm_chunk) : rp_io :=
  {| rp_file := rp_file s; rp_flen := rp_flen s; rp_r := rp_r s; rp_buf := rp_buf s; rp_buf_len := rp_buf_len s;
     rp_cur := c; rp_flt := rp_flt s |}.
Definition rp_io_fault (s : rp_io) (code : N) : rp_io :=
  {| rp_file := rp_file s; rp_flen := rp_flen s; rp_r := rp_r s; rp_buf := rp_buf s; rp_buf_len := rp_buf_len s;
     rp_cur := rp_cur s; rp_flt := if rp_flt s =? 0 then code else rp_flt s |}.
Definition rp_io_set_file (s : rp_io) (f : list N) (n : N) : rp_io :=
  {| rp_file := f; rp_flen := n; rp_r := rp_r s; rp_buf := rp_buf s; rp_buf_len := rp_buf_len s;
     rp_cur := rp_cur s; rp_flt := rp_flt s |}.
Definition rp_io0 (f : list N) : rp_io :=
  {| rp_file := f; rp_flen := rp_len f; rp_r := rp_raw0; rp_buf := []; rp_buf_len := 0; rp_cur := wm_chunk0; rp_flt := 0 |}.

(* ---- backend_posix.c ---- *)
(* jls_bk_fread(n): the bytes read (fewer than n at the end of the file); fpos advances by what was read *)
Definition rp_bk_fread (s : rp_io) (n : N) : rp_io * list N :=
  let r := rp_r s in
  let b := rp_file_read (rp_file s) (rp_flen s) (rp_fpos r) n in
  (rp_io_set_r s (rp_r_set_fpos r (rp_fpos r + rp_len b)), b).
(* jls_bk_fseek(SEEK_SET): lseek fails for a negative offset (int64_t) and leaves fpos alone *)
Definition rp_bk_fseek (s : rp_io) (p : N) : rp_io * bool :=
  if rp_two63 <=? p then (s, false) else (rp_io_set_r s (rp_r_set_fpos (rp_r s) p), true).

(* ---- raw.c ---- *)
(* the 32 bytes of a file header; version major *)
Definition rp_fh_ok (b : list N) : bool :=
  fm_fh_complete b && fm_fh_crc_ok b && fm_fh_ident_ok b
  && (fm_version_major (fm_u32_at OFFSETOF_file_header_version b) <=? fm_version_major JLS_FORMAT_VERSION_U32).

(* read_verify: (state, rc, version).  rc = 0 | JLS_ERROR_TRUNCATED (instance kept) | JLS_ERROR_UNSUPPORTED_FILE.
   The length test is made even when rd_file_header failed: on the bytes read so far. *)
Definition rp_read_verify (s : rp_io) : rp_io * N * N :=
  let '(s1, b) := rp_bk_fread s SIZEOF_file_header in
  let s2 := rp_io_set_r s1 (rp_r_set_offset (rp_r s1) (rp_fpos (rp_r s1))) in
  let ok := rp_fh_ok b in
  (* fend_get: seek END, fend := fpos, seek back *)
  let s3 := if ok then rp_io_set_r s2 (rp_r_set_fend (rp_r s2) (rp_flen s2)) else s2 in
  let s4 := if rp_len b <? OFFSETOF_file_header_version then rp_io_fault s3 RpF_short else s3 in
  let version := if ok then fm_u32_at OFFSETOF_file_header_version b else 0 in
  let rc := if fm_u64_at OFFSETOF_file_header_length b =? 0 then JLS_ERROR_TRUNCATED
            else if ok then 0 else JLS_ERROR_UNSUPPORTED_FILE in
  (s4, rc, version).

(* jls_raw_open(path, "r" | "a") on an existing file: a fresh jls_raw_s.  For "a" the format version must be
   the library's.  rc 0 and JLS_ERROR_TRUNCATED keep the instance. *)
Definition rp_raw_open (s : rp_io) (append : bool) : rp_io * N :=
  let s0 := rp_io_set_r s rp_raw0 in
  let '(s1, rc, version) := rp_read_verify s0 in
  if append && ((rc =? 0) || (rc =? JLS_ERROR_TRUNCATED)) && negb (version =? JLS_FORMAT_VERSION_U32)
  then (s1, JLS_ERROR_UNSUPPORTED_FILE) else (s1, rc).

(* jls_raw_chunk_seek *)
Definition rp_chunk_seek (s : rp_io) (o : N) : rp_io * N :=
  let s1 := rp_io_set_r s (rp_r_invalidate (rp_r s)) in
  if o =? 0 then (s1, JLS_ERROR_IO)
  else
    let '(s2, ok) := rp_bk_fseek s1 o in
    if ok then (rp_io_set_r s2 (rp_r_set_offset (rp_r s2) (rp_fpos (rp_r s2))), 0) else (s2, JLS_ERROR_IO).
(* jls_raw_seek_end: lseek(END) = the real size *)
Definition rp_seek_end (s : rp_io) : rp_io :=
  let r := rp_r_set_fpos (rp_r_invalidate (rp_r s)) (rp_flen s) in
  rp_io_set_r s (rp_r_set_offset r (rp_fpos r)).

(* jls_raw_rd_header(self, hdr): rc; the caller's copy is handled by the caller *)
Definition rp_raw_rd_header (s : rp_io) : rp_io * N :=
  let r := rp_r s in
  if rp_r_valid r then (s, 0)
  else if rp_fend r <=? rp_fpos r then (s, JLS_ERROR_EMPTY)
  else
    let s1 := if rp_offset r =? rp_fpos r then s else rp_io_set_r s (rp_r_set_fpos r (rp_offset r)) in
    let s2 := rp_io_set_r s1 (rp_r_set_offset (rp_r s1) (rp_fpos (rp_r s1))) in
    let '(s3, b) := rp_bk_fread s2 SIZEOF_chunk_header in
    if negb (fm_ch_complete b) then (s3, JLS_ERROR_EMPTY)
    else if negb (fm_ch_crc_ok b) then (s3, JLS_ERROR_MESSAGE_INTEGRITY)
    else (rp_io_set_r s3 (rp_r_set_hdr (rp_r s3) (fm_ch_fields b)), 0).

(* what a read of [b] leaves in core->buf *)
Definition rp_buf_put (old b : list N) : list N := b ++ rp_skip (rp_len b) old.

(* jls_raw_rd_payload(self, payload_length_max, core->buf->start) *)
Definition rp_raw_rd_payload (s : rp_io) (max : N) : rp_io * N :=
  let '(s1, rc1) := if rp_r_valid (rp_r s) then (s, 0) else rp_raw_rd_header s in
  if negb (rc1 =? 0) then (s1, rc1)
  else
    let r := rp_r s1 in
    let pl := fm_payload_length (rp_hdr r) in
    if pl =? 0 then
      let r1 := rp_r_invalidate r in (rp_io_set_r s1 (rp_r_set_offset r1 (rp_fpos r1)), 0)
    else
      let rd_size := fm_disk_len pl in
      if max <? rd_size then (s1, JLS_ERROR_TOO_BIG)
      else
        let pos := rp_offset r + SIZEOF_chunk_header in
        let s2 := if pos =? rp_fpos r then s1 else rp_io_set_r s1 (rp_r_set_fpos r pos) in
        let '(s3, b) := rp_bk_fread s2 rd_size in
        let s4 := rp_io_set_buf s3 (rp_buf_put (rp_buf s3) b) (rp_buf_len s3) in
        if rp_len b <? rd_size then (s4, JLS_ERROR_IO)
        else if negb (crc32c (rp_take pl b) =? fm_dec_u32 (rp_skip (rd_size - 4) b)) then (s4, JLS_ERROR_MESSAGE_INTEGRITY)
        else
          let r1 := rp_r_invalidate (rp_r s4) in (rp_io_set_r s4 (rp_r_set_offset r1 (rp_fpos r1)), 0).

(* ---- core.c ---- *)
(* jls_core_rd_chunk.  chunk_cur.offset := chunk_tell; chunk_cur.hdr.tag := INVALID, then the header read;
   JLS_ERROR_TOO_BIG: payload_length > fend gives JLS_ERROR_IO, else jls_buf_realloc (not modelled). *)
Definition rp_rd_chunk (s : rp_io) : rp_io * N :=
  let cur0 := {| wm_ck_offset := rp_offset (rp_r s); wm_ck_hdr := wm_hdr_set_tag (wm_ck_hdr (rp_cur s)) JLS_TAG_INVALID |} in
  let s0 := rp_io_set_cur s cur0 in
  let '(s1, rc1) := rp_raw_rd_header s0 in
  if negb (rc1 =? 0) then (s1, rc1)
  else
    let s2 := rp_io_set_cur s1 {| wm_ck_offset := wm_ck_offset cur0; wm_ck_hdr := rp_hdr (rp_r s1) |} in
    let '(s3, rc2) := rp_raw_rd_payload s2 JLS_BUF_DEFAULT_SIZE in
    if rc2 =? JLS_ERROR_TOO_BIG then
      (if rp_fend (rp_r s3) <? fm_payload_length (wm_ck_hdr (rp_cur s3)) then (s3, JLS_ERROR_IO)
       else (rp_io_fault s3 RpF_big, JLS_ERROR_NOT_ENOUGH_MEMORY))
    else if rc2 =? 0 then (rp_io_set_buf s3 (rp_buf s3) (fm_payload_length (wm_ck_hdr (rp_cur s3))), 0)
    else (s3, rc2).

(* the current payload: buf->start .. buf->end *)
Definition rp_payload (s : rp_io) : list N := rp_take (rp_buf_len s) (rp_buf s).
(* reads of core->buf->start at a byte index (whatever buf->length is): bytes never written are 0 (calloc);
   beyond the allocation the C reads foreign memory *)
Definition rp_buf_sub (s : rp_io) (off n : N) : rp_io * list N :=
  let b := rp_take n (rp_skip off (rp_buf s)) in
  let b1 := b ++ repeat 0 (N.to_nat n - length b) in
  (if JLS_BUF_DEFAULT_SIZE <? off + n then rp_io_fault s RpF_buf else s, b1).
Definition rp_buf_u32 (s : rp_io) (off : N) : rp_io * N := let '(s1, b) := rp_buf_sub s off 4 in (s1, fm_dec b).
Definition rp_buf_u64 (s : rp_io) (off : N) : rp_io * N := let '(s1, b) := rp_buf_sub s off 8 in (s1, fm_dec b).

(* jls_core_rd_chunk_end: the candidates of one window, highest first: offsets 8*i, i = (len-32)/8 .. 1, whose
   32 bytes carry a valid header CRC *)
Fixpoint rp_cands (fuel : nat) (i : N) (d : list N) (acc : list N) : list N :=
  match fuel with
  | O => acc
  | S fu =>
    (* d = data from byte 8*i on *)
    if fm_ch_complete d
    then rp_cands fu (i + 1) (rp_skip 8 d) (if fm_ch_crc_ok d then (8 * i) :: acc else acc)
    else acc
  end.
(* try the candidates in order: Some state = found (raw positioned at the chunk, chunk_cur/buf = that chunk) *)
Fixpoint rp_try_cands (s : rp_io) (pos : N) (cs : list N) : rp_io * bool :=
  match cs with
  | [] => (s, false)
  | c :: r =>
    let pos_final := pos + c in
    let '(s1, rc1) := rp_chunk_seek s pos_final in
    if negb (rc1 =? 0) then (s1, false)          (* JLS_ERROR_IO returned: reported through rp_rd_chunk_end *)
    else
      let '(s2, rc2) := rp_rd_chunk s1 in
      if rc2 =? 0 then (fst (rp_chunk_seek s2 pos_final), true)
      else rp_try_cands s2 pos r
  end.
Definition RpEnd_window : N := 1024.        (* sizeof(uint64_t data[128]) *)
Fixpoint rp_end_loop (fuel : nat) (s : rp_io) (end_pos length : N) : rp_io * N :=
  match fuel with
  | O => (rp_io_fault s RpF_fuel, JLS_ERROR_NOT_FOUND)
  | S fu =>
    if (0 <? end_pos) && (SIZEOF_chunk_header <? length) then
      let pos := end_pos - RpEnd_window in                       (* N subtraction: 0 when negative *)
      let '(s1, _) := rp_bk_fseek s pos in
      let length1 := end_pos - pos in
      let '(s2, d) := rp_bk_fread s1 length1 in
      if rp_len d <? length1 then (s2, JLS_ERROR_EMPTY)
      else if length1 <? SIZEOF_chunk_header then (rp_io_fault s2 RpF_segv, JLS_ERROR_NOT_FOUND)
      else
        let cs := rp_cands (N.to_nat (length1 / 8)) 1 (rp_skip 8 d) [] in
        let '(s3, found) := rp_try_cands s2 pos cs in
        if found then (s3, 0)
        else if pos =? 0 then (s3, JLS_ERROR_NOT_FOUND)             (* whole file scanned (since /repo 966bf8c) *)
        else rp_end_loop fu s3 (pos + SIZEOF_chunk_header) length1  (* overlap by a full header: offset pos is the next window's top candidate *)
    else (s, JLS_ERROR_NOT_FOUND)
  end.
Definition rp_rd_chunk_end (s : rp_io) : rp_io * N :=
  let end_pos := (rp_fend (rp_r s) / 8) * 8 in
  rp_end_loop (S (S (S (N.to_nat (end_pos / 992))))) s end_pos end_pos.

(* ---- signals ---- *)
Record rp_sig := {
  rp_sg_sigid : N;            (* signal_def.signal_id: equal to the array index means "valid" *)
  rp_sg_def_off : N;          (* chunk_def.offset *)
  rp_sg_d : sigdef;           (* source_id, signal_type, data_type, sample_rate, the six factors; sg_id = the index *)
  rp_sg_sid0 : Z;             (* signal_def.sample_id_offset *)
  rp_sg_tk : list (bool * wm_track);     (* tracks[4]: parent != NULL, the track *)
  rp_sg_fsr : option wm_fsr }.           (* track_fsr *)
Definition rp_sigdef0 (id : N) : sigdef :=
  {| sg_id := id; sg_src := 0; sg_type := 0; sg_dtype := 0; sg_rate := 0; sg_spd := 0; sg_sdf := 0; sg_eps := 0;
     sg_sumdf := 0; sg_adf := 0; sg_udf := 0; sg_name := SNull; sg_units := SNull |}.
Definition rp_tracks0 : list (bool * wm_track) :=
  [(false, wm_track0 0); (false, wm_track0 0); (false, wm_track0 0); (false, wm_track0 0)].
Definition rp_sig0 (id : N) : rp_sig :=
  {| rp_sg_sigid := 0; rp_sg_def_off := 0; rp_sg_d := rp_sigdef0 id; rp_sg_sid0 := 0%Z; rp_sg_tk := rp_tracks0; rp_sg_fsr := None |}.
Definition rp_sg_set_tk (g : rp_sig) (l : list (bool * wm_track)) : rp_sig :=
  {| rp_sg_sigid := rp_sg_sigid g; rp_sg_def_off := rp_sg_def_off g; rp_sg_d := rp_sg_d g; rp_sg_sid0 := rp_sg_sid0 g;
     rp_sg_tk := l; rp_sg_fsr := rp_sg_fsr g |}.
Definition rp_sg_set_fsr (g : rp_sig) (f : option wm_fsr) : rp_sig :=
  {| rp_sg_sigid := rp_sg_sigid g; rp_sg_def_off := rp_sg_def_off g; rp_sg_d := rp_sg_d g; rp_sg_sid0 := rp_sg_sid0 g;
     rp_sg_tk := rp_sg_tk g; rp_sg_fsr := f |}.
Definition rp_sg_set_sid0 (g : rp_sig) (z : Z) : rp_sig :=
  {| rp_sg_sigid := rp_sg_sigid g; rp_sg_def_off := rp_sg_def_off g; rp_sg_d := rp_sg_d g; rp_sg_sid0 := z;
     rp_sg_tk := rp_sg_tk g; rp_sg_fsr := rp_sg_fsr g |}.
Definition rp_sg_track (g : rp_sig) (ty : N) : bool * wm_track := nth (N.to_nat ty) (rp_sg_tk g) (false, wm_track0 0).

(* the reader's jls_core_s *)
Record rp_rd := {
  rp_io_ : rp_io;
  rp_src_head : wm_chunk; rp_sig_head : wm_chunk; rp_ud_head : wm_chunk;
  rp_sigs : list rp_sig }.                 (* signal_info[256] *)
Definition rp_rd_set_io (c : rp_rd) (s : rp_io) : rp_rd :=
  {| rp_io_ := s; rp_src_head := rp_src_head c; rp_sig_head := rp_sig_head c; rp_ud_head := rp_ud_head c; rp_sigs := rp_sigs c |}.
Definition rp_rd_set_sigs (c : rp_rd) (l : list rp_sig) : rp_rd :=
  {| rp_io_ := rp_io_ c; rp_src_head := rp_src_head c; rp_sig_head := rp_sig_head c; rp_ud_head := rp_ud_head c; rp_sigs := l |}.
Definition rp_signal_ids : list N := wm_signal_ids.
Definition rp_rd0 (s : rp_io) : rp_rd :=
  {| rp_io_ := s; rp_src_head := wm_chunk0; rp_sig_head := wm_chunk0; rp_ud_head := wm_chunk0;
     rp_sigs := map rp_sig0 rp_signal_ids |}.
Definition rp_get_sig (c : rp_rd) (id : N) : rp_sig := nth (N.to_nat id) (rp_sigs c) (rp_sig0 id).
Definition rp_put_sig (c : rp_rd) (id : N) (g : rp_sig) : rp_rd := rp_rd_set_sigs c (wm_upd (N.to_nat id) g (rp_sigs c)).
Definition rp_rd_fault (c : rp_rd) (code : N) : rp_rd := rp_rd_set_io c (rp_io_fault (rp_io_ c) code).

(* jls_core_scan_initial *)
Fixpoint rp_scan_initial_loop (fuel : nat) (c : rp_rd) (found : N) : rp_rd * N :=
  match fuel with
  | O => (rp_rd_fault c RpF_fuel, 0)
  | S fu =>
    if found =? 7 then (c, 0)
    else
      let pos := rp_offset (rp_r (rp_io_ c)) in
      let '(s1, rc) := rp_rd_chunk (rp_io_ c) in
      let c1 := rp_rd_set_io c s1 in
      if rc =? JLS_ERROR_EMPTY then (c1, 0)
      else if negb (rc =? 0) then (c1, rc)
      else
        let h := wm_ck_hdr (rp_cur s1) in
        let here := {| wm_ck_offset := pos; wm_ck_hdr := h |} in
        let tag := fm_tag h in
        if tag =? JLS_TAG_USER_DATA then
          rp_scan_initial_loop fu
            (if wm_ck_offset (rp_ud_head c1) =? 0
             then {| rp_io_ := rp_io_ c1; rp_src_head := rp_src_head c1; rp_sig_head := rp_sig_head c1; rp_ud_head := here; rp_sigs := rp_sigs c1 |}
             else c1) (N.lor found 1)
        else if tag =? JLS_TAG_SOURCE_DEF then
          rp_scan_initial_loop fu
            (if wm_ck_offset (rp_src_head c1) =? 0
             then {| rp_io_ := rp_io_ c1; rp_src_head := here; rp_sig_head := rp_sig_head c1; rp_ud_head := rp_ud_head c1; rp_sigs := rp_sigs c1 |}
             else c1) (N.lor found 2)
        else if tag =? JLS_TAG_SIGNAL_DEF then
          rp_scan_initial_loop fu
            (if wm_ck_offset (rp_sig_head c1) =? 0
             then {| rp_io_ := rp_io_ c1; rp_src_head := rp_src_head c1; rp_sig_head := here; rp_ud_head := rp_ud_head c1; rp_sigs := rp_sigs c1 |}
             else c1) (N.lor found 4)
        else rp_scan_initial_loop fu c1 found
  end.
Definition rp_chunk_fuel (s : rp_io) : nat := S (S (N.to_nat (rp_flen s / SIZEOF_chunk_header))).
Definition rp_chain_fuel (s : rp_io) : nat := S (S (length (rp_file s))).
Definition rp_scan_initial (c : rp_rd) : rp_rd * N := rp_scan_initial_loop (rp_chunk_fuel (rp_io_ c)) c 0.

(* jls_buf_rd_str on [cur, end): the rest after the string, or the error.  The terminating 0 may be followed by 0x1f. *)
Fixpoint rp_rd_str_go (l : list N) (n : N) : option (list N) * N :=
  match l with
  | [] => (None, n)
  | b :: r =>
    if b =? 0 then (Some (match r with t :: r' => if t =? 31 then r' else r | [] => r end), n)
    else rp_rd_str_go r (n + 1)
  end.
Definition rp_rd_str (l : list N) : N * list N :=       (* (rc, rest) *)
  match rp_rd_str_go l 0 with
  | (Some r, n) => if JLS_BUF_STRING_SIZE - 1 <? n + 1 then (JLS_ERROR_TOO_BIG, r) else (0, r)
  | (None, n) => if JLS_BUF_STRING_SIZE - 1 <=? n then (JLS_ERROR_TOO_BIG, []) else (JLS_ERROR_EMPTY, [])
  end.
Fixpoint rp_rd_strs (k : nat) (l : list N) : N * list N :=
  match k with
  | O => (0, l)
  | S k' => let '(rc, r) := rp_rd_str l in if rc =? 0 then rp_rd_strs k' r else (rc, r)
  end.
(* the body of the jls_core_scan_sources loop for one chunk: skip 64, five strings *)
Definition rp_source_parse (p : list N) : N :=
  if rp_len p <? 64 then JLS_ERROR_EMPTY else fst (rp_rd_strs 5 (rp_skip 64 p)).

Fixpoint rp_scan_sources_loop (fuel : nat) (s : rp_io) : rp_io * N :=
  match fuel with
  | O => (rp_io_fault s RpF_fuel, 0)
  | S fu =>
    let '(s1, rc) := rp_rd_chunk s in
    if negb (rc =? 0) then (s1, rc)
    else
      let h := wm_ck_hdr (rp_cur s1) in
      let rc2 := if JLS_SOURCE_COUNT <=? fm_chunk_meta h then 0 else rp_source_parse (rp_payload s1) in
      if negb (rc2 =? 0) then (s1, rc2)
      else if fm_item_next h =? 0 then (s1, 0)
      else
        let '(s2, rc3) := rp_chunk_seek s1 (fm_item_next h) in
        if negb (rc3 =? 0) then (s2, rc3) else rp_scan_sources_loop fu s2
  end.
Definition rp_scan_sources (c : rp_rd) : rp_rd * N :=
  let '(s1, rc) := rp_chunk_seek (rp_io_ c) (wm_ck_offset (rp_src_head c)) in
  if negb (rc =? 0) then (rp_rd_set_io c s1, rc)
  else let '(s2, rc2) := rp_scan_sources_loop (rp_chain_fuel s1) s1 in (rp_rd_set_io c s2, rc2).

(* jls_core_signal_validate / _typed / jls_core_validate_track_tag *)
Definition rp_signal_validate (c : rp_rd) (id : N) : N :=
  if JLS_SIGNAL_COUNT <=? id then JLS_ERROR_PARAMETER_INVALID
  else
    let g := rp_get_sig c id in
    if negb (rp_sg_sigid g =? id) then JLS_ERROR_NOT_FOUND
    else if rp_sg_def_off g =? 0 then JLS_ERROR_NOT_FOUND else 0.
Definition rp_signal_validate_typed (c : rp_rd) (id ty : N) : N :=
  let rc := rp_signal_validate c id in
  if negb (rc =? 0) then rc
  else if sg_type (rp_sg_d (rp_get_sig c id)) =? ty then 0 else JLS_ERROR_NOT_SUPPORTED.
Definition rp_validate_track_tag (c : rp_rd) (id tag : N) : N :=
  let rc := rp_signal_validate c id in
  if negb (rc =? 0) then rc
  else
    let tt := fm_tag_track_type tag in
    let st := sg_type (rp_sg_d (rp_get_sig c id)) in
    if st =? JLS_SIGNAL_TYPE_FSR then
      (if (tt =? JLS_TRACK_TYPE_FSR) || (tt =? JLS_TRACK_TYPE_ANNOTATION) || (tt =? JLS_TRACK_TYPE_UTC) then 0 else JLS_ERROR_PARAMETER_INVALID)
    else if st =? JLS_SIGNAL_TYPE_VSR then
      (if (tt =? JLS_TRACK_TYPE_VSR) || (tt =? JLS_TRACK_TYPE_ANNOTATION) then 0 else JLS_ERROR_PARAMETER_INVALID)
    else JLS_ERROR_PARAMETER_INVALID.

(* handle_signal_def: jls_buf_rd_* in sequence; a field is assigned iff it lies inside the payload; the
   definition becomes valid (signal_id := index) iff everything parsed and jls_core_signal_def_validate agrees *)
Definition rp_field (p : list N) (len off sz old : N) : N :=
  if off + sz <=? len then fm_dec (rp_take sz (rp_skip off p)) else old.
Definition rp_handle_signal_def (c : rp_rd) : rp_rd :=
  let s := rp_io_ c in
  let id := fm_chunk_meta (wm_ck_hdr (rp_cur s)) in
  if JLS_SIGNAL_COUNT <=? id then c
  else
    let g := rp_get_sig c id in
    let p := rp_payload s in
    let len := rp_buf_len s in
    let d := rp_sg_d g in
    let d1 := {| sg_id := id; sg_src := rp_field p len 0 2 (sg_src d); sg_type := rp_field p len 2 1 (sg_type d);
                 sg_dtype := rp_field p len 4 4 (sg_dtype d); sg_rate := rp_field p len 8 4 (sg_rate d);
                 sg_spd := rp_field p len 12 4 (sg_spd d); sg_sdf := rp_field p len 16 4 (sg_sdf d);
                 sg_eps := rp_field p len 20 4 (sg_eps d); sg_sumdf := rp_field p len 24 4 (sg_sumdf d);
                 sg_adf := rp_field p len 28 4 (sg_adf d); sg_udf := rp_field p len 32 4 (sg_udf d);
                 sg_name := SNull; sg_units := SNull |} in
    let parsed := (fm_signal_fixed + fm_signal_reserved <=? len)
                  && (fst (rp_rd_strs 2 (rp_skip (fm_signal_fixed + fm_signal_reserved) p)) =? 0) in
    let valid := parsed
                 && (rp_sg_sigid g <? JLS_SIGNAL_COUNT) && (sg_src d1 <? JLS_SOURCE_COUNT)
                 && ((sg_type d1 =? JLS_SIGNAL_TYPE_FSR) || (sg_type d1 =? JLS_SIGNAL_TYPE_VSR))
                 && wm_dt_valid (sg_dtype d1) in
    rp_put_sig c id
      {| rp_sg_sigid := if valid then id else rp_sg_sigid g; rp_sg_def_off := wm_ck_offset (rp_cur s); rp_sg_d := d1;
         rp_sg_sid0 := rp_sg_sid0 g; rp_sg_tk := rp_sg_tk g; rp_sg_fsr := rp_sg_fsr g |}.

(* handle_track_head *)
Fixpoint rp_dec_u64s (k : nat) (l : list N) : list N :=
  match k with O => [] | S k' => fm_dec_u64 l :: rp_dec_u64s k' (rp_skip 8 l) end.
Definition rp_handle_track_head (c : rp_rd) : rp_rd :=
  let s := rp_io_ c in
  let h := wm_ck_hdr (rp_cur s) in
  let id := N.land (fm_chunk_meta h) CORE_SIGNAL_MASK in
  if negb (rp_validate_track_tag c id (fm_tag h) =? 0) then c
  else if negb (rp_buf_len s =? SIZEOF_track_head) then c
  else
    let tt := fm_tag_track_type (fm_tag h) in
    let g := rp_get_sig c id in
    let '(_, t) := rp_sg_track g tt in
    let t1 := {| wm_tk_type := tt; wm_tk_head := rp_cur s; wm_tk_offsets := rp_dec_u64s wm_level_count (rp_payload s);
                 wm_tk_data_head := wm_tk_data_head t; wm_tk_index_head := wm_tk_index_head t;
                 wm_tk_summary_head := wm_tk_summary_head t |} in
    rp_put_sig c id (rp_sg_set_tk g (wm_upd (N.to_nat tt) (true, t1) (rp_sg_tk g))).

(* jls_core_scan_signals (handle_track_def only validates) *)
Fixpoint rp_scan_signals_loop (fuel : nat) (c : rp_rd) : rp_rd * N :=
  match fuel with
  | O => (rp_rd_fault c RpF_fuel, 0)
  | S fu =>
    let '(s1, rc) := rp_rd_chunk (rp_io_ c) in
    let c1 := rp_rd_set_io c s1 in
    if negb (rc =? 0) then (c1, rc)
    else
      let h := wm_ck_hdr (rp_cur s1) in
      let c2 := if fm_tag h =? JLS_TAG_SIGNAL_DEF then rp_handle_signal_def c1
                else if N.land (fm_tag h) 7 =? JLS_TRACK_CHUNK_DEF then c1
                else if N.land (fm_tag h) 7 =? JLS_TRACK_CHUNK_HEAD then rp_handle_track_head c1
                else c1 in
      if fm_item_next h =? 0 then (c2, 0)
      else
        let '(s2, rc3) := rp_chunk_seek (rp_io_ c2) (fm_item_next h) in
        if negb (rc3 =? 0) then (rp_rd_set_io c2 s2, rc3) else rp_scan_signals_loop fu (rp_rd_set_io c2 s2)
  end.
Definition rp_scan_signals (c : rp_rd) : rp_rd * N :=
  let '(s1, rc) := rp_chunk_seek (rp_io_ c) (wm_ck_offset (rp_sig_head c)) in
  if negb (rc =? 0) then (rp_rd_set_io c s1, rc)
  else rp_scan_signals_loop (rp_chain_fuel s1) (rp_rd_set_io c s1).

(* jls_core_scan_fsr_sample_id: signals 1..255 *)
Fixpoint rp_scan_sid_loop (ids : list N) (c : rp_rd) : rp_rd * N :=
  match ids with
  | [] => (c, 0)
  | id :: rest =>
    let g := rp_get_sig c id in
    if negb (rp_sg_sigid g =? id) || negb (sg_type (rp_sg_d g) =? JLS_SIGNAL_TYPE_FSR) then rp_scan_sid_loop rest c
    else
      let offset := wm_get_off (wm_tk_offsets (snd (rp_sg_track g JLS_TRACK_TYPE_FSR))) 0 in
      if offset =? 0 then rp_scan_sid_loop rest c
      else
        let '(s1, rc1) := rp_chunk_seek (rp_io_ c) offset in
        if negb (rc1 =? 0) then (rp_rd_set_io c s1, rc1)
        else
          let '(s2, rc2) := rp_rd_chunk s1 in
          if negb (rc2 =? 0) then (rp_rd_set_io c s2, rc2)
          else if negb (fm_tag (wm_ck_hdr (rp_cur s2)) =? JLS_TAG_TRACK_FSR_DATA) then rp_scan_sid_loop rest (rp_rd_set_io c s2)
          else
            let '(s3, b) := rp_buf_sub s2 0 8 in
            rp_scan_sid_loop rest (rp_put_sig (rp_rd_set_io c s3) id (rp_sg_set_sid0 g (fm_dec_i64 b)))
  end.
Definition rp_scan_fsr_sample_id (c : rp_rd) : rp_rd * N := rp_scan_sid_loop (tl rp_signal_ids) c.
