(* C10, part 2: the timestamp-indexed tracks (WmTs.v: annotations, UTC) never fault.

   Structural invariant sf_ts_ok: 16 level slots, the explicit counts equal the list lengths, every pending
   summary entry has 16 bytes, decimate factor >= 2.
   Quantitative invariant: the weight  W = sum_L nidx_L * dec^L  (sf_ts_w s 0).  An entry added at level 1
   adds dec; a commit of a full level (dec <= nidx_L) never increases the weight of the levels >= L.
   commit(15, NORMAL) - the one fault of this layer - needs W >= dec^16, i.e. dec^15 entries.
   Every top-level name starts with sf_. *)
From Coq Require Import NArith ZArith List Bool Lia Arith.
From Coq Require Import ZifyBool ZifyN ZifyNat.
From JLS Require Import Generated CrcDefs Spec Format FormatProofs WmRaw WmCore WmTs WmProofs SafeProofs.
Import ListNotations.
Local Open Scope N_scope.
Ltac Zify.zify_post_hook ::= Z.div_mod_to_equations.

Local Opaque crc32c.

(* ================================================================ lists: wm_upd / nth / skipn / firstn *)
Lemma sf_nth_upd_same : forall (A : Type) n (v d : A) l, (n < length l)%nat -> nth n (wm_upd n v l) d = v.
Proof. intros A n v d l. revert n. induction l as [|y l IH]; intros [|n] H; cbn in *; try lia; auto. apply IH. lia. Qed.
Lemma sf_nth_upd_other : forall (A : Type) n m (v d : A) l, n <> m -> nth m (wm_upd n v l) d = nth m l d.
Proof.
  intros A n m v d l. revert n m. induction l as [|y l IH]; intros [|n] [|m] H; cbn; try reflexivity; try congruence.
  apply IH. congruence.
Qed.
Lemma sf_firstn_upd : forall (A : Type) n m (v : A) l, (m <= n)%nat -> firstn m (wm_upd n v l) = firstn m l.
Proof.
  intros A n m v l. revert n m. induction l as [|y l IH]; intros [|n] [|m] H; cbn; try reflexivity; try lia.
  f_equal. apply IH. lia.
Qed.
Lemma sf_skipn_upd_lt : forall (A : Type) n m (v : A) l, (n < m)%nat -> skipn m (wm_upd n v l) = skipn m l.
Proof.
  intros A n m v l. revert n m. induction l as [|y l IH]; intros [|n] [|m] H; cbn; try reflexivity; try lia.
  apply IH. lia.
Qed.
Lemma sf_skipn_upd_eq : forall (A : Type) n (v : A) l, (n < length l)%nat -> skipn n (wm_upd n v l) = v :: skipn (S n) l.
Proof.
  intros A n v l. revert n. induction l as [|y l IH]; intros [|n] H; cbn in *; try lia; try reflexivity.
  apply IH. lia.
Qed.
Lemma sf_skipn_nth : forall (A : Type) n (d : A) l, (n < length l)%nat -> skipn n l = nth n l d :: skipn (S n) l.
Proof.
  intros A n d l. revert n. induction l as [|y l IH]; intros [|n] H; cbn in *; try lia; try reflexivity.
  apply IH. lia.
Qed.
Lemma sf_firstn_nth_eq : forall (A : Type) n m (d : A) l l', firstn m l = firstn m l' -> (n < m)%nat -> nth n l d = nth n l' d.
Proof.
  intros A n m d l l' H Hn.
  rewrite <- (firstn_skipn m l), <- (firstn_skipn m l'), H.
  destruct (Nat.lt_ge_cases n (length (firstn m l'))) as [Hl|Hl].
  - rewrite !app_nth1 by assumption. reflexivity.
  - (* both lists are shorter than m: they coincide with their firstn *)
    assert (Hl1 : (length l' <= n)%nat) by (rewrite firstn_length in Hl; lia).
    assert (Hl2 : (length l <= n)%nat).
    { assert (Hx : length (firstn m l) = length (firstn m l')) by (rewrite H; reflexivity). rewrite !firstn_length in Hx. lia. }
    rewrite (firstn_skipn m l'), <- H, (firstn_skipn m l). rewrite !nth_overflow by assumption. reflexivity.
Qed.

(* a weight: entry a at position i counts e a * m * k^i *)
Fixpoint sf_lw {A : Type} (e : A -> N) (k m : N) (l : list A) : N :=
  match l with [] => 0 | a :: r => e a * m + sf_lw e k (m * k) r end.

Lemma sf_lw_zero : forall (A : Type) (e : A -> N) k m l, (forall a, In a l -> e a = 0) -> sf_lw e k m l = 0.
Proof.
  intros A e k m l. revert m. induction l as [|a r IH]; intros m H; [reflexivity|].
  cbn [sf_lw]. rewrite (H a) by now left. rewrite IH by (intros b Hb; apply H; now right). lia.
Qed.

(* ================================================================ the invariant of a ts pyramid *)
Definition sf_tl_ok (lv : wm_ts_level) : Prop :=
  wm_tl_nidx lv = N.of_nat (length (wm_tl_idx lv)) /\ wm_tl_nsum lv = N.of_nat (length (wm_tl_sum lv)) /\
  Forall (fun e => length e = 16%nat) (wm_tl_sum lv).
Definition sf_tlo_ok (o : option wm_ts_level) : Prop := match o with Some lv => sf_tl_ok lv | None => True end.
Definition sf_ts_ok (s : wm_ts) : Prop :=
  length (wm_ts_levels s) = 16%nat /\ Forall sf_tlo_ok (wm_ts_levels s) /\ 2 <= wm_ts_dec s.

Definition sf_ts_e (o : option wm_ts_level) : N := match o with Some lv => wm_tl_nidx lv | None => 0 end.
(* weight of the levels >= L *)
Definition sf_ts_w (s : wm_ts) (L : nat) : N :=
  sf_lw sf_ts_e (wm_ts_dec s) (wm_ts_dec s ^ N.of_nat L) (skipn L (wm_ts_levels s)).

Lemma sf_ts_w_step : forall s L, (L < length (wm_ts_levels s))%nat ->
  sf_ts_w s L = sf_ts_e (nth L (wm_ts_levels s) None) * wm_ts_dec s ^ N.of_nat L + sf_ts_w s (S L).
Proof.
  intros s L H. unfold sf_ts_w. rewrite (sf_skipn_nth _ L None) by exact H. cbn [sf_lw].
  rewrite Nat2N.inj_succ, N.pow_succ_r'. f_equal. f_equal. lia.
Qed.

Lemma sf_ts_open_ok : forall dec, 2 <= dec -> sf_ts_ok (wm_ts_open dec) /\ sf_ts_w (wm_ts_open dec) 0 = 0.
Proof.
  intros dec H. split.
  - unfold sf_ts_ok, wm_ts_open. cbn [wm_ts_levels wm_ts_dec]. split; [reflexivity|]. split; [|exact H].
    apply Forall_forall. intros o Ho. apply repeat_spec in Ho. subst. exact I.
  - unfold sf_ts_w, wm_ts_open. cbn [wm_ts_levels wm_ts_dec skipn]. apply sf_lw_zero.
    intros o Ho. apply repeat_spec in Ho. subst. reflexivity.
Qed.

Lemma sf_ts_get_ok : forall s level lv, sf_ts_ok s -> wm_ts_get s level = Some lv -> sf_tl_ok lv.
Proof.
  intros s level lv (_ & Hf & _) Hg. unfold wm_ts_get in Hg.
  destruct (nth_in_or_default (N.to_nat level) (wm_ts_levels s) None) as [Hin|Heq]; [|congruence].
  rewrite Forall_forall in Hf. specialize (Hf _ Hin). rewrite Hg in Hf. exact Hf.
Qed.

Lemma sf_ts_set_ok : forall s level o, sf_ts_ok s -> sf_tlo_ok o -> sf_ts_ok (wm_ts_set s level o).
Proof.
  intros s level o (H1 & H2 & H3) Ho. unfold sf_ts_ok, wm_ts_set. cbn [wm_ts_levels wm_ts_dec].
  split; [rewrite sf_upd_length; exact H1|]. split; [apply sf_Forall_upd; assumption | exact H3].
Qed.

Lemma sf_tl0_ok : sf_tl_ok wm_ts_level0.
Proof. unfold sf_tl_ok, wm_ts_level0. cbn. repeat split. constructor. Qed.

Lemma sf_ts_alloc_ok : forall s level, sf_ts_ok s -> sf_ts_ok (wm_ts_alloc s level).
Proof.
  intros s level H. unfold wm_ts_alloc. destruct (wm_ts_get s level); [exact H|].
  apply sf_ts_set_ok; [exact H | exact sf_tl0_ok].
Qed.

(* ---- payload lengths ---- *)
Lemma sf_payload_header_length : forall ts n w, length (wm_payload_header ts n w) = 16%nat.
Proof.
  intros. unfold wm_payload_header, fm_encode_payload_header. cbn [fm_ph_timestamp fm_ph_entry_count fm_ph_entry_size_bits fm_ph_rsv16].
  rewrite !app_length, fm_enc_i64_length. unfold fm_enc_u32, fm_enc_u16. rewrite !fm_enc_length. reflexivity.
Qed.
Lemma sf_rev_length : forall (A : Type) (l : list A), length (wm_rev l) = length l.
Proof. intros. rewrite wm_rev_eq. apply rev_length. Qed.
Lemma sf_index_entries_length : forall l, length (flat_map wm_index_entry_bytes l) = (16 * length l)%nat.
Proof.
  induction l as [|e l IH]; [reflexivity|]. cbn [flat_map]. rewrite app_length, IH.
  unfold wm_index_entry_bytes. rewrite app_length, fm_enc_i64_length. unfold fm_enc_u64. rewrite fm_enc_length. cbn [length]. lia.
Qed.
Lemma sf_concat16_length : forall l, Forall (fun e : list N => length e = 16%nat) l -> length (concat l) = (16 * length l)%nat.
Proof.
  induction l as [|e l IH]; intro H; [reflexivity|]. inversion H; subst. cbn [concat]. rewrite app_length, IH by assumption.
  cbn [length]. lia.
Qed.
Lemma sf_Forall_rev : forall (A : Type) (P : A -> Prop) l, Forall P l -> Forall P (wm_rev l).
Proof. intros. rewrite wm_rev_eq. apply Forall_rev. assumption. Qed.

Lemma sf_ts_index_payload_len : forall ts0 lv, sf_tl_ok lv ->
  SIZEOF_payload_header + SIZEOF_index_entry * wm_tl_nidx lv <=
  N.of_nat (length (wm_ts_index_payload ts0 (wm_tl_nidx lv) (wm_rev (wm_tl_idx lv)))).
Proof.
  intros ts0 lv (H1 & _). unfold wm_ts_index_payload. rewrite app_length, sf_payload_header_length, sf_index_entries_length, sf_rev_length, H1.
  unfold SIZEOF_payload_header, SIZEOF_index_entry. lia.
Qed.
Lemma sf_ts_summary_payload_len : forall ts0 lv, sf_tl_ok lv ->
  SIZEOF_payload_header + 16 * wm_tl_nsum lv <=
  N.of_nat (length (wm_ts_summary_payload ts0 (wm_tl_nsum lv) (wm_rev (wm_tl_sum lv)))).
Proof.
  intros ts0 lv (_ & H2 & H3). unfold wm_ts_summary_payload.
  rewrite app_length, sf_payload_header_length, sf_concat16_length by (apply sf_Forall_rev; exact H3).
  rewrite sf_rev_length, H2. unfold SIZEOF_payload_header. lia.
Qed.

(* ================================================================ commit *)
Definition sf_tx_ok (x : wm_tx) : Prop :=
  sf_base_ok (wm_tx_base x) /\ sf_tk (sf_bdisk (wm_tx_base x)) (wm_tx_tk x) /\ sf_ts_ok (wm_tx_ts x).

Lemma sf_ts_commit_S : forall f signal_id close level x,
  wm_ts_commit (S f) signal_id close level x =
    match wm_ts_get (wm_tx_ts x) level with
    | None => x
    | Some lv =>
      if wm_tl_nidx lv =? 0 then x
      else if negb close && (JLS_SUMMARY_LEVEL_COUNT <=? level + 1) then wm_tx_fault x
      else
        let s1 := if close then wm_tx_ts x else wm_ts_alloc (wm_tx_ts x) (level + 1) in
        let idx := wm_rev (wm_tl_idx lv) in
        let sums := wm_rev (wm_tl_sum lv) in
        let ts0 := fst (hd (0%Z, 0) idx) in
        let offset := wm_raw_chunk_tell (wm_b_raw (wm_tx_base x)) in
        let '(b1, t1) := wm_core_wr_index (wm_tx_base x) signal_id (wm_tx_tk x) level
                           (wm_ts_index_payload ts0 (wm_tl_nidx lv) idx)
                           (SIZEOF_payload_header + SIZEOF_index_entry * wm_tl_nidx lv) in
        let s2 := match wm_ts_get s1 (level + 1) with
                  | None => s1
                  | Some up =>
                    let up1 := wm_tl_push_idx up (ts0, offset) in
                    let up2 := if close then up1 else wm_tl_push_sum up1 (hd wm_zero16 sums) in
                    wm_ts_set s1 (level + 1) (Some up2)
                  end in
        let '(b2, t2) := wm_core_wr_summary b1 signal_id t1 level
                           (wm_ts_summary_payload ts0 (wm_tl_nsum lv) sums)
                           (SIZEOF_payload_header + 16 * wm_tl_nsum lv) in
        let x2 := {| wm_tx_base := b2; wm_tx_tk := t2; wm_tx_ts := s2 |} in
        let x3 := match wm_ts_get s2 (level + 1) with
                  | Some up => if wm_ts_dec s2 <=? wm_tl_nidx up then wm_ts_commit f signal_id close (level + 1) x2 else x2
                  | None => x2
                  end in
        wm_tx_set_ts x3 (wm_ts_set (wm_tx_ts x3) level (Some wm_ts_level0))
    end.
Proof. reflexivity. Qed.

Lemma sf_ts_get_nth : forall s level, wm_ts_get s level = nth (N.to_nat level) (wm_ts_levels s) None.
Proof. reflexivity. Qed.

Lemma sf_ts_set_dec : forall s level o, wm_ts_dec (wm_ts_set s level o) = wm_ts_dec s.
Proof. reflexivity. Qed.
Lemma sf_ts_alloc_dec : forall s level, wm_ts_dec (wm_ts_alloc s level) = wm_ts_dec s.
Proof. intros. unfold wm_ts_alloc. destruct (wm_ts_get s level); reflexivity. Qed.

(* weight of the levels >= L after a set at level n *)
Lemma sf_ts_w_set_lt : forall s n o L, (N.to_nat n < L)%nat -> sf_ts_w (wm_ts_set s n o) L = sf_ts_w s L.
Proof. intros s n o L H. unfold sf_ts_w, wm_ts_set. cbn [wm_ts_levels wm_ts_dec]. rewrite sf_skipn_upd_lt by exact H. reflexivity. Qed.
Lemma sf_ts_w_set_eq : forall s n o, (N.to_nat n < length (wm_ts_levels s))%nat ->
  sf_ts_w (wm_ts_set s n o) (N.to_nat n) = sf_ts_e o * wm_ts_dec s ^ n + sf_ts_w s (S (N.to_nat n)).
Proof.
  intros s n o H. rewrite sf_ts_w_step by (unfold wm_ts_set; cbn [wm_ts_levels]; rewrite sf_upd_length; exact H).
  rewrite sf_ts_w_set_lt by lia. unfold wm_ts_set at 1 2. cbn [wm_ts_levels wm_ts_dec].
  rewrite sf_nth_upd_same by exact H. rewrite N2Nat.id. reflexivity.
Qed.

Lemma sf_ts_alloc_get : forall s level, sf_ts_ok s -> level < 16 -> exists up, wm_ts_get (wm_ts_alloc s level) level = Some up.
Proof.
  intros s level (Hl & _) Hlv. unfold wm_ts_alloc. destruct (wm_ts_get s level) as [up|] eqn:E.
  - exists up. exact E.
  - exists wm_ts_level0. unfold wm_ts_get, wm_ts_set. cbn [wm_ts_levels]. apply sf_nth_upd_same. lia.
Qed.
Lemma sf_ts_alloc_w : forall s level L, sf_ts_w (wm_ts_alloc s level) L = sf_ts_w s L.
Proof.
  intros s level L. unfold wm_ts_alloc. destruct (wm_ts_get s level) as [up|] eqn:E; [reflexivity|].
  unfold sf_ts_w, wm_ts_set. cbn [wm_ts_levels wm_ts_dec]. set (k := wm_ts_dec s). generalize (k ^ N.of_nat L).
  unfold wm_ts_get in E. revert E. generalize (N.to_nat level). generalize (wm_ts_levels s). clear.
  intros l n E m. revert n L m E.
  induction l as [|a l IH]; intros n L m E; [destruct n; reflexivity|].
  destruct n as [|n]; destruct L as [|L]; cbn [wm_upd skipn sf_lw nth] in *.
  - subst a. reflexivity.
  - reflexivity.
  - f_equal. apply (IH n 0%nat). exact E.
  - apply IH. exact E.
Qed.
Lemma sf_ts_alloc_firstn : forall s level L, (L <= N.to_nat level)%nat ->
  firstn L (wm_ts_levels (wm_ts_alloc s level)) = firstn L (wm_ts_levels s).
Proof.
  intros s level L H. unfold wm_ts_alloc. destruct (wm_ts_get s level); [reflexivity|].
  unfold wm_ts_set. cbn [wm_ts_levels]. apply sf_firstn_upd. exact H.
Qed.

Lemma sf_pow_le_mul : forall d n L, d <= n -> d ^ N.succ L <= n * d ^ L.
Proof. intros d n L H. rewrite N.pow_succ_r'. apply N.mul_le_mono_r. exact H. Qed.

Lemma sf_ts_commit_spec : forall fuel sid close L x,
  sf_tx_ok x -> 1 <= L <= 15 -> (16 <= fuel + N.to_nat L)%nat ->
  (close = false -> exists lv, wm_ts_get (wm_tx_ts x) L = Some lv /\ wm_ts_dec (wm_tx_ts x) <= wm_tl_nidx lv /\
                               sf_ts_w (wm_tx_ts x) (N.to_nat L) < wm_ts_dec (wm_tx_ts x) ^ 16) ->
  let x' := wm_ts_commit fuel sid close L x in
  sf_tx_ok x' /\ sf_bext (wm_tx_base x) (wm_tx_base x') /\ wm_ts_dec (wm_tx_ts x') = wm_ts_dec (wm_tx_ts x) /\
  firstn (N.to_nat L) (wm_ts_levels (wm_tx_ts x')) = firstn (N.to_nat L) (wm_ts_levels (wm_tx_ts x)) /\
  (close = false -> sf_ts_w (wm_tx_ts x') (N.to_nat L) <= sf_ts_w (wm_tx_ts x) (N.to_nat L)).
Proof.
  induction fuel as [|f IH]; intros sid close L x Hx HL Hfuel Hn; [lia|].
  cbv zeta. rewrite sf_ts_commit_S.
  assert (Htriv : sf_tx_ok x /\ sf_bext (wm_tx_base x) (wm_tx_base x) /\ wm_ts_dec (wm_tx_ts x) = wm_ts_dec (wm_tx_ts x) /\
                  firstn (N.to_nat L) (wm_ts_levels (wm_tx_ts x)) = firstn (N.to_nat L) (wm_ts_levels (wm_tx_ts x)) /\
                  (close = false -> sf_ts_w (wm_tx_ts x) (N.to_nat L) <= sf_ts_w (wm_tx_ts x) (N.to_nat L))).
  { split; [exact Hx|]. split; [apply sf_bext_refl|]. split; [reflexivity|]. split; [reflexivity|]. intros _. apply N.le_refl. }
  destruct (wm_ts_get (wm_tx_ts x) L) as [lv|] eqn:Eg; [|exact Htriv].
  destruct (wm_tl_nidx lv =? 0) eqn:E0; [exact Htriv|]. clear Htriv. apply N.eqb_neq in E0.
  destruct Hx as (Hb & Htk & Hts). pose proof Hts as (Hlen & Hfa & Hdec).
  set (dec := wm_ts_dec (wm_tx_ts x)) in *.
  pose proof (sf_ts_get_ok _ _ _ Hts Eg) as Hlv.
  assert (Hn' : close = false -> dec <= wm_tl_nidx lv /\ sf_ts_w (wm_tx_ts x) (N.to_nat L) < dec ^ 16).
  { intro Hc. destruct (Hn Hc) as (lv' & Hg' & Hge & Hw). inversion Hg'; subst lv'. split; assumption. }
  clear Hn.
  assert (HLnat : (N.to_nat L < 16)%nat) by lia.
  assert (Hstep : sf_ts_w (wm_tx_ts x) (N.to_nat L) = wm_tl_nidx lv * dec ^ L + sf_ts_w (wm_tx_ts x) (S (N.to_nat L))).
  { rewrite sf_ts_w_step by lia. rewrite <- sf_ts_get_nth, Eg. cbn [sf_ts_e]. rewrite N2Nat.id. reflexivity. }
  destruct (negb close && (JLS_SUMMARY_LEVEL_COUNT <=? L + 1)) eqn:Ef.
  { (* commit(15, NORMAL): excluded by the weight *)
    apply andb_true_iff in Ef. destruct Ef as [Ec E16]. apply negb_true_iff in Ec. apply N.leb_le in E16.
    unfold JLS_SUMMARY_LEVEL_COUNT in E16. assert (L = 15) by lia. subst L.
    destruct (Hn' Ec) as (Hge & Hw).
    exfalso. rewrite Hstep in Hw.
    assert (dec ^ 16 <= wm_tl_nidx lv * dec ^ 15) by (apply (sf_pow_le_mul dec (wm_tl_nidx lv) 15); exact Hge). lia. }
  assert (HLc : close = false -> L + 1 <= 15).
  { intro Hc. subst close. cbn [negb andb] in Ef. apply N.leb_gt in Ef. unfold JLS_SUMMARY_LEVEL_COUNT in Ef. lia. }
  (* the body *)
  set (s1 := if close then wm_tx_ts x else wm_ts_alloc (wm_tx_ts x) (L + 1)).
  assert (Hs1 : sf_ts_ok s1 /\ wm_ts_dec s1 = dec /\
                firstn (S (N.to_nat L)) (wm_ts_levels s1) = firstn (S (N.to_nat L)) (wm_ts_levels (wm_tx_ts x)) /\
                (forall K, sf_ts_w s1 K = sf_ts_w (wm_tx_ts x) K)).
  { subst s1. destruct close.
    - split; [exact Hts|]. split; [reflexivity|]. split; [reflexivity|]. reflexivity.
    - split; [apply sf_ts_alloc_ok; exact Hts|]. split; [apply sf_ts_alloc_dec|].
      split; [apply sf_ts_alloc_firstn; lia|]. intro K. apply sf_ts_alloc_w. }
  destruct Hs1 as (Hs1ok & Hs1dec & Hs1fn & Hs1w).
  cbv zeta.
  destruct (wm_core_wr_index (wm_tx_base x) sid (wm_tx_tk x) L _ _) as [b1 t1] eqn:Ei.
  destruct (sf_core_wr_index _ _ _ _ _ _ _ _ Hb Htk (sf_ts_index_payload_len _ lv Hlv) Ei) as (Hb1 & He1 & Ht1 & _).
  set (idx := wm_rev (wm_tl_idx lv)) in *. set (sums := wm_rev (wm_tl_sum lv)) in *.
  set (ts0 := fst (hd (0%Z, 0) idx)) in *. set (offset := wm_raw_chunk_tell (wm_b_raw (wm_tx_base x))) in *.
  set (s2 := match wm_ts_get s1 (L + 1) with
             | None => s1
             | Some up => wm_ts_set s1 (L + 1) (Some (if close then wm_tl_push_idx up (ts0, offset)
                                                       else wm_tl_push_sum (wm_tl_push_idx up (ts0, offset)) (hd wm_zero16 sums)))
             end).
  destruct (wm_core_wr_summary b1 sid t1 L _ _) as [b2 t2] eqn:Es.
  destruct (sf_core_wr_summary _ _ _ _ _ _ _ _ Hb1 Ht1 (sf_ts_summary_payload_len _ lv Hlv) Es) as (Hb2 & He2 & Ht2 & _).
  assert (Hhd16 : length (hd wm_zero16 sums) = 16%nat).
  { destruct Hlv as (_ & _ & H16). apply (sf_Forall_rev _ _ _) in H16. fold sums in H16.
    destruct sums as [|e r]; [reflexivity|]. inversion H16; subst. assumption. }
  assert (HL1 : (N.to_nat (L + 1) = S (N.to_nat L))%nat) by lia.
  assert (Hlen1 : length (wm_ts_levels s1) = 16%nat) by apply Hs1ok.
  (* s2 *)
  assert (Hs2 : sf_ts_ok s2 /\ wm_ts_dec s2 = dec /\
                firstn (S (N.to_nat L)) (wm_ts_levels s2) = firstn (S (N.to_nat L)) (wm_ts_levels (wm_tx_ts x)) /\
                (close = false -> exists up2, wm_ts_get s2 (L + 1) = Some up2 /\
                                  sf_ts_w s2 (S (N.to_nat L)) = dec ^ (L + 1) + sf_ts_w (wm_tx_ts x) (S (N.to_nat L)))).
  { subst s2. destruct (wm_ts_get s1 (L + 1)) as [up|] eqn:Eup.
    - pose proof (sf_ts_get_ok _ _ _ Hs1ok Eup) as (U1 & U2 & U3).
      split; [|split; [|split]].
      + apply sf_ts_set_ok; [exact Hs1ok|]. cbn [sf_tlo_ok]. destruct close.
        * unfold sf_tl_ok, wm_tl_push_idx. cbn [wm_tl_nidx wm_tl_idx wm_tl_nsum wm_tl_sum length].
          split; [lia|]. split; assumption.
        * unfold sf_tl_ok, wm_tl_push_sum, wm_tl_push_idx. cbn [wm_tl_nidx wm_tl_idx wm_tl_nsum wm_tl_sum length].
          split; [lia|]. split; [lia|]. constructor; assumption.
      + rewrite sf_ts_set_dec. exact Hs1dec.
      + unfold wm_ts_set. cbn [wm_ts_levels]. rewrite sf_firstn_upd by lia. exact Hs1fn.
      + intro Hc. specialize (HLc Hc). subst close. eexists. split.
        * unfold wm_ts_get, wm_ts_set. cbn [wm_ts_levels]. apply sf_nth_upd_same. lia.
        * rewrite <- HL1. rewrite sf_ts_w_set_eq by lia. rewrite HL1.
          cbn [sf_ts_e]. unfold wm_tl_push_sum, wm_tl_push_idx. cbn [wm_tl_nidx]. rewrite Hs1dec.
          rewrite <- (Hs1w (S (N.to_nat L))). rewrite (sf_ts_w_step s1 (S (N.to_nat L))) by lia.
          rewrite <- HL1, <- sf_ts_get_nth, Eup. cbn [sf_ts_e]. rewrite Hs1dec, HL1.
          replace (N.of_nat (S (N.to_nat L))) with (L + 1) by lia.
          generalize (dec ^ (L + 1)). intro pw. nia.
    - split; [exact Hs1ok|]. split; [exact Hs1dec|]. split; [exact Hs1fn|].
      intro Hc. specialize (HLc Hc). subst close. exfalso. subst s1. cbv iota in Eup.
      destruct (sf_ts_alloc_get (wm_tx_ts x) (L + 1) Hts) as [up Hup]; [lia|]. congruence. }
  destruct Hs2 as (Hs2ok & Hs2dec & Hs2fn & Hs2w).
  set (x2 := {| wm_tx_base := b2; wm_tx_tk := t2; wm_tx_ts := s2 |}).
  assert (Hx2 : sf_tx_ok x2) by (split; [exact Hb2|]; split; [exact Ht2 | exact Hs2ok]).
  assert (Hext2 : sf_bext (wm_tx_base x) b2) by (eapply sf_bext_trans; eassumption).
  (* x3 *)
  set (x3 := match wm_ts_get s2 (L + 1) with
             | Some up => if wm_ts_dec s2 <=? wm_tl_nidx up then wm_ts_commit f sid close (L + 1) x2 else x2
             | None => x2
             end).
  assert (Hx3 : sf_tx_ok x3 /\ sf_bext b2 (wm_tx_base x3) /\ wm_ts_dec (wm_tx_ts x3) = dec /\
                firstn (S (N.to_nat L)) (wm_ts_levels (wm_tx_ts x3)) = firstn (S (N.to_nat L)) (wm_ts_levels s2) /\
                (close = false -> sf_ts_w (wm_tx_ts x3) (S (N.to_nat L)) <= sf_ts_w s2 (S (N.to_nat L)))).
  { assert (Htriv : sf_tx_ok x2 /\ sf_bext b2 (wm_tx_base x2) /\ wm_ts_dec (wm_tx_ts x2) = dec /\
                firstn (S (N.to_nat L)) (wm_ts_levels (wm_tx_ts x2)) = firstn (S (N.to_nat L)) (wm_ts_levels s2) /\
                (close = false -> sf_ts_w (wm_tx_ts x2) (S (N.to_nat L)) <= sf_ts_w s2 (S (N.to_nat L)))).
    { split; [exact Hx2|]. split; [apply sf_bext_refl|]. split; [exact Hs2dec|]. split; [reflexivity|]. intros _. apply N.le_refl. }
    subst x3. destruct (wm_ts_get s2 (L + 1)) as [up|] eqn:Eup; [|exact Htriv].
    destruct (wm_ts_dec s2 <=? wm_tl_nidx up) eqn:Efull; [|exact Htriv]. clear Htriv.
    apply N.leb_le in Efull.
    assert (HL15 : L + 1 <= 15).
    { (* level 16 does not exist *)
      destruct (N.le_gt_cases (L + 1) 15) as [Hle|Hgt]; [exact Hle|]. exfalso.
      unfold wm_ts_get in Eup. rewrite nth_overflow in Eup by (destruct Hs2ok as (Hl2 & _); lia). discriminate. }
    assert (Hpre : close = false -> exists lv0, wm_ts_get (wm_tx_ts x2) (L + 1) = Some lv0 /\
                     wm_ts_dec (wm_tx_ts x2) <= wm_tl_nidx lv0 /\
                     sf_ts_w (wm_tx_ts x2) (N.to_nat (L + 1)) < wm_ts_dec (wm_tx_ts x2) ^ 16).
    { intro Hc. exists up. cbn [x2 wm_tx_ts]. split; [exact Eup|]. split; [exact Efull|].
      destruct (Hs2w Hc) as (up2 & _ & Hw2). rewrite HL1, Hw2, Hs2dec.
      destruct (Hn' Hc) as (Hge & Hw).
      rewrite Hstep in Hw.
      assert (dec ^ (L + 1) <= wm_tl_nidx lv * dec ^ L).
      { rewrite N.add_1_r. apply sf_pow_le_mul. exact Hge. }
      lia. }
    destruct (IH sid close (L + 1) x2 Hx2 (conj (N.le_trans _ _ _ (proj1 HL) (N.le_add_r _ _)) HL15) ltac:(lia) Hpre) as (K1 & K2 & K3 & K4 & K5).
    cbv zeta in K1, K2, K3, K4, K5. cbn [x2 wm_tx_base wm_tx_ts] in K2, K3, K4, K5. rewrite HL1 in K4, K5.
    split; [exact K1|]. split; [exact K2|]. split; [rewrite K3; exact Hs2dec|]. split; [exact K4 | exact K5]. }
  destruct Hx3 as (Hx3ok & Hx3e & Hx3dec & Hx3fn & Hx3w).
  destruct Hx3ok as (Hb3 & Ht3 & Hs3).
  assert (Hlen3 : length (wm_ts_levels (wm_tx_ts x3)) = 16%nat) by apply Hs3.
  split; [|split; [|split; [|split]]].
  - unfold sf_tx_ok, wm_tx_set_ts. cbn [wm_tx_base wm_tx_tk wm_tx_ts].
    split; [exact Hb3|]. split; [exact Ht3|]. apply sf_ts_set_ok; [exact Hs3 | exact sf_tl0_ok].
  - unfold wm_tx_set_ts. cbn [wm_tx_base]. eapply sf_bext_trans; [exact Hext2 | exact Hx3e].
  - unfold wm_tx_set_ts. cbn [wm_tx_ts]. rewrite sf_ts_set_dec. exact Hx3dec.
  - unfold wm_tx_set_ts, wm_ts_set. cbn [wm_tx_ts wm_ts_levels]. rewrite sf_firstn_upd by lia.
    assert (Hfn : firstn (S (N.to_nat L)) (wm_ts_levels (wm_tx_ts x3)) = firstn (S (N.to_nat L)) (wm_ts_levels (wm_tx_ts x))) by congruence.
    apply (f_equal (firstn (N.to_nat L))) in Hfn. rewrite !firstn_firstn in Hfn.
    rewrite Nat.min_l in Hfn by lia. exact Hfn.
  - intro Hc. unfold wm_tx_set_ts. cbn [wm_tx_ts].
    rewrite sf_ts_w_set_eq by lia. cbn [sf_ts_e wm_ts_level0 wm_tl_nidx].
    destruct (Hs2w Hc) as (up2 & _ & Hw2). specialize (Hx3w Hc). rewrite Hw2 in Hx3w.
    rewrite Hstep.
    destruct (Hn' Hc) as (Hge & Hw).
    assert (dec ^ (L + 1) <= wm_tl_nidx lv * dec ^ L).
    { rewrite N.add_1_r. apply sf_pow_le_mul. exact Hge. }
    lia.
Qed.

(* ================================================================ jls_wr_ts_anno / jls_wr_ts_utc *)
Lemma sf_ts_add_spec : forall sid x ts offset entry,
  sf_tx_ok x -> length entry = 16%nat ->
  sf_ts_w (wm_tx_ts x) 1 + wm_ts_dec (wm_tx_ts x) < wm_ts_dec (wm_tx_ts x) ^ 16 ->
  let x' := wm_ts_add sid x ts offset entry in
  sf_tx_ok x' /\ sf_bext (wm_tx_base x) (wm_tx_base x') /\ wm_ts_dec (wm_tx_ts x') = wm_ts_dec (wm_tx_ts x) /\
  sf_ts_w (wm_tx_ts x') 1 <= sf_ts_w (wm_tx_ts x) 1 + wm_ts_dec (wm_tx_ts x).
Proof.
  intros sid x ts offset entry Hx He Hw. cbv zeta. unfold wm_ts_add.
  destruct Hx as (Hb & Htk & Hts). pose proof Hts as (Hlen & Hfa & Hdec).
  set (dec := wm_ts_dec (wm_tx_ts x)) in *.
  destruct (dec <=? 1) eqn:E1; [apply N.leb_le in E1; lia|].
  destruct (sf_ts_alloc_get (wm_tx_ts x) 1 Hts) as [lv Hlv]; [lia|]. rewrite Hlv.
  pose proof (sf_ts_alloc_ok (wm_tx_ts x) 1 Hts) as Hs1.
  pose proof (sf_ts_get_ok _ _ _ Hs1 Hlv) as (L1 & L2 & L3).
  set (lv1 := wm_tl_push_sum (wm_tl_push_idx lv (ts, offset)) entry).
  set (s2 := wm_ts_set (wm_ts_alloc (wm_tx_ts x) 1) 1 (Some lv1)).
  assert (Hs2 : sf_ts_ok s2).
  { apply sf_ts_set_ok; [exact Hs1|]. cbn [sf_tlo_ok]. unfold sf_tl_ok, lv1, wm_tl_push_sum, wm_tl_push_idx.
    cbn [wm_tl_nidx wm_tl_idx wm_tl_nsum wm_tl_sum length]. split; [lia|]. split; [lia|]. constructor; assumption. }
  assert (Hlen1 : length (wm_ts_levels (wm_ts_alloc (wm_tx_ts x) 1)) = 16%nat) by apply Hs1.
  assert (Hw2 : sf_ts_w s2 1 = sf_ts_w (wm_tx_ts x) 1 + dec).
  { subst s2. change 1%nat with (N.to_nat 1). rewrite sf_ts_w_set_eq by (rewrite Hlen1; cbn; lia).
    rewrite sf_ts_alloc_dec. fold dec. cbn [sf_ts_e]. unfold lv1, wm_tl_push_sum, wm_tl_push_idx. cbn [wm_tl_nidx].
    rewrite <- (sf_ts_alloc_w (wm_tx_ts x) 1 (N.to_nat 1)).
    rewrite (sf_ts_w_step (wm_ts_alloc (wm_tx_ts x) 1) (N.to_nat 1)) by (rewrite Hlen1; cbn; lia).
    rewrite <- sf_ts_get_nth, Hlv. cbn [sf_ts_e]. rewrite sf_ts_alloc_dec. fold dec.
    change (N.of_nat (N.to_nat 1)) with 1. rewrite N.pow_1_r. nia. }
  assert (Hd2 : wm_ts_dec s2 = dec) by (subst s2; rewrite sf_ts_set_dec; apply sf_ts_alloc_dec).
  assert (Hg2 : wm_ts_get s2 1 = Some lv1).
  { subst s2. unfold wm_ts_get, wm_ts_set. cbn [wm_ts_levels]. apply sf_nth_upd_same. rewrite Hlen1. cbn. lia. }
  set (x1 := wm_tx_set_ts x s2).
  assert (Hx1 : sf_tx_ok x1) by (split; [exact Hb|]; split; [exact Htk | exact Hs2]).
  destruct (dec <=? wm_tl_nidx lv1) eqn:Efull.
  - apply N.leb_le in Efull.
    assert (Hpre : false = false -> exists lv0, wm_ts_get (wm_tx_ts x1) 1 = Some lv0 /\ wm_ts_dec (wm_tx_ts x1) <= wm_tl_nidx lv0 /\
                      sf_ts_w (wm_tx_ts x1) (N.to_nat 1) < wm_ts_dec (wm_tx_ts x1) ^ 16).
    { intros _. exists lv1. cbn [x1 wm_tx_set_ts wm_tx_ts]. rewrite Hd2. split; [exact Hg2|]. split; [exact Efull|].
      change (N.to_nat 1) with 1%nat. rewrite Hw2. exact Hw. }
    destruct (sf_ts_commit_spec wm_level_count sid false 1 x1 Hx1 ltac:(lia) ltac:(cbn; lia) Hpre) as (K1 & K2 & K3 & _ & K5).
    cbv zeta in K1, K2, K3, K5. cbn [x1 wm_tx_set_ts wm_tx_base wm_tx_ts] in K2, K3, K5.
    split; [exact K1|]. split; [exact K2|]. split; [rewrite K3; exact Hd2|].
    specialize (K5 eq_refl). change (N.to_nat 1) with 1%nat in K5. rewrite Hw2 in K5. exact K5.
  - split; [exact Hx1|]. split; [apply sf_bext_refl|]. split; [exact Hd2|]. cbn [x1 wm_tx_set_ts wm_tx_ts]. rewrite Hw2. apply N.le_refl.
Qed.

(* ================================================================ jls_wr_ts_close *)
Lemma sf_ts_close_step : forall sid L x0, sf_tx_ok x0 -> 1 <= L <= 15 ->
  sf_tx_ok (wm_ts_commit wm_level_count sid true L x0) /\
  sf_bext (wm_tx_base x0) (wm_tx_base (wm_ts_commit wm_level_count sid true L x0)).
Proof.
  intros sid L x0 H0 HL.
  assert (Hfuel : (16 <= wm_level_count + N.to_nat L)%nat) by (unfold wm_level_count, JLS_SUMMARY_LEVEL_COUNT; lia).
  assert (Hpre : true = false -> exists lv, wm_ts_get (wm_tx_ts x0) L = Some lv /\ wm_ts_dec (wm_tx_ts x0) <= wm_tl_nidx lv /\
                               sf_ts_w (wm_tx_ts x0) (N.to_nat L) < wm_ts_dec (wm_tx_ts x0) ^ 16) by discriminate.
  pose proof (sf_ts_commit_spec wm_level_count sid true L x0 H0 HL Hfuel Hpre) as K.
  cbv zeta in K. destruct K as (K1 & K2 & _). split; assumption.
Qed.

(* generic: an invariant with a transitive extension relation through fold_left *)
Lemma sf_fold_inv : forall (X A : Type) (ok : X -> Prop) (ext : X -> X -> Prop) (rng : A -> Prop) (step : X -> A -> X),
  (forall x, ext x x) -> (forall a b c, ext a b -> ext b c -> ext a c) ->
  (forall x a, ok x -> rng a -> ok (step x a) /\ ext x (step x a)) ->
  forall ls x0, ok x0 -> Forall rng ls -> ok (fold_left step ls x0) /\ ext x0 (fold_left step ls x0).
Proof.
  intros X A ok ext rng step Hrefl Htrans Hstep.
  induction ls as [|a ls IH]; intros x0 H0 Hls; [split; [exact H0 | apply Hrefl]|].
  inversion Hls as [|? ? Ha Hls']; subst. cbn [fold_left].
  destruct (Hstep x0 a H0 Ha) as [K1 K2].
  destruct (IH _ K1 Hls') as [J1 J2]. split; [exact J1 | eapply Htrans; eassumption].
Qed.

Lemma sf_close_levels_range : Forall (fun L => 1 <= L <= 15) wm_close_levels.
Proof. unfold wm_close_levels. repeat (constructor; [lia|]). constructor. Qed.

Lemma sf_ts_close_spec : forall sid x, sf_tx_ok x ->
  sf_tx_ok (wm_ts_close sid x) /\ sf_bext (wm_tx_base x) (wm_tx_base (wm_ts_close sid x)).
Proof.
  intros sid x Hx. unfold wm_ts_close.
  apply (sf_fold_inv wm_tx N sf_tx_ok (fun a b => sf_bext (wm_tx_base a) (wm_tx_base b)) (fun L => 1 <= L <= 15)
           (fun x1 level => wm_ts_commit wm_level_count sid true level x1)).
  - intro a. apply sf_bext_refl.
  - intros a b c. apply sf_bext_trans.
  - intros x0 L H0 HL. exact (sf_ts_close_step sid L x0 H0 HL).
  - exact Hx.
  - exact sf_close_levels_range.
Qed.
