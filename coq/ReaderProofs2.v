(* Proofs about ReaderModel.v, part 2: the state after a successful non-repairing open satisfies the invariant of
   part 1 (on every byte string), and the model's open agrees with RepairModel.rp_open. *)
From Coq Require Import NArith ZArith List Bool Lia Arith.
From Coq Require Import ZifyBool ZifyN ZifyNat.
From JLS Require Import Generated CrcDefs Spec Format WmRaw WmCore WmFsr WriterModel RepairRaw RepairModel BitCopyModel
  RawReadProofs RepairProofs ReaderModel ReaderProofs.
Import ListNotations.
Local Open Scope N_scope.

(* a successful jls_core_rd_chunk_end leaves the raw layer right after a jls_raw_chunk_seek: nothing cached *)
Lemma rdm_chunk_seek_invalid : forall s o, rp_r_valid (rp_r (fst (rp_chunk_seek s o))) = false.
Proof.
  intros s o. unfold rp_chunk_seek, rp_bk_fseek. destruct (o =? 0); [reflexivity |].
  cbn [rp_io_set_r rp_r]. destruct (rp_two63 <=? o); reflexivity.
Qed.
Lemma rdm_try_cands_found : forall cs s pos s', rp_try_cands s pos cs = (s', true) -> rp_r_valid (rp_r s') = false.
Proof.
  induction cs as [| c r IH]; intros s pos s' H; cbn [rp_try_cands] in H; [discriminate |].
  destruct (rp_chunk_seek s (pos + c)) as [s1 rc1]. destruct (negb (rc1 =? 0)); [discriminate |].
  destruct (rp_rd_chunk s1) as [s2 rc2]. destruct (rc2 =? 0).
  - inversion H. apply rdm_chunk_seek_invalid.
  - eapply IH; eassumption.
Qed.
Lemma rdm_end_loop_found : forall fuel s e l s', rp_end_loop fuel s e l = (s', 0) -> rp_r_valid (rp_r s') = false.
Proof.
  induction fuel as [| fu IH]; intros s e l s' H; cbn [rp_end_loop] in H; [discriminate |].
  destruct ((0 <? e) && (SIZEOF_chunk_header <? l)); [| discriminate].
  destruct (rp_bk_fseek s (e - RpEnd_window)) as [s1 ok].
  destruct (rp_bk_fread s1 (e - (e - RpEnd_window))) as [s2 d].
  destruct (rp_len d <? e - (e - RpEnd_window)); [discriminate |].
  destruct (e - (e - RpEnd_window) <? SIZEOF_chunk_header); [discriminate |].
  match type of H with context [rp_try_cands ?a ?b ?c] => destruct (rp_try_cands a b c) as [s3 found] eqn:E3 end.
  destruct found.
  - inversion H; subst s'. eapply rdm_try_cands_found; eassumption.
  - destruct (e - RpEnd_window =? 0); [discriminate |]. eapply IH; eassumption.
Qed.

Lemma rdm_rr_inv_of : forall s, rp_flen s = rp_len (rp_file s) -> rp_r_valid (rp_r s) = false -> rr_inv s.
Proof. intros s H1 H2. split; [exact H1 |]. rewrite H2. discriminate. Qed.

Lemma rdm_scan_inr_inv : forall f c, rp_scan f = inr c -> rp_file (rp_io_ c) = f /\ rr_inv (rp_io_ c).
Proof.
  intros f c H. pose proof (rpp_scan_cases f) as K. rewrite H in K.
  destruct K as (c3 & _ & (I1 & I2 & _) & Hend & Hfile). split; [exact Hfile |].
  apply rdm_rr_inv_of.
  - pose proof (rpp_rd_chunk_end_frame (rp_io_ c3)) as F. rewrite Hend in F. cbn [fst] in F.
    destruct F as (F1 & F2 & _). rewrite F2, I2, Hfile. reflexivity.
  - unfold rp_rd_chunk_end in Hend. eapply rdm_end_loop_found. exact Hend.
Qed.

(* jls_core_scan_fsr_sample_id keeps the file and the invariant *)
Lemma rdm_buf_sub_frame : forall s off n, rp_file (fst (rp_buf_sub s off n)) = rp_file s /\ (rr_inv s -> rr_inv (fst (rp_buf_sub s off n))).
Proof.
  intros s off n. unfold rp_buf_sub. destruct (JLS_BUF_DEFAULT_SIZE <? off + n); cbn [fst]; split; auto.
Qed.
Lemma rdm_scan_sid_loop_inv : forall ids c, rr_inv (rp_io_ c) ->
  rp_file (rp_io_ (fst (rp_scan_sid_loop ids c))) = rp_file (rp_io_ c) /\ rr_inv (rp_io_ (fst (rp_scan_sid_loop ids c))).
Proof.
  induction ids as [| id rest IH]; intros c Hi; cbn [rp_scan_sid_loop]; [split; [reflexivity | exact Hi] |].
  match goal with |- context [if ?b then _ else _] => destruct b end; [apply IH; exact Hi |].
  match goal with |- context [if ?b then _ else _] => destruct b end; [apply IH; exact Hi |].
  match goal with |- context [rp_chunk_seek ?a ?b] => pose proof (rr_inv_chunk_seek a b Hi) as H1;
    pose proof (rdm_chunk_seek_file a b) as [F1 _]; destruct (rp_chunk_seek a b) as [s1 rc1] end.
  cbn [fst] in H1, F1.
  destruct (negb (rc1 =? 0)); [cbn [fst rp_rd_set_io rp_io_]; split; [exact F1 | exact H1] |].
  pose proof (rr_inv_rd_chunk s1 H1) as H2. pose proof (rr_rd_chunk_no_fault s1) as (F2 & _).
  destruct (rp_rd_chunk s1) as [s2 rc2]. cbn [fst] in H2, F2.
  destruct (negb (rc2 =? 0)); [cbn [fst rp_rd_set_io rp_io_]; split; [congruence | exact H2] |].
  match goal with |- context [if ?b then _ else _] => destruct b end.
  - destruct (IH (rp_rd_set_io c s2)) as [A B]; [exact H2 |]. split; [rewrite A; cbn [rp_rd_set_io rp_io_]; congruence | exact B].
  - pose proof (rdm_buf_sub_frame s2 0 8) as [F3 H3]. destruct (rp_buf_sub s2 0 8) as [s3 b]. cbn [fst] in F3, H3.
    match goal with |- context [rp_scan_sid_loop rest ?x] => destruct (IH x) as [A B] end.
    { cbn [rp_put_sig rp_rd_set_sigs rp_rd_set_io rp_io_]. apply H3. exact H2. }
    split; [rewrite A; cbn [rp_put_sig rp_rd_set_sigs rp_rd_set_io rp_io_]; congruence | exact B].
Qed.

Lemma rdm_scan_fsr_sample_id_inv : forall c, rr_inv (rp_io_ c) ->
  rp_file (rp_io_ (fst (rp_scan_fsr_sample_id c))) = rp_file (rp_io_ c) /\ rr_inv (rp_io_ (fst (rp_scan_fsr_sample_id c))).
Proof. intros c Hi. unfold rp_scan_fsr_sample_id. apply rdm_scan_sid_loop_inv. exact Hi. Qed.

(* the state handed out by rdm_open *)
Lemma rdm_open_opened : forall f st, rdm_open f = RdmOpened st ->
  exists c c1, rp_scan f = inr c /\ rp_scan_fsr_sample_id c = (c1, 0) /\ st = rdm_st0 c1.
Proof.
  intros f st H. unfold rdm_open in H. destruct (rp_scan f) as [[c rc] | c]; [discriminate |].
  destruct (fm_tag (wm_ck_hdr (rp_cur (rp_io_ c))) =? JLS_TAG_END); [| discriminate].
  destruct (rp_scan_fsr_sample_id c) as [c1 rc1] eqn:E2. destruct (rc1 =? 0) eqn:E; [| discriminate].
  apply N.eqb_eq in E. subst rc1. exists c, c1. split; [reflexivity |]. split; [exact E2 |]. congruence.
Qed.

Theorem rdm_open_inv : forall f st, rdm_open f = RdmOpened st ->
  rdm_inv f st /\ rdm_tr st = [] /\ rdm_stale st = false.
Proof.
  intros f st H. destruct (rdm_open_opened f st H) as (c & c1 & Es & Esid & Hst). subst st.
  destruct (rdm_scan_inr_inv f c Es) as [Hf Hi].
  pose proof (rdm_scan_fsr_sample_id_inv c Hi) as [A B]. rewrite Esid in A, B. cbn [fst] in A, B.
  split; [| split; reflexivity]. split; [| split; [exact B | constructor]].
  change (rp_file (rp_io_ c1) = f). congruence.
Qed.

(* rdm_open is jls_rd_open as modelled by RepairModel.rp_open, on the files that need no repair *)
Theorem rdm_open_rp_open : forall summ1 summN f,
  match rdm_open f with
  | RdmOpened st => rp_rc (rp_open summ1 summN f) = 0 /\ rp_did (rp_open summ1 summN f) = false /\
                    rp_events (rp_open summ1 summN f) = [] /\ rp_after (rp_open summ1 summN f) = rp_file (rdm_io st) /\
                    rp_fault (rp_open summ1 summN f) = rdm_flt st
  | RdmOpenErr rc flt => rp_rc (rp_open summ1 summN f) = rc /\ rp_did (rp_open summ1 summN f) = false /\
                         rp_events (rp_open summ1 summN f) = [] /\ rp_fault (rp_open summ1 summN f) = flt
  | RdmNeedsRepair => exists c, rp_scan f = inr c /\ rp_open summ1 summN f = rp_repair summ1 summN c
  end.
Proof.
  intros summ1 summN f. unfold rdm_open, rp_open.
  destruct (rp_scan f) as [[c rc] | c] eqn:Es.
  - cbn. repeat split.
  - destruct (fm_tag (wm_ck_hdr (rp_cur (rp_io_ c))) =? JLS_TAG_END).
    + unfold rp_finish. cbn [rp_c rp_w0]. destruct (rp_scan_fsr_sample_id c) as [c1 rc1]. destruct (rc1 =? 0) eqn:E.
      * apply N.eqb_eq in E. subst rc1. cbn. repeat split.
      * cbn. repeat split.
    + exists c. split; reflexivity.
Qed.

(* after a successful open the raw layer knows the real end of the file *)
Theorem rdm_open_fend : forall f st, rdm_open f = RdmOpened st -> rp_fend (rp_r (rdm_io st)) = rp_len f.
Proof.
  intros f st H. destruct (rdm_open_opened f st H) as (c & c1 & Es & Esid & Hst). subst st.
  pose proof (rpp_scan_cases f) as K. rewrite Es in K. destruct K as (c3 & _ & (I1 & I2 & I3) & Hend & Hfile).
  pose proof (rpp_rd_chunk_end_frame (rp_io_ c3)) as F. rewrite Hend in F. cbn [fst] in F. destruct F as (_ & _ & F3).
  pose proof (rpp_scan_fsr_sample_id_frame c) as G. rewrite Esid in G. cbn [fst] in G. destruct G as (_ & _ & G3).
  change (rp_fend (rp_r (rp_io_ c1)) = rp_len f). rewrite G3, F3.
  destruct I3 as [I3 | I3]; [exact I3 |]. exfalso.
  unfold rp_rd_chunk_end in Hend. rewrite I3 in Hend. cbn in Hend. discriminate.
Qed.
