(* Model of /repo/src/bit_shift.c : jls_bit_copy.  Definitions only.

   Bytes are N values (< 256 for well-formed buffers) in lists; a C pointer into a
   buffer is a byte index into the list.  Every byte access checks that the index is
   inside the list: an access outside is the explicit result BC_oob (the ASan build
   of the harness reports it as FAULT ASAN).  The while loop runs on fuel = bit_count
   (each iteration moves at least one bit); running out of fuel is the distinct
   result BC_nonterm (proved unreachable in BitCopyProofs.v).

   C arithmetic: all quantities are uint64_t; nothing in jls_bit_copy can wrap for
   arguments below 2^64 (dst_bit/8, dst_bit&7, bit_count - sz*8, dst_bit + n <= 8),
   so the model uses unbounded N.  The uint8_t casts are the explicit [N.land _ 255]. *)
From Coq Require Import NArith List Bool.
From JLS Require Import Spec.
Import ListNotations.
Local Open Scope N_scope.

Inductive bc_res := BC_ok (dst : list N) | BC_oob | BC_nonterm.

(* the bit view of a byte buffer: LSB first inside each byte (as Spec.pack) *)
Definition bc_bits (l : list N) : list bool := flat_map (bits_of 8) l.

Definition bc_get (l : list N) (i : N) : option N := nth_error l (N.to_nat i).

Fixpoint bc_set_nat (l : list N) (i : nat) (v : N) : option (list N) :=
  match l with
  | [] => None
  | x :: r =>
    match i with
    | O => Some (v :: r)
    | S i' => match bc_set_nat r i' v with Some r' => Some (x :: r') | None => None end
    end
  end.
Definition bc_set (l : list N) (i : N) (v : N) : option (list N) := bc_set_nat l (N.to_nat i) v.

(* memcpy(dst + di, src + si, sz) on distinct buffers *)
Definition bc_memcpy (dst : list N) (di : N) (src : list N) (si : N) (sz : N) : option (list N) :=
  if (di + sz <=? N.of_nat (length dst)) && (si + sz <=? N.of_nat (length src))
  then Some (firstn (N.to_nat di) dst ++ firstn (N.to_nat sz) (skipn (N.to_nat si) src)
             ++ skipn (N.to_nat (di + sz)) dst)
  else None.

(*  uint8_t mask = (uint8_t) ((1U << n) - 1U);
    uint8_t v = (uint8_t) ((src[0] >> src_bit) & mask);
    dst[0] = (uint8_t) ((dst[0] & ~(mask << dst_bit)) | (v << dst_bit));
    [x & ~m] on non-negative ints is N.ldiff x m.                              *)
Definition bc_step_byte (d s db sb n : N) : N :=
  let mask := N.land (N.shiftl 1 n - 1) 255 in
  let v := N.land (N.land (N.shiftr s sb) mask) 255 in
  N.land (N.lor (N.ldiff d (N.shiftl mask db)) (N.shiftl v db)) 255.

(* the while (bit_count) loop; (di, db) = dst pointer and bit, (si, sb) = src *)
Fixpoint bc_loop (fuel : nat) (dst : list N) (di db : N) (src : list N) (si sb : N) (cnt : N) : bc_res :=
  if cnt =? 0 then BC_ok dst else
  match fuel with
  | O => BC_nonterm
  | S f =>
    let n0 := 8 - (if sb <? db then db else sb) in       (* 8 - ((dst_bit > src_bit) ? dst_bit : src_bit) *)
    let n := if cnt <? n0 then cnt else n0 in            (* if (n > bit_count) n = bit_count *)
    match bc_get src si with
    | None => BC_oob
    | Some s =>
      match bc_get dst di with
      | None => BC_oob
      | Some d =>
        match bc_set dst di (bc_step_byte d s db sb n) with
        | None => BC_oob
        | Some dst1 =>
          let db1 := db + n in
          let sb1 := sb + n in
          bc_loop f dst1 (if 8 <=? db1 then di + 1 else di) (if 8 <=? db1 then 0 else db1)
                  src (if 8 <=? sb1 then si + 1 else si) (if 8 <=? sb1 then 0 else sb1) (cnt - n)
        end
      end
    end
  end.

(* the loop alone, from the normalised pointers (no memcpy fast path) *)
Definition bc_bit_copy_slow (dst : list N) (dst_bit : N) (src : list N) (src_bit : N) (cnt : N) : bc_res :=
  bc_loop (N.to_nat cnt) dst (dst_bit / 8) (N.land dst_bit 7) src (src_bit / 8) (N.land src_bit 7) cnt.

(* jls_bit_copy *)
Definition bc_bit_copy (dst : list N) (dst_bit : N) (src : list N) (src_bit : N) (cnt : N) : bc_res :=
  let di := dst_bit / 8 in let db := N.land dst_bit 7 in
  let si := src_bit / 8 in let sb := N.land src_bit 7 in
  if (db =? 0) && (sb =? 0) then
    let sz := cnt / 8 in
    if sz =? 0 then bc_loop (N.to_nat cnt) dst di db src si sb cnt
    else
      match bc_memcpy dst di src si sz with
      | None => BC_oob
      | Some dst1 => bc_loop (N.to_nat (cnt - sz * 8)) dst1 (di + sz) db src (si + sz) sb (cnt - sz * 8)
      end
  else bc_loop (N.to_nat cnt) dst di db src si sb cnt.
