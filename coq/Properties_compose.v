(* COMPOSITION THEOREMS: end-to-end statements about the BYTE-EXACT WRITER MODEL (WmRaw / WmCore / WmTs / WmFsr /
   WriterModel: wm_run_full, tied to the C by byte-for-byte comparison of backend write logs) obtained by chaining
   results that exist in separate layers.  No new model; proofs in ComposeGuards.v, ComposeFsr.v, ComposeC01.v,
   ComposeSpec.v, ComposeTs.v; examples in ComposeExamples.v.

   Vocabulary (all defined in Properties_refine.v / Properties_C01_pyr.v / Properties_C14_writer.v, nothing new):
     rf_chunks log              the chunks appended to the file, parsed from the backend log (offset, tag, chunk_meta, payload)
     rf_mine d c                c is an FSR DATA / INDEX / SUMMARY chunk of signal sg_id d
     rp_proj sid p2, rf_calls   the jls_wr_fsr / jls_wr_fsr_omit_data calls of the program on signal sid
     rf_script, py_srun         PyramidModel's writer run on the script derived from those calls; stf = its final state,
                                pw_disk stf = the abstract disk (ordinal offsets pos0, pos0+1, ...), pw_heads stf = head table
     rf_psi offs pos0           abstract ordinal -> real file offset (offs = offsets of the signal's FSR chunks in the log)
     rf_blocks d rf_bs0 ops     the blocks of samples handed to wr_data (full blocks, then the rest at close)
   New definitions used in the statements (ComposeGuards.v / ComposeFsr.v), both one line:
     cmp_twr_calls dec l = flat_map (fun a => match dec a with Some o => [o] | None => [] end) l
     cmp_no_omit ops     = Forall (fun o => match o with RfOmit en => en = 0 | RfData _ _ => True end) ops

   Which property each theorem belongs to is noted at the theorem. *)
From Coq Require Import NArith ZArith List Bool Sorted.
From JLS Require Import Generated CrcDefs Spec Format WriteOnce WriteOnceProofs WmRaw WmCore WmTs WmFsr WriterModel WmProofs
  WmWriteOnce DefsModel MrbModel TwrModel TwrProofs BitCopyModel FsrPackModel FsrPackProofs PyramidModel TsModel TsProofs
  RefineLog RefineFsr RefinePyr RefinePyr2 RefineBits2 RefineTs RefineProg RefineExamples SafeProofs5
  ComposeGuards ComposeFsr ComposeC01 ComposeAlign ComposeTop ComposeSpec ComposeTs ComposeExamples.
Import ListNotations.
Local Open Scope N_scope.

Theorem compose_vocabulary_is :
  (forall dec l, cmp_twr_calls dec l = flat_map (fun a => match dec a with Some o => [o] | None => [] end) l) /\
  (forall ops, cmp_no_omit ops <-> Forall (fun o => match o with RfOmit en => en = 0 | RfData _ _ => True end) ops).
Proof. split; [reflexivity|]. intros ops. split; (let X := fresh "X" in intro X; exact X). Qed.
Print Assumptions compose_vocabulary_is.

(* ================================================================ 1. C14: write-once WITHOUT the "model stayed in its domain" guard *)
(* C14_writer_log_accepted / _prefix_accepted / _write_once (Properties_C14_writer.v) assume wm_st_fault = false.
   C10_sync_writer_never_faults (Properties_C10.v) proves that flag false under two modelling guards on the PROGRAM:
   G1 fewer than 10^15 calls, G2 the sample ids of all jls_wr_fsr calls in one window of 10^15.  Composed: for every
   program inside G1/G2, arbitrary summary oracles, the complete backend log (and every prefix: a stop at any backend
   call) passes the strict write-once checker.  The remaining guard is on the SIZE of the log (every write shorter than
   2^32 bytes, ending below 2^64: where the C's uint32 / int64 fields stop agreeing with the model's unbounded integers);
   no theorem of the development bounds the log by the program, so it stays (decidable on a run:
   C14_writer_bounded_decidable). *)
Theorem compose_C14_log_accepted_no_fault_guard :
  forall (summ1 : N -> list N -> wm_sentry) (summN : bool -> list wm_sentry -> wm_sentry) (p : list wop) (lo : Z),
  N.of_nat (length p) < 1000000000000000 ->
  (forall sig sid samples, In (WFsr sig sid samples) p ->
     (lo <= sid /\ sid + Z.of_nat (length samples) < lo + 1000000000000000)%Z) ->
  let st := fst (wm_run_full summ1 summN p) in
  (forall off b, In (WmWrite off b) (wm_st_log st) ->
     off + N.of_nat (length b) < 18446744073709551616 /\ N.of_nat (length b) < 4294967296) ->
  wo_check_log (wmw_evs (wm_st_log st)) = true /\
  forall k, wo_check_log (firstn k (wmw_evs (wm_st_log st))) = true.
Proof. exact (fun summ1 summN p lo G1 G2 Hb => conj (cmp_wo_log_accepted summ1 summN p lo G1 G2 Hb) (cmp_wo_prefix_accepted summ1 summN p lo G1 G2 Hb)). Qed.
Print Assumptions compose_C14_log_accepted_no_fault_guard.

(* without jls_wr_close (writer still open, or killed between two calls) *)
Theorem compose_C14_log_accepted_open_no_fault_guard :
  forall (summ1 : N -> list N -> wm_sentry) (summN : bool -> list wm_sentry -> wm_sentry) (p : list wop) (lo : Z),
  N.of_nat (length p) < 1000000000000000 ->
  (forall sig sid samples, In (WFsr sig sid samples) p ->
     (lo <= sid /\ sid + Z.of_nat (length samples) < lo + 1000000000000000)%Z) ->
  let st := fst (wm_steps summ1 summN wm_api_open p []) in
  (forall off b, In (WmWrite off b) (wm_st_log st) ->
     off + N.of_nat (length b) < 18446744073709551616 /\ N.of_nat (length b) < 4294967296) ->
  wo_check_log (wmw_evs (wm_st_log st)) = true.
Proof. exact cmp_wo_log_accepted_open. Qed.
Print Assumptions compose_C14_log_accepted_open_no_fault_guard.

(* the semantic statement on file bytes, for every write w of the run (l1 = the log before w) *)
Theorem compose_C14_write_once_no_fault_guard :
  forall (summ1 : N -> list N -> wm_sentry) (summN : bool -> list wm_sentry -> wm_sentry) (p : list wop) (lo : Z),
  N.of_nat (length p) < 1000000000000000 ->
  (forall sig sid samples, In (WFsr sig sid samples) p ->
     (lo <= sid /\ sid + Z.of_nat (length samples) < lo + 1000000000000000)%Z) ->
  let st := fst (wm_run_full summ1 summN p) in
  (forall off b, In (WmWrite off b) (wm_st_log st) ->
     off + N.of_nat (length b) < 18446744073709551616 /\ N.of_nat (length b) < 4294967296) ->
  forall l1 w l2, wmw_evs (wm_st_log st) = l1 ++ w :: l2 ->
    let f := wo_file_after l1 in
    let f' := wo_file_after (l1 ++ [w]) in
    (length f <= length f')%nat /\
    forall o h, wo_completed f o h ->
      (exists h', fm_decode_chunk_header (skipn (N.to_nat o) f') = Some h' /\
         fm_item_prev h' = fm_item_prev h /\ fm_tag h' = fm_tag h /\ fm_rsv0 h' = fm_rsv0 h /\
         fm_chunk_meta h' = fm_chunk_meta h /\ fm_payload_length h' = fm_payload_length h /\
         fm_payload_prev_length h' = fm_payload_prev_length h) /\
      (fm_is_head_tag (fm_tag h) = false ->
         forall i, o + 32 <= i -> i < o + fm_chunk_size (fm_payload_length h) -> nth (N.to_nat i) f' 0 = nth (N.to_nat i) f 0).
Proof. exact cmp_wo_write_once. Qed.
Print Assumptions compose_C14_write_once_no_fault_guard.

Theorem compose_C14_write_once_open_no_fault_guard :
  forall (summ1 : N -> list N -> wm_sentry) (summN : bool -> list wm_sentry -> wm_sentry) (p : list wop) (lo : Z),
  N.of_nat (length p) < 1000000000000000 ->
  (forall sig sid samples, In (WFsr sig sid samples) p ->
     (lo <= sid /\ sid + Z.of_nat (length samples) < lo + 1000000000000000)%Z) ->
  let st := fst (wm_steps summ1 summN wm_api_open p []) in
  (forall off b, In (WmWrite off b) (wm_st_log st) ->
     off + N.of_nat (length b) < 18446744073709551616 /\ N.of_nat (length b) < 4294967296) ->
  forall l1 w l2, wmw_evs (wm_st_log st) = l1 ++ w :: l2 ->
    let f := wo_file_after l1 in
    let f' := wo_file_after (l1 ++ [w]) in
    (length f <= length f')%nat /\
    forall o h, wo_completed f o h ->
      (exists h', fm_decode_chunk_header (skipn (N.to_nat o) f') = Some h' /\
         fm_item_prev h' = fm_item_prev h /\ fm_tag h' = fm_tag h /\ fm_rsv0 h' = fm_rsv0 h /\
         fm_chunk_meta h' = fm_chunk_meta h /\ fm_payload_length h' = fm_payload_length h /\
         fm_payload_prev_length h' = fm_payload_prev_length h) /\
      (fm_is_head_tag (fm_tag h) = false ->
         forall i, o + 32 <= i -> i < o + fm_chunk_size (fm_payload_length h) -> nth (N.to_nat i) f' 0 = nth (N.to_nat i) f 0).
Proof. exact cmp_wo_write_once_open. Qed.
Print Assumptions compose_C14_write_once_open_no_fault_guard.

(* satisfiable: C10's program of API misuse (48 calls, sample ids from -5): inside G1/G2, log bounded *)
Example compose_C14_example :
  N.of_nat (length sf_ex_prog) < 1000000000000000 /\
  (forall sig sid samples, In (WFsr sig sid samples) sf_ex_prog ->
     ((-5) <= sid /\ sid + Z.of_nat (length samples) < (-5) + 1000000000000000)%Z) /\
  (forall off b, In (WmWrite off b) (wm_st_log (fst (wm_run_full wm_zero_summ1 wm_zero_summN sf_ex_prog))) ->
     off + N.of_nat (length b) < 18446744073709551616 /\ N.of_nat (length b) < 4294967296) /\
  (48 <= length (wm_st_log (fst (wm_run_full wm_zero_summ1 wm_zero_summN sf_ex_prog))))%nat.
Proof. exact cmp_wo_example. Qed.
Print Assumptions compose_C14_example.

(* ================================================================ 2. C14 for the threaded writer (C06 + C14_writer) *)
(* What C06's model gives: TwrModel abstracts the synchronous writer COMPLETELY.  Its ghost field tw_applied lists the
   operations handed to the writer - TwADef i d (a definition call of producer i, identified by a number d), TwAMsg m (a
   dispatched message, as bytes), TwAEnd (jls_wr_close) - and "the file" is the fold of ANY function over that list.
   C06_file_refines_sync: on every schedule, once jls_wr_close was called, that list is l ++ [TwAEnd] with no TwAEnd
   in l and the messages of l are exactly the accepted messages in acceptance order.
   Corollary: for EVERY reading dec of an applied operation as a writer call (the message formats of
   threaded_writer.c are not modelled, so dec is universally quantified; None = no writer call, e.g. the CLOSE message),
   the backend log of the synchronous writer model on the decoded call sequence (jls_wr_open; calls; jls_wr_close)
   passes the write-once checker, and so does every prefix - under C10's guards G1/G2 on the decoded calls and the
   size guard on the log.
   NOT covered: the interleaving of backend writes.  In the protocol model a writer call is atomic at the step that
   takes process_mutex; that the backend writes of a definition call (producer thread) never interleave with those of
   the consumer in the C rests on the mutual exclusion of process_mutex (C06_mutex_excl, m = 1) plus the fact that all
   writer calls happen under that lock, which is tied by the scheduling harness with every backend write a scheduling
   point (tools/props/C14.py), not proved. *)
Theorem compose_C14_threaded_writer :
  forall (fx : bool) (cap : N) (progs : list (list tw_call)) (s : tw_state),
  tw_wf cap progs -> tw_wf_close progs -> tw_reach fx cap progs s -> In TwAEnd (tw_applied s) ->
  exists l, tw_applied s = l ++ [TwAEnd] /\ ~ In TwAEnd l /\ tw_msgs_of l = tw_acc_msgs s /\
    forall (dec : tw_aop -> option wop) (summ1 : N -> list N -> wm_sentry) (summN : bool -> list wm_sentry -> wm_sentry) (lo : Z),
      let p := cmp_twr_calls dec l in
      let st := fst (wm_run_full summ1 summN p) in
      N.of_nat (length p) < 1000000000000000 ->
      (forall sig sid samples, In (WFsr sig sid samples) p ->
         (lo <= sid /\ sid + Z.of_nat (length samples) < lo + 1000000000000000)%Z) ->
      (forall off b, In (WmWrite off b) (wm_st_log st) ->
         off + N.of_nat (length b) < 18446744073709551616 /\ N.of_nat (length b) < 4294967296) ->
      wm_st_fault st = false /\
      wo_check_log (wmw_evs (wm_st_log st)) = true /\
      forall k, wo_check_log (firstn k (wmw_evs (wm_st_log st))) = true.
Proof. exact cmp_twr_write_once. Qed.
Print Assumptions compose_C14_threaded_writer.

(* satisfiable: the complete two-producer run of Properties_C06 (flush, user data, flush, close | omit); a reading
   that maps the messages to jls_wr_flush / jls_wr_user_data / jls_wr_fsr_omit_data gives 4 writer calls *)
Example compose_C14_threaded_example : exists s,
  tw_wf 128 tw_ex_prog /\ tw_wf_close tw_ex_prog /\ tw_reach false 128 tw_ex_prog s /\ In TwAEnd (tw_applied s) /\
  let p := cmp_twr_calls cmp_twr_ex_dec (removelast (tw_applied s)) in
  length p = 4%nat /\
  N.of_nat (length p) < 1000000000000000 /\
  (forall sig sid samples, In (WFsr sig sid samples) p -> (0 <= sid /\ sid + Z.of_nat (length samples) < 0 + 1000000000000000)%Z) /\
  (forall off b, In (WmWrite off b) (wm_st_log (fst (wm_run_full wm_zero_summ1 wm_zero_summN p))) ->
     off + N.of_nat (length b) < 18446744073709551616 /\ N.of_nat (length b) < 4294967296) /\
  (20 <= length (wm_st_log (fst (wm_run_full wm_zero_summ1 wm_zero_summN p))))%nat.
Proof. exact cmp_twr_example. Qed.
Print Assumptions compose_C14_threaded_example.

(* ================================================================ 2b. the numeric guards of the FSR theorems, discharged *)
(* refine_fsr_pyramid / refine_prog_fsr_partial / the C01_pyr theorems carry numeric guards on the aligned definition d.
   All of them follow from the ACCEPTANCE of the definition by the byte-exact model (jls_wr_signal_def returned 0:
   jls_core_signal_def_validate and jls_core_signal_def_align passed) - except the last clause of py_consistent,
   entries_per_summary * sample_decimate_factor < 2^32, which the align code does NOT establish (next theorem) and which
   therefore remains an explicit guard of the theorems of sections 3 and 4. *)
Theorem compose_guards_from_acceptance : forall st d0 d, snd (wm_api_signal_def st d0) = 0 -> wm_sig_align d0 = Some d ->
  let w := dt_bits (sg_dtype d) in
  sg_id d < 256 /\ 0 < sg_spd d /\ (w < 8 \/ w mod 8 = 0) /\ 0 < w /\
  0 < wm_fill_buf_samples (sg_dtype d) /\
  32 * sg_eps d + 16 < 4294967296 /\ 8 * sg_sumdf d + 16 < 4294967296 /\
  16 + (sg_spd d * w + 7) / 8 < 4294967296 /\
  (sg_eps d * sg_sdf d < 4294967296 -> py_consistent (rf_pd d)).
Proof. exact cmp_accept_guards. Qed.
Print Assumptions compose_guards_from_acceptance.

(* FINDING (two layers that do not fit without an extra guard): a definition that jls_core_signal_def_validate / _align
   accept - u1, sample_decimate_factor 2^31, entries_per_summary 2^20 (stored: 1048580), samples_per_data 2^31 - has
   entries_per_summary * sample_decimate_factor = 2^51: PyramidModel.py_consistent fails, so seek_correct /
   length_correct say nothing about it (the reader computes entry_count * sample_decimate_factor in uint32) *)
Theorem compose_align_does_not_bound_the_product :
  wm_dt_valid (sg_dtype cmp_big_def) = true /\
  exists d, wm_sig_align cmp_big_def = Some d /\ sg_sdf d = 2147483648 /\ sg_eps d = 1048580 /\ sg_spd d = 2147483648 /\
    4294967296 <= sg_eps d * sg_sdf d /\ py_consistentb (rf_pd d) = false.
Proof. exact cmp_align_product_unbounded. Qed.
Print Assumptions compose_align_does_not_bound_the_product.

(* ================================================================ 3. C05 / C03: index targets (FSR), whole programs *)
(* Program class of refine_prog_fsr_partial (p = p1 ++ WSig d0 :: p2: signal sid defined by WSig d0, sample data for
   sid only, no annotation / UTC call, anything else interleaved); the numeric guards of that theorem are discharged
   (section 2b), the product guard stays.  In the COMPLETE backend log of the program, every FSR INDEX chunk
   of the signal has a level L in 1..14, at most py_cap entries, and every entry is
     0            - only at level 1 (an omitted block), or
     the offset of a chunk OF THE LOG that is, for L = 1, a DATA chunk of the signal (chunk_meta = sid) whose payload
                  header carries timestamp ts + k * samples_per_data and whose data is wm_pack of one of the blocks;
                  for L >= 2, an INDEX chunk of the signal of level L - 1 with payload timestamp ts + k * step(L)
                  (py_step = the step_size of jls_core_fsr_seek)
   where ts is the INDEX chunk's own payload timestamp and k the entry number. *)
Theorem compose_C05_fsr_index_targets_partial :
  forall (summ1 : N -> list N -> wm_sentry) (summN : bool -> list wm_sentry -> wm_sentry)
         (d0 d : sigdef) (pos0 : Z) (p1 p2 : list wop) (stf : py_wr),
  (0 < pos0)%Z -> sg_id d <> 0 -> sg_type d = JLS_SIGNAL_TYPE_FSR -> sg_eps d * sg_sdf d < 4294967296 ->
  let sid := sg_id d in
  let w := dt_bits (sg_dtype d) in
  let p := p1 ++ WSig d0 :: p2 in
  Forall (rp_ok sid) p ->
  Forall (fun o => match o with WSig d' => sg_id d' <> sid | _ => True end) p1 ->
  snd (wm_api_signal_def (fst (wm_steps summ1 summN wm_api_open p1 [])) d0) = 0 -> wm_sig_align d0 = Some d ->
  let ops := rp_proj sid p2 in
  py_srun (rf_pd d) (w <=? 8) (rf_t0 ops) pos0 (rf_script d rf_bs0 ops) = PyOk stf ->
  let log := wm_st_log (fst (wm_run_full summ1 summN p)) in
  wm_st_fault (fst (wm_run_full summ1 summN p)) = false /\
  forall c, In c (rf_chunks log) -> rf_mine d c = true -> rc_tag c = JLS_TAG_TRACK_FSR_INDEX ->
  exists L ts ents, (1 <= L <= 14)%nat /\ rc_meta c = wm_meta sid (N.of_nat L) /\
    rc_pay c = wm_fsr_index_payload ts (N.of_nat (length ents)) ents /\ ents <> [] /\
    (Z.of_nat (length ents) <= py_cap (rf_pd d) L)%Z /\
    forall k o, nth_error ents k = Some o ->
      (o = 0 -> L = 1%nat) /\
      (o <> 0 -> exists c', In c' (rf_chunks log) /\ rc_off c' = o /\
         match L with
         | 1%nat => rc_tag c' = JLS_TAG_TRACK_FSR_DATA /\ rc_meta c' = wm_meta sid 0 /\
                    exists blk, In blk (rf_blocks d rf_bs0 ops) /\
                      rc_pay c' = wm_fsr_data_payload (ts + Z.of_nat k * py_spd (rf_pd d)) (N.of_nat (length blk)) w (wm_pack w blk)
         | _ => rc_tag c' = JLS_TAG_TRACK_FSR_INDEX /\ rc_meta c' = wm_meta sid (N.of_nat (pred L)) /\
                exists ents', rc_pay c' = wm_fsr_index_payload (ts + Z.of_nat k * py_step (rf_pd d) L) (N.of_nat (length ents')) ents'
         end).
Proof. exact cmp_prog_index_targets_top. Qed.
Print Assumptions compose_C05_fsr_index_targets_partial.
(* its hypotheses are those of compose_C01_model_end_to_end_partial without the fill value: satisfiable by compose_C01_example *)

(* COMPONENT level (any state x0 satisfying the writer's invariant rf_fresh, the calls on one FSR signal, the close),
   where refine_fsr_pyramid also gives ALL chunks appended (rf_out x = rev cs ++ rf_out x0) and the track's head
   offsets: (a) every INDEX chunk is followed IN THE FILE by the SUMMARY chunk of its level with the same payload
   timestamp (what jls_core_rd_fsr_level1 / fsr_length rely on); (b) index targets as above; (c) head_offsets[L] is 0
   above a top level T <= 14 where there is no INDEX chunk, and for 1 <= L <= T the offset of the FIRST INDEX chunk of
   level L, whose payload timestamp is the first sample id; head_offsets[0] is the offset of the DATA chunk of block 0.
   (The program-level theorem refine_prog_fsr_partial does not carry the head offsets or the unfiltered chunk list, so
   (a) and (c) are not available for whole programs: see the report.) *)
Theorem compose_C05_fsr_structure_component :
  forall (summ1 : N -> list N -> wm_sentry) (summN : bool -> list wm_sentry -> wm_sentry) (d : sigdef) (pos0 : Z) (x0 : wm_fx)
         (ops : list rf_op) (st : py_wr),
  (0 < pos0)%Z -> sg_id d < 256 -> 0 < sg_spd d ->
  (dt_bits (sg_dtype d) < 8 \/ dt_bits (sg_dtype d) mod 8 = 0) ->
  0 < wm_fill_buf_samples (sg_dtype d) ->
  32 * sg_eps d + 16 < 4294967296 -> 8 * sg_sumdf d + 16 < 4294967296 ->
  16 + (sg_spd d * dt_bits (sg_dtype d) + 7) / 8 < 4294967296 ->
  py_consistent (rf_pd d) ->
  rf_fresh x0 -> wm_fx_fsr x0 = wm_fsr_open ->
  py_srun (rf_pd d) (dt_bits (sg_dtype d) <=? 8) (rf_t0 ops) pos0 (rf_script d rf_bs0 ops) = PyOk st ->
  let x := wm_fsr_close summ1 summN d (fold_left (rf_do summ1 summN d) ops x0) in
  let w := dt_bits (sg_dtype d) in
  let head := fun L => wm_get_off (wm_tk_offsets (wm_fx_tk x)) (N.of_nat L) in
  exists cs,
    rf_out x = rev cs ++ rf_out x0 /\
    wm_fault (wm_b_raw (wm_fx_base x)) = false /\
    (forall i c, nth_error cs i = Some c -> rc_tag c = JLS_TAG_TRACK_FSR_INDEX ->
       exists s ts ni ents ns entries, nth_error cs (S i) = Some s /\
         rc_tag s = JLS_TAG_TRACK_FSR_SUMMARY /\ rc_meta s = rc_meta c /\
         rc_pay c = wm_fsr_index_payload ts ni ents /\
         rc_pay s = wm_fsr_summary_payload (sg_dtype d) ts ns entries) /\
    (forall c, In c cs -> rc_tag c = JLS_TAG_TRACK_FSR_INDEX ->
       exists L ts ents, (1 <= L <= 14)%nat /\ rc_meta c = wm_meta (sg_id d) (N.of_nat L) /\
         rc_pay c = wm_fsr_index_payload ts (N.of_nat (length ents)) ents /\ ents <> [] /\
         (Z.of_nat (length ents) <= py_cap (rf_pd d) L)%Z /\
         forall k o, nth_error ents k = Some o ->
           (o = 0 -> L = 1%nat) /\
           (o <> 0 -> exists c', In c' cs /\ rc_off c' = o /\
              match L with
              | 1%nat => rc_tag c' = JLS_TAG_TRACK_FSR_DATA /\ rc_meta c' = wm_meta (sg_id d) 0 /\
                         exists blk, In blk (rf_blocks d rf_bs0 ops) /\
                           rc_pay c' = wm_fsr_data_payload (ts + Z.of_nat k * py_spd (rf_pd d)) (N.of_nat (length blk)) w (wm_pack w blk)
              | _ => rc_tag c' = JLS_TAG_TRACK_FSR_INDEX /\ rc_meta c' = wm_meta (sg_id d) (N.of_nat (pred L)) /\
                     exists ents', rc_pay c' = wm_fsr_index_payload (ts + Z.of_nat k * py_step (rf_pd d) L) (N.of_nat (length ents')) ents'
              end)) /\
    ((cs = [] /\ forall L, (L < 16)%nat -> head L = 0) \/
     exists T, (1 <= T <= 14)%nat /\
       (forall L, (T < L < 16)%nat -> head L = 0 /\
          forall c, In c cs -> rc_tag c = JLS_TAG_TRACK_FSR_INDEX -> rc_meta c <> wm_meta (sg_id d) (N.of_nat L)) /\
       (forall L, (1 <= L <= T)%nat ->
          exists j c ents, nth_error cs j = Some c /\ head L = rc_off c /\
            rc_tag c = JLS_TAG_TRACK_FSR_INDEX /\ rc_meta c = wm_meta (sg_id d) (N.of_nat L) /\
            rc_pay c = wm_fsr_index_payload (rf_t0 ops) (N.of_nat (length ents)) ents /\
            forall j' c', (j' < j)%nat -> nth_error cs j' = Some c' ->
              ~ (rc_tag c' = JLS_TAG_TRACK_FSR_INDEX /\ rc_meta c' = wm_meta (sg_id d) (N.of_nat L))) /\
       (exists c blk, In c cs /\ head 0%nat = rc_off c /\ rc_tag c = JLS_TAG_TRACK_FSR_DATA /\
          rc_meta c = wm_meta (sg_id d) 0 /\ nth_error (rf_blocks d rf_bs0 ops) 0 = Some blk /\
          rc_pay c = wm_fsr_data_payload (rf_t0 ops) (N.of_nat (length blk)) w (wm_pack w blk))).
Proof. exact cmp_comp_fsr_structure_lemma. Qed.
Print Assumptions compose_C05_fsr_structure_component.

Example compose_C05_fsr_structure_example :
  (0 < 1)%Z /\ sg_id rx_d < 256 /\ 0 < sg_spd rx_d /\ (dt_bits (sg_dtype rx_d) < 8 \/ dt_bits (sg_dtype rx_d) mod 8 = 0) /\
  0 < wm_fill_buf_samples (sg_dtype rx_d) /\ 32 * sg_eps rx_d + 16 < 4294967296 /\ 8 * sg_sumdf rx_d + 16 < 4294967296 /\
  16 + (sg_spd rx_d * dt_bits (sg_dtype rx_d) + 7) / 8 < 4294967296 /\
  py_consistent (rf_pd rx_d) /\
  rf_fresh rx_x0 /\ wm_fx_fsr rx_x0 = wm_fsr_open /\
  exists st, py_srun (rf_pd rx_d) (dt_bits (sg_dtype rx_d) <=? 8) (rf_t0 rx_ops) 1 (rf_script rx_d rf_bs0 rx_ops) = PyOk st /\
    length (pw_disk st) = 10%nat /\
    map (fun L => wm_get_off (wm_tk_offsets (wm_fx_tk (wm_fsr_close wm_zero_summ1 wm_zero_summN rx_d
                                (fold_left (rf_do wm_zero_summ1 wm_zero_summN rx_d) rx_ops rx_x0)))) (N.of_nat L)) [0; 1; 2; 3]%nat =
    map (rf_psi (map rc_off (rev (filter (rf_mine rx_d) (rf_out (wm_fsr_close wm_zero_summ1 wm_zero_summN rx_d
                                (fold_left (rf_do wm_zero_summ1 wm_zero_summN rx_d) rx_ops rx_x0)))))) 1) [1; 4; 9; 0]%Z.
Proof. exact cmp_comp_example. Qed.
Print Assumptions compose_C05_fsr_structure_example.

(* ================================================================ 4. C01 end to end on the model side *)
(* "What the reader finds in the writer's file by following the index pyramid is what the specification says."
   Same program class (any interleaving with other calls, any partition of the writes incl. gaps and overlaps, any
   first sample id), with g = the fold of Spec.fsr_write over the program's jls_wr_fsr calls on the signal
   (compose_C01_spec_signal below: under C13's guard this IS the signal's state in Spec.spec_of p).  For every sample
   position x inside the signal's length, every level-1 cache left by a fresh reader or by reads of other signals and
   any sequence `starts` of earlier reads of this signal:
   - jls_core_fsr_seek(level 1) on PyramidModel's disk lands on a level-1 INDEX chunk whose range contains the sample
     and whose image under rf_psi is the offset of an FSR INDEX chunk of level 1 IN THE WRITER MODEL'S LOG, with that
     payload (timestamp, entry count, the entries = real offsets);
   - block i = x / samples_per_data of rf_blocks exists and contains the position; if it was omitted (om: requested
     through jls_wr_fsr_omit_data, or a constant block of a <= 8-bit type) rd_fsr_data0 returns the reconstructed
     header (timestamp, sdf * floor(count / sdf)) - the sample VALUES of an omitted block come from the summary and are
     not in this theorem; otherwise it returns the stored DATA chunk cd, and the chunk of the writer model's log at
     the real offset rf_psi (pc_off cd) is an FSR DATA chunk of the signal whose payload is the payload header
     (timestamp = first id + i * spd, entry count, width) followed by Spec.pack of the block, and for EVERY window
     [x, x + len) that ends inside the block: Spec.rd_window g x len = Some win, and FsrPackModel's copy loop
     (fp_rd_blocks = the loop of jls_core_fsr) applied to the bytes behind the payload header of THAT chunk, into a
     zeroed buffer, yields exactly win;
   - jls_core_fsr_length = Spec.rd_length g when w <= 8, or no omission was ever requested, or the length is a
     multiple of sample_decimate_factor; in every case it lies in (rd_length - sdf, rd_length] (the one exception is
     the recorded known finding K-C15-omit-partial-last-block).
   IN the theorem (reader side): the seek / length arithmetic and the level-1 cache of PyramidModel (py_fsr_seek,
   py_rd_data0, py_reads, py_fsr_length), the block unpacking of FsrPackModel (fp_rd_blocks) on the payload bytes of
   the log's chunk.  NOT in the theorem: reading and CRC-checking chunk bytes from a file at an offset (the abstract
   py_find on the abstract disk stands for jls_raw_chunk_seek + jls_core_rd_chunk; tied by Properties_C04_struct and
   the reader slice), decoding the 16-byte payload header and the index entries from bytes, the stitching of windows
   that span several blocks (C01_pack_roundtrip does it for a contiguous block list, i.e. without omitted blocks),
   and the values reconstructed for omitted blocks. *)
Theorem compose_C01_model_end_to_end_partial :
  forall (summ1 : N -> list N -> wm_sentry) (summN : bool -> list wm_sentry -> wm_sentry)
         (d0 d : sigdef) (pos0 : Z) (p1 p2 : list wop) (stf : py_wr),
  (0 < pos0)%Z -> sg_id d <> 0 -> sg_type d = JLS_SIGNAL_TYPE_FSR -> sg_eps d * sg_sdf d < 4294967296 ->
  let sid := sg_id d in
  let w := dt_bits (sg_dtype d) in
  let pd := rf_pd d in
  let p := p1 ++ WSig d0 :: p2 in
  Forall (rp_ok sid) p ->
  Forall (fun o => match o with WSig d' => sg_id d' <> sid | _ => True end) p1 ->
  snd (wm_api_signal_def (fst (wm_steps summ1 summN wm_api_open p1 [])) d0) = 0 -> wm_sig_align d0 = Some d ->
  let ops := rp_proj sid p2 in
  py_srun pd (w <=? 8) (rf_t0 ops) pos0 (rf_script d rf_bs0 ops) = PyOk stf ->
  wm_fill_sample (sg_dtype d) = fill_value (sg_dtype d) ->
  let log := wm_st_log (fst (wm_run_full summ1 summN p)) in
  let offs := map rc_off (filter (rf_mine d) (rf_chunks log)) in
  let BLKS := rf_blocks d rf_bs0 ops in
  let g := fold_left (fun g c => fsr_write g (fst c) (snd c)) (rf_calls ops) (new_sig d) in
  let plan := py_plan (w <=? 8) (py_sdf pd) 0 (rf_script d rf_bs0 ops) in
  let disk := pw_disk stf in
  let heads := pw_heads stf in
  wm_st_fault (fst (wm_run_full summ1 summN p)) = false /\
  (rd_length g <> 0 -> ss_first g = Some (rf_t0 ops)) /\
  Z.of_N (rd_length g) = py_total (py_blocks plan) /\
  (exists len, py_fsr_length pd disk heads = PyOk len /\
     (Z.of_N (rd_length g) - py_sdf pd < len <= Z.of_N (rd_length g))%Z /\
     ((w <= 8 \/ cmp_no_omit ops \/ rd_length g mod sg_sdf d = 0) -> len = Z.of_N (rd_length g))) /\
  forall sig cache starts x,
    (0 <= sig < 256)%Z -> (cc_meta cache <> 4096 + sig \/ cc_off cache = 0)%Z ->
    (0 <= x < Z.of_N (rd_length g))%Z ->
    let t := (rf_t0 ops + x)%Z in
    let i := Z.to_nat (x / py_spd pd) in
    let r := fst (py_rd_data0 pd disk heads sig (py_reads pd disk heads sig cache starts) t) in
    (exists c1 ci, py_fsr_seek pd disk heads 1 t = PyOk (pc_off c1) /\ In c1 disk /\ pc_kind c1 = PyIndex 1 /\
       (pc_ts c1 <= t < pc_ts c1 + pc_count c1 * py_spd pd)%Z /\
       In ci (rf_chunks log) /\ rc_off ci = rf_psi offs pos0 (pc_off c1) /\ rc_off ci <> 0 /\
       rc_tag ci = JLS_TAG_TRACK_FSR_INDEX /\ rc_meta ci = wm_meta sid 1 /\
       rc_pay ci = wm_fsr_index_payload (pc_ts c1) (Z.to_N (pc_count c1)) (map (rf_psi offs pos0) (pc_entries c1))) /\
    exists blk om, nth_error BLKS i = Some blk /\ nth_error (py_blocks plan) i = Some (Z.of_nat (length blk), om) /\
      (0 <= x - Z.of_nat i * py_spd pd < Z.of_nat (length blk))%Z /\
      if (om : bool)
      then r = PyOk (PyOmitted (rf_t0 ops + Z.of_nat i * py_spd pd) (py_sdf pd * (Z.of_nat (length blk) / py_sdf pd)))
      else exists cd c, r = PyOk (PyStored cd) /\ In cd disk /\ pc_kind cd = PyData /\
             pc_ts cd = (rf_t0 ops + Z.of_nat i * py_spd pd)%Z /\ pc_count cd = Z.of_nat (length blk) /\
             (pc_ts cd <= t < pc_ts cd + pc_count cd)%Z /\
             In c (rf_chunks log) /\ rc_off c = rf_psi offs pos0 (pc_off cd) /\ rc_off c <> 0 /\
             rc_tag c = JLS_TAG_TRACK_FSR_DATA /\ rc_meta c = wm_meta sid 0 /\
             rc_pay c = wm_payload_header (pc_ts cd) (N.of_nat (length blk)) w ++ pack w blk /\
             forall len, (0 < len)%Z -> (t + len <= pc_ts cd + pc_count cd)%Z ->
               let win := pack w (firstn (Z.to_nat len) (skipn (Z.to_nat (t - pc_ts cd)) blk)) in
               rd_window g (Z.to_N x) (Z.to_N len) = Some win /\
               fp_rd_blocks w (pc_ts cd) [(pc_ts cd, Z.to_N (pc_count cd), skipn 16 (rc_pay c))] (t - pc_ts cd) len
                            (repeat 0 (N.to_nat ((Z.to_N len * w + 7) / 8))) = RD_ok win.
Proof. exact cmp_c01_top. Qed.
Print Assumptions compose_C01_model_end_to_end_partial.

(* when no block is omitted: a sample width above 8 bits (no automatic omission of constant blocks) and no
   jls_wr_fsr_omit_data(enable) call - then `om` above is false at every position and every sample is found in a DATA chunk *)
Theorem compose_C01_no_block_omitted : forall d ops, 8 < dt_bits (sg_dtype d) -> cmp_no_omit ops ->
  Forall (fun b => snd b = false)
         (py_blocks (py_plan (dt_bits (sg_dtype d) <=? 8) (py_sdf (rf_pd d)) 0 (rf_script d rf_bs0 ops))).
Proof. exact cmp_no_omission_lemma. Qed.
Print Assumptions compose_C01_no_block_omitted.

(* WHOLE WINDOWS when no block is omitted (one of the 15 data types wider than 8 bits, no omission requested; the two
   extra guards are FsrPackModel's: a block has fewer than 2^32 bits, a call fewer than 2^32 samples).  Following the index
   block by block - rd_fsr_data0 at the first sample of block i, from any foreign cache and after any earlier reads -
   the reader finds, for EVERY block i of the stream, a stored DATA chunk whose image under rf_psi is the offset of a
   DATA chunk of the writer model's log with payload = payload header (timestamp first + i * spd, count) ++ Spec.pack of
   the block; the list L of (timestamp, count, data bytes) so assembled is FsrPackModel's block list, and the copy
   loop of jls_core_fsr over L returns Spec.rd_window for EVERY window (any alignment inside bytes and blocks, spanning
   any number of blocks), PARAMETER_INVALID exactly when Spec says the window is out of range; total = Spec.rd_length. *)
Theorem compose_C01_whole_windows_partial :
  forall (summ1 : N -> list N -> wm_sentry) (summN : bool -> list wm_sentry -> wm_sentry)
         (d0 d : sigdef) (pos0 : Z) (p1 p2 : list wop) (stf : py_wr),
  (0 < pos0)%Z -> sg_id d <> 0 -> sg_type d = JLS_SIGNAL_TYPE_FSR -> sg_eps d * sg_sdf d < 4294967296 ->
  let sid := sg_id d in
  let w := dt_bits (sg_dtype d) in
  let pd := rf_pd d in
  let p := p1 ++ WSig d0 :: p2 in
  Forall (rp_ok sid) p ->
  Forall (fun o => match o with WSig d' => sg_id d' <> sid | _ => True end) p1 ->
  snd (wm_api_signal_def (fst (wm_steps summ1 summN wm_api_open p1 [])) d0) = 0 -> wm_sig_align d0 = Some d ->
  let ops := rp_proj sid p2 in
  py_srun pd (w <=? 8) (rf_t0 ops) pos0 (rf_script d rf_bs0 ops) = PyOk stf ->
  In (sg_dtype d) [JLS_DATATYPE_I4; JLS_DATATYPE_I8; JLS_DATATYPE_I16; JLS_DATATYPE_I24; JLS_DATATYPE_I32; JLS_DATATYPE_I64;
                   JLS_DATATYPE_U1; JLS_DATATYPE_U4; JLS_DATATYPE_U8; JLS_DATATYPE_U16; JLS_DATATYPE_U24; JLS_DATATYPE_U32;
                   JLS_DATATYPE_U64; JLS_DATATYPE_F32; JLS_DATATYPE_F64] ->
  8 < w -> cmp_no_omit ops ->
  sg_spd d * w + 7 < 4294967296 ->
  Forall (fun c => N.of_nat (length (snd c)) < 4294967296) (rf_calls ops) ->
  let log := wm_st_log (fst (wm_run_full summ1 summN p)) in
  let offs := map rc_off (filter (rf_mine d) (rf_chunks log)) in
  let BLKS := rf_blocks d rf_bs0 ops in
  let g := fold_left (fun g c => fsr_write g (fst c) (snd c)) (rf_calls ops) (new_sig d) in
  let L := rb_fp_blocks w (sg_spd d) (rf_t0 ops) 0 BLKS in
  (forall sig cache starts i blk,
     (0 <= sig < 256)%Z -> (cc_meta cache <> 4096 + sig \/ cc_off cache = 0)%Z ->
     nth_error BLKS i = Some blk ->
     let t := (rf_t0 ops + Z.of_nat i * py_spd pd)%Z in
     nth_error L i = Some (t, N.of_nat (length blk), pack w blk) /\
     exists cd c,
       fst (py_rd_data0 pd (pw_disk stf) (pw_heads stf) sig (py_reads pd (pw_disk stf) (pw_heads stf) sig cache starts) t) = PyOk (PyStored cd) /\
       pc_ts cd = t /\ pc_count cd = Z.of_nat (length blk) /\
       In c (rf_chunks log) /\ rc_off c = rf_psi offs pos0 (pc_off cd) /\ rc_off c <> 0 /\
       rc_tag c = JLS_TAG_TRACK_FSR_DATA /\ rc_meta c = wm_meta sid 0 /\
       rc_pay c = wm_payload_header t (N.of_nat (length blk)) w ++ pack w blk) /\
  fp_total L = rd_length g /\
  forall start count, 0 < count ->
    match rd_window g start count with
    | Some win => fp_rd_blocks w (rd_offset g) L (Z.of_N start) (Z.of_N count) (repeat 0 (N.to_nat ((count * w + 7) / 8))) = RD_ok win
    | None => forall dst, fp_rd_blocks w (rd_offset g) L (Z.of_N start) (Z.of_N count) dst = RD_param_invalid
    end.
Proof. exact cmp_c01_whole_windows_top. Qed.
Print Assumptions compose_C01_whole_windows_partial.

Example compose_C01_whole_windows_example :
  sg_eps cx_d * sg_sdf cx_d < 4294967296 /\
  In (sg_dtype cx_d) fp_dt_list /\ 8 < dt_bits (sg_dtype cx_d) /\ cmp_no_omit cx_ops /\
  sg_spd cx_d * dt_bits (sg_dtype cx_d) + 7 < 4294967296 /\
  Forall (fun c => N.of_nat (length (snd c)) < 4294967296) (rf_calls cx_ops) /\
  length (rb_fp_blocks 16 64 1000 0 (rf_blocks cx_d rf_bs0 cx_ops)) = 18%nat /\
  rd_window cx_g 60 6 = Some [187; 0; 190; 0; 193; 0; 196; 0; 199; 0; 202; 0] /\
  fp_rd_blocks 16 1000 (rb_fp_blocks 16 64 1000 0 (rf_blocks cx_d rf_bs0 cx_ops)) 60 6 (repeat 0 12) =
    RD_ok [187; 0; 190; 0; 193; 0; 196; 0; 199; 0; 202; 0].
Proof. exact cmp_c01_whole_example. Qed.
Print Assumptions compose_C01_whole_windows_example.

(* the Spec side of the chain: under C13's guard df_prog_ok (refine_run_accept needs it: Spec.wstep does not model the
   refusal of jls_core_signal_def_align) the state g above is the signal's state in Spec.spec_of of the WHOLE program:
   the stored definition is Spec.sp_align d0, same first sample id, same stream, hence the same answers *)
Theorem compose_C01_spec_signal :
  forall (summ1 : N -> list N -> wm_sentry) (summN : bool -> list wm_sentry -> wm_sentry) (d0 d : sigdef) (p1 p2 : list wop),
  let sid := sg_id d in
  let p := p1 ++ WSig d0 :: p2 in
  df_prog_ok p -> sid <> 0 -> sg_type d = JLS_SIGNAL_TYPE_FSR ->
  Forall (fun o => match o with WSig d' => sg_id d' <> sid | _ => True end) p1 ->
  snd (wm_api_signal_def (fst (wm_steps summ1 summN wm_api_open p1 [])) d0) = 0 -> wm_sig_align d0 = Some d ->
  let g := fold_left (fun g c => fsr_write g (fst c) (snd c)) (rf_calls (rp_proj sid p2)) (new_sig d) in
  d = sp_align d0 /\
  exists s, find_sig (spec_of p) sid = Some s /\
    ss_def s = d /\ ss_first s = ss_first g /\ ss_samples s = ss_samples g /\
    rd_length s = rd_length g /\ rd_offset s = rd_offset g /\
    forall start count, rd_window s start count = rd_window g start count.
Proof. exact cmp_spec_signal_lemma. Qed.
Print Assumptions compose_C01_spec_signal.

(* satisfiable, non-trivial: a u16 signal (samples_per_data 64, index capacity 5), first sample id 1000; user data, a
   source, a VSR signal and a rejected jls_wr_fsr before the definition; 150 samples, other calls, an overlapping write
   (first written wins), a rejected duplicate definition, a gap of 220 samples then 700 samples, a rejected duplicate
   source: 1100 samples in 18 blocks, 28 FSR chunks among 51, two index levels.  Sample position 777: the seek lands
   on ordinal 20 = offset 6048, the DATA chunk is at ordinal 17 = offset 5496, and a window of 5 read from its payload
   bytes equals Spec.rd_window *)
Example compose_C01_example :
  (0 < 1)%Z /\ sg_id cx_d < 256 /\ sg_id cx_d <> 0 /\ sg_type cx_d = JLS_SIGNAL_TYPE_FSR /\ 0 < sg_spd cx_d /\
  (dt_bits (sg_dtype cx_d) < 8 \/ dt_bits (sg_dtype cx_d) mod 8 = 0) /\ 0 < dt_bits (sg_dtype cx_d) /\
  0 < wm_fill_buf_samples (sg_dtype cx_d) /\ wm_fill_sample (sg_dtype cx_d) = fill_value (sg_dtype cx_d) /\
  32 * sg_eps cx_d + 16 < 4294967296 /\ 8 * sg_sumdf cx_d + 16 < 4294967296 /\
  16 + (sg_spd cx_d * dt_bits (sg_dtype cx_d) + 7) / 8 < 4294967296 /\
  py_consistent (rf_pd cx_d) /\
  Forall (rp_ok (sg_id cx_d)) cx_p /\
  Forall (fun o => match o with WSig d' => sg_id d' <> sg_id cx_d | _ => True end) cx_p1 /\
  snd (wm_api_signal_def (fst (wm_steps wm_zero_summ1 wm_zero_summN wm_api_open cx_p1 [])) cx_sig) = 0 /\
  wm_sig_align cx_sig = Some cx_d /\
  df_prog_ok cx_p /\
  cmp_no_omit cx_ops /\
  exists stf, py_srun (rf_pd cx_d) (dt_bits (sg_dtype cx_d) <=? 8) (rf_t0 cx_ops) 1 (rf_script cx_d rf_bs0 cx_ops) = PyOk stf /\
    length (pw_disk stf) = 28%nat /\ pw_heads stf = [1; 6; 27]%Z /\
    snd (wm_run_full wm_zero_summ1 wm_zero_summN cx_p) = [0; 0; 0; 16; 0; 0; 0; 3; 0; 0; 17; 0; 17] /\
    length (rf_chunks cx_log) = 51%nat /\
    rd_length cx_g = 1100 /\ rd_offset cx_g = 1000%Z /\ rf_t0 cx_ops = 1000%Z /\
    py_fsr_length (rf_pd cx_d) (pw_disk stf) (pw_heads stf) = PyOk 1100%Z /\
    py_fsr_seek (rf_pd cx_d) (pw_disk stf) (pw_heads stf) 1 1777 = PyOk 20%Z /\ rf_psi cx_offs 1 20 = 6048 /\
    (exists cd c, fst (py_rd_data0 (rf_pd cx_d) (pw_disk stf) (pw_heads stf) 5 py_cache0 1777) = PyOk (PyStored cd) /\
       pc_off cd = 17%Z /\ pc_ts cd = 1768%Z /\ pc_count cd = 64%Z /\
       find (fun c => rc_off c =? rf_psi cx_offs 1 (pc_off cd)) (rf_chunks cx_log) = Some c /\
       rc_off c = 5496 /\ rc_tag c = JLS_TAG_TRACK_FSR_DATA /\ rc_meta c = 5 /\ length (rc_pay c) = 144%nat /\
       rd_window cx_g 777 5 = Some [187; 35; 198; 35; 209; 35; 220; 35; 231; 35] /\
       fp_rd_blocks 16 1768 [(1768%Z, 64, skipn 16 (rc_pay c))] 9 5 (repeat 0 10) = RD_ok [187; 35; 198; 35; 209; 35; 220; 35; 231; 35]).
Proof. exact cmp_c01_example. Qed.
Print Assumptions compose_C01_example.

(* ================================================================ 5. C11 / C12 / C05: annotation and UTC tracks (COMPONENT level) *)
(* For a timestamp-indexed track (ty = annotation or UTC) with decimate factor d >= 2, record type A with timestamp key,
   payload codec encA, 16-byte summary codec encS: from any state satisfying the writer's invariant (rt_fresh), fewer
   than d^15 records written through jls_wr_annotation / jls_wr_utc (rt_rec: refine_api_annotation / refine_api_utc)
   and the close - cs = ALL chunks the byte-exact model appends:
   - the DATA chunks carry, in write order, exactly the encoded records (C11/C12 round trip on the writer model's log:
     with recs = Spec's ss_annos / ss_utcs and encA = wm_anno_payload / rt_utc_encA);
   - every entry (timestamp, offset) of every INDEX chunk: the offset is that of a chunk of cs: level 1 -> the DATA chunk
     of a record with that timestamp; level L >= 2 -> the INDEX chunk of level L - 1 whose payload timestamp and first
     entry have that timestamp (C05 / C03 index targets);
   - head_offsets[0] = the DATA chunk of the first record; head_offsets[L] = 0 and no INDEX chunk of level L, or the
     offset of an INDEX chunk of level L;
   - for non-decreasing timestamps: what jls_core_annotations delivers from any timestamp t (TsModel's seek + iteration
     on TsModel's disk: C11_ts_seek_generic) is recs[j..] with j in Spec's seek range, and its encoding is the tail
     from j of the DATA payloads of the log.
   The lifting to whole programs with annotation / UTC calls is not proved in the development (Properties_refine.v). *)
Theorem compose_C11_ts_track_component :
  forall (A SE : Type) (key : A -> Z) (summ : A -> SE) (encA : A -> list N) (encS : SE -> list N) (sid ty : N) (d : nat),
  sid < 256 -> ty < 4 -> (forall s, length (encS s) = 16%nat) -> (2 <= d)%nat -> 16 + 16 * N.of_nat d < 4294967296 ->
  (forall r, rf_len (encA r) < 4294967296) ->
  forall (recs : list A) (x0 : wm_tx),
  rt_fresh ty d x0 -> (length recs < d ^ 15)%nat ->
  let w := ts_file A SE key summ d recs in
  let x := wm_ts_close sid (fold_left (rt_rec A SE key summ encA encS sid ty) recs x0) in
  let tagD := fm_track_tag ty JLS_TRACK_CHUNK_DATA in
  let tagI := fm_track_tag ty JLS_TRACK_CHUNK_INDEX in
  let head := fun L => wm_get_off (wm_tk_offsets (wm_tx_tk x)) (N.of_nat L) in
  exists cs,
    rt_out x = rev cs ++ rt_out x0 /\
    wm_fault (wm_b_raw (wm_tx_base x)) = false /\
    map rc_pay (filter (fun c => rc_tag c =? tagD) cs) = map encA recs /\
    (forall c, In c cs -> rc_tag c = tagI ->
       exists L es, (1 <= L)%nat /\ rc_meta c = wm_meta sid (N.of_nat L) /\ es <> [] /\ (length es <= d)%nat /\
         rc_pay c = wm_ts_index_payload (fst (hd (0%Z, 0) es)) (N.of_nat (length es)) es /\
         forall e, In e es ->
           exists c', In c' cs /\ rc_off c' = snd e /\
             ((L = 1%nat /\ rc_tag c' = tagD /\ rc_meta c' = sid /\ exists r, In r recs /\ rc_pay c' = encA r /\ key r = fst e) \/
              ((2 <= L)%nat /\ rc_tag c' = tagI /\ rc_meta c' = wm_meta sid (N.of_nat (L - 1)) /\
               exists es', es' <> [] /\ fst (hd (0%Z, 0) es') = fst e /\
                 rc_pay c' = wm_ts_index_payload (fst e) (N.of_nat (length es')) es'))) /\
    (recs <> [] -> exists c r, In c cs /\ head 0%nat = rc_off c /\ rc_tag c = tagD /\ hd_error recs = Some r /\ rc_pay c = encA r) /\
    (forall L, (1 <= L < 16)%nat ->
       (head L = 0 /\ forall c, In c cs -> rc_tag c = tagI -> rc_meta c <> wm_meta sid (N.of_nat L)) \/
       exists c, In c cs /\ head L = rc_off c /\ rc_tag c = tagI /\ rc_meta c = wm_meta sid (N.of_nat L)) /\
    (StronglySorted Z.le (map key recs) -> forall t, exists j,
       ts_annotations_from A SE (tw_disk w) (tw_head w) t (fun _ _ => false) = (skipn j recs, true) /\
       map encA (skipn j recs) = skipn j (map rc_pay (filter (fun c => rc_tag c =? tagD) cs)) /\
       (Nat.pred (ts_fge t (map key recs)) <= j <= ts_fge t (map key recs))%nat /\
       (forall r, In r recs -> (t <= key r)%Z -> In r (skipn j recs))).
Proof. exact cmp_ts_track_lemma. Qed.
Print Assumptions compose_C11_ts_track_component.

(* the payload codec must be shorter than 2^32 bytes for EVERY record of the type (a guard of refine_ts_track), which
   wm_anno_payload is not; cmp_anno_enc a = if rf_len (wm_anno_payload a) <? 2^32 then wm_anno_payload a else [] agrees with it on
   every annotation that fits *)
Example compose_C11_ts_track_example :
  JLS_TRACK_TYPE_ANNOTATION < 4 /\ (forall s, length (rt_anno_encS s) = 16%nat) /\ (2 <= 10)%nat /\
  16 + 16 * N.of_nat 10 < 4294967296 /\
  (forall a, rf_len (cmp_anno_enc a) < 4294967296) /\ map cmp_anno_enc rx_annos = map wm_anno_payload rx_annos /\
  rt_fresh JLS_TRACK_TYPE_ANNOTATION 10 rx_tx0 /\ (length rx_annos < 10 ^ 15)%nat /\
  StronglySorted Z.le (map an_ts rx_annos) /\
  length (tw_disk (ts_file anno ts_anno_sum an_ts ts_anno_summ 10 rx_annos)) = 33%nat /\
  fst (ts_annotations_from anno ts_anno_sum (tw_disk (ts_file anno ts_anno_sum an_ts ts_anno_summ 10 rx_annos))
         (tw_head (ts_file anno ts_anno_sum an_ts ts_anno_summ 10 rx_annos)) 5 (fun _ _ => false)) = skipn 15 rx_annos.
Proof. exact cmp_ts_example. Qed.
Print Assumptions compose_C11_ts_track_example.
