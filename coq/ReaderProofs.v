(* Proofs about ReaderModel.v, part 1: the frame.  For every reader function of the model, on every file (any byte
   string) and every request:
     - the file bytes are never changed (the model has no write path: rp_io has no log, and rp_file is constant);
     - the raw-layer invariant of RawReadProofs.v (rr_inv: cached header = decoding of CRC-valid file bytes) is kept;
     - the ghost trace only grows, and every event in it is a chunk of the file whose header CRC and payload CRC are
       valid (rdm_ev_ok), by RawReadProofs.rr_rd_chunk_ok;
     - the ghost flag rdm_stale and the sticky fault code only go up.
   rdm_ok f st st' packages these; rdm_ok is reflexive and transitive, holds for every primitive, and the tactics
   rdm_auto / rdm_solve chain it through the control flow of the composite functions. *)
From Coq Require Import NArith ZArith List Bool Lia Arith.
From Coq Require Import ZifyBool ZifyN ZifyNat.
From JLS Require Import Generated CrcDefs Spec Format WmRaw WmCore WmFsr WriterModel RepairRaw RepairModel BitCopyModel
  RawReadProofs ReaderModel.
Import ListNotations.
Local Open Scope N_scope.

(* ------------------------------------------------------------------ events and the invariant *)
Definition rdm_ev_ok (f : list N) (e : rdm_ev) : Prop :=
  let off := rdm_ev_off e in
  let pl := fm_payload_length (rdm_ev_hdr e) in
  rr_hdr_at f off (rdm_ev_hdr e) /\
  rdm_ev_pay e = fm_sub (off + 32) pl f /\
  length (rdm_ev_pay e) = N.to_nat pl /\
  (pl <> 0 -> off + 32 + fm_disk_len pl <= N.of_nat (length f) /\
              crc32c (rdm_ev_pay e) = fm_dec (fm_sub (off + 32 + fm_disk_len pl - 4) 4 f)).

Definition rdm_inv (f : list N) (st : rdm_st) : Prop :=
  rp_file (rdm_io st) = f /\ rr_inv (rdm_io st) /\ Forall (rdm_ev_ok f) (rdm_tr st).

Definition rdm_ext (st st' : rdm_st) : Prop :=
  (exists l, rdm_tr st' = l ++ rdm_tr st) /\
  (rdm_stale st = true -> rdm_stale st' = true) /\
  (rdm_flt st <> 0 -> rdm_flt st' = rdm_flt st) /\
  rp_fend (rp_r (rdm_io st')) = rp_fend (rp_r (rdm_io st)).

Definition rdm_ok (f : list N) (st st' : rdm_st) : Prop := rdm_inv f st -> rdm_inv f st' /\ rdm_ext st st'.

Lemma rdm_ext_refl : forall st, rdm_ext st st.
Proof. intro st. split; [exists []; reflexivity | split; [auto | split; auto]]. Qed.
Lemma rdm_ext_same : forall st st', rdm_tr st' = rdm_tr st -> rdm_stale st' = rdm_stale st -> rdm_flt st' = rdm_flt st ->
  rp_fend (rp_r (rdm_io st')) = rp_fend (rp_r (rdm_io st)) -> rdm_ext st st'.
Proof. intros st st' H1 H2 H3 H4. split; [exists []; now rewrite H1 | split; [now rewrite H2 | split; [intros _; exact H3 | exact H4]]]. Qed.
Lemma rdm_ext_trans : forall a b c, rdm_ext a b -> rdm_ext b c -> rdm_ext a c.
Proof.
  intros a b c ([l1 H1] & S1 & F1 & E1) ([l2 H2] & S2 & F2 & E2). split; [|split; [|split]].
  - exists (l2 ++ l1). rewrite H2, H1. now rewrite app_assoc.
  - auto.
  - intro H. rewrite F2; [now apply F1 | rewrite F1; assumption].
  - congruence.
Qed.
Lemma rdm_ok_refl : forall f st, rdm_ok f st st.
Proof. intros f st H. split; [exact H | apply rdm_ext_refl]. Qed.
Lemma rdm_ok_trans : forall f a b c, rdm_ok f a b -> rdm_ok f b c -> rdm_ok f a c.
Proof.
  intros f a b c H1 H2 Ha. destruct (H1 Ha) as [Hb E1]. destruct (H2 Hb) as [Hc E2].
  split; [exact Hc | eapply rdm_ext_trans; eassumption].
Qed.

(* ------------------------------------------------------------------ pure updates *)
Lemma rdm_io_fault_flt : forall s c, rp_flt s <> 0 -> rp_flt (rp_io_fault s c) = rp_flt s.
Proof. intros s c H. cbn. destruct (rp_flt s =? 0) eqn:E; [apply N.eqb_eq in E; contradiction | reflexivity]. Qed.

Lemma rdm_fault_ok : forall st c f, rdm_ok f st (rdm_fault st c).
Proof.
  intros st c f (Hf & Hi & Ht). split.
  - split; [exact Hf | split; [exact Hi | exact Ht]].
  - split; [exists []; reflexivity | split; [auto | split; [| reflexivity]]]. intro H. apply rdm_io_fault_flt. exact H.
Qed.
Lemma rdm_fault_if_ok : forall st b c f, rdm_ok f st (rdm_fault_if st b c).
Proof. intros st b c f. destruct b; [apply rdm_fault_ok | apply rdm_ok_refl]. Qed.
Lemma rdm_set_stale_ok : forall st b f, rdm_ok f st (rdm_set_stale st b).
Proof.
  intros st b f H. split; [exact H |]. split; [exists []; reflexivity | split; [| split; [auto | reflexivity]]].
  cbn. intro E. rewrite E. reflexivity.
Qed.
Lemma rdm_put_len_ok : forall st id v f, rdm_ok f st (rdm_put_len st id v).
Proof. intros st id v f H. split; [exact H | apply rdm_ext_same; reflexivity]. Qed.
Lemma rdm_set_offsets_ok : forall st id ty l f, rdm_ok f st (rdm_set_offsets st id ty l).
Proof.
  intros st id ty l f H. unfold rdm_set_offsets. destruct (rp_sg_track (rdm_sig st id) ty) as [has t].
  split; [exact H | apply rdm_ext_same; reflexivity].
Qed.
Lemma rdm_copy_index_ok : forall st f, rdm_ok f st (rdm_copy_index st).
Proof. intros st f H. split; [exact H | apply rdm_ext_same; reflexivity]. Qed.
Lemma rdm_copy_summary_ok : forall st f, rdm_ok f st (rdm_copy_summary st).
Proof. intros st f H. split; [exact H | apply rdm_ext_same; reflexivity]. Qed.
Lemma rdm_ick_clear_ok : forall st f, rdm_ok f st (rdm_ick_clear st).
Proof. intros st f H. split; [exact H | apply rdm_ext_same; reflexivity]. Qed.
Lemma rdm_buf_wr_ok : forall st off d f, rdm_ok f st (rdm_buf_wr st off d).
Proof.
  intros st off d f. unfold rdm_buf_wr. destruct (JLS_BUF_DEFAULT_SIZE <? off + rp_len d); [apply rdm_fault_ok |].
  intros (Hf & Hi & Ht). split; [| apply rdm_ext_same; reflexivity]. split; [exact Hf | split; [exact Hi | exact Ht]].
Qed.

(* ------------------------------------------------------------------ solver for goals rdm_ok f a b *)
Ltac rdm_solve :=
  lazymatch goal with
  | H : rdm_ok ?f ?a ?b |- rdm_ok ?f ?a ?b => exact H
  | |- rdm_ok ?f ?a ?a => apply rdm_ok_refl
  | |- rdm_ok ?f ?a (rdm_fault ?x ?c) => apply (rdm_ok_trans f a x); [rdm_solve | apply rdm_fault_ok]
  | |- rdm_ok ?f ?a (rdm_fault_if ?x ?b ?c) => apply (rdm_ok_trans f a x); [rdm_solve | apply rdm_fault_if_ok]
  | |- rdm_ok ?f ?a (rdm_set_stale ?x ?b) => apply (rdm_ok_trans f a x); [rdm_solve | apply rdm_set_stale_ok]
  | |- rdm_ok ?f ?a (rdm_put_len ?x ?i ?v) => apply (rdm_ok_trans f a x); [rdm_solve | apply rdm_put_len_ok]
  | |- rdm_ok ?f ?a (rdm_set_offsets ?x ?i ?t ?l) => apply (rdm_ok_trans f a x); [rdm_solve | apply rdm_set_offsets_ok]
  | |- rdm_ok ?f ?a (rdm_copy_index ?x) => apply (rdm_ok_trans f a x); [rdm_solve | apply rdm_copy_index_ok]
  | |- rdm_ok ?f ?a (rdm_copy_summary ?x) => apply (rdm_ok_trans f a x); [rdm_solve | apply rdm_copy_summary_ok]
  | |- rdm_ok ?f ?a (rdm_ick_clear ?x) => apply (rdm_ok_trans f a x); [rdm_solve | apply rdm_ick_clear_ok]
  | |- rdm_ok ?f ?a (rdm_buf_wr ?x ?o ?d) => apply (rdm_ok_trans f a x); [rdm_solve | apply rdm_buf_wr_ok]
  end.

(* ------------------------------------------------------------------ the accesses to the file *)
Lemma rdm_chunk_seek_file : forall s o, rp_file (fst (rp_chunk_seek s o)) = rp_file s /\ rp_flt (fst (rp_chunk_seek s o)) = rp_flt s.
Proof.
  intros s o. unfold rp_chunk_seek, rp_bk_fseek. destruct (o =? 0); [split; reflexivity |].
  cbn [rp_io_set_r rp_r]. destruct (rp_two63 <=? o); split; reflexivity.
Qed.
Lemma rdm_chunk_seek_fend : forall s o, rp_fend (rp_r (fst (rp_chunk_seek s o))) = rp_fend (rp_r s).
Proof.
  intros s o. unfold rp_chunk_seek, rp_bk_fseek. destruct (o =? 0); [reflexivity |].
  cbn [rp_io_set_r rp_r]. destruct (rp_two63 <=? o); reflexivity.
Qed.
Lemma rdm_seek_ok : forall st o f, rdm_ok f st (fst (rdm_seek st o)).
Proof.
  intros st o f (Hf & Hi & Ht). unfold rdm_seek.
  pose proof (rr_inv_chunk_seek (rdm_io st) o Hi) as H1. pose proof (rdm_chunk_seek_file (rdm_io st) o) as [H2 H3].
  pose proof (rdm_chunk_seek_fend (rdm_io st) o) as H4.
  destruct (rp_chunk_seek (rdm_io st) o) as [s1 rc]. cbn [fst] in *. split.
  - split; [cbn; congruence | split; [exact H1 | exact Ht]].
  - split; [exists []; reflexivity | split; [auto | split; [| exact H4]]]. intros _. exact H3.
Qed.

Lemma rdm_rd_chunk_ok : forall st f, rdm_ok f st (fst (rdm_rd_chunk st)).
Proof.
  intros st f (Hf & Hi & Ht). unfold rdm_rd_chunk.
  destruct (rp_rd_chunk (rdm_io st)) as [s1 rc] eqn:E.
  destruct (rr_rd_chunk_any _ _ _ Hi E) as (Hi1 & Hf1 & Hfe & Hflt).
  assert (Hmono : rdm_flt st <> 0 -> rp_flt s1 = rdm_flt st).
  { intro H. destruct Hflt as [H1 | (H1 & _)]; [exact H1 | unfold rdm_flt in H; contradiction]. }
  destruct (rc =? 0) eqn:Erc; cbn [fst].
  - apply N.eqb_eq in Erc. subst rc.
    destruct (rr_rd_chunk_ok _ _ Hi E) as (_ & _ & Hoff & Hat & Hpay & Hlen & Hcrc).
    split.
    + split; [cbn; congruence | split; [exact Hi1 |]].
      constructor; [| exact Ht].
      unfold rdm_ev_ok. cbn [rdm_ev_off rdm_ev_hdr rdm_ev_pay]. rewrite Hoff. rewrite <- Hf.
      split; [exact Hat | split; [exact Hpay | split; [exact Hlen |]]].
      intro Hne. destruct (Hcrc Hne) as (_ & A & B). split; assumption.
    + split; [eexists [_]; reflexivity | split; [auto | split; [exact Hmono | exact Hfe]]].
  - split.
    + split; [cbn; congruence | split; [exact Hi1 | exact Ht]].
    + split; [exists []; reflexivity | split; [auto | split; [exact Hmono | exact Hfe]]].
Qed.

Lemma rdm_rd_header_ok : forall st f, rdm_ok f st (fst (rdm_rd_header st)).
Proof.
  intros st f (Hf & Hi & Ht). unfold rdm_rd_header.
  destruct (rp_raw_rd_header (rdm_io st)) as [s1 rc] eqn:E.
  destruct (rr_rd_header_spec _ _ _ Hi E) as (Hi1 & Hf1 & _ & _ & _ & Hflt & Hfe & _).
  cbn [fst]. split.
  - split; [cbn; congruence | split; [exact Hi1 | exact Ht]].
  - split; [exists []; reflexivity | split; [auto | split; [| exact Hfe]]]. intros _. exact Hflt.
Qed.

Lemma rdm_inv_invalid : forall s r, rp_flen s = rp_len (rp_file s) -> rp_r_valid r = false -> rr_inv (rp_io_set_r s r).
Proof. intros s r H1 H2. split; [exact H1 |]. cbn. rewrite H2. discriminate. Qed.

Lemma rdm_chunk_next_ok : forall st f, rdm_ok f st (fst (rdm_chunk_next st)).
Proof.
  intros st f. unfold rdm_chunk_next.
  pose proof (rdm_rd_header_ok st f) as K.
  destruct (rdm_rd_header st) as [st1 rc]. cbn [fst] in K.
  destruct (negb (rc =? 0)); [exact K |].
  eapply rdm_ok_trans; [exact K |]. clear K.
  intros (Hf & Hi & Ht).
  assert (Hv : rp_r_valid (rp_r_invalidate (rp_r (rdm_io st1))) = false) by apply rr_invalidate_not_valid.
  assert (Hflen : rp_flen (rdm_io st1) = rp_len (rp_file (rdm_io st1))) by apply Hi.
  match goal with |- context [if ?c then _ else _] => destruct c end; cbn [fst].
  { split; [| apply rdm_ext_same; reflexivity]. split; [exact Hf | split; [apply rdm_inv_invalid; assumption | exact Ht]]. }
  match goal with |- context [if ?c then _ else _] => destruct c end; cbn [fst].
  { split; [| apply rdm_ext_same; reflexivity]. split; [exact Hf | split; [| exact Ht]].
    apply rdm_inv_invalid; [exact Hflen | exact Hv]. }
  unfold rp_bk_fseek. match goal with |- context [if ?c then _ else _] => destruct c end; cbn [fst].
  - split; [| apply rdm_ext_same; reflexivity]. split; [exact Hf | split; [apply rdm_inv_invalid; assumption | exact Ht]].
  - split; [| apply rdm_ext_same; reflexivity]. split; [exact Hf | split; [| exact Ht]].
    apply rdm_inv_invalid; [exact Hflen | exact Hv].
Qed.

(* ------------------------------------------------------------------ buffer reads *)
Lemma rdm_buf_rd_ok : forall st off n f, rdm_ok f st (fst (rdm_buf_rd st off n)).
Proof.
  intros st off n f. unfold rdm_buf_rd.
  destruct (rdm_mem_rd (rp_buf (rdm_io st)) (rp_buf_len (rdm_io st)) off n) as [[b oob] stale]. cbn [fst]. rdm_solve.
Qed.
Lemma rdm_buf_rd_fresh_ok : forall st off n f, rdm_ok f st (fst (rdm_buf_rd_fresh st off n)).
Proof.
  intros st off n f. unfold rdm_buf_rd_fresh.
  destruct (rdm_mem_rd (rp_buf (rdm_io st)) (rp_buf_len (rdm_io st)) off n) as [[b oob] stale]. cbn [fst]. rdm_solve.
Qed.
Lemma rdm_buf_u_ok : forall st off n f, rdm_ok f st (fst (rdm_buf_u st off n)).
Proof.
  intros st off n f. unfold rdm_buf_u. pose proof (rdm_buf_rd_ok st off n f) as K.
  destruct (rdm_buf_rd st off n) as [st1 b]. exact K.
Qed.
Lemma rdm_buf_i64_ok : forall st off f, rdm_ok f st (fst (rdm_buf_i64 st off)).
Proof.
  intros st off f. unfold rdm_buf_i64. pose proof (rdm_buf_rd_ok st off 8 f) as K.
  destruct (rdm_buf_rd st off 8) as [st1 b]. exact K.
Qed.
Lemma rdm_idx_rd_ok : forall st off n f, rdm_ok f st (fst (rdm_idx_rd st off n)).
Proof.
  intros st off n f. unfold rdm_idx_rd.
  destruct (rdm_mem_rd (rdm_ibuf st) (rdm_ilen st) off n) as [[b oob] stale]. cbn [fst]. rdm_solve.
Qed.
Lemma rdm_sum_rd_ok : forall st off n f, rdm_ok f st (fst (rdm_sum_rd st off n)).
Proof.
  intros st off n f. unfold rdm_sum_rd.
  destruct (rdm_mem_rd (rdm_sbuf st) (rdm_slen st) off n) as [[b oob] stale]. cbn [fst]. rdm_solve.
Qed.
Lemma rdm_i64_ok : forall st z f, rdm_ok f st (fst (rdm_i64 st z)).
Proof. intros st z f. unfold rdm_i64. cbn [fst]. rdm_solve. Qed.

(* ------------------------------------------------------------------ automation over the control flow *)
Create HintDb rdmdb discriminated.
#[global] Hint Resolve rdm_seek_ok rdm_rd_chunk_ok rdm_rd_header_ok rdm_chunk_next_ok rdm_buf_rd_ok rdm_buf_rd_fresh_ok
  rdm_buf_u_ok rdm_buf_i64_ok rdm_idx_rd_ok rdm_sum_rd_ok rdm_i64_ok : rdmdb.

(* goal: rdm_ok f st0 (proj (call X args)) where X is reachable from st0 by pure updates / known facts *)
Ltac rdm_call f st0 :=
  eapply (rdm_ok_trans f st0); [ | solve [ eauto 2 with rdmdb nocore ] ]; rdm_solve.

Ltac rdm_if :=
  match goal with
  | |- context [if ?c then _ else _] => destruct c eqn:?
  end.

Ltac rdm_step f st0 :=
  match goal with
  | |- context [match ?e with pair _ _ => _ end] =>
      lazymatch e with
      | context [if _ then _ else _] => fail          (* the conditional first *)
      | _ => idtac
      end;
      let K := fresh "K" in
      first [ assert (K : rdm_ok f st0 (fst e)) by rdm_call f st0
            | assert (K : rdm_ok f st0 (fst (fst e))) by rdm_call f st0
            | assert (K : rdm_ok f st0 (fst (fst (fst e)))) by rdm_call f st0
            | assert (K : True) by exact I ];        (* a pair that carries no state *)
      let E := fresh "E" in
      destruct e as [?p ?q] eqn:E; rewrite ?E in K; cbn [fst snd] in K;
      repeat match goal with
             | x : (_ * _)%type |- _ => destruct x as [? ?]; cbn [fst snd] in K
             end
  end.

Ltac rdm_other :=
  match goal with
  | |- context [match ?e with BC_ok _ => _ | BC_oob => _ | BC_nonterm => _ end] => destruct e eqn:?
  | |- context [match ?e with nil => _ | cons _ _ => _ end] => destruct e eqn:?
  end.

Ltac rdm_auto f st0 :=
  repeat (cbv beta iota zeta; cbn [fst snd]; first [ rdm_step f st0 | rdm_if | rdm_other ]);
  cbv beta iota zeta; cbn [fst snd]; first [ rdm_solve | rdm_call f st0 ].

(* ------------------------------------------------------------------ jls_core_fsr_length *)
Lemma rdm_len_first_ok : forall k st offs f, rdm_ok f st (fst (fst (fst (rdm_len_first k st offs)))).
Proof.
  induction k as [| k IH]; intros st offs f; cbn [rdm_len_first]; [apply rdm_ok_refl |].
  rdm_auto f st.
Qed.
#[global] Hint Resolve rdm_len_first_ok : rdmdb.

Lemma rdm_len_levels_ok : forall k st id offset f, rdm_ok f st (fst (fst (rdm_len_levels k st id offset))).
Proof.
  induction k as [| k IH]; intros st id offset f; cbn [rdm_len_levels]; [apply rdm_ok_refl |].
  destruct k as [| k']; rdm_auto f st.
Qed.
#[global] Hint Resolve rdm_len_levels_ok : rdmdb.

Lemma rdm_fsr_length_ok : forall st id f, rdm_ok f st (fst (fst (rdm_fsr_length st id))).
Proof. intros st id f. unfold rdm_fsr_length. rdm_auto f st. Qed.
#[global] Hint Resolve rdm_fsr_length_ok : rdmdb.

(* ------------------------------------------------------------------ jls_core_fsr_seek, level 1 cache *)
Lemma rdm_seek_levels_ok : forall k st d level sid offset f, rdm_ok f st (fst (fst (rdm_seek_levels k st d level sid offset))).
Proof.
  induction k as [| k IH]; intros st d level sid offset f; cbn [rdm_seek_levels]; [apply rdm_ok_refl |].
  destruct (rdm_step_size d (N.of_nat (S k))) as [[step div0] ok].
  rdm_auto f st.
Qed.
#[global] Hint Resolve rdm_seek_levels_ok : rdmdb.

Lemma rdm_fsr_seek_ok : forall st id level sid f, rdm_ok f st (fst (rdm_fsr_seek st id level sid)).
Proof.
  intros st id level sid f. unfold rdm_fsr_seek.
  destruct (rdm_top_level rdm_levels (rdm_offsets st id JLS_TRACK_TYPE_FSR)) as [top offset].
  rdm_auto f st.
Qed.
#[global] Hint Resolve rdm_fsr_seek_ok : rdmdb.

Lemma rdm_level1_load_ok : forall st id start f, rdm_ok f st (fst (rdm_level1_load st id start)).
Proof. intros st id start f. unfold rdm_level1_load. rdm_auto f st. Qed.
#[global] Hint Resolve rdm_level1_load_ok : rdmdb.

Lemma rdm_rd_fsr_level1_ok : forall st id start f, rdm_ok f st (fst (rdm_rd_fsr_level1 st id start)).
Proof. intros st id start f. unfold rdm_rd_fsr_level1. rdm_auto f st. Qed.
#[global] Hint Resolve rdm_rd_fsr_level1_ok : rdmdb.

(* ------------------------------------------------------------------ omitted blocks, data chunks, jls_core_fsr *)
Section FrameFsr.
Variable recon : bool -> bool -> Z -> N -> N -> N -> list N.
Variable f32_of_f64 : N -> N.

Lemma rdm_recon_loop_ok : forall k st dt is64 sdf szb sid sidx sec acc count f,
  rdm_ok f st (fst (fst (rdm_recon_loop recon f32_of_f64 k st dt is64 sdf szb sid sidx sec acc count))).
Proof.
  induction k as [| k IH]; intros st dt is64 sdf szb sid sidx sec acc count f; cbn [rdm_recon_loop]; [apply rdm_ok_refl |].
  rdm_auto f st.
Qed.
Hint Resolve rdm_recon_loop_ok : rdmdb.

Lemma rdm_reconstruct_ok : forall st id start f, rdm_ok f st (fst (rdm_reconstruct recon f32_of_f64 st id start)).
Proof. intros st id start f. unfold rdm_reconstruct. rdm_auto f st. Qed.
Hint Resolve rdm_reconstruct_ok : rdmdb.

Lemma rdm_data0_finish_ok : forall st id start csid f, rdm_ok f st (fst (fst (rdm_data0_finish recon f32_of_f64 st id start csid))).
Proof. intros st id start csid f. unfold rdm_data0_finish. rdm_auto f st. Qed.
Hint Resolve rdm_data0_finish_ok : rdmdb.

Lemma rdm_rd_fsr_data0_ok : forall st id start f, rdm_ok f st (fst (fst (rdm_rd_fsr_data0 recon f32_of_f64 st id start))).
Proof. intros st id start f. unfold rdm_rd_fsr_data0. rdm_auto f st. Qed.
Hint Resolve rdm_rd_fsr_data0_ok : rdmdb.

Lemma rdm_fsr_loop_ok : forall fuel st id esb start dl dst dbit pcs f,
  rdm_ok f st (fst (fst (fst (rdm_fsr_loop recon f32_of_f64 fuel st id esb start dl dst dbit pcs)))).
Proof.
  induction fuel as [| fu IH]; intros st id esb start dl dst dbit pcs f; cbn [rdm_fsr_loop].
  - rdm_auto f st.
  - destruct (dl <=? 0)%Z; [apply rdm_ok_refl |].
    rdm_auto f st.
Qed.
Hint Resolve rdm_fsr_loop_ok : rdmdb.

Lemma rdm_fsr_ok : forall st id start dl dst f, rdm_ok f st (fst (fst (fst (rdm_fsr recon f32_of_f64 st id start dl dst)))).
Proof. intros st id start dl dst f. unfold rdm_fsr. rdm_auto f st. Qed.
End FrameFsr.
#[global] Hint Resolve rdm_recon_loop_ok rdm_reconstruct_ok rdm_data0_finish_ok rdm_rd_fsr_data0_ok rdm_fsr_loop_ok rdm_fsr_ok : rdmdb.

(* ------------------------------------------------------------------ time-series tracks *)
Lemma rdm_ts_levels_ok : forall k st level t offset f, rdm_ok f st (fst (fst (rdm_ts_levels k st level t offset))).
Proof.
  induction k as [| k IH]; intros st level t offset f; cbn [rdm_ts_levels]; [apply rdm_ok_refl |].
  rdm_auto f st.
Qed.
#[global] Hint Resolve rdm_ts_levels_ok : rdmdb.
Lemma rdm_ts_seek_ok : forall st id level tt t f, rdm_ok f st (fst (rdm_ts_seek st id level tt t)).
Proof.
  intros st id level tt t f. unfold rdm_ts_seek.
  destruct (rdm_top_level rdm_levels (rdm_offsets st id tt)) as [top offset].
  rdm_auto f st.
Qed.
#[global] Hint Resolve rdm_ts_seek_ok : rdmdb.

Lemma rdm_anno_loop_ok : forall fuel st sid0 stopf pos items n f, rdm_ok f st (fst (fst (rdm_anno_loop fuel st sid0 stopf pos items n))).
Proof.
  induction fuel as [| fu IH]; intros st sid0 stopf pos items n f; cbn [rdm_anno_loop].
  - rdm_auto f st.
  - destruct (pos =? 0); [apply rdm_ok_refl |]. rdm_auto f st.
Qed.
#[global] Hint Resolve rdm_anno_loop_ok : rdmdb.
Lemma rdm_annotations_ok : forall st id ts stopf f, rdm_ok f st (fst (fst (rdm_annotations st id ts stopf))).
Proof. intros st id ts stopf f. unfold rdm_annotations. rdm_auto f st. Qed.

Lemma rdm_ud_loop_ok : forall fuel st stopf pos items n f, rdm_ok f st (fst (fst (rdm_ud_loop fuel st stopf pos items n))).
Proof.
  induction fuel as [| fu IH]; intros st stopf pos items n f; cbn [rdm_ud_loop].
  - rdm_auto f st.
  - destruct (pos =? 0); [apply rdm_ok_refl |]. rdm_auto f st.
Qed.
#[global] Hint Resolve rdm_ud_loop_ok : rdmdb.
Lemma rdm_user_data_ok : forall st stopf f, rdm_ok f st (fst (fst (rdm_user_data st stopf))).
Proof. intros st stopf f. unfold rdm_user_data. rdm_auto f st. Qed.

Lemma rdm_utc_loop_ok : forall fuel st sid0 sample_id stopf pos items n f,
  rdm_ok f st (fst (fst (rdm_utc_loop fuel st sid0 sample_id stopf pos items n))).
Proof.
  induction fuel as [| fu IH]; intros st sid0 sample_id stopf pos items n f; cbn [rdm_utc_loop].
  - rdm_auto f st.
  - destruct (pos =? 0); [apply rdm_ok_refl |]. rdm_auto f st.
Qed.
#[global] Hint Resolve rdm_utc_loop_ok : rdmdb.
Lemma rdm_utc_ok : forall st id sid stopf f, rdm_ok f st (fst (fst (rdm_utc st id sid stopf))).
Proof. intros st id sid stopf f. unfold rdm_utc. rdm_auto f st. Qed.
