(* REFINEMENT GLUE between the byte-exact writer model (WmRaw / WmCore / WmTs / WmFsr / WriterModel: tied to the C by
   byte-exact comparison of complete backend write logs) and the component models on which the functional theorems
   are proved (PyramidModel, FsrPackModel, TsModel, DefsModel, Spec).

   How the byte-exact model is observed.  Its output is the backend log (write / truncate / fsync calls).  RefineLog.v
   defines a deterministic parser of that log into the CHUNKS APPENDED to the file: rf_scan / rf_chunks (a 32-byte
   write at the current end of file, not at offset 0, is a chunk header; tag, chunk_meta and payload_length are decoded
   from its bytes; when payload_length <> 0 the next write is the payload; pad + CRC footers, in-place rewrites of
   item_next links and of TRACK_*_HEAD tables, the file header, fsync and truncate are not chunks).  All statements below
   about "the chunks the model writes" are statements about rf_scan of the model's log (rf_out / rt_out).

   Level of the statements.
   A (FSR pyramid), B (FSR data), C (annotation / UTC tracks) are COMPONENT-LEVEL: they hold for every state x0 of the
     byte-exact model that satisfies the writer's structural invariant (rf_fresh / rt_fresh, spelled out in
     refine_vocabulary_invariants_is: the writer is positioned at the end of the file, no fault, the cached list heads are
     headers that were written, the track's TRACK_*_HEAD chunk exists, nothing written on the track yet) and every
     sequence of calls on ONE track from there (rf_do = the bodies of jls_wr_fsr / jls_wr_fsr_omit_data, rt_rec = the
     bodies of jls_wr_annotation / jls_wr_utc: refine_api_ theorems), followed by the track's close.  The states reached by the
     model after jls_wr_open; jls_wr_source_def; jls_wr_signal_def satisfy the invariant (examples at the end).  The
     theorems are stated with a filter (rf_mine / rt_mine: tag and signal id) so that they are the statements needed for
     the lifting to programs of wm_run_full.
   A is LIFTED TO WHOLE PROGRAMS for a partial class (refine_prog_fsr_partial, RefineProg.v): one FSR signal receives
     sample data, no annotation / UTC call, any other calls interleaved.  NOT proved: the lifting for programs with sample
     data on several signals, and the lifting of C (programs with annotation / UTC calls); B is about the blocks handed to
     wr_data, which A's chunk relation ties to the DATA payloads, so B lifts with A.
   D (definition payloads, return codes) and E (acceptance) are for WHOLE PROGRAMS (wm_run_full).
   Nothing here changes a model; summary VALUES (summ1 / summN oracles) are not related to SummQ (C02's subject): the
   SUMMARY chunks are related in tag, level, timestamp, entry count and length only. *)
From Coq Require Import NArith ZArith List Bool.
From JLS Require Import Generated CrcDefs Spec Format WmRaw WmCore WmTs WmFsr WriterModel WmProofs
  PyramidModel TsModel FsrPackModel FsrPackProofs DefsModel
  RefineLog RefineFsr RefinePyr RefinePyr2 RefineBits RefineBits2 RefineDefs RefineTs RefineExamples RefineProg.
Import ListNotations.
Local Open Scope N_scope.

(* ------------------------------------------------------------------ vocabulary: the chunk view of the log *)
Theorem refine_vocabulary_log_is :
  (forall s e, rf_step s e =
     match e with
     | WmTrunc n => {| rp_end := n; rp_pend := None; rp_out := rp_out s |}
     | WmSync => s
     | WmWrite off b =>
       let e' := N.max (rp_end s) (off + rf_len b) in
       match rp_pend s with
       | Some (o, tag, meta) =>
         if off =? o + 32
         then {| rp_end := e'; rp_pend := None;
                 rp_out := {| rc_off := o; rc_tag := tag; rc_meta := meta; rc_pay := b |} :: rp_out s |}
         else {| rp_end := e'; rp_pend := None; rp_out := rp_out s |}
       | None =>
         if (off =? rp_end s) && negb (off =? 0) && (rf_len b =? 32)
         then let h := fm_ch_fields b in
              if fm_payload_length h =? 0
              then {| rp_end := e'; rp_pend := None;
                      rp_out := {| rc_off := off; rc_tag := fm_tag h; rc_meta := fm_chunk_meta h; rc_pay := [] |} :: rp_out s |}
              else {| rp_end := e'; rp_pend := Some (off, fm_tag h, fm_chunk_meta h); rp_out := rp_out s |}
         else {| rp_end := e'; rp_pend := None; rp_out := rp_out s |}
       end
     end) /\
  rf_scan [] = {| rp_end := 0; rp_pend := None; rp_out := [] |} /\
  (forall e l, rf_scan (e :: l) = rf_step (rf_scan l) e) /\
  (forall log, rf_chunks log = rev (rp_out (rf_scan log))) /\
  (forall b, rf_len b = N.of_nat (length b)) /\
  (forall x, rf_out x = rp_out (rf_scan (wm_rlog (wm_b_raw (wm_fx_base x))))) /\
  (forall x, rt_out x = rp_out (rf_scan (wm_rlog (wm_b_raw (wm_tx_base x))))).
Proof. do 6 (split; [first [ reflexivity | (intros; reflexivity) | (intros; split; (let X := fresh "X" in intro X; exact X)) ]|]). first [ reflexivity | (intros; reflexivity) | (intros; split; (let X := fresh "X" in intro X; exact X)) ]. Qed.
Print Assumptions refine_vocabulary_log_is.

(* ------------------------------------------------------------------ vocabulary: the writer's structural invariant *)
Theorem refine_vocabulary_invariants_is :
  (forall fend disk, rf_disk_ok fend disk <->
     forall o h, In (o, h) disk ->
       o <> 0 /\ o + fm_chunk_size (fm_payload_length h) <= fend /\ fm_tag h <> JLS_TAG_INVALID /\
       forall h', In (o, h') disk -> fm_payload_length h' = fm_payload_length h) /\
  (forall r, rf_rok r <->
     (wm_offset r = wm_fpos r /\ wm_fend r = wm_fpos r /\ wm_fault r = false) /\ 32 <= wm_fend r /\
     rp_end (rf_scan (wm_rlog r)) = wm_fend r /\ rp_pend (rf_scan (wm_rlog r)) = None /\
     rf_disk_ok (wm_fend r) (wm_disk r)) /\
  (forall r c, rf_ref r c <-> wm_ck_offset c = 0 \/ In (wm_ck_offset c, wm_ck_hdr c) (wm_disk r)) /\
  (forall b, rf_bok b <->
     rf_rok (wm_b_raw b) /\ rf_ref (wm_b_raw b) (wm_b_source_head b) /\ rf_ref (wm_b_raw b) (wm_b_signal_head b) /\
     rf_ref (wm_b_raw b) (wm_b_ud_head b)) /\
  (forall r t, rf_tok r t <->
     rf_ref r (wm_tk_data_head t) /\ Forall (rf_ref r) (wm_tk_index_head t) /\ Forall (rf_ref r) (wm_tk_summary_head t) /\
     length (wm_tk_offsets t) = 16%nat /\ wm_tk_type t < 4 /\
     wm_ck_offset (wm_tk_head t) <> 0 /\ In (wm_ck_offset (wm_tk_head t), wm_ck_hdr (wm_tk_head t)) (wm_disk r) /\
     fm_payload_length (wm_ck_hdr (wm_tk_head t)) = 128) /\
  (forall x, rf_fresh x <->
     rf_bok (wm_fx_base x) /\ rf_tok (wm_b_raw (wm_fx_base x)) (wm_fx_tk x) /\
     wm_tk_type (wm_fx_tk x) = JLS_TRACK_TYPE_FSR /\
     wm_tk_offsets (wm_fx_tk x) = repeat 0 16 /\ wm_ck_offset (wm_tk_data_head (wm_fx_tk x)) = 0 /\
     wm_f_levels (wm_fx_fsr x) = repeat None 16) /\
  (forall ty d x, rt_fresh ty d x <->
     rf_bok (wm_tx_base x) /\ rf_tok (wm_b_raw (wm_tx_base x)) (wm_tx_tk x) /\ wm_tk_type (wm_tx_tk x) = ty /\
     wm_tk_offsets (wm_tx_tk x) = repeat 0 16 /\ wm_tx_ts x = wm_ts_open (N.of_nat d)).
Proof. do 6 (split; [first [ reflexivity | (intros; reflexivity) | (intros; split; (let X := fresh "X" in intro X; exact X)) ]|]). first [ reflexivity | (intros; reflexivity) | (intros; split; (let X := fresh "X" in intro X; exact X)) ]. Qed.
Print Assumptions refine_vocabulary_invariants_is.

(* ------------------------------------------------------------------ vocabulary: calls, blocks, scripts (FSR) *)
Theorem refine_vocabulary_fsr_is :
  (* one call on the signal = the body of jls_wr_fsr / jls_wr_fsr_omit_data *)
  (forall summ1 summN d x sid samples, rf_do summ1 summN d x (RfData sid samples) = wm_fsr_data summ1 summN d x sid samples) /\
  (forall summ1 summN d x en, rf_do summ1 summN d x (RfOmit en) =
     wm_fx_set_fsr x (wm_f_set_omit (wm_fx_fsr x) (if en =? 0 then 0 else N.lor (wm_f_omit (wm_fx_fsr x)) 1))) /\
  (* full blocks of spd samples and the rest *)
  (forall spd l, rf_cut 0 spd l = ([], l)) /\
  (forall f spd l, rf_cut (S f) spd l =
     if (length l <? spd)%nat then ([], l) else let '(bl, r) := rf_cut f spd (skipn spd l) in (firstn spd l :: bl, r)) /\
  (* what a call appends to the stream: Spec.fsr_write's three cases with the writer's fill value *)
  (forall dt next sid samples, rf_extend dt next sid samples =
     if (sid =? next)%Z then samples
     else if (sid <? next)%Z
          then (if (sid + Z.of_nat (length samples) <=? next)%Z then [] else skipn (Z.to_nat (next - sid)) samples)
          else repeat (wm_fill_sample dt) (Z.to_nat (sid - next)) ++ samples) /\
  (forall d s sid, rf_bs_data d s sid [] = (s, [])) /\
  (forall d s sid s0 sm, rf_bs_data d s sid (s0 :: sm) =
     let s1 := if bs_alloc s then s else {| bs_alloc := true; bs_ts := sid; bs_pend := [] |} in
     let next := (bs_ts s1 + Z.of_nat (length (bs_pend s1)))%Z in
     let all := bs_pend s1 ++ rf_extend (sg_dtype d) next sid (s0 :: sm) in
     let '(bl, r) := rf_cut (S (length all)) (N.to_nat (sg_spd d)) all in
     ({| bs_alloc := true; bs_ts := (bs_ts s1 + Z.of_nat (length bl) * Z.of_N (sg_spd d))%Z; bs_pend := r |}, bl)) /\
  (forall w blk, rf_sblk w blk =
     PsBlk (Z.of_nat (length blk)) (let data := wm_pack w blk in wm_is_mem_const data (wm_data_const w (hd 0 data)))) /\
  (forall d s, rf_script d s [] = if bs_alloc s then [rf_sblk (dt_bits (sg_dtype d)) (bs_pend s)] else []) /\
  (forall d s en r, rf_script d s (RfOmit en :: r) = PsOmit (negb (en =? 0)) :: rf_script d s r) /\
  (forall d s sid samples r, rf_script d s (RfData sid samples :: r) =
     let '(s1, bl) := rf_bs_data d s sid samples in map (rf_sblk (dt_bits (sg_dtype d))) bl ++ rf_script d s1 r) /\
  (forall d s, rf_blocks d s [] = if bs_alloc s then (match bs_pend s with [] => [] | _ => [bs_pend s] end) else []) /\
  (forall d s en r, rf_blocks d s (RfOmit en :: r) = rf_blocks d s r) /\
  (forall d s sid samples r, rf_blocks d s (RfData sid samples :: r) =
     let '(s1, bl) := rf_bs_data d s sid samples in bl ++ rf_blocks d s1 r) /\
  rf_bs0 = {| bs_alloc := false; bs_ts := 0%Z; bs_pend := [] |} /\
  rf_t0 [] = 0%Z /\ (forall sid s0 sm r, rf_t0 (RfData sid (s0 :: sm) :: r) = sid) /\
  (forall sid r, rf_t0 (RfData sid [] :: r) = rf_t0 r) /\ (forall en r, rf_t0 (RfOmit en :: r) = rf_t0 r) /\
  rf_calls [] = [] /\ (forall en r, rf_calls (RfOmit en :: r) = rf_calls r) /\
  (forall sid samples r, rf_calls (RfData sid samples :: r) = (sid, samples) :: rf_calls r) /\
  (forall d, rf_pd d = {| py_spd := Z.of_N (sg_spd d); py_sdf := Z.of_N (sg_sdf d); py_eps := Z.of_N (sg_eps d); py_sumdf := Z.of_N (sg_sumdf d) |}) /\
  (* abstract position of PyramidModel -> real file offset: the chunk number p - pos0 of the signal *)
  (forall offs pos0 p, rf_psi offs pos0 p = if (p =? 0)%Z then 0 else nth (Z.to_nat (p - pos0)) offs 0) /\
  (forall n pos0 p, rf_pvalid n pos0 p <-> p = 0%Z \/ (pos0 <= p < pos0 + Z.of_nat n)%Z) /\
  (forall d c, rf_mine d c =
     ((rc_tag c =? JLS_TAG_TRACK_FSR_DATA) || (rc_tag c =? JLS_TAG_TRACK_FSR_INDEX) || (rc_tag c =? JLS_TAG_TRACK_FSR_SUMMARY))
     && (N.land (rc_meta c) 4095 =? sg_id d)) /\
  (* a chunk of the log against a chunk of PyramidModel's disk *)
  (forall d pos0 t0 offs blks c pc, rf_chunk_rel d pos0 t0 offs blks c pc <->
     rc_off c = rf_psi offs pos0 (pc_off pc) /\ rf_pvalid (length offs) pos0 (pc_off pc) /\
     match pc_kind pc with
     | PyData =>
       rc_tag c = JLS_TAG_TRACK_FSR_DATA /\ rc_meta c = wm_meta (sg_id d) 0 /\
       exists blk, nth_error blks (Z.to_nat ((pc_ts pc - t0) / py_spd (rf_pd d))) = Some blk /\
                   Z.of_nat (length blk) = pc_count pc /\
                   rc_pay c = wm_fsr_data_payload (pc_ts pc) (Z.to_N (pc_count pc)) (dt_bits (sg_dtype d)) (wm_pack (dt_bits (sg_dtype d)) blk)
     | PyIndex L =>
       rc_tag c = JLS_TAG_TRACK_FSR_INDEX /\ rc_meta c = wm_meta (sg_id d) (N.of_nat L) /\
       rc_pay c = wm_fsr_index_payload (pc_ts pc) (Z.to_N (pc_count pc)) (map (rf_psi offs pos0) (pc_entries pc)) /\
       Forall (rf_pvalid (length offs) pos0) (pc_entries pc)
     | PySummary L =>
       rc_tag c = JLS_TAG_TRACK_FSR_SUMMARY /\ rc_meta c = wm_meta (sg_id d) (N.of_nat L) /\
       exists entries, Z.of_nat (length entries) = pc_count pc /\
                       rc_pay c = wm_fsr_summary_payload (sg_dtype d) (pc_ts pc) (Z.to_N (pc_count pc)) entries
     end).
Proof. do 26 (split; [first [ reflexivity | (intros; reflexivity) | (intros; split; (let X := fresh "X" in intro X; exact X)) ]|]). first [ reflexivity | (intros; reflexivity) | (intros; split; (let X := fresh "X" in intro X; exact X)) ]. Qed.
Print Assumptions refine_vocabulary_fsr_is.

(* ------------------------------------------------------------------ A. FSR pyramid *)
(* For one FSR signal with an aligned definition d (guards: the payload lengths fit their uint32 header field; the
   sample width is sub-byte or a whole number of bytes), from any state satisfying the writer's invariant, any calls
   (any sample ids: contiguous, gaps, overlaps; omission on/off) and close: whenever PyramidModel's writer runs the
   derived script without fault (the only fault is the level-16 overflow, Properties_C01_pyr.writer_faults_only_level_oob),
   the byte-exact model does not fault, ALL the chunks it appends are the list cs (rf_out x = rev cs ++ rf_out x0) and they are, ONE FOR ONE AND IN ORDER,
   PyramidModel's disk: same kind, level, payload-header timestamp and entry count; INDEX payloads byte for byte with the
   abstract positions replaced by the real offsets of the chunks they denote (0 = omitted block); DATA payloads = the
   payload header ++ the packed samples of block number (timestamp - t0) / spd of rf_blocks (see B); and the track's
   head_offsets[] are PyramidModel's under the same map. *)
Theorem refine_fsr_pyramid : forall summ1 summN d pos0 x0 ops st,
  (0 < pos0)%Z -> sg_id d < 256 -> 0 < sg_spd d ->
  (dt_bits (sg_dtype d) < 8 \/ dt_bits (sg_dtype d) mod 8 = 0) ->
  0 < wm_fill_buf_samples (sg_dtype d) ->
  32 * sg_eps d + 16 < 4294967296 -> 8 * sg_sumdf d + 16 < 4294967296 ->
  16 + (sg_spd d * dt_bits (sg_dtype d) + 7) / 8 < 4294967296 ->
  rf_fresh x0 -> wm_fx_fsr x0 = wm_fsr_open ->
  py_srun (rf_pd d) (dt_bits (sg_dtype d) <=? 8) (rf_t0 ops) pos0 (rf_script d rf_bs0 ops) = PyOk st ->
  let x := wm_fsr_close summ1 summN d (fold_left (rf_do summ1 summN d) ops x0) in
  exists cs,
    rf_out x = rev cs ++ rf_out x0 /\
    filter (rf_mine d) (rf_out x) = rev cs ++ filter (rf_mine d) (rf_out x0) /\
    Forall2 (rf_chunk_rel d pos0 (rf_t0 ops) (map rc_off cs) (rf_blocks d rf_bs0 ops)) cs (pw_disk st) /\
    wm_fault (wm_b_raw (wm_fx_base x)) = false /\ rf_bok (wm_fx_base x) /\
    (forall L, (L < 16)%nat ->
       wm_get_off (wm_tk_offsets (wm_fx_tk x)) (N.of_nat L) = rf_psi (map rc_off cs) pos0 (py_head_get st L)).
Proof. exact rf_fsr_refines. Qed.
Print Assumptions refine_fsr_pyramid.

(* the API calls are rf_do on the signal's (base, FSR track, FSR state) *)
Theorem refine_api_fsr : forall summ1 summN st sig sample_id samples s f,
  wm_signal_validate_typed st sig JLS_SIGNAL_TYPE_FSR = (0, Some s) -> wm_sg_fsr s = Some f ->
  let x' := rf_do summ1 summN (wm_sg_def s) {| wm_fx_base := wm_st_base st; wm_fx_tk := wm_sg_tk_fsr s; wm_fx_fsr := f |} (RfData sample_id samples) in
  wm_api_fsr summ1 summN st sig sample_id samples =
  (wm_put_sig st (wm_fx_base x') (wm_sg_set_fsr s (wm_fx_tk x') (Some (wm_fx_fsr x'))), 0).
Proof. exact rf_api_fsr. Qed.
Print Assumptions refine_api_fsr.

Theorem refine_api_fsr_omit : forall summ1 summN st sig en s f,
  wm_signal_validate_typed st sig JLS_SIGNAL_TYPE_FSR = (0, Some s) -> wm_sg_fsr s = Some f ->
  let x' := rf_do summ1 summN (wm_sg_def s) {| wm_fx_base := wm_st_base st; wm_fx_tk := wm_sg_tk_fsr s; wm_fx_fsr := f |} (RfOmit en) in
  wm_api_fsr_omit_data st sig en =
  (wm_put_sig st (wm_fx_base x') (wm_sg_set_fsr s (wm_fx_tk x') (Some (wm_fx_fsr x'))), 0).
Proof. exact rf_api_omit. Qed.
Print Assumptions refine_api_fsr_omit.

Example refine_fsr_pyramid_example :
  (0 < 1)%Z /\ sg_id rx_d < 256 /\ 0 < sg_spd rx_d /\ (dt_bits (sg_dtype rx_d) < 8 \/ dt_bits (sg_dtype rx_d) mod 8 = 0) /\
  0 < wm_fill_buf_samples (sg_dtype rx_d) /\ 32 * sg_eps rx_d + 16 < 4294967296 /\ 8 * sg_sumdf rx_d + 16 < 4294967296 /\
  16 + (sg_spd rx_d * dt_bits (sg_dtype rx_d) + 7) / 8 < 4294967296 /\
  rf_fresh rx_x0 /\ wm_fx_fsr rx_x0 = wm_fsr_open /\
  exists st, py_srun (rf_pd rx_d) (dt_bits (sg_dtype rx_d) <=? 8) (rf_t0 rx_ops) 1 (rf_script rx_d rf_bs0 rx_ops) = PyOk st /\
    length (pw_disk st) = 10%nat /\
    map (fun c => (rc_tag c, fm_meta_level (rc_meta c)))
        (rev (filter (rf_mine rx_d) (rf_out (wm_fsr_close wm_zero_summ1 wm_zero_summN rx_d
                                              (fold_left (rf_do wm_zero_summ1 wm_zero_summN rx_d) rx_ops rx_x0))))) =
    [(34, 0); (34, 0); (34, 0); (35, 1); (36, 1); (34, 0); (35, 1); (36, 1); (35, 2); (36, 2)] /\
    map (@length N) (rf_blocks rx_d rf_bs0 rx_ops) = [32; 32; 32; 32; 32; 32; 32; 32; 32; 32; 32; 32; 32; 32; 27]%nat.
Proof. exact rx_fsr_example. Qed.
Print Assumptions refine_fsr_pyramid_example.

(* ---- A, lifted to WHOLE PROGRAMS (partial class) ----
   programs of wm_run_full = p1 ++ WSig d0 :: p2 in which signal sid = sg_id d is (successfully) defined by the call
   WSig d0, sample data is written to signal sid only (rp_ok: every WFsr names sid; p1 may not define sid, so the WFsr
   calls of p1 are all rejected), and no annotation / UTC call is made; otherwise ANY calls in any order: source and
   signal definitions (other signals of any type, each of which writes its TRACK_*_DEF / _HEAD chunks between the
   chunks of signal sid), user data, flushes, omit calls on any signal, rejected calls of every kind. *)
Theorem refine_vocabulary_prog_is :
  (forall sid o, rp_ok sid o =
     match o with
     | WFsr s _ _ => s = sid
     | WAnno _ _ => False
     | WUtc _ _ _ => False
     | WUd u => N.of_nat (length (ud_data u)) + 1 < 4294967296
     | _ => True
     end) /\
  (forall sid, rp_proj sid [] = []) /\
  (forall sid o r, rp_proj sid (o :: r) =
     match o with
     | WFsr s sample_id samples => if s =? sid then RfData sample_id samples :: rp_proj sid r else rp_proj sid r
     | WOmit s en => if s =? sid then RfOmit en :: rp_proj sid r else rp_proj sid r
     | _ => rp_proj sid r
     end).
Proof. exact rp_vocab_prog. Qed.
Print Assumptions refine_vocabulary_prog_is.

(* the FSR chunks of signal sid in the COMPLETE backend log of the program (open ... close) are PyramidModel's disk for
   the calls of the program on that signal, and the run does not fault *)
Theorem refine_prog_fsr_partial : forall summ1 summN d0 d pos0 p1 p2 stf,
  (0 < pos0)%Z -> sg_id d < 256 -> sg_id d <> 0 -> sg_type d = JLS_SIGNAL_TYPE_FSR -> 0 < sg_spd d ->
  (dt_bits (sg_dtype d) < 8 \/ dt_bits (sg_dtype d) mod 8 = 0) ->
  0 < wm_fill_buf_samples (sg_dtype d) ->
  32 * sg_eps d + 16 < 4294967296 -> 8 * sg_sumdf d + 16 < 4294967296 ->
  16 + (sg_spd d * dt_bits (sg_dtype d) + 7) / 8 < 4294967296 ->
  let sid := sg_id d in
  let p := p1 ++ WSig d0 :: p2 in
  Forall (rp_ok sid) p ->
  Forall (fun o => match o with WSig d' => sg_id d' <> sid | _ => True end) p1 ->
  let st1 := fst (wm_steps summ1 summN wm_api_open p1 []) in
  snd (wm_api_signal_def st1 d0) = 0 -> wm_sig_align d0 = Some d ->
  let ops := rp_proj sid p2 in
  py_srun (rf_pd d) (dt_bits (sg_dtype d) <=? 8) (rf_t0 ops) pos0 (rf_script d rf_bs0 ops) = PyOk stf ->
  let stF := fst (wm_run_full summ1 summN p) in
  wm_st_fault stF = false /\
  exists cs, filter (rf_mine d) (rf_chunks (wm_st_log stF)) = cs /\
    Forall2 (rf_chunk_rel d pos0 (rf_t0 ops) (map rc_off cs) (rf_blocks d rf_bs0 ops)) cs (pw_disk stf).
Proof. exact rp_prog_fsr_partial. Qed.
Print Assumptions refine_prog_fsr_partial.

Example refine_prog_fsr_example :
  (0 < 1)%Z /\ sg_id rpx_d < 256 /\ sg_id rpx_d <> 0 /\ sg_type rpx_d = JLS_SIGNAL_TYPE_FSR /\ 0 < sg_spd rpx_d /\
  (dt_bits (sg_dtype rpx_d) < 8 \/ dt_bits (sg_dtype rpx_d) mod 8 = 0) /\
  0 < wm_fill_buf_samples (sg_dtype rpx_d) /\ 32 * sg_eps rpx_d + 16 < 4294967296 /\ 8 * sg_sumdf rpx_d + 16 < 4294967296 /\
  16 + (sg_spd rpx_d * dt_bits (sg_dtype rpx_d) + 7) / 8 < 4294967296 /\
  Forall (rp_ok (sg_id rpx_d)) (rpx_p1 ++ WSig rpx_sig :: rpx_p2) /\
  Forall (fun o => match o with WSig d' => sg_id d' <> sg_id rpx_d | _ => True end) rpx_p1 /\
  snd (wm_api_signal_def (fst (wm_steps wm_zero_summ1 wm_zero_summN wm_api_open rpx_p1 [])) rpx_sig) = 0 /\
  wm_sig_align rpx_sig = Some rpx_d /\
  exists stf, py_srun (rf_pd rpx_d) (dt_bits (sg_dtype rpx_d) <=? 8) (rf_t0 (rp_proj (sg_id rpx_d) rpx_p2)) 1
                (rf_script rpx_d rf_bs0 (rp_proj (sg_id rpx_d) rpx_p2)) = PyOk stf /\
    length (pw_disk stf) = 10%nat /\
    snd (wm_run_full wm_zero_summ1 wm_zero_summN (rpx_p1 ++ WSig rpx_sig :: rpx_p2)) = [0; 0; 0; 16; 0; 0; 0; 0; 3; 0; 17; 0; 17] /\
    map (fun c => (rc_tag c, fm_meta_level (rc_meta c)))
        (filter (rf_mine rpx_d) (rf_chunks (wm_st_log (fst (wm_run_full wm_zero_summ1 wm_zero_summN (rpx_p1 ++ WSig rpx_sig :: rpx_p2)))))) =
    [(34, 0); (34, 0); (34, 0); (35, 1); (36, 1); (34, 0); (35, 1); (36, 1); (35, 2); (36, 2)] /\
    length (rf_chunks (wm_st_log (fst (wm_run_full wm_zero_summ1 wm_zero_summN (rpx_p1 ++ WSig rpx_sig :: rpx_p2))))) = 33%nat.
Proof. exact rp_prog_example. Qed.
Print Assumptions refine_prog_fsr_example.

(* ------------------------------------------------------------------ B. FSR data *)
(* the packing of the byte-exact model (an accumulator for sub-byte widths, little-endian bytes otherwise) is Spec.pack *)
Theorem refine_pack_is_spec_pack : forall w l, (w < 8 \/ w mod 8 = 0) -> wm_pack w l = pack w l.
Proof. exact rb_pack_eq. Qed.
Print Assumptions refine_pack_is_spec_pack.

(* the blocks handed to wr_data (the blocks of A's DATA chunks) are the stream of Spec.fsr_write over the same calls
   (gaps filled, first-written samples kept) cut into blocks: every block but the last is full *)
Theorem refine_blocks_are_spec_stream : forall d ops,
  0 < sg_spd d -> wm_fill_sample (sg_dtype d) = fill_value (sg_dtype d) ->
  let g := fold_left (fun g c => fsr_write g (fst c) (snd c)) (rf_calls ops) (new_sig d) in
  concat (rf_blocks d rf_bs0 ops) = ss_samples g /\
  forall k b, nth_error (rf_blocks d rf_bs0 ops) k = Some b ->
    (0 < length b <= N.to_nat (sg_spd d))%nat /\
    ((S k < length (rf_blocks d rf_bs0 ops))%nat -> length b = N.to_nat (sg_spd d)).
Proof. exact (fun d ops H1 H2 => rb_blocks_stream d H1 H2 ops). Qed.
Print Assumptions refine_blocks_are_spec_stream.

Theorem refine_vocabulary_fp_blocks_is :
  (forall w spd first k, rb_fp_blocks w spd first k [] = []) /\
  (forall w spd first k b r, rb_fp_blocks w spd first k (b :: r) =
     ((first + Z.of_nat k * Z.of_N spd)%Z, N.of_nat (length b), pack w b) :: rb_fp_blocks w spd first (S k) r).
Proof. exact rb_vocab_fp_blocks. Qed.
Print Assumptions refine_vocabulary_fp_blocks_is.

(* ... and, packed, exactly the blocks of FsrPackModel's writer (bit-level block buffer, any initial buffer content)
   on the same calls: block k = (first + k * spd, sample count, Spec.pack of the samples) *)
Theorem refine_blocks_are_fp_blocks : forall d ops buf0,
  In (sg_dtype d) [JLS_DATATYPE_I4; JLS_DATATYPE_I8; JLS_DATATYPE_I16; JLS_DATATYPE_I24; JLS_DATATYPE_I32; JLS_DATATYPE_I64;
                   JLS_DATATYPE_U1; JLS_DATATYPE_U4; JLS_DATATYPE_U8; JLS_DATATYPE_U16; JLS_DATATYPE_U24; JLS_DATATYPE_U32;
                   JLS_DATATYPE_U64; JLS_DATATYPE_F32; JLS_DATATYPE_F64] ->
  0 < sg_spd d -> (sg_spd d * dt_bits (sg_dtype d)) mod 8 = 0 -> sg_spd d * dt_bits (sg_dtype d) + 7 < 4294967296 ->
  8 * N.of_nat (length buf0) = sg_spd d * dt_bits (sg_dtype d) -> Forall (fun b => b < 256) buf0 ->
  Forall (fun c => N.of_nat (length (snd c)) < 4294967296) (rf_calls ops) ->
  exists st, fp_write_all (sg_dtype d) (sg_spd d) buf0 (rf_calls ops) = FP_ok st /\
    fp_blocks st = rb_fp_blocks (dt_bits (sg_dtype d)) (sg_spd d) (rf_t0 ops) 0 (rf_blocks d rf_bs0 ops).
Proof. exact rb_fp_blocks_eq. Qed.
Print Assumptions refine_blocks_are_fp_blocks.

Example refine_blocks_example :
  In (sg_dtype rx_d) fp_dt_list /\ 0 < sg_spd rx_d /\ (sg_spd rx_d * dt_bits (sg_dtype rx_d)) mod 8 = 0 /\
  sg_spd rx_d * dt_bits (sg_dtype rx_d) + 7 < 4294967296 /\
  8 * N.of_nat (length (repeat 165 32)) = sg_spd rx_d * dt_bits (sg_dtype rx_d) /\ Forall (fun b => b < 256) (repeat 165 32) /\
  Forall (fun c => N.of_nat (length (snd c)) < 4294967296) (rf_calls rx_ops) /\
  exists st, fp_write_all (sg_dtype rx_d) (sg_spd rx_d) (repeat 165 32) (rf_calls rx_ops) = FP_ok st /\ length (fp_blocks st) = 15%nat.
Proof. exact rx_bits_example. Qed.
Print Assumptions refine_blocks_example.

(* ------------------------------------------------------------------ C. annotation / UTC tracks *)
Theorem refine_vocabulary_ts_is :
  (forall offs k, rt_psi offs k = match k with O => 0 | S j => nth j offs 0 end) /\
  (forall offs e, rt_ent offs e = (fst e, rt_psi offs (snd e))) /\
  (forall ty kind, rt_tag ty kind = fm_track_tag ty kind) /\
  (forall sid ty c, rt_mine sid ty c =
     ((rc_tag c =? rt_tag ty JLS_TRACK_CHUNK_DATA) || (rc_tag c =? rt_tag ty JLS_TRACK_CHUNK_INDEX) || (rc_tag c =? rt_tag ty JLS_TRACK_CHUNK_SUMMARY))
     && (N.land (rc_meta c) 4095 =? sid)) /\
  (forall A SE encA encS sid ty offs c tc, rt_chunk_rel A SE encA encS sid ty offs c tc <->
     match tc with
     | TsData r => rc_tag c = rt_tag ty JLS_TRACK_CHUNK_DATA /\ rc_meta c = sid /\ rc_pay c = encA r
     | TsIndex L es =>
       rc_tag c = rt_tag ty JLS_TRACK_CHUNK_INDEX /\ rc_meta c = wm_meta sid (N.of_nat L) /\
       rc_pay c = wm_ts_index_payload (fst (hd (0%Z, 0%nat) es)) (N.of_nat (length es)) (map (rt_ent offs) es) /\
       Forall (fun e => (snd e <= length offs)%nat) es
     | TsSummary L ss =>
       rc_tag c = rt_tag ty JLS_TRACK_CHUNK_SUMMARY /\ rc_meta c = wm_meta sid (N.of_nat L) /\
       exists ts0, rc_pay c = wm_ts_summary_payload ts0 (N.of_nat (length ss)) (map encS ss)
     end) /\
  (forall A SE key summ encA encS sid ty x r, rt_rec A SE key summ encA encS sid ty x r =
     rt_write sid (rt_tag ty JLS_TRACK_CHUNK_DATA) x (encA r) (rf_len (encA r)) (key r) (encS (summ r))) /\
  (forall sid tag x payload plen key sentry, rt_write sid tag x payload plen key sentry =
     let b := wm_tx_base x in
     let r := wm_b_raw b in
     let t := wm_tx_tk x in
     let offset := wm_raw_chunk_tell r in
     let h := wm_mk_hdr (wm_ck_offset (wm_tk_data_head t)) tag sid plen in
     let '(r1, h1) := wm_raw_wr r h payload in
     let '(r2, dh) := wm_update_item_head r1 (wm_tk_data_head t) {| wm_ck_offset := offset; wm_ck_hdr := h1 |} in
     let '(b1, t1) := wm_track_update (wm_b_set_raw b r2) sid (wm_tk_set_data_head t dh) 0 offset in
     wm_ts_add sid {| wm_tx_base := b1; wm_tx_tk := t1; wm_tx_ts := wm_tx_ts x |} key offset sentry) /\
  (forall s, rt_anno_encS s = let '(t, ty, g, y) := s in wm_anno_summary_entry t ty g y) /\
  (forall p, rt_utc_encA p = wm_utc_payload (fst p) (snd p)) /\
  (forall p, rt_utc_encS p = wm_utc_summary_entry (fst p) (snd p)).
Proof. do 9 (split; [first [ reflexivity | (intros; reflexivity) | (intros; split; (let X := fresh "X" in intro X; exact X)) ]|]). first [ reflexivity | (intros; reflexivity) | (intros; split; (let X := fresh "X" in intro X; exact X)) ]. Qed.
Print Assumptions refine_vocabulary_ts_is.

(* For a timestamp-indexed track (ty = annotation or UTC) of signal sid with decimate factor d >= 2, record type A,
   DATA payload codec encA, 16-byte summary-entry codec encS: from any state satisfying the writer's invariant, any
   records written through jls_wr_annotation / jls_wr_utc (rt_rec) and the close: whenever TsModel's writer ends with
   status OK (no overflow of the level arrays: fewer than d^15 records), the byte-exact model does not fault and the
   chunks it appends with the track's tags are, one for one and in order, TsModel's disk: DATA chunks carry the records;
   INDEX chunks are byte for byte the (timestamp, offset) entries with TsModel's ordinals replaced by the real offsets of
   the chunks they denote; SUMMARY chunks carry the encoded summary entries; head_offsets[] agree under the same map. *)
Theorem refine_ts_track : forall (A SE : Type) (key : A -> Z) (summ : A -> SE) (encA : A -> list N) (encS : SE -> list N) (sid ty : N) (d : nat),
  sid < 256 -> ty < 4 -> (forall s, length (encS s) = 16%nat) -> (2 <= d)%nat -> 16 + 16 * N.of_nat d < 4294967296 ->
  (forall r, rf_len (encA r) < 4294967296) ->
  forall (recs : list A) (x0 : wm_tx),
  rt_fresh ty d x0 ->
  let w := ts_file A SE key summ d recs in
  tw_st w = TsOk ->
  let x := wm_ts_close sid (fold_left (rt_rec A SE key summ encA encS sid ty) recs x0) in
  exists cs,
    rt_out x = rev cs ++ rt_out x0 /\
    filter (rt_mine sid ty) (rt_out x) = rev cs ++ filter (rt_mine sid ty) (rt_out x0) /\
    Forall2 (rt_chunk_rel A SE encA encS sid ty (map rc_off cs)) cs (tw_disk w) /\
    wm_fault (wm_b_raw (wm_tx_base x)) = false /\ rf_bok (wm_tx_base x) /\
    (forall L, (L < 16)%nat -> wm_get_off (wm_tk_offsets (wm_tx_tk x)) (N.of_nat L) = rt_psi (map rc_off cs) (tw_head w L)).
Proof. exact rt_ts_refines. Qed.
Print Assumptions refine_ts_track.

(* jls_wr_annotation / jls_wr_utc, once the arguments are accepted, are rt_rec on the signal's annotation / UTC track
   with TsModel's instances of Spec (ts_anno_file / ts_utc_file use the same key and summary functions) *)
Theorem refine_api_annotation : forall st sig a s ts,
  wm_signal_validate st sig = (0, Some s) -> (256 <=? an_type a) = false -> (256 <=? an_stype a) = false ->
  ((1 <=? an_stype a) && (an_stype a <=? 3)) = true -> wm_sg_anno s = Some ts ->
  let x' := rt_rec anno ts_anno_sum an_ts ts_anno_summ wm_anno_payload rt_anno_encS sig JLS_TRACK_TYPE_ANNOTATION
                   {| wm_tx_base := wm_st_base st; wm_tx_tk := wm_sg_tk_anno s; wm_tx_ts := ts |} a in
  wm_api_annotation st sig a = (wm_put_sig st (wm_tx_base x') (wm_sg_set_anno s (wm_tx_tk x') (Some (wm_tx_ts x'))), 0).
Proof. exact rt_api_annotation. Qed.
Print Assumptions refine_api_annotation.

Theorem refine_api_utc : forall st sig sample_id utc s ts,
  wm_signal_validate_typed st sig JLS_SIGNAL_TYPE_FSR = (0, Some s) -> wm_sg_utc s = Some ts ->
  let x' := rt_rec (Z * Z) (Z * Z) fst (fun p => p) rt_utc_encA rt_utc_encS sig JLS_TRACK_TYPE_UTC
                   {| wm_tx_base := wm_st_base st; wm_tx_tk := wm_sg_tk_utc s; wm_tx_ts := ts |} (sample_id, utc) in
  wm_api_utc st sig sample_id utc = (wm_put_sig st (wm_tx_base x') (wm_sg_set_utc s (wm_tx_tk x') (Some (wm_tx_ts x'))), 0).
Proof. exact rt_api_utc. Qed.
Print Assumptions refine_api_utc.

Theorem refine_ts_codecs_fit :
  (forall s, length (rt_anno_encS s) = 16%nat) /\ (forall s, length (rt_utc_encS s) = 16%nat) /\
  (forall p, rf_len (rt_utc_encA p) = SIZEOF_utc_data).
Proof. exact (conj rt_anno_encS_len (conj rt_utc_encS_len rt_utc_encA_len)). Qed.
Print Assumptions refine_ts_codecs_fit.

Example refine_ts_track_example :
  rt_fresh JLS_TRACK_TYPE_ANNOTATION 10 rx_tx0 /\
  (forall s, length (rx_encS s) = 16%nat) /\
  Forall (fun a => rf_len (wm_anno_payload a) < 4294967296) rx_annos /\
  tw_st (ts_file anno ts_anno_sum an_ts ts_anno_summ 10 rx_annos) = TsOk /\
  length (tw_disk (ts_file anno ts_anno_sum an_ts ts_anno_summ 10 rx_annos)) = 33%nat.
Proof. exact rx_ts_example. Qed.
Print Assumptions refine_ts_track_example.

(* ------------------------------------------------------------------ D. definitions / user data *)
(* the payload bytes the byte-exact model builds for SOURCE_DEF and SIGNAL_DEF chunks are DefsModel's encoders' output,
   for every definition (any strings, any field values) *)
Theorem refine_source_payload : forall d, wm_source_payload d = df_enc_source_def d.
Proof. exact rd_source_payload. Qed.
Print Assumptions refine_source_payload.

Theorem refine_signal_payload : forall d, wm_signal_payload d = df_enc_signal_def d.
Proof. exact rd_signal_payload. Qed.
Print Assumptions refine_signal_payload.

(* USER_DATA: chunk_meta as DefsModel computes it; the payload is the same expression in both models (nothing for
   storage type INVALID, the bytes for BINARY, strlen bytes + NUL for STRING / JSON) *)
Theorem refine_user_data_meta : forall meta st, N.lor (N.land meta 4095) (N.shiftl st 12) = N.land meta 4095 + 4096 * st.
Proof. exact rd_ud_meta. Qed.
Print Assumptions refine_user_data_meta.

Theorem refine_cstr : forall l, wm_cstr l = df_cstr l.
Proof. exact rd_cstr. Qed.
Print Assumptions refine_cstr.

(* the byte-exact model's transcription of jls_core_signal_def_align = Spec.sp_align, refused exactly when
   DefsModel.df_align_ok fails, for every data type with a defaults table (every valid type) *)
Theorem refine_sig_align : forall d, wm_has_defaults (dt_bits (sg_dtype d)) = true ->
  wm_sig_align d = if df_align_ok d then Some (sp_align d) else None.
Proof. exact rd_sig_align. Qed.
Print Assumptions refine_sig_align.

Theorem refine_valid_has_defaults : forall dt, dt_valid dt = true -> wm_has_defaults (dt_bits dt) = true.
Proof. exact rd_valid_has_defaults. Qed.
Print Assumptions refine_valid_has_defaults.

(* every API call: the same return code as DefsModel.df_step, and the identity tables stay related *)
Theorem refine_step_rc : forall summ1 summN st w o,
  ((forall id, existsb (N.eqb id) (wm_st_srcs st) = df_is_defd (dfw_src w id)) /\
   (forall id, match option_map wm_sg_def (wm_find_sig st id) with
               | Some d => dfw_sig w id = DfDefd d
               | None => df_is_defd (dfw_sig w id) = false
               end)) ->
  snd (df_step w (df_op_of o)) = DfRc (snd (wm_step_rc summ1 summN st o)) /\
  ((forall id, existsb (N.eqb id) (wm_st_srcs (fst (wm_step_rc summ1 summN st o))) = df_is_defd (dfw_src (fst (df_step w (df_op_of o))) id)) /\
   (forall id, match option_map wm_sg_def (wm_find_sig (fst (wm_step_rc summ1 summN st o)) id) with
               | Some d => dfw_sig (fst (df_step w (df_op_of o))) id = DfDefd d
               | None => df_is_defd (dfw_sig (fst (df_step w (df_op_of o))) id) = false
               end)).
Proof. exact rd_step_rc. Qed.
Print Assumptions refine_step_rc.

(* ------------------------------------------------------------------ E. return codes of whole programs *)
(* for EVERY program: the return code of every call of the byte-exact model is DefsModel's *)
Theorem refine_run_rcs : forall summ1 summN p, map DfRc (snd (wm_run_full summ1 summN p)) = snd (df_run_prog p).
Proof. exact rd_run_rcs. Qed.
Print Assumptions refine_run_rcs.

(* hence 0 exactly where Spec.run_spec accepts the call, under C13's guard df_prog_ok (definition strings without NUL,
   signal definitions that pass jls_core_signal_def_align, STRING/JSON user data NUL-terminated) *)
Theorem refine_run_accept : forall summ1 summN p, df_prog_ok p ->
  map (fun rc => rc =? 0) (snd (wm_run_full summ1 summN p)) = snd (Spec.run_spec content0 p).
Proof. exact rd_run_accept. Qed.
Print Assumptions refine_run_accept.

(* without the guard the statement is FALSE (the guard is necessary): Spec.wstep does not model the refusal of
   jls_core_signal_def_align; the C, the byte-exact model and DefsModel return JLS_ERROR_PARAMETER_INVALID (5) for
   entries_per_summary = 2^32 - 1, Spec.run_spec accepts the call *)
Theorem refine_run_accept_unguarded_refuted :
  snd (wm_run_full (fun _ _ => (0, 0, 0, 0)) (fun _ _ => (0, 0, 0, 0)) [WSrc rd_cex_src; WSig rd_cex_sig]) = [0; 5] /\
  snd (Spec.run_spec content0 [WSrc rd_cex_src; WSig rd_cex_sig]) = [true; true] /\
  df_align_ok rd_cex_sig = false.
Proof. exact rd_run_accept_unguarded_refuted. Qed.
Print Assumptions refine_run_accept_unguarded_refuted.
