(* END TO END, layer 4 (FSR read path), part 1: byte-level facts.
   - the fields jls_core_fsr_seek / jls_core_rd_fsr_data0 / jls_core_fsr_length read from a payload (16-byte payload header,
     the 64-bit entries of an INDEX payload) decode what the writer model encoded;
   - jls_raw_chunk_seek + jls_core_rd_chunk at reader-state level (ReaderModel.rdm_seek / rdm_rd_chunk) on a complete chunk
     of the file (E2eRead), with the frame: everything of the reader state outside the raw position, core->buf and
     chunk_cur is unchanged. *)
From Coq Require Import NArith ZArith List Bool Lia Arith.
From Coq Require Import ZifyBool ZifyN ZifyNat.
From JLS Require Import Generated CrcDefs CrcProofs Spec Format FormatProofs WriteOnce WriteOnceProofs WmRaw WmCore WmTs WmFsr WriterModel
  WmProofs RefineLog RepairRaw RepairModel RawReadProofs ReaderModel ReaderProofs ReaderProofs3 ReaderProofs6 E2eLog E2eRead.
Import ListNotations.
Local Open Scope N_scope.
Ltac Zify.zify_post_hook ::= Z.div_mod_to_equations.

Local Opaque crc32c.

(* ================================================================ payload fields *)
Definition e2_i64 (z : Z) : Prop := (- Z.of_N fm_two63 <= z < Z.of_N fm_two63)%Z.

Lemma e2_ph_fields : forall ts n esb r, e2_i64 ts -> n < 4294967296 -> esb < 65536 ->
  let p := wm_payload_header ts n esb ++ r in
  fm_i64_of_u64 (fm_dec (fm_sub 0 8 p)) = ts /\ fm_dec (fm_sub OFFSETOF_payload_entry_count 4 p) = n /\
  fm_dec (fm_sub OFFSETOF_payload_entry_size_bits 2 p) = esb /\ length (wm_payload_header ts n esb) = 16%nat.
Proof.
  intros ts n esb r Hts Hn He p. subst p. unfold wm_payload_header.
  pose proof (fm_payload_header_roundtrip {| fm_ph_timestamp := ts; fm_ph_entry_count := n; fm_ph_entry_size_bits := esb; fm_ph_rsv16 := 0 |} r) as H.
  unfold fm_payload_header_wf in H. cbn [fm_ph_timestamp fm_ph_entry_count fm_ph_entry_size_bits fm_ph_rsv16] in H.
  specialize (H ltac:(repeat split; first [exact Hn | exact He | apply Hts | lia])).
  unfold fm_decode_payload_header in H. destruct (fm_has _ _); [|discriminate].
  pose proof (f_equal (fun o => match o with Some x => fm_ph_timestamp x | None => 0%Z end) H) as H1.
  pose proof (f_equal (fun o => match o with Some x => fm_ph_entry_count x | None => 0 end) H) as H2.
  pose proof (f_equal (fun o => match o with Some x => fm_ph_entry_size_bits x | None => 0 end) H) as H3.
  cbv beta iota in H1, H2, H3. cbn [fm_ph_timestamp fm_ph_entry_count fm_ph_entry_size_bits] in H1, H2, H3.
  split; [exact H1|]. split; [exact H2|]. split; [exact H3|].
  unfold fm_encode_payload_header. cbn [fm_ph_timestamp fm_ph_entry_count fm_ph_entry_size_bits fm_ph_rsv16].
  rewrite !app_length, fm_enc_i64_length. unfold fm_enc_u32, fm_enc_u16. rewrite !fm_enc_length. reflexivity.
Qed.

Lemma e2_u64s_length : forall l, length (flat_map fm_enc_u64 l) = (8 * length l)%nat.
Proof. induction l as [|x l IH]; [reflexivity|]. cbn [flat_map length]. rewrite app_length, IH. unfold fm_enc_u64. rewrite fm_enc_length. lia. Qed.

Lemma e2_u64s_nth : forall l i, (i < length l)%nat -> Forall (fun x => x < fm_two64) l ->
  fm_dec (fm_sub (8 * N.of_nat i) 8 (flat_map fm_enc_u64 l)) = nth i l 0.
Proof.
  induction l as [|x l IH]; intros i Hi Hall; [cbn in Hi; lia|]. inversion Hall as [|? ? Hx Hl]; subst.
  destruct i as [|i].
  - cbn [flat_map nth]. change (8 * N.of_nat 0) with 0. unfold fm_sub. change (N.to_nat 0) with 0%nat. change (N.to_nat 8) with 8%nat.
    cbn [skipn]. rewrite firstn_app_exact by (unfold fm_enc_u64; apply fm_enc_length).
    unfold fm_enc_u64. apply fm_dec_enc. exact Hx.
  - cbn [flat_map nth]. unfold fm_sub. replace (N.to_nat (8 * N.of_nat (S i))) with (8 + N.to_nat (8 * N.of_nat i))%nat by lia.
    rewrite skipn_add. rewrite skipn_app_exact by (unfold fm_enc_u64; apply fm_enc_length).
    apply IH; [cbn in Hi; lia|exact Hl].
Qed.

(* the i-th entry of an INDEX payload *)
Lemma e2_index_entry : forall ts n l i, (i < length l)%nat -> Forall (fun x => x < fm_two64) l ->
  fm_dec (fm_sub (SIZEOF_payload_header + 8 * N.of_nat i) 8 (wm_fsr_index_payload ts n l)) = nth i l 0.
Proof.
  intros ts n l i Hi Hall. unfold wm_fsr_index_payload.
  assert (Hl : length (wm_payload_header ts n 64) = 16%nat).
  { unfold wm_payload_header, fm_encode_payload_header. cbn [fm_ph_timestamp fm_ph_entry_count fm_ph_entry_size_bits fm_ph_rsv16].
    rewrite !app_length, fm_enc_i64_length. unfold fm_enc_u32, fm_enc_u16. rewrite !fm_enc_length. reflexivity. }
  unfold fm_sub. change SIZEOF_payload_header with 16. replace (N.to_nat (16 + 8 * N.of_nat i)) with (16 + N.to_nat (8 * N.of_nat i))%nat by lia.
  rewrite skipn_add. rewrite skipn_app_exact by exact Hl. apply e2_u64s_nth; assumption.
Qed.

Lemma e2_index_payload_len : forall ts n l, rf_len (wm_fsr_index_payload ts n l) = SIZEOF_payload_header + 8 * rf_len l.
Proof.
  intros ts n l. unfold wm_fsr_index_payload, rf_len. rewrite app_length, e2_u64s_length.
  unfold wm_payload_header, fm_encode_payload_header. cbn [fm_ph_timestamp fm_ph_entry_count fm_ph_entry_size_bits fm_ph_rsv16].
  rewrite !app_length, fm_enc_i64_length. unfold fm_enc_u32, fm_enc_u16. rewrite !fm_enc_length. change SIZEOF_payload_header with 16. lia.
Qed.

(* ================================================================ reader state: what seek / rd_chunk leave alone *)
Definition e2_hi_same (st st' : rdm_st) : Prop :=
  rdm_len st' = rdm_len st /\ rdm_ick st' = rdm_ick st /\ rdm_ibuf st' = rdm_ibuf st /\ rdm_ilen st' = rdm_ilen st /\
  rdm_sck st' = rdm_sck st /\ rdm_sbuf st' = rdm_sbuf st /\ rdm_slen st' = rdm_slen st /\ rdm_stale st' = rdm_stale st /\
  rp_sigs (rdm_c st') = rp_sigs (rdm_c st) /\ rdm_flt st' = rdm_flt st.

Lemma e2_hi_same_refl : forall st, e2_hi_same st st.
Proof. intro st. repeat split. Qed.
Lemma e2_hi_same_trans : forall a b c, e2_hi_same a b -> e2_hi_same b c -> e2_hi_same a c.
Proof.
  intros a b c (A1 & A2 & A3 & A4 & A5 & A6 & A7 & A8 & A9 & A10) (B1 & B2 & B3 & B4 & B5 & B6 & B7 & B8 & B9 & B10).
  repeat split; congruence.
Qed.

Lemma e2_rdm_seek : forall st f o, e2_rdr (rdm_io st) f -> o <> 0 -> o < rp_two63 ->
  exists st', rdm_seek st o = (st', 0) /\ e2_pos (rdm_io st') f o /\ e2_hi_same st st' /\
              rp_buf (rdm_io st') = rp_buf (rdm_io st) /\ rp_buf_len (rdm_io st') = rp_buf_len (rdm_io st) /\
              rp_cur (rdm_io st') = rp_cur (rdm_io st) /\ rdm_tr st' = rdm_tr st.
Proof.
  intros st f o Hr Ho Hlt. unfold rdm_seek.
  destruct (e2_seek (rdm_io st) f o Hr Ho Hlt) as (s' & E & Hp & Hb & Hbl & Hc & Hfl). rewrite E.
  eexists. split; [reflexivity|].
  assert (Eio : rdm_io (rdm_set_io st s') = s') by (destruct st as [c]; destruct c; reflexivity).
  rewrite Eio. split; [exact Hp|]. split.
  - unfold e2_hi_same, rdm_flt. rewrite Eio. destruct st as [c]; destruct c; cbn. repeat split. exact Hfl.
  - split; [exact Hb|]. split; [exact Hbl|]. split; [exact Hc|]. destruct st as [c]; destruct c; reflexivity.
Qed.

Lemma e2_rdm_rd_chunk : forall st f o h p, e2_pos (rdm_io st) f o -> e2_chunk_at f o h p -> fm_tag h <> JLS_TAG_INVALID ->
  fm_disk_len (rf_len p) <= JLS_BUF_DEFAULT_SIZE ->
  exists st', rdm_rd_chunk st = (st', 0) /\ e2_pos (rdm_io st') f (o + fm_chunk_size (rf_len p)) /\ e2_hi_same st st' /\
              rp_cur (rdm_io st') = {| wm_ck_offset := o; wm_ck_hdr := h |} /\ rp_buf_len (rdm_io st') = rf_len p /\
              rp_payload (rdm_io st') = p /\ rdm_pay_ok (rdm_io st').
Proof.
  intros st f o h p Hp Hc Ht Hb. unfold rdm_rd_chunk.
  destruct (e2_rd_chunk (rdm_io st) f o h p Hp Hc Ht Hb) as (s' & E & Hp' & Hcur & Hbl & Hpay & Hbuf & Hfl). rewrite E. cbn [N.eqb].
  eexists. split; [reflexivity|].
  assert (Eio : forall l, rdm_io (rdm_set_tr (rdm_set_io st s') l) = s') by (intro l; destruct st as [c]; destruct c; reflexivity).
  rewrite Eio. split; [exact Hp'|]. split.
  - unfold e2_hi_same, rdm_flt. rewrite Eio. destruct st as [c]; destruct c; cbn. repeat split. exact Hfl.
  - split; [exact Hcur|]. split; [exact Hbl|]. split; [exact Hpay|]. unfold rdm_pay_ok. rewrite Hpay, Hbl. unfold rf_len. lia.
Qed.
