(* WHAT THE REPAIR-ON-OPEN WRITES, part 9: the repair branch of jls_rd_open put together, and the classification
   theorem for rp_open.  Every top-level name starts with ro_. *)
From Coq Require Import NArith ZArith List Bool Lia Arith.
From Coq Require Import ZifyBool ZifyN ZifyNat.
From JLS Require Import Generated CrcDefs Spec Format FormatProofs WriteOnce WriteOnceProofs WmRaw WmCore WmFsr WriterModel WmProofs
  WmWriteOnce WmWriteOnce2 RepairRaw RawReadProofs RepairModel RepairProofs RepairProofs2 RepairProofs3
  RepairWo RepairWo2 RepairWo3 RepairWo4 RepairWo5 RepairWo6 RepairWo7 RepairWo8.
Import ListNotations.
Local Open Scope N_scope.
Ltac Zify.zify_post_hook ::= Z.div_mod_to_equations.



Lemma ro_raw_open_flt : forall s a, rp_flt (fst (rp_raw_open s a)) = 0 -> rp_flt s = 0.
Proof.
  intros s a. unfold rp_raw_open, rp_read_verify, rp_bk_fread. cbv zeta.
  match goal with |- context [rp_fh_ok ?b] => destruct (rp_fh_ok b) end;
  match goal with |- context [rp_len ?b <? ?k] => destruct (rp_len b <? k) end;
  match goal with |- context [if ?c then (_, JLS_ERROR_UNSUPPORTED_FILE) else _] => destruct c end;
  cbn; try (intros X; exact X);
  destruct (rp_flt s =? 0) eqn:E; try (intros X; exact X); try (intros X; discriminate X); intros _; now apply N.eqb_eq in E.
Qed.

Lemma ro_scan_sid_rd : forall c, ry_rd (rp_io_ c) (rp_io_ (fst (rp_scan_fsr_sample_id c))).
Proof.
  intros c. unfold rp_scan_fsr_sample_id.
  apply (ro_scan_sid_loop (fun _ => True)); [auto | auto |]. apply Forall_forall. auto.
Qed.

Section ROT.
Variable f : list N.
Variable pos : N.
Variable summ1 : N -> list N -> wm_sentry.
Variable summN : bool -> list wm_sentry -> wm_sentry.

Lemma ro_acc_set_c_rd : forall w st c, ry_acc f pos w st -> ry_rd (rp_w_io w) (rp_io_ c) -> ry_acc f pos (rp_w_set_c w c) st.
Proof.
  intros w st c (A1 & A2 & A3 & A4 & A5 & A6 & A7 & A8 & A9) ((F1 & F2 & F3) & I & _).
  unfold ry_acc. change (rp_log (rp_w_set_c w c)) with (rp_log w). change (rp_w_io (rp_w_set_c w c)) with (rp_io_ c).
  rewrite F1, F2, F3. repeat (split; [assumption |]). apply I. exact A9.
Qed.
Lemma ro_acc_pre : forall w st, ry_acc f pos w st -> ry_pre f pos w st.
Proof. intros w st (A1 & A2 & A3 & A4 & A5 & _). repeat split; assumption. Qed.

(* jls_rd_open from the repair of the track pointers on *)
Definition ro_tail (w6a : rp_w) : rp_result :=
  let w7 := rp_repair_all_pointers w6a in
  let '(c8, rc8) := rp_scan_fsr_sample_id (rp_c w7) in
  let w8 := rp_w_set_c w7 c8 in
  if negb (rc8 =? 0) then rp_exit summ1 summN w8 rc8
  else
    let '(w9, rc9) := rp_repair_fsr_all summ1 summN rp_signal_ids w8 in
    if negb (rc9 =? 0) then rp_exit summ1 summN w9 rc9
    else rp_repair_end w9.

Lemma ro_raw_close_flt : forall w, rp_flt (rp_w_io (rp_raw_close w)) = 0 -> rp_flt (rp_w_io w) = 0.
Proof. intros w H. unfold rp_raw_close, rp_with_raw in H. exact (proj1 (ry_commit_flt _ _ H)). Qed.
Lemma ro_end_state_eq : forall w9, rp_end_state w9 =
  rp_raw_close (rp_commit (if rp_w_inplace (rp_end_seek w9) then rp_w_set_uninit (rp_end_seek w9) else rp_end_seek w9)
     (wm_core_wr_end (rp_wm_base (if rp_w_inplace (rp_end_seek w9) then rp_w_set_uninit (rp_end_seek w9) else rp_end_seek w9) 0))).
Proof. reflexivity. Qed.
Lemma ro_end_state_flt : forall w9, rp_flt (rp_w_io (rp_end_state w9)) = 0 -> rp_flt (rp_w_io w9) = 0.
Proof.
  intros w9 H. rewrite ro_end_state_eq in H. apply ro_raw_close_flt in H. apply ry_commit_flt in H. destruct H as (H & _).
  rewrite ro_uninit_io in H. exact H.
Qed.
Lemma ro_finish_fault : forall w d e, rp_fault (rp_finish w d e) = rp_flt (rp_io_ (fst (rp_scan_fsr_sample_id (rp_c w)))).
Proof. intros w d e. unfold rp_finish. destruct (rp_scan_fsr_sample_id (rp_c w)). reflexivity. Qed.
Lemma ro_finish_flt : forall w d e, rp_fault (rp_finish w d e) = 0 -> rp_flt (rp_w_io w) = 0.
Proof. intros w d e H. rewrite ro_finish_fault in H. exact (proj2 (proj2 (ro_scan_sid_rd (rp_c w))) H). Qed.
Lemma ro_repair_end_cases : forall w9, exists s11 e,
  (rp_flt s11 = 0 -> rp_flt (rp_w_io (rp_end_state w9)) = 0) /\
  (rp_repair_end w9 = rp_finish (rp_w_set_io (rp_end_state w9) s11) true e \/
   exists rc, rp_repair_end w9 = rp_res_end rc (rp_w_set_io (rp_end_state w9) s11) true e).
Proof.
  intros w9. unfold rp_repair_end.
  pose proof (ro_raw_open_flt (rp_w_io (rp_end_state w9)) false) as O.
  destruct (rp_raw_open (rp_w_io (rp_end_state w9)) false) as [s11 rc11]. cbn [fst] in O.
  exists s11. eexists. split; [exact O |].
  destruct (negb (rc11 =? 0)); [right; exists rc11; reflexivity | left; reflexivity].
Qed.
Lemma ro_repair_end_flt : forall w9, rp_fault (rp_repair_end w9) = 0 -> rp_flt (rp_w_io w9) = 0.
Proof.
  intros w9 H. apply ro_end_state_flt. destruct (ro_repair_end_cases w9) as (s11 & e & O & [D | (rc & D)]); rewrite D in H; apply O.
  - exact (ro_finish_flt _ _ _ H).
  - exact H.
Qed.

(* the three ways the tail ends *)
Lemma ro_tail_cases : forall w6a, exists w7 c8 rc8 w9 rc9,
  w7 = rp_repair_all_pointers w6a /\ rp_scan_fsr_sample_id (rp_c w7) = (c8, rc8) /\
  ((rc8 <> 0 /\ ro_tail w6a = rp_exit summ1 summN (rp_w_set_c w7 c8) rc8) \/
   (rp_repair_fsr_all summ1 summN rp_signal_ids (rp_w_set_c w7 c8) = (w9, rc9) /\
    ((rc9 <> 0 /\ ro_tail w6a = rp_exit summ1 summN w9 rc9) \/ (rc9 = 0 /\ ro_tail w6a = rp_repair_end w9)))).
Proof.
  intros w6a. unfold ro_tail. cbv zeta. exists (rp_repair_all_pointers w6a).
  destruct (rp_scan_fsr_sample_id (rp_c (rp_repair_all_pointers w6a))) as [c8 rc8].
  destruct (rp_repair_fsr_all summ1 summN rp_signal_ids (rp_w_set_c (rp_repair_all_pointers w6a) c8)) as [w9 rc9] eqn:E9.
  exists c8, rc8, w9, rc9. split; [reflexivity |]. split; [reflexivity |].
  destruct (rc8 =? 0) eqn:E8; cbn [negb].
  - right. rewrite E9. split; [reflexivity |]. destruct (rc9 =? 0) eqn:E; cbn [negb].
    + right. split; [now apply N.eqb_eq in E | reflexivity].
    + left. split; [now apply N.eqb_neq in E | reflexivity].
  - left. split; [now apply N.eqb_neq in E8 | reflexivity].
Qed.

Lemma ro_tail_flt : forall w6a, rp_fault (ro_tail w6a) = 0 -> rp_flt (rp_w_io w6a) = 0.
Proof.
  intros w6a H. destruct (ro_tail_cases w6a) as (w7 & c8 & rc8 & w9 & rc9 & E7 & E8 & D).
  apply (proj1 (ry_repair_all_pointers f pos w6a)). rewrite <- E7.
  pose proof (ro_scan_sid_rd (rp_c w7)) as R8. rewrite E8 in R8. cbn [fst] in R8. apply (proj2 (proj2 R8)).
  assert (X : rp_flt (rp_w_io (rp_w_set_c w7 c8)) = 0); [| exact X].
  destruct D as [(_ & D) | (E9 & D)].
  { rewrite D in H. exact (ro_exit_flt summ1 summN _ _ H). }
  pose proof (rz_repair_fsr_all f pos summ1 summN rp_signal_ids (rp_w_set_c w7 c8)) as R9. cbv zeta in R9. rewrite E9 in R9. cbn [fst] in R9.
  apply (proj1 R9).
  destruct D as [(_ & D) | (_ & D)]; rewrite D in H; [exact (ro_exit_flt summ1 summN _ _ H) | exact (ro_repair_end_flt _ H)].
Qed.

Lemma ro_tail_classified : forall w6a st,
  (rp_flt (rp_w_io w6a) = 0 -> ry_acc f pos w6a st /\ ry_sigs f pos st (rp_c w6a)) ->
  rp_fault (ro_tail w6a) = 0 -> rp_rc (ro_tail w6a) <> JLS_ERROR_PARAMETER_INVALID -> rp_rc (ro_tail w6a) <> JLS_ERROR_NOT_SUPPORTED ->
  rw_check false f pos (rp_events (ro_tail w6a)) = true.
Proof.
  intros w6a st H6 Hflt Hr1 Hr2.
  destruct (H6 (ro_tail_flt _ Hflt)) as (A6 & S6). clear H6.
  destruct (ro_tail_cases w6a) as (w7 & c8 & rc8 & w9 & rc9 & E7 & E8 & D).
  pose proof (ry_repair_all_pointers f pos w6a) as (F7 & S7). rewrite <- E7 in F7, S7.
  specialize (S7 st A6 S6).
  pose proof (ro_scan_sid_rd (rp_c w7)) as R8. rewrite E8 in R8. cbn [fst] in R8.
  assert (G8 : forall st7, ry_sigs f pos st7 (rp_c w7) -> ry_sigs f pos st7 c8).
  { intros st7 G. pose proof (ro_scan_sid_loop (ry_sig f pos st7)) as L.
    assert (X : Forall (ry_sig f pos st7) (rp_sigs (fst (rp_scan_fsr_sample_id (rp_c w7))))).
    { unfold rp_scan_fsr_sample_id. apply L; [| apply ry_sig_default | exact G].
      intros g z (X1 & X2 & X3). split; [exact X1 |]. split; [exact X2 | exact X3]. }
    rewrite E8 in X. exact X. }
  set (w8 := rp_w_set_c w7 c8) in *.
  assert (FWD8 : rp_flt (rp_w_io w8) = 0 -> exists st8, ry_acc f pos w8 st8 /\ ry_sigs f pos st8 (rp_c w8)).
  { intros X. assert (X7 : rp_flt (rp_w_io w7) = 0) by (apply (proj2 (proj2 R8)); exact X).
    destruct (S7 X7) as (st7 & A7 & G7 & _). exists st7. split; [apply ro_acc_set_c_rd; assumption | apply G8; exact G7]. }
  destruct D as [(_ & D) | (E9 & D)].
  { rewrite D in *. destruct (FWD8 (ro_exit_flt summ1 summN _ _ Hflt)) as (st8 & A8 & G8').
    apply (ro_exit f summ1 summN pos w8 rc8 st8 (ro_acc_pre _ _ A8)); [right; apply A8 |].
    apply (ro_fsr_none_of (ry_sig f pos st8)); [intros g (_ & X & _); exact X | exact G8']. }
  pose proof (rz_repair_fsr_all f pos summ1 summN rp_signal_ids w8) as R9. cbv zeta in R9. rewrite E9 in R9. cbn [fst snd] in R9.
  destruct R9 as (F9 & S9).
  assert (FWD9 : rp_flt (rp_w_io w9) = 0 ->
            (rc9 = JLS_ERROR_PARAMETER_INVALID \/ rc9 = JLS_ERROR_NOT_SUPPORTED) \/
            exists st9, ry_acc f pos w9 st9 /\ rz_fsigs f pos st9 (rp_c w9)).
  { intros X. destruct (FWD8 (F9 X)) as (st8 & A8 & G8').
    destruct (S9 st8 A8 (rz_fsigs_of_sigs f pos st8 _ G8') X) as [Y | (st9 & A9 & G9 & _)]; [left; exact Y | right].
    exists st9. split; assumption. }
  destruct D as [(N9 & D) | (Z9 & D)]; rewrite D in *.
  - destruct (FWD9 (ro_exit_flt summ1 summN _ _ Hflt)) as [[Y | Y] | (st9 & A9 & G9)].
    + exfalso. apply Hr1. exact Y.
    + exfalso. apply Hr2. exact Y.
    + apply (ro_exit f summ1 summN pos w9 rc9 st9 (ro_acc_pre _ _ A9)); [right; apply A9 |].
      apply (ro_fsr_none_of (rz_fsig f pos st9)); [intros g (_ & X); exact X | exact G9].
  - destruct (FWD9 (ro_repair_end_flt _ Hflt)) as [[Y | Y] | (st9 & A9 & _)]; [rewrite Z9 in Y; discriminate Y | rewrite Z9 in Y; discriminate Y |].
    apply (ro_repair_end f pos w9 st9 A9).
Qed.

End ROT.
