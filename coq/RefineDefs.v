(* Refinement glue, definitions / user data / return codes: WriterModel (byte-exact writer model, API layer)
   against DefsModel (definition codecs + tables) and, through DefsProofs.refines_spec, against Spec.wstep.
     rd_source_payload / rd_signal_payload / rd_ud_*   the payload bytes WriterModel builds = DefsModel's encoders
     rd_sig_align          WriterModel's transcription of jls_core_signal_def_align = Spec.sp_align guarded by
                           DefsModel.df_align_ok (for data types with a defaults table: every valid type)
     rd_step_rc            every API call: the return code of wm_step_rc = the one of DefsModel.df_step, and the
                           identity tables stay related
     rd_run_rcs            whole programs: return codes of wm_run_full = those of df_run_prog
     rd_run_accept         ... hence 0 exactly where Spec.run_spec accepts (guard df_prog_ok)
   Definitions + proofs (glue file; nothing here changes a model). *)
From Coq Require Import NArith ZArith List Bool Lia Arith.
From Coq Require Import ZifyBool ZifyN ZifyNat.
From JLS Require Import Generated CrcDefs Spec Format FormatProofs WmRaw WmCore WmTs WmFsr WriterModel DefsModel DefsProofs.
Import ListNotations.
Local Open Scope N_scope.

(* ------------------------------------------------------------------ payload bytes *)
Lemma rd_cstr : forall l, wm_cstr l = df_cstr l.
Proof. induction l as [|b r IH]; [reflexivity|]. cbn [wm_cstr df_cstr]. rewrite IH. reflexivity. Qed.

Lemma rd_enc_str : forall s, fm_encode_str (wm_strv s) = df_enc_str s.
Proof. intros s. unfold fm_encode_str, wm_strv, df_enc_str, fm_str_term. rewrite rd_cstr. reflexivity. Qed.

Lemma rd_u8 : forall x, fm_enc_u8 x = df_u8 x.
Proof. reflexivity. Qed.
Lemma rd_u16 : forall x, fm_enc_u16 x = df_u16 x.
Proof. reflexivity. Qed.
Lemma rd_u32 : forall x, fm_enc_u32 x = df_u32 x.
Proof.
  intros x. unfold fm_enc_u32, df_u32. cbn [fm_enc].
  rewrite !N.div_div by discriminate. reflexivity.
Qed.

(* D: the SOURCE_DEF payload *)
Lemma rd_source_payload : forall d, wm_source_payload d = df_enc_source_def d.
Proof.
  intros d. unfold wm_source_payload, df_enc_source_def, fm_encode_source_payload.
  rewrite !rd_enc_str. reflexivity.
Qed.

(* D: the SIGNAL_DEF payload *)
Lemma rd_signal_payload : forall d, wm_signal_payload d = df_enc_signal_def d.
Proof.
  intros d. unfold wm_signal_payload, df_enc_signal_def.
  rewrite !rd_enc_str, !rd_u32. reflexivity.
Qed.

(* D: the USER_DATA chunk_meta and payload *)
Lemma rd_lor_add : forall a b, a < 4096 -> N.lor a (N.shiftl b 12) = a + 4096 * b.
Proof.
  intros a b Ha.
  assert (Hl : N.land a (N.shiftl b 12) = 0).
  { apply N.bits_inj. intro k. rewrite N.land_spec, N.bits_0.
    destruct (N.ltb_spec k 12) as [Hk|Hk].
    - rewrite N.shiftl_spec_low by exact Hk. apply andb_false_r.
    - assert (Hb : N.testbit a k = false).
      { destruct (N.eq_dec a 0) as [->|Hne]; [apply N.bits_0|].
        apply N.bits_above_log2. apply N.lt_le_trans with 12; [|exact Hk].
        apply N.log2_lt_pow2; [lia|exact Ha]. }
      rewrite Hb. reflexivity. }
  rewrite <- N.lxor_lor by exact Hl. rewrite <- N.add_nocarry_lxor by exact Hl.
  rewrite N.shiftl_mul_pow2. change (2 ^ 12) with 4096. lia.
Qed.
Lemma rd_ud_meta : forall meta st, N.lor (N.land meta 4095) (N.shiftl st 12) = N.land meta 4095 + 4096 * st.
Proof.
  intros. apply rd_lor_add. change 4095 with (N.ones 12). rewrite N.land_ones. apply N.mod_lt. discriminate.
Qed.

(* ------------------------------------------------------------------ jls_core_signal_def_align *)
Lemma rd_default_of : forall w f, wm_default_of w f = sp_default_of w f.
Proof. reflexivity. Qed.
Lemma rd_fit_epd : forall fuel e k, wm_fit_epd fuel e k = sp_fit_epd fuel e k.
Proof. induction fuel as [|f IH]; intros; [reflexivity|]. cbn [wm_fit_epd sp_fit_epd]. rewrite IH. reflexivity. Qed.

(* starting the count-down above eps only walks down to eps *)
Lemma rd_fit_skip : forall k eps, 0 < eps ->
  sp_fit_epd (N.to_nat (eps + N.of_nat k)) eps (eps + N.of_nat k) = sp_fit_epd (N.to_nat eps) eps eps.
Proof.
  induction k as [|k IH]; intros eps He.
  - rewrite N.add_0_r. reflexivity.
  - replace (N.to_nat (eps + N.of_nat (S k))) with (S (N.to_nat (eps + N.of_nat k))) by lia.
    cbn [sp_fit_epd].
    destruct (N.eqb_spec (eps + N.of_nat (S k)) 0) as [E|_]; [lia|].
    rewrite N.mod_small by lia.
    destruct (N.eqb_spec eps 0) as [E|_]; [lia|].
    replace (eps + N.of_nat (S k) - 1) with (eps + N.of_nat k) by lia. apply IH. exact He.
Qed.

Lemma rd_fit_min : forall q eps, 0 < eps ->
  sp_fit_epd (N.to_nat (N.min q eps)) eps (N.min q eps) = sp_fit_epd (N.to_nat q) eps q.
Proof.
  intros q eps He. destruct (N.le_gt_cases q eps) as [Hle|Hgt].
  - rewrite N.min_l by exact Hle. reflexivity.
  - rewrite N.min_r by lia. pose proof (rd_fit_skip (N.to_nat (q - eps)) eps He) as X.
    replace (eps + N.of_nat (N.to_nat (q - eps))) with q in X by lia. symmetry. exact X.
Qed.

Lemma rd_round_up_pos : forall x m, 0 < x -> 0 < m -> 0 < sp_round_up x m.
Proof. intros x m Hx Hm. unfold sp_round_up. assert (1 <= (x + m - 1) / m) by (apply N.div_le_lower_bound; lia). nia. Qed.

Lemma rd_sig_align : forall d, wm_has_defaults (dt_bits (sg_dtype d)) = true ->
  wm_sig_align d = if df_align_ok d then Some (sp_align d) else None.
Proof.
  intros d Hd. unfold wm_sig_align, df_align_ok, sp_align.
  set (w := dt_bits (sg_dtype d)) in *.
  unfold wm_dflt, sp_dflt. rewrite Hd. cbn [andb]. change wm_default_of with sp_default_of.
  set (spd0 := if sg_spd d =? 0 then sp_default_of w 0 else sg_spd d).
  set (sdf0 := if sg_sdf d =? 0 then sp_default_of w 1 else sg_sdf d).
  set (eps0 := if sg_eps d =? 0 then sp_default_of w 2 else sg_eps d).
  set (sumdf0 := if sg_sumdf d =? 0 then sp_default_of w 3 else sg_sumdf d).
  set (mult := if w =? 24 then 32 else SAMPLE_SIZE_BYTES_MAX * 8 / w).
  unfold wm_round_up, wm_u32_max. cbn [sg_sdf sg_eps sg_spd].
  fold (sp_round_up (N.max sdf0 SAMPLE_DECIMATE_FACTOR_MIN) mult).
  set (sdf := sp_round_up (N.max sdf0 SAMPLE_DECIMATE_FACTOR_MIN) mult).
  fold (sp_round_up (N.max eps0 ENTRIES_PER_SUMMARY_MIN) (N.max sumdf0 SUMMARY_DECIMATE_FACTOR_MIN)).
  set (eps := sp_round_up (N.max eps0 ENTRIES_PER_SUMMARY_MIN) (N.max sumdf0 SUMMARY_DECIMATE_FACTOR_MIN)).
  fold (sp_round_up (N.max spd0 SAMPLES_PER_DATA_MIN) sdf).
  set (spd2 := sp_round_up (N.max spd0 SAMPLES_PER_DATA_MIN) sdf).
  destruct (N.ltb_spec 4294967295 sdf) as [H1|H1].
  { destruct (N.leb_spec sdf 4294967295); [lia|]. cbn [andb]. reflexivity. }
  destruct (N.leb_spec sdf 4294967295) as [_|]; [|lia]. cbn [andb]. cbv beta iota.
  destruct (N.ltb_spec 4294967295 eps) as [H2|H2].
  { destruct (N.leb_spec eps 4294967295); [lia|]. cbn [andb]. reflexivity. }
  destruct (N.leb_spec eps 4294967295) as [_|]; [|lia]. cbn [andb]. cbv beta iota.
  fold (sp_round_up (N.max spd0 SAMPLES_PER_DATA_MIN) sdf). fold spd2.
  destruct (N.ltb_spec 4294967295 spd2) as [H3|H3].
  { destruct (N.leb_spec spd2 4294967295); [lia|]. cbn [andb]. reflexivity. }
  destruct (N.leb_spec spd2 4294967295) as [_|]; [|lia]. cbn [andb]. cbv beta iota.
  assert (Heps : 0 < eps).
  { subst eps. apply rd_round_up_pos; unfold ENTRIES_PER_SUMMARY_MIN, SUMMARY_DECIMATE_FACTOR_MIN; lia. }
  rewrite rd_fit_epd, rd_fit_min by exact Heps.
  set (epd := sp_fit_epd (N.to_nat (spd2 / sdf)) eps (spd2 / sdf)).
  change (4294967295 / 2) with 2147483647.
  destruct (N.ltb_spec 2147483647 (sdf * epd * w / 8)) as [H4|H4].
  { destruct (N.leb_spec (sdf * epd * w / 8) 2147483647); [lia|]. cbn [andb]. reflexivity. }
  destruct (N.leb_spec (sdf * epd * w / 8) 2147483647) as [_|]; [|lia]. cbn [andb].
  replace (eps * JLS_SUMMARY_FSR_COUNT * 8) with (eps * (JLS_SUMMARY_FSR_COUNT * 8)) by lia.
  destruct (N.ltb_spec 2147483647 (eps * (JLS_SUMMARY_FSR_COUNT * 8))) as [H5|H5].
  { destruct (N.leb_spec (eps * (JLS_SUMMARY_FSR_COUNT * 8)) 2147483647); [lia|]. cbn [andb]. reflexivity. }
  destruct (N.leb_spec (eps * (JLS_SUMMARY_FSR_COUNT * 8)) 2147483647) as [_|]; [|lia].
  reflexivity.
Qed.

(* ------------------------------------------------------------------ data types *)
Lemma rd_dt_valid : forall dt, wm_dt_valid dt = dt_valid dt.
Proof. reflexivity. Qed.

Lemma rd_bits_low : forall dt, dt_bits dt = N.land (N.shiftr (N.land dt 65535) 8) 255.
Proof.
  intros dt. unfold dt_bits. apply N.bits_inj. intro k.
  rewrite !N.land_spec, !N.shiftr_spec', N.land_spec.
  change 255 with (N.ones 8). change 65535 with (N.ones 16).
  destruct (N.ltb_spec k 8) as [Hk|Hk].
  - rewrite (N.ones_spec_low 16) by lia. rewrite andb_true_r. reflexivity.
  - rewrite (N.ones_spec_high 8) by lia. rewrite !andb_false_r. reflexivity.
Qed.

Lemma rd_valid_has_defaults : forall dt, dt_valid dt = true -> wm_has_defaults (dt_bits dt) = true.
Proof.
  intros dt H. unfold dt_valid in H. apply andb_true_iff in H as [H _].
  rewrite rd_bits_low. apply existsb_exists in H. destruct H as (x & Hin & Hx). apply N.eqb_eq in Hx. rewrite Hx.
  cbn [In] in Hin. repeat (destruct Hin as [<-|Hin]; [reflexivity|]). contradiction.
Qed.

(* ------------------------------------------------------------------ the identity tables *)
Definition rd_rel (st : wm_state) (w : df_wr) : Prop :=
  (forall id, existsb (N.eqb id) (wm_st_srcs st) = df_is_defd (dfw_src w id)) /\
  (forall id, match option_map wm_sg_def (wm_find_sig st id) with
              | Some d => dfw_sig w id = DfDefd d
              | None => df_is_defd (dfw_sig w id) = false
              end).

Lemma rd_find_id : forall st id s, wm_find_sig st id = Some s -> sg_id (wm_sg_def s) = id.
Proof. intros st id s H. unfold wm_find_sig in H. apply find_some in H. destruct H as (_ & H). apply N.eqb_eq in H. exact H. Qed.

Lemma rd_find_app : forall (A : Type) (f : A -> bool) l1 l2,
  find f (l1 ++ l2) = match find f l1 with Some x => Some x | None => find f l2 end.
Proof. intros A f l1 l2. induction l1 as [|x l IH]; [reflexivity|]. cbn [app find]. destruct (f x); [reflexivity|exact IH]. Qed.

Lemma rd_find_put_other : forall (l : list wm_signal) s' id, wm_sig_id s' <> id ->
  find (fun x => wm_sig_id x =? id) (map (fun x => if wm_sig_id x =? wm_sig_id s' then s' else x) l) = find (fun x => wm_sig_id x =? id) l.
Proof.
  intros l s' id Hne. induction l as [|y l IH]; [reflexivity|]. cbn [map find].
  destruct (N.eqb_spec (wm_sig_id y) (wm_sig_id s')) as [Ey|Ey].
  - destruct (N.eqb_spec (wm_sig_id s') id) as [|_]; [contradiction|].
    destruct (N.eqb_spec (wm_sig_id y) id) as [E|_]; [congruence|]. exact IH.
  - destruct (wm_sig_id y =? id); [reflexivity|exact IH].
Qed.

Lemma rd_find_put : forall st b s s', wm_find_sig st (wm_sig_id s') = Some s -> wm_sg_def s' = wm_sg_def s ->
  forall id, option_map wm_sg_def (wm_find_sig (wm_put_sig st b s') id) = option_map wm_sg_def (wm_find_sig st id).
Proof.
  intros st b s s' Hf Hd id. unfold wm_find_sig, wm_put_sig in *. cbn [wm_st_sigs].
  destruct (N.eq_dec (wm_sig_id s') id) as [Ei|Ei]; [|rewrite rd_find_put_other by exact Ei; reflexivity].
  subst id.
  induction (wm_st_sigs st) as [|x l IH]; [reflexivity|].
  cbn [map find] in *.
  destruct (N.eqb_spec (wm_sig_id x) (wm_sig_id s')) as [Ex|Ex].
  - rewrite N.eqb_refl. injection Hf as ->. cbn [option_map]. f_equal. exact Hd.
  - destruct (N.eqb_spec (wm_sig_id x) (wm_sig_id s')) as [|_]; [contradiction|]. apply IH. exact Hf.
Qed.

Lemma rd_rel_put : forall st w b s s', rd_rel st w -> wm_find_sig st (wm_sig_id s') = Some s -> wm_sg_def s' = wm_sg_def s ->
  rd_rel (wm_put_sig st b s') w.
Proof.
  intros st w b s s' (A & B) Hf Hd. split; [exact A|]. intro id. rewrite (rd_find_put st b s s' Hf Hd id). apply B.
Qed.
Lemma rd_rel_set_base : forall st w b, rd_rel st w -> rd_rel (wm_st_set_base st b) w.
Proof. intros st w b H. exact H. Qed.

Lemma rd_validate : forall st w sig, rd_rel st w ->
  fst (wm_signal_validate st sig) = df_sig_validate w sig /\
  match snd (wm_signal_validate st sig) with
  | Some s => fst (wm_signal_validate st sig) = 0 /\ wm_find_sig st sig = Some s /\ dfw_sig w sig = DfDefd (wm_sg_def s)
  | None => fst (wm_signal_validate st sig) <> 0
  end.
Proof.
  intros st w sig (A & B). unfold wm_signal_validate, df_sig_validate.
  destruct (JLS_SIGNAL_COUNT <=? sig); [split; [reflexivity|discriminate]|].
  specialize (B sig). destruct (wm_find_sig st sig) as [s|] eqn:E; cbn [option_map fst snd] in *.
  - rewrite B. split; [reflexivity|]. split; [reflexivity|]. split; reflexivity.
  - destruct (dfw_sig w sig); try discriminate B; split; try reflexivity; discriminate.
Qed.

Lemma rd_validate_typed : forall st w sig ty, rd_rel st w ->
  fst (wm_signal_validate_typed st sig ty) = df_sig_validate_typed w sig ty /\
  match snd (wm_signal_validate_typed st sig ty) with
  | Some s => fst (wm_signal_validate_typed st sig ty) = 0 /\ wm_find_sig st sig = Some s
  | None => fst (wm_signal_validate_typed st sig ty) <> 0
  end.
Proof.
  intros st w sig ty Hrel. destruct (rd_validate st w sig Hrel) as (E1 & E2).
  unfold wm_signal_validate_typed, df_sig_validate_typed. rewrite <- E1.
  destruct (wm_signal_validate st sig) as [rc o]. cbn [fst snd] in *.
  destruct o as [s|].
  - destruct E2 as (-> & Hf & Hd). rewrite Hd. cbn [N.eqb negb].
    destruct (sg_type (wm_sg_def s) =? ty); cbn [fst snd]; [split; [reflexivity|split; [reflexivity|exact Hf]]|split; [reflexivity|discriminate]].
  - destruct rc as [|p]; [congruence|]. cbn [fst snd N.eqb negb]. split; [reflexivity|discriminate].
Qed.

Section RD.
Variable summ1 : N -> list N -> wm_sentry.
Variable summN : bool -> list wm_sentry -> wm_sentry.

(* D/E: one API call - same return code, related tables *)
Lemma rd_step_rc : forall st w o, rd_rel st w ->
  snd (df_step w (df_op_of o)) = DfRc (snd (wm_step_rc summ1 summN st o)) /\
  rd_rel (fst (wm_step_rc summ1 summN st o)) (fst (df_step w (df_op_of o))).
Proof.
  intros st w o Hrel. pose proof Hrel as (A & B).
  destruct o as [d|d|sig sid samples|sig en|sig a|sig sid utc|u|]; cbn [wm_step_rc df_op_of df_step].
  - (* source *)
    unfold wm_api_source_def, df_wr_source.
    destruct (JLS_SOURCE_COUNT <=? so_id d); [split; [reflexivity|exact Hrel]|].
    rewrite (A (so_id d)).
    destruct (df_is_defd (dfw_src w (so_id d))) eqn:Edef; [split; [reflexivity|exact Hrel]|].
    change (wm_str_fits (so_name d) && wm_str_fits (so_vendor d) && wm_str_fits (so_model d) && wm_str_fits (so_version d) && wm_str_fits (so_serial d))
      with (df_save_ok (so_name d) && df_save_ok (so_vendor d) && df_save_ok (so_model d) && df_save_ok (so_version d) && df_save_ok (so_serial d)).
    destruct (df_save_ok (so_name d) && df_save_ok (so_vendor d) && df_save_ok (so_model d) && df_save_ok (so_version d) && df_save_ok (so_serial d)); cbn [negb].
    + destruct (wm_raw_wr _ _ _) as [r1 h1]. destruct (wm_update_item_head _ _ _) as [r2 sh]. cbn [fst snd].
      split; [reflexivity|]. split; cbn [wm_st_srcs wm_st_sigs df_set_src dfw_src dfw_sig].
      * intro id. cbn [existsb]. unfold df_upd. destruct (id =? so_id d); [reflexivity|apply A].
      * exact B.
    + cbn [fst snd]. split; [reflexivity|]. split; cbn [df_set_src dfw_src dfw_sig].
      * intro id. unfold df_upd. destruct (N.eqb_spec id (so_id d)) as [->|_]; [rewrite A, Edef; reflexivity|apply A].
      * exact B.
  - (* signal *)
    unfold wm_api_signal_def, df_wr_signal.
    destruct (JLS_SIGNAL_COUNT <=? sg_id d) eqn:E1; [split; [reflexivity|exact Hrel]|].
    destruct (JLS_SOURCE_COUNT <=? sg_src d) eqn:E2; [split; [reflexivity|exact Hrel]|].
    rewrite (A (sg_src d)).
    destruct (df_is_defd (dfw_src w (sg_src d))); cbn [negb]; [|split; [reflexivity|exact Hrel]].
    pose proof (B (sg_id d)) as Bd.
    destruct (wm_find_sig st (sg_id d)) as [s|] eqn:Ef; cbn [option_map] in Bd.
    { rewrite Bd. cbn [df_is_defd]. split; [reflexivity|exact Hrel]. }
    rewrite Bd.
    destruct ((sg_type d =? JLS_SIGNAL_TYPE_FSR) || (sg_type d =? JLS_SIGNAL_TYPE_VSR)) eqn:Ety; cbn [negb]; [|split; [reflexivity|exact Hrel]].
    (* from here on DefsModel keeps a scratch copy when the call fails *)
    assert (Hscr : rd_rel st (df_set_sig w (sg_id d) (DfScratch d) (dfw_log w))).
    { split; [exact A|]. intro id. cbn [df_set_sig dfw_sig]. unfold df_upd.
      destruct (N.eqb_spec id (sg_id d)) as [->|_]; [rewrite Ef; reflexivity|apply B]. }
    change (wm_str_fits (sg_name d) && wm_str_fits (sg_units d)) with (df_save_ok (sg_name d) && df_save_ok (sg_units d)).
    destruct (df_save_ok (sg_name d) && df_save_ok (sg_units d)); cbn [negb]; [|split; [reflexivity|exact Hscr]].
    rewrite rd_dt_valid.
    assert (Hval : df_validate d = dt_valid (sg_dtype d)).
    { unfold df_validate. rewrite Ety.
      destruct (N.leb_spec JLS_SIGNAL_COUNT (sg_id d)); [discriminate|]. destruct (N.leb_spec JLS_SOURCE_COUNT (sg_src d)); [discriminate|].
      destruct (N.ltb_spec (sg_id d) JLS_SIGNAL_COUNT); [|lia]. destruct (N.ltb_spec (sg_src d) JLS_SOURCE_COUNT); [|lia]. reflexivity. }
    rewrite Hval.
    destruct (dt_valid (sg_dtype d)) eqn:Edt; cbn [negb]; [|split; [reflexivity|exact Hscr]].
    rewrite (rd_sig_align d (rd_valid_has_defaults _ Edt)).
    destruct (df_align_ok d); cbn [negb]; [|split; [reflexivity|exact Hscr]].
    assert (Hty : sg_type (sp_align d) = sg_type d) by reflexivity.
    assert (Hrate : (sg_type (sp_align d) =? JLS_SIGNAL_TYPE_FSR) && (sg_rate (sp_align d) =? 0) = (sg_type d =? JLS_SIGNAL_TYPE_FSR) && (sg_rate d =? 0)).
    { cbn [sp_align sg_type sg_rate]. destruct (N.eqb_spec (sg_type d) JLS_SIGNAL_TYPE_FSR) as [E|E]; [|reflexivity].
      rewrite E. reflexivity. }
    rewrite Hrate.
    destruct ((sg_type d =? JLS_SIGNAL_TYPE_FSR) && (sg_rate d =? 0)); [split; [reflexivity|exact Hscr]|].
    destruct (wm_raw_wr _ _ _) as [r1 h1]. destruct (wm_update_item_head _ _ _) as [r2 sh].
    assert (Hfin : forall b4 s, wm_sg_def s = sp_align d ->
              rd_rel {| wm_st_base := b4; wm_st_srcs := wm_st_srcs st; wm_st_sigs := wm_st_sigs st ++ [s] |}
                     (df_set_sig w (sg_id d) (DfDefd (sp_align d)) (dfw_log w ++ DfLSig (sg_id d) (df_enc_signal_def (sp_align d)) :: df_track_entries (sg_id d) (sg_type d)))).
    { intros b4 s Hs. split; [exact A|]. intro id. cbn [df_set_sig dfw_sig]. unfold df_upd, wm_find_sig. cbn [wm_st_sigs].
      rewrite rd_find_app. fold (wm_find_sig st id).
      destruct (N.eqb_spec id (sg_id d)) as [->|Hne].
      - rewrite Ef. cbn [find]. unfold wm_sig_id. rewrite Hs. cbn [sp_align sg_id]. rewrite N.eqb_refl. cbn [option_map]. rewrite Hs. reflexivity.
      - specialize (B id). destruct (wm_find_sig st id) as [s'|]; [exact B|].
        cbn [find]. unfold wm_sig_id. rewrite Hs. cbn [sp_align sg_id].
        destruct (N.eqb_spec (sg_id d) id); [congruence|]. exact B. }
    rewrite Hty.
    destruct (sg_type d =? JLS_SIGNAL_TYPE_FSR).
    + destruct (wm_def_track _ _ JLS_TRACK_TYPE_FSR) as [b2 tf]. destruct (wm_def_track b2 _ JLS_TRACK_TYPE_ANNOTATION) as [b3 ta].
      destruct (wm_def_track b3 _ JLS_TRACK_TYPE_UTC) as [b4 tu]. cbn [fst snd]. split; [reflexivity|]. apply Hfin. reflexivity.
    + destruct (wm_def_track _ _ JLS_TRACK_TYPE_VSR) as [b2 tv]. destruct (wm_def_track b2 _ JLS_TRACK_TYPE_ANNOTATION) as [b3 ta].
      cbn [fst snd]. split; [reflexivity|]. apply Hfin. reflexivity.
  - (* fsr *)
    unfold wm_api_fsr. destruct (rd_validate_typed st w sig JLS_SIGNAL_TYPE_FSR Hrel) as (E1 & E2).
    destruct (wm_signal_validate_typed st sig JLS_SIGNAL_TYPE_FSR) as [rc o]. cbn [fst snd] in *. rewrite <- E1.
    destruct o as [s|].
    + destruct E2 as (-> & Hf). unfold df_data. cbn [N.eqb].
      destruct (wm_sg_fsr s); cbn [fst snd]; (split; [reflexivity|]).
      * apply (rd_rel_put st _ _ s); [split; assumption| |reflexivity].
        replace (wm_sig_id (wm_sg_set_fsr s _ _)) with sig by (symmetry; apply (rd_find_id st sig s Hf)). exact Hf.
      * split; assumption.
    + destruct rc as [|p]; [congruence|]. unfold df_data. cbn [N.eqb fst snd]. split; [reflexivity|exact Hrel].
  - (* omit *)
    unfold wm_api_fsr_omit_data. destruct (rd_validate_typed st w sig JLS_SIGNAL_TYPE_FSR Hrel) as (E1 & E2).
    destruct (wm_signal_validate_typed st sig JLS_SIGNAL_TYPE_FSR) as [rc o]. cbn [fst snd] in *. rewrite <- E1.
    destruct o as [s|].
    + destruct E2 as (-> & Hf). unfold df_data. cbn [N.eqb].
      destruct (wm_sg_fsr s); cbn [fst snd]; (split; [reflexivity|]).
      * apply (rd_rel_put st _ _ s); [split; assumption| |reflexivity].
        replace (wm_sig_id (wm_sg_set_fsr s _ _)) with sig by (symmetry; apply (rd_find_id st sig s Hf)). exact Hf.
      * split; assumption.
    + destruct rc as [|p]; [congruence|]. unfold df_data. cbn [N.eqb fst snd]. split; [reflexivity|exact Hrel].
  - (* annotation *)
    unfold wm_api_annotation. destruct (rd_validate st w sig Hrel) as (E1 & E2).
    destruct (wm_signal_validate st sig) as [rc o]. cbn [fst snd] in *. rewrite <- E1.
    destruct o as [s|].
    + destruct E2 as (-> & Hf & Hd). cbn [N.eqb negb].
      destruct (256 <=? an_type a); [unfold df_data; cbn [orb N.eqb fst snd]; split; [reflexivity|exact Hrel]|].
      destruct (256 <=? an_stype a); [unfold df_data; cbn [orb N.eqb fst snd]; split; [reflexivity|exact Hrel]|].
      cbn [orb].
      destruct ((1 <=? an_stype a) && (an_stype a <=? 3)); cbn [negb]; [|unfold df_data; cbn [N.eqb fst snd]; split; [reflexivity|exact Hrel]].
      unfold df_data. cbn [N.eqb].
      destruct (wm_sg_anno s).
      * destruct (wm_raw_wr _ _ _) as [r1 h1]. destruct (wm_update_item_head _ _ _) as [r2 dh]. destruct (wm_track_update _ _ _ _ _) as [b1 t1].
        cbn [fst snd]. split; [reflexivity|].
        apply (rd_rel_put st _ _ s); [split; assumption| |reflexivity].
        replace (wm_sig_id (wm_sg_set_anno s _ _)) with sig by (symmetry; apply (rd_find_id st sig s Hf)). exact Hf.
      * cbn [fst snd]. split; [reflexivity|split; assumption].
    + destruct rc as [|p]; [congruence|]. unfold df_data. cbn [N.eqb negb fst snd]. split; [reflexivity|exact Hrel].
  - (* utc *)
    unfold wm_api_utc. destruct (rd_validate_typed st w sig JLS_SIGNAL_TYPE_FSR Hrel) as (E1 & E2).
    destruct (wm_signal_validate_typed st sig JLS_SIGNAL_TYPE_FSR) as [rc o]. cbn [fst snd] in *. rewrite <- E1.
    destruct o as [s|].
    + destruct E2 as (-> & Hf). unfold df_data. cbn [N.eqb].
      destruct (wm_sg_utc s).
      * destruct (wm_raw_wr _ _ _) as [r1 h1]. destruct (wm_update_item_head _ _ _) as [r2 dh]. destruct (wm_track_update _ _ _ _ _) as [b1 t1].
        cbn [fst snd]. split; [reflexivity|].
        apply (rd_rel_put st _ _ s); [split; assumption| |reflexivity].
        replace (wm_sig_id (wm_sg_set_utc s _ _)) with sig by (symmetry; apply (rd_find_id st sig s Hf)). exact Hf.
      * cbn [fst snd]. split; [reflexivity|split; assumption].
    + destruct rc as [|p]; [congruence|]. unfold df_data. cbn [N.eqb fst snd]. split; [reflexivity|exact Hrel].
  - (* user data *)
    unfold wm_api_user_data, df_wr_user_data.
    destruct (N.ltb_spec 3 (ud_stype u)) as [Hgt|Hle].
    + assert (E : (ud_stype u =? JLS_STORAGE_TYPE_INVALID) = false /\ (ud_stype u =? JLS_STORAGE_TYPE_BINARY) = false /\
                  (ud_stype u =? JLS_STORAGE_TYPE_STRING) = false /\ (ud_stype u =? JLS_STORAGE_TYPE_JSON) = false).
      { unfold JLS_STORAGE_TYPE_INVALID, JLS_STORAGE_TYPE_BINARY, JLS_STORAGE_TYPE_STRING, JLS_STORAGE_TYPE_JSON.
        repeat split; apply N.eqb_neq; lia. }
      destruct E as (E0 & E1 & E2 & E3). rewrite E0, E1, E2, E3. cbn [orb fst snd]. split; [reflexivity|exact Hrel].
    + destruct (wm_raw_wr _ _ _) as [r1 h1]. destruct (wm_update_item_head _ _ _) as [r2 uh]. cbn [fst snd].
      assert (Hc : ud_stype u = 0 \/ ud_stype u = 1 \/ ud_stype u = 2 \/ ud_stype u = 3) by lia.
      destruct Hc as [E|[E|[E|E]]]; rewrite E; cbn [N.eqb Pos.eqb orb fst snd dfw_src dfw_sig]; (split; [reflexivity|split; assumption]).
  - (* flush *)
    cbn [wm_api_flush fst snd]. split; [reflexivity|exact Hrel].
Qed.

End RD.

(* ------------------------------------------------------------------ whole programs *)
Section RD2.
Variable summ1 : N -> list N -> wm_sentry.
Variable summN : bool -> list wm_sentry -> wm_sentry.

Lemma rd_steps : forall p st w acc, rd_rel st w ->
  map DfRc (snd (wm_steps summ1 summN st p acc)) = map DfRc (rev acc) ++ snd (df_run w (map df_op_of p)) /\
  rd_rel (fst (wm_steps summ1 summN st p acc)) (fst (df_run w (map df_op_of p))).
Proof.
  induction p as [|o p IH]; intros st w acc Hrel.
  - cbn [wm_steps map df_run fst snd]. unfold wm_rev. rewrite <- rev_alt, app_nil_r. split; [reflexivity|exact Hrel].
  - cbn [wm_steps map df_run].
    destruct (rd_step_rc summ1 summN st w o Hrel) as (Erc & Hrel1).
    destruct (wm_step_rc summ1 summN st o) as [st1 rc]. destruct (df_step w (df_op_of o)) as [w1 a]. cbn [fst snd] in *.
    destruct (IH st1 w1 (rc :: acc) Hrel1) as (E1 & E2).
    destruct (df_run w1 (map df_op_of p)) as [w2 l]. cbn [fst snd] in *.
    split; [|exact E2]. rewrite E1. cbn [rev]. rewrite map_app, <- app_assoc. cbn [map app]. rewrite Erc. reflexivity.
Qed.

Lemma rd_rel_open : rd_rel wm_api_open df_open.
Proof.
  assert (H0 : rd_rel wm_state0 df_wr0) by (split; intro id; reflexivity).
  unfold wm_api_open, df_open.
  set (u0 := {| ud_meta := 0; ud_stype := JLS_STORAGE_TYPE_INVALID; ud_data := [] |}).
  destruct (rd_step_rc summ1 summN wm_state0 df_wr0 (WUd u0) H0) as (_ & H1). cbn [wm_step_rc df_op_of] in H1.
  destruct (wm_api_user_data wm_state0 u0) as [st1 rc1]. cbn [fst] in H1.
  destruct (rd_step_rc summ1 summN st1 _ (WSrc source0) H1) as (_ & H2). cbn [wm_step_rc df_op_of] in H2.
  destruct (wm_api_source_def st1 source0) as [st2 rc2]. cbn [fst] in H2.
  destruct (rd_step_rc summ1 summN st2 _ (WSig wm_signal0_raw) H2) as (_ & H3). cbn [wm_step_rc df_op_of] in H3.
  destruct (wm_api_signal_def st2 wm_signal0_raw) as [st3 rc3]. cbn [fst] in H3.
  exact H3.
Qed.

(* E (return codes), first half: the byte-exact model and DefsModel return the same code for every call *)
Theorem rd_run_rcs : forall p, map DfRc (snd (wm_run_full summ1 summN p)) = snd (df_run_prog p).
Proof.
  intros p. unfold wm_run_full, df_run_prog.
  destruct (rd_steps p wm_api_open df_open [] rd_rel_open) as (E & _).
  destruct (wm_steps summ1 summN wm_api_open p []) as [st rcs]. cbn [fst snd] in *. exact E.
Qed.

(* E: 0 exactly where Spec.run_spec accepts the call *)
Theorem rd_run_accept : forall p, df_prog_ok p ->
  map (fun rc => rc =? 0) (snd (wm_run_full summ1 summN p)) = snd (run_spec content0 p).
Proof.
  intros p Hok. destruct (refines_spec p Hok) as (E & _). cbv zeta in E. rewrite <- E, <- rd_run_rcs, map_map.
  apply map_ext. intros rc. destruct rc; reflexivity.
Qed.

End RD2.

(* E without the guard is FALSE: Spec.wstep accepts every signal definition that passes its identity checks, while
   jls_core_signal_def_align (core.c: "entries_per_summary too big", JLS_ERROR_PARAMETER_INVALID = 5) refuses
   entries_per_summary = 2^32 - 1; the byte-exact model (and DefsModel) follow the C.  Spec.wstep is the coarser model
   here (df_prog_ok / df_align_ok is exactly the missing condition). *)
Definition rd_cex_src : srcdef :=
  {| so_id := 3; so_name := SBytes [97; 98]; so_vendor := SNull; so_model := SBytes []; so_version := SNull; so_serial := SNull |}.
Definition rd_cex_sig : sigdef :=
  {| sg_id := 5; sg_src := 3; sg_type := JLS_SIGNAL_TYPE_FSR; sg_dtype := JLS_DATATYPE_U8; sg_rate := 1000; sg_spd := 32; sg_sdf := 32;
     sg_eps := 4294967295; sg_sumdf := 10; sg_adf := 10; sg_udf := 10; sg_name := SBytes [120]; sg_units := SNull |}.
Theorem rd_run_accept_unguarded_refuted :
  snd (wm_run_full (fun _ _ => (0, 0, 0, 0)) (fun _ _ => (0, 0, 0, 0)) [WSrc rd_cex_src; WSig rd_cex_sig]) = [0; 5] /\
  snd (run_spec content0 [WSrc rd_cex_src; WSig rd_cex_sig]) = [true; true] /\
  df_align_ok rd_cex_sig = false.
Proof. split; [vm_compute; reflexivity|]. split; vm_compute; reflexivity. Qed.
