(* COMPOSITION, part 7: the C01 / C05 program-level theorems with their numeric guards DISCHARGED from the acceptance of
   the signal definition (ComposeAlign.v).  What remains: the program class, 0 < pos0 (the abstract start ordinal),
   sid <> 0, the signal is FSR, entries_per_summary * sample_decimate_factor < 2^32 and (C01 only) the fill value. *)
From Coq Require Import NArith ZArith List Bool Lia Arith.
From JLS Require Import Generated CrcDefs Spec Format WmRaw WmCore WmTs WmFsr WriterModel WmProofs
  BitCopyModel BitCopyProofs FsrPackModel FsrPackProofs PyramidModel PyramidProofs
  RefineLog RefineFsr RefinePyr RefinePyr2 RefineBits RefineBits2 RefineProg ComposeFsr ComposeC01 ComposeAlign.
Import ListNotations.
Local Open Scope N_scope.

Section CMP_TOP.
Variable summ1 : N -> list N -> wm_sentry.
Variable summN : bool -> list wm_sentry -> wm_sentry.
Variables (d0 d : sigdef) (pos0 : Z) (p1 p2 : list wop) (stf : py_wr).
Let w := dt_bits (sg_dtype d).
Let sid := sg_id d.
Let p := p1 ++ WSig d0 :: p2.
Let ops := rp_proj sid p2.
Let stF := fst (wm_run_full summ1 summN p).
Let cs := filter (rf_mine d) (rf_chunks (wm_st_log stF)).
Let offs := map rc_off cs.
Let BLKS := rf_blocks d rf_bs0 ops.
Let pd := rf_pd d.

Hypothesis Hpos0 : (0 < pos0)%Z.
Hypothesis Hsid0 : sg_id d <> 0.
Hypothesis Hty : sg_type d = JLS_SIGNAL_TYPE_FSR.
Hypothesis Hprod : sg_eps d * sg_sdf d < 4294967296.
Hypothesis Hok : Forall (rp_ok sid) p.
Hypothesis Hns : Forall (fun o => match o with WSig d' => sg_id d' <> sid | _ => True end) p1.
Hypothesis Hrc : snd (wm_api_signal_def (fst (wm_steps summ1 summN wm_api_open p1 [])) d0) = 0.
Hypothesis Hal : wm_sig_align d0 = Some d.
Hypothesis Hpy : py_srun pd (w <=? 8) (rf_t0 ops) pos0 (rf_script d rf_bs0 ops) = PyOk stf.

Lemma cmp_top_guards :
  sg_id d < 256 /\ 0 < sg_spd d /\ (w < 8 \/ w mod 8 = 0) /\ 0 < w /\ 0 < wm_fill_buf_samples (sg_dtype d) /\
  32 * sg_eps d + 16 < 4294967296 /\ 8 * sg_sumdf d + 16 < 4294967296 /\ 16 + (sg_spd d * w + 7) / 8 < 4294967296 /\
  py_consistent pd.
Proof.
  destruct (cmp_accept_valid _ _ Hrc) as (Hv & Hid).
  destruct (cmp_align_guards d0 d Hv Hal) as (Eid & G1 & G2 & G3 & G4 & G5 & G6 & G7 & G8).
  split; [rewrite Eid; exact Hid|]. repeat (split; [assumption|]). exact (G8 Hprod).
Qed.

Theorem cmp_prog_index_targets_top :
  wm_st_fault stF = false /\
  forall c, In c (rf_chunks (wm_st_log stF)) -> rf_mine d c = true -> rc_tag c = JLS_TAG_TRACK_FSR_INDEX ->
  exists L ts ents, (1 <= L <= 14)%nat /\ rc_meta c = wm_meta sid (N.of_nat L) /\
    rc_pay c = wm_fsr_index_payload ts (N.of_nat (length ents)) ents /\ ents <> [] /\
    (Z.of_nat (length ents) <= py_cap pd L)%Z /\
    forall k o, nth_error ents k = Some o ->
      (o = 0 -> L = 1%nat) /\
      (o <> 0 -> exists c', In c' (rf_chunks (wm_st_log stF)) /\ rc_off c' = o /\
         match L with
         | 1%nat => rc_tag c' = JLS_TAG_TRACK_FSR_DATA /\ rc_meta c' = wm_meta sid 0 /\
                    exists blk, In blk BLKS /\
                      rc_pay c' = wm_fsr_data_payload (ts + Z.of_nat k * py_spd pd) (N.of_nat (length blk)) w (wm_pack w blk)
         | _ => rc_tag c' = JLS_TAG_TRACK_FSR_INDEX /\ rc_meta c' = wm_meta sid (N.of_nat (pred L)) /\
                exists ents', rc_pay c' = wm_fsr_index_payload (ts + Z.of_nat k * py_step pd L) (N.of_nat (length ents')) ents'
         end).
Proof.
  destruct cmp_top_guards as (A1 & A2 & A3 & A4 & A5 & A6 & A7 & A8 & A9).
  exact (cmp_prog_index_targets_lemma summ1 summN d0 d pos0 p1 p2 stf Hpos0 A1 Hsid0 Hty A2 A3 A5 A6 A7 A8 A9 Hok Hns Hrc Hal Hpy).
Qed.

Hypothesis Hfillv : wm_fill_sample (sg_dtype d) = fill_value (sg_dtype d).

Let g := fold_left (fun g c => fsr_write g (fst c) (snd c)) (rf_calls ops) (new_sig d).
Let plan := py_plan (w <=? 8) (py_sdf pd) 0 (rf_script d rf_bs0 ops).

Theorem cmp_c01_top :
  wm_st_fault stF = false /\
  (rd_length g <> 0 -> ss_first g = Some (rf_t0 ops)) /\
  Z.of_N (rd_length g) = py_total (py_blocks plan) /\
  (* length: exact unless omission was requested for a last block that is not a whole number of summary entries *)
  (exists len, py_fsr_length pd (pw_disk stf) (pw_heads stf) = PyOk len /\
     (Z.of_N (rd_length g) - py_sdf pd < len <= Z.of_N (rd_length g))%Z /\
     ((w <= 8 \/ cmp_no_omit ops \/ rd_length g mod sg_sdf d = 0) -> len = Z.of_N (rd_length g))) /\
  forall sig cache starts x,
    (0 <= sig < 256)%Z -> (cc_meta cache <> 4096 + sig \/ cc_off cache = 0)%Z ->
    (0 <= x < Z.of_N (rd_length g))%Z ->
    let t := (rf_t0 ops + x)%Z in
    let i := Z.to_nat (x / py_spd pd) in
    let r := fst (py_rd_data0 pd (pw_disk stf) (pw_heads stf) sig (py_reads pd (pw_disk stf) (pw_heads stf) sig cache starts) t) in
    (exists c1 ci, py_fsr_seek pd (pw_disk stf) (pw_heads stf) 1 t = PyOk (pc_off c1) /\ In c1 (pw_disk stf) /\ pc_kind c1 = PyIndex 1 /\
       (pc_ts c1 <= t < pc_ts c1 + pc_count c1 * py_spd pd)%Z /\
       In ci (rf_chunks (wm_st_log stF)) /\ rc_off ci = rf_psi offs pos0 (pc_off c1) /\ rc_off ci <> 0 /\
       rc_tag ci = JLS_TAG_TRACK_FSR_INDEX /\ rc_meta ci = wm_meta sid 1 /\
       rc_pay ci = wm_fsr_index_payload (pc_ts c1) (Z.to_N (pc_count c1)) (map (rf_psi offs pos0) (pc_entries c1))) /\
    exists blk om, nth_error BLKS i = Some blk /\ nth_error (py_blocks plan) i = Some (Z.of_nat (length blk), om) /\
      (0 <= x - Z.of_nat i * py_spd pd < Z.of_nat (length blk))%Z /\
      if (om : bool)
      then r = PyOk (PyOmitted (rf_t0 ops + Z.of_nat i * py_spd pd) (py_sdf pd * (Z.of_nat (length blk) / py_sdf pd)))
      else exists cd c, r = PyOk (PyStored cd) /\ In cd (pw_disk stf) /\ pc_kind cd = PyData /\
             pc_ts cd = (rf_t0 ops + Z.of_nat i * py_spd pd)%Z /\ pc_count cd = Z.of_nat (length blk) /\
             (pc_ts cd <= t < pc_ts cd + pc_count cd)%Z /\
             In c (rf_chunks (wm_st_log stF)) /\ rc_off c = rf_psi offs pos0 (pc_off cd) /\ rc_off c <> 0 /\
             rc_tag c = JLS_TAG_TRACK_FSR_DATA /\ rc_meta c = wm_meta sid 0 /\
             rc_pay c = wm_payload_header (pc_ts cd) (N.of_nat (length blk)) w ++ pack w blk /\
             forall len, (0 < len)%Z -> (t + len <= pc_ts cd + pc_count cd)%Z ->
               let win := pack w (firstn (Z.to_nat len) (skipn (Z.to_nat (t - pc_ts cd)) blk)) in
               rd_window g (Z.to_N x) (Z.to_N len) = Some win /\
               fp_rd_blocks w (pc_ts cd) [(pc_ts cd, Z.to_N (pc_count cd), skipn 16 (rc_pay c))] (t - pc_ts cd) len
                            (repeat 0 (N.to_nat ((Z.to_N len * w + 7) / 8))) = RD_ok win.
Proof.
  destruct cmp_top_guards as (A1 & A2 & A3 & A4 & A5 & A6 & A7 & A8 & A9).
  exact (cmp_c01_lemma summ1 summN d0 d pos0 p1 p2 stf Hpos0 A1 Hsid0 Hty A2 A3 A5 A6 A7 A8 A9 Hok Hns Hrc Hal Hpy A4 Hfillv).
Qed.

End CMP_TOP.

Section CMP_TOP2.
Variable summ1 : N -> list N -> wm_sentry.
Variable summN : bool -> list wm_sentry -> wm_sentry.
Variables (d0 d : sigdef) (pos0 : Z) (p1 p2 : list wop) (stf : py_wr).
Let w := dt_bits (sg_dtype d).
Let sid := sg_id d.
Let p := p1 ++ WSig d0 :: p2.
Let ops := rp_proj sid p2.
Let stF := fst (wm_run_full summ1 summN p).
Let cs := filter (rf_mine d) (rf_chunks (wm_st_log stF)).
Let offs := map rc_off cs.
Let BLKS := rf_blocks d rf_bs0 ops.
Let pd := rf_pd d.
Let g := fold_left (fun g c => fsr_write g (fst c) (snd c)) (rf_calls ops) (new_sig d).
Let plan := py_plan (w <=? 8) (py_sdf pd) 0 (rf_script d rf_bs0 ops).

Hypothesis Hpos0 : (0 < pos0)%Z.
Hypothesis Hsid0 : sg_id d <> 0.
Hypothesis Hty : sg_type d = JLS_SIGNAL_TYPE_FSR.
Hypothesis Hprod : sg_eps d * sg_sdf d < 4294967296.
Hypothesis Hok : Forall (rp_ok sid) p.
Hypothesis Hns : Forall (fun o => match o with WSig d' => sg_id d' <> sid | _ => True end) p1.
Hypothesis Hrc : snd (wm_api_signal_def (fst (wm_steps summ1 summN wm_api_open p1 [])) d0) = 0.
Hypothesis Hal : wm_sig_align d0 = Some d.
Hypothesis Hpy : py_srun pd (w <=? 8) (rf_t0 ops) pos0 (rf_script d rf_bs0 ops) = PyOk stf.

(* ---- no block omitted: following the index block by block, the reader assembles FsrPackModel's block list; hence every
        window (any alignment, spanning any number of blocks) is Spec.rd_window ---- *)
Theorem cmp_c01_whole_windows_top :
  In (sg_dtype d) fp_dt_list -> 8 < w -> cmp_no_omit ops ->
  sg_spd d * w + 7 < 4294967296 ->
  Forall (fun c => N.of_nat (length (snd c)) < 4294967296) (rf_calls ops) ->
  let L := rb_fp_blocks w (sg_spd d) (rf_t0 ops) 0 BLKS in
  (forall sig cache starts i blk,
     (0 <= sig < 256)%Z -> (cc_meta cache <> 4096 + sig \/ cc_off cache = 0)%Z ->
     nth_error BLKS i = Some blk ->
     let t := (rf_t0 ops + Z.of_nat i * py_spd pd)%Z in
     nth_error L i = Some (t, N.of_nat (length blk), pack w blk) /\
     exists cd c,
       fst (py_rd_data0 pd (pw_disk stf) (pw_heads stf) sig (py_reads pd (pw_disk stf) (pw_heads stf) sig cache starts) t) = PyOk (PyStored cd) /\
       pc_ts cd = t /\ pc_count cd = Z.of_nat (length blk) /\
       In c (rf_chunks (wm_st_log stF)) /\ rc_off c = rf_psi offs pos0 (pc_off cd) /\ rc_off c <> 0 /\
       rc_tag c = JLS_TAG_TRACK_FSR_DATA /\ rc_meta c = wm_meta sid 0 /\
       rc_pay c = wm_payload_header t (N.of_nat (length blk)) w ++ pack w blk) /\
  fp_total L = rd_length g /\
  forall start count, 0 < count ->
    match rd_window g start count with
    | Some win => fp_rd_blocks w (rd_offset g) L (Z.of_N start) (Z.of_N count) (repeat 0 (N.to_nat ((count * w + 7) / 8))) = RD_ok win
    | None => forall dst, fp_rd_blocks w (rd_offset g) L (Z.of_N start) (Z.of_N count) dst = RD_param_invalid
    end.
Proof.
  intros Hdt Hbig Hno Hbits Hcalls L.
  assert (Hfillv : wm_fill_sample (sg_dtype d) = fill_value (sg_dtype d)).
  { unfold fp_dt_list in Hdt. cbn [In] in Hdt. repeat (destruct Hdt as [<-|Hdt]; [reflexivity|]). contradiction. }
  destruct (cmp_top_guards summ1 summN d0 d p1 Hprod Hrc Hal) as (A1 & A2 & A3 & A4 & A5 & A6 & A7 & A8 & A9).
  destruct (cmp_accept_valid _ _ Hrc) as (Hv & _).
  pose proof (cmp_align_block_bytes d0 d Hv Hal) as Hbytes. fold w in Hbytes.
  destruct (cmp_c01_top summ1 summN d0 d pos0 p1 p2 stf Hpos0 Hsid0 Hty Hprod Hok Hns Hrc Hal Hpy Hfillv) as (_ & _ & Htot & _ & Hpos).
  pose proof (cmp_no_omission_lemma d ops Hbig Hno) as Hnoom. fold w pd plan in Hnoom.
  destruct (rb_blocks_stream d A2 Hfillv ops) as (Hcat & Hshape). cbv zeta in Hcat. fold ops g BLKS in Hcat, Hshape.
  assert (Hspdz : py_spd pd = Z.of_nat (N.to_nat (sg_spd d))) by (unfold pd, rf_pd; cbn [py_spd]; lia).
  split.
  - intros sig cache starts i blk Hsig Hcache Hi t.
    split.
    { unfold L. clear - Hi Hspdz. unfold t. rewrite Hspdz, N_nat_Z. 
      assert (Hgen : forall bl k0 i, nth_error bl i = Some blk ->
                nth_error (rb_fp_blocks w (sg_spd d) (rf_t0 ops) k0 bl) i =
                Some ((rf_t0 ops + Z.of_nat (k0 + i) * Z.of_N (sg_spd d))%Z, N.of_nat (length blk), pack w blk)).
      { induction bl as [|b bl IH]; intros k0 j Hj; [destruct j; discriminate Hj|]. destruct j as [|j]; cbn [nth_error rb_fp_blocks] in *.
        - injection Hj as ->. rewrite Nat.add_0_r. reflexivity.
        - rewrite (IH (S k0) j Hj). f_equal. f_equal. f_equal. f_equal. lia. }
      exact (Hgen BLKS 0%nat i Hi). }
    destruct (cmp_block_window (N.to_nat (sg_spd d)) BLKS i blk 0 0 Hshape Hi ltac:(lia)) as (_ & Hbound).
    destruct (Hshape i blk Hi) as (Hlen & _).
    assert (Hx : (0 <= Z.of_nat i * py_spd pd < Z.of_N (rd_length g))%Z).
    { unfold rd_length. rewrite <- Hcat. rewrite Hspdz. lia. }
    specialize (Hpos sig cache starts (Z.of_nat i * py_spd pd)%Z Hsig Hcache Hx). cbv zeta in Hpos.
    destruct Hpos as (_ & blk' & om & Hb' & Hpb & _ & Hres).
    assert (Hspos : (0 < py_spd pd)%Z) by (rewrite Hspdz; lia).
    rewrite Z.div_mul, Nat2Z.id in Hb', Hpb, Hres by lia.
    assert (E : Some blk' = Some blk) by (exact (eq_trans (eq_sym Hb') Hi)). injection E as ->.
    assert (Hom : om = false).
    { rewrite Forall_forall in Hnoom. exact (Hnoom _ (nth_error_In _ _ Hpb)). }
    subst om. destruct Hres as (cd & c & Hr & _ & _ & Hts & Hcnt & _ & Hc & Hoff & Hnz & Htag & Hmeta & Hpay & _).
    exists cd, c. fold t in Hr, Hts. split; [exact Hr|]. split; [exact Hts|]. split; [exact Hcnt|].
    split; [exact Hc|]. split; [exact Hoff|]. split; [exact Hnz|]. split; [exact Htag|]. split; [exact Hmeta|].
    rewrite Hpay, Hts. reflexivity.
  - set (buf0 := repeat 0 (N.to_nat (sg_spd d * w / 8))).
    assert (Hbuf : 8 * N.of_nat (length buf0) = sg_spd d * w).
    { unfold buf0. rewrite repeat_length, N2Nat.id. pose proof (N.div_mod (sg_spd d * w) 8 ltac:(discriminate)) as Hdm. rewrite Hbytes in Hdm. lia. }
    assert (Hb256 : Forall (fun b => b < 256) buf0) by (apply Forall_forall; intros b Hb; apply repeat_spec in Hb; subst b; reflexivity).
    destruct (rb_fp_blocks_eq d ops buf0 Hdt A2 Hbytes Hbits Hbuf Hb256 Hcalls) as (st & Hrun & Hblocks).
    destruct (pack_roundtrip_lemma (sg_dtype d) (sg_spd d) buf0 d (rf_calls ops) Hdt eq_refl A2 Hbytes Hbits Hbuf Hb256 Hcalls)
      as (st' & Hrun' & Htotal & Hwin). cbv zeta in Htotal, Hwin. fold w g in Htotal, Hwin.
    rewrite Hrun in Hrun'. injection Hrun' as <-. rewrite Hblocks in Htotal, Hwin. fold ops BLKS in Htotal, Hwin. fold L in Htotal, Hwin.
    split; [exact Htotal|].
    intros start count Hc. specialize (Hwin start count Hc).
    destruct (rd_window g start count) as [win|]; [exact (proj1 Hwin)|exact Hwin].
Qed.

End CMP_TOP2.
