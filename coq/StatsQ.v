(* Statistics accumulators of /repo/src/statistics.c (struct jls_statistics_s
   {k, mean, s, min, max}) over the rationals Q, with the C's control flow:

     jls_statistics_reset, _compute_f32/_f64 (two pass), _add (Welford),
     _var, _copy, _combine (parallel variance formula).

   What is modelled exactly: the order of statements, every branch (length <= 0,
   kt == 0, a->k == 0, b->k == 0, k <= 1), the uint64 arithmetic on k (++k and
   a->k + b->k are taken mod 2^64), the DBL_MAX / FLT_MAX sentinels that min/max
   start from, and - for combine and copy - the individual field reads and
   writes through pointers, so that tgt may alias a and/or b (store version).
   What is NOT modelled: binary64 rounding.  Every double operation is the exact
   rational operation; the correspondence run measures the difference.
   A double division by (double)0 (only reachable in _add when ++k wraps to 0)
   yields inf/NaN in C, which Q cannot express: `stats_add` returns None there.

   Each rational operation is followed by Qred (value-preserving normalisation,
   Qred q == q) only to keep the extracted code fast; see qadd_eq etc. in
   StatsQProofs.v (qr_add a b == a + b, ...).  Names carry a stats_/qr_/sstore_
   prefix so that the extracted OCaml names stay stable when other models are
   extracted into the same file.  Definitions only; proofs are in StatsQProofs.v. *)
From Coq Require Import NArith ZArith QArith Qreduction Qminmax List Bool.
Import ListNotations.
Local Open Scope Q_scope.

Record stats : Set := mkStats {
  st_k : N;       (* uint64_t k *)
  st_mean : Q;    (* double mean *)
  st_s : Q;       (* double s *)
  st_min : Q;     (* double min *)
  st_max : Q      (* double max *)
}.

(* <float.h>: DBL_MAX = (2^53 - 1) * 2^971, FLT_MAX = (2^24 - 1) * 2^104 *)
Definition dbl_max : Q := inject_Z ((2 ^ 53 - 1) * 2 ^ 971).
Definition flt_max : Q := inject_Z ((2 ^ 24 - 1) * 2 ^ 104).
Definition stats_two64 : N := (2 ^ 64)%N.

Definition qr_add (a b : Q) : Q := Qred (a + b).
Definition qr_sub (a b : Q) : Q := Qred (a - b).
Definition qr_mul (a b : Q) : Q := Qred (a * b).
Definition qr_div (a b : Q) : Q := Qred (a / b).
(* C `a < b` on doubles (no NaN in this model) *)
Definition qr_lt (a b : Q) : bool := match a ?= b with Lt => true | _ => false end.
(* (double) k for a uint64 k: exact here *)
Definition q_of_N (n : N) : Q := inject_Z (Z.of_N n).

(* ---- jls_statistics_reset ---- *)
Definition stats_reset : stats := mkStats 0 0 0 dbl_max (- dbl_max).

(* ---- jls_statistics_compute_f32 / _f64 ----
   first loop: v_mean += v; if (v < v_min) v_min = v; if (v > v_max) v_max = v; *)
Definition stats_pass1_step (acc : Q * Q * Q) (v : Q) : Q * Q * Q :=
  let '(v_mean, v_min, v_max) := acc in
  (qr_add v_mean v,
   if qr_lt v v_min then v else v_min,
   if qr_lt v_max v then v else v_max).
(* second loop: m = x[i] - v_mean; v_var += m * m; *)
Definition stats_pass2_step (v_mean : Q) (v_var : Q) (x : Q) : Q :=
  let m := qr_sub x v_mean in qr_add v_var (qr_mul m m).

(* sentinel = DBL_MAX for _f64, FLT_MAX for _f32 (v_min/v_max are float there);
   `length` is the length of the array that is passed *)
Definition stats_compute_gen (sentinel : Q) (xs : list Q) : stats :=
  match xs with
  | [] => stats_reset                                 (* if (length <= 0) { reset; return; } *)
  | _ =>
    let length := N.of_nat (length xs) in
    let '(v_sum, v_min, v_max) := fold_left stats_pass1_step xs (0, sentinel, - sentinel) in
    let v_mean := qr_div v_sum (q_of_N length) in (* v_mean /= length *)
    let v_var := fold_left (stats_pass2_step v_mean) xs 0 in
    mkStats length v_mean v_var v_min v_max
  end.
Definition stats_compute_f64 : list Q -> stats := stats_compute_gen dbl_max.
Definition stats_compute_f32 : list Q -> stats := stats_compute_gen flt_max.

(* ---- jls_statistics_add ---- *)
Definition stats_add (st : stats) (x : Q) : option stats :=
  let k' := ((st_k st + 1) mod stats_two64)%N in          (* ++s->k *)
  if (k' =? 0)%N then None                           (* division by (double) 0 *)
  else
    let m_old := st_mean st in
    let m_new := qr_add (st_mean st) (qr_div (qr_sub x (st_mean st)) (q_of_N k')) in
    let s' := qr_add (st_s st) (qr_mul (qr_sub x m_old) (qr_sub x m_new)) in
    Some (mkStats k' m_new s'
            (if qr_lt x (st_min st) then x else st_min st)
            (if qr_lt (st_max st) x then x else st_max st)).

Fixpoint stats_add_list (st : stats) (xs : list Q) : option stats :=
  match xs with
  | [] => Some st
  | x :: r => match stats_add st x with Some st' => stats_add_list st' r | None => None end
  end.

(* ---- jls_statistics_var ---- *)
Definition stats_var (st : stats) : Q :=
  if (st_k st <=? 1)%N then 0 else qr_div (st_s st) (q_of_N (st_k st - 1)).

(* ---- jls_statistics_copy / _combine as pure functions of the operand VALUES
   (what the C does when tgt is distinct from a and b) ---- *)
Definition stats_copy (src : stats) : stats :=
  mkStats (st_k src) (st_mean src) (st_s src) (st_min src) (st_max src).

Definition stats_combine (a b : stats) : stats :=
  let kt := ((st_k a + st_k b) mod stats_two64)%N in
  if (kt =? 0)%N then stats_reset
  else if (st_k a =? 0)%N then stats_copy b
  else if (st_k b =? 0)%N then stats_copy a
  else
    let f1 := qr_div (q_of_N (st_k a)) (q_of_N kt) in
    let mean_new := qr_add (qr_mul f1 (st_mean a)) (qr_mul (qr_sub 1 f1) (st_mean b)) in
    let m1_diff := qr_sub (st_mean a) mean_new in
    let m2_diff := qr_sub (st_mean b) mean_new in
    let s_new := qr_add (qr_add (st_s a) (qr_mul (qr_mul (q_of_N (st_k a)) m1_diff) m1_diff))
                      (qr_add (st_s b) (qr_mul (qr_mul (q_of_N (st_k b)) m2_diff) m2_diff)) in
    mkStats kt mean_new s_new
            (if qr_lt (st_min a) (st_min b) then st_min a else st_min b)
            (if qr_lt (st_max b) (st_max a) then st_max a else st_max b).

(* ---- the same two functions on a store of structs addressed by pointers, one
   field access per C expression, in the C's statement order.  Pointers are N;
   tgt, a, b may coincide in any way. ---- *)
Definition sstore := N -> stats.

Definition sstore_upd (st : sstore) (p : N) (v : stats) : sstore :=
  fun q => if (q =? p)%N then v else st q.
Definition sstore_set_k (st : sstore) (p : N) (v : N) : sstore :=
  sstore_upd st p (mkStats v (st_mean (st p)) (st_s (st p)) (st_min (st p)) (st_max (st p))).
Definition sstore_set_mean (st : sstore) (p : N) (v : Q) : sstore :=
  sstore_upd st p (mkStats (st_k (st p)) v (st_s (st p)) (st_min (st p)) (st_max (st p))).
Definition sstore_set_s (st : sstore) (p : N) (v : Q) : sstore :=
  sstore_upd st p (mkStats (st_k (st p)) (st_mean (st p)) v (st_min (st p)) (st_max (st p))).
Definition sstore_set_min (st : sstore) (p : N) (v : Q) : sstore :=
  sstore_upd st p (mkStats (st_k (st p)) (st_mean (st p)) (st_s (st p)) v (st_max (st p))).
Definition sstore_set_max (st : sstore) (p : N) (v : Q) : sstore :=
  sstore_upd st p (mkStats (st_k (st p)) (st_mean (st p)) (st_s (st p)) (st_min (st p)) v).

Definition stats_reset_store (st : sstore) (p : N) : sstore :=
  let st := sstore_set_k st p 0%N in
  let st := sstore_set_mean st p 0 in
  let st := sstore_set_s st p 0 in
  let st := sstore_set_min st p dbl_max in
  sstore_set_max st p (- dbl_max).

(* tgt->k = src->k; tgt->mean = src->mean; ... each read happens after the
   preceding writes *)
Definition stats_copy_store (st : sstore) (tgt src : N) : sstore :=
  let st := sstore_set_k st tgt (st_k (st src)) in
  let st := sstore_set_mean st tgt (st_mean (st src)) in
  let st := sstore_set_s st tgt (st_s (st src)) in
  let st := sstore_set_min st tgt (st_min (st src)) in
  sstore_set_max st tgt (st_max (st src)).

Definition stats_combine_store (st : sstore) (tgt a b : N) : sstore :=
  let kt := ((st_k (st a) + st_k (st b)) mod stats_two64)%N in
  if (kt =? 0)%N then stats_reset_store st tgt
  else if (st_k (st a) =? 0)%N then stats_copy_store st tgt b
  else if (st_k (st b) =? 0)%N then stats_copy_store st tgt a
  else
    let f1 := qr_div (q_of_N (st_k (st a))) (q_of_N kt) in
    let mean_new := qr_add (qr_mul f1 (st_mean (st a))) (qr_mul (qr_sub 1 f1) (st_mean (st b))) in
    let m1_diff := qr_sub (st_mean (st a)) mean_new in
    let m2_diff := qr_sub (st_mean (st b)) mean_new in
    (* tgt->s = (a->s + a->k * m1_diff * m1_diff) + (b->s + b->k * m2_diff * m2_diff); *)
    let st1 := sstore_set_s st tgt
                 (qr_add (qr_add (st_s (st a)) (qr_mul (qr_mul (q_of_N (st_k (st a))) m1_diff) m1_diff))
                       (qr_add (st_s (st b)) (qr_mul (qr_mul (q_of_N (st_k (st b))) m2_diff) m2_diff))) in
    (* tgt->mean = mean_new; *)
    let st2 := sstore_set_mean st1 tgt mean_new in
    (* tgt->min = (a->min < b->min) ? a->min : b->min;   read from the CURRENT store *)
    let st3 := sstore_set_min st2 tgt
                 (if qr_lt (st_min (st2 a)) (st_min (st2 b)) then st_min (st2 a) else st_min (st2 b)) in
    (* tgt->max = (a->max > b->max) ? a->max : b->max; *)
    let st4 := sstore_set_max st3 tgt
                 (if qr_lt (st_max (st3 b)) (st_max (st3 a)) then st_max (st3 a) else st_max (st3 b)) in
    (* tgt->k = kt; *)
    sstore_set_k st4 tgt kt.

(* ---- the exact statistics of a sample list (the specification) ---- *)
Definition qsum (xs : list Q) : Q := fold_right Qplus 0 xs.
Definition qlen (xs : list Q) : Q := inject_Z (Z.of_nat (length xs)).
Definition mean_of (xs : list Q) : Q := qsum xs / qlen xs.
Definition ssq_of (xs : list Q) : Q :=
  qsum (map (fun x => (x - mean_of xs) * (x - mean_of xs)) xs).
(* true minimum / maximum of a non-empty list; the reset sentinels for [] *)
Definition min_of (xs : list Q) : Q :=
  match xs with [] => dbl_max | x :: r => fold_left Qmin r x end.
Definition max_of (xs : list Q) : Q :=
  match xs with [] => - dbl_max | x :: r => fold_left Qmax r x end.
Definition stats_of (xs : list Q) : stats :=
  mkStats (N.of_nat (length xs)) (mean_of xs) (ssq_of xs) (min_of xs) (max_of xs).

(* equality of accumulators: count identical, the rational fields equal as rationals *)
Definition stats_eq (a b : stats) : Prop :=
  st_k a = st_k b /\ st_mean a == st_mean b /\ st_s a == st_s b /\
  st_min a == st_min b /\ st_max a == st_max b.

(* any grouping: a binary tree whose leaves are runs of samples *)
Inductive grouping : Set :=
| GLeaf (xs : list Q)
| GNode (l r : grouping).
Fixpoint grouping_flatten (g : grouping) : list Q :=
  match g with GLeaf xs => xs | GNode l r => grouping_flatten l ++ grouping_flatten r end.
Fixpoint eval_grouping (g : grouping) : stats :=
  match g with
  | GLeaf xs => stats_compute_f64 xs
  | GNode l r => stats_combine (eval_grouping l) (eval_grouping r)
  end.

(* |x| <= DBL_MAX for every sample (true of every finite double) *)
Definition stats_in_range (bound : Q) (xs : list Q) : Prop :=
  Forall (fun x => - bound <= x /\ x <= bound) xs.
