(* Proofs about PyramidModel.v: the writer builds a pyramid whose geometry is exactly
   what the reader's seek arithmetic assumes.  Structure:
     1. lists / arrays indexed by level, arithmetic of the definition parameters, step sizes
     2. primitive writer operations (field by field)
     3. per-level invariants (LvlDisk: chunks of a level on disk; PendExact / PendRelax:
        the pending buffers) and their frame lemmas
     4. the flush cascade (run phase), a block, the close cascade
     5. the final structure (Fin) and the reader: seek, length, rd_fsr_data0, cache
   No axioms. *)
From Coq Require Import ZArith List Bool Arith Lia.
From Coq Require Import ZifyBool ZifyNat.
From JLS Require Import Generated PyramidModel.
Import ListNotations.
Local Open Scope Z_scope.

(* ------------------------------------------------------------------ 1. lists *)
Lemma py_nth_upd_eq : forall A (dflt : A) n x l, nth n (py_upd dflt n x l) dflt = x.
Proof.
  intros A dflt n; induction n as [|n IH]; intros x l; destruct l; cbn; auto.
Qed.

Lemma nth_nil_dflt : forall A (dflt : A) m, nth m (@nil A) dflt = dflt.
Proof. intros; destruct m; reflexivity. Qed.

Lemma py_nth_upd_neq : forall A (dflt : A) n m x l, n <> m -> nth m (py_upd dflt n x l) dflt = nth m l dflt.
Proof.
  intros A dflt n; induction n as [|n IH]; intros m x l Hne.
  - destruct m as [|m]; [congruence|]. destruct l; cbn; auto. destruct m; reflexivity.
  - destruct m as [|m].
    + destruct l; cbn; auto.
    + destruct l as [|h t]; cbn [py_upd nth].
      * rewrite IH by congruence. rewrite nth_nil_dflt. destruct m; reflexivity.
      * apply IH. congruence.
Qed.

Lemma nth_error_snoc_last : forall A (l : list A) x, nth_error (l ++ [x]) (length l) = Some x.
Proof. intros. rewrite nth_error_app2 by lia. rewrite Nat.sub_diag. reflexivity. Qed.

Lemma nth_error_In' : forall A (l : list A) n x, nth_error l n = Some x -> In x l.
Proof. intros; eapply nth_error_In; eauto. Qed.

Lemma nth_error_lt : forall A (l : list A) n x, nth_error l n = Some x -> (n < length l)%nat.
Proof. intros. apply nth_error_Some. congruence. Qed.

Lemma nth_error_nth' : forall A (l : list A) n x d, nth_error l n = Some x -> nth n l d = x.
Proof. intros. eapply nth_error_nth; eauto. Qed.

Lemma nth_error_ex : forall A (l : list A) n, (n < length l)%nat -> exists x, nth_error l n = Some x.
Proof. intros. destruct (nth_error l n) eqn:E; eauto. apply nth_error_None in E. lia. Qed.

Lemma NoDup_snoc : forall A (l : list A) x, NoDup l -> ~ In x l -> NoDup (l ++ [x]).
Proof.
  intros A l x Hnd Hni. induction l as [|a l IH]; cbn.
  - constructor; [intros []|constructor].
  - inversion Hnd; subst. constructor.
    + intro Hin. apply in_app_or in Hin. destruct Hin as [Hin|[Hin|[]]]; auto. subst. apply Hni. left; auto.
    + apply IH; auto. intro; apply Hni; right; auto.
Qed.

(* position of an element of a concatenation of blocks of equal length *)
Lemma nth_error_concat_full : forall A (ls : list (list A)) (c j k : nat) l,
  (forall i l', (i < j)%nat -> nth_error ls i = Some l' -> length l' = c) ->
  nth_error ls j = Some l -> (k < length l)%nat ->
  nth_error (concat ls) (j * c + k) = nth_error l k.
Proof.
  intros A ls c j. revert ls. induction j as [|j IH]; intros ls k l Hfull Hj Hk.
  - destruct ls as [|a ls]; cbn in Hj; [discriminate|]. injection Hj as ->. cbn. rewrite nth_error_app1; auto.
  - destruct ls as [|a ls]; cbn in Hj; [discriminate|].
    assert (Ha : length a = c) by (apply (Hfull 0%nat); [lia|reflexivity]).
    cbn [concat]. rewrite nth_error_app2 by (rewrite Ha; nia).
    replace (S j * c + k - length a)%nat with (j * c + k)%nat by (rewrite Ha; nia).
    apply IH; auto. intros i l' Hi Hl'. apply (Hfull (S i)); [lia|exact Hl'].
Qed.

Lemma length_concat_full : forall A (ls : list (list A)) (c : nat),
  (forall l, In l ls -> length l = c) -> length (concat ls) = (length ls * c)%nat.
Proof.
  intros A ls c H. induction ls as [|a ls IH]; cbn; auto.
  rewrite app_length, IH by (intros; apply H; right; auto). rewrite (H a) by (left; auto). lia.
Qed.

(* ------------------------------------------------------------------ arithmetic of a consistent definition *)
Definition py_q (d : py_def) : Z := py_eps d / py_sumdf d.       (* level >= 2: entries contributed by a full child chunk *)

Lemma py_cons_facts : forall d, py_consistent d ->
  0 < py_sdf d /\ 0 < py_epd d /\ py_spd d = py_sdf d * py_epd d /\
  0 < py_cap d 1 /\ py_eps d = py_epd d * py_cap d 1 /\
  0 < py_sumdf d /\ 0 < py_q d /\ py_eps d = py_sumdf d * py_q d /\ 0 < py_eps d /\ 0 < py_spd d /\
  py_eps d * py_sdf d < 2 ^ 32.
Proof.
  intros d (Hsdf & Hspd & Heps & Hsum & M1 & M2 & M3 & Hb).
  unfold py_epd, py_q, py_cap.
  assert (E1 : py_spd d = py_sdf d * (py_spd d / py_sdf d)).
  { rewrite (Z.div_mod (py_spd d) (py_sdf d)) at 1 by lia. lia. }
  assert (P1 : 0 < py_spd d / py_sdf d).
  { destruct (Z.eq_dec (py_spd d / py_sdf d) 0) as [e|ne]; [rewrite e in E1; lia|].
    pose proof (Z.div_pos (py_spd d) (py_sdf d)); lia. }
  assert (E2 : py_eps d = (py_spd d / py_sdf d) * (py_eps d / (py_spd d / py_sdf d))).
  { rewrite (Z.div_mod (py_eps d) (py_spd d / py_sdf d)) at 1 by lia. lia. }
  assert (P2 : 0 < py_eps d / (py_spd d / py_sdf d)).
  { destruct (Z.eq_dec (py_eps d / (py_spd d / py_sdf d)) 0) as [e|ne]; [rewrite e in E2; lia|].
    pose proof (Z.div_pos (py_eps d) (py_spd d / py_sdf d)); lia. }
  assert (E3 : py_eps d = py_sumdf d * (py_eps d / py_sumdf d)).
  { rewrite (Z.div_mod (py_eps d) (py_sumdf d)) at 1 by lia. lia. }
  assert (P3 : 0 < py_eps d / py_sumdf d).
  { destruct (Z.eq_dec (py_eps d / py_sumdf d) 0) as [e|ne]; [rewrite e in E3; lia|].
    pose proof (Z.div_pos (py_eps d) (py_sumdf d)); lia. }
  repeat split; auto.
Qed.

Lemma py_cap_pos : forall d L, py_consistent d -> 0 < py_cap d L.
Proof.
  intros d L H. destruct (py_cons_facts d H) as (_ & _ & _ & H1 & _ & H2 & _).
  destruct L as [|[|L]]; cbn [py_cap]; auto.
Qed.

Lemma py_cap_ge2 : forall d L, (2 <= L)%nat -> py_cap d L = py_sumdf d.
Proof. intros d L H. destruct L as [|[|L]]; try lia. reflexivity. Qed.

(* entries a full child contributes to level L *)
Definition py_epc (d : py_def) (L : nat) : Z := match L with 1%nat => py_epd d | _ => py_q d end.

Lemma py_epc_pos : forall d L, py_consistent d -> 0 < py_epc d L.
Proof.
  intros d L H. destruct (py_cons_facts d H) as (_ & H1 & _ & _ & _ & _ & H2 & _).
  destruct L as [|[|L]]; cbn [py_epc]; auto.
Qed.

Lemma py_eps_cap_epc : forall d L, py_consistent d -> (1 <= L)%nat -> py_eps d = py_cap d L * py_epc d L.
Proof.
  intros d L H HL. destruct (py_cons_facts d H) as (_ & _ & _ & _ & H1 & _ & _ & H2 & _).
  destruct L as [|[|L]]; cbn [py_cap py_epc]; [lia | rewrite Z.mul_comm; exact H1 | exact H2].
Qed.

(* ---- step sizes: the reader's formula satisfies the recurrence of the writer's fan-out ---- *)
Lemma py_mul_loop_mul : forall n m acc, py_mul_loop n m acc = acc * m ^ Z.of_nat n.
Proof.
  induction n as [|n IH]; intros m acc.
  - cbn. lia.
  - cbn [py_mul_loop]. rewrite IH. rewrite Nat2Z.inj_succ, Z.pow_succ_r by lia. ring.
Qed.

Lemma py_step_1 : forall d, py_step d 1 = py_spd d.
Proof. reflexivity. Qed.

Lemma py_step_succ : forall d L, (1 <= L)%nat -> py_step d (S L) = py_step d L * py_cap d L.
Proof.
  intros d L HL. unfold py_step. rewrite !py_mul_loop_mul.
  destruct L as [|[|L]]; [lia| |].
  - cbn. unfold py_epd. ring.
  - replace (S (S (S L)) - 2)%nat with (S L) by lia. replace (S (S L) - 2)%nat with L by lia.
    cbn [Nat.ltb Nat.leb py_cap]. rewrite Nat2Z.inj_succ, Z.pow_succ_r by lia. ring.
Qed.

Lemma py_step_pos : forall d L, py_consistent d -> (1 <= L)%nat -> 0 < py_step d L.
Proof.
  intros d L H HL. induction L as [|L IH]; [lia|].
  destruct L as [|L].
  - rewrite py_step_1. destruct H as (_ & H & _); auto.
  - rewrite py_step_succ by lia. apply Z.mul_pos_pos; [apply IH; lia | apply py_cap_pos; auto].
Qed.

(* samples covered by one full index chunk of level L *)
Definition py_span (d : py_def) (L : nat) : Z := py_step d (S L).
Lemma py_span_eq : forall d L, (1 <= L)%nat -> py_span d L = py_cap d L * py_step d L.
Proof. intros. unfold py_span. rewrite py_step_succ by auto. ring. Qed.
Lemma py_span_succ : forall d L, (1 <= L)%nat -> py_span d (S L) = py_cap d (S L) * py_span d L.
Proof. intros. unfold py_span. rewrite (py_step_succ d (S L)) by lia. ring. Qed.
Lemma py_span_pos : forall d L, py_consistent d -> (1 <= L)%nat -> 0 < py_span d L.
Proof. intros. unfold py_span. apply py_step_pos; auto. Qed.

(* ------------------------------------------------------------------ 2. primitive writer operations *)
Lemma py_kind_eqb_eq : forall a b, py_kind_eqb a b = true <-> a = b.
Proof.
  intros a b; destruct a, b; cbn; split; intro H; try discriminate; try reflexivity;
    try (apply Nat.eqb_eq in H; subst; reflexivity); try (injection H as ->; apply Nat.eqb_refl).
Qed.

Lemma py_kind_eqb_refl : forall a, py_kind_eqb a a = true.
Proof. intros; apply py_kind_eqb_eq; reflexivity. Qed.

Definition idxs (disk : list py_chunk) (L : nat) : list py_chunk :=
  filter (fun c => py_kind_eqb (pc_kind c) (PyIndex L)) disk.
Definition ents (disk : list py_chunk) (L : nat) : list Z := concat (map pc_entries (idxs disk L)).

Lemma idxs_app : forall a b L, idxs (a ++ b) L = idxs a L ++ idxs b L.
Proof. intros; unfold idxs; apply filter_app. Qed.

Lemma ents_app : forall a b L, ents (a ++ b) L = ents a L ++ ents b L.
Proof. intros; unfold ents. rewrite idxs_app, map_app, concat_app. reflexivity. Qed.

Lemma idxs_In : forall disk L c, In c (idxs disk L) <-> In c disk /\ pc_kind c = PyIndex L.
Proof. intros; unfold idxs. rewrite filter_In, py_kind_eqb_eq. tauto. Qed.

Lemma idxs_none : forall new L, (forall c, In c new -> pc_kind c <> PyIndex L) -> idxs new L = [].
Proof.
  intros new L H. unfold idxs. induction new as [|a r IH]; cbn; auto.
  destruct (py_kind_eqb (pc_kind a) (PyIndex L)) eqn:E.
  - apply py_kind_eqb_eq in E. exfalso. apply (H a); [left; auto|exact E].
  - apply IH. intros; apply H; right; auto.
Qed.

Lemma idxs_app_none : forall disk new L, (forall c, In c new -> pc_kind c <> PyIndex L) -> idxs (disk ++ new) L = idxs disk L.
Proof. intros. rewrite idxs_app, (idxs_none new) by auto. apply app_nil_r. Qed.

Lemma ents_app_none : forall disk new L, (forall c, In c new -> pc_kind c <> PyIndex L) -> ents (disk ++ new) L = ents disk L.
Proof. intros. unfold ents. rewrite idxs_app_none by auto. reflexivity. Qed.

(* accessors through the state transformers *)
Lemma lvl_get_set_eq : forall st L v, py_lvl_get (py_lvl_set st L v) L = v.
Proof. intros; unfold py_lvl_get, py_lvl_set; cbn. apply py_nth_upd_eq. Qed.
Lemma lvl_get_set_neq : forall st L M v, L <> M -> py_lvl_get (py_lvl_set st L v) M = py_lvl_get st M.
Proof. intros; unfold py_lvl_get, py_lvl_set; cbn. apply py_nth_upd_neq; auto. Qed.

Lemma head_get_set_head : forall st L off M,
  py_head_get (py_set_head st L off) M =
  if (Nat.eqb M L) && (py_head_get st L =? 0) then off else py_head_get st M.
Proof.
  intros. unfold py_set_head. destruct (py_head_get st L =? 0) eqn:E; rewrite ?andb_false_r; auto.
  unfold py_head_get at 1; cbn [pw_heads]. destruct (Nat.eqb M L) eqn:EM; cbn [andb].
  - apply Nat.eqb_eq in EM; subst. apply py_nth_upd_eq.
  - apply Nat.eqb_neq in EM. apply py_nth_upd_neq; auto.
Qed.

Lemma set_head_fields : forall st L off,
  pw_disk (py_set_head st L off) = pw_disk st /\ pw_pos (py_set_head st L off) = pw_pos st /\
  pw_lvls (py_set_head st L off) = pw_lvls st /\ pw_dts (py_set_head st L off) = pw_dts st /\
  pw_dhead (py_set_head st L off) = pw_dhead st.
Proof. intros. unfold py_set_head. destruct (py_head_get st L =? 0); cbn; auto. Qed.

Definition mk_chunk (off : Z) (k : py_kind) (ts cnt : Z) (ent : list Z) : py_chunk :=
  {| pc_off := off; pc_kind := k; pc_ts := ts; pc_count := cnt; pc_entries := ent |}.

(* wr_index + wr_summary chunk writes of a level with a non-empty index *)
Lemma wr_chunks_spec : forall L st,
  pl_idx (py_lvl_get st L) <> [] ->
  exists st2, py_wr_chunks L st = (st2, pw_pos st) /\
    pw_disk st2 = pw_disk st ++
       [mk_chunk (pw_pos st) (PyIndex L) (pl_its (py_lvl_get st L)) (Z.of_nat (length (pl_idx (py_lvl_get st L)))) (pl_idx (py_lvl_get st L));
        mk_chunk (pw_pos st + 1) (PySummary L) (pl_sts (py_lvl_get st L)) (pl_sum (py_lvl_get st L)) []] /\
    pw_pos st2 = pw_pos st + 2 /\ pw_lvls st2 = pw_lvls st /\
    pw_dts st2 = pw_dts st /\ pw_dhead st2 = pw_dhead st /\
    (forall M, py_head_get st2 M = if (Nat.eqb M L) && (py_head_get st L =? 0) then pw_pos st else py_head_get st M).
Proof.
  intros L st Hne. unfold py_wr_chunks.
  destruct (pl_idx (py_lvl_get st L)) as [|e es] eqn:E; [congruence|].
  eexists; split; [reflexivity|].
  set (em := py_emit st (PyIndex L) (pl_its (py_lvl_get st L)) (Z.of_nat (length (e :: es))) (e :: es)).
  destruct (set_head_fields em L (pw_pos st)) as (F1 & F2 & F3 & F4 & F5).
  cbn [py_emit pw_disk pw_pos pw_lvls pw_heads pw_dts pw_dhead].
  rewrite F1, F2, F3, F4, F5. subst em. cbn [py_emit pw_disk pw_pos pw_lvls pw_heads pw_dts pw_dhead].
  repeat split.
  - rewrite <- app_assoc. reflexivity.
  - lia.
  - intro M.
    exact (head_get_set_head (py_emit st (PyIndex L) (pl_its (py_lvl_get st L)) (Z.of_nat (length (e :: es))) (e :: es)) L (pw_pos st) M).
Qed.

Definition appended (lv : py_lvl) (pos add its sts : Z) : py_lvl :=
  {| pl_idx := pl_idx lv ++ [pos]; pl_sum := pl_sum lv + add;
     pl_its := if py_nilb (pl_idx lv) then its else pl_its lv;
     pl_sts := if py_nilb (pl_idx lv) then sts else pl_sts lv |}.

Lemma append_inv : forall d M pos add its sts st st',
  py_append d M pos add its sts st = PyOk st' ->
  Z.of_nat (length (pl_idx (py_lvl_get st M))) < py_cap d M /\
  pl_sum (py_lvl_get st M) + add <= py_eps d /\
  st' = py_lvl_set st M (appended (py_lvl_get st M) pos add its sts).
Proof.
  intros d M pos add its sts st st' H. unfold py_append in H.
  destruct (py_cap d M <=? Z.of_nat (length (pl_idx (py_lvl_get st M)))) eqn:E1; [discriminate|].
  destruct (py_eps d <? pl_sum (py_lvl_get st M) + add) eqn:E2; [discriminate|].
  injection H as <-. repeat split; try lia.
Qed.

Lemma lvl_set_fields : forall st L v,
  pw_disk (py_lvl_set st L v) = pw_disk st /\ pw_pos (py_lvl_set st L v) = pw_pos st /\
  pw_heads (py_lvl_set st L v) = pw_heads st /\ pw_dts (py_lvl_set st L v) = pw_dts st /\
  pw_dhead (py_lvl_set st L v) = pw_dhead st.
Proof. intros; cbn; auto. Qed.

Lemma head_get_lvl_set : forall st L v M, py_head_get (py_lvl_set st L v) M = py_head_get st M.
Proof. reflexivity. Qed.

(* ------------------------------------------------------------------ 3. invariants *)
Section Pyr.
Variable d : py_def.
Variable t0 : Z.
Hypothesis Hcons : py_consistent d.

(* blks: the blocks handed to wr_data so far: (sample count, effectively omitted) *)
Definition src_ok (L : nat) (disk : list py_chunk) (blks : list (Z * bool)) (E : list Z) : Prop :=
  match L with
  | 1%nat => length E = length blks /\
      forall i o n om, nth_error E i = Some o -> nth_error blks i = Some (n, om) ->
        if (om : bool) then o = 0
        else exists c, In c disk /\ pc_off c = o /\ pc_kind c = PyData /\
                       pc_ts c = t0 + Z.of_nat i * py_spd d /\ pc_count c = n
  | _ => E = map pc_off (idxs disk (pred L))
  end.

Definition chunk_ok (L : nat) (disk : list py_chunk) (blks : list (Z * bool)) (m j : nat) (c : py_chunk) : Prop :=
  pc_ts c = t0 + Z.of_nat j * py_span d L /\
  pc_count c = Z.of_nat (length (pc_entries c)) /\
  1 <= pc_count c <= py_cap d L /\
  ((S j < m)%nat -> pc_count c = py_cap d L) /\
  exists i s, nth_error disk i = Some c /\ nth_error disk (S i) = Some s /\
     pc_kind s = PySummary L /\ pc_ts s = pc_ts c /\
     (L = 1%nat -> exists n om,
        nth_error blks (j * Z.to_nat (py_cap d 1) + Z.to_nat (pc_count c) - 1) = Some (n, om) /\
        pc_count s = py_epd d * (pc_count c - 1) + n / py_sdf d).

Definition LvlDisk (L : nat) (disk : list py_chunk) (blks : list (Z * bool)) (hd : Z) (P : list Z) : Prop :=
  (forall j c, nth_error (idxs disk L) j = Some c -> chunk_ok L disk blks (length (idxs disk L)) j c) /\
  src_ok L disk blks (ents disk L ++ P) /\
  hd = match idxs disk L with [] => 0 | c :: _ => pc_off c end.

Definition AllFull (L : nat) (disk : list py_chunk) : Prop :=
  forall c, In c (idxs disk L) -> pc_count c = py_cap d L.

Definition PendExact (L : nat) (disk : list py_chunk) (lv : py_lvl) : Prop :=
  Z.of_nat (length (pl_idx lv)) < py_cap d L /\
  pl_sum lv = Z.of_nat (length (pl_idx lv)) * py_epc d L /\
  (pl_idx lv <> [] -> pl_its lv = t0 + Z.of_nat (length (idxs disk L)) * py_span d L /\ pl_sts lv = pl_its lv).

Lemma AllFull_len_ents : forall L disk,
  (forall j c, nth_error (idxs disk L) j = Some c -> pc_count c = Z.of_nat (length (pc_entries c))) ->
  AllFull L disk -> length (ents disk L) = (length (idxs disk L) * Z.to_nat (py_cap d L))%nat.
Proof.
  intros L disk Hc Hf. unfold ents. rewrite (length_concat_full _ _ (Z.to_nat (py_cap d L))).
  - rewrite map_length. reflexivity.
  - intros l Hl. apply in_map_iff in Hl. destruct Hl as (c & <- & Hin).
    destruct (In_nth_error _ _ Hin) as (j0 & Hj). pose proof (Hc j0 c Hj). pose proof (Hf c Hin). lia.
Qed.

(* frame: chunks appended that are neither level-L nor level-(L-1) indices (nor data for L = 1) *)
Lemma src_ok_frame : forall L disk new blks E,
  src_ok L disk blks E -> (forall c, In c new -> pc_kind c <> PyIndex (pred L)) -> src_ok L (disk ++ new) blks E.
Proof.
  intros L disk new blks E H Hn. destruct L as [|[|L]]; cbn [src_ok pred] in *.
  - rewrite idxs_app_none; auto.
  - destruct H as (Hl & H). split; auto. intros i o n om Ho Hb. specialize (H i o n om Ho Hb).
    destruct om; auto. destruct H as (c & Hin & Hr). exists c. split; auto. apply in_or_app; auto.
  - rewrite idxs_app_none; auto.
Qed.

Lemma chunk_ok_frame : forall L disk new blks m j c,
  chunk_ok L disk blks m j c -> chunk_ok L (disk ++ new) blks m j c.
Proof.
  intros L disk new blks m j c (H1 & H2 & H3 & H4 & i & s & Hi & Hs & Hr). repeat split; auto; try tauto.
  exists i, s. rewrite !nth_error_app1 by (eapply nth_error_lt; eauto). auto.
Qed.

Lemma LvlDisk_frame : forall L disk new blks hd P,
  LvlDisk L disk blks hd P ->
  (forall c, In c new -> pc_kind c <> PyIndex L /\ pc_kind c <> PyIndex (pred L)) ->
  LvlDisk L (disk ++ new) blks hd P.
Proof.
  intros L disk new blks hd P (H1 & H2 & H3) Hn.
  assert (Hi : idxs (disk ++ new) L = idxs disk L) by (apply idxs_app_none; intros; apply Hn; auto).
  unfold LvlDisk. rewrite Hi. unfold ents. rewrite Hi. fold (ents disk L). split; [|split]; auto.
  - intros j c Hj. apply chunk_ok_frame; auto.
  - apply src_ok_frame; auto. intros; apply Hn; auto.
Qed.

Lemma AllFull_frame : forall L disk new,
  AllFull L disk -> (forall c, In c new -> pc_kind c <> PyIndex L) -> AllFull L (disk ++ new).
Proof. intros L disk new H Hn. unfold AllFull. rewrite idxs_app_none; auto. Qed.

Lemma PendExact_frame : forall L disk new lv,
  PendExact L disk lv -> (forall c, In c new -> pc_kind c <> PyIndex L) -> PendExact L (disk ++ new) lv.
Proof. intros L disk new lv H Hn. unfold PendExact. rewrite idxs_app_none; auto. Qed.


(* T1: the pending index of level L goes to disk (INDEX then SUMMARY appended) *)
Lemma LvlDisk_write : forall L disk blks hd P pos its sts sm,
  (1 <= L)%nat -> (forall c, In c disk -> 0 < pc_off c) ->
  LvlDisk L disk blks hd P -> AllFull L disk ->
  P <> [] -> Z.of_nat (length P) <= py_cap d L ->
  its = t0 + Z.of_nat (length (idxs disk L)) * py_span d L -> sts = its ->
  (L = 1%nat -> exists n om,
      nth_error blks (length (idxs disk L) * Z.to_nat (py_cap d 1) + length P - 1) = Some (n, om) /\
      sm = py_epd d * (Z.of_nat (length P) - 1) + n / py_sdf d) ->
  let I := mk_chunk pos (PyIndex L) its (Z.of_nat (length P)) P in
  let S := mk_chunk (pos + 1) (PySummary L) sts sm [] in
  LvlDisk L (disk ++ [I; S]) blks (if hd =? 0 then pos else hd) [] /\
  (Z.of_nat (length P) = py_cap d L -> AllFull L (disk ++ [I; S])) /\
  idxs (disk ++ [I; S]) L = idxs disk L ++ [I].
Proof.
  intros L disk blks hd P pos its sts sm HL Hnz (H1 & H2 & H3) Hfull HP Hlen Hits Hsts H1b I S.
  assert (Hidx : idxs (disk ++ [I; S]) L = idxs disk L ++ [I]).
  { rewrite idxs_app. f_equal. unfold idxs. cbn. rewrite Nat.eqb_refl. reflexivity. }
  assert (Hents : ents (disk ++ [I; S]) L = ents disk L ++ P).
  { unfold ents. rewrite Hidx, map_app, concat_app. cbn. rewrite app_nil_r. reflexivity. }
  split; [|split]; auto.
  - unfold LvlDisk. rewrite Hents, Hidx, app_nil_r. split; [|split].
    + intros j c Hj. rewrite app_length; cbn [length].
      destruct (Nat.lt_ge_cases j (length (idxs disk L))) as [Hlt|Hge].
      * rewrite nth_error_app1 in Hj by auto.
        destruct (H1 j c Hj) as (C1 & C2 & C3 & C4 & C5).
        split; [|split; [|split; [|split]]]; auto.
        -- intros _. apply Hfull. eapply nth_error_In; eauto.
        -- destruct C5 as (i & s & Hi & Hs & Hr). exists i, s.
           rewrite !nth_error_app1 by (eapply nth_error_lt; eauto). auto.
      * rewrite nth_error_app2 in Hj by auto.
        destruct (j - length (idxs disk L))%nat as [|x] eqn:Ex; cbn in Hj; [|destruct x; discriminate].
        injection Hj as <-. assert (j = length (idxs disk L)) by lia. subst j.
        assert (Hp1 : 1 <= Z.of_nat (length P)) by (destruct P; [congruence|cbn [length]; lia]).
        split; [|split; [|split; [|split]]]; cbn [I mk_chunk pc_ts pc_count pc_entries]; auto; try lia.
        exists (length disk), S. split; [|split; [|split; [|split]]].
        -- rewrite nth_error_app2 by lia. rewrite Nat.sub_diag. reflexivity.
        -- rewrite nth_error_app2 by lia. replace (Datatypes.S (length disk) - length disk)%nat with 1%nat by lia. reflexivity.
        -- reflexivity.
        -- cbn. auto.
        -- intro HL1. destruct (H1b HL1) as (n & om & Hn & Hsm). exists n, om. cbn [S mk_chunk pc_count].
           rewrite Nat2Z.id. split; auto.
    + eapply src_ok_frame in H2. exact H2. intros c [<-|[<-|[]]]; cbn; try discriminate.
      intro E. injection E as E. destruct L; cbn in E; lia.
    + rewrite H3. destruct (idxs disk L) as [|c0 r] eqn:E; cbn.
      * reflexivity.
      * destruct (pc_off c0 =? 0) eqn:E0; auto.
        assert (0 < pc_off c0); [|lia]. apply Hnz. apply (idxs_In disk L c0). rewrite E. left; auto.
  - intros Hc c Hin. rewrite Hidx in Hin. apply in_app_or in Hin. destruct Hin as [Hin|[<-|[]]].
    + apply Hfull; auto.
    + cbn. auto.
Qed.

(* T2: the level above receives the offset of the INDEX chunk just written *)
Lemma LvlDisk_feed : forall L disk blks hd P I S,
  (1 <= L)%nat -> pc_kind I = PyIndex L -> pc_kind S = PySummary L ->
  LvlDisk (Datatypes.S L) disk blks hd P ->
  LvlDisk (Datatypes.S L) (disk ++ [I; S]) blks hd (P ++ [pc_off I]) /\
  idxs (disk ++ [I; S]) (Datatypes.S L) = idxs disk (Datatypes.S L).
Proof.
  intros L disk blks hd P I S HL HI HS (H1 & H2 & H3).
  assert (Hidx : idxs (disk ++ [I; S]) (Datatypes.S L) = idxs disk (Datatypes.S L)).
  { apply idxs_app_none. intros c [<-|[<-|[]]]; rewrite ?HI, ?HS; try discriminate. intro E; injection E; lia. }
  split; auto. unfold LvlDisk. unfold ents. rewrite Hidx. fold (ents disk (Datatypes.S L)). split; [|split]; auto.
  - intros j c Hj. apply chunk_ok_frame; auto.
  - destruct L as [|L]; [lia|]. cbn [src_ok pred] in *. rewrite app_assoc, H2, idxs_app, map_app. f_equal.
    unfold idxs. cbn. rewrite HI, HS. cbn. rewrite Nat.eqb_refl. reflexivity.
Qed.

(* ------------------------------------------------------------------ 4. the flush cascade *)
Definition LvlRunC (L : nat) (disk : list py_chunk) (blks : list (Z * bool)) (hd : Z) (lv : py_lvl) : Prop :=
  LvlDisk L disk blks hd (pl_idx lv) /\ AllFull L disk /\ PendExact L disk lv.
Definition LvlRun (L : nat) (st : py_wr) (blks : list (Z * bool)) : Prop :=
  LvlRunC L (pw_disk st) blks (py_head_get st L) (py_lvl_get st L).

Lemma LvlRunC_frame : forall L disk new blks hd lv,
  LvlRunC L disk blks hd lv ->
  (forall c, In c new -> pc_kind c <> PyIndex L /\ pc_kind c <> PyIndex (pred L)) ->
  LvlRunC L (disk ++ new) blks hd lv.
Proof.
  intros L disk new blks hd lv (H1 & H2 & H3) Hn. split; [|split].
  - apply LvlDisk_frame; auto.
  - apply AllFull_frame; auto. intros; apply Hn; auto.
  - apply PendExact_frame; auto. intros; apply Hn; auto.
Qed.

Definition OffsOK (st : py_wr) : Prop :=
  0 < pw_pos st /\ (forall c, In c (pw_disk st) -> 0 < pc_off c < pw_pos st) /\ NoDup (map pc_off (pw_disk st)).

Definition Frame (L : nat) (st st' : py_wr) : Prop :=
  exists new, pw_disk st' = pw_disk st ++ new /\
    (forall c, In c new -> (L <= py_chunk_level c <= 14)%nat /\ pc_kind c <> PyData) /\
    (forall M, (M < L)%nat -> py_lvl_get st' M = py_lvl_get st M /\ py_head_get st' M = py_head_get st M) /\
    pw_dts st' = pw_dts st /\ pw_dhead st' = pw_dhead st.

Definition FullPre (L : nat) (st : py_wr) (blks : list (Z * bool)) : Prop :=
  LvlDisk L (pw_disk st) blks (py_head_get st L) (pl_idx (py_lvl_get st L)) /\ AllFull L (pw_disk st) /\
  Z.of_nat (length (pl_idx (py_lvl_get st L))) = py_cap d L /\ pl_sum (py_lvl_get st L) = py_eps d /\
  pl_its (py_lvl_get st L) = t0 + Z.of_nat (length (idxs (pw_disk st) L)) * py_span d L /\
  pl_sts (py_lvl_get st L) = pl_its (py_lvl_get st L) /\
  (L = 1%nat -> exists n om,
     nth_error blks (length (idxs (pw_disk st) L) * Z.to_nat (py_cap d 1) + length (pl_idx (py_lvl_get st L)) - 1) = Some (n, om) /\
     py_eps d = py_epd d * (py_cap d 1 - 1) + n / py_sdf d).

Lemma level_kind_ne : forall c L M, (M <= py_chunk_level c)%nat -> (L < M)%nat -> pc_kind c <> PyIndex L.
Proof. intros c L M H1 H2 E. unfold py_chunk_level in H1. rewrite E in H1. lia. Qed.

(* offsets after appending the two chunks of wr_summary *)
Lemma OffsOK_two : forall st st2 k1 ts1 c1 e1 k2 ts2 c2 e2,
  OffsOK st ->
  pw_disk st2 = pw_disk st ++ [mk_chunk (pw_pos st) k1 ts1 c1 e1; mk_chunk (pw_pos st + 1) k2 ts2 c2 e2] ->
  pw_pos st2 = pw_pos st + 2 -> OffsOK st2.
Proof.
  intros st st2 k1 ts1 c1 e1 k2 ts2 c2 e2 (Hp & Ho & Hnd) Hd Hpos. unfold OffsOK. rewrite Hd, Hpos. split; [lia|split].
  - intros c Hin. apply in_app_or in Hin. destruct Hin as [Hin|[<-|[<-|[]]]]; cbn; try lia.
    all: try (specialize (Ho c Hin); lia).
  - rewrite map_app. cbn [map mk_chunk pc_off].
    change [pw_pos st; pw_pos st + 1] with ([pw_pos st] ++ [pw_pos st + 1]). rewrite app_assoc.
    apply NoDup_snoc; [apply NoDup_snoc; auto|].
    + intro Hin. apply in_map_iff in Hin. destruct Hin as (c & Hc & Hin). specialize (Ho c Hin). lia.
    + intro Hin. apply in_app_or in Hin. destruct Hin as [Hin|[Hin|[]]]; [|lia].
      apply in_map_iff in Hin. destruct Hin as (c & Hc & Hin). specialize (Ho c Hin). lia.
Qed.

(* the timestamp a level inherits from the level below is the right one *)
Lemma inherit_ts : forall L disk blks hdS PS,
  (1 <= L)%nat ->
  LvlDisk (S L) disk blks hdS PS -> AllFull (S L) disk -> PS = [] ->
  t0 + Z.of_nat (length (idxs disk L)) * py_span d L = t0 + Z.of_nat (length (idxs disk (S L))) * py_span d (S L).
Proof.
  intros L disk blks hdS PS HL (H1 & H2 & H3) Hf ->.
  assert (Hlen : length (ents disk (S L)) = (length (idxs disk (S L)) * Z.to_nat (py_cap d (S L)))%nat).
  { apply AllFull_len_ents; auto. intros j c Hj. destruct (H1 j c Hj) as (_ & C & _). exact C. }
  destruct L as [|L]; [lia|]. cbn [src_ok pred] in H2. rewrite app_nil_r in H2.
  rewrite H2, map_length in Hlen. rewrite Hlen, (py_span_succ d (S L)) by lia.
  pose proof (py_cap_pos d (S (S L)) Hcons). rewrite Nat2Z.inj_mul. rewrite Z2Nat.id by lia. ring.
Qed.

(* one wr_summary body up to the flush test of the level above: INDEX + SUMMARY of level L
   written, level L+1 fed *)
Lemma write_feed_step : forall L st st2 st3 pos blks,
  (1 <= L)%nat -> OffsOK st ->
  LvlDisk L (pw_disk st) blks (py_head_get st L) (pl_idx (py_lvl_get st L)) -> AllFull L (pw_disk st) ->
  pl_idx (py_lvl_get st L) <> [] -> Z.of_nat (length (pl_idx (py_lvl_get st L))) <= py_cap d L ->
  pl_its (py_lvl_get st L) = t0 + Z.of_nat (length (idxs (pw_disk st) L)) * py_span d L ->
  pl_sts (py_lvl_get st L) = pl_its (py_lvl_get st L) ->
  (L = 1%nat -> exists n om,
     nth_error blks (length (idxs (pw_disk st) L) * Z.to_nat (py_cap d 1) + length (pl_idx (py_lvl_get st L)) - 1) = Some (n, om) /\
     pl_sum (py_lvl_get st L) = py_epd d * (Z.of_nat (length (pl_idx (py_lvl_get st L))) - 1) + n / py_sdf d) ->
  LvlRun (S L) st blks ->
  py_wr_chunks L st = (st2, pos) -> py_feed d (S L) pos st2 = PyOk st3 ->
  let I := mk_chunk (pw_pos st) (PyIndex L) (pl_its (py_lvl_get st L)) (Z.of_nat (length (pl_idx (py_lvl_get st L)))) (pl_idx (py_lvl_get st L)) in
  let Sm := mk_chunk (pw_pos st + 1) (PySummary L) (pl_sts (py_lvl_get st L)) (pl_sum (py_lvl_get st L)) [] in
  pos = pw_pos st /\ pw_disk st3 = pw_disk st ++ [I; Sm] /\ OffsOK st3 /\
  LvlDisk L (pw_disk st3) blks (py_head_get st3 L) [] /\
  (Z.of_nat (length (pl_idx (py_lvl_get st L))) = py_cap d L -> AllFull L (pw_disk st3)) /\
  idxs (pw_disk st3) L = idxs (pw_disk st) L ++ [I] /\
  LvlDisk (S L) (pw_disk st3) blks (py_head_get st3 (S L)) (pl_idx (py_lvl_get st3 (S L))) /\
  AllFull (S L) (pw_disk st3) /\
  idxs (pw_disk st3) (S L) = idxs (pw_disk st) (S L) /\
  py_lvl_get st3 (S L) = appended (py_lvl_get st (S L)) pos (pl_sum (py_lvl_get st L) / py_sumdf d)
                            (pl_its (py_lvl_get st L)) (pl_sts (py_lvl_get st L)) /\
  (pl_its (py_lvl_get st3 (S L)) = t0 + Z.of_nat (length (idxs (pw_disk st3) (S L))) * py_span d (S L) /\
   pl_sts (py_lvl_get st3 (S L)) = pl_its (py_lvl_get st3 (S L))) /\
  (forall M, M <> S L -> py_lvl_get st3 M = py_lvl_get st M) /\
  (forall M, M <> L -> py_head_get st3 M = py_head_get st M) /\
  pw_dts st3 = pw_dts st /\ pw_dhead st3 = pw_dhead st /\
  (forall M, (S L < M)%nat -> LvlRun M st blks -> LvlRun M st3 blks).
Proof.
  intros L st st2 st3 pos blks HL Hoffs HLd HLf Hne Hlen Hits Hsts H1b (HS1 & HS2 & HS3) Hch Hfeed I Sm.
  destruct (wr_chunks_spec L st Hne) as (st2' & E & Hd2 & Hp2 & Hl2 & Hdts2 & Hdh2 & Hh2).
  rewrite Hch in E. injection E as <- ->.
  unfold py_feed in Hfeed. cbn [pred] in Hfeed.
  assert (Hg2 : forall M, py_lvl_get st2 M = py_lvl_get st M) by (intro M; unfold py_lvl_get; rewrite Hl2; reflexivity).
  rewrite Hg2 in Hfeed.
  apply append_inv in Hfeed. destruct Hfeed as (Hcap & Hsum & ->). rewrite Hg2 in *.
  destruct (lvl_set_fields st2 (S L) (appended (py_lvl_get st (S L)) (pw_pos st) (pl_sum (py_lvl_get st L) / py_sumdf d)
               (pl_its (py_lvl_get st L)) (pl_sts (py_lvl_get st L)))) as (F1 & F2 & F3 & F4 & F5).
  set (st3 := py_lvl_set st2 (S L) _) in *.
  assert (Hd3 : pw_disk st3 = pw_disk st ++ [I; Sm]) by (rewrite F1; exact Hd2).
  assert (Hh3 : forall M, py_head_get st3 M = py_head_get st2 M) by reflexivity.
  destruct Hoffs as (Hpos & Hoff & Hnd).
  destruct (LvlDisk_write L (pw_disk st) blks (py_head_get st L) (pl_idx (py_lvl_get st L)) (pw_pos st)
              (pl_its (py_lvl_get st L)) (pl_sts (py_lvl_get st L)) (pl_sum (py_lvl_get st L)) HL
              (fun c Hc => proj1 (Hoff c Hc)) HLd HLf Hne Hlen Hits Hsts H1b) as (W1 & W2 & W3).
  fold I in W1, W2, W3. fold Sm in W1, W2, W3.
  destruct (LvlDisk_feed L (pw_disk st) blks (py_head_get st (S L)) (pl_idx (py_lvl_get st (S L))) I Sm HL eq_refl eq_refl HS1) as (G1 & G2).
  assert (Hl3 : py_lvl_get st3 (S L) = appended (py_lvl_get st (S L)) (pw_pos st) (pl_sum (py_lvl_get st L) / py_sumdf d)
               (pl_its (py_lvl_get st L)) (pl_sts (py_lvl_get st L))) by (apply lvl_get_set_eq).
  assert (Hl3' : forall M, M <> S L -> py_lvl_get st3 M = py_lvl_get st M).
  { intros M HM. unfold st3. rewrite lvl_get_set_neq by congruence. apply Hg2. }
  split; [reflexivity|]. split; [exact Hd3|]. split.
  { eapply OffsOK_two; [split; [exact Hpos|split; [exact Hoff|exact Hnd]]| |].
    - rewrite Hd3. reflexivity.
    - rewrite F2. exact Hp2. }
  rewrite Hd3. split.
  { rewrite Hh3, Hh2, Nat.eqb_refl. cbn [andb]. exact W1. }
  split; [exact W2|]. split; [exact W3|]. split.
  { rewrite Hh3, Hh2. replace (Nat.eqb (S L) L) with false by (symmetry; apply Nat.eqb_neq; lia). cbn [andb].
    rewrite Hl3. cbn [appended pl_idx]. exact G1. }
  split.
  { apply AllFull_frame; auto. intros c [<-|[<-|[]]]; cbn; try discriminate. intro E; injection E; lia. }
  split; [exact G2|]. split; [exact Hl3|]. split.
  { rewrite Hl3. cbn [appended pl_its pl_sts]. rewrite G2.
    destruct (pl_idx (py_lvl_get st (S L))) as [|e es] eqn:EP; cbn [py_nilb].
    - split; [|exact Hsts]. rewrite Hits. eapply inherit_ts; eauto.
    - destruct HS3 as (_ & _ & T). rewrite EP in T. apply T. discriminate. }
  split; [exact Hl3'|]. split.
  { intros M HM. rewrite Hh3, Hh2. replace (Nat.eqb M L) with false by (symmetry; apply Nat.eqb_neq; lia). reflexivity. }
  split; [rewrite F4; exact Hdts2|]. split; [rewrite F5; exact Hdh2|].
  intros M HM HR. unfold LvlRun. rewrite Hd3, Hl3' by lia. rewrite Hh3, Hh2.
  replace (Nat.eqb M L) with false by (symmetry; apply Nat.eqb_neq; lia). cbn [andb].
  apply LvlRunC_frame; auto. intros c [<-|[<-|[]]]; cbn; split; try discriminate; intro E; injection E; lia.
Qed.

Lemma LvlRun_reset_other : forall L M st blks,
  L <> M -> LvlRun M st blks -> LvlRun M (py_lvl_set st L (py_lvl_reset (py_lvl_get st L))) blks.
Proof.
  intros L M st blks HLM H. unfold LvlRun in *. rewrite lvl_get_set_neq by auto. exact H.
Qed.

Lemma PendExact_reset : forall L disk lv, PendExact L disk (py_lvl_reset lv).
Proof.
  intros L disk lv. unfold PendExact, py_lvl_reset; cbn. pose proof (py_cap_pos d L Hcons).
  split; [lia|split; [lia|congruence]].
Qed.

Lemma wr_summary_unfold : forall f dd L st,
  py_wr_summary (S f) dd L st =
    if (pl_sum (py_lvl_get st L) =? 0) && (py_nilb (pl_idx (py_lvl_get st L)) || ((1 <? L)%nat && (py_head_get st L =? 0)))
    then PyOk st
    else
      let '(st2, pos_next) := py_wr_chunks L st in
      match f with
      | O => PyErr (PE_Fault PF_LevelOOB)
      | S _ =>
        py_bind (py_feed dd (S L) pos_next st2) (fun st3 =>
        py_bind (if py_eps dd <=? pl_sum (py_lvl_get st3 (S L))
                 then py_wr_summary f dd (S L) st3 else PyOk st3) (fun st4 =>
        PyOk (py_lvl_set st4 L (py_lvl_reset (py_lvl_get st4 L)))))
      end.
Proof. reflexivity. Qed.

(* the run-phase cascade: level L is exactly full; everything above is in its normal state *)
Lemma flush_run : forall f L st st' blks,
  (L + S f = 16)%nat -> (1 <= L)%nat -> OffsOK st ->
  FullPre L st blks -> (forall M, (L < M)%nat -> LvlRun M st blks) ->
  py_wr_summary (S f) d L st = PyOk st' ->
  (forall M, (L <= M)%nat -> LvlRun M st' blks) /\ Frame L st st' /\ OffsOK st' /\ pw_pos st < pw_pos st' /\
  ents (pw_disk st') L ++ pl_idx (py_lvl_get st' L) = ents (pw_disk st) L ++ pl_idx (py_lvl_get st L).
Proof.
  induction f as [|f IH]; intros L st st' blks HLf HL Hoffs Hpre Hup Hrun;
    destruct Hpre as (P1 & P2 & P3 & P4 & P5 & P6 & P7);
    pose proof (py_cap_pos d L Hcons) as Hcp;
    destruct (py_cons_facts d Hcons) as (_ & _ & _ & _ & _ & Hsumdf & Hq & Hepsq & Heps & _);
    rewrite wr_summary_unfold in Hrun;
    (replace (pl_sum (py_lvl_get st L) =? 0) with false in Hrun by (symmetry; apply Z.eqb_neq; lia));
    cbn [andb] in Hrun;
    destruct (py_wr_chunks L st) as (st2, pos) eqn:Hch; [discriminate|].
  unfold py_bind in Hrun.
  destruct (py_feed d (S L) pos st2) as [st3|e] eqn:Hfeed; [|discriminate].
  assert (Hne : pl_idx (py_lvl_get st L) <> []) by (intro E; rewrite E in P3; cbn in P3; lia).
  assert (H1b : L = 1%nat -> exists n om,
     nth_error blks (length (idxs (pw_disk st) L) * Z.to_nat (py_cap d 1) + length (pl_idx (py_lvl_get st L)) - 1) = Some (n, om) /\
     pl_sum (py_lvl_get st L) = py_epd d * (Z.of_nat (length (pl_idx (py_lvl_get st L))) - 1) + n / py_sdf d).
  { intro E1. destruct (P7 E1) as (n & om & Hn & He). exists n, om. split; auto. rewrite P4, P3. subst L. exact He. }
  destruct (write_feed_step L st st2 st3 pos blks HL Hoffs P1 P2 Hne ltac:(lia) P5 P6 H1b (Hup (S L) ltac:(lia)) Hch Hfeed)
    as (-> & Hd3 & Hoffs3 & W1 & W2 & W3 & G1 & G2 & G3 & Hl3 & Hts3 & Hl3' & Hh3 & Hdts3 & Hdh3 & Hup3).
  specialize (W2 P3).
  destruct (Hup (S L) ltac:(lia)) as (_ & _ & (E1 & E2 & E3)).
  replace (py_epc d (S L)) with (py_q d) in E2 by (destruct L; [lia|reflexivity]).
  assert (Hcap2 : py_cap d (S L) = py_sumdf d) by (apply py_cap_ge2; lia).
  assert (Hadd : pl_sum (py_lvl_get st L) / py_sumdf d = py_q d).
  { rewrite P4, Hepsq, Z.mul_comm, Z.div_mul by lia. reflexivity. }
  assert (Hsum3 : pl_sum (py_lvl_get st3 (S L)) = (Z.of_nat (length (pl_idx (py_lvl_get st (S L)))) + 1) * py_q d).
  { rewrite Hl3. cbn [appended pl_sum]. rewrite Hadd, E2. ring. }
  assert (Hlen3 : Z.of_nat (length (pl_idx (py_lvl_get st3 (S L)))) = Z.of_nat (length (pl_idx (py_lvl_get st (S L)))) + 1).
  { rewrite Hl3. cbn [appended pl_idx]. rewrite app_length. cbn [length]. lia. }
  (* the final state: level L reset *)
  assert (Hfin : forall st4, (forall M, (S L <= M)%nat -> LvlRun M st4 blks) -> Frame (S L) st3 st4 -> OffsOK st4 ->
            pw_pos st3 <= pw_pos st4 ->
            (forall M, (L <= M)%nat -> LvlRun M (py_lvl_set st4 L (py_lvl_reset (py_lvl_get st4 L))) blks) /\
            Frame L st (py_lvl_set st4 L (py_lvl_reset (py_lvl_get st4 L))) /\
            OffsOK (py_lvl_set st4 L (py_lvl_reset (py_lvl_get st4 L))) /\
            pw_pos st < pw_pos (py_lvl_set st4 L (py_lvl_reset (py_lvl_get st4 L))) /\
            ents (pw_disk (py_lvl_set st4 L (py_lvl_reset (py_lvl_get st4 L)))) L ++
              pl_idx (py_lvl_get (py_lvl_set st4 L (py_lvl_reset (py_lvl_get st4 L))) L) =
            ents (pw_disk st) L ++ pl_idx (py_lvl_get st L)).
  { intros st4 HR4 (new & Hd4 & Hnew & Hlow & Hdts4 & Hdh4) Hoffs4 Hpos4. split; [|split; [|split; [|split]]].
    - intros M HM. destruct (Nat.eq_dec M L) as [->|HML].
      + unfold LvlRun. rewrite lvl_get_set_eq. change (pw_disk (py_lvl_set st4 L (py_lvl_reset (py_lvl_get st4 L)))) with (pw_disk st4).
        rewrite head_get_lvl_set. rewrite Hd4. destruct (Hlow L ltac:(lia)) as (_ & ->).
        assert (Hk : forall c, In c new -> pc_kind c <> PyIndex L /\ pc_kind c <> PyIndex (pred L)).
        { intros c Hc. destruct (Hnew c Hc) as ((Hl & _) & _). split; eapply level_kind_ne; eauto; lia. }
        split; [|split].
        * cbn [py_lvl_reset pl_idx]. apply LvlDisk_frame; auto.
        * apply AllFull_frame; auto. intros; apply Hk; auto.
        * apply PendExact_reset.
      + apply LvlRun_reset_other; auto. apply HR4. lia.
    - exists ([mk_chunk (pw_pos st) (PyIndex L) (pl_its (py_lvl_get st L)) (Z.of_nat (length (pl_idx (py_lvl_get st L)))) (pl_idx (py_lvl_get st L));
               mk_chunk (pw_pos st + 1) (PySummary L) (pl_sts (py_lvl_get st L)) (pl_sum (py_lvl_get st L)) []] ++ new).
      change (pw_disk (py_lvl_set st4 L (py_lvl_reset (py_lvl_get st4 L)))) with (pw_disk st4).
      split; [rewrite Hd4, Hd3, app_assoc; reflexivity|]. split; [|split; [|split]].
      + intros c Hc. apply in_app_or in Hc. destruct Hc as [[<-|[<-|[]]]|Hc]; cbn; try (split; [lia|discriminate]).
        destruct (Hnew c Hc) as (Hl & Hk). split; [lia|exact Hk].
      + intros M HM. rewrite lvl_get_set_neq by lia. rewrite head_get_lvl_set.
        destruct (Hlow M ltac:(lia)) as (-> & ->). split; [apply Hl3'; lia|apply Hh3; lia].
      + cbn. congruence.
      + cbn. congruence.
    - exact Hoffs4.
    - change (pw_pos (py_lvl_set st4 L (py_lvl_reset (py_lvl_get st4 L)))) with (pw_pos st4).
      destruct Hoffs3 as (_ & Ho3 & _). assert (Hin : In (mk_chunk (pw_pos st) (PyIndex L) (pl_its (py_lvl_get st L)) (Z.of_nat (length (pl_idx (py_lvl_get st L)))) (pl_idx (py_lvl_get st L))) (pw_disk st3)).
      { rewrite Hd3. apply in_or_app. right. left. reflexivity. }
      specialize (Ho3 _ Hin). cbn in Ho3. lia.
    - rewrite lvl_get_set_eq. cbn [py_lvl_reset pl_idx]. rewrite app_nil_r.
      change (pw_disk (py_lvl_set st4 L (py_lvl_reset (py_lvl_get st4 L)))) with (pw_disk st4).
      rewrite Hd4, ents_app_none.
      + unfold ents. rewrite W3, map_app, concat_app. cbn. rewrite app_nil_r. reflexivity.
      + intros c Hc. destruct (Hnew c Hc) as ((Hl & _) & _). eapply level_kind_ne; eauto. }
  destruct (py_eps d <=? pl_sum (py_lvl_get st3 (S L))) eqn:Hflush.
  - (* the level above is full as well *)
    destruct (py_wr_summary (S f) d (S L) st3) as [st4|e] eqn:Hrec; [|discriminate].
    injection Hrun as <-.
    assert (Hfull3 : Z.of_nat (length (pl_idx (py_lvl_get st3 (S L)))) = py_cap d (S L)).
    { apply Z.leb_le in Hflush. rewrite Hsum3, Hepsq in Hflush. rewrite Hlen3, Hcap2. rewrite Hcap2 in E1. nia. }
    destruct (IH (S L) st3 st4 blks ltac:(lia) ltac:(lia) Hoffs3) with (3 := Hrec) as (R4 & F4 & O4 & Pp4 & _).
    + split; [exact G1|]. split; [exact G2|]. split; [exact Hfull3|]. split.
      { rewrite Hsum3, Hepsq. rewrite Hlen3, Hcap2 in Hfull3. rewrite <- Hfull3. ring. }
      split; [apply Hts3|]. split; [apply Hts3|]. intro; lia.
    + intros M HM. apply Hup3; [lia|]. apply Hup. lia.
    + apply Hfin; auto. lia.
  - (* the level above keeps filling *)
    injection Hrun as <-. apply Z.leb_gt in Hflush.
    apply Hfin.
    + intros M HM. destruct (Nat.eq_dec M (S L)) as [->|HMS].
      * split; [exact G1|]. split; [exact G2|]. split; [|split].
        -- rewrite Hsum3, Hepsq in Hflush. rewrite Hlen3, Hcap2. nia.
        -- rewrite Hsum3, Hlen3. replace (py_epc d (S L)) with (py_q d) by (destruct L; [lia|reflexivity]). reflexivity.
        -- intros _. apply Hts3.
      * apply Hup3; [lia|]. apply Hup. lia.
    + exists []. rewrite app_nil_r. split; [reflexivity|]. split; [intros c []|]. split; [intros; split; reflexivity|split; reflexivity].
    + exact Hoffs3.
    + lia.
Qed.

(* ------------------------------------------------------------------ a block *)
Definition DataInv (st : py_wr) (blks : list (Z * bool)) : Prop :=
  pw_dts st = t0 + Z.of_nat (length blks) * py_spd d /\
  (pw_dhead st = 0 <-> blks = []) /\
  (forall n om, nth_error blks 0 = Some (n, om) -> om = false) /\
  py_head_get st 0 = nth 0 (ents (pw_disk st) 1 ++ pl_idx (py_lvl_get st 1)) 0 /\
  (forall c, In c (pw_disk st) -> pc_kind c = PyData ->
     exists i, nth_error (ents (pw_disk st) 1 ++ pl_idx (py_lvl_get st 1)) i = Some (pc_off c)) /\
  (forall c, In c (pw_disk st) -> (py_chunk_level c <= 14)%nat /\ (pc_kind c = PyData \/ (1 <= py_chunk_level c)%nat)).

Definition RunInv (st : py_wr) (blks : list (Z * bool)) : Prop :=
  OffsOK st /\ DataInv st blks /\ Forall (fun b => fst b = py_spd d) blks /\
  forall L, (1 <= L)%nat -> LvlRun L st blks.

(* close phase: the pending summary of a level may hold the contribution of one partial child *)
Definition LvlClose (L : nat) (st : py_wr) (blks : list (Z * bool)) : Prop :=
  LvlDisk L (pw_disk st) blks (py_head_get st L) (pl_idx (py_lvl_get st L)) /\ AllFull L (pw_disk st) /\
  Z.of_nat (length (pl_idx (py_lvl_get st L))) <= py_cap d L /\
  0 <= pl_sum (py_lvl_get st L) < py_eps d /\
  (pl_idx (py_lvl_get st L) = [] -> pl_sum (py_lvl_get st L) = 0) /\
  (Z.of_nat (length (pl_idx (py_lvl_get st L))) - 1) * py_epc d L <= pl_sum (py_lvl_get st L) /\
  (pl_idx (py_lvl_get st L) <> [] ->
     pl_its (py_lvl_get st L) = t0 + Z.of_nat (length (idxs (pw_disk st) L)) * py_span d L /\
     pl_sts (py_lvl_get st L) = pl_its (py_lvl_get st L)) /\
  (L = 1%nat -> pl_idx (py_lvl_get st L) <> [] -> exists n om,
     nth_error blks (length (idxs (pw_disk st) L) * Z.to_nat (py_cap d 1) + length (pl_idx (py_lvl_get st L)) - 1) = Some (n, om) /\
     pl_sum (py_lvl_get st L) = py_epd d * (Z.of_nat (length (pl_idx (py_lvl_get st L))) - 1) + n / py_sdf d).

Definition BlksOK (blks : list (Z * bool)) : Prop :=
  blks <> [] /\
  (forall i n om, nth_error blks i = Some (n, om) -> 1 <= n <= py_spd d /\ ((S i < length blks)%nat -> n = py_spd d)).

Definition CloseReady (st : py_wr) (blks : list (Z * bool)) : Prop :=
  OffsOK st /\ DataInv st blks /\ BlksOK blks /\ LvlClose 1 st blks /\
  forall L, (2 <= L)%nat -> LvlRun L st blks.

Lemma LvlRun_Close : forall L st blks, (1 <= L)%nat -> (L = 1%nat -> Forall (fun b => fst b = py_spd d) blks) ->
  LvlRun L st blks -> LvlClose L st blks.
Proof.
  intros L st blks HL Hfull (H1 & H2 & (E1 & E2 & E3)).
  pose proof (py_epc_pos d L Hcons) as Hepc. pose proof (py_eps_cap_epc d L Hcons HL) as Heps.
  split; [exact H1|]. split; [exact H2|]. split; [lia|]. split; [rewrite E2, Heps; nia|].
  split; [intro E; rewrite E in E2; cbn in E2; lia|]. split; [rewrite E2; nia|]. split; [exact E3|].
  intros -> Hne. specialize (Hfull eq_refl).
  destruct H1 as (Hck & (Hlen & _) & _). rewrite app_length in Hlen.
  assert (Hp : (1 <= length (pl_idx (py_lvl_get st 1)))%nat) by (destruct (pl_idx (py_lvl_get st 1)); [congruence|cbn; lia]).
  assert (Hel : length (ents (pw_disk st) 1) = (length (idxs (pw_disk st) 1) * Z.to_nat (py_cap d 1))%nat).
  { apply AllFull_len_ents; auto. intros j c Hj. destruct (Hck j c Hj) as (_ & C & _). exact C. }
  destruct (nth_error_ex _ blks (length (idxs (pw_disk st) 1) * Z.to_nat (py_cap d 1) + length (pl_idx (py_lvl_get st 1)) - 1)) as ((n & om) & Hn); [lia|].
  exists n, om. split; [exact Hn|]. rewrite Forall_forall in Hfull. specialize (Hfull _ (nth_error_In _ _ Hn)). cbn in Hfull. subst n.
  rewrite E2. cbn [py_epc]. change (py_spd d / py_sdf d) with (py_epd d). ring.
Qed.

Lemma LvlDisk_blks_ext : forall L disk blks blks' hd P, (2 <= L)%nat ->
  LvlDisk L disk blks hd P -> LvlDisk L disk blks' hd P.
Proof.
  intros L disk blks blks' hd P HL (H1 & H2 & H3). split; [|split]; auto.
  - intros j c Hj. destruct (H1 j c Hj) as (C1 & C2 & C3 & C4 & i & s & Hi & Hs & K1 & K2 & K3).
    split; [|split; [|split; [|split]]]; auto. exists i, s. repeat split; auto. intro; lia.
  - destruct L as [|[|L]]; try lia. exact H2.
Qed.

Lemma LvlRun_blks_ext : forall L st blks blks', (2 <= L)%nat -> LvlRun L st blks -> LvlRun L st blks'.
Proof. intros L st blks blks' HL (H1 & H2 & H3). split; [|split]; auto. eapply LvlDisk_blks_ext; eauto. Qed.

Lemma LvlDisk1_blk : forall disk blks hd P newd pos n om,
  LvlDisk 1 disk blks hd P ->
  ((newd = [] /\ pos = 0 /\ om = true) \/
   (newd = [mk_chunk pos PyData (t0 + Z.of_nat (length blks) * py_spd d) n []] /\ om = false)) ->
  LvlDisk 1 (disk ++ newd) (blks ++ [(n, om)]) hd (P ++ [pos]) /\ idxs (disk ++ newd) 1 = idxs disk 1.
Proof.
  intros disk blks hd P newd pos n om (H1 & (Hlen & H2) & H3) Hnew.
  assert (Hi : idxs (disk ++ newd) 1 = idxs disk 1).
  { apply idxs_app_none. intros c Hc. destruct Hnew as [(-> & _)|(-> & _)]; [destruct Hc|].
    destruct Hc as [<-|[]]. cbn. discriminate. }
  split; auto. unfold LvlDisk, ents. rewrite Hi. fold (ents disk 1). split; [|split]; auto.
  - intros j c Hj. destruct (H1 j c Hj) as (C1 & C2 & C3 & C4 & i & s & Ki & Ks & K1 & K2 & K3).
    split; [|split; [|split; [|split]]]; auto. exists i, s.
    rewrite !nth_error_app1 by (eapply nth_error_lt; eauto). repeat split; auto.
    intro E. destruct (K3 E) as (n' & om' & Kn & Kc). exists n', om'. split; auto.
    rewrite nth_error_app1 by (eapply nth_error_lt; eauto). exact Kn.
  - cbn [src_ok]. split; [rewrite app_assoc, (app_length (ents disk 1 ++ P)), Hlen, app_length; reflexivity|].
    intros i o n' om' Ho Hb. rewrite app_assoc in Ho.
    destruct (Nat.lt_ge_cases i (length blks)) as [Hlt|Hge].
    + rewrite nth_error_app1 in Ho by lia. rewrite nth_error_app1 in Hb by lia.
      specialize (H2 i o n' om' Ho Hb). destruct om'; auto. destruct H2 as (c & Hin & Hr). exists c. split; auto. apply in_or_app; auto.
    + rewrite nth_error_app2 in Ho by lia. rewrite nth_error_app2 in Hb by lia.
      destruct (i - length blks)%nat as [|x] eqn:Ex; [|destruct x; discriminate].
      rewrite Hlen, Ex in Ho. cbn in Ho, Hb. injection Ho as <-. injection Hb as <- <-.
      destruct Hnew as [(-> & -> & ->)|(-> & ->)]; [reflexivity|].
      eexists; split; [apply in_or_app; right; left; reflexivity|]. cbn. repeat split; auto.
      replace i with (length blks) by lia. reflexivity.
Qed.

Lemma div_sdf_bound : forall n, 1 <= n <= py_spd d ->
  0 <= n / py_sdf d <= py_epd d /\ (n / py_sdf d = py_epd d -> n = py_spd d) /\ (n = py_spd d -> n / py_sdf d = py_epd d).
Proof.
  intros n Hn. destruct (py_cons_facts d Hcons) as (Hsdf & Hepd & Hspd & _).
  pose proof (Z.div_mod n (py_sdf d) ltac:(lia)) as E. pose proof (Z.mod_pos_bound n (py_sdf d) Hsdf) as B.
  assert (0 <= n / py_sdf d) by (apply Z.div_pos; lia).
  assert (n / py_sdf d <= py_epd d).
  { apply Z.div_le_upper_bound; [lia|]. lia. }
  split; [lia|]. split.
  - intro E2. rewrite E2 in E. nia.
  - intros ->. rewrite Hspd, Z.mul_comm, Z.div_mul by lia. reflexivity.
Qed.

Lemma blk_after_data : forall st st1 st2 blks n om newd posv,
  RunInv st blks -> 1 <= n <= py_spd d ->
  pw_disk st1 = pw_disk st ++ newd ->
  ((newd = [] /\ posv = 0 /\ om = true) \/
   (newd = [mk_chunk posv PyData (t0 + Z.of_nat (length blks) * py_spd d) n []] /\ om = false)) ->
  OffsOK st1 -> pw_lvls st1 = pw_lvls st ->
  (forall M, (1 <= M)%nat -> py_head_get st1 M = py_head_get st M) -> pw_dts st1 = pw_dts st ->
  py_summary1 d n posv st1 = PyOk st2 ->
  LvlClose 1 st2 (blks ++ [(n, om)]) /\ (n = py_spd d -> LvlRun 1 st2 (blks ++ [(n, om)])) /\
  (forall L, (2 <= L)%nat -> LvlRun L st2 (blks ++ [(n, om)])) /\ OffsOK st2 /\
  (exists new, pw_disk st2 = pw_disk st1 ++ new /\ forall c, In c new -> (1 <= py_chunk_level c <= 14)%nat /\ pc_kind c <> PyData) /\
  py_head_get st2 0 = py_head_get st1 0 /\ pw_dhead st2 = pw_dhead st1 /\ pw_dts st2 = pw_dts st1 /\
  ents (pw_disk st2) 1 ++ pl_idx (py_lvl_get st2 1) = (ents (pw_disk st) 1 ++ pl_idx (py_lvl_get st 1)) ++ [posv] /\
  pw_pos st1 <= pw_pos st2.
Proof.
  intros st st1 st2 blks n om newd posv (Hoffs & Hdata & Hfull & Hlv) Hn Hd1 Hnew Hoffs1 Hl1 Hh1 Hdts1 Hrun.
  destruct Hdata as (D1 & _).
  destruct (py_cons_facts d Hcons) as (Hsdf & Hepd & Hspd & Hcap1 & Heps1 & _).
  destruct (div_sdf_bound n Hn) as (Hdiv & Hdiv1 & Hdiv2).
  assert (Hg1 : forall M, py_lvl_get st1 M = py_lvl_get st M) by (intro M; unfold py_lvl_get; rewrite Hl1; reflexivity).
  assert (Hkd : forall c, In c newd -> pc_kind c = PyData).
  { intros c Hc. destruct Hnew as [(-> & _)|(-> & _)]; [destruct Hc|]. destruct Hc as [<-|[]]. reflexivity. }
  (* levels >= 2 in st1 *)
  assert (Hup1 : forall M, (2 <= M)%nat -> LvlRun M st1 (blks ++ [(n, om)])).
  { intros M HM. unfold LvlRun. rewrite Hd1, Hg1, Hh1 by lia. apply LvlRunC_frame.
    - eapply LvlRun_blks_ext; eauto. apply Hlv. lia.
    - intros c Hc. rewrite (Hkd c Hc). split; discriminate. }
  destruct (Hlv 1%nat ltac:(lia)) as (L1 & F1 & (E1 & E2 & E3)). cbn [py_epc] in E2.
  destruct (LvlDisk1_blk _ _ _ _ newd posv n om L1 Hnew) as (L1' & Hi1).
  assert (F1' : AllFull 1 (pw_disk st1)).
  { rewrite Hd1. apply AllFull_frame; auto. intros c Hc. rewrite (Hkd c Hc). discriminate. }
  unfold py_summary1, py_bind in Hrun.
  destruct (py_append d 1 posv (n / py_sdf d) (pw_dts st1) (pw_dts st1) st1) as [st1a|e] eqn:Happ; [|discriminate].
  apply append_inv in Happ. destruct Happ as (_ & _ & ->). rewrite Hg1 in *.
  set (lv' := appended (py_lvl_get st 1) posv (n / py_sdf d) (pw_dts st1) (pw_dts st1)) in *.
  set (st1a := py_lvl_set st1 1 lv') in *.
  assert (Hla : py_lvl_get st1a 1 = lv') by apply lvl_get_set_eq.
  assert (Hla' : forall M, M <> 1%nat -> py_lvl_get st1a M = py_lvl_get st M).
  { intros M HM. unfold st1a. rewrite lvl_get_set_neq by congruence. apply Hg1. }
  assert (Hlen' : Z.of_nat (length (pl_idx lv')) = Z.of_nat (length (pl_idx (py_lvl_get st 1))) + 1).
  { unfold lv'. cbn [appended pl_idx]. rewrite app_length. cbn [length]. lia. }
  assert (Hsum' : pl_sum lv' = Z.of_nat (length (pl_idx (py_lvl_get st 1))) * py_epd d + n / py_sdf d).
  { unfold lv'. cbn [appended pl_sum]. rewrite E2. reflexivity. }
  assert (Hlb : length (ents (pw_disk st) 1 ++ pl_idx (py_lvl_get st 1)) = length blks) by (destruct L1 as (_ & (Hl & _) & _); exact Hl).
  assert (Hel : length (ents (pw_disk st) 1) = (length (idxs (pw_disk st) 1) * Z.to_nat (py_cap d 1))%nat).
  { apply AllFull_len_ents; auto. destruct L1 as (Hck & _). intros j c Hj. destruct (Hck j c Hj) as (_ & C & _). exact C. }
  assert (Hts' : pl_its lv' = t0 + Z.of_nat (length (idxs (pw_disk st1) 1)) * py_span d 1 /\ pl_sts lv' = pl_its lv').
  { unfold lv'. cbn [appended pl_its pl_sts]. rewrite Hd1, Hi1.
    destruct (pl_idx (py_lvl_get st 1)) as [|e es] eqn:EP; cbn [py_nilb].
    - split; [|reflexivity]. rewrite Hdts1, D1. rewrite app_nil_r in Hlb. rewrite <- Hlb, Hel.
      rewrite py_span_eq, py_step_1 by lia. rewrite Nat2Z.inj_mul, Z2Nat.id by lia. ring.
    - apply E3. discriminate. }
  assert (Hidx1a : idxs (pw_disk st1a) 1 = idxs (pw_disk st) 1) by (change (pw_disk st1a) with (pw_disk st1); rewrite Hd1; exact Hi1).
  assert (Hlast : nth_error (blks ++ [(n, om)]) (length (idxs (pw_disk st) 1) * Z.to_nat (py_cap d 1) + length (pl_idx lv') - 1) = Some (n, om)).
  { rewrite app_length in Hlb. replace (length (idxs (pw_disk st) 1) * Z.to_nat (py_cap d 1) + length (pl_idx lv') - 1)%nat with (length blks) by lia.
    apply nth_error_snoc_last. }
  assert (HB : ents (pw_disk st1a) 1 ++ pl_idx (py_lvl_get st1a 1) = (ents (pw_disk st) 1 ++ pl_idx (py_lvl_get st 1)) ++ [posv]).
  { rewrite Hla. unfold ents. rewrite Hidx1a. unfold lv'. cbn [appended pl_idx]. rewrite app_assoc. reflexivity. }
  assert (HLd1a : LvlDisk 1 (pw_disk st1a) (blks ++ [(n, om)]) (py_head_get st1a 1) (pl_idx (py_lvl_get st1a 1))).
  { rewrite Hla. change (pw_disk st1a) with (pw_disk st1). change (py_head_get st1a 1) with (py_head_get st1 1).
    rewrite Hh1, Hd1 by lia. exact L1'. }
  assert (Hup1a : forall M, (2 <= M)%nat -> LvlRun M st1a (blks ++ [(n, om)])).
  { intros M HM. unfold LvlRun. rewrite Hla' by lia. rewrite <- Hg1. apply Hup1; auto. }
  assert (Hoffs1a : OffsOK st1a) by exact Hoffs1.
  destruct (py_eps d <=? pl_sum (py_lvl_get st1a 1)) eqn:Hflush.
  - (* level 1 is full: cascade *)
    apply Z.leb_le in Hflush. rewrite Hla, Hsum' in Hflush.
    assert (Hlenc : Z.of_nat (length (pl_idx (py_lvl_get st 1))) + 1 = py_cap d 1) by nia.
    assert (Hne : n / py_sdf d = py_epd d) by nia.
    assert (Hnspd : n = py_spd d) by auto.
    destruct (flush_run 14 1 st1a st2 (blks ++ [(n, om)]) ltac:(lia) ltac:(lia) Hoffs1a) with (3 := Hrun)
      as (R2 & (new & Hd2 & Hnew2 & Hlow2 & Hdts2 & Hdh2) & O2 & P2 & B2).
    + split; [exact HLd1a|]. split; [exact F1'|]. rewrite Hla. split; [lia|]. split; [rewrite Hsum'; nia|].
      split; [rewrite Hidx1a; rewrite Hd1, Hi1 in Hts'; apply Hts'|]. split; [apply Hts'|].
      intros _. exists n, om. rewrite Hidx1a. split; [exact Hlast|]. rewrite Hne. nia.
    + intros M HM. apply Hup1a. lia.
    + assert (Hfb : Forall (fun b => fst b = py_spd d) (blks ++ [(n, om)])).
      { apply Forall_app. split; auto. }
      split; [apply LvlRun_Close; auto; apply R2; lia|]. split; [intros _; apply R2; lia|].
      split; [intros L HL; apply R2; lia|]. split; [exact O2|]. split.
      { exists new. split; [exact Hd2|]. intros c Hc. destruct (Hnew2 c Hc) as (Hl & Hk). split; [lia|exact Hk]. }
      destruct (Hlow2 0%nat ltac:(lia)) as (_ & Hh0). split; [exact Hh0|]. split; [exact Hdh2|]. split; [exact Hdts2|].
      split; [rewrite B2; exact HB|]. change (pw_pos st1) with (pw_pos st1a). lia.
  - (* level 1 keeps filling *)
    injection Hrun as <-. apply Z.leb_gt in Hflush. rewrite Hla, Hsum' in Hflush.
    assert (Hlenc : Z.of_nat (length (pl_idx (py_lvl_get st 1))) + 1 <= py_cap d 1) by lia.
    assert (Hpne : pl_idx lv' <> []) by (unfold lv'; cbn; destruct (pl_idx (py_lvl_get st 1)); discriminate).
    split.
    { split; [exact HLd1a|]. split; [exact F1'|]. rewrite Hla. split; [lia|]. split; [rewrite Hsum'; nia|].
      split; [intro; congruence|]. split; [cbn [py_epc]; rewrite Hsum', Hlen'; nia|].
      split; [intros _; rewrite Hidx1a; rewrite Hd1, Hi1 in Hts'; exact Hts'|].
      intros _ _. exists n, om. rewrite Hidx1a. split; [exact Hlast|]. rewrite Hsum', Hlen'. ring. }
    split.
    { intros ->. rewrite (Hdiv2 eq_refl) in *. split; [exact HLd1a|]. split; [exact F1'|]. rewrite Hla.
      split; [nia|]. split; [cbn [py_epc]; rewrite Hsum', Hlen'; ring|]. intros _. rewrite Hidx1a. rewrite Hd1, Hi1 in Hts'. exact Hts'. }
    split; [exact Hup1a|]. split; [exact Hoffs1a|]. split.
    { exists []. rewrite app_nil_r. split; [reflexivity|]. intros c []. }
    split; [reflexivity|]. split; [reflexivity|]. split; [reflexivity|]. split; [exact HB|]. change (pw_pos st1a) with (pw_pos st1). lia.
Qed.

Lemma blk_step : forall st st' blks n req,
  RunInv st blks -> 1 <= n <= py_spd d ->
  py_wr_data d n req st = PyOk st' ->
  CloseReady st' (blks ++ [(n, req && negb (pw_dhead st =? 0))]) /\
  (n = py_spd d -> RunInv st' (blks ++ [(n, req && negb (pw_dhead st =? 0))])) /\
  pw_pos st <= pw_pos st'.
Proof.
  intros st st' blks n req Hinv Hn Hrun.
  pose proof Hinv as (Hoffs & (D1 & D2 & D3 & D4 & D5 & D6) & Hfull & Hlv).
  destruct Hoffs as (Hpos & Hoff & Hnd).
  unfold py_wr_data in Hrun. replace (n =? 0) with false in Hrun by (symmetry; apply Z.eqb_neq; lia).
  set (om := req && negb (pw_dhead st =? 0)) in *.
  unfold py_bind in Hrun.
  match type of Hrun with match py_summary1 d n ?pv ?s1 with _ => _ end = _ => set (posv := pv) in *; set (st1 := s1) in * end.
  destruct (py_summary1 d n posv st1) as [st2|e] eqn:Hs1; [|discriminate]. injection Hrun as <-.
  set (newd := if om then [] else [mk_chunk (pw_pos st) PyData (t0 + Z.of_nat (length blks) * py_spd d) n []]).
  assert (Hd1 : pw_disk st1 = pw_disk st ++ newd).
  { unfold st1, newd. destruct om; [rewrite app_nil_r; reflexivity|].
    cbn [pw_disk]. destruct (set_head_fields (py_emit st PyData (pw_dts st) n []) 0 (pw_pos st)) as (F1 & _). rewrite F1. cbn. rewrite D1. reflexivity. }
  assert (Hnewd : (newd = [] /\ posv = 0 /\ om = true) \/
                  (newd = [mk_chunk posv PyData (t0 + Z.of_nat (length blks) * py_spd d) n []] /\ om = false)).
  { unfold newd, posv. destruct om; [left; auto|right; auto]. }
  assert (Hl1 : pw_lvls st1 = pw_lvls st).
  { unfold st1. destruct om; [reflexivity|]. cbn [pw_lvls].
    destruct (set_head_fields (py_emit st PyData (pw_dts st) n []) 0 (pw_pos st)) as (_ & _ & F3 & _). rewrite F3. reflexivity. }
  assert (Hh1 : forall M, py_head_get st1 M = if om then py_head_get st M else
                    if (Nat.eqb M 0) && (py_head_get st 0 =? 0) then pw_pos st else py_head_get st M).
  { intro M. unfold st1. destruct om; [reflexivity|].
    exact (head_get_set_head (py_emit st PyData (pw_dts st) n []) 0 (pw_pos st) M). }
  assert (Hdts1 : pw_dts st1 = pw_dts st).
  { unfold st1. destruct om; [reflexivity|]. cbn [pw_dts].
    destruct (set_head_fields (py_emit st PyData (pw_dts st) n []) 0 (pw_pos st)) as (_ & _ & _ & F4 & _). rewrite F4. reflexivity. }
  assert (Hp1 : pw_pos st1 = if om then pw_pos st else pw_pos st + 1).
  { unfold st1. destruct om; [reflexivity|]. cbn [pw_pos].
    destruct (set_head_fields (py_emit st PyData (pw_dts st) n []) 0 (pw_pos st)) as (_ & F2 & _). rewrite F2. reflexivity. }
  assert (Hdh1 : pw_dhead st1 = if om then pw_dhead st else pw_pos st).
  { unfold st1. destruct om; reflexivity. }
  assert (Hoffs1 : OffsOK st1).
  { unfold OffsOK. rewrite Hd1, Hp1. unfold newd. destruct om.
    - rewrite app_nil_r. auto.
    - split; [lia|]. split.
      + intros c Hc. apply in_app_or in Hc. destruct Hc as [Hc|[<-|[]]]; [specialize (Hoff c Hc); lia|cbn; lia].
      + rewrite map_app. cbn [map]. apply NoDup_snoc; auto. intro Hin. apply in_map_iff in Hin.
        destruct Hin as (c & Hc & Hin). specialize (Hoff c Hin). cbn in Hc. lia. }
  destruct (blk_after_data st st1 st2 blks n om newd posv Hinv Hn Hd1 Hnewd Hoffs1 Hl1) with (3 := Hs1)
    as (C1 & R1 & Rup & O2 & (new & Hd2 & Hnew2) & Hh02 & Hdh2 & Hdts2 & HB & Hpos2); auto.
  { intros M HM. rewrite Hh1. destruct om; auto. replace (Nat.eqb M 0) with false by (symmetry; apply Nat.eqb_neq; lia). reflexivity. }
  set (stf := {| pw_disk := pw_disk st2; pw_pos := pw_pos st2; pw_lvls := pw_lvls st2; pw_heads := pw_heads st2;
                 pw_dts := pw_dts st2 + py_spd d; pw_dhead := pw_dhead st2 |}).
  assert (Hdata' : DataInv stf (blks ++ [(n, om)])).
  { unfold DataInv. change (pw_disk stf) with (pw_disk st2). change (py_lvl_get stf 1) with (py_lvl_get st2 1).
    change (py_head_get stf 0) with (py_head_get st2 0). change (pw_dhead stf) with (pw_dhead st2).
    change (pw_dts stf) with (pw_dts st2 + py_spd d).
    split; [rewrite Hdts2, Hdts1, D1, app_length; cbn [length]; lia|]. split.
    { rewrite Hdh2, Hdh1. split; [|intro E; destruct blks; discriminate]. intro E. exfalso.
      destruct om eqn:Eom; [|lia]. unfold om in Eom. apply andb_true_iff in Eom. destruct Eom as (_ & Eom).
      apply negb_true_iff, Z.eqb_neq in Eom. lia. }
    split.
    { intros n0 om0 H0. destruct blks as [|b blks']; [|exact (D3 n0 om0 H0)].
      cbn in H0. injection H0 as <- <-. unfold om. replace (pw_dhead st =? 0) with true by (symmetry; apply Z.eqb_eq; apply D2; reflexivity).
      apply andb_false_r. }
    split.
    { rewrite HB, Hh02, Hh1. destruct (ents (pw_disk st) 1 ++ pl_idx (py_lvl_get st 1)) as [|o os] eqn:EB.
      - cbn [app nth]. cbn [nth] in D4. assert (Hb0 : blks = []).
        { destruct (Hlv 1%nat ltac:(lia)) as ((_ & (Hl & _) & _) & _). rewrite EB in Hl. destruct blks; [reflexivity|discriminate]. }
        assert (Hdh0 : pw_dhead st = 0) by (apply D2; exact Hb0).
        assert (Eom : om = false) by (unfold om; rewrite Hdh0; cbn; apply andb_false_r).
        rewrite Eom. cbn [Nat.eqb andb]. rewrite D4. cbn [Z.eqb]. unfold posv. rewrite Eom. reflexivity.
      - cbn [app nth]. cbn [nth] in D4. destruct om; [exact D4|]. cbn [Nat.eqb andb].
        destruct (py_head_get st 0 =? 0) eqn:E0; [|exact D4]. exfalso. apply Z.eqb_eq in E0.
        assert (Hb0 : blks <> []).
        { destruct (Hlv 1%nat ltac:(lia)) as ((_ & (Hl & _) & _) & _). rewrite EB in Hl. destruct blks; [discriminate|congruence]. }
        destruct blks as [|(n0, om0) blks']; [congruence|].
        destruct (Hlv 1%nat ltac:(lia)) as ((_ & (Hl & Hsrc) & _) & _). rewrite EB in Hsrc.
        specialize (Hsrc 0%nat o n0 om0 eq_refl eq_refl). rewrite (D3 n0 om0 eq_refl) in Hsrc.
        destruct Hsrc as (c & Hin & Hco & _). specialize (Hoff c Hin). lia. }
    split.
    { intros c Hc Hk. rewrite HB. rewrite Hd2, Hd1 in Hc. apply in_app_or in Hc. destruct Hc as [Hc|Hc]; [|destruct (Hnew2 c Hc); congruence].
      apply in_app_or in Hc. destruct Hc as [Hc|Hc].
      - destruct (D5 c Hc Hk) as (i & Hi). exists i. rewrite nth_error_app1; [exact Hi|eapply nth_error_lt; eauto].
      - destruct Hnewd as [(-> & _)|(-> & _)]; [destruct Hc|]. destruct Hc as [<-|[]]. cbn [mk_chunk pc_off].
        exists (length (ents (pw_disk st) 1 ++ pl_idx (py_lvl_get st 1))). apply nth_error_snoc_last. }
    intros c Hc. rewrite Hd2, Hd1 in Hc. apply in_app_or in Hc. destruct Hc as [Hc|Hc]; [|destruct (Hnew2 c Hc); split; [lia|right; lia]].
    apply in_app_or in Hc. destruct Hc as [Hc|Hc]; [auto|].
    destruct Hnewd as [(-> & _)|(-> & _)]; [destruct Hc|]. destruct Hc as [<-|[]]. cbn. split; [lia|left; reflexivity]. }
  assert (Hbok : BlksOK (blks ++ [(n, om)])).
  { split; [destruct blks; discriminate|]. intros i n0 om0 Hi.
    destruct (Nat.lt_ge_cases i (length blks)) as [Hlt|Hge].
    - rewrite nth_error_app1 in Hi by auto. rewrite Forall_forall in Hfull. specialize (Hfull _ (nth_error_In _ _ Hi)). cbn in Hfull.
      destruct Hcons as (_ & Hs & _). lia.
    - rewrite nth_error_app2 in Hi by auto. destruct (i - length blks)%nat as [|x] eqn:Ex; [|destruct x; discriminate].
      cbn in Hi. injection Hi as <- <-. split; [lia|]. rewrite app_length. cbn [length]. lia. }
  split; [|split].
  - split; [exact O2|]. split; [exact Hdata'|]. split; [exact Hbok|]. split; [exact C1|exact Rup].
  - intro E. split; [exact O2|]. split; [exact Hdata'|]. split.
    + apply Forall_app. split; auto.
    + intros L HL. destruct (Nat.eq_dec L 1) as [->|HL1]; [apply R1; auto|apply Rup; lia].
  - change (pw_pos stf) with (pw_pos st2). rewrite Hp1 in Hpos2. destruct om; lia.
Qed.

(* ------------------------------------------------------------------ the close cascade *)
Lemma idxs_nil_of_head0 : forall L disk blks hd P,
  (forall c, In c disk -> 0 < pc_off c) -> LvlDisk L disk blks hd P -> hd = 0 -> idxs disk L = [].
Proof.
  intros L disk blks hd P Hnz (_ & _ & H3) H0. destruct (idxs disk L) as [|c r] eqn:E; auto.
  assert (Hin : In c disk) by (apply (idxs_In disk L c); rewrite E; left; auto).
  specialize (Hnz c Hin). lia.
Qed.

Lemma close_step : forall L f st st' blks,
  (1 <= L)%nat -> (L + S f = 16)%nat -> OffsOK st ->
  LvlClose L st blks -> (forall M, (L < M)%nat -> LvlRun M st blks) ->
  py_wr_summary (S f) d L st = PyOk st' ->
  (LvlDisk L (pw_disk st') blks (py_head_get st' L) [] /\ pl_idx (py_lvl_get st' L) = [] /\
   LvlClose (S L) st' blks /\ (forall M, (S L < M)%nat -> LvlRun M st' blks) /\ OffsOK st' /\ Frame L st st' /\
   ents (pw_disk st') L = ents (pw_disk st) L ++ pl_idx (py_lvl_get st L)) \/
  (st' = st /\ (2 <= L)%nat /\ idxs (pw_disk st) L = [] /\ length (idxs (pw_disk st) (pred L)) = 1%nat /\ py_head_get st L = 0).
Proof.
  intros L f st st' blks HL HLf Hoffs (C1 & C2 & C3 & C4 & C5 & C6 & C7 & C8) Hup Hrun.
  pose proof (py_epc_pos d L Hcons) as Hepc.
  destruct (py_cons_facts d Hcons) as (_ & _ & _ & _ & _ & Hsumdf & Hq & Hepsq & Heps & _).
  rewrite wr_summary_unfold in Hrun.
  destruct ((pl_sum (py_lvl_get st L) =? 0) && (py_nilb (pl_idx (py_lvl_get st L)) || ((1 <? L)%nat && (py_head_get st L =? 0)))) eqn:Hg.
  - (* nothing written *)
    injection Hrun as <-. apply andb_true_iff in Hg. destruct Hg as (Hs0 & Hg). apply Z.eqb_eq in Hs0.
    destruct (pl_idx (py_lvl_get st L)) as [|e es] eqn:EP.
    + left. split; [exact C1|]. split; [reflexivity|]. split.
      { apply LvlRun_Close; [lia|intro; lia|apply Hup; lia]. }
      split; [intros M HM; apply Hup; lia|]. split; [exact Hoffs|]. split.
      { exists []. rewrite app_nil_r. split; [reflexivity|]. split; [intros c []|]. split; [intros; split; reflexivity|split; reflexivity]. }
      rewrite app_nil_r. reflexivity.
    + right. cbn [py_nilb orb] in Hg. apply andb_true_iff in Hg. destruct Hg as (HL1 & Hh0).
      apply Nat.ltb_lt in HL1. apply Z.eqb_eq in Hh0.
      destruct Hoffs as (_ & Hoff & _).
      assert (Hnil : idxs (pw_disk st) L = []).
      { eapply idxs_nil_of_head0; eauto. intros c Hc. apply Hoff; auto. }
      split; [reflexivity|]. split; [lia|]. split; [exact Hnil|]. split; [|exact Hh0].
      cbn [length] in C6. assert (Hes : es = []) by (destruct es; [reflexivity|cbn [length] in C6; nia]).
      destruct C1 as (_ & Hsrc & _). destruct L as [|[|L]]; try lia. cbn [src_ok pred] in *.
      unfold ents in Hsrc. rewrite Hnil in Hsrc. cbn in Hsrc. subst es.
      apply (f_equal (@length Z)) in Hsrc. rewrite map_length in Hsrc. cbn in Hsrc. lia.
  - (* INDEX + SUMMARY written, the level above fed *)
    left.
    assert (Hne : pl_idx (py_lvl_get st L) <> []).
    { intro E. rewrite (C5 E), E in Hg. cbn in Hg. discriminate. }
    destruct (py_wr_chunks L st) as (st2, pos) eqn:Hch.
    destruct f as [|f]; [discriminate|].
    unfold py_bind in Hrun.
    destruct (py_feed d (S L) pos st2) as [st3|e] eqn:Hfeed; [|discriminate].
    destruct C7 as (C7a & C7b); auto.
    destruct (write_feed_step L st st2 st3 pos blks HL Hoffs C1 C2 Hne C3 C7a C7b (fun E => C8 E Hne) (Hup (S L) ltac:(lia)) Hch Hfeed)
      as (-> & Hd3 & Hoffs3 & W1 & W2 & W3 & G1 & G2 & G3 & Hl3 & Hts3 & Hl3' & Hh3 & Hdts3 & Hdh3 & Hup3).
    destruct (Hup (S L) ltac:(lia)) as (_ & _ & (E1 & E2 & E3)).
    replace (py_epc d (S L)) with (py_q d) in E2 by (destruct L; [lia|reflexivity]).
    assert (Hcap2 : py_cap d (S L) = py_sumdf d) by (apply py_cap_ge2; lia).
    assert (Hadd : 0 <= pl_sum (py_lvl_get st L) / py_sumdf d < py_q d).
    { split; [apply Z.div_pos; lia|]. apply Z.div_lt_upper_bound; lia. }
    assert (Hsum3 : pl_sum (py_lvl_get st3 (S L)) = Z.of_nat (length (pl_idx (py_lvl_get st (S L)))) * py_q d + pl_sum (py_lvl_get st L) / py_sumdf d).
    { rewrite Hl3. cbn [appended pl_sum]. rewrite E2. reflexivity. }
    assert (Hlen3 : Z.of_nat (length (pl_idx (py_lvl_get st3 (S L)))) = Z.of_nat (length (pl_idx (py_lvl_get st (S L)))) + 1).
    { rewrite Hl3. cbn [appended pl_idx]. rewrite app_length. cbn [length]. lia. }
    assert (Hlt : pl_sum (py_lvl_get st3 (S L)) < py_eps d) by (rewrite Hsum3, Hepsq; rewrite Hcap2 in E1; nia).
    replace (py_eps d <=? pl_sum (py_lvl_get st3 (S L))) with false in Hrun by (symmetry; apply Z.leb_gt; exact Hlt).
    injection Hrun as <-.
    change (pw_disk (py_lvl_set st3 L (py_lvl_reset (py_lvl_get st3 L)))) with (pw_disk st3).
    rewrite lvl_get_set_eq. rewrite head_get_lvl_set.
    split; [exact W1|]. split; [reflexivity|]. split.
    { unfold LvlClose. change (pw_disk (py_lvl_set st3 L (py_lvl_reset (py_lvl_get st3 L)))) with (pw_disk st3).
      rewrite lvl_get_set_neq by lia. rewrite head_get_lvl_set.
      split; [exact G1|]. split; [exact G2|]. split; [lia|]. split; [rewrite Hsum3; nia|].
      split; [intro E; rewrite E in Hlen3; cbn in Hlen3; lia|]. split.
      { replace (py_epc d (S L)) with (py_q d) by (destruct L; [lia|reflexivity]). rewrite Hsum3, Hlen3. nia. }
      split; [intros _; exact Hts3|]. intro; lia. }
    split.
    { intros M HM. apply LvlRun_reset_other; [lia|]. apply Hup3; [lia|]. apply Hup. lia. }
    split; [exact Hoffs3|]. split.
    { exists [mk_chunk (pw_pos st) (PyIndex L) (pl_its (py_lvl_get st L)) (Z.of_nat (length (pl_idx (py_lvl_get st L)))) (pl_idx (py_lvl_get st L));
               mk_chunk (pw_pos st + 1) (PySummary L) (pl_sts (py_lvl_get st L)) (pl_sum (py_lvl_get st L)) []].
      split; [exact Hd3|]. split.
      { intros c [<-|[<-|[]]]; cbn; (split; [lia|discriminate]). }
      split.
      { intros M HM. rewrite lvl_get_set_neq by lia. rewrite head_get_lvl_set. split; [apply Hl3'; lia|apply Hh3; lia]. }
      split; [exact Hdts3|exact Hdh3]. }
    unfold ents. rewrite W3, map_app, concat_app. cbn. rewrite app_nil_r. reflexivity.
Qed.

(* ------------------------------------------------------------------ whole programs *)
Definition full_or_skip (o : py_op) : Prop :=
  match o with PyBlk n _ => n = py_spd d | PySkip k => 0 <= k end.
Definition is_skip (o : py_op) : Prop :=
  match o with PyBlk _ _ => False | PySkip k => 0 <= k end.

Lemma lvl_get_init : forall pos0 L, py_lvl_get (py_init t0 pos0) L = py_lvl0.
Proof. intros. unfold py_lvl_get, py_init; cbn. apply nth_nil_dflt. Qed.

Lemma RunInv_init : forall pos0, 0 < pos0 -> RunInv (py_init t0 pos0) [].
Proof.
  intros pos0 Hp. split; [|split; [|split]].
  - split; [exact Hp|]. split; [intros c []|constructor].
  - split; [cbn; lia|]. split; [cbn; tauto|]. split; [intros n om H; destruct (nth_error (@nil (Z*bool)) 0) eqn:E; cbn in H; discriminate|].
    split; [reflexivity|]. split; [intros c []|intros c []].
  - constructor.
  - intros L HL. unfold LvlRun. rewrite lvl_get_init. cbn [py_init pw_disk].
    pose proof (py_cap_pos d L Hcons). split; [|split].
    + split; [intros j c Hj; destruct j; discriminate|]. split.
      * destruct L as [|[|L]]; cbn; auto. split; auto. intros i o n om Hi. destruct i; discriminate.
      * unfold py_head_get; cbn. apply nth_nil_dflt.
    + intros c [].
    + split; [cbn; lia|]. split; [cbn; lia|]. cbn. congruence.
Qed.

Lemma skip_RunInv : forall st blks k, 0 <= k -> RunInv st blks ->
  RunInv {| pw_disk := pw_disk st; pw_pos := pw_pos st + k; pw_lvls := pw_lvls st;
            pw_heads := pw_heads st; pw_dts := pw_dts st; pw_dhead := pw_dhead st |} blks.
Proof.
  intros st blks k Hk ((Hp & Ho & Hnd) & Hd & Hf & Hl). split; [|split; [|split]]; auto.
  split; [cbn; lia|]. split; [|exact Hnd]. intros c Hc. specialize (Ho c Hc). cbn. lia.
Qed.

Lemma skip_CloseReady : forall st blks k, 0 <= k -> CloseReady st blks ->
  CloseReady {| pw_disk := pw_disk st; pw_pos := pw_pos st + k; pw_lvls := pw_lvls st;
                pw_heads := pw_heads st; pw_dts := pw_dts st; pw_dhead := pw_dhead st |} blks.
Proof.
  intros st blks k Hk ((Hp & Ho & Hnd) & Hd & Hb & Hc1 & Hl). split; [|split; [|split; [|split]]]; auto.
  split; [cbn; lia|]. split; [|exact Hnd]. intros c Hc. specialize (Ho c Hc). cbn. lia.
Qed.

Lemma started_of_dhead : forall st blks, RunInv st blks -> negb (pw_dhead st =? 0) = negb (py_nilb blks).
Proof.
  intros st blks (_ & (_ & D2 & _) & _). destruct blks as [|b r]; cbn.
  - replace (pw_dhead st =? 0) with true; [reflexivity|]. symmetry. apply Z.eqb_eq. apply D2. reflexivity.
  - replace (pw_dhead st =? 0) with false; [reflexivity|]. symmetry. apply Z.eqb_neq. intro E. apply D2 in E. discriminate.
Qed.

Lemma run_full_ops : forall ops st st' blks,
  RunInv st blks -> Forall full_or_skip ops -> py_do_all d ops st = PyOk st' ->
  RunInv st' (blks ++ py_blocks_from (negb (py_nilb blks)) ops).
Proof.
  induction ops as [|o ops IH]; intros st st' blks Hinv Hops Hrun.
  - cbn in Hrun. injection Hrun as <-. cbn. rewrite app_nil_r. exact Hinv.
  - inversion Hops as [|? ? Ho Hops']; subst. cbn [py_do_all] in Hrun. unfold py_bind in Hrun.
    destruct (py_do d o st) as [st1|e] eqn:Hdo; [|discriminate].
    destruct o as [n req|k]; cbn [py_do] in Hdo; cbn [full_or_skip] in Ho.
    + destruct Hcons as (_ & Hspd & _).
      destruct (blk_step st st1 blks n req Hinv ltac:(lia) Hdo) as (_ & HR & _). specialize (HR Ho).
      rewrite (started_of_dhead st blks Hinv) in HR.
      cbn [py_blocks_from]. specialize (IH st1 st' _ HR Hops' Hrun).
      rewrite <- app_assoc in IH. cbn [app] in IH.
      replace (negb (py_nilb (blks ++ [(n, req && negb (py_nilb blks))]))) with true in IH by (destruct blks; reflexivity).
      exact IH.
    + injection Hdo as <-. cbn [py_blocks_from]. eapply IH; [|exact Hops'|exact Hrun]. apply skip_RunInv; auto.
Qed.

Lemma run_skips : forall ops st st' blks,
  CloseReady st blks -> Forall is_skip ops -> py_do_all d ops st = PyOk st' ->
  CloseReady st' blks /\ forall s, py_blocks_from s ops = [].
Proof.
  induction ops as [|o ops IH]; intros st st' blks Hinv Hops Hrun.
  - cbn in Hrun. injection Hrun as <-. auto.
  - inversion Hops as [|? ? Ho Hops']; subst. destruct o as [n req|k]; cbn in Ho; [contradiction|].
    cbn [py_do_all py_do] in Hrun. unfold py_bind in Hrun.
    destruct (IH _ st' blks (skip_CloseReady st blks k Ho Hinv) Hops' Hrun) as (H1 & H2). split; auto.
Qed.

(* all blocks but the last full: the state at the call of jls_fsr_close *)
Lemma run_ops_CloseReady : forall pre n req post pos0 st,
  0 < pos0 -> Forall full_or_skip pre -> Forall is_skip post -> 1 <= n <= py_spd d ->
  py_do_all d (pre ++ PyBlk n req :: post) (py_init t0 pos0) = PyOk st ->
  CloseReady st (py_blocks (pre ++ PyBlk n req :: post)).
Proof.
  intros pre n req post pos0 st Hp Hpre Hpost Hn Hrun.
  assert (Hsplit : forall a b s, py_do_all d (a ++ b) s = py_bind (py_do_all d a s) (py_do_all d b)).
  { induction a as [|x a IHa]; intros b s; cbn; auto. destruct (py_do d x s); cbn; auto. }
  assert (Hbsplit : forall a b s, py_blocks_from s (a ++ b) = py_blocks_from s a ++ py_blocks_from (s || negb (py_nilb (py_blocks_from s a))) b).
  { induction a as [|x a IHa]; intros b s; cbn [app py_blocks_from].
    - cbn. rewrite orb_false_r. reflexivity.
    - destruct x as [m r|k]; cbn [py_blocks_from].
      + rewrite IHa. cbn [app py_nilb negb]. rewrite orb_true_r. cbn. reflexivity.
      + apply IHa. }
  rewrite Hsplit in Hrun. unfold py_bind in Hrun.
  destruct (py_do_all d pre (py_init t0 pos0)) as [st1|e] eqn:H1; [|discriminate].
  pose proof (run_full_ops pre _ st1 [] (RunInv_init pos0 Hp) Hpre H1) as HR1. cbn [app py_nilb negb] in HR1.
  cbn [py_do_all] in Hrun. unfold py_bind in Hrun.
  destruct (py_do d (PyBlk n req) st1) as [st2|e] eqn:H2; [|discriminate]. cbn [py_do] in H2.
  destruct (blk_step st1 st2 _ n req HR1 Hn H2) as (HC & _ & _).
  destruct (run_skips post st2 st _ HC Hpost Hrun) as (HC' & Hnil).
  unfold py_blocks. rewrite Hbsplit. cbn [py_blocks_from]. rewrite Hnil.
  rewrite (started_of_dhead st1 _ HR1) in HC'. cbn [orb]. exact HC'.
Qed.

(* ---- the structure after close ---- *)
Definition DataFin (st : py_wr) (blks : list (Z * bool)) : Prop :=
  (forall n om, nth_error blks 0 = Some (n, om) -> om = false) /\
  py_head_get st 0 = nth 0 (ents (pw_disk st) 1) 0 /\
  (forall c, In c (pw_disk st) -> pc_kind c = PyData -> exists i, nth_error (ents (pw_disk st) 1) i = Some (pc_off c)) /\
  (forall c, In c (pw_disk st) -> (py_chunk_level c <= 14)%nat /\ (pc_kind c = PyData \/ (1 <= py_chunk_level c)%nat)).

Definition FinInv (st : py_wr) (blks : list (Z * bool)) (T : nat) : Prop :=
  OffsOK st /\ DataFin st blks /\ BlksOK blks /\ (1 <= T <= 14)%nat /\
  (forall M, (1 <= M <= T)%nat -> LvlDisk M (pw_disk st) blks (py_head_get st M) [] /\ idxs (pw_disk st) M <> []) /\
  length (idxs (pw_disk st) T) = 1%nat /\
  (forall M, (T < M)%nat -> idxs (pw_disk st) M = [] /\ py_head_get st M = 0).

Definition Climb (L : nat) (st : py_wr) (blks : list (Z * bool)) : Prop :=
  OffsOK st /\ DataInv st blks /\ BlksOK blks /\
  (forall M, (1 <= M < L)%nat -> LvlDisk M (pw_disk st) blks (py_head_get st M) [] /\ pl_idx (py_lvl_get st M) = [] /\ idxs (pw_disk st) M <> []) /\
  LvlClose L st blks /\ forall M, (L < M)%nat -> LvlRun M st blks.

Lemma idxs_nil_of_ents_nil : forall L disk blks hd P,
  LvlDisk L disk blks hd P -> ents disk L = [] -> idxs disk L = [].
Proof.
  intros L disk blks hd P (H1 & _) He. destruct (idxs disk L) as [|c r] eqn:E; auto. exfalso.
  destruct (H1 0%nat c eq_refl) as (_ & C2 & C3 & _).
  unfold ents in He. rewrite E in He. cbn in He. apply app_eq_nil in He. destruct He as (He & _). rewrite He in C2. cbn in C2. lia.
Qed.

Lemma empty_above : forall st blks L n,
  (forall M, (L < M)%nat -> LvlRun M st blks) -> (1 <= L)%nat -> idxs (pw_disk st) L = [] ->
  idxs (pw_disk st) (L + S n) = [] /\ py_head_get st (L + S n) = 0 /\
  pl_idx (py_lvl_get st (L + S n)) = [] /\ pl_sum (py_lvl_get st (L + S n)) = 0.
Proof.
  intros st blks L n Hup HL H0. induction n as [|n IH].
  - replace (L + 1)%nat with (S L) by lia. destruct (Hup (S L) ltac:(lia)) as (HD & _ & (_ & E2 & _)).
    pose proof HD as (_ & Hsrc & Hh). destruct L as [|L]; [lia|]. cbn [src_ok pred] in Hsrc. rewrite H0 in Hsrc. cbn in Hsrc.
    apply app_eq_nil in Hsrc. destruct Hsrc as (He & HP).
    pose proof (idxs_nil_of_ents_nil _ _ _ _ _ HD He) as Hi. rewrite Hi in Hh. rewrite HP in E2. cbn in E2. auto.
  - destruct IH as (I1 & _). replace (L + S (S n))%nat with (S (L + S n)) by lia.
    destruct (Hup (S (L + S n)) ltac:(lia)) as (HD & _ & (_ & E2 & _)).
    pose proof HD as (_ & Hsrc & Hh). cbn [src_ok pred] in Hsrc. replace (L + S n)%nat with (S (L + n)) in * by lia. cbn [src_ok pred] in Hsrc.
    rewrite I1 in Hsrc. cbn in Hsrc. apply app_eq_nil in Hsrc. destruct Hsrc as (He & HP).
    pose proof (idxs_nil_of_ents_nil _ _ _ _ _ HD He) as Hi. rewrite Hi in Hh. rewrite HP in E2. cbn in E2. auto.
Qed.

Lemma done_loop : forall k L st,
  (L + k = 16)%nat -> (forall M, (L <= M)%nat -> pl_idx (py_lvl_get st M) = [] /\ pl_sum (py_lvl_get st M) = 0) ->
  py_close_loop k d L st = PyOk st.
Proof.
  induction k as [|k IH]; intros L st HLk Hemp; [reflexivity|].
  cbn [py_close_loop]. replace (16 - L)%nat with (S k) by lia. rewrite wr_summary_unfold.
  destruct (Hemp L ltac:(lia)) as (-> & ->). cbn. apply IH; [lia|]. intros M HM. apply Hemp. lia.
Qed.

Lemma src_nonempty_idxs : forall L disk blks hd,
  LvlDisk L disk blks hd [] -> (L = 1%nat -> blks <> []) -> ((2 <= L)%nat -> idxs disk (pred L) <> []) -> (1 <= L)%nat ->
  idxs disk L <> [].
Proof.
  intros L disk blks hd (_ & Hsrc & _) H1 H2 HL E. rewrite app_nil_r in Hsrc. unfold ents in Hsrc. rewrite E in Hsrc. cbn in Hsrc.
  destruct L as [|[|L]]; [lia| |]; cbn [src_ok pred] in Hsrc.
  - destruct Hsrc as (Hl & _). cbn in Hl. destruct blks; [apply H1; auto|discriminate].
  - apply (H2 ltac:(lia)). cbn [pred]. destruct (idxs disk (S L)); [reflexivity|discriminate].
Qed.

Lemma climb_loop : forall k L st st' blks,
  (L + k = 16)%nat -> (1 <= L)%nat -> Climb L st blks ->
  py_close_loop k d L st = PyOk st' -> exists T, FinInv st' blks T.
Proof.
  induction k as [|k IH]; intros L st st' blks HLk HL (Hoffs & Hdata & Hbok & Hlow & Hcl & Hup) Hrun.
  - exfalso. destruct (Hlow 15%nat ltac:(lia)) as (_ & _ & Hne).
    destruct (idxs (pw_disk st) 15) as [|c r] eqn:E; [congruence|].
    assert (Hin : In c (idxs (pw_disk st) 15)) by (rewrite E; left; auto).
    apply idxs_In in Hin. destruct Hin as (Hin & Hk). destruct Hdata as (_ & _ & _ & _ & _ & D6).
    destruct (D6 c Hin) as (D6a & _). unfold py_chunk_level in D6a. rewrite Hk in D6a. lia.
  - cbn [py_close_loop] in Hrun. replace (16 - L)%nat with (S k) in Hrun by lia. unfold py_bind in Hrun.
    destruct (py_wr_summary (S k) d L st) as [st1|e] eqn:Hws; [|discriminate].
    destruct (close_step L k st st1 blks HL ltac:(lia) Hoffs Hcl Hup Hws)
      as [(A1 & A2 & A3 & A4 & A5 & (new & Hd1 & Hnew & Hlowf & Hdts1 & Hdh1) & A7)|(-> & B2 & B3 & B4 & B5)].
    + (* level L is final; go on with L+1 *)
      apply (IH (S L) st1 st' blks); auto; try lia.
      assert (Hknew : forall M c, (M <= L)%nat -> In c new -> pc_kind c <> PyIndex (pred M) /\ (M < L -> pc_kind c <> PyIndex M)%nat).
      { intros M c HM Hc. destruct (Hnew c Hc) as ((Hl & _) & _). split; [|intro]; eapply level_kind_ne; eauto; lia. }
      assert (Hlow1 : forall M, (1 <= M < L)%nat ->
                LvlDisk M (pw_disk st1) blks (py_head_get st1 M) [] /\ pl_idx (py_lvl_get st1 M) = [] /\ idxs (pw_disk st1) M <> []).
      { intros M HM. destruct (Hlow M HM) as (L1 & L2 & L3). destruct (Hlowf M ltac:(lia)) as (-> & ->). rewrite Hd1.
        split; [|split; auto].
        - apply LvlDisk_frame; auto. intros c Hc. destruct (Hknew M c ltac:(lia) Hc) as (K1 & K2). split; auto. apply K2; lia.
        - rewrite idxs_app_none; auto. intros c Hc. destruct (Hknew M c ltac:(lia) Hc) as (K1 & K2). apply K2; lia. }
      split; [exact A5|]. split.
      { (* DataInv is about level 1 only *)
        destruct Hdata as (D1 & D2 & D3 & D4 & D5 & D6).
        assert (HB : ents (pw_disk st1) 1 ++ pl_idx (py_lvl_get st1 1) = ents (pw_disk st) 1 ++ pl_idx (py_lvl_get st 1)).
        { destruct (Nat.eq_dec L 1) as [->|HL1].
          - rewrite A2, app_nil_r. exact A7.
          - destruct (Hlowf 1%nat ltac:(lia)) as (-> & _). rewrite Hd1, ents_app_none; auto.
            intros c Hc. destruct (Hnew c Hc) as ((Hl & _) & _). eapply level_kind_ne; eauto. lia. }
        split; [rewrite Hdts1; exact D1|]. split; [rewrite Hdh1; exact D2|]. split; [exact D3|].
        split; [rewrite HB; destruct (Hlowf 0%nat ltac:(lia)) as (_ & ->); exact D4|]. split.
        - intros c Hc Hk. rewrite HB. rewrite Hd1 in Hc. apply in_app_or in Hc. destruct Hc as [Hc|Hc]; [apply D5; auto|].
          destruct (Hnew c Hc) as (_ & Hnd). congruence.
        - intros c Hc. rewrite Hd1 in Hc. apply in_app_or in Hc. destruct Hc as [Hc|Hc]; [apply D6; auto|].
          destruct (Hnew c Hc) as ((Hl0 & Hl) & _). split; [exact Hl|right; lia]. }
      split; [exact Hbok|]. split; [|split; [exact A3|exact A4]].
      intros M HM. destruct (Nat.eq_dec M L) as [->|HML]; [|apply Hlow1; lia].
      split; [exact A1|]. split; [exact A2|].
      eapply src_nonempty_idxs; eauto.
      * intros ->. destruct Hbok; auto.
      * intros HL2. destruct (Hlow1 (pred L) ltac:(lia)) as (_ & _ & Hne). exact Hne.
    + (* the level is dropped: everything above is empty *)
      assert (Hemp : forall M, (L < M)%nat -> idxs (pw_disk st) M = [] /\ py_head_get st M = 0 /\
                        pl_idx (py_lvl_get st M) = [] /\ pl_sum (py_lvl_get st M) = 0).
      { intros M HM. replace M with (L + S (M - L - 1))%nat by lia. eapply empty_above; eauto. }
      rewrite (done_loop k (S L) st) in Hrun; [|lia|intros M HM; destruct (Hemp M ltac:(lia)) as (_ & _ & E1 & E2); auto].
      injection Hrun as <-. exists (pred L).
      destruct (Hlow 1%nat ltac:(lia)) as (_ & HP1 & _).
      destruct Hdata as (D1 & D2 & D3 & D4 & D5 & D6). rewrite HP1, app_nil_r in D4, D5.
      split; [exact Hoffs|]. split; [split; [exact D3|split; [exact D4|split; [exact D5|exact D6]]]|].
      split; [exact Hbok|]. split; [lia|]. split.
      { intros M HM. destruct (Hlow M ltac:(lia)) as (L1 & _ & L3). auto. }
      split; [exact B4|]. intros M HM. destruct (Nat.eq_dec M L) as [->|HML]; [auto|].
      destruct (Hemp M ltac:(lia)) as (E1 & E2 & _). auto.
Qed.

(* pyramid of a closed signal *)
Lemma run_FinInv : forall pre n req post pos0 st,
  0 < pos0 -> Forall full_or_skip pre -> Forall is_skip post -> 1 <= n <= py_spd d ->
  py_run d t0 pos0 (pre ++ PyBlk n req :: post) = PyOk st ->
  exists T, FinInv st (py_blocks (pre ++ PyBlk n req :: post)) T.
Proof.
  intros pre n req post pos0 st Hp Hpre Hpost Hn Hrun. unfold py_run in Hrun.
  destruct (py_div_ok d); [|discriminate]. unfold py_bind in Hrun.
  destruct (py_do_all d (pre ++ PyBlk n req :: post) (py_init t0 pos0)) as [st1|e] eqn:H1; [|discriminate].
  pose proof (run_ops_CloseReady pre n req post pos0 st1 Hp Hpre Hpost Hn H1) as (Ho & Hd & Hb & Hc1 & Hl).
  unfold py_close in Hrun. eapply (climb_loop 15 1 st1 st); eauto.
  split; [exact Ho|]. split; [exact Hd|]. split; [exact Hb|]. split; [intros M HM; lia|]. split; [exact Hc1|].
  intros M HM. apply Hl. lia.
Qed.


(* ------------------------------------------------------------------ 4b. the only writer fault is level[16] *)
Definition only_oob (r : py_res py_wr) : Prop :=
  match r with PyOk _ => True | PyErr e => e = PE_Fault PF_LevelOOB end.

Lemma append_ok : forall M pos add its sts st,
  Z.of_nat (length (pl_idx (py_lvl_get st M))) < py_cap d M ->
  pl_sum (py_lvl_get st M) + add <= py_eps d ->
  py_append d M pos add its sts st = PyOk (py_lvl_set st M (appended (py_lvl_get st M) pos add its sts)).
Proof.
  intros M pos add its sts st H1 H2. unfold py_append.
  replace (py_cap d M <=? Z.of_nat (length (pl_idx (py_lvl_get st M)))) with false by (symmetry; apply Z.leb_gt; lia).
  replace (py_eps d <? pl_sum (py_lvl_get st M) + add) with false by (symmetry; apply Z.ltb_ge; lia).
  reflexivity.
Qed.

Lemma flush_run_total : forall f L st blks,
  (L + S f = 16)%nat -> (1 <= L)%nat -> OffsOK st ->
  FullPre L st blks -> (forall M, (L < M)%nat -> LvlRun M st blks) ->
  only_oob (py_wr_summary (S f) d L st).
Proof.
  induction f as [|f IH]; intros L st blks HLf HL Hoffs Hpre Hup;
    destruct Hpre as (P1 & P2 & P3 & P4 & P5 & P6 & P7);
    pose proof (py_cap_pos d L Hcons) as Hcp;
    destruct (py_cons_facts d Hcons) as (_ & _ & _ & _ & _ & Hsumdf & Hq & Hepsq & Heps & _);
    rewrite wr_summary_unfold;
    (replace (pl_sum (py_lvl_get st L) =? 0) with false by (symmetry; apply Z.eqb_neq; lia));
    cbn [andb];
    destruct (py_wr_chunks L st) as (st2, pos) eqn:Hch; [reflexivity|].
  assert (Hne : pl_idx (py_lvl_get st L) <> []) by (intro E; rewrite E in P3; cbn in P3; lia).
  assert (H1b : L = 1%nat -> exists n om,
     nth_error blks (length (idxs (pw_disk st) L) * Z.to_nat (py_cap d 1) + length (pl_idx (py_lvl_get st L)) - 1) = Some (n, om) /\
     pl_sum (py_lvl_get st L) = py_epd d * (Z.of_nat (length (pl_idx (py_lvl_get st L))) - 1) + n / py_sdf d).
  { intro E1. destruct (P7 E1) as (n & om & Hn & He). exists n, om. split; auto. rewrite P4, P3. subst L. exact He. }
  destruct (Hup (S L) ltac:(lia)) as (HS1 & HS2 & (E1 & E2 & E3)).
  replace (py_epc d (S L)) with (py_q d) in E2 by (destruct L; [lia|reflexivity]).
  assert (Hcap2 : py_cap d (S L) = py_sumdf d) by (apply py_cap_ge2; lia).
  assert (Hadd : pl_sum (py_lvl_get st L) / py_sumdf d = py_q d).
  { rewrite P4, Hepsq, Z.mul_comm, Z.div_mul by lia. reflexivity. }
  (* the feed cannot overflow *)
  destruct (wr_chunks_spec L st Hne) as (st2' & Ech & Hd2 & Hp2 & Hl2 & _). rewrite Hch in Ech. injection Ech as <- ->.
  assert (Hg2 : forall M, py_lvl_get st2 M = py_lvl_get st M) by (intro M; unfold py_lvl_get; rewrite Hl2; reflexivity).
  unfold py_bind.
  assert (Hfeed : py_feed d (S L) (pw_pos st) st2 =
            PyOk (py_lvl_set st2 (S L) (appended (py_lvl_get st2 (S L)) (pw_pos st) (pl_sum (py_lvl_get st2 L) / py_sumdf d)
                                      (pl_its (py_lvl_get st2 L)) (pl_sts (py_lvl_get st2 L))))).
  { unfold py_feed. cbn [pred]. apply append_ok; rewrite !Hg2; [lia|]. rewrite Hadd, E2, Hepsq. rewrite Hcap2 in E1. nia. }
  rewrite Hfeed. set (st3 := py_lvl_set st2 (S L) _) in *.
  destruct (write_feed_step L st st2 st3 (pw_pos st) blks HL Hoffs P1 P2 Hne ltac:(lia) P5 P6 H1b (Hup (S L) ltac:(lia)) Hch Hfeed)
    as (_ & Hd3 & Hoffs3 & W1 & W2 & W3 & G1 & G2 & G3 & Hl3 & Hts3 & Hl3' & Hh3 & Hdts3 & Hdh3 & Hup3).
  assert (Hsum3 : pl_sum (py_lvl_get st3 (S L)) = (Z.of_nat (length (pl_idx (py_lvl_get st (S L)))) + 1) * py_q d).
  { rewrite Hl3. cbn [appended pl_sum]. rewrite Hadd, E2. ring. }
  assert (Hlen3 : Z.of_nat (length (pl_idx (py_lvl_get st3 (S L)))) = Z.of_nat (length (pl_idx (py_lvl_get st (S L)))) + 1).
  { rewrite Hl3. cbn [appended pl_idx]. rewrite app_length. cbn [length]. lia. }
  destruct (py_eps d <=? pl_sum (py_lvl_get st3 (S L))) eqn:Hflush; [|exact I].
  assert (Hfull3 : Z.of_nat (length (pl_idx (py_lvl_get st3 (S L)))) = py_cap d (S L)).
  { apply Z.leb_le in Hflush. rewrite Hsum3, Hepsq in Hflush. rewrite Hlen3, Hcap2. rewrite Hcap2 in E1. nia. }
  assert (Hrec : only_oob (py_wr_summary (S f) d (S L) st3)).
  { apply (IH (S L) st3 blks); auto; try lia.
    - split; [exact G1|]. split; [exact G2|]. split; [exact Hfull3|]. split.
      { rewrite Hsum3, Hepsq. rewrite Hlen3, Hcap2 in Hfull3. rewrite <- Hfull3. ring. }
      split; [apply Hts3|]. split; [apply Hts3|]. intro; lia.
    - intros M HM. apply Hup3; [lia|]. apply Hup. lia. }
  destruct (py_wr_summary (S f) d (S L) st3); [exact I|exact Hrec].
Qed.

Lemma summary1_total : forall st st1 blks n om newd posv,
  RunInv st blks -> 1 <= n <= py_spd d ->
  pw_disk st1 = pw_disk st ++ newd ->
  ((newd = [] /\ posv = 0 /\ om = true) \/
   (newd = [mk_chunk posv PyData (t0 + Z.of_nat (length blks) * py_spd d) n []] /\ om = false)) ->
  OffsOK st1 -> pw_lvls st1 = pw_lvls st ->
  (forall M, (1 <= M)%nat -> py_head_get st1 M = py_head_get st M) -> pw_dts st1 = pw_dts st ->
  only_oob (py_summary1 d n posv st1).
Proof.
  intros st st1 blks n om newd posv (Hoffs & Hdata & Hfull & Hlv) Hn Hd1 Hnew Hoffs1 Hl1 Hh1 Hdts1.
  destruct Hdata as (D1 & _).
  destruct (py_cons_facts d Hcons) as (Hsdf & Hepd & Hspd & Hcap1 & Heps1 & _).
  destruct (div_sdf_bound n Hn) as (Hdiv & Hdiv1 & Hdiv2).
  assert (Hg1 : forall M, py_lvl_get st1 M = py_lvl_get st M) by (intro M; unfold py_lvl_get; rewrite Hl1; reflexivity).
  assert (Hkd : forall c, In c newd -> pc_kind c = PyData).
  { intros c Hc. destruct Hnew as [(-> & _)|(-> & _)]; [destruct Hc|]. destruct Hc as [<-|[]]. reflexivity. }
  assert (Hup1 : forall M, (2 <= M)%nat -> LvlRun M st1 (blks ++ [(n, om)])).
  { intros M HM. unfold LvlRun. rewrite Hd1, Hg1, Hh1 by lia. apply LvlRunC_frame.
    - eapply LvlRun_blks_ext; eauto. apply Hlv. lia.
    - intros c Hc. rewrite (Hkd c Hc). split; discriminate. }
  destruct (Hlv 1%nat ltac:(lia)) as (L1 & F1 & (E1 & E2 & E3)). cbn [py_epc] in E2.
  destruct (LvlDisk1_blk _ _ _ _ newd posv n om L1 Hnew) as (L1' & Hi1).
  assert (F1' : AllFull 1 (pw_disk st1)).
  { rewrite Hd1. apply AllFull_frame; auto. intros c Hc. rewrite (Hkd c Hc). discriminate. }
  unfold py_summary1, py_bind.
  rewrite append_ok; [|rewrite Hg1; lia|rewrite Hg1, E2, Heps1; nia].
  rewrite Hg1.
  set (lv' := appended (py_lvl_get st 1) posv (n / py_sdf d) (pw_dts st1) (pw_dts st1)) in *.
  set (st1a := py_lvl_set st1 1 lv') in *.
  assert (Hla : py_lvl_get st1a 1 = lv') by apply lvl_get_set_eq.
  assert (Hla' : forall M, M <> 1%nat -> py_lvl_get st1a M = py_lvl_get st M).
  { intros M HM. unfold st1a. rewrite lvl_get_set_neq by congruence. apply Hg1. }
  assert (Hlen' : Z.of_nat (length (pl_idx lv')) = Z.of_nat (length (pl_idx (py_lvl_get st 1))) + 1).
  { unfold lv'. cbn [appended pl_idx]. rewrite app_length. cbn [length]. lia. }
  assert (Hsum' : pl_sum lv' = Z.of_nat (length (pl_idx (py_lvl_get st 1))) * py_epd d + n / py_sdf d).
  { unfold lv'. cbn [appended pl_sum]. rewrite E2. reflexivity. }
  assert (Hlb : length (ents (pw_disk st) 1 ++ pl_idx (py_lvl_get st 1)) = length blks) by (destruct L1 as (_ & (Hl & _) & _); exact Hl).
  assert (Hel : length (ents (pw_disk st) 1) = (length (idxs (pw_disk st) 1) * Z.to_nat (py_cap d 1))%nat).
  { apply AllFull_len_ents; auto. destruct L1 as (Hck & _). intros j c Hj. destruct (Hck j c Hj) as (_ & C & _). exact C. }
  assert (Hts' : pl_its lv' = t0 + Z.of_nat (length (idxs (pw_disk st1) 1)) * py_span d 1 /\ pl_sts lv' = pl_its lv').
  { unfold lv'. cbn [appended pl_its pl_sts]. rewrite Hd1, Hi1.
    destruct (pl_idx (py_lvl_get st 1)) as [|e es] eqn:EP; cbn [py_nilb].
    - split; [|reflexivity]. rewrite Hdts1, D1. rewrite app_nil_r in Hlb. rewrite <- Hlb, Hel.
      rewrite py_span_eq, py_step_1 by lia. rewrite Nat2Z.inj_mul, Z2Nat.id by lia. ring.
    - apply E3. discriminate. }
  assert (Hidx1a : idxs (pw_disk st1a) 1 = idxs (pw_disk st) 1) by (change (pw_disk st1a) with (pw_disk st1); rewrite Hd1; exact Hi1).
  assert (Hlast : nth_error (blks ++ [(n, om)]) (length (idxs (pw_disk st) 1) * Z.to_nat (py_cap d 1) + length (pl_idx lv') - 1) = Some (n, om)).
  { rewrite app_length in Hlb. replace (length (idxs (pw_disk st) 1) * Z.to_nat (py_cap d 1) + length (pl_idx lv') - 1)%nat with (length blks) by lia.
    apply nth_error_snoc_last. }
  assert (HLd1a : LvlDisk 1 (pw_disk st1a) (blks ++ [(n, om)]) (py_head_get st1a 1) (pl_idx (py_lvl_get st1a 1))).
  { rewrite Hla. change (pw_disk st1a) with (pw_disk st1). change (py_head_get st1a 1) with (py_head_get st1 1).
    rewrite Hh1, Hd1 by lia. exact L1'. }
  assert (Hup1a : forall M, (2 <= M)%nat -> LvlRun M st1a (blks ++ [(n, om)])).
  { intros M HM. unfold LvlRun. rewrite Hla' by lia. rewrite <- Hg1. apply Hup1; auto. }
  assert (Hoffs1a : OffsOK st1a) by exact Hoffs1.
  destruct (py_eps d <=? pl_sum (py_lvl_get st1a 1)) eqn:Hflush; [|exact I].
  apply Z.leb_le in Hflush. rewrite Hla, Hsum' in Hflush.
  assert (Hlenc : Z.of_nat (length (pl_idx (py_lvl_get st 1))) + 1 = py_cap d 1) by nia.
  assert (Hne : n / py_sdf d = py_epd d) by nia.
  apply (flush_run_total 14 1 st1a (blks ++ [(n, om)])); auto; try lia; try (intros M HM; apply Hup1a; lia).
  split; [exact HLd1a|]. split; [exact F1'|]. rewrite Hla. split; [lia|]. split; [rewrite Hsum'; nia|].
    split; [rewrite Hidx1a; rewrite Hd1, Hi1 in Hts'; apply Hts'|]. split; [apply Hts'|].
    intros _. exists n, om. rewrite Hidx1a. split; [exact Hlast|]. rewrite Hne. nia.
Qed.

Lemma wr_data_total : forall st blks n req,
  RunInv st blks -> 1 <= n <= py_spd d -> only_oob (py_wr_data d n req st).
Proof.
  intros st blks n req Hinv Hn.
  pose proof Hinv as (Hoffs & (D1 & D2 & D3 & D4 & D5 & D6) & Hfull & Hlv).
  destruct Hoffs as (Hpos & Hoff & Hnd).
  unfold py_wr_data. replace (n =? 0) with false by (symmetry; apply Z.eqb_neq; lia).
  set (om := req && negb (pw_dhead st =? 0)) in *.
  unfold py_bind.
  match goal with |- only_oob (match py_summary1 d n ?pv ?s1 with _ => _ end) => set (posv := pv) in *; set (st1 := s1) in * end.
  set (newd := if om then [] else [mk_chunk (pw_pos st) PyData (t0 + Z.of_nat (length blks) * py_spd d) n []]).
  assert (Hd1 : pw_disk st1 = pw_disk st ++ newd).
  { unfold st1, newd. destruct om; [rewrite app_nil_r; reflexivity|].
    cbn [pw_disk]. destruct (set_head_fields (py_emit st PyData (pw_dts st) n []) 0 (pw_pos st)) as (F1 & _). rewrite F1. cbn. rewrite D1. reflexivity. }
  assert (Hnewd : (newd = [] /\ posv = 0 /\ om = true) \/
                  (newd = [mk_chunk posv PyData (t0 + Z.of_nat (length blks) * py_spd d) n []] /\ om = false)).
  { unfold newd, posv. destruct om; [left; auto|right; auto]. }
  assert (Hl1 : pw_lvls st1 = pw_lvls st).
  { unfold st1. destruct om; [reflexivity|]. cbn [pw_lvls].
    destruct (set_head_fields (py_emit st PyData (pw_dts st) n []) 0 (pw_pos st)) as (_ & _ & F3 & _). rewrite F3. reflexivity. }
  assert (Hh1 : forall M, py_head_get st1 M = if om then py_head_get st M else
                    if (Nat.eqb M 0) && (py_head_get st 0 =? 0) then pw_pos st else py_head_get st M).
  { intro M. unfold st1. destruct om; [reflexivity|].
    exact (head_get_set_head (py_emit st PyData (pw_dts st) n []) 0 (pw_pos st) M). }
  assert (Hdts1 : pw_dts st1 = pw_dts st).
  { unfold st1. destruct om; [reflexivity|]. cbn [pw_dts].
    destruct (set_head_fields (py_emit st PyData (pw_dts st) n []) 0 (pw_pos st)) as (_ & _ & _ & F4 & _). rewrite F4. reflexivity. }
  assert (Hp1 : pw_pos st1 = if om then pw_pos st else pw_pos st + 1).
  { unfold st1. destruct om; [reflexivity|]. cbn [pw_pos].
    destruct (set_head_fields (py_emit st PyData (pw_dts st) n []) 0 (pw_pos st)) as (_ & F2 & _). rewrite F2. reflexivity. }
  assert (Hoffs1 : OffsOK st1).
  { unfold OffsOK. rewrite Hd1, Hp1. unfold newd. destruct om.
    - rewrite app_nil_r. auto.
    - split; [lia|]. split.
      + intros c Hc. apply in_app_or in Hc. destruct Hc as [Hc|[<-|[]]]; [specialize (Hoff c Hc); lia|cbn; lia].
      + rewrite map_app. cbn [map]. apply NoDup_snoc; auto. intro Hin. apply in_map_iff in Hin.
        destruct Hin as (c & Hc & Hin). specialize (Hoff c Hin). cbn in Hc. lia. }
  assert (Hs : only_oob (py_summary1 d n posv st1)).
  { apply (summary1_total st st1 blks n om newd posv); auto.
    intros M HM. rewrite Hh1. destruct om; auto. replace (Nat.eqb M 0) with false by (symmetry; apply Nat.eqb_neq; lia). reflexivity. }
  destruct (py_summary1 d n posv st1); [exact I|exact Hs].
Qed.

Lemma do_all_full_total : forall ops st blks,
  RunInv st blks -> Forall full_or_skip ops -> only_oob (py_do_all d ops st).
Proof.
  induction ops as [|o ops IH]; intros st blks Hinv Hops; [exact I|].
  inversion Hops as [|? ? Ho Hops']; subst. cbn [py_do_all]. unfold py_bind.
  destruct o as [n req|k]; cbn [py_do]; cbn [full_or_skip] in Ho.
  - pose proof Hcons as (_ & Hspd & _).
    pose proof (wr_data_total st blks n req Hinv ltac:(lia)) as Ht.
    destruct (py_wr_data d n req st) as [st1|e] eqn:Hdo; [|exact Ht].
    destruct (blk_step st st1 blks n req Hinv ltac:(lia) Hdo) as (_ & HR & _).
    exact (IH st1 _ (HR Ho) Hops').
  - exact (IH _ blks (skip_RunInv st blks k Ho Hinv) Hops').
Qed.

Lemma close_step_total : forall L f st blks,
  (1 <= L)%nat -> (L + S f = 16)%nat -> OffsOK st ->
  LvlClose L st blks -> (forall M, (L < M)%nat -> LvlRun M st blks) ->
  only_oob (py_wr_summary (S f) d L st).
Proof.
  intros L f st blks HL HLf Hoffs (C1 & C2 & C3 & C4 & C5 & C6 & C7 & C8) Hup.
  pose proof (py_epc_pos d L Hcons) as Hepc.
  destruct (py_cons_facts d Hcons) as (_ & _ & _ & _ & _ & Hsumdf & Hq & Hepsq & Heps & _).
  rewrite wr_summary_unfold.
  destruct ((pl_sum (py_lvl_get st L) =? 0) && (py_nilb (pl_idx (py_lvl_get st L)) || ((1 <? L)%nat && (py_head_get st L =? 0)))) eqn:Hg; [exact I|].
  assert (Hne : pl_idx (py_lvl_get st L) <> []).
  { intro E. rewrite (C5 E), E in Hg. cbn in Hg. discriminate. }
  destruct (py_wr_chunks L st) as (st2, pos) eqn:Hch.
  destruct f as [|f]; [reflexivity|].
  destruct C7 as (C7a & C7b); auto.
  destruct (Hup (S L) ltac:(lia)) as (HS1 & HS2 & (E1 & E2 & E3)).
  replace (py_epc d (S L)) with (py_q d) in E2 by (destruct L; [lia|reflexivity]).
  assert (Hcap2 : py_cap d (S L) = py_sumdf d) by (apply py_cap_ge2; lia).
  assert (Hadd : 0 <= pl_sum (py_lvl_get st L) / py_sumdf d < py_q d).
  { split; [apply Z.div_pos; lia|]. apply Z.div_lt_upper_bound; lia. }
  destruct (wr_chunks_spec L st Hne) as (st2' & Ech & Hd2 & Hp2 & Hl2 & _). rewrite Hch in Ech. injection Ech as <- ->.
  assert (Hg2 : forall M, py_lvl_get st2 M = py_lvl_get st M) by (intro M; unfold py_lvl_get; rewrite Hl2; reflexivity).
  unfold py_bind.
  assert (Hfeed : py_feed d (S L) (pw_pos st) st2 =
            PyOk (py_lvl_set st2 (S L) (appended (py_lvl_get st2 (S L)) (pw_pos st) (pl_sum (py_lvl_get st2 L) / py_sumdf d)
                                      (pl_its (py_lvl_get st2 L)) (pl_sts (py_lvl_get st2 L))))).
  { unfold py_feed. cbn [pred]. apply append_ok; rewrite !Hg2; [lia|]. rewrite E2, Hepsq. rewrite Hcap2 in E1. nia. }
  rewrite Hfeed. set (st3 := py_lvl_set st2 (S L) _) in *.
  destruct (write_feed_step L st st2 st3 (pw_pos st) blks HL Hoffs C1 C2 Hne C3 C7a C7b (fun E => C8 E Hne) (Hup (S L) ltac:(lia)) Hch Hfeed)
    as (_ & _ & _ & _ & _ & _ & _ & _ & _ & Hl3 & _).
  assert (Hsum3 : pl_sum (py_lvl_get st3 (S L)) = Z.of_nat (length (pl_idx (py_lvl_get st (S L)))) * py_q d + pl_sum (py_lvl_get st L) / py_sumdf d).
  { rewrite Hl3. cbn [appended pl_sum]. rewrite E2. reflexivity. }
  assert (Hlt : pl_sum (py_lvl_get st3 (S L)) < py_eps d) by (rewrite Hsum3, Hepsq; rewrite Hcap2 in E1; nia).
  replace (py_eps d <=? pl_sum (py_lvl_get st3 (S L))) with false by (symmetry; apply Z.leb_gt; exact Hlt).
  exact I.
Qed.

(* one step of the close loop keeps the loop invariant, or everything above is empty *)
Lemma climb_step : forall L k st st1 blks,
  (L + S k = 16)%nat -> (1 <= L)%nat -> Climb L st blks ->
  py_wr_summary (S k) d L st = PyOk st1 ->
  Climb (S L) st1 blks \/
  (forall M, (S L <= M)%nat -> pl_idx (py_lvl_get st1 M) = [] /\ pl_sum (py_lvl_get st1 M) = 0).
Proof.
  intros L k st st1 blks HLk HL (Hoffs & Hdata & Hbok & Hlow & Hcl & Hup) Hws.
  destruct (close_step L k st st1 blks HL ltac:(lia) Hoffs Hcl Hup Hws)
    as [(A1 & A2 & A3 & A4 & A5 & (new & Hd1 & Hnew & Hlowf & Hdts1 & Hdh1) & A7)|(-> & B2 & B3 & B4 & B5)].
  - left.
    assert (Hknew : forall M c, (M <= L)%nat -> In c new -> pc_kind c <> PyIndex (pred M) /\ (M < L -> pc_kind c <> PyIndex M)%nat).
    { intros M c HM Hc. destruct (Hnew c Hc) as ((Hl & _) & _). split; [|intro]; eapply level_kind_ne; eauto; lia. }
    assert (Hlow1 : forall M, (1 <= M < L)%nat ->
              LvlDisk M (pw_disk st1) blks (py_head_get st1 M) [] /\ pl_idx (py_lvl_get st1 M) = [] /\ idxs (pw_disk st1) M <> []).
    { intros M HM. destruct (Hlow M HM) as (L1 & L2 & L3). destruct (Hlowf M ltac:(lia)) as (-> & ->). rewrite Hd1.
      split; [|split; auto].
      - apply LvlDisk_frame; auto. intros c Hc. destruct (Hknew M c ltac:(lia) Hc) as (K1 & K2). split; auto. apply K2; lia.
      - rewrite idxs_app_none; auto. intros c Hc. destruct (Hknew M c ltac:(lia) Hc) as (K1 & K2). apply K2; lia. }
    split; [exact A5|]. split.
    { destruct Hdata as (D1 & D2 & D3 & D4 & D5 & D6).
      assert (HB : ents (pw_disk st1) 1 ++ pl_idx (py_lvl_get st1 1) = ents (pw_disk st) 1 ++ pl_idx (py_lvl_get st 1)).
      { destruct (Nat.eq_dec L 1) as [->|HL1].
        - rewrite A2, app_nil_r. exact A7.
        - destruct (Hlowf 1%nat ltac:(lia)) as (-> & _). rewrite Hd1, ents_app_none; auto.
          intros c Hc. destruct (Hnew c Hc) as ((Hl & _) & _). eapply level_kind_ne; eauto. lia. }
      split; [rewrite Hdts1; exact D1|]. split; [rewrite Hdh1; exact D2|]. split; [exact D3|].
      split; [rewrite HB; destruct (Hlowf 0%nat ltac:(lia)) as (_ & ->); exact D4|]. split.
      - intros c Hc Hk. rewrite HB. rewrite Hd1 in Hc. apply in_app_or in Hc. destruct Hc as [Hc|Hc]; [apply D5; auto|].
        destruct (Hnew c Hc) as (_ & Hnd). congruence.
      - intros c Hc. rewrite Hd1 in Hc. apply in_app_or in Hc. destruct Hc as [Hc|Hc]; [apply D6; auto|].
        destruct (Hnew c Hc) as ((Hl0 & Hl) & _). split; [exact Hl|right; lia]. }
    split; [exact Hbok|]. split; [|split; [exact A3|exact A4]].
    intros M HM. destruct (Nat.eq_dec M L) as [->|HML]; [|apply Hlow1; lia].
    split; [exact A1|]. split; [exact A2|].
    eapply src_nonempty_idxs; eauto.
    + intros ->. destruct Hbok; auto.
    + intros HL2. destruct (Hlow1 (pred L) ltac:(lia)) as (_ & _ & Hne). exact Hne.
  - right. intros M HM. replace M with (L + S (M - L - 1))%nat by lia.
    destruct (empty_above st blks L (M - L - 1) Hup HL B3) as (_ & _ & E1 & E2). auto.
Qed.

Lemma close_loop_total : forall k L st blks,
  (L + k = 16)%nat -> (1 <= L)%nat -> Climb L st blks -> only_oob (py_close_loop k d L st).
Proof.
  induction k as [|k IH]; intros L st blks HLk HL Hc; [exact I|].
  cbn [py_close_loop]. replace (16 - L)%nat with (S k) by lia. unfold py_bind.
  pose proof Hc as (Hoffs & _ & _ & _ & Hcl & Hup).
  pose proof (close_step_total L k st blks HL ltac:(lia) Hoffs Hcl Hup) as Ht.
  destruct (py_wr_summary (S k) d L st) as [st1|e] eqn:Hws; [|exact Ht].
  destruct (climb_step L k st st1 blks ltac:(lia) HL Hc Hws) as [Hc1|Hemp].
  - apply (IH (S L) st1 blks); auto; lia.
  - rewrite (done_loop k (S L) st1); [exact I|lia|exact Hemp].
Qed.

Lemma skips_ok : forall ops st, Forall is_skip ops -> exists st', py_do_all d ops st = PyOk st'.
Proof.
  induction ops as [|o ops IH]; intros st Hops; [exists st; reflexivity|].
  inversion Hops as [|? ? Ho Hops']; subst. destruct o as [n req|k]; cbn in Ho; [contradiction|].
  cbn [py_do_all py_do py_bind]. apply IH; auto.
Qed.

(* for every consistent definition and every program, the writer either succeeds or runs out of its 16 levels:
   the index and summary buffers of a level never overflow *)
Lemma run_total : forall pre n req post pos0,
  0 < pos0 -> Forall full_or_skip pre -> Forall is_skip post -> 1 <= n <= py_spd d ->
  only_oob (py_run d t0 pos0 (pre ++ PyBlk n req :: post)).
Proof.
  intros pre n req post pos0 Hp Hpre Hpost Hn. unfold py_run.
  assert (Hdiv : py_div_ok d = true).
  { destruct (py_cons_facts d Hcons) as (H1 & H2 & _ & _ & _ & H3 & _ & _ & _ & H4 & _). unfold py_div_ok.
    repeat (apply andb_true_iff; split); apply negb_true_iff; apply Z.eqb_neq; lia. }
  rewrite Hdiv. unfold py_bind.
  assert (Hsplit : forall a b s, py_do_all d (a ++ b) s = py_bind (py_do_all d a s) (py_do_all d b)).
  { induction a as [|x a IHa]; intros b s; cbn; auto. destruct (py_do d x s); cbn; auto. }
  pose proof (do_all_full_total pre _ [] (RunInv_init pos0 Hp) Hpre) as T1.
  destruct (py_do_all d (pre ++ PyBlk n req :: post) (py_init t0 pos0)) as [stc|e] eqn:Hall.
  - pose proof (run_ops_CloseReady pre n req post pos0 stc Hp Hpre Hpost Hn Hall) as (Ho & Hd & Hb & Hc1 & Hl).
    unfold py_close. apply (close_loop_total 15 1 stc (py_blocks (pre ++ PyBlk n req :: post))); auto.
    split; [exact Ho|]. split; [exact Hd|]. split; [exact Hb|]. split; [intros M HM; lia|]. split; [exact Hc1|].
    intros M HM. apply Hl. lia.
  - rewrite Hsplit in Hall. unfold py_bind in Hall.
    destruct (py_do_all d pre (py_init t0 pos0)) as [st1|e1] eqn:H1; [|injection Hall as <-; exact T1].
    pose proof (run_full_ops pre _ st1 [] (RunInv_init pos0 Hp) Hpre H1) as HR1. cbn [app py_nilb negb] in HR1.
    cbn [py_do_all py_do] in Hall. unfold py_bind in Hall.
    pose proof (wr_data_total st1 _ n req HR1 Hn) as T2.
    destruct (py_wr_data d n req st1) as [st2|e2] eqn:H2; [|injection Hall as <-; exact T2].
    destruct (skips_ok post st2 Hpost) as (st' & Hs). rewrite Hs in Hall. discriminate.
Qed.

(* ------------------------------------------------------------------ 5. the reader on a closed pyramid *)
Lemma find_nth : forall disk i c,
  NoDup (map pc_off disk) -> nth_error disk i = Some c -> py_find disk (pc_off c) = Some (c, nth_error disk (S i)).
Proof.
  induction disk as [|a disk IH]; intros i c Hnd Hi; [destruct i; discriminate|].
  inversion Hnd as [|? ? Hni Hnd']; subst. destruct i as [|i]; cbn in Hi.
  - injection Hi as ->. cbn [py_find]. rewrite Z.eqb_refl. destruct disk; reflexivity.
  - cbn [py_find]. destruct (pc_off a =? pc_off c) eqn:E.
    + apply Z.eqb_eq in E. exfalso. apply Hni. rewrite E. apply in_map. eapply nth_error_In; eauto.
    + rewrite (IH i c Hnd' Hi). reflexivity.
Qed.

Lemma nth_unique : forall disk i i' c,
  NoDup (map pc_off disk) -> nth_error disk i = Some c -> nth_error disk i' = Some c -> i = i'.
Proof.
  intros disk i i' c Hnd Hi Hi'. eapply (NoDup_nth_error (map pc_off disk)); eauto.
  - rewrite map_length. eapply nth_error_lt; eauto.
  - rewrite !nth_error_map, Hi, Hi'. reflexivity.
Qed.

Lemma find_In : forall disk c,
  NoDup (map pc_off disk) -> In c disk -> exists nx, py_find disk (pc_off c) = Some (c, nx).
Proof. intros disk c Hnd Hin. destruct (In_nth_error _ _ Hin) as (i & Hi). eexists. eapply find_nth; eauto. Qed.

Lemma top_scan : forall heads T k,
  (T < k)%nat -> (forall M, (T < M < k)%nat -> nth M heads 0 = 0) -> nth T heads 0 <> 0 ->
  py_top heads k = Some (T, nth T heads 0).
Proof.
  intros heads T k. induction k as [|k IH]; intros HT Hz Hnz; [lia|].
  cbn [py_top]. destruct (Nat.eq_dec k T) as [->|Hne].
  - replace (nth T heads 0 =? 0) with false by (symmetry; apply Z.eqb_neq; auto). reflexivity.
  - rewrite (Hz k) by lia. cbn. apply IH; auto; try lia. intros M HM. apply Hz. lia.
Qed.

Lemma len_top_scan : forall disk heads T k,
  (T < k)%nat -> (forall M, (T < M < k)%nat -> nth M heads 0 = 0) -> nth T heads 0 <> 0 ->
  py_find disk (nth T heads 0) <> None ->
  py_len_top disk heads k = Some (T, nth T heads 0).
Proof.
  intros disk heads T k. induction k as [|k IH]; intros HT Hz Hnz Hf; [lia|].
  cbn [py_len_top]. destruct (Nat.eq_dec k T) as [->|Hne].
  - replace (nth T heads 0 =? 0) with false by (symmetry; apply Z.eqb_neq; auto).
    destruct (py_find disk (nth T heads 0)); [reflexivity|congruence].
  - rewrite (Hz k) by lia. cbn. apply IH; auto; try lia. intros M HM. apply Hz. lia.
Qed.

Section Reader.
Variable st : py_wr.
Variable blks : list (Z * bool).
Variable T : nat.
Hypothesis Hfin : FinInv st blks T.

Let disk := pw_disk st.
Let heads := pw_heads st.

Lemma fin_nodup : NoDup (map pc_off disk).
Proof. destruct Hfin as ((_ & _ & H) & _). exact H. Qed.

Lemma fin_lvl : forall M, (1 <= M <= T)%nat -> LvlDisk M disk blks (py_head_get st M) [].
Proof. intros M HM. destruct Hfin as (_ & _ & _ & _ & H & _). apply H; auto. Qed.

(* entry k of chunk j of level M is element j*cap+k of the flattened pointer list *)
Lemma fin_ptr : forall M j c k,
  (1 <= M <= T)%nat -> nth_error (idxs disk M) j = Some c -> (k < length (pc_entries c))%nat ->
  nth_error (ents disk M) (j * Z.to_nat (py_cap d M) + k) = nth_error (pc_entries c) k.
Proof.
  intros M j c k HM Hj Hk. destruct (fin_lvl M HM) as (Hck & _).
  unfold ents. apply nth_error_concat_full with (l := pc_entries c); auto.
  - intros i l' Hi Hl'. rewrite nth_error_map in Hl'. destruct (nth_error (idxs disk M) i) as [ci|] eqn:Ei; [|discriminate].
    cbn in Hl'. injection Hl' as <-. destruct (Hck i ci Ei) as (_ & C2 & _ & C4 & _).
    rewrite C4 in C2 by (apply nth_error_lt in Hj; lia). lia.
  - rewrite nth_error_map, Hj. reflexivity.
Qed.

(* number of children: all chunks but the last are full *)
Lemma fin_count : forall M j c,
  (1 <= M <= T)%nat -> nth_error (idxs disk M) j = Some c ->
  (j * Z.to_nat (py_cap d M) + length (pc_entries c) <= length (ents disk M))%nat /\
  (S j = length (idxs disk M) -> (j * Z.to_nat (py_cap d M) + length (pc_entries c) = length (ents disk M))%nat).
Proof.
  intros M j c HM Hj. destruct (fin_lvl M HM) as (Hck & _). pose proof (py_cap_pos d M Hcons) as Hcp.
  destruct (Hck j c Hj) as (_ & C2 & C3 & _).
  split.
  - assert (Hk : (length (pc_entries c) - 1 < length (pc_entries c))%nat) by lia.
    pose proof (fin_ptr M j c _ HM Hj Hk) as E.
    destruct (nth_error_ex _ (pc_entries c) _ Hk) as (o & Ho). rewrite Ho in E. apply nth_error_lt in E. lia.
  - intro Hlast. unfold ents.
    assert (Hsplit : exists front, idxs disk M = front ++ [c] /\ length front = j).
    { destruct (@exists_last _ (idxs disk M)) as (front & lastc & E); [intro E; rewrite E in Hj; destruct j; discriminate|].
      exists front. rewrite E in Hlast, Hj. rewrite app_length in Hlast. cbn in Hlast.
      assert (length front = j) by lia. subst j. rewrite nth_error_snoc_last in Hj. injection Hj as ->. auto. }
    destruct Hsplit as (front & E & Hlen). rewrite E, map_app, concat_app, app_length. cbn. rewrite app_nil_r.
    rewrite (length_concat_full _ _ (Z.to_nat (py_cap d M))).
    + rewrite map_length. lia.
    + intros l Hl. apply in_map_iff in Hl. destruct Hl as (ci & <- & Hin). destruct (In_nth_error _ _ Hin) as (i & Hi).
      assert (Hi' : nth_error (idxs disk M) i = Some ci).
      { rewrite E, nth_error_app1; auto. eapply nth_error_lt; eauto. }
      destruct (Hck i ci Hi') as (_ & D2 & _ & D4 & _). apply nth_error_lt in Hi. rewrite D4 in D2 by (rewrite E, app_length; cbn; lia). lia.
Qed.


Lemma fin_src1 : length (ents disk 1) = length blks /\
  forall i o n om, nth_error (ents disk 1) i = Some o -> nth_error blks i = Some (n, om) ->
    if (om : bool) then o = 0
    else exists c, In c disk /\ pc_off c = o /\ pc_kind c = PyData /\ pc_ts c = t0 + Z.of_nat i * py_spd d /\ pc_count c = n.
Proof.
  destruct Hfin as (_ & _ & _ & HT & _). destruct (fin_lvl 1 ltac:(lia)) as (_ & Hsrc & _).
  rewrite app_nil_r in Hsrc. exact Hsrc.
Qed.

Lemma fin_srcN : forall M, (2 <= M <= T)%nat -> ents disk M = map pc_off (idxs disk (pred M)).
Proof.
  intros M HM. destruct (fin_lvl M ltac:(lia)) as (_ & Hsrc & _). rewrite app_nil_r in Hsrc.
  destruct M as [|[|M]]; try lia. exact Hsrc.
Qed.

Lemma blks_split : exists l n om, blks = l ++ [(n, om)] /\ Forall (fun b => fst b = py_spd d) l /\ 1 <= n <= py_spd d.
Proof.
  destruct Hfin as (_ & _ & (Hne & Hb) & _).
  destruct (@exists_last _ blks Hne) as (l & (n, om) & E). exists l, n, om. split; [exact E|]. split.
  - apply Forall_forall. intros (n0, om0) Hin. destruct (In_nth_error _ _ Hin) as (i & Hi).
    assert (Hi' : nth_error blks i = Some (n0, om0)) by (rewrite E, nth_error_app1; auto; eapply nth_error_lt; eauto).
    destruct (Hb i n0 om0 Hi') as (_ & Hf). cbn. apply Hf. apply nth_error_lt in Hi. rewrite E, app_length. cbn. lia.
  - destruct (Hb (length l) n om) as (Hn & _); [rewrite E; apply nth_error_snoc_last|exact Hn].
Qed.

Lemma total_full : forall l, Forall (fun b => fst b = py_spd d) l -> py_total l = Z.of_nat (length l) * py_spd d.
Proof.
  induction l as [|b l IH]; intro H; [reflexivity|]. inversion H; subst. unfold py_total in *. cbn [fold_right length].
  rewrite IH by auto. lia.
Qed.

Lemma total_app : forall a b, py_total (a ++ b) = py_total a + py_total b.
Proof. induction a as [|x a IH]; intro b; unfold py_total in *; cbn; [reflexivity|]. rewrite IH. ring. Qed.

(* the block that holds relative position x *)
Lemma block_of : forall x, 0 <= x < py_total blks ->
  exists n om, nth_error blks (Z.to_nat (x / py_spd d)) = Some (n, om) /\ 0 <= x - (x / py_spd d) * py_spd d < n /\ 1 <= n <= py_spd d /\
    ((S (Z.to_nat (x / py_spd d)) < length blks)%nat -> n = py_spd d).
Proof.
  intros x Hx. destruct blks_split as (l & n & om & E & Hl & Hn). destruct Hcons as (_ & Hspd & _).
  rewrite E, total_app, total_full in Hx by auto. unfold py_total in Hx. cbn in Hx.
  pose proof (Z.div_mod x (py_spd d) ltac:(lia)) as Ed. pose proof (Z.mod_pos_bound x (py_spd d) Hspd) as Bd.
  assert (Hi : 0 <= x / py_spd d <= Z.of_nat (length l)).
  { split; [apply Z.div_pos; lia|]. apply Z.lt_succ_r. apply Z.div_lt_upper_bound; lia. }
  destruct (Z.eq_dec (x / py_spd d) (Z.of_nat (length l))) as [Ee|Ene].
  - exists n, om. rewrite Ee, Nat2Z.id, E. split; [apply nth_error_snoc_last|]. split; [rewrite Ee in Ed; lia|]. split; auto.
    rewrite app_length. cbn. lia.
  - destruct (nth_error_ex _ l (Z.to_nat (x / py_spd d))) as ((n0 & om0) & Hn0); [lia|].
    exists n0, om0. rewrite E, nth_error_app1 by lia. split; [exact Hn0|].
    rewrite Forall_forall in Hl. specialize (Hl _ (nth_error_In _ _ Hn0)). cbn in Hl. subst n0. split; [lia|]. split; [lia|auto].
Qed.

Lemma fin_m_pos : forall M, (1 <= M <= T)%nat -> (1 <= length (idxs disk M))%nat.
Proof.
  intros M HM. destruct Hfin as (_ & _ & _ & _ & H & _). destruct (H M HM) as (_ & Hne). fold disk in Hne.
  destruct (idxs disk M); [congruence|cbn; lia].
Qed.

(* children of a level are at most capacity * chunks *)
Lemma fin_children_le : forall M, (1 <= M <= T)%nat ->
  Z.of_nat (length (ents disk M)) <= Z.of_nat (length (idxs disk M)) * py_cap d M.
Proof.
  intros M HM. pose proof (fin_m_pos M HM) as Hm. pose proof (py_cap_pos d M Hcons) as Hcp.
  destruct (nth_error_ex _ (idxs disk M) (length (idxs disk M) - 1)) as (c & Hc); [lia|].
  destruct (fin_count M _ c HM Hc) as (_ & Hlast). rewrite <- Hlast by lia.
  destruct (fin_lvl M HM) as (Hck & _). destruct (Hck _ c Hc) as (_ & C2 & C3 & _).
  rewrite Nat2Z.inj_add, Nat2Z.inj_mul, Z2Nat.id by lia. rewrite <- C2.
  replace (Z.of_nat (length (idxs disk M) - 1)) with (Z.of_nat (length (idxs disk M)) - 1) by lia. nia.
Qed.

Lemma total_le_blocks : py_total blks <= Z.of_nat (length blks) * py_spd d.
Proof.
  destruct blks_split as (l & n & om & E & Hl & Hn). rewrite E, total_app, total_full, app_length by auto.
  unfold py_total. cbn. lia.
Qed.

Lemma fin_coverage : forall M, (1 <= M <= T)%nat ->
  py_total blks <= Z.of_nat (length (idxs disk M)) * py_span d M.
Proof.
  induction M as [|M IH]; intro HM; [lia|].
  destruct (Nat.eq_dec M 0) as [->|HM0].
  - pose proof (fin_children_le 1 HM) as Hc. destruct fin_src1 as (Hl & _). rewrite Hl in Hc.
    rewrite py_span_eq, py_step_1 by lia. pose proof total_le_blocks. destruct Hcons as (_ & Hspd & _). nia.
  - specialize (IH ltac:(lia)). pose proof (fin_children_le (S M) HM) as Hc.
    rewrite (fin_srcN (S M)) in Hc by lia. rewrite map_length in Hc. cbn [pred] in Hc.
    rewrite py_span_succ by lia. pose proof (py_span_pos d M Hcons ltac:(lia)). nia.
Qed.


Lemma seek_loop_unfold : forall dd dk lvl' level offset sid,
  py_seek_loop dd dk (S lvl') level offset sid =
    if (S lvl' <=? level)%nat then PyOk offset else
    match py_find dk offset with
    | None => PyErr PE_Seek
    | Some (c, _) =>
      if py_step dd (S lvl') =? 0 then PyErr (PE_Fault PF_DivZero) else
      if (Z.quot (sid - pc_ts c) (py_step dd (S lvl')) <? 0) || (pc_count c <=? Z.quot (sid - pc_ts c) (py_step dd (S lvl'))) then PyErr PE_IO
      else match nth_error (pc_entries c) (Z.to_nat (Z.quot (sid - pc_ts c) (py_step dd (S lvl')))) with
           | None => PyErr PE_Param
           | Some o => py_seek_loop dd dk lvl' level o sid
           end
    end.
Proof. reflexivity. Qed.

(* one descent step: the entry selected by the reader's arithmetic, and what it points to *)
Lemma descend : forall M j c x,
  (1 <= M <= T)%nat -> 0 <= x < py_total blks ->
  nth_error (idxs disk M) j = Some c -> Z.of_nat j = x / py_span d M ->
  let idx := Z.quot (t0 + x - pc_ts c) (py_step d M) in
  idx = x / py_step d M - Z.of_nat j * py_cap d M /\ 0 <= idx < pc_count c /\
  exists o, nth_error (pc_entries c) (Z.to_nat idx) = Some o /\
            nth_error (ents disk M) (Z.to_nat (x / py_step d M)) = Some o.
Proof.
  intros M j c x HM Hx Hj Hjx idx.
  pose proof (py_step_pos d M Hcons ltac:(lia)) as Hsp. pose proof (py_cap_pos d M Hcons) as Hcp.
  destruct (fin_lvl M HM) as (Hck & _). destruct (Hck j c Hj) as (C1 & C2 & C3 & C4 & _).
  rewrite py_span_eq in * by lia.
  set (sp := py_step d M) in *. set (cp := py_cap d M) in *. set (g := x / sp).
  assert (Hg0 : 0 <= g) by (apply Z.div_pos; lia).
  assert (Hjg : Z.of_nat j = g / cp).
  { rewrite Hjx. unfold g. rewrite Z.div_div by lia. f_equal. ring. }
  assert (Hidx : idx = g - Z.of_nat j * cp).
  { unfold idx. rewrite C1. replace (t0 + x - (t0 + Z.of_nat j * (cp * sp))) with (x + (- (Z.of_nat j * cp)) * sp) by ring.
    pose proof (Z.div_mod g cp ltac:(lia)) as Eg. pose proof (Z.mod_pos_bound g cp Hcp) as Bg.
    pose proof (Z.div_mod x sp ltac:(lia)) as Ex. pose proof (Z.mod_pos_bound x sp Hsp) as Bx. fold g in Ex.
    rewrite Z.quot_div_nonneg; [|nia|lia]. rewrite Z.div_add by lia. fold g. ring. }
  assert (Hidx_b : 0 <= idx < cp).
  { rewrite Hidx, Hjg. pose proof (Z.div_mod g cp ltac:(lia)) as Eg. pose proof (Z.mod_pos_bound g cp Hcp) as Bg. lia. }
  (* g is below the number of children *)
  assert (Hcov : g < Z.of_nat (length (ents disk M))).
  { destruct (Nat.eq_dec M 1) as [->|HM1].
    - destruct fin_src1 as (Hl & _). rewrite Hl. unfold g, sp. rewrite py_step_1. apply Z.div_lt_upper_bound; [destruct Hcons as (_ & Hs & _); lia|].
      pose proof total_le_blocks. lia.
    - rewrite (fin_srcN M) by lia. rewrite map_length. apply Z.div_lt_upper_bound; [lia|].
      pose proof (fin_coverage (pred M) ltac:(lia)) as Hc. unfold py_span in Hc. replace (S (pred M)) with M in Hc by lia. fold sp in Hc. lia. }
  destruct (fin_count M j c HM Hj) as (Hle & Hlast).
  assert (Hic : idx < pc_count c).
  { destruct (Nat.eq_dec (S j) (length (idxs disk M))) as [El|Nl].
    - specialize (Hlast El). rewrite <- Hlast in Hcov. rewrite Nat2Z.inj_add, Nat2Z.inj_mul, Z2Nat.id in Hcov by lia. fold cp in Hcov. lia.
    - rewrite C4 by (apply nth_error_lt in Hj; lia). fold cp. lia. }
  split; [exact Hidx|]. split; [lia|].
  assert (Hk : (Z.to_nat idx < length (pc_entries c))%nat) by lia.
  destruct (nth_error_ex _ _ _ Hk) as (o & Ho). exists o. split; [exact Ho|].
  rewrite <- Ho. rewrite <- (fin_ptr M j c _ HM Hj Hk). f_equal. fold cp. fold g. lia.
Qed.

Lemma seek_down : forall M, (1 <= M <= T)%nat -> forall x j c,
  0 <= x < py_total blks -> nth_error (idxs disk M) j = Some c -> Z.of_nat j = x / py_span d M ->
  exists c1, nth_error (idxs disk 1) (Z.to_nat (x / py_span d 1)) = Some c1 /\
             py_seek_loop d disk M 1 (pc_off c) (t0 + x) = PyOk (pc_off c1).
Proof.
  induction M as [|M IH]; intros HM x j c Hx Hj Hjx; [lia|].
  destruct (Nat.eq_dec M 0) as [->|HM0].
  - exists c. rewrite <- Hjx, Nat2Z.id. split; [exact Hj|]. reflexivity.
  - rewrite seek_loop_unfold. replace (S M <=? 1)%nat with false by (symmetry; apply Nat.leb_gt; lia).
    assert (Hin : In c disk) by (apply (idxs_In disk (S M) c); eapply nth_error_In; eauto).
    destruct (find_In disk c fin_nodup Hin) as (nx & ->).
    pose proof (py_step_pos d (S M) Hcons ltac:(lia)) as Hsp.
    replace (py_step d (S M) =? 0) with false by (symmetry; apply Z.eqb_neq; lia).
    destruct (descend (S M) j c x HM Hx Hj Hjx) as (Hidx & Hb & o & Ho & He).
    replace (_ || _) with false by (symmetry; apply orb_false_iff; split; [apply Z.ltb_ge|apply Z.leb_gt]; lia).
    rewrite Ho. rewrite (fin_srcN (S M)) in He by lia. cbn [pred] in He. rewrite nth_error_map in He.
    destruct (nth_error (idxs disk M) (Z.to_nat (x / py_step d (S M)))) as [c'|] eqn:Ec'; [|discriminate].
    cbn in He. injection He as <-.
    apply (IH ltac:(lia) x _ c' Hx Ec'). unfold py_span. rewrite Z2Nat.id; [reflexivity|]. apply Z.div_pos; lia.
Qed.

Lemma div_ok_true : py_div_ok d = true.
Proof.
  destruct (py_cons_facts d Hcons) as (H1 & H2 & _ & _ & _ & H3 & _ & _ & _ & H4 & _). unfold py_div_ok.
  repeat (apply andb_true_iff; split); apply negb_true_iff; apply Z.eqb_neq; lia.
Qed.

Lemma fin_top : exists ctop, idxs disk T = [ctop] /\ py_top heads 16 = Some (T, pc_off ctop) /\
  py_len_top disk heads 16 = Some (T, pc_off ctop) /\ In ctop disk.
Proof.
  pose proof Hfin as ((_ & Hoff & _) & _ & _ & HT & Hlv & Hone & Hab). fold disk in Hoff, Hlv, Hone, Hab.
  destruct (idxs disk T) as [|ctop [|x r]] eqn:E; try (cbn in Hone; discriminate). exists ctop.
  assert (Hin : In ctop disk) by (apply (idxs_In disk T ctop); rewrite E; left; auto).
  destruct (Hlv T ltac:(lia)) as ((_ & _ & Hh) & _). fold disk in Hh. rewrite E in Hh.
  assert (Hnz : nth T heads 0 <> 0) by (change (nth T heads 0) with (py_head_get st T); rewrite Hh; specialize (Hoff ctop Hin); lia).
  change (nth T heads 0) with (py_head_get st T) in Hnz.
  split; [reflexivity|]. rewrite <- Hh. split; [|split; [|exact Hin]].
  - apply top_scan; auto; [lia|]. intros M HM. apply (Hab M). lia.
  - apply len_top_scan; auto; [lia| |].
    + intros M HM. apply (Hab M). lia.
    + change (nth T heads 0) with (py_head_get st T). rewrite Hh. destruct (find_In disk ctop fin_nodup Hin) as (nx & ->). discriminate.
Qed.

Lemma fsr_seek_ok : forall x, 0 <= x < py_total blks ->
  exists c1, nth_error (idxs disk 1) (Z.to_nat (x / py_span d 1)) = Some c1 /\
             py_fsr_seek d disk heads 1 (t0 + x) = PyOk (pc_off c1).
Proof.
  intros x Hx. destruct fin_top as (ctop & E & Htop & _ & _). unfold py_fsr_seek. rewrite div_ok_true, Htop. cbn [negb].
  destruct Hfin as (_ & _ & _ & HT & _).
  apply (seek_down T ltac:(lia) x 0%nat ctop Hx); [rewrite E; reflexivity|].
  pose proof (fin_coverage T ltac:(lia)) as Hc. rewrite E in Hc. cbn [length] in Hc.
  symmetry. apply Z.div_small. lia.
Qed.

Lemma land255 : forall sig, 0 <= sig < 256 -> Z.land sig 255 = sig.
Proof. intros sig H. change 255 with (Z.ones 8). rewrite Z.land_ones by lia. apply Z.mod_small. lia. Qed.

Definition cache_ok (sig : Z) (c : py_cache) : Prop :=
  cc_meta c = 4096 + sig -> cc_off c <> 0 ->
  exists j i, nth_error (idxs disk 1) j = Some (cc_index c) /\ nth_error disk i = Some (cc_index c) /\
              nth_error disk (S i) = Some (cc_summary c).

(* a level-1 index chunk and the summary behind it *)
Lemma fin_l1 : forall j c, nth_error (idxs disk 1) j = Some c ->
  pc_ts c = t0 + Z.of_nat j * py_span d 1 /\ pc_count c = Z.of_nat (length (pc_entries c)) /\ 1 <= pc_count c <= py_cap d 1 /\
  exists i s, nth_error disk i = Some c /\ nth_error disk (S i) = Some s /\ pc_kind s = PySummary 1 /\ pc_ts s = pc_ts c /\
    exists n om, nth_error blks (j * Z.to_nat (py_cap d 1) + Z.to_nat (pc_count c) - 1) = Some (n, om) /\
                 pc_count s = py_epd d * (pc_count c - 1) + n / py_sdf d.
Proof.
  intros j c Hj. destruct Hfin as (_ & _ & _ & HT & _). destruct (fin_lvl 1 ltac:(lia)) as (Hck & _).
  destruct (Hck j c Hj) as (C1 & C2 & C3 & _ & i & s & Hi & Hs & K1 & K2 & K3). repeat split; auto; try lia.
  exists i, s. repeat split; auto.
Qed.

Lemma l1_range_unique : forall j c x, nth_error (idxs disk 1) j = Some c ->
  pc_ts c <= t0 + x < pc_ts c + pc_count c * py_spd d -> Z.of_nat j = x / py_span d 1.
Proof.
  intros j c x Hj Hr. destruct (fin_l1 j c Hj) as (C1 & _ & C3 & _). rewrite C1 in Hr.
  rewrite py_span_eq, py_step_1 in * by lia. destruct Hcons as (_ & Hspd & _).
  apply Z.div_unique with (r := x - Z.of_nat j * (py_cap d 1 * py_spd d)); [left; nia|ring].
Qed.

Lemma l1_count_bound : forall j c, nth_error (idxs disk 1) j = Some c -> 0 <= pc_count c * py_spd d < 2 ^ 32.
Proof.
  intros j c Hj. destruct (fin_l1 j c Hj) as (_ & _ & C3 & _).
  destruct (py_cons_facts d Hcons) as (Hsdf & Hepd & Hspd & Hcap & Heps & _ & _ & _ & _ & _ & Hb).
  assert (py_cap d 1 * py_spd d = py_eps d * py_sdf d) by (rewrite Heps, Hspd; ring). nia.
Qed.

Lemma level1_ok : forall sig cache x, 0 <= sig < 256 -> cache_ok sig cache -> 0 <= x < py_total blks ->
  exists c1 i1 s1, nth_error (idxs disk 1) (Z.to_nat (x / py_span d 1)) = Some c1 /\
    nth_error disk i1 = Some c1 /\ nth_error disk (S i1) = Some s1 /\
    snd (py_rd_level1 d disk heads sig cache (t0 + x)) = None /\
    cc_index (fst (py_rd_level1 d disk heads sig cache (t0 + x))) = c1 /\
    cc_summary (fst (py_rd_level1 d disk heads sig cache (t0 + x))) = s1 /\
    cache_ok sig (fst (py_rd_level1 d disk heads sig cache (t0 + x))).
Proof.
  intros sig cache x Hsig Hok Hx. unfold py_rd_level1.
  destruct (py_cache_hit d sig cache (t0 + x)) eqn:Hhit.
  - unfold py_cache_hit in Hhit. rewrite land255 in Hhit by auto.
    destruct (cc_meta cache =? 4096 + sig) eqn:Em; cbn [negb] in Hhit; [|discriminate].
    destruct (cc_off cache =? 0) eqn:Eo; [discriminate|]. apply Z.eqb_eq in Em. apply Z.eqb_neq in Eo.
    destruct (Hok Em Eo) as (j & i & Hj & Hi & Hs).
    apply andb_true_iff in Hhit. destruct Hhit as (H1 & H2). apply Z.leb_le in H1. apply Z.ltb_lt in H2.
    rewrite Z.mod_small in H2 by (eapply l1_count_bound; eauto).
    pose proof (l1_range_unique j _ x Hj ltac:(lia)) as Ej.
    exists (cc_index cache), i, (cc_summary cache). cbn [fst snd]. rewrite <- Ej, Nat2Z.id. repeat split; auto.
  - destruct (fsr_seek_ok x Hx) as (c1 & Hc1 & ->).
    destruct (fin_l1 _ c1 Hc1) as (_ & _ & _ & i & s & Hi & Hs & _).
    rewrite (find_nth disk i c1 fin_nodup Hi), Hs. cbn [fst snd cc_index cc_summary].
    exists c1, i, s. repeat split; auto.
    intros _ _. cbn [cc_index cc_summary]. exists (Z.to_nat (x / py_span d 1)), i. auto.
Qed.

End Reader.
End Pyr.

(* ------------------------------------------------------------------ 5b. reader: blocks, length, cache *)
Lemma idx_nat_eq : forall (a : nat) (cp cnt : Z), 0 < cp -> 1 <= cnt ->
  (a * Z.to_nat cp + Z.to_nat cnt - 1)%nat = Z.to_nat (Z.of_nat a * cp + (cnt - 1)).
Proof.
  intros a cp cnt Hcp Hcnt. apply Nat2Z.inj.
  assert (0 <= Z.of_nat a * cp) by (apply Z.mul_nonneg_nonneg; lia).
  rewrite Z2Nat.id by lia. rewrite Nat2Z.inj_sub by lia. rewrite Nat2Z.inj_add, Nat2Z.inj_mul, !Z2Nat.id by lia. ring.
Qed.
Lemma idx_nat_lt : forall (a : nat) (cp cnt idx : Z) (len : nat), 0 < cp -> 1 <= cnt -> 0 <= idx -> idx < cnt - 1 ->
  (a * Z.to_nat cp + Z.to_nat cnt - 1 < len)%nat -> (S (Z.to_nat (Z.of_nat a * cp + idx)) < len)%nat.
Proof.
  intros a cp cnt idx len Hcp Hcnt Hi Hlt H. rewrite idx_nat_eq in H by auto.
  assert (0 <= Z.of_nat a * cp) by (apply Z.mul_nonneg_nonneg; lia).
  apply Nat2Z.inj_lt. apply Nat2Z.inj_lt in H. rewrite Nat2Z.inj_succ. rewrite Z2Nat.id in * by lia. lia.
Qed.

Section Reader2.
Variable d : py_def.
Variable t0 : Z.
Hypothesis Hcons : py_consistent d.
Variable st : py_wr.
Variable blks : list (Z * bool).
Variable T : nat.
Hypothesis Hfin : FinInv d t0 st blks T.
Let disk := pw_disk st.
Let heads := pw_heads st.

(* the block that holds relative position x, as the file stores it *)
Definition block_at (x : Z) : py_block :=
  let i := Z.to_nat (x / py_spd d) in
  match nth_error blks i with
  | Some (n, om) =>
    if (om : bool) then PyOmitted (t0 + Z.of_nat i * py_spd d) (py_sdf d * (n / py_sdf d))
    else match py_find disk (nth i (ents disk 1) 0) with
         | Some (c, _) => PyStored c
         | None => PyOmitted 0 0
         end
  | None => PyOmitted 0 0
  end.

Lemma rd_data0_ok : forall sig cache x, 0 <= sig < 256 -> cache_ok st sig cache -> 0 <= x < py_total blks ->
  fst (py_rd_data0 d disk heads sig cache (t0 + x)) = PyOk (block_at x) /\
  cache_ok st sig (snd (py_rd_data0 d disk heads sig cache (t0 + x))).
Proof.
  intros sig cache x Hsig Hok Hx. unfold py_rd_data0.
  destruct (level1_ok d t0 Hcons st blks T Hfin sig cache x Hsig Hok Hx) as (c1 & i1 & s1 & Hc1 & Hi1 & Hs1 & Hrc & Hci & Hcs & Hok').
  fold disk in Hc1, Hi1, Hs1, Hrc, Hci, Hcs, Hok'. fold heads in Hrc, Hci, Hcs, Hok'.
  destruct (py_rd_level1 d disk heads sig cache (t0 + x)) as (cache', rc). cbn [fst snd] in *. subst rc.
  rewrite Hci.
  assert (Hjx : Z.of_nat (Z.to_nat (x / py_span d 1)) = x / py_span d 1).
  { apply Z2Nat.id. apply Z.div_pos; [lia|]. apply py_span_pos; auto. }
  pose proof Hfin as (_ & _ & _ & HT & _).
  destruct (descend d t0 Hcons st blks T Hfin 1 _ c1 x ltac:(lia) Hx Hc1 Hjx) as (Hidx & Hb & o & Ho & He). rewrite py_step_1 in *.
  fold disk in He.
  set (idx := Z.quot (t0 + x - pc_ts c1) (py_spd d)) in *.
  replace (idx <? 0) with false by (symmetry; apply Z.ltb_ge; lia). rewrite Ho.
  destruct (block_of d t0 Hcons st blks T Hfin x Hx) as (n & om & Hn & Hpos & Hnb & Hfull).
  destruct (fin_src1 d t0 st blks T Hfin) as (Hl & Hsrc). fold disk in Hl, Hsrc. specialize (Hsrc _ o n om He Hn).
  unfold block_at. rewrite Hn. rewrite (nth_error_nth' _ _ _ _ 0 He).
  assert (Hi0 : 0 <= x / py_spd d) by (apply Z.div_pos; destruct Hcons as (_ & ? & _); lia).
  destruct (py_cons_facts d Hcons) as (Hsdf & Hepd & Hspd & Hcap & Heps & _).
  destruct om.
  - (* omitted: reconstructed from the summary *)
    subst o. rewrite Z.eqb_refl. split; [|exact Hok']. unfold fst. f_equal. unfold py_reconstruct. rewrite Hci, Hcs. fold idx.
    destruct (fin_l1 d t0 st blks T Hfin _ c1 Hc1) as (C1 & C2 & C3 & i & s & Hi & Hs & K1 & K2 & nl & oml & Hnl & Kc).
    fold disk in Hi, Hs.
    assert (i = i1) by (eapply nth_unique; eauto; apply (fin_nodup d t0 st blks T Hfin)). subst i. rewrite Hs1 in Hs. injection Hs as <-.
    rewrite K2. replace (idx * py_spd d + pc_ts c1 - pc_ts c1) with (idx * py_epd d * py_sdf d) by (rewrite Hspd; ring).
    rewrite Z.quot_div_nonneg; [|apply Z.mul_nonneg_nonneg; [apply Z.mul_nonneg_nonneg|]; lia|lia]. rewrite Z.div_mul by lia.
    f_equal.
    + rewrite C1, Hidx, Hjx. rewrite py_span_eq by lia. rewrite py_step_1. rewrite (Z2Nat.id (x / py_spd d)) by lia. ring.
    + f_equal. rewrite Kc. change (py_spd d / py_sdf d) with (py_epd d).
      destruct (div_sdf_bound d Hcons nl) as (Hd1 & _).
      { destruct Hfin as (_ & _ & (_ & Hb0) & _). destruct (Hb0 _ _ _ Hnl) as (Hq & _). exact Hq. }
      assert (Hgi : x / py_spd d = Z.of_nat (Z.to_nat (x / py_span d 1)) * py_cap d 1 + idx) by (rewrite Hidx; ring).
      destruct (Z.eq_dec idx (pc_count c1 - 1)) as [Eidx|Nidx].
      * (* last block of the chunk *)
        assert (En : nl = n).
        { assert (Ei : (Z.to_nat (x / py_span d 1) * Z.to_nat (py_cap d 1) + Z.to_nat (pc_count c1) - 1)%nat = Z.to_nat (x / py_spd d)).
          { rewrite Hgi, Eidx. apply idx_nat_eq; lia. }
          rewrite Ei, Hn in Hnl. injection Hnl as -> _. reflexivity. }
        subst nl. replace (py_epd d * (pc_count c1 - 1) + n / py_sdf d - idx * py_epd d) with (n / py_sdf d) by (rewrite Eidx; ring).
        rewrite Z.max_r by lia. rewrite Z.min_r by lia. reflexivity.
      * assert (En : n = py_spd d).
        { apply Hfull. apply nth_error_lt in Hnl. rewrite Hgi. eapply idx_nat_lt; eauto; lia. }
        subst n. destruct (div_sdf_bound d Hcons (py_spd d) ltac:(lia)) as (_ & _ & ->); auto.
        assert (Hge : py_epd d <= py_epd d * (pc_count c1 - 1) + nl / py_sdf d - idx * py_epd d).
        { replace (py_epd d * (pc_count c1 - 1) + nl / py_sdf d - idx * py_epd d) with (py_epd d * (pc_count c1 - 1 - idx) + nl / py_sdf d) by ring.
          assert (py_epd d * 1 <= py_epd d * (pc_count c1 - 1 - idx)) by (apply Z.mul_le_mono_nonneg_l; lia). lia. }
        rewrite Z.max_r by lia. rewrite Z.min_l by lia. reflexivity.
  - (* stored *)
    destruct Hsrc as (cd & Hin & Hoff & Hk & Hts & Hcnt).
    pose proof Hfin as ((_ & Hoffs & _) & _). specialize (Hoffs cd Hin).
    replace (o =? 0) with false by (symmetry; apply Z.eqb_neq; clear - Hoffs Hoff; lia).
    rewrite <- Hoff. destruct (find_In disk cd (fin_nodup d t0 st blks T Hfin) Hin) as (nx & ->).
    replace (t0 + x <? pc_ts cd) with false by (symmetry; apply Z.ltb_ge; rewrite Hts, Z2Nat.id by (clear - Hi0; lia); clear - Hpos; lia).
    split; [reflexivity|exact Hok'].
Qed.

Lemma len_loop_unfold : forall dd dk sido lvl' offset len,
  py_len_loop dd dk sido (S lvl') offset len =
    match py_find dk offset with
    | None => PyErr PE_Seek
    | Some (c, nxt) =>
      if Z.of_nat (length (pc_entries c)) <? pc_count c then PyErr PE_Param else
      let offset' := if 0 <? pc_count c then nth (Z.to_nat (pc_count c - 1)) (pc_entries c) 0 else offset in
      if (S lvl' =? 1)%nat then
        match nxt with
        | None => PyErr PE_Seek
        | Some s => py_len_loop dd dk sido lvl' offset' (pc_ts s + (pc_count s * py_sdf dd) mod 2 ^ 32 - sido)
        end
      else py_len_loop dd dk sido lvl' offset' len
    end.
Proof. reflexivity. Qed.

(* the last entry of the last chunk of a level points to the last child *)
Lemma last_entry : forall M c, (1 <= M <= T)%nat ->
  nth_error (idxs disk M) (length (idxs disk M) - 1) = Some c ->
  nth (Z.to_nat (pc_count c - 1)) (pc_entries c) 0 = nth (length (ents disk M) - 1) (ents disk M) 0 /\
  (1 <= length (ents disk M))%nat.
Proof.
  intros M c HM Hc.
  pose proof (fin_m_pos d t0 st blks T Hfin M HM) as Hm. fold disk in Hm.
  destruct (fin_count d t0 Hcons st blks T Hfin M _ c HM Hc) as (_ & Hlast). fold disk in Hlast. specialize (Hlast ltac:(lia)).
  destruct (fin_lvl d t0 st blks T Hfin M HM) as (Hck & _). fold disk in Hck. destruct (Hck _ c Hc) as (_ & C2 & C3 & _).
  assert (Hk : (Z.to_nat (pc_count c - 1) < length (pc_entries c))%nat) by lia.
  pose proof (fin_ptr d t0 st blks T Hfin M _ c _ HM Hc Hk) as E. fold disk in E.
  destruct (nth_error_ex _ _ _ Hk) as (o & Ho). rewrite Ho in E.
  rewrite (nth_error_nth' _ _ _ _ 0 Ho).
  set (p := ((length (idxs disk M) - 1) * Z.to_nat (py_cap d M))%nat) in *.
  replace (length (ents disk M) - 1)%nat with (p + Z.to_nat (pc_count c - 1))%nat by lia.
  rewrite (nth_error_nth' _ _ _ _ 0 E). split; [reflexivity|lia].
Qed.

Lemma len_down : forall M, (1 <= M <= T)%nat -> forall c sido len0,
  nth_error (idxs disk M) (length (idxs disk M) - 1) = Some c ->
  exists c1 i1 s1, nth_error (idxs disk 1) (length (idxs disk 1) - 1) = Some c1 /\
    nth_error disk i1 = Some c1 /\ nth_error disk (S i1) = Some s1 /\
    py_len_loop d disk sido M (pc_off c) len0 =
      PyOk (nth (length (ents disk 1) - 1) (ents disk 1) 0, pc_ts s1 + (pc_count s1 * py_sdf d) mod 2 ^ 32 - sido).
Proof.
  induction M as [|M IH]; intros HM c sido len0 Hc; [lia|].
  rewrite len_loop_unfold.
  assert (Hin : In c disk) by (apply (idxs_In disk (S M) c); eapply nth_error_In; eauto).
  destruct (fin_lvl d t0 st blks T Hfin (S M) HM) as (Hck & _). fold disk in Hck. destruct (Hck _ c Hc) as (_ & C2 & C3 & _ & i & s & Hi & Hs & _).
  rewrite (find_nth disk i c (fin_nodup d t0 st blks T Hfin) Hi), Hs.
  replace (Z.of_nat (length (pc_entries c)) <? pc_count c) with false by (symmetry; apply Z.ltb_ge; lia).
  replace (0 <? pc_count c) with true by (symmetry; apply Z.ltb_lt; lia). cbv zeta.
  destruct (last_entry (S M) c HM Hc) as (-> & Hne).
  destruct (Nat.eq_dec M 0) as [->|HM0].
  - cbn [Nat.eqb py_len_loop]. exists c, i, s. auto.
  - replace (S M =? 1)%nat with false by (symmetry; apply Nat.eqb_neq; lia).
    pose proof (fin_srcN d t0 st blks T Hfin (S M) ltac:(lia)) as Hsr. fold disk in Hsr. cbn [pred] in Hsr. rewrite Hsr in *. rewrite map_length in *.
    destruct (nth_error_ex _ (idxs disk M) (length (idxs disk M) - 1)) as (c' & Hc'); [lia|].
    rewrite (nth_error_nth' _ _ _ _ 0 (map_nth_error pc_off _ _ Hc')).
    apply (IH ltac:(lia) c' sido len0 Hc').
Qed.

Lemma sample_id_offset_ok : py_sample_id_offset disk heads = t0.
Proof.
  pose proof Hfin as ((_ & Hoffs & _) & (D3 & D4 & _) & (Hne & _) & _). fold disk in Hoffs, D4.
  destruct (fin_src1 d t0 st blks T Hfin) as (Hl & Hsrc). fold disk in Hl, Hsrc.
  destruct blks as [|(n0, om0) r] eqn:Eb; [congruence|].
  specialize (D3 n0 om0 eq_refl). subst om0.
  destruct (nth_error_ex _ (ents disk 1) 0%nat) as (o & Ho); [rewrite Hl; cbn; lia|].
  destruct (Hsrc 0%nat o n0 false Ho eq_refl) as (cd & Hin & Hoff & Hk & Hts & _).
  unfold py_sample_id_offset. change (nth 0 heads 0) with (py_head_get st 0). rewrite D4, (nth_error_nth' _ _ _ _ 0 Ho), <- Hoff.
  specialize (Hoffs cd Hin). replace (pc_off cd =? 0) with false by (symmetry; apply Z.eqb_neq; lia).
  destruct (find_In disk cd (fin_nodup d t0 st _ T Hfin) Hin) as (nx & ->). rewrite Hk, Hts. lia.
Qed.

(* the length the reader reports: exact, except that a last block omitted on request loses the
   samples beyond its last whole summary entry *)
Lemma fsr_length_ok :
  py_fsr_length d disk heads =
    PyOk (py_total blks - (if snd (last blks (0, false)) then fst (last blks (0, false)) mod py_sdf d else 0)).
Proof.
  unfold py_fsr_length. rewrite sample_id_offset_ok.
  destruct (fin_top d t0 st blks T Hfin) as (ctop & Etop & _ & Hlt & _). fold disk in Etop, Hlt. fold heads in Hlt. rewrite Hlt.
  pose proof Hfin as ((_ & Hoffs & _) & _ & _ & HT & _). fold disk in Hoffs.
  destruct (len_down T ltac:(lia) ctop t0 (-1)) as (c1 & i1 & s1 & Hc1 & Hi1 & Hs1 & ->); [rewrite Etop; reflexivity|].
  unfold py_bind.
  destruct (blks_split d t0 st blks T Hfin) as (l & n & om & Eb & Hl & Hn).
  destruct (fin_src1 d t0 st blks T Hfin) as (Hlen & Hsrc). fold disk in Hlen, Hsrc.
  assert (Hlast : last blks (0, false) = (n, om)) by (rewrite Eb; apply last_last).
  rewrite Hlast. cbn [fst snd].
  assert (Hnb : length blks = S (length l)) by (rewrite Eb, app_length; cbn; lia).
  assert (Htot : py_total blks = Z.of_nat (length l) * py_spd d + n).
  { rewrite Eb, total_app, (total_full d) by auto. unfold py_total. cbn. lia. }
  assert (Hbn : nth_error blks (length l) = Some (n, om)) by (rewrite Eb; apply nth_error_snoc_last).
  destruct (nth_error_ex _ (ents disk 1) (length l)) as (o & Ho); [lia|].
  rewrite Hlen, Hnb. replace (S (length l) - 1)%nat with (length l) by lia.
  rewrite (nth_error_nth' _ _ _ _ 0 Ho). specialize (Hsrc _ o n om Ho Hbn).
  destruct (py_cons_facts d Hcons) as (Hsdf & Hepd & Hspd & Hcap & Heps & _ & _ & _ & _ & _ & Hb32).
  destruct om.
  - subst o. rewrite Z.eqb_refl. f_equal.
    destruct (fin_l1 d t0 st blks T Hfin _ c1 Hc1) as (C1 & C2 & C3 & i & s & Hi & Hs & K1 & K2 & nl & oml & Hnl & Kc).
    fold disk in Hi, Hs.
    assert (i = i1) by (eapply nth_unique; eauto; apply (fin_nodup d t0 st blks T Hfin)). subst i. rewrite Hs1 in Hs. injection Hs as <-.
    pose proof (fin_m_pos d t0 st blks T Hfin 1 ltac:(lia)) as Hm. fold disk in Hm.
    destruct (fin_count d t0 Hcons st blks T Hfin 1 _ c1 ltac:(lia) Hc1) as (_ & Hcl). fold disk in Hcl. specialize (Hcl ltac:(lia)).
    assert (Ei : ((length (idxs disk 1) - 1) * Z.to_nat (py_cap d 1) + Z.to_nat (pc_count c1) - 1)%nat = length l).
    { set (p := ((length (idxs disk 1) - 1) * Z.to_nat (py_cap d 1))%nat) in *. lia. }
    rewrite Ei, Hbn in Hnl. injection Hnl as <- _.
    destruct (div_sdf_bound d Hcons n Hn) as (Hd1 & _).
    assert (Hcs : 0 <= pc_count s1 <= py_eps d).
    { rewrite Kc, Heps. split; [apply Z.add_nonneg_nonneg; [apply Z.mul_nonneg_nonneg|]; lia|].
      assert (py_epd d * (pc_count c1 - 1) <= py_epd d * (py_cap d 1 - 1)) by (apply Z.mul_le_mono_nonneg_l; lia). lia. }
    rewrite Z.mod_small.
    2:{ split; [apply Z.mul_nonneg_nonneg; lia|].
        assert (pc_count s1 * py_sdf d <= py_eps d * py_sdf d) by (apply Z.mul_le_mono_nonneg_r; lia). lia. }
    rewrite K2, C1, Kc, Htot, py_span_eq, py_step_1 by lia.
    assert (Ecnt : Z.of_nat (length (idxs disk 1) - 1) * py_cap d 1 + pc_count c1 = Z.of_nat (length l) + 1).
    { apply (f_equal Z.of_nat) in Ei. rewrite Nat2Z.inj_sub, Nat2Z.inj_add, Nat2Z.inj_mul, !Z2Nat.id in Ei by lia. lia. }
    pose proof (Z.div_mod n (py_sdf d) ltac:(lia)) as Edm.
    replace (Z.of_nat (length l)) with (Z.of_nat (length (idxs disk 1) - 1) * py_cap d 1 + pc_count c1 - 1) by lia.
    rewrite Hspd. set (q := n / py_sdf d) in *. set (r := n mod py_sdf d) in *. rewrite Edm. ring.
  - destruct Hsrc as (cd & Hin & Hoff & Hk & Hts & Hcnt). specialize (Hoffs cd Hin).
    replace (o =? 0) with false by (symmetry; apply Z.eqb_neq; clear - Hoffs Hoff; lia).
    rewrite <- Hoff. destruct (find_In disk cd (fin_nodup d t0 st blks T Hfin) Hin) as (nx & ->).
    f_equal. rewrite Hts, Hcnt, Htot. ring.
Qed.

(* whatever sample id is asked for, a successful seek to level 1 lands on a level-1 index chunk *)
Lemma seek_loop_lands : forall M, (1 <= M <= T)%nat -> forall j c sid off,
  nth_error (idxs disk M) j = Some c -> py_seek_loop d disk M 1 (pc_off c) sid = PyOk off ->
  exists j1 c1, nth_error (idxs disk 1) j1 = Some c1 /\ pc_off c1 = off.
Proof.
  induction M as [|M IH]; intros HM j c sid off Hj Hrun; [lia|].
  destruct (Nat.eq_dec M 0) as [->|HM0].
  - cbn in Hrun. injection Hrun as <-. exists j, c. auto.
  - rewrite seek_loop_unfold in Hrun. replace (S M <=? 1)%nat with false in Hrun by (symmetry; apply Nat.leb_gt; lia).
    assert (Hin : In c disk) by (apply (idxs_In disk (S M) c); eapply nth_error_In; eauto).
    destruct (find_In disk c (fin_nodup d t0 st blks T Hfin) Hin) as (nx & Hf). rewrite Hf in Hrun.
    destruct (py_step d (S M) =? 0); [discriminate|].
    set (idx := Z.quot (sid - pc_ts c) (py_step d (S M))) in *.
    destruct ((idx <? 0) || (pc_count c <=? idx)) eqn:Hb; [discriminate|].
    apply orb_false_iff in Hb. destruct Hb as (Hb1 & Hb2). apply Z.ltb_ge in Hb1. apply Z.leb_gt in Hb2.
    destruct (nth_error (pc_entries c) (Z.to_nat idx)) as [o|] eqn:Ho; [|discriminate].
    pose proof (fin_ptr d t0 st blks T Hfin (S M) j c _ HM Hj (nth_error_lt _ _ _ _ Ho)) as E. fold disk in E.
    rewrite Ho in E. pose proof (fin_srcN d t0 st blks T Hfin (S M) ltac:(lia)) as Hsr. fold disk in Hsr. cbn [pred] in Hsr.
    rewrite Hsr, nth_error_map in E.
    destruct (nth_error (idxs disk M) (j * Z.to_nat (py_cap d (S M)) + Z.to_nat idx)) as [c'|] eqn:Ec'; [|discriminate].
    cbn in E. injection E as <-. eapply (IH ltac:(lia) _ c' sid off Ec' Hrun).
Qed.

Lemma fsr_seek_lands : forall sid off, py_fsr_seek d disk heads 1 sid = PyOk off ->
  exists j1 c1, nth_error (idxs disk 1) j1 = Some c1 /\ pc_off c1 = off.
Proof.
  intros sid off Hrun. unfold py_fsr_seek in Hrun.
  destruct (fin_top d t0 st blks T Hfin) as (ctop & Etop & Htop & _ & _). fold disk in Etop. fold heads in Htop.
  destruct (negb (py_div_ok d)); [discriminate|]. rewrite Htop in Hrun.
  pose proof Hfin as (_ & _ & _ & HT & _).
  eapply (seek_loop_lands T ltac:(lia) 0%nat ctop sid off); [rewrite Etop; reflexivity|exact Hrun].
Qed.

(* any read (inside or outside the signal, failing or not) leaves a cache that is consistent with the file *)
Lemma rd_data0_cache_ok_any : forall sig cache s, cache_ok st sig cache ->
  cache_ok st sig (snd (py_rd_data0 d disk heads sig cache s)).
Proof.
  intros sig cache s Hok.
  assert (H1 : cache_ok st sig (fst (py_rd_level1 d disk heads sig cache s))).
  { unfold py_rd_level1. destruct (py_cache_hit d sig cache s); [exact Hok|].
    destruct (py_fsr_seek d disk heads 1 s) as [off|e] eqn:Hs; [|intros _ H; cbn in H; congruence].
    destruct (fsr_seek_lands s off Hs) as (j1 & c1 & Hc1 & <-).
    destruct (fin_l1 d t0 st blks T Hfin j1 c1 Hc1) as (_ & _ & _ & i & sm & Hi & Hsm & _). fold disk in Hi, Hsm.
    rewrite (find_nth disk i c1 (fin_nodup d t0 st blks T Hfin) Hi), Hsm. cbn [fst].
    intros _ _. cbn [cc_index cc_summary]. exists j1, i. auto. }
  unfold py_rd_data0. destruct (py_rd_level1 d disk heads sig cache s) as (cache', rc). cbn [fst] in H1.
  destruct rc; [exact H1|].
  destruct (Z.quot (s - pc_ts (cc_index cache')) (py_spd d) <? 0); [exact H1|].
  destruct (nth_error (pc_entries (cc_index cache')) (Z.to_nat (Z.quot (s - pc_ts (cc_index cache')) (py_spd d)))) as [o|]; [|exact H1].
  destruct (o =? 0); [exact H1|]. destruct (py_find disk o) as [(c, nx)|]; [|exact H1].
  destruct (s <? pc_ts c); exact H1.
Qed.

Lemma reads_cache_ok : forall sig starts cache, cache_ok st sig cache -> cache_ok st sig (py_reads d disk heads sig cache starts).
Proof.
  intros sig starts. induction starts as [|s r IH]; intros cache Hok; [exact Hok|].
  cbn [py_reads]. apply IH. apply rd_data0_cache_ok_any. exact Hok.
Qed.

(* what an index entry points to *)
Lemma fin_entry_target : forall L j c k o, (1 <= L <= T)%nat ->
  nth_error (idxs disk L) j = Some c -> nth_error (pc_entries c) k = Some o ->
  match L with
  | 1%nat => exists m om, nth_error blks (j * Z.to_nat (py_cap d 1) + k) = Some (m, om) /\
       if (om : bool) then o = 0 else
       exists t, In t disk /\ pc_off t = o /\ pc_kind t = PyData /\ pc_ts t = pc_ts c + Z.of_nat k * py_step d 1 /\ pc_count t = m
  | _ => exists t, nth_error (idxs disk (pred L)) (j * Z.to_nat (py_cap d L) + k) = Some t /\ pc_off t = o /\
                   pc_ts t = pc_ts c + Z.of_nat k * py_step d L
  end.
Proof.
  intros L j c k o HL Hj Ho.
  pose proof (fin_ptr d t0 st blks T Hfin L j c k HL Hj (nth_error_lt _ _ _ _ Ho)) as E. fold disk in E. rewrite Ho in E.
  destruct (fin_lvl d t0 st blks T Hfin L HL) as (Hck & _). fold disk in Hck. destruct (Hck j c Hj) as (C1 & _).
  pose proof (py_cap_pos d L Hcons) as Hcp.
  destruct L as [|[|L]]; [lia| |].
  - destruct (fin_src1 d t0 st blks T Hfin) as (Hl & Hsrc). fold disk in Hl, Hsrc.
    destruct (nth_error_ex _ blks (j * Z.to_nat (py_cap d 1) + k)) as ((m & om) & Hm); [rewrite <- Hl; eapply nth_error_lt; eauto|].
    exists m, om. split; [exact Hm|]. specialize (Hsrc _ o m om E Hm). destruct om; [exact Hsrc|].
    destruct Hsrc as (t & Hin & Hoff & Hk & Hts & Hc). exists t. repeat split; auto.
    rewrite Hts, C1, py_span_eq, py_step_1 by lia. rewrite Nat2Z.inj_add, Nat2Z.inj_mul, Z2Nat.id by lia. ring.
  - pose proof (fin_srcN d t0 st blks T Hfin (S (S L)) ltac:(lia)) as Hsr. fold disk in Hsr. cbn [pred] in *.
    rewrite Hsr, nth_error_map in E.
    destruct (nth_error (idxs disk (S L)) (j * Z.to_nat (py_cap d (S (S L))) + k)) as [t|] eqn:Et; [|discriminate].
    cbn in E. injection E as <-. exists t. split; [reflexivity|]. split; [reflexivity|].
    destruct (fin_lvl d t0 st blks T Hfin (S L) ltac:(lia)) as (Hck' & _). fold disk in Hck'. destruct (Hck' _ t Et) as (C1' & _).
    rewrite C1', C1. rewrite (py_span_eq d (S (S L))) by lia. unfold py_span.
    rewrite Nat2Z.inj_add, Nat2Z.inj_mul, Z2Nat.id by lia. ring.
Qed.
End Reader2.

(* ------------------------------------------------------------------ 6. the property theorems *)
Definition py_ops_full (d : py_def) (ops : list py_op) : Prop :=
  Forall (fun o => match o with PyBlk m _ => m = py_spd d | PySkip k => 0 <= k end) ops.
Definition py_ops_skip (ops : list py_op) : Prop :=
  Forall (fun o => match o with PyBlk _ _ => False | PySkip k => 0 <= k end) ops.

Lemma run_Fin : forall d t0 pos0 pre n req post st,
  py_consistent d -> 0 < pos0 -> py_ops_full d pre -> py_ops_skip post -> 1 <= n <= py_spd d ->
  py_run d t0 pos0 (pre ++ PyBlk n req :: post) = PyOk st ->
  exists T, FinInv d t0 st (py_blocks (pre ++ PyBlk n req :: post)) T.
Proof. intros. eapply run_FinInv; eauto. Qed.

Theorem pyr_pyramid_inv : forall d t0 pos0 pre n req post st,
  py_consistent d -> 0 < pos0 -> py_ops_full d pre -> py_ops_skip post -> 1 <= n <= py_spd d ->
  py_run d t0 pos0 (pre ++ PyBlk n req :: post) = PyOk st ->
  let disk := pw_disk st in
  let blks := py_blocks (pre ++ PyBlk n req :: post) in
  let idx := fun L => filter (fun c => py_kind_eqb (pc_kind c) (PyIndex L)) disk in
  (forall L j c, nth_error (idx L) j = Some c ->
     (1 <= L)%nat /\
     pc_ts c = t0 + Z.of_nat j * (py_cap d L * py_step d L) /\
     pc_count c = Z.of_nat (length (pc_entries c)) /\ 1 <= pc_count c <= py_cap d L /\
     ((S j < length (idx L))%nat -> pc_count c = py_cap d L) /\
     forall k o, nth_error (pc_entries c) k = Some o ->
       match L with
       | 1%nat => exists m om, nth_error blks (j * Z.to_nat (py_cap d 1) + k) = Some (m, om) /\
           if (om : bool) then o = 0 else
           exists t, In t disk /\ pc_off t = o /\ pc_kind t = PyData /\
                     pc_ts t = pc_ts c + Z.of_nat k * py_step d 1 /\ pc_count t = m
       | _ => exists t, nth_error (idx (pred L)) (j * Z.to_nat (py_cap d L) + k) = Some t /\ pc_off t = o /\
                        pc_ts t = pc_ts c + Z.of_nat k * py_step d L
       end) /\
  (forall i c L, nth_error disk i = Some c -> pc_kind c = PyIndex L ->
     exists s, nth_error disk (S i) = Some s /\ pc_kind s = PySummary L /\ pc_ts s = pc_ts c) /\
  (exists T top, (1 <= T <= 14)%nat /\ idx T = [top] /\ nth T (pw_heads st) 0 = pc_off top /\ pc_ts top = t0 /\
     (forall L, (T < L)%nat -> idx L = [] /\ nth L (pw_heads st) 0 = 0) /\
     (forall L, (1 <= L <= T)%nat -> exists f, nth_error (idx L) 0 = Some f /\ nth L (pw_heads st) 0 = pc_off f) /\
     (forall c, In c disk -> pc_kind c = PyData -> exists p, In p (idx 1%nat) /\ In (pc_off c) (pc_entries p)) /\
     (forall L c, (1 <= L < T)%nat -> In c (idx L) -> exists p, In p (idx (S L)) /\ In (pc_off c) (pc_entries p))).
Proof.
  intros d t0 pos0 pre n req post st Hcons Hp Hpre Hpost Hn Hrun disk blks idx.
  destruct (run_Fin d t0 pos0 pre n req post st Hcons Hp Hpre Hpost Hn Hrun) as (T & Hfin). fold blks in Hfin.
  pose proof Hfin as (Hoffs & (D3 & D4 & D5 & D6) & Hbok & HT & Hlv & Hone & Hab). fold disk in D5, D6, Hlv, Hone, Hab.
  assert (Hidx : forall L, idx L = idxs disk L) by reflexivity.
  (* levels that exist *)
  assert (Hlev : forall L j c, nth_error (idxs disk L) j = Some c -> (1 <= L <= T)%nat).
  { intros L j c Hj. assert (Hin : In c (idxs disk L)) by (eapply nth_error_In; eauto).
    destruct (Nat.le_gt_cases L T) as [Hle|Hgt].
    - split; auto. apply idxs_In in Hin. destruct Hin as (Hin & Hk). destruct (D6 c Hin) as (_ & [Hd|Hl]); [congruence|].
      unfold py_chunk_level in Hl. rewrite Hk in Hl. exact Hl.
    - destruct (Hab L Hgt) as (E & _). rewrite E in Hin. destruct Hin. }
  split; [|split].
  - intros L j c Hj. rewrite Hidx in *. pose proof (Hlev L j c Hj) as HL.
    destruct (Hlv L HL) as ((Hck & _) & _). destruct (Hck j c Hj) as (C1 & C2 & C3 & C4 & _).
    split; [lia|]. split; [rewrite C1, py_span_eq by lia; reflexivity|]. split; [exact C2|]. split; [exact C3|]. split; [exact C4|].
    intros k o Ho. exact (fin_entry_target d t0 Hcons st blks T Hfin L j c k o HL Hj Ho).
  - intros i c L Hi Hk.
    assert (Hin : In c (idxs disk L)) by (apply idxs_In; split; [eapply nth_error_In; eauto|exact Hk]).
    destruct (In_nth_error _ _ Hin) as (j & Hj). pose proof (Hlev L j c Hj) as HL.
    destruct (Hlv L HL) as ((Hck & _) & _). destruct (Hck j c Hj) as (_ & _ & _ & _ & i' & s & Hi' & Hs & K1 & K2 & _).
    assert (i' = i) by (eapply nth_unique; eauto; apply (fin_nodup d t0 st blks T Hfin)). subst i'.
    exists s. auto.
  - destruct (fin_top d t0 st blks T Hfin) as (ctop & Etop & _ & _ & Hintop). fold disk in Etop.
    exists T, ctop. split; [exact HT|]. split; [exact Etop|].
    destruct (Hlv T ltac:(lia)) as ((Hck & _ & Hh) & _). rewrite Etop in Hh, Hck.
    split; [exact Hh|]. split.
    { destruct (Hck 0%nat ctop eq_refl) as (C1 & _). rewrite C1. cbn. lia. }
    split; [exact Hab|]. split.
    { intros L HL. destruct (Hlv L HL) as ((_ & _ & Hh') & Hne). destruct (idxs disk L) as [|f r] eqn:E; [congruence|].
      exists f. rewrite Hidx, E. split; [reflexivity|exact Hh']. }
    split.
    { intros c Hc Hk. destruct (D5 c Hc Hk) as (i & Hi). unfold ents in Hi. apply nth_error_In in Hi.
      apply in_concat in Hi. destruct Hi as (l & Hl & Ho). apply in_map_iff in Hl. destruct Hl as (p & <- & Hp'). exists p. auto. }
    intros L c HL Hc. destruct (In_nth_error _ _ Hc) as (j & Hj). rewrite Hidx in Hj.
    pose proof (fin_srcN d t0 st blks T Hfin (S L) ltac:(lia)) as Hsr. fold disk in Hsr. cbn [pred] in Hsr.
    assert (Hi : nth_error (ents disk (S L)) j = Some (pc_off c)) by (rewrite Hsr; apply map_nth_error; exact Hj).
    unfold ents in Hi. apply nth_error_In in Hi. apply in_concat in Hi. destruct Hi as (l & Hl & Ho).
    apply in_map_iff in Hl. destruct Hl as (p & <- & Hp'). exists p. auto.
Qed.

(* a cache that earlier reads of OTHER signals, or a fresh reader, can have left *)
Definition py_cache_foreign (sig : Z) (c : py_cache) : Prop := cc_meta c <> 4096 + sig \/ cc_off c = 0.

Lemma foreign_cache_ok : forall st sig c, py_cache_foreign sig c -> cache_ok st sig c.
Proof. intros st sig c [H|H] Hm Ho; congruence. Qed.

Theorem pyr_seek_correct : forall d t0 pos0 pre n req post st sig cache starts x,
  py_consistent d -> 0 < pos0 -> py_ops_full d pre -> py_ops_skip post -> 1 <= n <= py_spd d ->
  py_run d t0 pos0 (pre ++ PyBlk n req :: post) = PyOk st ->
  0 <= sig < 256 -> py_cache_foreign sig cache ->
  let disk := pw_disk st in
  let heads := pw_heads st in
  let blks := py_blocks (pre ++ PyBlk n req :: post) in
  0 <= x < py_total blks ->
  let i := Z.to_nat (x / py_spd d) in
  (exists c1, py_fsr_seek d disk heads 1 (t0 + x) = PyOk (pc_off c1) /\ In c1 disk /\ pc_kind c1 = PyIndex 1 /\
              pc_ts c1 <= t0 + x < pc_ts c1 + pc_count c1 * py_spd d) /\
  exists m om, nth_error blks i = Some (m, om) /\ 0 <= x - Z.of_nat i * py_spd d < m /\
    let r := fst (py_rd_data0 d disk heads sig (py_reads d disk heads sig cache starts) (t0 + x)) in
    if (om : bool) then r = PyOk (PyOmitted (t0 + Z.of_nat i * py_spd d) (py_sdf d * (m / py_sdf d)))
    else exists cd, r = PyOk (PyStored cd) /\ In cd disk /\ pc_kind cd = PyData /\
                    pc_ts cd = t0 + Z.of_nat i * py_spd d /\ pc_count cd = m.
Proof.
  intros d t0 pos0 pre n req post st sig cache starts x Hcons Hp Hpre Hpost Hn Hrun Hsig Hcache disk heads blks Hx i.
  destruct (run_Fin d t0 pos0 pre n req post st Hcons Hp Hpre Hpost Hn Hrun) as (T & Hfin). fold blks in Hfin.
  pose proof Hfin as (_ & _ & _ & HT & _).
  assert (Hi0 : 0 <= x / py_spd d) by (apply Z.div_pos; destruct Hcons as (_ & ? & _); lia).
  split.
  - destruct (fsr_seek_ok d t0 Hcons st blks T Hfin x Hx) as (c1 & Hc1 & Hs). exists c1. split; [exact Hs|].
    assert (Hin : In c1 (idxs (pw_disk st) 1)) by (eapply nth_error_In; eauto). apply idxs_In in Hin. destruct Hin as (Hin & Hk).
    split; [exact Hin|]. split; [exact Hk|].
    assert (Hjx : Z.of_nat (Z.to_nat (x / py_span d 1)) = x / py_span d 1).
    { apply Z2Nat.id. apply Z.div_pos; [lia|]. apply py_span_pos; auto. }
    destruct (descend d t0 Hcons st blks T Hfin 1 _ c1 x ltac:(lia) Hx Hc1 Hjx) as (Hidx & Hb & _). rewrite py_step_1 in *.
    destruct (fin_l1 d t0 st blks T Hfin _ c1 Hc1) as (C1 & _). rewrite Hjx in C1.
    pose proof (py_span_pos d 1 Hcons ltac:(lia)) as Hsp.
    pose proof Hcons as (_ & Hspd & _).
    pose proof (Z.div_mod x (py_spd d) ltac:(lia)) as E1. pose proof (Z.mod_pos_bound x (py_spd d) Hspd) as B1.
    pose proof (Z.div_mod x (py_span d 1)) as E2.
    specialize (E2 ltac:(lia)). pose proof (Z.mod_pos_bound x (py_span d 1) Hsp) as B2.
    split; [rewrite C1; lia|].
    set (idx := Z.quot (t0 + x - pc_ts c1) (py_spd d)) in *.
    assert (x / py_spd d + 1 <= x / py_span d 1 * py_cap d 1 + pc_count c1) by lia.
    assert ((x / py_spd d + 1) * py_spd d <= (x / py_span d 1 * py_cap d 1 + pc_count c1) * py_spd d) by (apply Z.mul_le_mono_nonneg_r; lia).
    rewrite C1. rewrite py_span_eq, py_step_1 in * by lia. lia.
  - destruct (block_of d t0 Hcons st blks T Hfin x Hx) as (m & om & Hm & Hpos & Hmb & _).
    exists m, om. split; [exact Hm|]. split; [unfold i; rewrite Z2Nat.id by lia; exact Hpos|]. subst i.
    pose proof (reads_cache_ok d t0 st blks T Hfin sig starts cache (foreign_cache_ok st sig cache Hcache)) as Hok.
    destruct (rd_data0_ok d t0 Hcons st blks T Hfin sig _ x Hsig Hok Hx) as (Hr & _).
    cbv zeta. fold disk heads in Hr. rewrite Hr. unfold block_at. rewrite Hm.
    destruct om; [reflexivity|].
    destruct (fin_src1 d t0 st blks T Hfin) as (Hl & Hsrc).
    destruct (nth_error_ex _ (ents (pw_disk st) 1) (Z.to_nat (x / py_spd d))) as (o & Ho); [rewrite Hl; eapply nth_error_lt; eauto|].
    destruct (Hsrc _ o m false Ho Hm) as (cd & Hin & Hoff & Hk & Hts & Hc).
    rewrite (nth_error_nth' _ _ _ _ 0 Ho), <- Hoff.
    destruct (find_In (pw_disk st) cd (fin_nodup d t0 st blks T Hfin) Hin) as (nx & ->).
    exists cd. auto.
Qed.

Theorem pyr_length_general : forall d t0 pos0 pre n req post st,
  py_consistent d -> 0 < pos0 -> py_ops_full d pre -> py_ops_skip post -> 1 <= n <= py_spd d ->
  py_run d t0 pos0 (pre ++ PyBlk n req :: post) = PyOk st ->
  py_fsr_length d (pw_disk st) (pw_heads st) =
    PyOk (py_total (py_blocks (pre ++ PyBlk n req :: post)) -
          (if req && negb (py_nilb (py_blocks pre)) then n mod py_sdf d else 0)).
Proof.
  intros d t0 pos0 pre n req post st Hcons Hp Hpre Hpost Hn Hrun.
  destruct (run_Fin d t0 pos0 pre n req post st Hcons Hp Hpre Hpost Hn Hrun) as (T & Hfin).
  rewrite (fsr_length_ok d t0 Hcons st _ T Hfin). f_equal. f_equal.
  assert (Hb : forall a s, py_blocks_from s (a ++ PyBlk n req :: post) =
              py_blocks_from s a ++ [(n, req && (s || negb (py_nilb (py_blocks_from s a))))]).
  { induction a as [|o a IH]; intro s; cbn [app py_blocks_from].
    - assert (Hsk : forall s', py_blocks_from s' post = []).
      { clear - Hpost. induction post as [|o r IH]; intro s'; [reflexivity|]. inversion Hpost; subst. destruct o; [contradiction|]. cbn. apply IH; auto. }
      rewrite Hsk. cbn. rewrite orb_false_r. reflexivity.
    - destruct o as [m r|k]; cbn [py_blocks_from]; [|apply IH]. rewrite IH. cbn [app py_nilb negb]. rewrite orb_true_r. cbn. reflexivity. }
  unfold py_blocks. rewrite Hb, last_last. cbn [fst snd orb]. reflexivity.
Qed.

Theorem pyr_length_correct : forall d t0 pos0 pre n req post st,
  py_consistent d -> 0 < pos0 -> py_ops_full d pre -> py_ops_skip post -> 1 <= n <= py_spd d ->
  py_run d t0 pos0 (pre ++ PyBlk n req :: post) = PyOk st ->
  (req = false \/ py_blocks pre = [] \/ n mod py_sdf d = 0) ->
  py_fsr_length d (pw_disk st) (pw_heads st) = PyOk (py_total (py_blocks (pre ++ PyBlk n req :: post))).
Proof.
  intros d t0 pos0 pre n req post st Hcons Hp Hpre Hpost Hn Hrun Hg.
  rewrite (pyr_length_general d t0 pos0 pre n req post st) by auto. f_equal. rewrite <- (Z.sub_0_r (py_total _)) at 2. f_equal.
  destruct Hg as [ -> | [ -> | -> ] ].
  - reflexivity.
  - cbn. rewrite andb_false_r. reflexivity.
  - destruct (req && _); reflexivity.
Qed.

Theorem pyr_cache_transparent : forall d t0 pos0 pre n req post st sig cache starts x,
  py_consistent d -> 0 < pos0 -> py_ops_full d pre -> py_ops_skip post -> 1 <= n <= py_spd d ->
  py_run d t0 pos0 (pre ++ PyBlk n req :: post) = PyOk st ->
  0 <= sig < 256 -> py_cache_foreign sig cache ->
  0 <= x < py_total (py_blocks (pre ++ PyBlk n req :: post)) ->
  fst (py_rd_data0 d (pw_disk st) (pw_heads st) sig (py_reads d (pw_disk st) (pw_heads st) sig cache starts) (t0 + x)) =
  fst (py_rd_data0 d (pw_disk st) (pw_heads st) sig py_cache0 (t0 + x)).
Proof.
  intros d t0 pos0 pre n req post st sig cache starts x Hcons Hp Hpre Hpost Hn Hrun Hsig Hcache Hx.
  destruct (run_Fin d t0 pos0 pre n req post st Hcons Hp Hpre Hpost Hn Hrun) as (T & Hfin).
  pose proof (reads_cache_ok d t0 st _ T Hfin sig starts cache (foreign_cache_ok st sig cache Hcache)) as Hok.
  destruct (rd_data0_ok d t0 Hcons st _ T Hfin sig _ x Hsig Hok Hx) as (-> & _).
  assert (Hok0 : cache_ok st sig py_cache0) by (apply foreign_cache_ok; right; reflexivity).
  destruct (rd_data0_ok d t0 Hcons st _ T Hfin sig _ x Hsig Hok0 Hx) as (-> & _). reflexivity.
Qed.


(* the writer never overflows the index / summary buffer of a level: its only possible fault is
   jls_core_fsr_summaryN(16) (more than 15 summary levels) *)
Theorem pyr_writer_faults_only_level_oob : forall d t0 pos0 pre n req post e,
  py_consistent d -> 0 < pos0 -> py_ops_full d pre -> py_ops_skip post -> 1 <= n <= py_spd d ->
  py_run d t0 pos0 (pre ++ PyBlk n req :: post) = PyErr e -> e = PE_Fault PF_LevelOOB.
Proof.
  intros d t0 pos0 pre n req post e Hcons Hp Hpre Hpost Hn Hrun.
  pose proof (run_total d t0 Hcons pre n req post pos0 Hp Hpre Hpost Hn) as H. rewrite Hrun in H. exact H.
Qed.

(* ------------------------------------------------------------------ 7. witnesses and examples *)
Lemma py_consistentb_ok : forall d, py_consistentb d = true -> py_consistent d.
Proof.
  intros d H. unfold py_consistentb in H. repeat (apply andb_true_iff in H; destruct H as (H & ?)).
  unfold py_consistent. repeat split; try (apply Z.ltb_lt; assumption); try (apply Z.eqb_eq; assumption).
Qed.

Definition py_ex_def : py_def := {| py_spd := 32; py_sdf := 16; py_eps := 10; py_sumdf := 10 |}.

(* the recorded known finding: omission requested while the last block is not a whole number of
   summary entries: the reported length is short by (n mod sample_decimate_factor) *)
Lemma pyr_length_omit_partial_refuted :
  exists d t0 pos0 pre n req post st,
    py_consistent d /\ 0 < pos0 /\ py_ops_full d pre /\ py_ops_skip post /\ 1 <= n <= py_spd d /\
    py_run d t0 pos0 (pre ++ PyBlk n req :: post) = PyOk st /\
    py_total (py_blocks (pre ++ PyBlk n req :: post)) = 40 /\
    py_fsr_length d (pw_disk st) (pw_heads st) = PyOk 32.
Proof.
  exists py_ex_def, 0, 1, [PyBlk 32 false], 8, true, [].
  destruct (py_run py_ex_def 0 1 ([PyBlk 32 false] ++ [PyBlk 8 true])) as [st|e] eqn:E; [|vm_compute in E; discriminate].
  exists st. split; [apply py_consistentb_ok; reflexivity|]. split; [lia|]. split; [repeat constructor|]. split; [constructor|].
  split; [cbn; lia|]. split; [reflexivity|]. split; [reflexivity|].
  vm_compute in E. injection E as <-. vm_compute. reflexivity.
Qed.

Lemma pyr_pyramid_example :
  let d := {| py_spd := 32; py_sdf := 16; py_eps := 10; py_sumdf := 10 |} in
  let pre := flat_map (fun k => [PyBlk 32 (Nat.eqb (k mod 3) 2); PySkip (Z.of_nat k)]) (seq 0 57) in
  py_consistent d /\
  Forall (fun o => match o with PyBlk m _ => m = py_spd d | PySkip k => 0 <= k end) pre /\
  exists st, py_run d 5 7 (pre ++ PyBlk 8 false :: [PySkip 3]) = PyOk st /\
    length (pw_disk st) = 69%nat /\
    pw_heads st = [7; 17; 1237; 1673] /\
    py_total (py_blocks (pre ++ PyBlk 8 false :: [PySkip 3])) = 1832 /\
    py_fsr_length d (pw_disk st) (pw_heads st) = PyOk 1832 /\
    py_fsr_seek d (pw_disk st) (pw_heads st) 1 (5 + 1831) = PyOk 1669 /\
    fst (py_rd_data0 d (pw_disk st) (pw_heads st) 1 py_cache0 (5 + 1831)) =
      PyOk (PyStored {| pc_off := 1665; pc_kind := PyData; pc_ts := 5 + 57 * 32; pc_count := 8; pc_entries := [] |}) /\
    fst (py_rd_data0 d (pw_disk st) (pw_heads st) 1 py_cache0 (5 + 2 * 32 + 31)) = PyOk (PyOmitted (5 + 2 * 32) 32).
Proof.
  intros d pre. split; [apply py_consistentb_ok; reflexivity|]. split.
  { apply Forall_forall. intros o Ho. unfold pre in Ho. apply in_flat_map in Ho. destruct Ho as (k & _ & [<-|[<-|[]]]); cbn; lia. }
  destruct (py_run d 5 7 (pre ++ PyBlk 8 false :: [PySkip 3])) as [st|e] eqn:E; [|vm_compute in E; discriminate].
  exists st. split; [reflexivity|]. vm_compute in E. injection E as <-. vm_compute. repeat split; reflexivity.
Qed.

(* level[16] is reached when the fan-out is 1 (summary_decimate_factor 1, which jls_core_signal_def_align
   excludes by its minimum of 10; with the minimum it takes cap1 * 10^14 blocks) *)
Lemma pyr_level_oob_example :
  let d := {| py_spd := 10; py_sdf := 10; py_eps := 10; py_sumdf := 1 |} in
  py_consistent d /\ py_run d 0 1 (repeat (PyBlk 10 false) 9 ++ [PyBlk 10 false]) = PyErr (PE_Fault PF_LevelOOB).
Proof. intro d. split; [apply py_consistentb_ok; reflexivity|vm_compute; reflexivity]. Qed.
