(* C16: model of the signal-definition normalisation at the top of /repo/src/core.c:
     jls_core_signal_def_validate, signal_def_defaults, round_up_to_multiple,
     jls_core_signal_def_align.
   Definitions only (proofs: SigDefProofs.v).  All numbers are N.

   The main definitions (sd_defaults, sd_round_up, sd_align ...) model the CURRENT code
   (after the fixes 591c3d3, e7caa59 and 9149f75 of /repo): round_up_to_multiple computes in
   uint64_t and reports JLS_ERROR_PARAMETER_INVALID when the result does not fit uint32_t,
   24-bit types take the 32-bit defaults and round sample_decimate_factor to a multiple
   of 32, definitions whose block / summary buffer byte sizes exceed UINT32_MAX / 2
   are rejected, and annotation / sd_utc decimate factors are raised to the minimum of 10.  A division by zero (only possible for width 0, which validation
   rejects) is the explicit result [SdFault SdDivZero].

   The definitions named *_old model the code BEFORE those fixes (uint32 wrap-around,
   no defaults for 24-bit); they are kept only so that the five defect classes that
   were found stay documented by machine-checked witnesses (SigDefProofs.v, the old_ lemmas).

   Constants (per-width default tables, minimums, SAMPLE_SIZE_BYTES_MAX, the JLS_DATATYPE
   words, JLS_SUMMARY_FSR_COUNT) come from Generated.v, regenerated from the C on every run. *)
From Coq Require Import NArith List Bool.
From JLS Require Import Generated.
Import ListNotations.
Local Open Scope N_scope.

Definition U32 : N := 4294967296.                 (* 2^32 *)
Definition u32 (x : N) : N := x mod U32.

Inductive sd_fault := SdDivZero | SdNonterm.
(* SdErr rc: the function returns the error code rc (definition rejected) *)
Inductive sd_result (A : Type) := SdOk (a : A) | SdErr (rc : N) | SdFault (f : sd_fault).
Arguments SdOk {A} a.
Arguments SdErr {A} rc.
Arguments SdFault {A} f.
Definition sd_bind {A B} (r : sd_result A) (k : A -> sd_result B) : sd_result B :=
  match r with SdOk a => k a | SdErr rc => SdErr rc | SdFault f => SdFault f end.

(* the six storage parameters of struct jls_signal_def_s, in declaration order *)
Record sd_sigdef := mkSigDef {
  spd : N;      (* samples_per_data *)
  sdf : N;      (* sample_decimate_factor *)
  eps : N;      (* entries_per_summary *)
  sumdf : N;    (* summary_decimate_factor *)
  sd_anno : N;     (* annotation_decimate_factor *)
  sd_utc : N       (* utc_decimate_factor *)
}.

Definition in_range (d : sd_sigdef) : Prop :=
  spd d < U32 /\ sdf d < U32 /\ eps d < U32 /\ sumdf d < U32 /\ sd_anno d < U32 /\ sd_utc d < U32.

(* ---- data type words (format.h) ---- *)
Definition sample_size (dt : N) : N := N.land (N.shiftr dt 8) 255.   (* jls_datatype_parse_size *)
Definition sd_dt_q (dt : N) : N := N.land (N.shiftr dt 16) 255.          (* jls_datatype_parse_q *)
Definition dt_basetype (dt : N) : N := N.land dt 15.                  (* jls_datatype_parse_basetype *)
Definition BASETYPE_INT : N := dt_basetype JLS_DATATYPE_I32.
Definition BASETYPE_UINT : N := dt_basetype JLS_DATATYPE_U32.
Definition BASETYPE_FLOAT : N := dt_basetype JLS_DATATYPE_F32.

Definition sd_datatypes : list N :=
  [JLS_DATATYPE_I4; JLS_DATATYPE_I8; JLS_DATATYPE_I16; JLS_DATATYPE_I24; JLS_DATATYPE_I32; JLS_DATATYPE_I64;
   JLS_DATATYPE_U1; JLS_DATATYPE_U4; JLS_DATATYPE_U8; JLS_DATATYPE_U16; JLS_DATATYPE_U24; JLS_DATATYPE_U32;
   JLS_DATATYPE_U64; JLS_DATATYPE_F32; JLS_DATATYPE_F64].

(* sample widths of the 15 data types *)
Definition sd_widths : list N := [1; 4; 8; 16; 24; 32; 64].

(* jls_core_signal_def_validate: 0 or JLS_ERROR_PARAMETER_INVALID.
   (the inner `default:` of the basetype switch is unreachable once data_type & 0xffff is
   one of the 15 types; it is modelled as the final else.) *)
Definition sd_validate (signal_id source_id signal_type data_type : N) : N :=
  if JLS_SIGNAL_COUNT <=? signal_id then JLS_ERROR_PARAMETER_INVALID
  else if JLS_SOURCE_COUNT <=? source_id then JLS_ERROR_PARAMETER_INVALID
  else if negb (signal_type =? JLS_SIGNAL_TYPE_FSR) && negb (signal_type =? JLS_SIGNAL_TYPE_VSR)
    then JLS_ERROR_PARAMETER_INVALID
  else if negb (existsb (N.eqb (N.land data_type 65535)) sd_datatypes) then JLS_ERROR_PARAMETER_INVALID
  else if negb (sd_dt_q data_type =? 0) then
    if (dt_basetype data_type =? BASETYPE_INT) || (dt_basetype data_type =? BASETYPE_UINT) then 0
    else JLS_ERROR_PARAMETER_INVALID
  else 0.

(* ---- signal_def_defaults ---- *)
(* the per-width table; annotation/sd_utc come from SIGNAL_32_DEFAULTS for every width
   ("common parameters").  24-bit types use the 32-bit table.  Widths outside the table hit
   `default: return;` and get nothing (validation never lets them through). *)
Definition sd_table_old (w : N) : option sd_sigdef :=
  let a := DEF32_annotation_decimate_factor in
  let u := DEF32_utc_decimate_factor in
  if w =? 1 then Some (mkSigDef DEF1_samples_per_data DEF1_sample_decimate_factor DEF1_entries_per_summary DEF1_summary_decimate_factor a u)
  else if w =? 4 then Some (mkSigDef DEF4_samples_per_data DEF4_sample_decimate_factor DEF4_entries_per_summary DEF4_summary_decimate_factor a u)
  else if w =? 8 then Some (mkSigDef DEF8_samples_per_data DEF8_sample_decimate_factor DEF8_entries_per_summary DEF8_summary_decimate_factor a u)
  else if w =? 16 then Some (mkSigDef DEF16_samples_per_data DEF16_sample_decimate_factor DEF16_entries_per_summary DEF16_summary_decimate_factor a u)
  else if w =? 32 then Some (mkSigDef DEF32_samples_per_data DEF32_sample_decimate_factor DEF32_entries_per_summary DEF32_summary_decimate_factor a u)
  else if w =? 64 then Some (mkSigDef DEF64_samples_per_data DEF64_sample_decimate_factor DEF64_entries_per_summary DEF64_summary_decimate_factor a u)
  else None.

Definition sd_table (w : N) : option sd_sigdef :=
  if w =? 24 then sd_table_old 32 else sd_table_old w.       (* case 24: d = &SIGNAL_32_DEFAULTS *)

Definition sd_take (x dflt : N) : N := if x =? 0 then dflt else x.     (* SIGNAL_DEF_DEFAULT *)

Definition sd_defaults_with (tbl : option sd_sigdef) (d : sd_sigdef) : sd_sigdef :=
  match tbl with
  | None => d
  | Some t => mkSigDef (sd_take (spd d) (spd t)) (sd_take (sdf d) (sdf t)) (sd_take (eps d) (eps t))
                       (sd_take (sumdf d) (sumdf t)) (sd_take (sd_anno d) (sd_anno t)) (sd_take (sd_utc d) (sd_utc t))
  end.
(* current code (9149f75): after the zero -> default substitution the annotation / sd_utc decimate
   factors are raised to SUMMARY_DECIMATE_FACTOR_MIN (not for widths outside the table: early return) *)
Definition sd_defaults (w : N) (d : sd_sigdef) : sd_sigdef :=
  match sd_table w with
  | None => d
  | Some t =>
    let d1 := sd_defaults_with (Some t) d in
    mkSigDef (spd d1) (sdf d1) (eps d1) (sumdf d1)
             (N.max (sd_anno d1) SUMMARY_DECIMATE_FACTOR_MIN) (N.max (sd_utc d1) SUMMARY_DECIMATE_FACTOR_MIN)
  end.
Definition sd_defaults_old (w : N) (d : sd_sigdef) : sd_sigdef := sd_defaults_with (sd_table_old w) d.

(* ---- round_up_to_multiple ----
   current: uint64_t r = (((uint64_t) x + m - 1) / m) * m; error if r > UINT32_MAX.
   x, m < 2^32 so nothing wraps in 64 bits; m <> 0 makes x + m - 1 exact in N. *)
Definition U32MAX : N := U32 - 1.
Definition sd_round_up (x m : N) : sd_result N :=
  if m =? 0 then SdFault SdDivZero
  else let r := (x + m - 1) / m * m in
       if U32MAX <? r then SdErr JLS_ERROR_PARAMETER_INVALID else SdOk r.

(* before the fix: ((x + m - 1) / m) * m in uint32_t; x + m - 1 is computed mod 2^32
   (adding 2^32-1 is subtracting 1 mod 2^32). *)
Definition sd_round_up_old (x m : N) : sd_result N :=
  if m =? 0 then SdFault SdDivZero
  else SdOk (u32 (u32 (x + m + (U32 - 1)) / m * m)).

(* ---- the `while` loop ----
   while (eps != (eps / epd) * epd) --epd;
   (eps / epd) * epd <= eps never wraps; --epd never wraps because epd = 0 faults in the
   test before it.  Fuel exhausted = SdNonterm (proved impossible with fuel = epd). *)
Definition sd_is_div (e k : N) : bool := e =? e / k * k.

Fixpoint sd_fit_loop (fuel : nat) (e epd : N) : sd_result N :=
  if epd =? 0 then SdFault SdDivZero
  else if sd_is_div e epd then SdOk epd
  else match fuel with
       | O => SdFault SdNonterm
       | S f => sd_fit_loop f e (N.pred epd)
       end.

(* ---- jls_core_signal_def_align; w = jls_datatype_parse_size(data_type) ---- *)
Definition sd_multiple_old (w : N) : N := (SAMPLE_SIZE_BYTES_MAX * 8) / w.
Definition sd_multiple (w : N) : N := if w =? 24 then 32 else (SAMPLE_SIZE_BYTES_MAX * 8) / w.
Definition SD_SIZEOF_DOUBLE : N := 8.       (* sizeof(double); not among the generated constants *)

(* the two buffer-size checks added after the loop (uint64_t arithmetic, no wrap) *)
Definition sd_block_too_big (w spd2 : N) : bool := U32MAX / 2 <? spd2 * w / 8.
Definition sd_summary_too_big (eps1 : N) : bool := U32MAX / 2 <? eps1 * JLS_SUMMARY_FSR_COUNT * SD_SIZEOF_DOUBLE.

Definition sd_align (w : N) (d : sd_sigdef) : sd_result sd_sigdef :=
  let d1 := sd_defaults w d in
  if w =? 0 then SdFault SdDivZero else
  let m := sd_multiple w in
  sd_bind (sd_round_up (N.max (sdf d1) SAMPLE_DECIMATE_FACTOR_MIN) m) (fun sdf1 =>
  let spd0 := N.max (spd d1) SAMPLES_PER_DATA_MIN in
  let eps0 := N.max (eps d1) ENTRIES_PER_SUMMARY_MIN in
  let sumdf1 := N.max (sumdf d1) SUMMARY_DECIMATE_FACTOR_MIN in
  sd_bind (sd_round_up eps0 sumdf1) (fun eps1 =>
  sd_bind (sd_round_up spd0 sdf1) (fun spd1 =>
  if sdf1 =? 0 then SdFault SdDivZero else
  let epd0 := spd1 / sdf1 in
  sd_bind (sd_fit_loop (N.to_nat epd0) eps1 epd0) (fun epd1 =>
  let spd2 := u32 (sdf1 * epd1) in
  if sd_block_too_big w spd2 then SdErr JLS_ERROR_PARAMETER_INVALID else
  if sd_summary_too_big eps1 then SdErr JLS_ERROR_PARAMETER_INVALID else
  SdOk (mkSigDef spd2 sdf1 eps1 sumdf1 (sd_anno d1) (sd_utc d1)))))).

(* the code before the fixes *)
Definition sd_align_old (w : N) (d : sd_sigdef) : sd_result sd_sigdef :=
  let d1 := sd_defaults_old w d in
  if w =? 0 then SdFault SdDivZero else
  let m := sd_multiple_old w in
  sd_bind (sd_round_up_old (N.max (sdf d1) SAMPLE_DECIMATE_FACTOR_MIN) m) (fun sdf1 =>
  let spd0 := N.max (spd d1) SAMPLES_PER_DATA_MIN in
  let eps0 := N.max (eps d1) ENTRIES_PER_SUMMARY_MIN in
  let sumdf1 := N.max (sumdf d1) SUMMARY_DECIMATE_FACTOR_MIN in
  sd_bind (sd_round_up_old eps0 sumdf1) (fun eps1 =>
  sd_bind (sd_round_up_old spd0 sdf1) (fun spd1 =>
  if sdf1 =? 0 then SdFault SdDivZero else
  let epd0 := spd1 / sdf1 in
  sd_bind (sd_fit_loop (N.to_nat epd0) eps1 epd0) (fun epd1 =>
  SdOk (mkSigDef (u32 (sdf1 * epd1)) sdf1 eps1 sumdf1 (sd_anno d1) (sd_utc d1)))))).

(* ---- the property's relations on the stored parameters ---- *)
Definition Consistent (w : N) (d : sd_sigdef) : Prop :=
  (sdf d * w) mod 8 = 0 /\                                             (* level-1 entry = whole bytes *)
  (sdf d * w) mod (SAMPLE_SIZE_BYTES_MAX * 8) = 0 /\                  (* ... and a multiple of 256 bits, every width *)
  (sdf d <> 0 /\ spd d mod sdf d = 0) /\                               (* block = whole entries *)
  (spd d / sdf d <> 0 /\ eps d mod (spd d / sdf d) = 0) /\             (* summary chunk = whole blocks *)
  (sumdf d <> 0 /\ eps d mod sumdf d = 0) /\                           (* ... and whole next-level groups *)
  SAMPLES_PER_DATA_MIN <= spd d /\ SAMPLE_DECIMATE_FACTOR_MIN <= sdf d /\
  ENTRIES_PER_SUMMARY_MIN <= eps d /\ SUMMARY_DECIMATE_FACTOR_MIN <= sumdf d /\
  SUMMARY_DECIMATE_FACTOR_MIN <= sd_anno d /\ SUMMARY_DECIMATE_FACTOR_MIN <= sd_utc d.   (* index chunks hold several entries *)

(* the "multiple of 256 bits" clause alone (second clause of Consistent) *)
Definition Entry256 (w : N) (d : sd_sigdef) : Prop :=
  (sdf d * w) mod (SAMPLE_SIZE_BYTES_MAX * 8) = 0.

(* executable versions (extracted; evaluated on the implementation's output) *)
Definition consistent_clauses (w : N) (d : sd_sigdef) : list bool :=
  [ (sdf d * w) mod 8 =? 0;
    (sdf d * w) mod (SAMPLE_SIZE_BYTES_MAX * 8) =? 0;
    negb (sdf d =? 0) && (spd d mod sdf d =? 0);
    negb (spd d / sdf d =? 0) && (eps d mod (spd d / sdf d) =? 0);
    negb (sumdf d =? 0) && (eps d mod sumdf d =? 0);
    SAMPLES_PER_DATA_MIN <=? spd d;
    SAMPLE_DECIMATE_FACTOR_MIN <=? sdf d;
    ENTRIES_PER_SUMMARY_MIN <=? eps d;
    SUMMARY_DECIMATE_FACTOR_MIN <=? sumdf d;
    SUMMARY_DECIMATE_FACTOR_MIN <=? sd_anno d;
    SUMMARY_DECIMATE_FACTOR_MIN <=? sd_utc d ].
Definition consistentb (w : N) (d : sd_sigdef) : bool := forallb (fun b => b) (consistent_clauses w d).
Definition entry256b (w : N) (d : sd_sigdef) : bool := (sdf d * w) mod (SAMPLE_SIZE_BYTES_MAX * 8) =? 0.

(* ---- fast, proved-equal evaluation of the loop (the C loop runs up to 3.6e8 times) ----
   largest k <= epd with k | e: immediate cases, then 256 steps of the real loop, then a
   scan of the divisor pairs (i, e/i) for i*i <= e. *)
Fixpoint sd_fit_scan (fuel : nat) (e epd i best : N) : N :=
  match fuel with
  | O => best
  | S f =>
    if e <? i * i then best else
    let best1 :=
      if sd_is_div e i then
        N.max best (N.max (if i <=? epd then i else 0) (if e / i <=? epd then e / i else 0))
      else best in
    sd_fit_scan f e epd (i + 1) best1
  end.

Definition sd_fit_fast (e epd : N) : N :=
  if e =? 0 then epd
  else if e <=? epd then e
  else match sd_fit_loop 256 e epd with
       | SdOk k => k
       | _ => sd_fit_scan (N.to_nat 65537) e epd 1 0
       end.

Definition sd_fit (e epd : N) : sd_result N :=
  if epd =? 0 then SdFault SdDivZero else SdOk (sd_fit_fast e epd).

(* sd_align with the loop replaced by sd_fit; also returns the loop's start value
   (entries_per_data before the loop) so that callers can tell how long the C loop runs *)
Definition sd_align_fast_info (w : N) (d : sd_sigdef) : sd_result (sd_sigdef * N) :=
  let d1 := sd_defaults w d in
  if w =? 0 then SdFault SdDivZero else
  let m := sd_multiple w in
  sd_bind (sd_round_up (N.max (sdf d1) SAMPLE_DECIMATE_FACTOR_MIN) m) (fun sdf1 =>
  let spd0 := N.max (spd d1) SAMPLES_PER_DATA_MIN in
  let eps0 := N.max (eps d1) ENTRIES_PER_SUMMARY_MIN in
  let sumdf1 := N.max (sumdf d1) SUMMARY_DECIMATE_FACTOR_MIN in
  sd_bind (sd_round_up eps0 sumdf1) (fun eps1 =>
  sd_bind (sd_round_up spd0 sdf1) (fun spd1 =>
  if sdf1 =? 0 then SdFault SdDivZero else
  let epd0 := spd1 / sdf1 in
  sd_bind (sd_fit eps1 epd0) (fun epd1 =>
  let spd2 := u32 (sdf1 * epd1) in
  if sd_block_too_big w spd2 then SdErr JLS_ERROR_PARAMETER_INVALID else
  if sd_summary_too_big eps1 then SdErr JLS_ERROR_PARAMETER_INVALID else
  SdOk (mkSigDef spd2 sdf1 eps1 sumdf1 (sd_anno d1) (sd_utc d1), epd0))))).

Definition sd_align_fast (w : N) (d : sd_sigdef) : sd_result sd_sigdef :=
  match sd_align_fast_info w d with SdOk (d', _) => SdOk d' | SdErr rc => SdErr rc | SdFault f => SdFault f end.

(* what jls_wr_signal_def does with a definition: validate, then align.
   inl rc = rejected by validation with error code rc.  When align itself rejects
   (SdErr), the struct holds the definition after defaults: sd_defaults. *)
Definition sd_define (signal_id source_id signal_type data_type : N) (d : sd_sigdef)
  : N + sd_result (sd_sigdef * N) :=
  let rc := sd_validate signal_id source_id signal_type data_type in
  if rc =? 0 then inr (sd_align_fast_info (sample_size data_type) d) else inl rc.

(* the loop's arguments (entries_per_summary after rounding, entries_per_data before the
   loop), (0, 0) when the C returns before the loop.  Used only by the test generator to
   budget long-running cases (the C loop runs entries_per_data - result times); nothing is
   proved about it and no verdict depends on it. *)
Definition sd_loop_args (w : N) (d : sd_sigdef) : N * N :=
  let d1 := sd_defaults w d in
  if w =? 0 then (0, 0) else
  match sd_round_up (N.max (sdf d1) SAMPLE_DECIMATE_FACTOR_MIN) (sd_multiple w) with
  | SdOk sdf1 =>
    match sd_round_up (N.max (eps d1) ENTRIES_PER_SUMMARY_MIN) (N.max (sumdf d1) SUMMARY_DECIMATE_FACTOR_MIN),
          sd_round_up (N.max (spd d1) SAMPLES_PER_DATA_MIN) sdf1 with
    | SdOk eps1, SdOk spd1 => if sdf1 =? 0 then (0, 0) else (eps1, spd1 / sdf1)
    | _, _ => (0, 0)
    end
  | _ => (0, 0)
  end.
