(* C16: model of the signal-definition normalisation at the top of /repo/src/core.c:
     jls_core_signal_def_validate, signal_def_defaults, round_up_to_multiple,
     jls_core_signal_def_align.
   Definitions only (proofs: SigDefProofs.v).  All numbers are N; every C uint32_t
   operation that can wrap is written with an explicit [u32]; a C division by zero is
   the explicit result [SdFault SdDivZero] (the C process receives SIGFPE).
   Constants (per-width default tables, minimums, SAMPLE_SIZE_BYTES_MAX, the JLS_DATATYPE words)
   come from Generated.v, regenerated from the C on every run. *)
From Coq Require Import NArith List Bool.
From JLS Require Import Generated.
Import ListNotations.
Local Open Scope N_scope.

Definition U32 : N := 4294967296.                 (* 2^32 *)
Definition u32 (x : N) : N := x mod U32.

Inductive sd_fault := SdDivZero | SdNonterm.
Inductive sd_result (A : Type) := SdOk (a : A) | SdFault (f : sd_fault).
Arguments SdOk {A} a.
Arguments SdFault {A} f.
Definition sd_bind {A B} (r : sd_result A) (k : A -> sd_result B) : sd_result B :=
  match r with SdOk a => k a | SdFault f => SdFault f end.

(* the six storage parameters of struct jls_signal_def_s, in declaration order *)
Record sigdef := mkSigDef {
  spd : N;      (* samples_per_data *)
  sdf : N;      (* sample_decimate_factor *)
  eps : N;      (* entries_per_summary *)
  sumdf : N;    (* summary_decimate_factor *)
  anno : N;     (* annotation_decimate_factor *)
  utc : N       (* utc_decimate_factor *)
}.

Definition in_range (d : sigdef) : Prop :=
  spd d < U32 /\ sdf d < U32 /\ eps d < U32 /\ sumdf d < U32 /\ anno d < U32 /\ utc d < U32.

(* ---- data type words (format.h) ---- *)
Definition sample_size (dt : N) : N := N.land (N.shiftr dt 8) 255.   (* jls_datatype_parse_size *)
Definition dt_q (dt : N) : N := N.land (N.shiftr dt 16) 255.          (* jls_datatype_parse_q *)
Definition dt_basetype (dt : N) : N := N.land dt 15.                  (* jls_datatype_parse_basetype *)
Definition BASETYPE_INT : N := dt_basetype JLS_DATATYPE_I32.
Definition BASETYPE_UINT : N := dt_basetype JLS_DATATYPE_U32.
Definition BASETYPE_FLOAT : N := dt_basetype JLS_DATATYPE_F32.

Definition sd_datatypes : list N :=
  [JLS_DATATYPE_I4; JLS_DATATYPE_I8; JLS_DATATYPE_I16; JLS_DATATYPE_I24; JLS_DATATYPE_I32; JLS_DATATYPE_I64;
   JLS_DATATYPE_U1; JLS_DATATYPE_U4; JLS_DATATYPE_U8; JLS_DATATYPE_U16; JLS_DATATYPE_U24; JLS_DATATYPE_U32;
   JLS_DATATYPE_U64; JLS_DATATYPE_F32; JLS_DATATYPE_F64].

(* sample widths of the 15 data types *)
Definition sd_widths : list N := [1; 4; 8; 16; 24; 32; 64].

(* jls_core_signal_def_validate: 0 or JLS_ERROR_PARAMETER_INVALID.
   (the inner `default:` of the basetype switch is unreachable once data_type & 0xffff is
   one of the 15 types; it is modelled as the final else.) *)
Definition sd_validate (signal_id source_id signal_type data_type : N) : N :=
  if JLS_SIGNAL_COUNT <=? signal_id then JLS_ERROR_PARAMETER_INVALID
  else if JLS_SOURCE_COUNT <=? source_id then JLS_ERROR_PARAMETER_INVALID
  else if negb (signal_type =? JLS_SIGNAL_TYPE_FSR) && negb (signal_type =? JLS_SIGNAL_TYPE_VSR)
    then JLS_ERROR_PARAMETER_INVALID
  else if negb (existsb (N.eqb (N.land data_type 65535)) sd_datatypes) then JLS_ERROR_PARAMETER_INVALID
  else if negb (dt_q data_type =? 0) then
    if (dt_basetype data_type =? BASETYPE_INT) || (dt_basetype data_type =? BASETYPE_UINT) then 0
    else JLS_ERROR_PARAMETER_INVALID
  else 0.

(* ---- signal_def_defaults ---- *)
(* the per-width table; annotation/utc come from SIGNAL_32_DEFAULTS for every width
   ("common parameters").  Widths outside the table - in particular 24 - hit
   `default: return;` and get nothing at all. *)
Definition sd_table (w : N) : option sigdef :=
  let a := DEF32_annotation_decimate_factor in
  let u := DEF32_utc_decimate_factor in
  if w =? 1 then Some (mkSigDef DEF1_samples_per_data DEF1_sample_decimate_factor DEF1_entries_per_summary DEF1_summary_decimate_factor a u)
  else if w =? 4 then Some (mkSigDef DEF4_samples_per_data DEF4_sample_decimate_factor DEF4_entries_per_summary DEF4_summary_decimate_factor a u)
  else if w =? 8 then Some (mkSigDef DEF8_samples_per_data DEF8_sample_decimate_factor DEF8_entries_per_summary DEF8_summary_decimate_factor a u)
  else if w =? 16 then Some (mkSigDef DEF16_samples_per_data DEF16_sample_decimate_factor DEF16_entries_per_summary DEF16_summary_decimate_factor a u)
  else if w =? 32 then Some (mkSigDef DEF32_samples_per_data DEF32_sample_decimate_factor DEF32_entries_per_summary DEF32_summary_decimate_factor a u)
  else if w =? 64 then Some (mkSigDef DEF64_samples_per_data DEF64_sample_decimate_factor DEF64_entries_per_summary DEF64_summary_decimate_factor a u)
  else None.

Definition sd_take (x dflt : N) : N := if x =? 0 then dflt else x.     (* SIGNAL_DEF_DEFAULT *)

Definition sd_defaults (w : N) (d : sigdef) : sigdef :=
  match sd_table w with
  | None => d
  | Some t => mkSigDef (sd_take (spd d) (spd t)) (sd_take (sdf d) (sdf t)) (sd_take (eps d) (eps t))
                       (sd_take (sumdf d) (sumdf t)) (sd_take (anno d) (anno t)) (sd_take (utc d) (utc t))
  end.

(* ---- round_up_to_multiple: ((x + m - 1) / m) * m in uint32_t ----
   x + m - 1 is computed mod 2^32 (adding 2^32-1 is subtracting 1 mod 2^32). *)
Definition sd_round_up (x m : N) : sd_result N :=
  if m =? 0 then SdFault SdDivZero
  else SdOk (u32 (u32 (x + m + (U32 - 1)) / m * m)).

(* ---- the `while` loop ----
   while (eps != (eps / epd) * epd) --epd;
   (eps / epd) * epd <= eps never wraps; --epd never wraps because epd = 0 faults in the
   test before it.  Fuel exhausted = SdNonterm (proved impossible with fuel = epd). *)
Definition sd_is_div (e k : N) : bool := e =? e / k * k.

Fixpoint sd_fit_loop (fuel : nat) (e epd : N) : sd_result N :=
  if epd =? 0 then SdFault SdDivZero
  else if sd_is_div e epd then SdOk epd
  else match fuel with
       | O => SdFault SdNonterm
       | S f => sd_fit_loop f e (N.pred epd)
       end.

(* ---- jls_core_signal_def_align; w = jls_datatype_parse_size(data_type) ---- *)
Definition sd_multiple (w : N) : N := (SAMPLE_SIZE_BYTES_MAX * 8) / w.

Definition sd_align (w : N) (d : sigdef) : sd_result sigdef :=
  let d1 := sd_defaults w d in
  if w =? 0 then SdFault SdDivZero else
  let m := sd_multiple w in
  sd_bind (sd_round_up (N.max (sdf d1) SAMPLE_DECIMATE_FACTOR_MIN) m) (fun sdf1 =>
  let spd0 := N.max (spd d1) SAMPLES_PER_DATA_MIN in
  let eps0 := N.max (eps d1) ENTRIES_PER_SUMMARY_MIN in
  let sumdf1 := N.max (sumdf d1) SUMMARY_DECIMATE_FACTOR_MIN in
  sd_bind (sd_round_up eps0 sumdf1) (fun eps1 =>
  sd_bind (sd_round_up spd0 sdf1) (fun spd1 =>
  if sdf1 =? 0 then SdFault SdDivZero else
  let epd0 := spd1 / sdf1 in
  sd_bind (sd_fit_loop (N.to_nat epd0) eps1 epd0) (fun epd1 =>
  SdOk (mkSigDef (u32 (sdf1 * epd1)) sdf1 eps1 sumdf1 (anno d1) (utc d1)))))).

(* ---- the property's relations on the stored parameters ---- *)
Definition Consistent (w : N) (d : sigdef) : Prop :=
  (sdf d * w) mod 8 = 0 /\                                             (* level-1 entry = whole bytes *)
  ((SAMPLE_SIZE_BYTES_MAX * 8) mod w = 0 ->
     (sdf d * w) mod (SAMPLE_SIZE_BYTES_MAX * 8) = 0) /\                (* ... and a multiple of 256 bits *)
  (sdf d <> 0 /\ spd d mod sdf d = 0) /\                               (* block = whole entries *)
  (spd d / sdf d <> 0 /\ eps d mod (spd d / sdf d) = 0) /\             (* summary chunk = whole blocks *)
  (sumdf d <> 0 /\ eps d mod sumdf d = 0) /\                           (* ... and whole next-level groups *)
  SAMPLES_PER_DATA_MIN <= spd d /\ SAMPLE_DECIMATE_FACTOR_MIN <= sdf d /\
  ENTRIES_PER_SUMMARY_MIN <= eps d /\ SUMMARY_DECIMATE_FACTOR_MIN <= sumdf d /\
  1 <= anno d /\ 1 <= utc d.

(* the literal "multiple of 256 bits" clause for every width, 24 included *)
Definition Entry256 (w : N) (d : sigdef) : Prop :=
  (sdf d * w) mod (SAMPLE_SIZE_BYTES_MAX * 8) = 0.

(* executable versions (extracted; evaluated on the implementation's output) *)
Definition consistent_clauses (w : N) (d : sigdef) : list bool :=
  [ (sdf d * w) mod 8 =? 0;
    negb ((SAMPLE_SIZE_BYTES_MAX * 8) mod w =? 0) || ((sdf d * w) mod (SAMPLE_SIZE_BYTES_MAX * 8) =? 0);
    negb (sdf d =? 0) && (spd d mod sdf d =? 0);
    negb (spd d / sdf d =? 0) && (eps d mod (spd d / sdf d) =? 0);
    negb (sumdf d =? 0) && (eps d mod sumdf d =? 0);
    SAMPLES_PER_DATA_MIN <=? spd d;
    SAMPLE_DECIMATE_FACTOR_MIN <=? sdf d;
    ENTRIES_PER_SUMMARY_MIN <=? eps d;
    SUMMARY_DECIMATE_FACTOR_MIN <=? sumdf d;
    1 <=? anno d;
    1 <=? utc d ].
Definition consistentb (w : N) (d : sigdef) : bool := forallb (fun b => b) (consistent_clauses w d).
Definition entry256b (w : N) (d : sigdef) : bool := (sdf d * w) mod (SAMPLE_SIZE_BYTES_MAX * 8) =? 0.

(* ---- the guard: exactly the inputs on which the C neither faults nor stores
   inconsistent parameters (proved in both directions in SigDefProofs.v) ---- *)
Definition sd_sdf0 (w : N) (d : sigdef) : N := N.max (sdf (sd_defaults w d)) SAMPLE_DECIMATE_FACTOR_MIN.
Definition sd_sdf1 (w : N) (d : sigdef) : N :=             (* the rounded factor when nothing wraps *)
  (sd_sdf0 w d + sd_multiple w - 1) / sd_multiple w * sd_multiple w.
Definition sd_spd0 (w : N) (d : sigdef) : N := N.max (spd (sd_defaults w d)) SAMPLES_PER_DATA_MIN.
Definition sd_eps0 (w : N) (d : sigdef) : N := N.max (eps (sd_defaults w d)) ENTRIES_PER_SUMMARY_MIN.
Definition sd_sumdf1 (w : N) (d : sigdef) : N := N.max (sumdf (sd_defaults w d)) SUMMARY_DECIMATE_FACTOR_MIN.

Definition guard_sdf (w : N) (d : sigdef) : Prop := sd_sdf0 w d + sd_multiple w - 1 < U32.
Definition guard_spd (w : N) (d : sigdef) : Prop := sd_spd0 w d + sd_sdf1 w d - 1 < U32.
Definition guard_eps (w : N) (d : sigdef) : Prop := sd_eps0 w d + sd_sumdf1 w d - 1 < U32.
Definition guard_ts (w : N) (d : sigdef) : Prop :=
  anno (sd_defaults w d) <> 0 /\ utc (sd_defaults w d) <> 0.
Definition sd_guard (w : N) (d : sigdef) : Prop :=
  guard_sdf w d /\ guard_spd w d /\ guard_eps w d /\ guard_ts w d.

Definition guard_bits (w : N) (d : sigdef) : list bool :=
  [ sd_sdf0 w d + sd_multiple w - 1 <? U32;
    sd_spd0 w d + sd_sdf1 w d - 1 <? U32;
    sd_eps0 w d + sd_sumdf1 w d - 1 <? U32;
    negb (anno (sd_defaults w d) =? 0) && negb (utc (sd_defaults w d) =? 0) ].
Definition sd_guardb (w : N) (d : sigdef) : bool := forallb (fun b => b) (guard_bits w d).

(* ---- fast, proved-equal evaluation of the loop (the C loop runs up to 3.6e8 times) ----
   largest k <= epd with k | e: immediate cases, then 256 steps of the real loop, then a
   scan of the divisor pairs (i, e/i) for i*i <= e. *)
Fixpoint sd_fit_scan (fuel : nat) (e epd i best : N) : N :=
  match fuel with
  | O => best
  | S f =>
    if e <? i * i then best else
    let best1 :=
      if sd_is_div e i then
        N.max best (N.max (if i <=? epd then i else 0) (if e / i <=? epd then e / i else 0))
      else best in
    sd_fit_scan f e epd (i + 1) best1
  end.

Definition sd_fit_fast (e epd : N) : N :=
  if e =? 0 then epd
  else if e <=? epd then e
  else match sd_fit_loop 256 e epd with
       | SdOk k => k
       | SdFault _ => sd_fit_scan (N.to_nat 65537) e epd 1 0
       end.

Definition sd_fit (e epd : N) : sd_result N :=
  if epd =? 0 then SdFault SdDivZero else SdOk (sd_fit_fast e epd).

(* sd_align with the loop replaced by sd_fit; also returns the loop's start value
   (entries_per_data before the loop) so that callers can tell how long the C loop runs *)
Definition sd_align_fast_info (w : N) (d : sigdef) : sd_result (sigdef * N) :=
  let d1 := sd_defaults w d in
  if w =? 0 then SdFault SdDivZero else
  let m := sd_multiple w in
  sd_bind (sd_round_up (N.max (sdf d1) SAMPLE_DECIMATE_FACTOR_MIN) m) (fun sdf1 =>
  let spd0 := N.max (spd d1) SAMPLES_PER_DATA_MIN in
  let eps0 := N.max (eps d1) ENTRIES_PER_SUMMARY_MIN in
  let sumdf1 := N.max (sumdf d1) SUMMARY_DECIMATE_FACTOR_MIN in
  sd_bind (sd_round_up eps0 sumdf1) (fun eps1 =>
  sd_bind (sd_round_up spd0 sdf1) (fun spd1 =>
  if sdf1 =? 0 then SdFault SdDivZero else
  let epd0 := spd1 / sdf1 in
  sd_bind (sd_fit eps1 epd0) (fun epd1 =>
  SdOk (mkSigDef (u32 (sdf1 * epd1)) sdf1 eps1 sumdf1 (anno d1) (utc d1), epd0))))).

Definition sd_align_fast (w : N) (d : sigdef) : sd_result sigdef :=
  match sd_align_fast_info w d with SdOk (d', _) => SdOk d' | SdFault f => SdFault f end.

(* what jls_wr_signal_def does with a definition: validate, then align.
   inl rc = rejected with error code rc. *)
Definition sd_define (signal_id source_id signal_type data_type : N) (d : sigdef)
  : N + sd_result (sigdef * N) :=
  let rc := sd_validate signal_id source_id signal_type data_type in
  if rc =? 0 then inr (sd_align_fast_info (sample_size data_type) d) else inl rc.

(* the loop's arguments (entries_per_summary after rounding, entries_per_data before the
   loop), (0, 0) when the C faults before the loop.  Used only by the test generator to
   budget long-running cases (the C loop runs entries_per_data - result times); nothing is
   proved about it and no verdict depends on it. *)
Definition sd_loop_args (w : N) (d : sigdef) : N * N :=
  let d1 := sd_defaults w d in
  if w =? 0 then (0, 0) else
  match sd_round_up (N.max (sdf d1) SAMPLE_DECIMATE_FACTOR_MIN) (sd_multiple w) with
  | SdFault _ => (0, 0)
  | SdOk sdf1 =>
    match sd_round_up (N.max (eps d1) ENTRIES_PER_SUMMARY_MIN) (N.max (sumdf d1) SUMMARY_DECIMATE_FACTOR_MIN),
          sd_round_up (N.max (spd d1) SAMPLES_PER_DATA_MIN) sdf1 with
    | SdOk eps1, SdOk spd1 => if sdf1 =? 0 then (0, 0) else (eps1, spd1 / sdf1)
    | _, _ => (0, 0)
    end
  end.
