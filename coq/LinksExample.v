(* ITEM_NEXT LINK INVARIANT: the example program of Properties_e2e.v (E2eExample): the guards hold, and the links of its
   three definition lists read from the FILE BYTES, by computation. *)
From Coq Require Import NArith ZArith List Bool.
From JLS Require Import Generated CrcDefs Spec Format WriteOnce WmRaw WmCore WmTs WmFsr WriterModel WmProofs WmWriteOnce WmWriteOnce4
  RefineLog ComposeExamples E2eLog E2eModel E2eExample LinksCore LinksTop.
Import ListNotations.
Local Open Scope N_scope.

Lemma lk_ex_hyps :
  wm_st_fault (fst (wm_run_full wm_zero_summ1 wm_zero_summN (cx_p1 ++ WSig cx_sig :: cx_p2))) = false /\
  wmw_bounded (wm_st_log (fst (wm_run_full wm_zero_summ1 wm_zero_summN (cx_p1 ++ WSig cx_sig :: cx_p2)))).
Proof. split; [vm_compute; reflexivity|]. apply wmw_bounded_b_sound. vm_compute. reflexivity. Qed.

(* item_next decoded from the file at the chunks of list k, against the offsets of their successors *)
Definition lk_ex_next (k : N) : list (option N) * list (option N) * nat :=
  let p := cx_p1 ++ WSig cx_sig :: cx_p2 in
  let f := e2_file wm_zero_summ1 wm_zero_summN p in
  let l := filter (fun c => lk_key (rc_tag c) =? k) (rf_chunks (wm_st_log (fst (wm_run_full wm_zero_summ1 wm_zero_summN p)))) in
  (map (fun c => option_map fm_item_next (fm_decode_chunk_header (skipn (N.to_nat (rc_off c)) f))) l,
   map Some (tl (map rc_off l) ++ [0]), length l).

Lemma lk_ex_next_eq : forall k, lk_ex_next k =
  let p := cx_p1 ++ WSig cx_sig :: cx_p2 in
  let f := e2_file wm_zero_summ1 wm_zero_summN p in
  let l := filter (fun c => lk_key (rc_tag c) =? k) (rf_chunks (wm_st_log (fst (wm_run_full wm_zero_summ1 wm_zero_summN p)))) in
  (map (fun c => option_map fm_item_next (fm_decode_chunk_header (skipn (N.to_nat (rc_off c)) f))) l,
   map Some (tl (map rc_off l) ++ [0]), length l).
Proof. intro k. reflexivity. Qed.

Lemma lk_ex_links :
  fst (fst (lk_ex_next 1)) = snd (fst (lk_ex_next 1)) /\ (2 <= snd (lk_ex_next 1))%nat /\
  fst (fst (lk_ex_next 2)) = snd (fst (lk_ex_next 2)) /\ (14 <= snd (lk_ex_next 2))%nat /\
  fst (fst (lk_ex_next 3)) = snd (fst (lk_ex_next 3)) /\ (1 <= snd (lk_ex_next 3))%nat.
Proof. vm_compute. repeat split; try reflexivity; repeat constructor. Qed.
