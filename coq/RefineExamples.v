(* Refinement glue: concrete instances showing that the hypotheses of the theorems of Properties_refine.v are
   satisfiable by non-trivial values (states reached by the byte-exact model itself), by vm_compute. *)
From Coq Require Import NArith ZArith List Bool Lia.
From JLS Require Import Generated CrcDefs Spec Format FormatProofs WmRaw WmCore WmTs WmFsr WriterModel WmProofs PyramidModel TsModel
  FsrPackModel FsrPackProofs DefsModel RefineLog RefineFsr RefinePyr RefinePyr2 RefineBits RefineBits2 RefineDefs RefineTs.
Import ListNotations.
Local Open Scope N_scope.

Definition rx_src : srcdef :=
  {| so_id := 3; so_name := SBytes [97; 98]; so_vendor := SNull; so_model := SBytes []; so_version := SNull; so_serial := SNull |}.
Definition rx_sig : sigdef :=
  {| sg_id := 5; sg_src := 3; sg_type := JLS_SIGNAL_TYPE_FSR; sg_dtype := JLS_DATATYPE_U8; sg_rate := 1000; sg_spd := 32; sg_sdf := 32;
     sg_eps := 10; sg_sumdf := 10; sg_adf := 10; sg_udf := 10; sg_name := SBytes [120]; sg_units := SNull |}.
(* the state of the byte-exact model after jls_wr_open; jls_wr_source_def; jls_wr_signal_def *)
Definition rx_st : wm_state := fst (wm_steps wm_zero_summ1 wm_zero_summN wm_api_open [WSrc rx_src; WSig rx_sig] []).
Definition rx_s : wm_signal :=
  match wm_find_sig rx_st 5 with
  | Some s => s
  | None => {| wm_sg_def := signal0; wm_sg_tk_fsr := wm_track0 0; wm_sg_tk_vsr := wm_track0 0; wm_sg_tk_anno := wm_track0 0;
               wm_sg_tk_utc := wm_track0 0; wm_sg_fsr := None; wm_sg_anno := None; wm_sg_utc := None |}
  end.
Definition rx_d : sigdef := wm_sg_def rx_s.
Definition rx_x0 : wm_fx := {| wm_fx_base := wm_st_base rx_st; wm_fx_tk := wm_sg_tk_fsr rx_s; wm_fx_fsr := wm_fsr_open |}.
(* 70 samples from id 100, omit on, a 5-sample gap, 400 constant samples: a constant block is omitted, two levels *)
Definition rx_ops : list rf_op := [RfData 100%Z (map N.of_nat (seq 0 70)); RfOmit 1; RfData 175%Z (repeat 7 400)].

Lemma rx_fresh : rf_fresh rx_x0.
Proof.
  split; [apply rf_bokb_ok; vm_compute; reflexivity|]. split; [apply rf_tokb_ok; vm_compute; reflexivity|].
  split; [vm_compute; reflexivity|]. split; [vm_compute; reflexivity|]. split; vm_compute; reflexivity.
Qed.

Lemma rx_fsr_example :
  (0 < 1)%Z /\ sg_id rx_d < 256 /\ 0 < sg_spd rx_d /\ (dt_bits (sg_dtype rx_d) < 8 \/ dt_bits (sg_dtype rx_d) mod 8 = 0) /\
  0 < wm_fill_buf_samples (sg_dtype rx_d) /\ 32 * sg_eps rx_d + 16 < 4294967296 /\ 8 * sg_sumdf rx_d + 16 < 4294967296 /\
  16 + (sg_spd rx_d * dt_bits (sg_dtype rx_d) + 7) / 8 < 4294967296 /\
  rf_fresh rx_x0 /\ wm_fx_fsr rx_x0 = wm_fsr_open /\
  exists st, py_srun (rf_pd rx_d) (dt_bits (sg_dtype rx_d) <=? 8) (rf_t0 rx_ops) 1 (rf_script rx_d rf_bs0 rx_ops) = PyOk st /\
    length (pw_disk st) = 10%nat /\
    map (fun c => (rc_tag c, fm_meta_level (rc_meta c)))
        (rev (filter (rf_mine rx_d) (rf_out (wm_fsr_close wm_zero_summ1 wm_zero_summN rx_d
                                              (fold_left (rf_do wm_zero_summ1 wm_zero_summN rx_d) rx_ops rx_x0))))) =
    [(34, 0); (34, 0); (34, 0); (35, 1); (36, 1); (34, 0); (35, 1); (36, 1); (35, 2); (36, 2)] /\
    map (@length N) (rf_blocks rx_d rf_bs0 rx_ops) = [32; 32; 32; 32; 32; 32; 32; 32; 32; 32; 32; 32; 32; 32; 27]%nat.
Proof.
  split; [reflexivity|]. split; [vm_compute; reflexivity|]. split; [vm_compute; reflexivity|]. split; [right; vm_compute; reflexivity|].
  split; [vm_compute; reflexivity|]. split; [vm_compute; reflexivity|]. split; [vm_compute; reflexivity|]. split; [vm_compute; reflexivity|].
  split; [exact rx_fresh|]. split; [reflexivity|].
  eexists. split; [vm_compute; reflexivity|]. split; [vm_compute; reflexivity|]. split; vm_compute; reflexivity.
Qed.

(* B: FsrPackModel on the same calls *)
Lemma rx_bits_example :
  In (sg_dtype rx_d) fp_dt_list /\ 0 < sg_spd rx_d /\ (sg_spd rx_d * dt_bits (sg_dtype rx_d)) mod 8 = 0 /\
  sg_spd rx_d * dt_bits (sg_dtype rx_d) + 7 < 4294967296 /\
  8 * N.of_nat (length (repeat 165 32)) = sg_spd rx_d * dt_bits (sg_dtype rx_d) /\ Forall (fun b => b < 256) (repeat 165 32) /\
  Forall (fun c => N.of_nat (length (snd c)) < 4294967296) (rf_calls rx_ops) /\
  exists st, fp_write_all (sg_dtype rx_d) (sg_spd rx_d) (repeat 165 32) (rf_calls rx_ops) = FP_ok st /\ length (fp_blocks st) = 15%nat.
Proof.
  split; [vm_compute; tauto|]. split; [vm_compute; reflexivity|]. split; [vm_compute; reflexivity|]. split; [vm_compute; reflexivity|].
  split; [vm_compute; reflexivity|]. split; [apply Forall_forall; intros b Hb; apply repeat_spec in Hb; subst b; reflexivity|].
  split; [repeat constructor|]. eexists. split; [vm_compute; reflexivity|vm_compute; reflexivity].
Qed.

(* C: 25 annotations with decimate factor 10 on the annotation track of the same signal *)
Definition rx_anno (k : nat) : anno :=
  {| an_ts := Z.of_nat (k / 3); an_y := N.of_nat k; an_type := 1; an_group := 2; an_stype := 1; an_data := [N.of_nat (k mod 256)] |}.
Definition rx_annos : list anno := map rx_anno (seq 0 25).
Definition rx_encS (s : ts_anno_sum) : list N := let '(t, ty, g, y) := s in wm_anno_summary_entry t ty g y.
Definition rx_tx0 : wm_tx :=
  {| wm_tx_base := wm_st_base rx_st; wm_tx_tk := wm_sg_tk_anno rx_s; wm_tx_ts := wm_ts_open 10 |}.

Lemma rx_ts_example :
  rt_fresh JLS_TRACK_TYPE_ANNOTATION 10 rx_tx0 /\
  (forall s, length (rx_encS s) = 16%nat) /\
  Forall (fun a => rf_len (wm_anno_payload a) < 4294967296) rx_annos /\
  tw_st (ts_file anno ts_anno_sum an_ts ts_anno_summ 10 rx_annos) = TsOk /\
  length (tw_disk (ts_file anno ts_anno_sum an_ts ts_anno_summ 10 rx_annos)) = 33%nat.
Proof.
  split.
  { split; [apply rf_bokb_ok; vm_compute; reflexivity|]. split; [apply rf_tokb_ok; vm_compute; reflexivity|].
    split; [vm_compute; reflexivity|]. split; [vm_compute; reflexivity|]. reflexivity. }
  split. { intros [[[t ty] g] y]. unfold rx_encS, wm_anno_summary_entry. rewrite !app_length, fm_enc_i64_length.
           unfold fm_enc_u8, fm_enc_u32. rewrite !fm_enc_length. reflexivity. }
  split. { apply Forall_forall. intros a Ha. apply in_map_iff in Ha. destruct Ha as (k & <- & Hk). apply in_seq in Hk.
           vm_compute. reflexivity. }
  split; vm_compute; reflexivity.
Qed.
