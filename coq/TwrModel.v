(* Threaded writer: /repo/src/threaded_writer.c (jls_twr_*: producer API, msg_send /
   msg_send_inner, flush tickets, close, jls_twr_run consumer loop) over
   /repo/src/backend_posix.c (msg_mutex, process_mutex, event flag = mutex + condition + flag,
   thread join, jls_bkt_sleep_ms, jls_now) and the concrete ring buffer of MrbModel.v
   (jls_mrb_alloc as it is in /repo now: MrbModel.alloc_fixed).
   Definitions only; proofs are in TwrProofs.v.

   Small-step interleaving semantics.  Control locations are exactly the calls at which the
   scheduling harness (harness/twr_sched.c) yields:
     B thread begins   L m lock   U m unlock   (m: 0 msg_mutex, 1 process_mutex, 2 event mutex)
     W cond_wait releases + sleeps   R cond_wait woken + re-acquires   S cond_signal
     N nanosleep starts   Z nanosleep wakes   J pthread_join returns   H producer 0 waits for the others
   One step of thread t = perform the call t is stopped at (if it is enabled), then run t's local
   code up to its next such call.  `tw_step fx s t = None` = t is blocked (or finished).
   `tw_tick` advances virtual time (milliseconds).
   fx = false: the protocol as it is in /repo.  fx = true: the repaired protocol: jls_twr_close
   repeats msg_send(CLOSE) until the message is queued (`while (msg_send(...)) {}`), then joins.
   (The other obvious repair - set `quit` and signal the event when the CLOSE message cannot be
   queued - is NOT correct on every schedule: a writer thread that has not yet evaluated its first
   `while (!self->quit)` leaves without draining the queue and accepted messages are lost.)

   Ghost (no influence on behaviour): tw_accepted (messages whose allocation succeeded, in
   msg_mutex acquisition order, tagged with producer and call index), tw_applied (operations
   handed to the synchronous writer, in process_mutex acquisition order; the writer is a fold
   over this list), tw_trace (events, most recent first; compared with the harness trace by
   ocaml/drv_twr.ml).

   Partial (labelled in the evidence): the reads of flush_processed_id / quit / flags without a
   lock are atomic here; the consumer reads the whole message when it takes the process lock
   (the C copies the 40-byte header one step earlier, after releasing msg_mutex: same memory,
   which no producer may write, see TwrProofs.tw_fifo_inv); time is in whole milliseconds:
   `jls_now() <= t_start + 5000*JLS_TIME_MILLISECOND` holds iff now_ms <= start_ms + 5000 and
   `jls_now() >= t_start + 20000*JLS_TIME_MILLISECOND` iff now_ms > start_ms + 20000 (the
   constant JLS_TIME_MILLISECOND is rounded up by less than a microsecond per 1000). *)
From Coq Require Import NArith List Bool.
From JLS Require Import Generated MrbModel.
Import ListNotations.
Local Open Scope N_scope.

Inductive tw_tid := TwTProd (i : nat) | TwTCons.
Definition tw_tid_eqb (a b : tw_tid) : bool :=
  match a, b with TwTProd i, TwTProd j => Nat.eqb i j | TwTCons, TwTCons => true | _, _ => false end.

Definition tw_EBUSY : N := 19.                       (* JLS_ERROR_BUSY; checked against the harness output *)
Definition tw_ETIMEDOUT : N := JLS_ERROR_TIMED_OUT.
Definition tw_send_timeout : N := JLS_BK_MSG_WRITE_TIMEOUT_MS.
Definition tw_flush_timeout : N := JLS_BK_FLUSH_TIMEOUT_MS.

(* ---- API calls of a producer ---- *)
Inductive tw_mkind := TwMkUser | TwMkFsr | TwMkOmit | TwMkAnn | TwMkUtc.
Definition tw_mcode (k : tw_mkind) : N :=
  match k with TwMkUser => 2 | TwMkFsr => 3 | TwMkOmit => 4 | TwMkAnn => 5 | TwMkUtc => 6 end.   (* enum message_e *)
Definition tw_is_fsr (k : tw_mkind) : bool := match k with TwMkFsr => true | _ => false end.

Inductive tw_call :=
| TwCDef (d : N)                            (* jls_twr_source_def / jls_twr_signal_def: synchronous, under process_mutex *)
| TwCSend (k : tw_mkind) (body : list N)    (* user_data / fsr / omit / annotation / utc: message = type byte :: body *)
| TwCFlush
| TwCFlags (drop : bool)                    (* jls_twr_flags_set: JLS_TWR_FLAG_DROP_ON_OVERFLOW *)
| TwCClose.

(* ---- messages: SIZEOF_msg_header bytes of header (type at 0, hdr.d at 32..39) + payload ---- *)
Fixpoint tw_le (n : nat) (x : N) : list N :=
  match n with O => [] | S n' => (x mod 256) :: tw_le n' (x / 256) end.
Definition tw_of_le (l : list N) : N := fold_right (fun b acc => b + 256 * acc) 0 l.

Definition tw_user_msg (k : tw_mkind) (body : list N) : msg := tw_mcode k :: body.
Definition tw_flush_msg (id : N) : msg := 1 :: repeat 0 31 ++ tw_le 8 id.
Definition tw_close_msg : msg := 0 :: repeat 0 39.
Definition tw_kind_of (m : msg) : N := nth 0 m 0.
Definition tw_flush_id (m : msg) : N := tw_of_le (firstn 8 (skipn 32 m)).

(* ---- operations handed to the synchronous writer ---- *)
Inductive tw_aop :=
| TwADef (i : nat) (d : N)      (* definition d of producer i *)
| TwAMsg (m : msg)              (* message dispatched by jls_twr_run (type 0 CLOSE: no writer call; 1 FLUSH: jls_wr_flush) *)
| TwAEnd.                       (* jls_wr_close *)
Fixpoint tw_msgs_of (l : list tw_aop) : list msg :=
  match l with [] => [] | TwAMsg m :: r => m :: tw_msgs_of r | _ :: r => tw_msgs_of r end.
Definition tw_writer_run {W : Type} (f : W -> tw_aop -> W) (w0 : W) (l : list tw_aop) : W := fold_left f l w0.

(* ---- events ---- *)
Inductive tw_ev :=
| TwEvB (t : tw_tid) | TwEvL (t : tw_tid) (m : N) | TwEvU (t : tw_tid) (m : N) | TwEvW (t : tw_tid) | TwEvR (t : tw_tid)
| TwEvS (t : tw_tid) | TwEvN (t : tw_tid) (ms : N) | TwEvZ (t : tw_tid) | TwEvJ (t : tw_tid) | TwEvH (t : tw_tid) | TwEvX (t : tw_tid)
| TwEvNow (t : tw_tid) (now : N)
| TwEvAlloc (t : tw_tid) (sz : N) (r : option N)
| TwEvPeek (t : tw_tid) (r : option (N * N)) | TwEvPop (t : tw_tid) (r : option (N * N))
| TwEvCall (t : tw_tid) (idx : nat)
| TwEvRet (t : tw_tid) (idx : nat) (c : tw_call) (rc : option N)     (* rc None: the writer's return code (definitions) *)
| TwEvFlushed (t : tw_tid) (idx : nat) (mark : nat)   (* ghost: flush returns 0; mark = number of messages accepted when its ticket was taken *)
| TwEvTicket (t : tw_tid) (idx : nat) (id : N) (mark : nat)   (* ghost: flush ticket id taken when `mark` messages had been accepted *)
| TwEvTick (d : N).

(* ---- producer control ---- *)
Inductive tw_cont := TwKRet | TwKFlush (id : N) (mark : nat) | TwKClose.
Record tw_send := tw_mk_send { tw_sd_msg : msg; tw_sd_stop : N; tw_sd_retry : bool; tw_sd_k : tw_cont }.

Inductive tw_ppc :=
| TwPStart | TwPHJoin
| TwPDefLock (d : N) | TwPDefUnlock
| TwPTicketLock | TwPTicketUnlock (id : N) (mark : nat)
| TwPSendLock (c : tw_send) | TwPSendUnlock (c : tw_send) (ok : bool)
| TwPSigLock (k : tw_cont) | TwPSigSignal (k : tw_cont) | TwPSigUnlock (k : tw_cont)
| TwPSendSleep (c : tw_send) | TwPSendWake (c : tw_send) (wake : N)
| TwPFlushSleep (id : N) (mark : nat) (stop : N) | TwPFlushWake (id : N) (mark : nat) (stop wake : N)
| TwPJoin | TwPDone.
Record tw_pthread := tw_mk_pt { tw_pt_pc : tw_ppc; tw_pt_calls : list tw_call; tw_pt_idx : nat }.
Definition tw_with_pc (p : tw_pthread) (pc : tw_ppc) : tw_pthread := tw_mk_pt pc (tw_pt_calls p) (tw_pt_idx p).

(* ---- consumer control (jls_twr_run) ---- *)
Inductive tw_cctl := TwCStart | TwCWaitLock | TwCWaitCond | TwCWaitReacq | TwCWaitUnlock | TwCLockM | TwCUnlockM | TwCLockP | TwCUnlockP | TwCDone.

(* ---- state ---- *)
Record tw_state := tw_mk {
  tw_q : mrb;
  tw_fault : option fault;
  tw_mM : option tw_tid;
  tw_mP : option tw_tid;
  tw_mE : option tw_tid;
  tw_flag : bool;
  tw_signalled : bool;
  tw_quit : bool;
  tw_drop : bool;
  tw_opened : bool;
  tw_send_id : N;
  tw_proc_id : N;
  tw_now : N;
  tw_prods : list tw_pthread;
  tw_cpc : tw_cctl;
  tw_held : option (N * N);
  tw_accepted : list (nat * nat * msg);
  tw_applied : list tw_aop;
  tw_trace : list tw_ev
}.

Definition tw_set_q (s : tw_state) (v : mrb) : tw_state := tw_mk v (tw_fault s) (tw_mM s) (tw_mP s) (tw_mE s) (tw_flag s) (tw_signalled s) (tw_quit s) (tw_drop s) (tw_opened s) (tw_send_id s) (tw_proc_id s) (tw_now s) (tw_prods s) (tw_cpc s) (tw_held s) (tw_accepted s) (tw_applied s) (tw_trace s).
Definition tw_set_fault (s : tw_state) (v : option fault) : tw_state := tw_mk (tw_q s) v (tw_mM s) (tw_mP s) (tw_mE s) (tw_flag s) (tw_signalled s) (tw_quit s) (tw_drop s) (tw_opened s) (tw_send_id s) (tw_proc_id s) (tw_now s) (tw_prods s) (tw_cpc s) (tw_held s) (tw_accepted s) (tw_applied s) (tw_trace s).
Definition tw_set_mM (s : tw_state) (v : option tw_tid) : tw_state := tw_mk (tw_q s) (tw_fault s) v (tw_mP s) (tw_mE s) (tw_flag s) (tw_signalled s) (tw_quit s) (tw_drop s) (tw_opened s) (tw_send_id s) (tw_proc_id s) (tw_now s) (tw_prods s) (tw_cpc s) (tw_held s) (tw_accepted s) (tw_applied s) (tw_trace s).
Definition tw_set_mP (s : tw_state) (v : option tw_tid) : tw_state := tw_mk (tw_q s) (tw_fault s) (tw_mM s) v (tw_mE s) (tw_flag s) (tw_signalled s) (tw_quit s) (tw_drop s) (tw_opened s) (tw_send_id s) (tw_proc_id s) (tw_now s) (tw_prods s) (tw_cpc s) (tw_held s) (tw_accepted s) (tw_applied s) (tw_trace s).
Definition tw_set_mE (s : tw_state) (v : option tw_tid) : tw_state := tw_mk (tw_q s) (tw_fault s) (tw_mM s) (tw_mP s) v (tw_flag s) (tw_signalled s) (tw_quit s) (tw_drop s) (tw_opened s) (tw_send_id s) (tw_proc_id s) (tw_now s) (tw_prods s) (tw_cpc s) (tw_held s) (tw_accepted s) (tw_applied s) (tw_trace s).
Definition tw_set_flag (s : tw_state) (v : bool) : tw_state := tw_mk (tw_q s) (tw_fault s) (tw_mM s) (tw_mP s) (tw_mE s) v (tw_signalled s) (tw_quit s) (tw_drop s) (tw_opened s) (tw_send_id s) (tw_proc_id s) (tw_now s) (tw_prods s) (tw_cpc s) (tw_held s) (tw_accepted s) (tw_applied s) (tw_trace s).
Definition tw_set_signalled (s : tw_state) (v : bool) : tw_state := tw_mk (tw_q s) (tw_fault s) (tw_mM s) (tw_mP s) (tw_mE s) (tw_flag s) v (tw_quit s) (tw_drop s) (tw_opened s) (tw_send_id s) (tw_proc_id s) (tw_now s) (tw_prods s) (tw_cpc s) (tw_held s) (tw_accepted s) (tw_applied s) (tw_trace s).
Definition tw_set_quit (s : tw_state) (v : bool) : tw_state := tw_mk (tw_q s) (tw_fault s) (tw_mM s) (tw_mP s) (tw_mE s) (tw_flag s) (tw_signalled s) v (tw_drop s) (tw_opened s) (tw_send_id s) (tw_proc_id s) (tw_now s) (tw_prods s) (tw_cpc s) (tw_held s) (tw_accepted s) (tw_applied s) (tw_trace s).
Definition tw_set_drop (s : tw_state) (v : bool) : tw_state := tw_mk (tw_q s) (tw_fault s) (tw_mM s) (tw_mP s) (tw_mE s) (tw_flag s) (tw_signalled s) (tw_quit s) v (tw_opened s) (tw_send_id s) (tw_proc_id s) (tw_now s) (tw_prods s) (tw_cpc s) (tw_held s) (tw_accepted s) (tw_applied s) (tw_trace s).
Definition tw_set_opened (s : tw_state) (v : bool) : tw_state := tw_mk (tw_q s) (tw_fault s) (tw_mM s) (tw_mP s) (tw_mE s) (tw_flag s) (tw_signalled s) (tw_quit s) (tw_drop s) v (tw_send_id s) (tw_proc_id s) (tw_now s) (tw_prods s) (tw_cpc s) (tw_held s) (tw_accepted s) (tw_applied s) (tw_trace s).
Definition tw_set_send_id (s : tw_state) (v : N) : tw_state := tw_mk (tw_q s) (tw_fault s) (tw_mM s) (tw_mP s) (tw_mE s) (tw_flag s) (tw_signalled s) (tw_quit s) (tw_drop s) (tw_opened s) v (tw_proc_id s) (tw_now s) (tw_prods s) (tw_cpc s) (tw_held s) (tw_accepted s) (tw_applied s) (tw_trace s).
Definition tw_set_proc_id (s : tw_state) (v : N) : tw_state := tw_mk (tw_q s) (tw_fault s) (tw_mM s) (tw_mP s) (tw_mE s) (tw_flag s) (tw_signalled s) (tw_quit s) (tw_drop s) (tw_opened s) (tw_send_id s) v (tw_now s) (tw_prods s) (tw_cpc s) (tw_held s) (tw_accepted s) (tw_applied s) (tw_trace s).
Definition tw_set_now (s : tw_state) (v : N) : tw_state := tw_mk (tw_q s) (tw_fault s) (tw_mM s) (tw_mP s) (tw_mE s) (tw_flag s) (tw_signalled s) (tw_quit s) (tw_drop s) (tw_opened s) (tw_send_id s) (tw_proc_id s) v (tw_prods s) (tw_cpc s) (tw_held s) (tw_accepted s) (tw_applied s) (tw_trace s).
Definition tw_set_prods (s : tw_state) (v : list tw_pthread) : tw_state := tw_mk (tw_q s) (tw_fault s) (tw_mM s) (tw_mP s) (tw_mE s) (tw_flag s) (tw_signalled s) (tw_quit s) (tw_drop s) (tw_opened s) (tw_send_id s) (tw_proc_id s) (tw_now s) v (tw_cpc s) (tw_held s) (tw_accepted s) (tw_applied s) (tw_trace s).
Definition tw_set_cpc (s : tw_state) (v : tw_cctl) : tw_state := tw_mk (tw_q s) (tw_fault s) (tw_mM s) (tw_mP s) (tw_mE s) (tw_flag s) (tw_signalled s) (tw_quit s) (tw_drop s) (tw_opened s) (tw_send_id s) (tw_proc_id s) (tw_now s) (tw_prods s) v (tw_held s) (tw_accepted s) (tw_applied s) (tw_trace s).
Definition tw_set_held (s : tw_state) (v : option (N * N)) : tw_state := tw_mk (tw_q s) (tw_fault s) (tw_mM s) (tw_mP s) (tw_mE s) (tw_flag s) (tw_signalled s) (tw_quit s) (tw_drop s) (tw_opened s) (tw_send_id s) (tw_proc_id s) (tw_now s) (tw_prods s) (tw_cpc s) v (tw_accepted s) (tw_applied s) (tw_trace s).
Definition tw_set_accepted (s : tw_state) (v : list (nat * nat * msg)) : tw_state := tw_mk (tw_q s) (tw_fault s) (tw_mM s) (tw_mP s) (tw_mE s) (tw_flag s) (tw_signalled s) (tw_quit s) (tw_drop s) (tw_opened s) (tw_send_id s) (tw_proc_id s) (tw_now s) (tw_prods s) (tw_cpc s) (tw_held s) v (tw_applied s) (tw_trace s).
Definition tw_set_applied (s : tw_state) (v : list tw_aop) : tw_state := tw_mk (tw_q s) (tw_fault s) (tw_mM s) (tw_mP s) (tw_mE s) (tw_flag s) (tw_signalled s) (tw_quit s) (tw_drop s) (tw_opened s) (tw_send_id s) (tw_proc_id s) (tw_now s) (tw_prods s) (tw_cpc s) (tw_held s) (tw_accepted s) v (tw_trace s).
Definition tw_set_trace (s : tw_state) (v : list tw_ev) : tw_state := tw_mk (tw_q s) (tw_fault s) (tw_mM s) (tw_mP s) (tw_mE s) (tw_flag s) (tw_signalled s) (tw_quit s) (tw_drop s) (tw_opened s) (tw_send_id s) (tw_proc_id s) (tw_now s) (tw_prods s) (tw_cpc s) (tw_held s) (tw_accepted s) (tw_applied s) v.


Definition tw_log (e : tw_ev) (s : tw_state) : tw_state := tw_set_trace s (e :: tw_trace s).
Fixpoint tw_upd {A : Type} (l : list A) (i : nat) (v : A) : list A :=
  match l with [] => [] | x :: r => match i with O => v :: r | S i' => x :: tw_upd r i' v end end.
Definition tw_setp (s : tw_state) (i : nat) (p : tw_pthread) : tw_state := tw_set_prods s (tw_upd (tw_prods s) i p).
Definition tw_free (o : option tw_tid) : bool := match o with None => true | Some _ => false end.
Definition tw_nprod (s : tw_state) : nat := length (tw_prods s).
Definition tw_pdone (p : tw_pthread) : bool := match tw_pt_pc p with TwPDone => true | _ => false end.
Definition tw_others_done (s : tw_state) (i : nat) : bool :=
  forallb (fun x => x) (map (fun jp => Nat.eqb (fst jp) i || tw_pdone (snd jp)) (combine (seq 0 (length (tw_prods s))) (tw_prods s))).
Definition tw_acc_msgs (s : tw_state) : list msg := map snd (tw_accepted s).
Definition tw_processed (s : tw_state) : list msg := tw_msgs_of (tw_applied s).

Definition tw_init (cap : N) (progs : list (list tw_call)) : tw_state :=
  tw_mk (init cap) None None None None false false false false false 0 0 0
        (map (fun cs => tw_mk_pt TwPStart cs 0) progs) TwCStart None [] [] [].

(* ---- producers ---- *)
(* msg_send(): t_start = jls_now(); first evaluation of the loop condition; next call is the msg_mutex lock *)
Definition tw_send_begin (t : tw_tid) (s : tw_state) (m : msg) (k : tw_cont) : tw_state * tw_ppc :=
  let s1 := tw_log (TwEvNow t (tw_now s)) (tw_log (TwEvNow t (tw_now s)) s) in
  (s1, TwPSendLock (tw_mk_send m (tw_now s + tw_send_timeout) true k)).

(* start the calls cs (index idx) of producer i: run to the first scheduling point *)
Fixpoint tw_begin (i : nat) (s : tw_state) (cs : list tw_call) (idx : nat) : tw_state * tw_pthread :=
  let t := TwTProd i in
  match cs with
  | [] => (tw_log (TwEvX t) s, tw_mk_pt TwPDone [] idx)
  | c :: r =>
    match c with
    | TwCFlags b =>
      tw_begin i (tw_log (TwEvRet t idx c (Some 0)) (tw_log (TwEvCall t idx) (tw_set_drop s b))) r (S idx)
    | TwCDef d => (tw_log (TwEvCall t idx) s, tw_mk_pt (TwPDefLock d) cs idx)
    | TwCSend k body =>
      let s1 := tw_log (TwEvCall t idx) s in
      if tw_is_fsr k && tw_drop s then
        (s1, tw_mk_pt (TwPSendLock (tw_mk_send (tw_user_msg k body) 0 false TwKRet)) cs idx)   (* msg_send_inner once *)
      else let '(s2, pc) := tw_send_begin t s1 (tw_user_msg k body) TwKRet in (s2, tw_mk_pt pc cs idx)
    | TwCFlush => (tw_log (TwEvCall t idx) s, tw_mk_pt TwPTicketLock cs idx)
    | TwCClose =>
      if Nat.ltb 1 (tw_nprod s) then (s, tw_mk_pt TwPHJoin cs idx)
      else let '(s2, pc) := tw_send_begin t (tw_log (TwEvCall t idx) s) tw_close_msg TwKClose in (s2, tw_mk_pt pc cs idx)
    end
  end.

(* the current call of p returns rc; continue with the next one *)
Definition tw_ret (i : nat) (s : tw_state) (p : tw_pthread) (rc : option N) : tw_state * tw_pthread :=
  match tw_pt_calls p with
  | [] => tw_begin i s [] (tw_pt_idx p)       (* unreachable: a thread inside a call has that call at the head *)
  | c :: r => tw_begin i (tw_log (TwEvRet (TwTProd i) (tw_pt_idx p) c rc) s) r (S (tw_pt_idx p))
  end.

(* msg_send / msg_send_inner returned (ok = queued) with continuation k *)
Definition tw_send_done (fx : bool) (i : nat) (s : tw_state) (p : tw_pthread) (k : tw_cont) (ok : bool)
  : tw_state * tw_pthread :=
  let t := TwTProd i in
  match k with
  | TwKRet => tw_ret i s p (Some (if ok then 0 else tw_EBUSY))
  | TwKFlush id mark =>                                   (* result ignored; t_start = jls_now(); poll *)
    let s1 := tw_log (TwEvNow t (tw_now s)) s in
    if id <=? tw_proc_id s1 then tw_ret i (tw_log (TwEvFlushed t (tw_pt_idx p) mark) s1) p (Some 0)
    else (s1, tw_with_pc p (TwPFlushSleep id mark (tw_now s + tw_flush_timeout)))
  | TwKClose =>
    if ok || negb fx then (s, tw_with_pc p TwPJoin)         (* /repo: result ignored, jls_bkt_finalize joins *)
    else let '(s2, pc) := tw_send_begin t s tw_close_msg TwKClose in (s2, tw_with_pc p pc)   (* repaired: send again *)
  end.

Definition tw_pstep (fx : bool) (s : tw_state) (i : nat) (p : tw_pthread) : option tw_state :=
  let t := TwTProd i in
  let fin := fun (sp : tw_state * tw_pthread) => Some (tw_setp (fst sp) i (snd sp)) in
  match tw_pt_pc p with
  | TwPStart =>
    if Nat.eqb i 0 || tw_opened s then
      fin (tw_begin i (tw_log (TwEvB t) (if Nat.eqb i 0 then tw_set_opened s true else s)) (tw_pt_calls p) (tw_pt_idx p))
    else None
  | TwPHJoin =>
    if tw_others_done s i then
      let '(s2, pc) := tw_send_begin t (tw_log (TwEvCall t (tw_pt_idx p)) (tw_log (TwEvH t) s)) tw_close_msg TwKClose in
      fin (s2, tw_with_pc p pc)
    else None
  | TwPDefLock d =>
    if tw_free (tw_mP s) then
      let s1 := tw_log (TwEvL t 1) (tw_set_mP s (Some t)) in
      fin (tw_set_applied s1 (tw_applied s1 ++ [TwADef i d]), tw_with_pc p TwPDefUnlock)
    else None
  | TwPDefUnlock => fin (tw_ret i (tw_log (TwEvU t 1) (tw_set_mP s None)) p None)
  | TwPTicketLock =>
    if tw_free (tw_mM s) then
      let s1 := tw_log (TwEvL t 0) (tw_set_mM s (Some t)) in
      let id := (tw_send_id s + 1) mod 18446744073709551616 in
      fin (tw_log (TwEvTicket t (tw_pt_idx p) id (length (tw_accepted s))) (tw_set_send_id s1 id),
           tw_with_pc p (TwPTicketUnlock id (length (tw_accepted s))))
    else None
  | TwPTicketUnlock id mark =>
    let '(s2, pc) := tw_send_begin t (tw_log (TwEvU t 0) (tw_set_mM s None)) (tw_flush_msg id) (TwKFlush id mark) in
    fin (s2, tw_with_pc p pc)
  | TwPSendLock c =>
    if tw_free (tw_mM s) then
      let s1 := tw_log (TwEvL t 0) (tw_set_mM s (Some t)) in
      let sz := len (tw_sd_msg c) in
      match alloc_fixed (tw_q s) sz with
      | Fault f => Some (tw_set_fault s (Some f))
      | Ok (q1, None) => fin (tw_log (TwEvAlloc t sz None) (tw_set_q s1 q1), tw_with_pc p (TwPSendUnlock c false))
      | Ok (q1, Some a) =>
        match fill_fast q1 a (tw_sd_msg c) with
        | Fault f => Some (tw_set_fault s (Some f))
        | Ok q2 =>
          let s2 := tw_log (TwEvAlloc t sz (Some a)) (tw_set_q s1 q2) in
          fin (tw_set_accepted s2 (tw_accepted s2 ++ [(i, tw_pt_idx p, tw_sd_msg c)]), tw_with_pc p (TwPSendUnlock c true))
        end
      end
    else None
  | TwPSendUnlock c ok =>
    let s1 := tw_log (TwEvU t 0) (tw_set_mM s None) in
    if ok then fin (s1, tw_with_pc p (TwPSigLock (tw_sd_k c)))
    else if tw_sd_retry c then fin (s1, tw_with_pc p (TwPSendSleep c))
    else fin (tw_send_done fx i s1 p (tw_sd_k c) false)
  | TwPSigLock k =>
    if tw_free (tw_mE s) then
      fin (tw_set_flag (tw_log (TwEvL t 2) (tw_set_mE s (Some t))) true, tw_with_pc p (TwPSigSignal k))
    else None
  | TwPSigSignal k =>
    let s1 := tw_log (TwEvS t) s in
    fin (match tw_cpc s with TwCWaitReacq => tw_set_signalled s1 true | _ => s1 end, tw_with_pc p (TwPSigUnlock k))
  | TwPSigUnlock k => fin (tw_send_done fx i (tw_log (TwEvU t 2) (tw_set_mE s None)) p k true)
  | TwPSendSleep c => fin (tw_log (TwEvN t 5) s, tw_with_pc p (TwPSendWake c (tw_now s + 5)))
  | TwPSendWake c w =>
    if w <=? tw_now s then
      let s1 := tw_log (TwEvNow t (tw_now s)) (tw_log (TwEvZ t) s) in
      if tw_now s <=? tw_sd_stop c then fin (s1, tw_with_pc p (TwPSendLock c))
      else fin (tw_send_done fx i s1 p (tw_sd_k c) false)
    else None
  | TwPFlushSleep id mark stop => fin (tw_log (TwEvN t 10) s, tw_with_pc p (TwPFlushWake id mark stop (tw_now s + 10)))
  | TwPFlushWake id mark stop w =>
    if w <=? tw_now s then
      let s1 := tw_log (TwEvNow t (tw_now s)) (tw_log (TwEvZ t) s) in
      if stop <? tw_now s then fin (tw_ret i s1 p (Some tw_ETIMEDOUT))
      else if id <=? tw_proc_id s then fin (tw_ret i (tw_log (TwEvFlushed t (tw_pt_idx p) mark) s1) p (Some 0))
      else fin (s1, tw_with_pc p (TwPFlushSleep id mark stop))
    else None
  | TwPJoin =>
    match tw_cpc s with
    | TwCDone => let s1 := tw_log (TwEvJ t) s in fin (tw_ret i (tw_set_applied s1 (tw_applied s1 ++ [TwAEnd])) p (Some 0))
    | _ => None
    end
  | TwPDone => None
  end.

(* ---- consumer: jls_twr_run ---- *)
Definition tw_dispatch (s : tw_state) (m : msg) : tw_state :=
  let s1 := tw_set_applied s (tw_applied s ++ [TwAMsg m]) in
  if tw_kind_of m =? 0 then tw_set_quit s1 true
  else if tw_kind_of m =? 1 then tw_set_proc_id s1 (N.max (tw_flush_id m) (tw_proc_id s1))
  else s1.

Definition tw_cstep (s : tw_state) : option tw_state :=
  let t := TwTCons in
  match tw_cpc s with
  | TwCStart =>
    let s1 := tw_log (TwEvNow t (tw_now s)) (tw_log (TwEvB t) s) in
    if tw_quit s then Some (tw_set_cpc (tw_log (TwEvX t) s1) TwCDone) else Some (tw_set_cpc s1 TwCWaitLock)
  | TwCWaitLock =>
    if tw_free (tw_mE s) then
      let s1 := tw_log (TwEvL t 2) (tw_set_mE s (Some t)) in
      if tw_flag s then Some (tw_set_cpc (tw_set_flag s1 false) TwCWaitUnlock) else Some (tw_set_cpc s1 TwCWaitCond)
    else None
  | TwCWaitCond => Some (tw_set_cpc (tw_set_signalled (tw_log (TwEvW t) (tw_set_mE s None)) false) TwCWaitReacq)
  | TwCWaitReacq =>
    if tw_signalled s && tw_free (tw_mE s) then
      let s1 := tw_log (TwEvR t) (tw_set_mE s (Some t)) in
      if tw_flag s then Some (tw_set_cpc (tw_set_flag s1 false) TwCWaitUnlock) else Some (tw_set_cpc s1 TwCWaitCond)
    else None
  | TwCWaitUnlock => Some (tw_set_cpc (tw_log (TwEvU t 2) (tw_set_mE s None)) TwCLockM)
  | TwCLockM =>
    if tw_free (tw_mM s) then
      let s1 := tw_log (TwEvL t 0) (tw_set_mM s (Some t)) in
      let popped :=
        match tw_held s with
        | None => Ok s1
        | Some _ => bind (pop (tw_q s)) (fun x => Ok (tw_log (TwEvPop t (snd x)) (tw_set_q s1 (fst x))))
        end in
      match bind popped (fun s2 => bind (peek (tw_q s2)) (fun x =>
              Ok (tw_set_held (tw_log (TwEvPeek t (snd x)) (tw_set_q s2 (fst x))) (snd x)))) with
      | Ok s3 => Some (tw_set_cpc s3 TwCUnlockM)
      | Fault f => Some (tw_set_fault s (Some f))
      end
    else None
  | TwCUnlockM =>
    let s1 := tw_log (TwEvU t 0) (tw_set_mM s None) in
    match tw_held s with
    | None => if tw_quit s then Some (tw_set_cpc (tw_log (TwEvX t) s1) TwCDone) else Some (tw_set_cpc s1 TwCWaitLock)
    | Some _ => Some (tw_set_cpc (tw_log (TwEvNow t (tw_now s)) s1) TwCLockP)
    end
  | TwCLockP =>
    if tw_free (tw_mP s) then
      let s1 := tw_log (TwEvL t 1) (tw_set_mP s (Some t)) in
      match tw_held s with
      | None => Some (tw_set_cpc s1 TwCUnlockP)
      | Some (a, sz) =>
        match read_msg (tw_q s) a sz with
        | Ok m => Some (tw_set_cpc (tw_dispatch s1 m) TwCUnlockP)
        | Fault f => Some (tw_set_fault s (Some f))
        end
      end
    else None
  | TwCUnlockP => Some (tw_set_cpc (tw_log (TwEvNow t (tw_now s)) (tw_log (TwEvU t 1) (tw_set_mP s None))) TwCLockM)
  | TwCDone => None
  end.

Definition tw_step (fx : bool) (s : tw_state) (t : tw_tid) : option tw_state :=
  match tw_fault s with
  | Some _ => None
  | None =>
    match t with
    | TwTProd i => match nth_error (tw_prods s) i with Some p => tw_pstep fx s i p | None => None end
    | TwTCons => tw_cstep s
    end
  end.

Definition tw_tick (s : tw_state) (d : N) : tw_state := tw_log (TwEvTick d) (tw_set_now s (tw_now s + d)).

(* schedules: a list of decisions *)
Inductive tw_dec := TwDStep (t : tw_tid) | TwDTick (d : N).
Fixpoint tw_run (fx : bool) (s : tw_state) (l : list tw_dec) : option tw_state :=
  match l with
  | [] => Some s
  | TwDStep t :: r => match tw_step fx s t with Some s' => tw_run fx s' r | None => None end
  | TwDTick d :: r => tw_run fx (tw_tick s d) r
  end.

Inductive tw_reach (fx : bool) (cap : N) (progs : list (list tw_call)) : tw_state -> Prop :=
| tw_reach_init : tw_reach fx cap progs (tw_init cap progs)
| tw_reach_step : forall s t s', tw_reach fx cap progs s -> tw_step fx s t = Some s' -> tw_reach fx cap progs s'
| tw_reach_tick : forall s d, tw_reach fx cap progs s -> tw_reach fx cap progs (tw_tick s d).

(* ---- predicates used in the theorem statements ---- *)
Definition tw_enabled (fx : bool) (s : tw_state) (t : tw_tid) : bool :=
  match tw_step fx s t with Some _ => true | None => false end.
Definition tw_tids (s : tw_state) : list tw_tid := TwTCons :: map TwTProd (seq 0 (length (tw_prods s))).
Definition tw_some_enabled (fx : bool) (s : tw_state) : bool := existsb (tw_enabled fx s) (tw_tids s).
Definition tw_psleeping (s : tw_state) (p : tw_pthread) : bool :=
  match tw_pt_pc p with TwPSendWake _ w => tw_now s <? w | TwPFlushWake _ _ _ w => tw_now s <? w | _ => false end.
Definition tw_some_sleeping (s : tw_state) : bool := existsb (tw_psleeping s) (tw_prods s).
Definition tw_final (s : tw_state) : bool :=
  forallb tw_pdone (tw_prods s) && match tw_cpc s with TwCDone => true | _ => false end.
(* deadlock: nothing can run, nobody sleeps (time cannot help), not everything is finished, no fault *)
Definition tw_deadlocked (fx : bool) (s : tw_state) : bool :=
  negb (tw_some_enabled fx s) && negb (tw_some_sleeping s) && negb (tw_final s) &&
  match tw_fault s with None => true | Some _ => false end.

Definition tw_is_ticket (e : tw_ev) : bool := match e with TwEvTicket _ _ _ _ => true | _ => false end.
Definition tw_ntickets (s : tw_state) : nat := length (filter tw_is_ticket (tw_trace s)).

(* critical sections, by control location *)
Definition tw_pholdsM (pc : tw_ppc) : bool := match pc with TwPSendUnlock _ _ | TwPTicketUnlock _ _ => true | _ => false end.
Definition tw_pholdsP (pc : tw_ppc) : bool := match pc with TwPDefUnlock => true | _ => false end.
Definition tw_pholdsE (pc : tw_ppc) : bool := match pc with TwPSigSignal _ | TwPSigUnlock _ => true | _ => false end.
Definition tw_choldsM (pc : tw_cctl) : bool := match pc with TwCUnlockM => true | _ => false end.
Definition tw_choldsP (pc : tw_cctl) : bool := match pc with TwCUnlockP => true | _ => false end.
Definition tw_choldsE (pc : tw_cctl) : bool := match pc with TwCWaitCond | TwCWaitUnlock => true | _ => false end.
Definition tw_in_crit (s : tw_state) (m : N) (t : tw_tid) : bool :=
  match t with
  | TwTCons => if m =? 0 then tw_choldsM (tw_cpc s) else if m =? 1 then tw_choldsP (tw_cpc s) else tw_choldsE (tw_cpc s)
  | TwTProd i => match nth_error (tw_prods s) i with
               | None => false
               | Some p => if m =? 0 then tw_pholdsM (tw_pt_pc p) else if m =? 1 then tw_pholdsP (tw_pt_pc p) else tw_pholdsE (tw_pt_pc p)
               end
  end.
(* the consumer holds a message that it has already dispatched (popped at its next msg_mutex lock) *)
Definition tw_cdone (s : tw_state) : bool :=
  match tw_cpc s, tw_held s with
  | TwCUnlockP, Some _ => true | TwCLockM, Some _ => true | _, _ => false
  end.
Definition tw_unprocessed (s : tw_state) : list msg :=
  if tw_cdone s then tl (mrb_abs (tw_q s)) else mrb_abs (tw_q s).

(* configurations the theorems are about: a queue that can hold the 40-byte FLUSH/CLOSE messages
   (jls_mrb_alloc refuses sizes above capacity - 8), capacity at most 2^31 (C08) *)
Definition tw_wf (cap : N) (progs : list (list tw_call)) : Prop := 48 <= cap /\ cap <= 2147483648.

(* ---- the witness of the close hang (C07): capacity 128, one producer ----
   user_data of 60+... bytes and a second one fill the queue so that a 40-byte message does not fit;
   the consumer is not scheduled while 5001 ms pass in jls_twr_close's msg_send *)
Definition tw_hang_prog : list (list tw_call) :=
  [[TwCSend TwMkUser (repeat 7 59); TwCSend TwMkUser (repeat 8 19); TwCClose]].
Definition tw_hang_sched : list tw_dec :=
  map TwDStep (repeat (TwTProd 0) 14) ++ [TwDTick 5001] ++ [TwDStep (TwTProd 0)] ++ map TwDStep (repeat TwTCons 15).

(* ---- a complete run (example for the theorem hypotheses): capacity 128, producer 0 = [flush; user_data 60; flush; close],
   producer 1 = [omit]; every thread runs to its next blocking point in turn ---- *)
Definition tw_ex_prog : list (list tw_call) :=
  [[TwCFlush; TwCSend TwMkUser (repeat 7 59); TwCFlush; TwCClose]; [TwCSend TwMkOmit (repeat 0 39)]].
Definition tw_ex_sched : list tw_dec :=
  let a := TwDStep (TwTProd 0) in let b := TwDStep (TwTProd 1) in let c := TwDStep TwTCons in
  repeat a 9 ++ repeat c 11 ++ repeat b 6 ++ repeat c 10 ++ [TwDTick 10] ++ repeat a 11 ++ repeat c 10 ++
  [TwDTick 10] ++ repeat a 7 ++ repeat c 10 ++ [TwDTick 10] ++ repeat a 7 ++ repeat c 8 ++ [a].
