(* C14 for the writer model, part 3: writer.c (WriterModel.v).  A state invariant [wmw_stinv] (the base
   invariant of WmWriteOnce.v plus, for every defined signal, the track invariant of its four tracks), shown
   for jls_wr_open and preserved by every API call and by jls_wr_close; from it the top-level theorems

     wmw_run_accepted / wmw_steps_accepted / wmw_prefix_accepted   (and wmw_reach_log_shape: where offset 0 is written)

   every log the writer model can emit (with or without close, and every prefix of it) is accepted by the strict
   write-once checker, under the guards "no model fault" and "bounded log" (WmWriteOnce.v).
   Every top-level name starts with wmw_. *)
From Coq Require Import NArith ZArith List Bool Lia Arith.
From Coq Require Import ZifyBool ZifyN ZifyNat.
From JLS Require Import Generated CrcDefs Spec Format FormatProofs WriteOnce WriteOnceProofs
                        WmRaw WmCore WmTs WmFsr WriterModel WmProofs WmWriteOnce WmWriteOnce2.
Import ListNotations.
Local Open Scope N_scope.

(* ================================================================ base steps *)
Lemma wmw_bstep_refl : forall b, wmw_bstep b b.
Proof. intro b. split; [apply wmw_le_refl|]. intros s Hb _. exists s. split; [exact Hb|apply wmw_fr_refl]. Qed.

Lemma wmw_bstep_trans : forall a b c, wmw_bstep a b -> wmw_bstep b c -> wmw_bstep a c.
Proof.
  intros a b c [L1 S1] [L2 S2]. split; [eapply wmw_le_trans; eauto|].
  intros s Ha Hg. assert (Hg1 : wmw_bgood b) by (eapply wmw_good_le; eauto).
  destruct (S1 s Ha Hg1) as (s1 & Hb1 & F1). destruct (S2 s1 Hb1 Hg) as (s2 & Hb2 & F2).
  exists s2. split; [exact Hb2|eapply wmw_fr_trans; eauto].
Qed.

Lemma wmw_bstep_tstep : forall id ty b b' t, wmw_bstep b b' -> wmw_tstep id ty b t b' t.
Proof.
  intros id ty b b' t [L S]. split; [exact L|].
  intros s Hb Ht Hg. destruct (S s Hb Hg) as (s' & Hb' & Hfr).
  exists s'. split; [exact Hb'|]. split; [eapply wmw_track_fr_none; eauto|]. split; [apply wmw_fr_weaken; exact Hfr|auto].
Qed.

(* a chunk appended to the source / signal / user-data list *)
Lemma wmw_source_append_bstep : forall b tag meta plen payload r1 h1 r2 c,
  wm_raw_wr (wm_b_raw b) (wm_mk_hdr (wm_ck_offset (wm_b_source_head b)) tag meta plen) payload = (r1, h1) ->
  wm_update_item_head r1 (wm_b_source_head b) {| wm_ck_offset := wm_raw_chunk_tell (wm_b_raw b); wm_ck_hdr := h1 |} = (r2, c) ->
  tag <> 0 -> tag < 256 -> meta < 65536 ->
  wmw_bstep b (wm_b_set_source_head (wm_b_set_raw b r2) c).
Proof.
  intros b tag meta plen payload r1 h1 r2 c E1 E2 T0 T1 M.
  destruct (wmw_base_append _ _ _ _ _ _ _ _ _ _ E1 E2) as [L S]. split; [exact L|].
  intros s Hb Hg. pose proof Hb as (_ & R1 & R2 & R3).
  destruct (S s Hb R1 T0 T1 M Hg) as (s' & (Hsim' & R1' & R2' & R3') & Hfr & Hrc & _).
  exists s'. split; [|exact Hfr]. split; [exact Hsim'|]. split; [exact Hrc|]. split; [exact R2'|exact R3'].
Qed.

Lemma wmw_signal_append_bstep : forall b tag meta plen payload r1 h1 r2 c,
  wm_raw_wr (wm_b_raw b) (wm_mk_hdr (wm_ck_offset (wm_b_signal_head b)) tag meta plen) payload = (r1, h1) ->
  wm_update_item_head r1 (wm_b_signal_head b) {| wm_ck_offset := wm_raw_chunk_tell (wm_b_raw b); wm_ck_hdr := h1 |} = (r2, c) ->
  tag <> 0 -> tag < 256 -> meta < 65536 ->
  wmw_bstep b (wm_b_set_signal_head (wm_b_set_raw b r2) c).
Proof.
  intros b tag meta plen payload r1 h1 r2 c E1 E2 T0 T1 M.
  destruct (wmw_base_append _ _ _ _ _ _ _ _ _ _ E1 E2) as [L S]. split; [exact L|].
  intros s Hb Hg. pose proof Hb as (_ & R1 & R2 & R3).
  destruct (S s Hb R2 T0 T1 M Hg) as (s' & (Hsim' & R1' & R2' & R3') & Hfr & Hrc & _).
  exists s'. split; [|exact Hfr]. split; [exact Hsim'|]. split; [exact R1'|]. split; [exact Hrc|exact R3'].
Qed.

Lemma wmw_ud_append_bstep : forall b tag meta plen payload r1 h1 r2 c,
  wm_raw_wr (wm_b_raw b) (wm_mk_hdr (wm_ck_offset (wm_b_ud_head b)) tag meta plen) payload = (r1, h1) ->
  wm_update_item_head r1 (wm_b_ud_head b) {| wm_ck_offset := wm_raw_chunk_tell (wm_b_raw b); wm_ck_hdr := h1 |} = (r2, c) ->
  tag <> 0 -> tag < 256 -> meta < 65536 ->
  wmw_bstep b (wm_b_set_ud_head (wm_b_set_raw b r2) c).
Proof.
  intros b tag meta plen payload r1 h1 r2 c E1 E2 T0 T1 M.
  destruct (wmw_base_append _ _ _ _ _ _ _ _ _ _ E1 E2) as [L S]. split; [exact L|].
  intros s Hb Hg. pose proof Hb as (_ & R1 & R2 & R3).
  destruct (S s Hb R3 T0 T1 M Hg) as (s' & (Hsim' & R1' & R2' & R3') & Hfr & Hrc & _).
  exists s'. split; [|exact Hfr]. split; [exact Hsim'|]. split; [exact R1'|]. split; [exact R2'|exact Hrc].
Qed.

(* jls_track_wr_def *)
Lemma wmw_track_wr_def_bstep : forall b id ty, ty < 4 -> id < 256 -> wmw_bstep b (wm_track_wr_def b id ty).
Proof.
  intros b id ty Hty Hid. unfold wm_track_wr_def. cbv zeta.
  destruct (wm_raw_wr _ _ _) as [r1 h1] eqn:E1. destruct (wm_update_item_head _ _ _) as [r2 sh] eqn:E2.
  destruct (wmw_track_tag_ok ty JLS_TRACK_CHUNK_DEF Hty ltac:(discriminate)) as [G0 G1].
  eapply wmw_signal_append_bstep; eauto. lia.
Qed.

Lemma wmw_track0_ok : forall E id ty, id < 256 -> ty < 4 -> wmw_track E id ty (wm_track0 ty).
Proof.
  intros E id ty Hid Hty. unfold wmw_track, wm_track0.
  cbn [wm_tk_type wm_tk_offsets wm_tk_data_head wm_tk_index_head wm_tk_summary_head].
  split; [reflexivity|]. split; [exact Hty|]. split; [exact Hid|]. split; [reflexivity|].
  split; [apply wmw_ref0|].
  assert (HF : Forall (wmw_ref E) (repeat wm_chunk0 wm_level_count)).
  { apply Forall_forall. intros c Hin. apply repeat_spec in Hin. subst c. apply wmw_ref0. }
  split; [exact HF|]. split; [exact HF|].
  intro H. exfalso. apply H. reflexivity.
Qed.

(* jls_track_wr_def + jls_track_wr_head of a new track *)
Lemma wmw_def_track_step : forall b id ty b' t', wm_def_track b id ty = (b', t') -> ty < 4 -> id < 256 ->
  wmw_tstep id ty b (wm_track0 ty) b' t'.
Proof.
  intros b id ty b' t' Heq Hty Hid. unfold wm_def_track in Heq.
  eapply wmw_tstep_trans; [apply wmw_bstep_tstep; apply (wmw_track_wr_def_bstep b id ty Hty Hid)|].
  destruct (wmw_track_wr_head_step id ty (wm_track_wr_def b id ty) (wm_track0 ty) (repeat 0 wm_level_count) b' t' Heq) as [L S].
  split; [exact L|]. intros s Hb Ht Hg.
  apply (S s Hb Ht); [reflexivity| |exact Hg].
  cbn [wm_track0 wm_tk_offsets]. apply wmw_ent_refl.
Qed.

(* a DATA chunk written by the API layer itself (annotation, utc): chunk, link, jls_track_update(0) *)
Lemma wmw_data_update_step : forall id ty b t tag meta plen payload r1 h1 r2 dh b' t',
  wm_raw_wr (wm_b_raw b) (wm_mk_hdr (wm_ck_offset (wm_tk_data_head t)) tag meta plen) payload = (r1, h1) ->
  wm_update_item_head r1 (wm_tk_data_head t) {| wm_ck_offset := wm_raw_chunk_tell (wm_b_raw b); wm_ck_hdr := h1 |} = (r2, dh) ->
  wm_track_update (wm_b_set_raw b r2) id (wm_tk_set_data_head t dh) 0 (wm_raw_chunk_tell (wm_b_raw b)) = (b', t') ->
  tag <> 0 -> tag < 256 -> meta < 65536 -> wmw_tstep id ty b t b' t'.
Proof.
  intros id ty b t tag meta plen payload r1 h1 r2 dh b' t' E1 E2 Heq T0 T1 M.
  destruct (wmw_base_append _ _ _ _ _ _ _ _ _ _ E1 E2) as [L S].
  destruct (wmw_track_update_step id ty _ _ _ _ _ _ Heq) as [L2 S2].
  split; [eapply wmw_le_trans; eauto|].
  intros s Hb Ht Hg. pose proof Ht as (_ & _ & _ & _ & T5 & _).
  assert (Hg1 : wmw_good r2) by (eapply wmw_good_le; [exact L2|exact Hg]).
  destruct (S s Hb T5 T0 T1 M Hg1) as (s1 & Hb1 & Hfr & Hrc & Hoc & Hc64 & _ & Hst & _).
  pose proof (wmw_track_fr_none _ _ _ _ _ Hfr Ht) as Ht1.
  pose proof (wmw_track_set_data_head _ _ _ _ _ Ht1 Hrc) as Ht1'.
  rewrite <- Hoc in S2.
  destruct (S2 s1 Hb1 Ht1' Hc64 Hst Hg) as (s2 & Hb2 & Ht2 & Hfr2 & Hst2).
  exists s2. split; [exact Hb2|]. split; [exact Ht2|]. split.
  - eapply wmw_fr_trans; [apply wmw_fr_weaken; exact Hfr|exact Hfr2].
  - exact Hst2.
Qed.

(* jls_core_wr_end *)
Lemma wmw_core_wr_end_bstep : forall b, wmw_bstep b (wm_core_wr_end b).
Proof.
  intro b. unfold wm_core_wr_end. destruct (wm_raw_wr _ _ _) as [r1 h1] eqn:E1.
  split.
  - unfold wmw_ble. cbn [wm_b_raw wm_b_set_raw]. pose proof (wmw_le_raw_wr (wm_b_raw b) (wm_mk_hdr 0 JLS_TAG_END 0 0) []) as H.
    rewrite E1 in H. exact H.
  - intros s Hb Hg. pose proof Hb as (Hsim & _). unfold wmw_bgood in Hg. cbn [wm_b_raw wm_b_set_raw] in Hg.
    assert (Hpre : wmw_hdr_pre (wm_mk_hdr 0 JLS_TAG_END 0 0)).
    { unfold wmw_hdr_pre, wm_mk_hdr. cbn [fm_item_next fm_item_prev fm_tag fm_rsv0 fm_chunk_meta].
      repeat split; try discriminate; reflexivity. }
    destruct (wmw_sim_append _ _ _ _ _ _ Hsim Hpre E1 Hg) as (s1 & Hsim1 & _ & _ & Hex & Hnone).
    assert (Hfr : wmw_fr None (wo_exts s) (wo_exts s1)) by (rewrite Hex; apply wmw_fr_cons; exact Hnone).
    exists s1. split; [|exact Hfr].
    eapply wmw_binv_fr; [exact Hb|exact Hfr|exact Hsim1|reflexivity|reflexivity|reflexivity].
Qed.

Lemma wmw_raw_flush_bstep : forall b, wmw_bstep b (wm_b_set_raw b (wm_raw_flush (wm_b_raw b))).
Proof.
  intro b. split; [apply wmw_le_flush|].
  intros s Hb _. pose proof Hb as (Hsim & _). exists s. split; [|apply wmw_fr_refl].
  eapply wmw_binv_fr; [exact Hb|apply (wmw_fr_refl None)|apply wmw_sim_flush; exact Hsim|reflexivity|reflexivity|reflexivity].
Qed.

(* ================================================================ signals: the four tracks, focus on one signal *)
Definition wmw_tk (g : wm_signal) (ty : N) : wm_track :=
  if ty =? 0 then wm_sg_tk_fsr g else if ty =? 1 then wm_sg_tk_vsr g else if ty =? 2 then wm_sg_tk_anno g else wm_sg_tk_utc g.

Definition wmw_sig_ok (E : list wo_ext) (g : wm_signal) : Prop :=
  forall ty, ty < 4 -> wmw_track E (wm_sig_id g) ty (wmw_tk g ty).

Definition wmw_focus (sigs : list wm_signal) (b : wm_base) (g : wm_signal) (s : wo_st) : Prop :=
  wmw_binv b s /\ wmw_sig_ok (wo_exts s) g /\
  (forall x, In x sigs -> wm_sig_id x <> wm_sig_id g -> wmw_sig_ok (wo_exts s) x).

Definition wmw_fstep (sigs : list wm_signal) (b : wm_base) (g : wm_signal) (b' : wm_base) (g' : wm_signal) : Prop :=
  wmw_ble b b' /\ wm_sig_id g' = wm_sig_id g /\
  forall s, wmw_focus sigs b g s -> wmw_bgood b' -> exists s', wmw_focus sigs b' g' s'.

Lemma wmw_fstep_refl : forall sigs b g, wmw_fstep sigs b g b g.
Proof. intros. split; [apply wmw_le_refl|]. split; [reflexivity|]. intros s H _. exists s. exact H. Qed.

Lemma wmw_fstep_trans : forall sigs b g b1 g1 b2 g2,
  wmw_fstep sigs b g b1 g1 -> wmw_fstep sigs b1 g1 b2 g2 -> wmw_fstep sigs b g b2 g2.
Proof.
  intros sigs b g b1 g1 b2 g2 (L1 & I1 & S1) (L2 & I2 & S2).
  split; [eapply wmw_le_trans; eauto|]. split; [congruence|].
  intros s Hf Hg. assert (Hg1 : wmw_bgood b1) by (eapply wmw_good_le; eauto).
  destruct (S1 s Hf Hg1) as (s1 & Hf1). exact (S2 s1 Hf1 Hg).
Qed.

(* the signal record changes but not its id and tracks *)
Lemma wmw_fstep_same : forall sigs b g g', wm_sig_id g' = wm_sig_id g -> (forall ty, ty < 4 -> wmw_tk g' ty = wmw_tk g ty) ->
  wmw_fstep sigs b g b g'.
Proof.
  intros sigs b g g' Hid Htk. split; [apply wmw_le_refl|]. split; [exact Hid|].
  intros s (Hb & Hg & Ho) _. exists s. split; [exact Hb|]. split.
  - intros ty Hty. rewrite Hid, (Htk ty Hty). apply Hg. exact Hty.
  - intros x Hin Hne. apply Ho; [exact Hin|congruence].
Qed.

Lemma wmw_fstep_tstep : forall sigs b g ty b' t' g', ty < 4 ->
  wmw_tstep (wm_sig_id g) ty b (wmw_tk g ty) b' t' ->
  wm_sig_id g' = wm_sig_id g -> wmw_tk g' ty = t' ->
  (forall ty2, ty2 < 4 -> ty2 <> ty -> wmw_tk g' ty2 = wmw_tk g ty2) ->
  wmw_fstep sigs b g b' g'.
Proof.
  intros sigs b g ty b' t' g' Hty [L S] Hid Htk Hoth. split; [exact L|]. split; [exact Hid|].
  intros s (Hb & Hg & Ho) Hgood.
  destruct (S s Hb (Hg ty Hty) Hgood) as (s' & Hb' & Ht' & Hfr & _).
  exists s'. split; [exact Hb'|]. split.
  - intros ty2 Hty2. rewrite Hid. destruct (N.eq_dec ty2 ty) as [->|Hne].
    + rewrite Htk. exact Ht'.
    + rewrite (Hoth ty2 Hty2 Hne).
      eapply wmw_track_fr_other; [exact Hfr|exact Ht'|auto|apply Hg; exact Hty2|right; exact Hne].
  - intros x Hin Hne. rewrite Hid in Hne. intros ty2 Hty2.
    eapply wmw_track_fr_other; [exact Hfr|exact Ht'|auto|apply (Ho x Hin Hne); exact Hty2|left; exact Hne].
Qed.

Lemma wmw_fstep_bstep : forall sigs b g b', wmw_bstep b b' -> wmw_fstep sigs b g b' g.
Proof.
  intros sigs b g b' [L S]. split; [exact L|]. split; [reflexivity|].
  intros s (Hb & Hg & Ho) Hgood. destruct (S s Hb Hgood) as (s' & Hb' & Hfr).
  exists s'. split; [exact Hb'|]. split.
  - intros ty Hty. eapply wmw_track_fr_none; [exact Hfr|apply Hg; exact Hty].
  - intros x Hin Hne ty Hty. eapply wmw_track_fr_none; [exact Hfr|apply (Ho x Hin Hne); exact Hty].
Qed.

(* ================================================================ the state invariant *)
Definition wmw_stinv (st : wm_state) (s : wo_st) : Prop :=
  wmw_binv (wm_st_base st) s /\ Forall (wmw_sig_ok (wo_exts s)) (wm_st_sigs st).

Definition wmw_stgood (st : wm_state) : Prop := wmw_bgood (wm_st_base st).

Definition wmw_ststep (st st' : wm_state) : Prop :=
  wmw_ble (wm_st_base st) (wm_st_base st') /\
  forall s, wmw_stinv st s -> wmw_stgood st' -> exists s', wmw_stinv st' s'.

Lemma wmw_ststep_refl : forall st, wmw_ststep st st.
Proof. intro st. split; [apply wmw_le_refl|]. intros s H _. exists s. exact H. Qed.

Lemma wmw_ststep_trans : forall a b c, wmw_ststep a b -> wmw_ststep b c -> wmw_ststep a c.
Proof.
  intros a b c [L1 S1] [L2 S2]. split; [eapply wmw_le_trans; eauto|].
  intros s Ha Hg. assert (Hg1 : wmw_stgood b) by (eapply wmw_good_le; eauto).
  destruct (S1 s Ha Hg1) as (s1 & H1). exact (S2 s1 H1 Hg).
Qed.

Lemma wmw_ststep_fault : forall st st', wm_st_base st' = wm_b_fault (wm_st_base st) -> wmw_ststep st st'.
Proof.
  intros st st' H. split; [unfold wmw_ble; rewrite H; apply wmw_le_fault; reflexivity|].
  intros s _ [Hf _]. rewrite H in Hf. cbn in Hf. discriminate.
Qed.

Lemma wmw_ststep_bstep : forall st st', wm_st_sigs st' = wm_st_sigs st -> wmw_bstep (wm_st_base st) (wm_st_base st') ->
  wmw_ststep st st'.
Proof.
  intros st st' Hs [L S]. split; [exact L|].
  intros s (Hb & Hsig) Hg. destruct (S s Hb Hg) as (s' & Hb' & Hfr).
  exists s'. split; [exact Hb'|]. rewrite Hs. eapply Forall_impl; [|exact Hsig].
  intros g Hg0 ty Hty. eapply wmw_track_fr_none; [exact Hfr|apply Hg0; exact Hty].
Qed.

Lemma wmw_find_sig_some : forall st id g, wm_find_sig st id = Some g -> In g (wm_st_sigs st) /\ wm_sig_id g = id.
Proof.
  intros st id g H. unfold wm_find_sig in H. apply find_some in H. destruct H as [Hin He].
  split; [exact Hin|]. apply N.eqb_eq. exact He.
Qed.

Lemma wmw_ststep_fstep : forall st id g b' g', wm_find_sig st id = Some g ->
  wmw_fstep (wm_st_sigs st) (wm_st_base st) g b' g' -> wmw_ststep st (wm_put_sig st b' g').
Proof.
  intros st id g b' g' Hfind (L & Hid & S). destruct (wmw_find_sig_some _ _ _ Hfind) as [Hin _].
  split; [exact L|].
  intros s (Hb & Hsig) Hgood. rewrite Forall_forall in Hsig.
  assert (Hfoc : wmw_focus (wm_st_sigs st) (wm_st_base st) g s).
  { split; [exact Hb|]. split; [apply Hsig; exact Hin|]. intros x Hx _. apply Hsig. exact Hx. }
  destruct (S s Hfoc Hgood) as (s' & Hb' & Hg' & Ho').
  exists s'. split; [exact Hb'|]. cbn [wm_put_sig wm_st_sigs].
  apply Forall_forall. intros y Hy. apply in_map_iff in Hy. destruct Hy as (x & Hy & Hx).
  destruct (wm_sig_id x =? wm_sig_id g') eqn:Ex.
  - subst y. exact Hg'.
  - subst y. apply N.eqb_neq in Ex. apply Ho'; assumption.
Qed.

(* ================================================================ API calls that touch no signal *)
Lemma wmw_lt_pow2_log2 : forall a n, a < 2 ^ n -> 0 < n -> N.log2 a < n.
Proof.
  intros a n H Hn. destruct (N.eq_dec a 0) as [->|Hne]; [exact Hn|].
  apply N.log2_lt_pow2; [lia|exact H].
Qed.

Lemma wmw_ud_meta_lt : forall m stype, stype <= 3 -> N.lor (N.land m 4095) (N.shiftl stype 12) < 65536.
Proof.
  intros m stype Hs. set (v := N.lor (N.land m 4095) (N.shiftl stype 12)).
  destruct (N.eq_dec v 0) as [->|Hne]; [reflexivity|].
  change 65536 with (2 ^ 16). apply N.log2_lt_pow2; [lia|].
  subst v. rewrite N.log2_lor. apply N.max_lub_lt.
  - eapply N.le_lt_trans; [apply N.log2_land|]. eapply N.le_lt_trans; [apply N.le_min_r|]. reflexivity.
  - apply wmw_lt_pow2_log2; [|reflexivity]. rewrite N.shiftl_mul_pow2. change (2 ^ 12) with 4096. change (2 ^ 16) with 65536. lia.
Qed.

Lemma wmw_api_user_data_step : forall st u, wmw_ststep st (fst (wm_api_user_data st u)).
Proof.
  intros st u. unfold wm_api_user_data. cbv zeta.
  destruct (3 <? ud_stype u) eqn:E3; [apply wmw_ststep_refl|].
  destruct (wm_raw_wr _ _ _) as [r1 h1] eqn:E1. destruct (wm_update_item_head _ _ _) as [r2 uh] eqn:E2. cbn [fst].
  apply wmw_ststep_bstep; [reflexivity|]. cbn [wm_st_base wm_st_set_base].
  eapply wmw_ud_append_bstep; [exact E1|exact E2|discriminate|reflexivity|].
  apply wmw_ud_meta_lt. apply N.ltb_ge in E3. exact E3.
Qed.

Lemma wmw_api_source_def_step : forall st d, wmw_ststep st (fst (wm_api_source_def st d)).
Proof.
  intros st d. unfold wm_api_source_def. cbv zeta.
  destruct (JLS_SOURCE_COUNT <=? so_id d) eqn:Eid; [apply wmw_ststep_refl|].
  destruct (existsb _ _); [apply wmw_ststep_refl|].
  destruct (negb _); [apply wmw_ststep_refl|].
  destruct (wm_raw_wr _ _ _) as [r1 h1] eqn:E1. destruct (wm_update_item_head _ _ _) as [r2 sh] eqn:E2. cbn [fst].
  apply wmw_ststep_bstep; [reflexivity|]. cbn [wm_st_base].
  eapply wmw_source_append_bstep; [exact E1|exact E2|discriminate|reflexivity|].
  apply N.leb_gt in Eid. unfold JLS_SOURCE_COUNT in Eid. lia.
Qed.

Lemma wmw_api_flush_step : forall st, wmw_ststep st (fst (wm_api_flush st)).
Proof.
  intro st. unfold wm_api_flush. cbv zeta. cbn [fst].
  apply wmw_ststep_bstep; [reflexivity|]. cbn [wm_st_base wm_st_set_base]. apply wmw_raw_flush_bstep.
Qed.

(* ================================================================ jls_wr_signal_def *)
Definition wmw_mk_sig (d : sigdef) (tf tv ta tu : wm_track) (f : option wm_fsr) (a u : option wm_ts) : wm_signal :=
  {| wm_sg_def := d; wm_sg_tk_fsr := tf; wm_sg_tk_vsr := tv; wm_sg_tk_anno := ta; wm_sg_tk_utc := tu;
     wm_sg_fsr := f; wm_sg_anno := a; wm_sg_utc := u |}.

Lemma wmw_sig_align_id : forall d0 d, wm_sig_align d0 = Some d -> sg_id d = sg_id d0.
Proof.
  intros d0 d H. unfold wm_sig_align in H. cbv zeta in H.
  destruct (wm_round_up _ _) as [sdf|]; [|discriminate].
  destruct (wm_round_up _ _) as [eps|]; [|discriminate].
  destruct (wm_round_up _ _) as [spd2|]; [|discriminate].
  destruct (_ <? _); [discriminate|]. destruct (_ <? _); [discriminate|].
  inversion H. reflexivity.
Qed.

Ltac wmw_ty4 ty H :=
  let K := fresh "K" in
  assert (K : ty = 0 \/ ty = 1 \/ ty = 2 \/ ty = 3) by lia;
  destruct K as [K|[K|[K|K]]]; subst ty.

Lemma wmw_focus_new : forall sigs b s d, wmw_binv b s -> Forall (wmw_sig_ok (wo_exts s)) sigs -> sg_id d < 256 ->
  wmw_focus sigs b (wmw_mk_sig d (wm_track0 0) (wm_track0 1) (wm_track0 2) (wm_track0 3) None None None) s.
Proof.
  intros sigs b s d Hb Hs Hid. split; [exact Hb|]. split.
  - intros ty Hty. unfold wm_sig_id. cbn [wmw_mk_sig wm_sg_def].
    wmw_ty4 ty Hty; cbn; apply wmw_track0_ok; auto; lia.
  - intros x Hin _. rewrite Forall_forall in Hs. apply Hs. exact Hin.
Qed.

(* one new track of the signal under definition *)
Lemma wmw_def_track_fstep : forall sigs b g ty b' t' g', wm_def_track b (wm_sig_id g) ty = (b', t') ->
  ty < 4 -> wm_sig_id g < 256 -> wmw_tk g ty = wm_track0 ty ->
  wm_sig_id g' = wm_sig_id g -> wmw_tk g' ty = t' ->
  (forall ty2, ty2 < 4 -> ty2 <> ty -> wmw_tk g' ty2 = wmw_tk g ty2) ->
  wmw_fstep sigs b g b' g'.
Proof.
  intros sigs b g ty b' t' g' Heq Hty Hid H0 Hid' Htk Hoth.
  eapply wmw_fstep_tstep; [exact Hty| |exact Hid'|exact Htk|exact Hoth].
  rewrite H0. apply wmw_def_track_step; assumption.
Qed.

Lemma wmw_api_signal_def_step : forall st d0, wmw_ststep st (fst (wm_api_signal_def st d0)).
Proof.
  intros st d0. unfold wm_api_signal_def.
  destruct (JLS_SIGNAL_COUNT <=? sg_id d0) eqn:Eid; [apply wmw_ststep_refl|].
  destruct (JLS_SOURCE_COUNT <=? sg_src d0); [apply wmw_ststep_refl|].
  destruct (negb (existsb _ _)); [apply wmw_ststep_refl|].
  destruct (wm_find_sig st (sg_id d0)) as [g0|] eqn:Efind; [apply wmw_ststep_refl|].
  destruct (negb (_ || _)); [apply wmw_ststep_refl|].
  destruct (negb (_ && _)); [apply wmw_ststep_refl|].
  destruct (negb (wm_dt_valid _)); [apply wmw_ststep_refl|].
  destruct (wm_sig_align d0) as [d|] eqn:Eal; [|apply wmw_ststep_refl].
  destruct (_ && _); [apply wmw_ststep_refl|].
  cbv zeta.
  pose proof (wmw_sig_align_id _ _ Eal) as Hsid.
  assert (Hid : sg_id d < 256) by (rewrite Hsid; apply N.leb_gt in Eid; unfold JLS_SIGNAL_COUNT in Eid; lia).
  destruct (wm_raw_wr _ _ _) as [r1 h1] eqn:E1. destruct (wm_update_item_head _ _ _) as [r2 sh] eqn:E2.
  set (b1 := wm_b_set_signal_head (wm_b_set_raw (wm_st_base st) r2) sh).
  assert (B1 : wmw_bstep (wm_st_base st) b1).
  { eapply wmw_signal_append_bstep; [exact E1|exact E2|discriminate|reflexivity|lia]. }
  set (g0 := wmw_mk_sig d (wm_track0 0) (wm_track0 1) (wm_track0 2) (wm_track0 3) None None None).
  (* the rest: a focus-step chain from g0 to the new signal, then the new state *)
  assert (Hend : forall b4 g4, wmw_fstep (wm_st_sigs st) b1 g0 b4 g4 ->
            wmw_ststep st {| wm_st_base := b4; wm_st_srcs := wm_st_srcs st; wm_st_sigs := wm_st_sigs st ++ [g4] |}).
  { intros b4 g4 (L & Hid4 & S). destruct B1 as [L1 S1].
    split; [cbn [wm_st_base]; eapply wmw_le_trans; eauto|].
    intros s (Hb & Hsig) Hgood. unfold wmw_stgood in Hgood. cbn [wm_st_base] in Hgood.
    assert (Hg1 : wmw_bgood b1) by (eapply wmw_good_le; eauto).
    destruct (S1 s Hb Hg1) as (s1 & Hb1 & Hfr1).
    assert (Hsig1 : Forall (wmw_sig_ok (wo_exts s1)) (wm_st_sigs st)).
    { eapply Forall_impl; [|exact Hsig]. intros g Hg0 ty Hty. eapply wmw_track_fr_none; [exact Hfr1|apply Hg0; exact Hty]. }
    destruct (S s1 (wmw_focus_new _ _ _ d Hb1 Hsig1 Hid) Hgood) as (s4 & Hb4 & Hg4 & Ho4).
    exists s4. split; [exact Hb4|]. cbn [wm_st_sigs]. apply Forall_app. split.
    - apply Forall_forall. intros x Hx. apply Ho4; [exact Hx|].
      rewrite Hid4. unfold wm_sig_id at 2. cbn [g0 wmw_mk_sig wm_sg_def]. rewrite Hsid.
      pose proof (find_none _ _ Efind x Hx) as Hn. cbv beta in Hn. apply N.eqb_neq. exact Hn.
    - constructor; [exact Hg4|constructor]. }
  assert (Hg0id : wm_sig_id g0 = sg_id d) by reflexivity.
  destruct (sg_type d =? JLS_SIGNAL_TYPE_FSR).
  - destruct (wm_def_track b1 (sg_id d) JLS_TRACK_TYPE_FSR) as [b2 tf] eqn:D1.
    destruct (wm_def_track b2 (sg_id d) JLS_TRACK_TYPE_ANNOTATION) as [b3 ta] eqn:D2.
    destruct (wm_def_track b3 (sg_id d) JLS_TRACK_TYPE_UTC) as [b4 tu] eqn:D3.
    cbn [fst]. apply Hend.
    set (g1 := wmw_mk_sig d tf (wm_track0 1) (wm_track0 2) (wm_track0 3) None None None).
    set (g2 := wmw_mk_sig d tf (wm_track0 1) ta (wm_track0 3) None None None).
    eapply wmw_fstep_trans; [apply (wmw_def_track_fstep _ b1 g0 0 b2 tf g1)|
      eapply wmw_fstep_trans; [apply (wmw_def_track_fstep _ b2 g1 2 b3 ta g2)|
        apply (wmw_def_track_fstep _ b3 g2 3 b4 tu)]];
      try exact D1; try exact D2; try exact D3; try reflexivity; try exact Hid;
      try (intros ty2 H2 Hne; wmw_ty4 ty2 H2; try reflexivity; exfalso; apply Hne; reflexivity).
  - destruct (wm_def_track b1 (sg_id d) JLS_TRACK_TYPE_VSR) as [b2 tv] eqn:D1.
    destruct (wm_def_track b2 (sg_id d) JLS_TRACK_TYPE_ANNOTATION) as [b3 ta] eqn:D2.
    cbn [fst]. apply Hend.
    set (g1 := wmw_mk_sig d (wm_track0 0) tv (wm_track0 2) (wm_track0 3) None None None).
    eapply wmw_fstep_trans; [apply (wmw_def_track_fstep _ b1 g0 1 b2 tv g1)|
        apply (wmw_def_track_fstep _ b2 g1 2 b3 ta)];
      try exact D1; try exact D2; try reflexivity; try exact Hid;
      try (intros ty2 H2 Hne; wmw_ty4 ty2 H2; try reflexivity; exfalso; apply Hne; reflexivity).
Qed.

(* ================================================================ API calls on one signal *)
Lemma wmw_validate_find : forall st sig g, wm_signal_validate st sig = (0, Some g) -> wm_find_sig st sig = Some g.
Proof.
  intros st sig g H. unfold wm_signal_validate in H.
  destruct (JLS_SIGNAL_COUNT <=? sig); [discriminate|].
  destruct (wm_find_sig st sig); [|discriminate]. inversion H. reflexivity.
Qed.
Lemma wmw_validate_typed_find : forall st sig ty g, wm_signal_validate_typed st sig ty = (0, Some g) -> wm_find_sig st sig = Some g.
Proof.
  intros st sig ty g H. unfold wm_signal_validate_typed in H.
  destruct (wm_signal_validate st sig) as [rc og] eqn:E.
  destruct rc as [|p]; [destruct og as [g1|]|]; try discriminate.
  destruct (sg_type (wm_sg_def g1) =? ty); [|discriminate]. inversion H; subst g1.
  apply wmw_validate_find. exact E.
Qed.

Ltac wmw_oth := intros ty2 H2 Hne; wmw_ty4 ty2 H2; try reflexivity; exfalso; apply Hne; reflexivity.

Lemma wmw_api_fsr_omit_data_step : forall st sig en, wmw_ststep st (fst (wm_api_fsr_omit_data st sig en)).
Proof.
  intros st sig en. unfold wm_api_fsr_omit_data.
  destruct (wm_signal_validate_typed st sig JLS_SIGNAL_TYPE_FSR) as [rc og] eqn:Ev.
  destruct rc as [|p]; [destruct og as [g|]|]; try apply wmw_ststep_refl.
  pose proof (wmw_validate_typed_find _ _ _ _ Ev) as Hfind.
  destruct (wm_sg_fsr g) as [f|]; cbn [fst].
  - eapply wmw_ststep_fstep; [exact Hfind|]. apply wmw_fstep_same; [reflexivity|]. intros ty Hty. reflexivity.
  - apply wmw_ststep_fault. reflexivity.
Qed.

Lemma wmw_api_annotation_step : forall st sig a, wmw_ststep st (fst (wm_api_annotation st sig a)).
Proof.
  intros st sig a. unfold wm_api_annotation.
  destruct (wm_signal_validate st sig) as [rc og] eqn:Ev.
  destruct rc as [|p]; [destruct og as [g|]|]; try apply wmw_ststep_refl.
  pose proof (wmw_validate_find _ _ _ Ev) as Hfind.
  destruct (wmw_find_sig_some _ _ _ Hfind) as [Hin Hid].
  destruct (256 <=? an_type a); [apply wmw_ststep_refl|].
  destruct (256 <=? an_stype a); [apply wmw_ststep_refl|].
  destruct (negb _); [apply wmw_ststep_refl|].
  destruct (wm_sg_anno g) as [ts|]; [|cbn [fst]; apply wmw_ststep_fault; reflexivity].
  cbv zeta.
  destruct (wm_raw_wr _ _ _) as [r1 h1] eqn:E1. destruct (wm_update_item_head _ _ _) as [r2 dh] eqn:E2.
  destruct (wm_track_update _ _ _ _ _) as [b1 t1] eqn:E3. cbn [fst].
  eapply wmw_ststep_fstep; [exact Hfind|].
  assert (Hsig : sig < 256).
  { unfold wm_signal_validate in Ev. destruct (JLS_SIGNAL_COUNT <=? sig) eqn:El; [discriminate|].
    apply N.leb_gt in El. exact El. }
  eapply (wmw_fstep_tstep _ _ g 2); [reflexivity| |reflexivity|reflexivity|wmw_oth].
  rewrite Hid. change (wmw_tk g 2) with (wm_sg_tk_anno g).
  eapply wmw_tstep_trans; [|apply (wmw_ts_add_step sig 2 {| wm_tx_base := b1; wm_tx_tk := t1; wm_tx_ts := ts |})].
  cbn [wm_tx_base wm_tx_tk].
  eapply wmw_data_update_step; [exact E1|exact E2|exact E3|discriminate|reflexivity|lia].
Qed.

Lemma wmw_api_utc_step : forall st sig sample_id utc, wmw_ststep st (fst (wm_api_utc st sig sample_id utc)).
Proof.
  intros st sig sample_id utc. unfold wm_api_utc.
  destruct (wm_signal_validate_typed st sig JLS_SIGNAL_TYPE_FSR) as [rc og] eqn:Ev.
  destruct rc as [|p]; [destruct og as [g|]|]; try apply wmw_ststep_refl.
  pose proof (wmw_validate_typed_find _ _ _ _ Ev) as Hfind.
  destruct (wmw_find_sig_some _ _ _ Hfind) as [Hin Hid].
  destruct (wm_sg_utc g) as [ts|]; [|cbn [fst]; apply wmw_ststep_fault; reflexivity].
  cbv zeta.
  destruct (wm_raw_wr _ _ _) as [r1 h1] eqn:E1. destruct (wm_update_item_head _ _ _) as [r2 dh] eqn:E2.
  destruct (wm_track_update _ _ _ _ _) as [b1 t1] eqn:E3. cbn [fst].
  eapply wmw_ststep_fstep; [exact Hfind|].
  assert (Hsig : sig < 256).
  { unfold wm_signal_validate_typed, wm_signal_validate in Ev. destruct (JLS_SIGNAL_COUNT <=? sig) eqn:El; [discriminate|].
    apply N.leb_gt in El. exact El. }
  eapply (wmw_fstep_tstep _ _ g 3); [reflexivity| |reflexivity|reflexivity|wmw_oth].
  rewrite Hid. change (wmw_tk g 3) with (wm_sg_tk_utc g).
  eapply wmw_tstep_trans; [|apply (wmw_ts_add_step sig 3 {| wm_tx_base := b1; wm_tx_tk := t1; wm_tx_ts := ts |})].
  cbn [wm_tx_base wm_tx_tk].
  eapply wmw_data_update_step; [exact E1|exact E2|exact E3|discriminate|reflexivity|lia].
Qed.

Section WMW_API.
Variable summ1 : N -> list N -> wm_sentry.
Variable summN : bool -> list wm_sentry -> wm_sentry.

Lemma wmw_api_fsr_step : forall st sig sample_id samples, wmw_ststep st (fst (wm_api_fsr summ1 summN st sig sample_id samples)).
Proof.
  intros st sig sample_id samples. unfold wm_api_fsr.
  destruct (wm_signal_validate_typed st sig JLS_SIGNAL_TYPE_FSR) as [rc og] eqn:Ev.
  destruct rc as [|p]; [destruct og as [g|]|]; try apply wmw_ststep_refl.
  pose proof (wmw_validate_typed_find _ _ _ _ Ev) as Hfind.
  destruct (wm_sg_fsr g) as [f|]; [|cbn [fst]; apply wmw_ststep_fault; reflexivity].
  cbv zeta. cbn [fst].
  eapply wmw_ststep_fstep; [exact Hfind|].
  eapply (wmw_fstep_tstep _ _ g 0); [reflexivity| |reflexivity|reflexivity|wmw_oth].
  apply (wmw_fsr_data_step summ1 summN 0 (wm_sg_def g) {| wm_fx_base := wm_st_base st; wm_fx_tk := wm_sg_tk_fsr g; wm_fx_fsr := f |}).
Qed.

(* ---- jls_wr_close ---- *)
(* the three phases of closing one signal, as functions of (base, signal record) *)
Definition wmw_cl_fsr (b : wm_base) (g : wm_signal) : wm_base * wm_signal :=
  match wm_sg_fsr g with
  | None => (b, g)
  | Some f =>
    let x := wm_fsr_close summ1 summN (wm_sg_def g) {| wm_fx_base := b; wm_fx_tk := wm_sg_tk_fsr g; wm_fx_fsr := f |} in
    (wm_fx_base x, wm_sg_set_fsr g (wm_fx_tk x) None)
  end.
Definition wmw_cl_anno (id : N) (b : wm_base) (g : wm_signal) : wm_base * wm_signal :=
  match wm_sg_anno g with
  | None => (b, g)
  | Some ts =>
    let x := wm_ts_close id {| wm_tx_base := b; wm_tx_tk := wm_sg_tk_anno g; wm_tx_ts := ts |} in
    (wm_tx_base x, wm_sg_set_anno g (wm_tx_tk x) None)
  end.
Definition wmw_cl_utc (id : N) (b : wm_base) (g : wm_signal) : wm_base * wm_signal :=
  match wm_sg_utc g with
  | None => (b, g)
  | Some ts =>
    let x := wm_ts_close id {| wm_tx_base := b; wm_tx_tk := wm_sg_tk_utc g; wm_tx_ts := ts |} in
    (wm_tx_base x, wm_sg_set_utc g (wm_tx_tk x) None)
  end.

Lemma wmw_cl_fsr_fstep : forall sigs b g, wmw_fstep sigs b g (fst (wmw_cl_fsr b g)) (snd (wmw_cl_fsr b g)).
Proof.
  intros sigs b g. unfold wmw_cl_fsr. destruct (wm_sg_fsr g) as [f|]; cbv zeta; cbn [fst snd]; [|apply wmw_fstep_refl].
  match goal with |- context [wm_fsr_close ?a ?b ?c ?d] =>
    pose proof (wmw_fsr_close_step a b 0 c d) as H; set (x := wm_fsr_close a b c d) in *; clearbody x end.
  eapply (wmw_fstep_tstep _ _ g 0); [reflexivity|exact H|reflexivity|reflexivity|wmw_oth].
Qed.
Lemma wmw_cl_anno_fstep : forall sigs b g, wmw_fstep sigs b g (fst (wmw_cl_anno (wm_sig_id g) b g)) (snd (wmw_cl_anno (wm_sig_id g) b g)).
Proof.
  intros sigs b g. unfold wmw_cl_anno. destruct (wm_sg_anno g) as [ts|]; cbv zeta; cbn [fst snd]; [|apply wmw_fstep_refl].
  match goal with |- context [wm_ts_close ?a ?b] =>
    pose proof (wmw_ts_close_step a 2 b) as H; set (x := wm_ts_close a b) in *; clearbody x end.
  eapply (wmw_fstep_tstep _ _ g 2); [reflexivity|exact H|reflexivity|reflexivity|wmw_oth].
Qed.
Lemma wmw_cl_utc_fstep : forall sigs b g, wmw_fstep sigs b g (fst (wmw_cl_utc (wm_sig_id g) b g)) (snd (wmw_cl_utc (wm_sig_id g) b g)).
Proof.
  intros sigs b g. unfold wmw_cl_utc. destruct (wm_sg_utc g) as [ts|]; cbv zeta; cbn [fst snd]; [|apply wmw_fstep_refl].
  match goal with |- context [wm_ts_close ?a ?b] =>
    pose proof (wmw_ts_close_step a 3 b) as H; set (x := wm_ts_close a b) in *; clearbody x end.
  eapply (wmw_fstep_tstep _ _ g 3); [reflexivity|exact H|reflexivity|reflexivity|wmw_oth].
Qed.

Lemma wmw_close_signal_step : forall st id, wmw_ststep st (wm_close_signal summ1 summN st id).
Proof.
  intros st id. unfold wm_close_signal.
  destruct (wm_find_sig st id) as [g|] eqn:Hfind; [|apply wmw_ststep_refl].
  destruct (wmw_find_sig_some _ _ _ Hfind) as [_ Hid].
  change (wmw_ststep st (let '(b1, s1) := wmw_cl_fsr (wm_st_base st) g in
                         let '(b2, s2) := wmw_cl_anno id b1 s1 in
                         let '(b3, s3) := wmw_cl_utc id b2 s2 in wm_put_sig st b3 s3)).
  pose proof (wmw_cl_fsr_fstep (wm_st_sigs st) (wm_st_base st) g) as F1.
  destruct (wmw_cl_fsr (wm_st_base st) g) as [b1 g1]. cbn [fst snd] in F1.
  assert (I1 : wm_sig_id g1 = id) by (destruct F1 as (_ & I & _); congruence).
  pose proof (wmw_cl_anno_fstep (wm_st_sigs st) b1 g1) as F2. rewrite I1 in F2.
  destruct (wmw_cl_anno id b1 g1) as [b2 g2]. cbn [fst snd] in F2.
  assert (I2 : wm_sig_id g2 = id) by (destruct F2 as (_ & I & _); congruence).
  pose proof (wmw_cl_utc_fstep (wm_st_sigs st) b2 g2) as F3. rewrite I2 in F3.
  destruct (wmw_cl_utc id b2 g2) as [b3 g3]. cbn [fst snd] in F3.
  eapply wmw_ststep_fstep; [exact Hfind|].
  eapply wmw_fstep_trans; [exact F1|]. eapply wmw_fstep_trans; [exact F2|exact F3].
Qed.

(* jls_wr_close up to (not including) the final file-header write *)
Definition wmw_close_pre (st : wm_state) : wm_state :=
  let st1 := fold_left (wm_close_signal summ1 summN) wm_signal_ids st in
  wm_st_set_base st1 (wm_core_wr_end (wm_st_base st1)).

Lemma wmw_api_close_eq : forall st,
  wm_api_close summ1 summN st =
  wm_st_set_base (wmw_close_pre st) (wm_b_set_raw (wm_st_base (wmw_close_pre st)) (wm_raw_close (wm_b_raw (wm_st_base (wmw_close_pre st))))).
Proof.
  intro st. unfold wm_api_close, wmw_close_pre. cbv zeta.
  generalize (fold_left (wm_close_signal summ1 summN) wm_signal_ids st). intro st1.
  generalize (wm_core_wr_end (wm_st_base st1)). intro b. destruct st1. reflexivity.
Qed.

Lemma wmw_close_pre_step : forall st, wmw_ststep st (wmw_close_pre st).
Proof.
  intro st. unfold wmw_close_pre. cbv zeta.
  assert (H1 : forall l st0, wmw_ststep st0 (fold_left (wm_close_signal summ1 summN) l st0)).
  { induction l as [|id l IH]; intro st0; cbn [fold_left]; [apply wmw_ststep_refl|].
    eapply wmw_ststep_trans; [apply wmw_close_signal_step|apply IH]. }
  eapply wmw_ststep_trans; [apply (H1 wm_signal_ids st)|].
  set (st1 := fold_left (wm_close_signal summ1 summN) wm_signal_ids st).
  apply wmw_ststep_bstep; [reflexivity|]. cbn [wm_st_base wm_st_set_base]. apply wmw_core_wr_end_bstep.
Qed.

(* ---- any call, any program ---- *)
Lemma wmw_step_rc_step : forall st o, wmw_ststep st (fst (wm_step_rc summ1 summN st o)).
Proof.
  intros st o. destruct o; cbn [wm_step_rc].
  - apply wmw_api_source_def_step.
  - apply wmw_api_signal_def_step.
  - apply wmw_api_fsr_step.
  - apply wmw_api_fsr_omit_data_step.
  - apply wmw_api_annotation_step.
  - apply wmw_api_utc_step.
  - apply wmw_api_user_data_step.
  - apply wmw_api_flush_step.
Qed.

Lemma wmw_steps_step : forall p st rcs, wmw_ststep st (fst (wm_steps summ1 summN st p rcs)).
Proof.
  induction p as [|o p IH]; intros st rcs; cbn [wm_steps]; [apply wmw_ststep_refl|].
  pose proof (wmw_step_rc_step st o) as H. destruct (wm_step_rc summ1 summN st o) as [st1 rc]. cbn [fst] in H.
  eapply wmw_ststep_trans; [exact H|apply IH].
Qed.

End WMW_API.

(* ---- jls_wr_open ---- *)
Lemma wmw_state0_inv : exists s, wmw_stinv wm_state0 s.
Proof.
  destruct wmw_sim_open as (s & Hsim & Hex). exists s. split; [|constructor].
  unfold wm_state0. cbn [wm_st_base]. split; [exact Hsim|]. cbn [wm_b_source_head wm_b_signal_head wm_b_ud_head].
  repeat split; apply wmw_ref0.
Qed.

Lemma wmw_api_open_step : wmw_ststep wm_state0 wm_api_open.
Proof.
  unfold wm_api_open.
  pose proof (wmw_api_user_data_step wm_state0 {| ud_meta := 0; ud_stype := JLS_STORAGE_TYPE_INVALID; ud_data := [] |}) as H1.
  destruct (wm_api_user_data wm_state0 _) as [st1 rc1]. cbn [fst] in H1.
  pose proof (wmw_api_source_def_step st1 source0) as H2.
  destruct (wm_api_source_def st1 source0) as [st2 rc2]. cbn [fst] in H2.
  pose proof (wmw_api_signal_def_step st2 wm_signal0_raw) as H3.
  destruct (wm_api_signal_def st2 wm_signal0_raw) as [st3 rc3]. cbn [fst] in H3.
  eapply wmw_ststep_trans; [exact H1|]. eapply wmw_ststep_trans; [exact H2|exact H3].
Qed.

Lemma wmw_run_snoc_inv : forall lenient l s i e s2, wo_run lenient s i (l ++ [e]) = inl s2 ->
  exists s1, wo_run lenient s i l = inl s1 /\ wo_step lenient s1 e = inl s2.
Proof.
  induction l as [|x l IH]; intros s i e s2 H; cbn [app wo_run] in *.
  - destruct (wo_step lenient s e) as [s1|] eqn:Es; [|discriminate]. exists s. split; [reflexivity|]. inversion H; subst. exact Es.
  - destruct (wo_step lenient s x) as [s1|]; [|discriminate]. eapply IH; eauto.
Qed.

(* ================================================================ the theorems *)
Lemma wmw_stinv_run : forall st s, wmw_stinv st s -> wo_run false wo_st0 0 (wmw_evs (wm_st_log st)) = inl s.
Proof. intros st s ((Hsim & _) & _). exact (proj1 Hsim). Qed.

Lemma wmw_reach_accepted : forall st, wmw_ststep wm_state0 st -> wm_st_fault st = false -> wmw_bounded (wm_st_log st) ->
  exists s, wmw_stinv st s.
Proof.
  intros st [_ S] Hf Hb. destruct wmw_state0_inv as (s0 & H0). apply (S s0 H0). split; assumption.
Qed.

(* jls_wr_open; p (no close) *)
Theorem wmw_steps_accepted : forall summ1 summN p,
  let st := fst (wm_steps summ1 summN wm_api_open p []) in
  wm_st_fault st = false -> wmw_bounded (wm_st_log st) ->
  wo_check_log (wmw_evs (wm_st_log st)) = true.
Proof.
  intros summ1 summN p st Hf Hb.
  destruct (wmw_reach_accepted st) as (s & Hs); [|exact Hf|exact Hb|].
  - eapply wmw_ststep_trans; [apply wmw_api_open_step|apply wmw_steps_step].
  - unfold wo_check_log, wo_check_log_gen. rewrite (wmw_stinv_run _ _ Hs). reflexivity.
Qed.

(* jls_wr_open; p; jls_wr_close.  The state before the final file-header write is reachable by invariant-preserving
   steps; the last write is the file header with the final size. *)
Definition wmw_fin (pre : wm_state) : wm_state :=
  wm_st_set_base pre (wm_b_set_raw (wm_st_base pre) (wm_raw_close (wm_b_raw (wm_st_base pre)))).

Lemma wmw_run_pre : forall summ1 summN p,
  wmw_ststep wm_state0 (wmw_close_pre summ1 summN (fst (wm_steps summ1 summN wm_api_open p []))) /\
  fst (wm_run_full summ1 summN p) = wmw_fin (wmw_close_pre summ1 summN (fst (wm_steps summ1 summN wm_api_open p []))).
Proof.
  intros summ1 summN p. unfold wm_run_full.
  pose proof (wmw_steps_step summ1 summN p wm_api_open []) as H.
  destruct (wm_steps summ1 summN wm_api_open p []) as [st1 rcs]. cbn [fst] in *. split.
  - eapply wmw_ststep_trans; [apply wmw_api_open_step|]. eapply wmw_ststep_trans; [exact H|apply wmw_close_pre_step].
  - apply wmw_api_close_eq.
Qed.

Lemma wmw_fin_accepted : forall pre, wmw_ststep wm_state0 pre ->
  wm_st_fault (wmw_fin pre) = false -> wmw_bounded (wm_st_log (wmw_fin pre)) ->
  exists s s', wmw_stinv pre s /\ wo_run false wo_st0 0 (wmw_evs (wm_st_log (wmw_fin pre))) = inl s' /\
               wo_step false s (WoWrite 0 (wm_file_header_bytes (wm_fend (wm_b_raw (wm_st_base pre))))) = inl s'.
Proof.
  intros pre Hreach Hf Hb.
  unfold wmw_fin, wm_st_fault, wm_st_log in *. cbn [wm_st_base wm_st_set_base wm_b_raw wm_b_set_raw] in *.
  assert (Hgood : wmw_good (wm_raw_close (wm_b_raw (wm_st_base pre)))) by (split; assumption).
  destruct (wmw_good_close _ Hgood) as [G1 G2].
  destruct (wmw_reach_accepted pre Hreach G1 G2) as (s & Hinv).
  pose proof Hinv as ((Hsim & _) & _).
  destruct (wmw_sim_close _ _ Hsim) as (s' & Hsim' & _). exists s, s'. split; [exact Hinv|]. split; [exact (proj1 Hsim')|].
  pose proof (proj1 Hsim') as Hrun'. destruct (wmw_close_log (wm_b_raw (wm_st_base pre))) as [L _].
  rewrite L, wmw_evs_cons in Hrun'. cbn [wmw_to_wo] in Hrun'.
  destruct (wmw_run_snoc_inv _ _ _ _ _ _ Hrun') as (s1 & E1 & E2).
  pose proof (proj1 Hsim) as Hrun. unfold wm_st_log in Hrun. rewrite Hrun in E1. inversion E1; subst s1. exact E2.
Qed.

Lemma wmw_run_final : forall summ1 summN p,
  let st := fst (wm_run_full summ1 summN p) in
  wm_st_fault st = false -> wmw_bounded (wm_st_log st) ->
  exists s', wo_run false wo_st0 0 (wmw_evs (wm_st_log st)) = inl s'.
Proof.
  intros summ1 summN p. cbv zeta. destruct (wmw_run_pre summ1 summN p) as [Hreach Heq]. rewrite Heq.
  intros Hf Hb. destruct (wmw_fin_accepted _ Hreach Hf Hb) as (s & s' & _ & H & _). exists s'. exact H.
Qed.

Theorem wmw_run_accepted : forall summ1 summN p,
  let st := fst (wm_run_full summ1 summN p) in
  wm_st_fault st = false -> wmw_bounded (wm_st_log st) ->
  wo_check_log (wmw_evs (wm_st_log st)) = true.
Proof.
  intros summ1 summN p st Hf Hb. destruct (wmw_run_final summ1 summN p Hf Hb) as (s' & Hs).
  unfold wo_check_log, wo_check_log_gen. fold st in Hs. rewrite Hs. reflexivity.
Qed.

(* the log of every reachable state: O_TRUNC, the file header with length 0, then no write at offset 0 *)
Lemma wmw_reach_log_shape : forall st, wmw_ststep wm_state0 st -> wm_st_fault st = false ->
  exists l, wm_st_log st = l ++ [WmWrite 0 (wm_file_header_bytes 0); WmTrunc 0] /\ wmw_nz l.
Proof.
  intros st [L _] Hf. destruct L as (l & Hl & F). exists l. split; [exact Hl|].
  destruct (F Hf) as [_ P]. apply P. split; cbn; discriminate.
Qed.

(* every prefix of an accepted log is accepted *)
Lemma wmw_check_log_prefix : forall l1 l2, wo_check_log (l1 ++ l2) = true -> wo_check_log l1 = true.
Proof.
  intros l1 l2 H. unfold wo_check_log, wo_check_log_gen in *.
  destruct (wo_run false wo_st0 0 (l1 ++ l2)) as [s|e] eqn:E; [|discriminate].
  destruct (wmw_run_app_inl _ _ _ _ _ _ E) as (s1 & E1). rewrite E1. reflexivity.
Qed.

Theorem wmw_prefix_accepted : forall summ1 summN p,
  let st := fst (wm_run_full summ1 summN p) in
  wm_st_fault st = false -> wmw_bounded (wm_st_log st) ->
  forall k, wo_check_log (firstn k (wmw_evs (wm_st_log st))) = true.
Proof.
  intros summ1 summN p st Hf Hb k.
  apply (wmw_check_log_prefix _ (skipn k (wmw_evs (wm_st_log st)))). rewrite firstn_skipn.
  apply wmw_run_accepted; assumption.
Qed.
