(* Threaded writer: the MESSAGE FORMAT of /repo/src/threaded_writer.c.
   Producers (jls_twr_user_data / jls_twr_fsr / jls_twr_fsr_f32 / jls_twr_fsr_omit_data / jls_twr_annotation /
   jls_twr_utc / jls_twr_flush / jls_twr_close) build a `struct msg_header_s` with a designated initialiser and
   msg_send_inner copies sizeof(hdr) header bytes + payload_size payload bytes into the ring-buffer slot;
   the consumer jls_twr_run copies the header back out of the slot, takes payload = msg + sizeof(hdr),
   payload_sz = msg_size - sizeof(hdr), and calls jls_wr_* with the header fields.
   Definitions only; proofs: TwrMsgProofs.v; theorems: Properties_C06_msg.v.

   The protocol model TwrModel.v treats a message as an opaque byte list (TwCSend kind body: message =
   tw_mcode kind :: body; tw_flush_msg; tw_close_msg).  This file says WHICH byte list a call produces and which
   synchronous-writer call the consumer makes for a byte list.

   Layout of struct msg_header_s (x86-64 SysV: natural alignment; sizeof = Generated.SIZEOF_msg_header = 40;
   the field offsets below are compared with offsetof() of the compiled struct by tools/props/TWM.py):
      0      msg_type (uint8)            1..7   padding
      8..31  union h (alignment 8, size 24)
               user_data : chunk_meta u16 @8, storage_type u8 @10
               fsr       : signal_id u16 @8, sample_id i64 @16, sample_count u32 @24
               fsr_omit  : signal_id u16 @8, enable i32 @12
               annotation: signal_id u16 @8, timestamp i64 @16, annotation_type u8 @24, storage_type u8 @25,
                           group_id u8 @26, y float @28
               utc       : signal_id u16 @8, sample_id i64 @16, utc i64 @24
      32..39 d (uint64)
   Little endian.  PADDING and the union bytes outside the active member are modelled as ZERO.  The C does not promise
   that and gcc does NOT do it: a probe (gcc -O0 and -O2, stack poisoned with 0xAA before the initialiser) shows the
   user_data / fsr_omit / flush / close headers fully zeroed but bytes 1..7, 10..15 (and 28..31 of fsr, 27 of
   annotation) of the fsr / utc / annotation headers left as stale stack bytes, which msg_send_inner copies into the
   ring buffer.  The consumer reads fields only: TwrMsgProofs.tm_padding_irrelevant (Properties_C06_msg.
   C06_msg_padding_irrelevant) proves the decoded call is the same for ANY padding bytes.  Consequence for testing:
   the hash of the real message bytes (harness/twr_sched.c `h` tokens) is not predictable for fsr / utc / annotation.
   Rejections before queueing (the repair of K-C06-fsr-len-trunc / K-C06-enum-trunc), exactly where the C has them:
     jls_twr_user_data : first thing, (uint32_t) storage_type > UINT8_MAX -> JLS_ERROR_PARAMETER_INVALID;
     jls_twr_annotation: first thing, (uint32_t) storage_type > UINT8_MAX or (uint32_t) annotation_type > UINT8_MAX
                         -> JLS_ERROR_PARAMETER_INVALID;
     jls_twr_fsr       : after the signal-id range test and the NOT_FOUND test on the table entry,
                         length64 = ((uint64_t) data_length * bits + 7) / 8 > UINT32_MAX - sizeof(struct msg_header_s)
                         -> JLS_ERROR_PARAMETER_INVALID.
   The enum arguments stype / atype of the model are the (uint32_t) values of the C arguments.  The casts that the C
   still performs are performed here: the enum arguments are stored in uint8 fields (tw_le 1: mod 256, the identity
   after the range test); the FSR payload length is cast to uint32 (mod 2^32, the identity after the range test; the
   uint64 product does not wrap: data_length < 2^32, table entries are uint8); sizeof(hdr) + payload_size is computed
   in uint32 in msg_send_inner.
   Faults are explicit (TwmFault): a read beyond the caller's buffer (including strlen without a NUL and a NULL pointer
   with a non-zero length) and the wrapped uint32 message size (allocation of the wrapped size, copy of the full one). *)
From Coq Require Import NArith ZArith List Bool.
From JLS Require Import Generated Spec MrbModel TwrModel.
Import ListNotations.
Local Open Scope N_scope.

(* ---- arguments as the C sees them ---- *)
Inductive tm_buf := TmNull | TmBuf (bytes : list N).      (* a caller's pointer: NULL, or the readable bytes behind it *)
Definition tm_bytes (b : tm_buf) : list N := match b with TmNull => [] | TmBuf l => l end.

(* calls of the threaded-writer API that send a message.  Scalars are the values of the C arguments:
   sig, meta : uint16;  sid, ts, utc : int64;  count, data_size, en : uint32;  y : the 32 bits of the float;
   group : uint8;  stype, atype : the enum arguments (int);  id : the flush ticket (flush_send_id + 1, uint64) *)
Inductive tm_call :=
| TmUser (meta stype : N) (data : tm_buf) (data_size : N)
| TmFsr (sig : N) (sid : Z) (data : tm_buf) (count : N)
| TmOmit (sig en : N)
| TmAnn (sig : N) (ts : Z) (y atype group stype : N) (data : tm_buf) (data_size : N)
| TmUtc (sig : N) (sid utc : Z)
| TmFlush (id : N)
| TmClose.

(* what jls_twr_run hands to the synchronous writer for one message; `data` = the bytes from `payload` to the end of
   the message (the pointer the callee receives), `size` = payload_sz *)
Inductive tm_wcall :=
| TmWUser (meta stype : N) (data : list N) (size : N)                         (* jls_wr_user_data *)
| TmWFsr (sig : N) (sid : Z) (data : list N) (count : N)                      (* jls_wr_fsr *)
| TmWOmit (sig en : N)                                                        (* jls_wr_fsr_omit_data *)
| TmWAnn (sig : N) (ts : Z) (y atype group stype : N) (data : list N) (size : N)   (* jls_wr_annotation *)
| TmWUtc (sig : N) (sid utc : Z)                                              (* jls_wr_utc *)
| TmWFlush (id : N)                                                           (* jls_wr_flush; flush_processed_id = max(id, .) *)
| TmWQuit                                                                     (* MSG_CLOSE: quit = 1, no writer call *)
| TmWNone (ty : N).                                                           (* unknown msg_type: `default: break` *)

Inductive twm_res := TmRej (rc : N) | TwmFault | TmMsg (m : msg).

(* ---- scalars ---- *)
Definition TM_HDR : N := SIZEOF_msg_header.
Definition tm_u64 (z : Z) : N := Z.to_N (z mod 18446744073709551616).
Definition tm_i64 (n : N) : Z := if n <? 9223372036854775808 then Z.of_N n else (Z.of_N n - 18446744073709551616)%Z.
Definition tm_z (n : nat) : list N := repeat 0 n.

(* ---- headers: exactly TM_HDR bytes ---- *)
Definition tm_hdr_user (meta stype : N) : list N :=
  [2] ++ tm_z 7 ++ tw_le 2 meta ++ tw_le 1 stype ++ tm_z 21 ++ tw_le 8 0.
Definition tm_hdr_fsr (sig : N) (sid : Z) (count : N) : list N :=
  [3] ++ tm_z 7 ++ tw_le 2 sig ++ tm_z 6 ++ tw_le 8 (tm_u64 sid) ++ tw_le 4 count ++ tm_z 4 ++ tw_le 8 0.
Definition tm_hdr_omit (sig en : N) : list N :=
  [4] ++ tm_z 7 ++ tw_le 2 sig ++ tm_z 2 ++ tw_le 4 en ++ tm_z 16 ++ tw_le 8 0.
Definition tm_hdr_ann (sig : N) (ts : Z) (y atype group stype : N) : list N :=
  [5] ++ tm_z 7 ++ tw_le 2 sig ++ tm_z 6 ++ tw_le 8 (tm_u64 ts) ++ tw_le 1 atype ++ tw_le 1 stype ++ tw_le 1 group
      ++ tm_z 1 ++ tw_le 4 y ++ tw_le 8 0.
Definition tm_hdr_utc (sig : N) (sid utc : Z) : list N :=
  [6] ++ tm_z 7 ++ tw_le 2 sig ++ tm_z 6 ++ tw_le 8 (tm_u64 sid) ++ tw_le 8 (tm_u64 utc) ++ tw_le 8 0.
Definition tm_hdr_flush (id : N) : list N := [1] ++ tm_z 31 ++ tw_le 8 id.
Definition tm_hdr_close : list N := [0] ++ tm_z 39.

(* ---- payload selection of jls_twr_user_data / jls_twr_annotation ---- *)
Fixpoint tm_cstr (l : list N) : option (list N) :=     (* the bytes before the first NUL; None: no NUL in the buffer *)
  match l with
  | [] => None
  | b :: r => if b =? 0 then Some [] else match tm_cstr r with Some s => Some (b :: s) | None => None end
  end.
Definition tm_is_str (stype : N) : bool := (stype =? JLS_STORAGE_TYPE_STRING) || (stype =? JLS_STORAGE_TYPE_JSON).

Inductive tm_pl := TmPlRej (rc : N) | TmPlFault | TmPlOk (bytes : list N).
Definition tm_data_payload (stype : N) (data : tm_buf) (data_size : N) : tm_pl :=
  if tm_is_str stype then
    match data with
    | TmNull => TmPlRej JLS_ERROR_PARAMETER_INVALID
    | TmBuf b =>
      match tm_cstr b with
      | None => TmPlFault                                                      (* strlen runs off the buffer *)
      | Some s => TmPlOk (firstn (N.to_nat ((len s + 1) mod 4294967296)) b)    (* (uint32_t) strlen + 1; data_size ignored *)
      end
    end
  else
    match data with
    | TmNull => if data_size =? 0 then TmPlOk [] else TmPlRej JLS_ERROR_PARAMETER_INVALID
    | TmBuf b => if data_size <=? len b then TmPlOk (firstn (N.to_nat data_size) b) else TmPlFault
    end.

(* msg_send / msg_send_inner with an allocation that succeeds: sz = sizeof hdr + payload_size in uint32 *)
Definition tm_send (hdr payload : list N) : twm_res :=
  if 4294967296 <=? TM_HDR + len payload then TwmFault else TmMsg (hdr ++ payload).

(* FSR payload length: (uint32_t) (((uint64_t) data_length * bits + 7) / 8) *)
Definition tm_fsr_len (bits count : N) : N := ((count * bits + 7) / 8) mod 4294967296.

(* tbl = self->fsr_entry_size_bits (index: signal id; 0: no accepted FSR definition) as the producer reads it *)
Definition tm_encode (tbl : N -> N) (c : tm_call) : twm_res :=
  match c with
  | TmUser meta stype data data_size =>
    if 255 <? stype then TmRej JLS_ERROR_PARAMETER_INVALID           (* (uint32_t) storage_type > UINT8_MAX *)
    else
    match tm_data_payload stype data data_size with
    | TmPlRej rc => TmRej rc | TmPlFault => TwmFault
    | TmPlOk p => tm_send (tm_hdr_user meta stype) p
    end
  | TmFsr sig sid data count =>
    if JLS_SIGNAL_COUNT <=? sig then TmRej JLS_ERROR_PARAMETER_INVALID
    else if tbl sig =? 0 then TmRej JLS_ERROR_NOT_FOUND
    else if 4294967295 - TM_HDR <? (count * tbl sig + 7) / 8 then TmRej JLS_ERROR_PARAMETER_INVALID   (* length64 > UINT32_MAX - sizeof(hdr) *)
    else
      let n := tm_fsr_len (tbl sig) count in
      match data with
      | TmNull => if n =? 0 then tm_send (tm_hdr_fsr sig sid count) [] else TwmFault    (* memcpy only if payload_size *)
      | TmBuf b => if n <=? len b then tm_send (tm_hdr_fsr sig sid count) (firstn (N.to_nat n) b) else TwmFault
      end
  | TmOmit sig en => tm_send (tm_hdr_omit sig en) []
  | TmAnn sig ts y atype group stype data data_size =>
    if (255 <? stype) || (255 <? atype) then TmRej JLS_ERROR_PARAMETER_INVALID   (* either enum > UINT8_MAX *)
    else
    match tm_data_payload stype data data_size with
    | TmPlRej rc => TmRej rc | TmPlFault => TwmFault
    | TmPlOk p => tm_send (tm_hdr_ann sig ts y atype group stype) p
    end
  | TmUtc sig sid utc => tm_send (tm_hdr_utc sig sid utc) []
  | TmFlush id => tm_send (tm_hdr_flush id) []
  | TmClose => tm_send tm_hdr_close []
  end.

(* ---- the consumer: jls_twr_run on one message ---- *)
Definition tm_rd (m : list N) (off n : nat) : N := tw_of_le (firstn n (skipn off m)).

(* None: the message is shorter than the header (memcpy(&hdr, msg, sizeof(hdr)) leaves the message) *)
Definition tm_decode (m : msg) : option tm_wcall :=
  if len m <? TM_HDR then None
  else
    let payload := skipn 40 m in
    let psz := len m - TM_HDR in
    let ty := tm_rd m 0 1 in
    Some (if ty =? 0 then TmWQuit
          else if ty =? 1 then TmWFlush (tm_rd m 32 8)
          else if ty =? 2 then TmWUser (tm_rd m 8 2) (tm_rd m 10 1) payload psz
          else if ty =? 3 then TmWFsr (tm_rd m 8 2) (tm_i64 (tm_rd m 16 8)) payload (tm_rd m 24 4)
          else if ty =? 4 then TmWOmit (tm_rd m 8 2) (tm_rd m 12 4)
          else if ty =? 5 then TmWAnn (tm_rd m 8 2) (tm_i64 (tm_rd m 16 8)) (tm_rd m 28 4) (tm_rd m 24 1) (tm_rd m 26 1)
                                      (tm_rd m 25 1) payload psz
          else if ty =? 6 then TmWUtc (tm_rd m 8 2) (tm_i64 (tm_rd m 16 8)) (tm_i64 (tm_rd m 24 8))
          else TmWNone ty).

(* ---- "the same call": the normal form of a call, computed from the ARGUMENTS only ----
   What the normal form forgets (and nothing else):
     STRING / JSON storage : data_size, and every byte of the caller's buffer after the first NUL
                             (data := bytes up to and including the NUL, size := strlen + 1);
     other storage types   : every byte after the first data_size bytes; NULL with data_size 0 becomes an empty buffer;
     FSR                   : every byte after the first ceil(count * bits / 8) bytes (bits: the table entry).
   NOT normalised: the unused high bits of the last FSR byte (copied verbatim), scalar arguments. *)
Definition tm_norm_data (stype : N) (data : tm_buf) (data_size : N) : list N :=
  if tm_is_str stype
  then match tm_cstr (tm_bytes data) with Some s => s ++ [0] | None => [] end
  else firstn (N.to_nat data_size) (tm_bytes data).
Definition tm_norm (tbl : N -> N) (c : tm_call) : tm_wcall :=
  match c with
  | TmUser meta stype data data_size => let p := tm_norm_data stype data data_size in TmWUser meta stype p (len p)
  | TmFsr sig sid data count => TmWFsr sig sid (firstn (N.to_nat ((count * tbl sig + 7) / 8)) (tm_bytes data)) count
  | TmOmit sig en => TmWOmit sig en
  | TmAnn sig ts y atype group stype data data_size =>
    let p := tm_norm_data stype data data_size in TmWAnn sig ts y atype group stype p (len p)
  | TmUtc sig sid utc => TmWUtc sig sid utc
  | TmFlush id => TmWFlush id
  | TmClose => TmWQuit
  end.

(* payload size of an accepted call, from the arguments *)
Definition tm_psize (tbl : N -> N) (c : tm_call) : N :=
  match c with
  | TmUser _ stype data data_size | TmAnn _ _ _ _ _ stype data data_size => len (tm_norm_data stype data data_size)
  | TmFsr sig _ _ count => (count * tbl sig + 7) / 8
  | _ => 0
  end.

(* the arguments are values of their C types (the enum arguments: any uint32 value, no hypothesis); the caller's
   buffer is shorter than 4 GiB (strlen + 1 fits uint32).  Nothing about the enum range or the FSR payload length:
   calls outside are rejected by tm_encode (tm_enum_call, tm_trunc_call) *)
Definition tm_i64_ok (z : Z) : Prop := (-9223372036854775808 <= z < 9223372036854775808)%Z.
Definition tm_call_ok (tbl : N -> N) (c : tm_call) : Prop :=
  match c with
  | TmUser meta stype data data_size => meta < 65536 /\ data_size < 4294967296 /\ len (tm_bytes data) < 4294967296
  | TmFsr sig sid _ count => sig < 65536 /\ tm_i64_ok sid /\ count < 4294967296
  | TmOmit sig en => sig < 65536 /\ en < 4294967296
  | TmAnn sig ts y atype group stype data data_size =>
    sig < 65536 /\ tm_i64_ok ts /\ y < 4294967296 /\ group < 256 /\ data_size < 4294967296 /\
    len (tm_bytes data) < 4294967296
  | TmUtc sig sid utc => sig < 65536 /\ tm_i64_ok sid /\ tm_i64_ok utc
  | TmFlush id => id < 18446744073709551616
  | TmClose => True
  end.

(* ---- in bounds: the bytes the synchronous call will read through `data` lie inside the message ----
   jls_wr_user_data / jls_wr_annotation: STRING / JSON: strlen(data) + 1 bytes (a NUL inside the payload); otherwise
   `size` bytes.  jls_wr_fsr: ceil(count * bits / 8) bytes, bits = the width of the signal's accepted definition
   (= the table entry: Properties_C10). *)
Definition tm_data_inb (stype : N) (data : list N) (size : N) : bool :=
  if tm_is_str stype then match tm_cstr data with Some _ => true | None => false end else size <=? len data.
Definition tm_wcall_inb (tbl : N -> N) (w : tm_wcall) : bool :=
  match w with
  | TmWUser _ stype data size => tm_data_inb stype data size
  | TmWAnn _ _ _ _ _ stype data size => tm_data_inb stype data size
  | TmWFsr sig _ data count => (count * tbl sig + 7) / 8 <=? len data
  | _ => true
  end.

(* ---- reading of a writer-thread call as a Spec / WriterModel operation ----
   FSR: the samples are the count w-bit fields of the payload, LSB first (the inverse of Spec.pack), w = tbl sig *)
Definition tm_bits_of_bytes (l : list N) : list bool := flat_map (bits_of 8) l.
Fixpoint tm_val_of_bits (l : list bool) : N :=
  match l with [] => 0 | b :: r => (if b then 1 else 0) + 2 * tm_val_of_bits r end.
Fixpoint tm_unpack_bits (w n : nat) (bits : list bool) : list N :=
  match n with O => [] | S n' => tm_val_of_bits (firstn w bits) :: tm_unpack_bits w n' (skipn w bits) end.
Definition tm_unpack (w count : N) (data : list N) : list N :=
  tm_unpack_bits (N.to_nat w) (N.to_nat count) (tm_bits_of_bytes data).

Definition tm_wop (tbl : N -> N) (w : tm_wcall) : option wop :=
  match w with
  | TmWUser meta stype data _ => Some (WUd {| ud_meta := meta; ud_stype := stype; ud_data := data |})
  | TmWFsr sig sid data count => Some (WFsr sig sid (tm_unpack (tbl sig) count data))
  | TmWOmit sig en => Some (WOmit sig en)
  | TmWAnn sig ts y atype group stype data _ =>
    Some (WAnno sig {| an_ts := ts; an_y := y; an_type := atype; an_group := group; an_stype := stype; an_data := data |})
  | TmWUtc sig sid utc => Some (WUtc sig sid utc)
  | TmWFlush _ => Some WFlush
  | TmWQuit | TmWNone _ => None
  end.
(* the same arguments given to the synchronous API directly: the jls_wr_ functions *)
Definition tm_wop_direct (tbl : N -> N) (c : tm_call) : option wop :=
  match c with
  | TmUser meta stype data data_size =>
    Some (WUd {| ud_meta := meta; ud_stype := stype;
                 ud_data := if tm_is_str stype then tm_bytes data else firstn (N.to_nat data_size) (tm_bytes data) |})
  | TmFsr sig sid data count => Some (WFsr sig sid (tm_unpack (tbl sig) count (tm_bytes data)))
  | TmOmit sig en => Some (WOmit sig en)
  | TmAnn sig ts y atype group stype data data_size =>
    Some (WAnno sig {| an_ts := ts; an_y := y; an_type := atype; an_group := group; an_stype := stype;
                       an_data := if tm_is_str stype then tm_bytes data else firstn (N.to_nat data_size) (tm_bytes data) |})
  | TmUtc sig sid utc => Some (WUtc sig sid utc)
  | TmFlush _ => Some WFlush
  | TmClose => None
  end.

(* the threaded-writer API call an application makes for a Spec operation: FSR samples packed LSB first (Spec.pack) in
   a buffer of exactly the needed size; string data followed by its NUL; data_size = the number of data bytes;
   id: the ticket a flush draws.  Definitions (WSrc / WSig) are not messages. *)
Definition tm_call_of_wop (tbl : N -> N) (id : N) (o : wop) : option tm_call :=
  match o with
  | WFsr sig sid samples => Some (TmFsr sig sid (TmBuf (pack (tbl sig) samples)) (len samples))
  | WOmit sig en => Some (TmOmit sig en)
  | WAnno sig a =>
    Some (TmAnn sig (an_ts a) (an_y a) (an_type a) (an_group a) (an_stype a)
                (TmBuf (if tm_is_str (an_stype a) then an_data a ++ [0] else an_data a)) (len (an_data a)))
  | WUtc sig sid utc => Some (TmUtc sig sid utc)
  | WUd u =>
    Some (TmUser (ud_meta u) (ud_stype u) (TmBuf (if tm_is_str (ud_stype u) then ud_data u ++ [0] else ud_data u)) (len (ud_data u)))
  | WFlush => Some (TmFlush id)
  | WSrc _ | WSig _ => None
  end.

(* the reading of one applied operation of the protocol model, for ComposeGuards.cmp_twr_calls /
   Properties_compose.compose_C14_threaded_writer.  Definitions are opaque numbers in the protocol model: `defs`
   says which definition call a number stands for. *)
Definition tm_dec (tbl : N -> N) (defs : N -> option wop) (a : tw_aop) : option wop :=
  match a with
  | TwAMsg m => match tm_decode m with Some w => tm_wop tbl w | None => None end
  | TwADef _ d => defs d
  | TwAEnd => None
  end.

(* ---- programs of API calls and their translation to the protocol model ----
   A sending call carries the table value the producer reads (any: the table is written by jls_twr_signal_def under
   process_mutex and read by jls_twr_fsr without a lock).  A call that is rejected before queueing, or faults, makes
   no protocol step. *)
Inductive tm_pcall :=
| TmPDef (d : N) | TmPCall (tbl : N -> N) (c : tm_call) | TmPFlush | TmPFlags (drop : bool) | TmPClose.
Definition tm_kind (c : tm_call) : option tw_mkind :=
  match c with
  | TmUser _ _ _ _ => Some TwMkUser | TmFsr _ _ _ _ => Some TwMkFsr | TmOmit _ _ => Some TwMkOmit
  | TmAnn _ _ _ _ _ _ _ _ => Some TwMkAnn | TmUtc _ _ _ => Some TwMkUtc | TmFlush _ | TmClose => None
  end.
Definition tm_compile1 (pc : tm_pcall) : list tw_call :=
  match pc with
  | TmPDef d => [TwCDef d]
  | TmPCall tbl c =>
    match tm_kind c, tm_encode tbl c with
    | Some k, TmMsg (_ :: body) => [TwCSend k body]
    | _, _ => []
    end
  | TmPFlush => [TwCFlush]
  | TmPFlags b => [TwCFlags b]
  | TmPClose => [TwCClose]
  end.
Definition tm_compile (p : list tm_pcall) : list tw_call := flat_map tm_compile1 p.

(* where a queued message comes from *)
Definition tm_origin (cs : list tm_pcall) (m : msg) (w : tm_wcall) : Prop :=
  (exists tbl c, In (TmPCall tbl c) cs /\ tm_kind c <> None /\ tm_encode tbl c = TmMsg m /\ w = tm_norm tbl c) \/
  (exists id, In TmPFlush cs /\ tm_encode (fun _ => 0) (TmFlush id) = TmMsg m /\ w = TmWFlush (id mod 18446744073709551616)) \/
  (In TmPClose cs /\ tm_encode (fun _ => 0) TmClose = TmMsg m /\ w = TmWQuit).

(* ---- witnesses ---- *)
(* (1) FSR payload length: 2^29 samples of 64 bits = 2^32 bytes.  Before the repair the length was cast to uint32 (0)
       and a 40-byte message with sample_count = 2^29 was queued; now the call is rejected (PARAMETER_INVALID). *)
Definition tm_trunc_tbl (sig : N) : N := if sig =? 1 then 64 else 0.
Definition tm_trunc_call : tm_call := TmFsr 1 0 (TmBuf []) 536870912.
(* (2) enum range: storage_type 258 is not STRING for jls_twr_annotation (payload: data_size bytes, no NUL needed) but
       would be stored as (uint8_t) 258 = 2 = STRING.  Before the repair it was queued; now rejected (PARAMETER_INVALID). *)
Definition tm_enum_call : tm_call := TmAnn 1 0 0 1 0 258 (TmBuf [97; 98]) 2.

(* ---- examples ---- *)
Definition tm_ex_tbl (sig : N) : N := if sig =? 1 then 32 else if sig =? 2 then 1 else 0.
Definition tm_ex_calls : list tm_call :=
  [ TmUser 7 1 (TmBuf [1; 2; 3; 4]) 3;
    TmUser 7 2 (TmBuf [104; 105; 0; 9; 9]) 77;
    TmFsr 1 (-5) (TmBuf [1; 2; 3; 4; 5; 6; 7; 8; 9]) 2;
    TmFsr 2 10 (TmBuf [255; 255]) 9;
    TmOmit 1 1;
    TmAnn 1 (-2) 1065353216 1 3 2 (TmBuf [120; 0]) 0;
    TmUtc 1 100 (-100);
    TmFlush 3;
    TmClose ].
