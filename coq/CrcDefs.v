(* CRC-32C: the bit-serial reference (Rocksoft model: poly 0x1EDC6F41 reflected =
   0x82F63B78, init/xorout 0xFFFFFFFF, refin/refout) and executable models of the
   three code paths in /repo/src: the byte-wise table form, crc32cSlicingBy8
   (crc32c_sw.c) and the SSE4.2 / ARM CRC instruction loops
   (crc32c_intel_sse4.c, crc32c_arm_neon.c).  Bytes are N < 256.
   Definitions only; proofs are in CrcProofs.v. *)
From Coq Require Import NArith List Bool.
From JLS Require Import Generated.
Import ListNotations.
Local Open Scope N_scope.

Definition crc_poly : N := 0x82F63B78.
Definition crc_init : N := 0xFFFFFFFF.

(* one step of the reflected LFSR *)
Definition step1 (c : N) : N :=
  if N.odd c then N.lxor (N.shiftr c 1) crc_poly else N.shiftr c 1.

Fixpoint U (n : nat) (x : N) : N :=
  match n with O => x | S n' => U n' (step1 x) end.

(* ---- reference ---- *)
Definition crc_update (c b : N) : N := U 8 (N.lxor c b).
Definition crc_raw (c : N) (l : list N) : N := fold_left crc_update l c.
Definition crc_spec (l : list N) : N := N.lxor (crc_raw crc_init l) 0xFFFFFFFF.

(* little-endian value of a byte list, built with xor/shift so that no range
   hypothesis is needed in the algebra *)
Fixpoint le (l : list N) : N :=
  match l with [] => 0 | b :: r => N.lxor b (N.shiftl (le r) 8) end.

(* ---- table lookups (tables come from crc32c_sw.c through Generated.v) ---- *)
Definition tbl (k : nat) (i : N) : N := nth (N.to_nat i) (nth k crc_tables []) 0.
Definition byte_of (x : N) (j : N) : N := N.land (N.shiftr x (8 * j)) 255.

(* byte-wise table step:  crc = T0[(crc ^ b) & 0xFF] ^ (crc >> 8) *)
Definition tstep (c b : N) : N :=
  N.lxor (tbl 0 (N.land (N.lxor c b) 255)) (N.shiftr c 8).
Definition crc_table_raw (c : N) (l : list N) : N := fold_left tstep l c.

(* ---- crc32cSlicingBy8 ---- *)
(* one 8-byte body step; w0 w1 are the two little-endian u32 loads *)
Definition slice8_step (c w0 w1 : N) : N :=
  let c1 := N.lxor c w0 in
  let term1 := N.lxor (tbl 7 (N.land c1 255)) (tbl 6 (N.land (N.shiftr c1 8) 255)) in
  let term2 := N.shiftr c1 16 in
  let c2 := N.lxor (N.lxor term1 (tbl 5 (N.land term2 255))) (tbl 4 (N.land (N.shiftr term2 8) 255)) in
  let t1 := N.lxor (tbl 3 (N.land w1 255)) (tbl 2 (N.land (N.shiftr w1 8) 255)) in
  let t2 := N.shiftr w1 16 in
  N.lxor (N.lxor (N.lxor c2 t1) (tbl 1 (N.land t2 255))) (tbl 0 (N.land (N.shiftr t2 8) 255)).

Fixpoint slice8_body (n : nat) (c : N) (l : list N) : N * list N :=
  match n with
  | O => (c, l)
  | S n' => slice8_body n' (slice8_step c (le (firstn 4 l)) (le (firstn 4 (skipn 4 l)))) (skipn 8 l)
  end.

(* a = address of the first byte modulo 4 (only the residue matters) *)
Definition slice8 (a : N) (c : N) (l : list N) : N :=
  let len := N.of_nat (length l) in
  let initial0 := (4 - a) mod 4 in   (* (sizeof(int32_t) - p) & 3, a < 4 *)
  let initial := N.min len initial0 in
  let c1 := crc_table_raw c (firstn (N.to_nat initial) l) in
  let l1 := skipn (N.to_nat initial) l in
  let len1 := len - initial in
  let running := (len1 / 8) in
  let '(c2, l2) := slice8_body (N.to_nat running) c1 l1 in
  crc_table_raw c2 l2.

Definition crc_slice8 (a : N) (l : list N) : N := N.lxor (slice8 (a mod 4) crc_init l) 0xFFFFFFFF.
Definition crc_hdr_slice8 (a : N) (h : list N) : N := crc_slice8 a (firstn 28 h).

(* ---- hardware CRC instructions (Intel SDM / ARM ARM: the accumulator is
   xor-ed with the operand, then shifted 8/32/64 times through the polynomial) ---- *)
Definition mm_crc32_u8 (c b : N) : N := U 8 (N.lxor c b).
Definition mm_crc32_u32 (c w : N) : N := U 32 (N.lxor c w).
Definition mm_crc32_u64 (c w : N) : N := U 64 (N.lxor c w).

Fixpoint hw_body (n : nat) (c : N) (l : list N) : N * list N :=
  match n with
  | O => (c, l)
  | S n' => hw_body n' (mm_crc32_u64 c (le (firstn 8 l))) (skipn 8 l)
  end.

Definition hw_head_len (a len : N) : N := N.min len ((8 - a mod 8) mod 8).

(* jls_crc32c in crc32c_intel_sse4.c (x86-64 branch) and crc32c_arm_neon.c;
   a = address of the first byte modulo 8 *)
Definition crc_hw (a : N) (l : list N) : N :=
  let len := N.of_nat (length l) in
  let h := hw_head_len a len in
  let c1 := fold_left mm_crc32_u8 (firstn (N.to_nat h) l) crc_init in
  let l1 := skipn (N.to_nat h) l in
  let '(c2, l2) := hw_body (N.to_nat ((len - h) / 8)) c1 l1 in
  N.lxor (fold_left mm_crc32_u8 l2 c2) 0xFFFFFFFF.

(* jls_crc32c_hdr, x86-64 / arm64 branch: three u64 steps and one u32 step over
   the first 28 of the 32 header bytes *)
Definition crc_hdr_hw (h : list N) : N :=
  let d k := le (firstn 8 (skipn (8 * k) h)) in
  let c0 := mm_crc32_u64 crc_init (d 0%nat) in
  let c1 := mm_crc32_u64 c0 (d 1%nat) in
  let c2 := mm_crc32_u64 c1 (d 2%nat) in
  let c3 := mm_crc32_u32 c2 (le (firstn 4 (skipn 24 h))) in
  N.lxor c3 0xFFFFFFFF.

(* 32-bit x86 branch of jls_crc32c_hdr: seven u32 steps *)
Definition crc_hdr_hw32 (h : list N) : N :=
  let d k := le (firstn 4 (skipn (4 * k) h)) in
  N.lxor (fold_left (fun c k => mm_crc32_u32 c (d k)) (seq 0 7) crc_init) 0xFFFFFFFF.

(* fast executable form used by the rest of the development and by the
   extracted driver (proved equal to crc_spec on bytes) *)
Definition crc32c (l : list N) : N := N.lxor (crc_table_raw crc_init l) 0xFFFFFFFF.

Definition bytes_ok (l : list N) : Prop := Forall (fun b => b < 256) l.
