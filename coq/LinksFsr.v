(* ITEM_NEXT LINK INVARIANT of the writer model, part 3: the steps of LinksCore2.v lifted through wr_ts.c (WmTs) and
   wr_fsr.c (WmFsr).  The proofs are those of WmWriteOnce2.v verbatim (they use only reflexivity / transitivity / fault of
   the step relation and the three jls_core_wr_* steps), with lk_tstep (LinksCore.v) in the place of wmw_tstep.
   Every top-level name starts with lk_. *)
From Coq Require Import NArith ZArith List Bool Lia Arith.
From JLS Require Import Generated CrcDefs Spec Format FormatProofs WriteOnce WriteOnceProofs
                        WmRaw WmCore WmTs WmFsr WriterModel WmProofs WmWriteOnce LinksCore LinksCore2.
Import ListNotations.
Local Open Scope N_scope.

(* ================================================================ wr_ts.c *)
Definition lk_txstep (id ty : N) (x x' : wm_tx) : Prop :=
  lk_tstep id ty (wm_tx_base x) (wm_tx_tk x) (wm_tx_base x') (wm_tx_tk x').

Lemma lk_txstep_refl : forall id ty x, lk_txstep id ty x x.
Proof. intros. apply lk_tstep_refl. Qed.
Lemma lk_txstep_trans : forall id ty x y z, lk_txstep id ty x y -> lk_txstep id ty y z -> lk_txstep id ty x z.
Proof. intros id ty x y z. apply lk_tstep_trans. Qed.
Lemma lk_txstep_fault : forall id ty x, lk_txstep id ty x (wm_tx_fault x).
Proof. intros. apply lk_tstep_fault. Qed.
Lemma lk_txstep_set_ts : forall id ty x y s, lk_txstep id ty x y -> lk_txstep id ty x (wm_tx_set_ts y s).
Proof. intros id ty x y s H. exact H. Qed.

Lemma lk_ts_commit_step : forall fuel id ty close level x,
  lk_txstep id ty x (wm_ts_commit fuel id close level x).
Proof.
  induction fuel as [|f IH]; intros id ty close level x; cbn [wm_ts_commit].
  - apply lk_txstep_fault.
  - destruct (wm_ts_get (wm_tx_ts x) level) as [lv|]; [|apply lk_txstep_refl].
    destruct (wm_tl_nidx lv =? 0); [apply lk_txstep_refl|].
    destruct (negb close && (JLS_SUMMARY_LEVEL_COUNT <=? level + 1)); [apply lk_txstep_fault|].
    cbv zeta.
    match goal with |- context [wm_core_wr_index ?a ?b ?c ?d ?e ?g] =>
      destruct (wm_core_wr_index a b c d e g) as [b1 t1] eqn:E1 end.
    match goal with |- context [wm_core_wr_summary ?a ?b ?c ?d ?e ?g] =>
      destruct (wm_core_wr_summary a b c d e g) as [b2 t2] eqn:E2 end.
    apply lk_txstep_set_ts.
    assert (H12 : lk_tstep id ty (wm_tx_base x) (wm_tx_tk x) b2 t2).
    { eapply lk_tstep_trans; [eapply lk_core_wr_index_step; exact E1|eapply lk_core_wr_summary_step; exact E2]. }
    match goal with |- lk_txstep _ _ _ (match ?g with Some _ => _ | None => _ end) => destruct g as [up|] end;
      [match goal with |- lk_txstep _ _ _ (if ?c then _ else _) => destruct c end|].
    + eapply lk_txstep_trans; [|apply IH]. exact H12.
    + exact H12.
    + exact H12.
Qed.

Lemma lk_ts_add_step : forall id ty x timestamp offset entry,
  lk_txstep id ty x (wm_ts_add id x timestamp offset entry).
Proof.
  intros id ty x timestamp offset entry. unfold wm_ts_add. cbv zeta.
  destruct (wm_ts_dec (wm_tx_ts x) <=? 1); [apply lk_txstep_fault|].
  destruct (wm_ts_get (wm_ts_alloc (wm_tx_ts x) 1) 1) as [lv|]; [|apply lk_txstep_fault].
  match goal with |- lk_txstep _ _ _ (if ?c then _ else _) => destruct c end.
  - eapply lk_txstep_trans; [|apply lk_ts_commit_step]. apply lk_txstep_set_ts, lk_txstep_refl.
  - apply lk_txstep_set_ts, lk_txstep_refl.
Qed.

Lemma lk_ts_close_step : forall id ty x, lk_txstep id ty x (wm_ts_close id x).
Proof.
  intros id ty x. unfold wm_ts_close. generalize wm_level_count. intro fuel. generalize wm_close_levels. intro l. revert x.
  induction l as [|lv l IH]; intro x; cbn [fold_left]; [apply lk_txstep_refl|].
  eapply lk_txstep_trans; [apply lk_ts_commit_step|apply IH].
Qed.

(* ================================================================ wr_fsr.c *)
Definition lk_fxstep (id ty : N) (x x' : wm_fx) : Prop :=
  lk_tstep id ty (wm_fx_base x) (wm_fx_tk x) (wm_fx_base x') (wm_fx_tk x').

Lemma lk_fxstep_refl : forall id ty x, lk_fxstep id ty x x.
Proof. intros. apply lk_tstep_refl. Qed.
Lemma lk_fxstep_trans : forall id ty x y z, lk_fxstep id ty x y -> lk_fxstep id ty y z -> lk_fxstep id ty x z.
Proof. intros id ty x y z. apply lk_tstep_trans. Qed.
Lemma lk_fxstep_fault : forall id ty x, lk_fxstep id ty x (wm_fx_fault x).
Proof. intros. apply lk_tstep_fault. Qed.
Lemma lk_fxstep_set_fsr : forall id ty x y f, lk_fxstep id ty x y -> lk_fxstep id ty x (wm_fx_set_fsr y f).
Proof. intros id ty x y f H. exact H. Qed.
Lemma lk_fxstep_set_fsr_l : forall id ty x y f, lk_fxstep id ty x y -> lk_fxstep id ty (wm_fx_set_fsr x f) y.
Proof. intros id ty x y f H. exact H. Qed.

Section LK_FSR.
Variable summ1 : N -> list N -> wm_sentry.
Variable summN : bool -> list wm_sentry -> wm_sentry.

Lemma lk_fsr_wr_summary_step : forall fuel ty d level x,
  lk_fxstep (sg_id d) ty x (wm_fsr_wr_summary summN fuel d level x).
Proof.
  induction fuel as [|f IH]; intros ty d level x; cbn [wm_fsr_wr_summary].
  - apply lk_fxstep_fault.
  - destruct (wm_f_get_level (wm_fx_fsr x) level) as [lv|]; [|apply lk_fxstep_fault].
    match goal with |- lk_fxstep _ _ _ (if ?c then _ else _) => destruct c end; [apply lk_fxstep_refl|].
    cbv zeta.
    assert (H1 : exists b1 t1,
      (if wm_fl_nidx lv =? 0 then (wm_fx_base x, wm_fx_tk x)
       else wm_core_wr_index (wm_fx_base x) (sg_id d) (wm_fx_tk x) level
              (wm_fsr_index_payload (wm_fl_its lv) (wm_fl_nidx lv) (wm_rev (wm_fl_idx lv)))
              (SIZEOF_payload_header + 8 * wm_fl_nidx lv)) = (b1, t1) /\
      lk_tstep (sg_id d) ty (wm_fx_base x) (wm_fx_tk x) b1 t1).
    { destruct (wm_fl_nidx lv =? 0).
      - do 2 eexists. split; [reflexivity|apply lk_tstep_refl].
      - match goal with |- context [wm_core_wr_index ?a ?b ?c ?e ?g ?h] =>
          destruct (wm_core_wr_index a b c e g h) as [b1 t1] eqn:E1 end.
        do 2 eexists. split; [reflexivity|]. eapply lk_core_wr_index_step; exact E1. }
    destruct H1 as (b1 & t1 & E1 & S1). rewrite E1.
    match goal with |- context [wm_core_wr_summary ?a ?b ?c ?e ?g ?h] =>
      destruct (wm_core_wr_summary a b c e g h) as [b2 t2] eqn:E2 end.
    assert (H12 : lk_tstep (sg_id d) ty (wm_fx_base x) (wm_fx_tk x) b2 t2).
    { eapply lk_tstep_trans; [exact S1|eapply lk_core_wr_summary_step; exact E2]. }
    destruct (JLS_SUMMARY_LEVEL_COUNT <=? level + 1).
    + eapply lk_fxstep_trans; [|apply lk_fxstep_fault]. exact H12.
    + match goal with |- lk_fxstep _ _ _ (match wm_f_get_level (wm_fx_fsr ?x4) level with Some lv4 => _ | None => _ end) =>
        assert (H4 : lk_fxstep (sg_id d) ty x x4) end.
      { match goal with |- lk_fxstep _ _ _ (match ?g with Some _ => _ | None => _ end) => destruct g as [up|] end;
          [match goal with |- lk_fxstep _ _ _ (if ?c then _ else _) => destruct c end|].
        - eapply lk_fxstep_trans; [|apply IH]. exact H12.
        - exact H12.
        - exact H12. }
      match goal with |- lk_fxstep _ _ _ (match ?g with Some lv4 => _ | None => _ end) => destruct g end.
      * apply lk_fxstep_set_fsr. exact H4.
      * exact H4.
Qed.

Lemma lk_fsr_summary1_step : forall ty d pos samples x,
  lk_fxstep (sg_id d) ty x (wm_fsr_summary1 summ1 summN d pos samples x).
Proof.
  intros ty d pos samples x. unfold wm_fsr_summary1. cbv zeta.
  destruct (wm_f_get_level (wm_fsr_level_alloc (wm_fx_fsr x) 1) 1) as [dst|]; [|apply lk_fxstep_fault].
  match goal with |- lk_fxstep _ _ _ (if ?c then _ else _) => destruct c end.
  - eapply lk_fxstep_trans; [|apply lk_fsr_wr_summary_step]. apply lk_fxstep_set_fsr, lk_fxstep_refl.
  - apply lk_fxstep_set_fsr, lk_fxstep_refl.
Qed.

Lemma lk_fsr_wr_data_step : forall ty d x,
  lk_fxstep (sg_id d) ty x (wm_fsr_wr_data summ1 summN d x).
Proof.
  intros ty d x. unfold wm_fsr_wr_data. cbv zeta.
  destruct (wm_f_count (wm_fx_fsr x) =? 0); [apply lk_fxstep_refl|].
  match goal with |- context [if ?c then (x, 0) else _] => destruct c end.
  - apply lk_fxstep_set_fsr. apply lk_fsr_summary1_step.
  - match goal with |- context [wm_core_wr_data ?a ?b ?c ?e ?g] =>
      destruct (wm_core_wr_data a b c e g) as [b1 t1] eqn:E1 end.
    apply lk_fxstep_set_fsr.
    eapply lk_fxstep_trans; [|apply lk_fsr_summary1_step].
    unfold lk_fxstep. cbn [wm_fx_base wm_fx_tk]. eapply lk_core_wr_data_step; exact E1.
Qed.

Lemma lk_fsr_summary_close_step : forall ty d x level,
  lk_fxstep (sg_id d) ty x (wm_fsr_summary_close summN d x level).
Proof.
  intros ty d x level. unfold wm_fsr_summary_close.
  destruct (wm_f_get_level (wm_fx_fsr x) level); [|apply lk_fxstep_refl].
  apply lk_fxstep_set_fsr. apply lk_fsr_wr_summary_step.
Qed.

Lemma lk_fsr_close_step : forall ty d x, lk_fxstep (sg_id d) ty x (wm_fsr_close summ1 summN d x).
Proof.
  intros ty d x. unfold wm_fsr_close. cbv zeta.
  match goal with |- lk_fxstep _ _ _ (fold_left _ _ ?x1) => assert (H1 : lk_fxstep (sg_id d) ty x x1) end.
  { destruct (wm_f_alloc (wm_fx_fsr x)); [|apply lk_fxstep_refl].
    apply lk_fxstep_set_fsr. apply lk_fsr_wr_data_step. }
  revert H1. generalize wm_fsr_close_levels. intro l.
  match goal with |- lk_fxstep _ _ _ ?x1 -> _ => generalize x1 end.
  induction l as [|lv l IH]; intros y Hy; cbn [fold_left]; [exact Hy|].
  apply IH. eapply lk_fxstep_trans; [exact Hy|apply lk_fsr_summary_close_step].
Qed.

Lemma lk_fsr_wr_inner_step : forall fuel ty d x data n,
  lk_fxstep (sg_id d) ty x (wm_fsr_wr_inner summ1 summN fuel d x data n).
Proof.
  induction fuel as [|f IH]; intros ty d x data n; cbn [wm_fsr_wr_inner].
  - destruct (n =? 0); [apply lk_fxstep_refl|apply lk_fxstep_fault].
  - destruct (n =? 0); [apply lk_fxstep_refl|]. cbv zeta.
    eapply lk_fxstep_trans; [|apply IH].
    match goal with |- lk_fxstep _ _ _ (if ?c then _ else _) => destruct c end.
    + eapply lk_fxstep_trans; [|apply lk_fsr_wr_data_step]. apply lk_fxstep_set_fsr, lk_fxstep_refl.
    + apply lk_fxstep_set_fsr, lk_fxstep_refl.
Qed.

Lemma lk_fsr_gap_loop_step : forall fuel ty d x skip buf_sz,
  lk_fxstep (sg_id d) ty x (wm_fsr_gap_loop summ1 summN fuel d x skip buf_sz).
Proof.
  induction fuel as [|f IH]; intros ty d x skip buf_sz; cbn [wm_fsr_gap_loop].
  - destruct (skip =? 0); [apply lk_fxstep_refl|apply lk_fxstep_fault].
  - destruct (skip =? 0); [apply lk_fxstep_refl|]. cbv zeta.
    eapply lk_fxstep_trans; [apply lk_fsr_wr_inner_step|apply IH].
Qed.

Lemma lk_fsr_data_step : forall ty d x sample_id samples,
  lk_fxstep (sg_id d) ty x (wm_fsr_data summ1 summN d x sample_id samples).
Proof.
  intros ty d x sample_id samples. unfold wm_fsr_data. cbv zeta.
  destruct (N.of_nat (length samples) =? 0); [apply lk_fxstep_refl|].
  match goal with |- lk_fxstep _ _ _ (if ?c then _ else _) => destruct c end.
  - eapply lk_fxstep_trans; [|apply lk_fsr_wr_inner_step]. apply lk_fxstep_set_fsr, lk_fxstep_refl.
  - match goal with |- lk_fxstep _ _ _ (if ?c then _ else _) => destruct c end.
    + match goal with |- lk_fxstep _ _ _ (if ?c then _ else _) => destruct c end.
      * apply lk_fxstep_set_fsr, lk_fxstep_refl.
      * eapply lk_fxstep_trans; [|apply lk_fsr_wr_inner_step]. apply lk_fxstep_set_fsr, lk_fxstep_refl.
    + eapply lk_fxstep_trans; [|apply lk_fsr_wr_inner_step].
      eapply lk_fxstep_trans; [|apply lk_fsr_gap_loop_step]. apply lk_fxstep_set_fsr, lk_fxstep_refl.
Qed.

End LK_FSR.
