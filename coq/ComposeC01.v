(* COMPOSITION, part 3: the theorems about the byte-exact writer model's LOG obtained by chaining the layers
   (ComposeFsr.v holds the glue).
     cmp_prog_index_targets     C05 / C03: every entry of every FSR INDEX chunk of the signal in the log of a whole program
                                (class of refine_prog_fsr_partial) is 0 (omitted block, level 1 only) or the offset of
                                a chunk of the log with the expected tag, signal, level - 1 and payload timestamp
     cmp_comp_fsr_structure     the same at component level (any state satisfying the writer's invariant), where the
                                refinement theorem also gives ALL appended chunks and the track's head offsets:
                                INDEX / SUMMARY adjacency in the file, head_offsets[L] = first chunk of each level
     cmp_c01_model_end_to_end   C01: what the reader's seek arithmetic (PyramidModel: fsr_seek, level-1 cache, rd_fsr_data0,
                                fsr_length) and block copy loop (FsrPackModel: fp_rd_blocks) find in the writer model's
                                log by following the index pyramid is what Spec says *)
From Coq Require Import NArith ZArith List Bool Lia Arith.
From Coq Require Import ZifyBool ZifyN ZifyNat.
From JLS Require Import Generated CrcDefs Spec Format WmRaw WmCore WmTs WmFsr WriterModel WmProofs
  BitCopyModel BitCopyProofs FsrPackModel FsrPackProofs PyramidModel PyramidProofs
  RefineLog RefineFsr RefinePyr RefinePyr2 RefineBits RefineBits2 RefineProg ComposeFsr.
Import ListNotations.
Local Open Scope N_scope.

(* ================================================================ the blocks of a call sequence have the writer's shape *)
Lemma cmp_bs_data_inv : forall d s sid samples, 0 < sg_spd d -> (length (bs_pend s) < N.to_nat (sg_spd d))%nat ->
  (length (bs_pend (fst (rf_bs_data d s sid samples))) < N.to_nat (sg_spd d))%nat.
Proof.
  intros d s sid samples Hspd Hp. destruct samples as [|s0 sm] eqn:E; [exact Hp|]. rewrite <- E.
  rewrite (rf_bs_data_ne d s sid samples) by (rewrite E; discriminate). cbv zeta.
  match goal with |- context [rf_cut (S (length ?a)) ?n ?a] =>
    pose proof (rf_cut_spec (S (length a)) n a ltac:(lia) ltac:(lia)) as Hc; destruct (rf_cut (S (length a)) n a) as [bl r] end.
  cbn [fst bs_pend]. exact (proj1 Hc).
Qed.

Lemma cmp_blocks_shape : forall d ops s, 0 < sg_spd d -> (length (bs_pend s) < N.to_nat (sg_spd d))%nat ->
  rb_shape (N.to_nat (sg_spd d)) (rf_blocks d s ops).
Proof.
  intros d ops. induction ops as [|o ops IH]; intros s Hspd Hp.
  - cbn [rf_blocks]. destruct (bs_alloc s); [|intros k b Hk; destruct k; discriminate Hk].
    destruct (bs_pend s) as [|p0 pr] eqn:Ep; [intros k b Hk; destruct k; discriminate Hk|].
    intros k b Hk. destruct k as [|k]; [|destruct k; discriminate Hk]. injection Hk as <-.
    split; [cbn [length] in *; lia|cbn [length]; lia].
  - destruct o as [sid samples|en]; cbn [rf_blocks]; [|apply IH; assumption].
    pose proof (cmp_bs_data_full d s sid samples Hspd) as Hfull. pose proof (cmp_bs_data_inv d s sid samples Hspd Hp) as Hp1.
    destruct (rf_bs_data d s sid samples) as [s1 bl]. cbn [fst snd] in *.
    apply rb_shape_app_full; [lia|exact Hfull|apply IH; assumption].
Qed.

(* the plan of a call sequence: nothing, or full blocks and a last block *)
Lemma cmp_setup : forall d small ops, 0 < sg_spd d ->
  let plan := py_plan small (py_sdf (rf_pd d)) 0 (rf_script d rf_bs0 ops) in
  let BLKS := rf_blocks d rf_bs0 ops in
  rb_shape (N.to_nat (sg_spd d)) BLKS /\
  py_total (py_blocks plan) = Z.of_nat (length (concat BLKS)) /\
  map fst (py_blocks plan) = map (fun b => Z.of_nat (length b)) BLKS /\
  ((BLKS = [] /\ plan = []) \/
   exists pre n req, plan = pre ++ [PyBlk n req] /\
     Forall (fun o => match o with PyBlk m _ => m = py_spd (rf_pd d) | PySkip k => (0 <= k)%Z end) pre /\
     (1 <= n <= py_spd (rf_pd d))%Z /\ BLKS <> []).
Proof.
  intros d small ops Hspd plan BLKS.
  assert (Hsh : rb_shape (N.to_nat (sg_spd d)) BLKS) by (apply cmp_blocks_shape; [exact Hspd|cbn; lia]).
  destruct (cmp_plan_shape d small (py_sdf (rf_pd d)) ops rf_bs0 0%Z Hspd) as (Hblk & Hsz). fold plan in Hblk, Hsz. fold BLKS in Hsz.
  assert (Hfst : map fst (py_blocks plan) = map (fun b => Z.of_nat (length b)) BLKS).
  { unfold py_blocks. rewrite cmp_py_blocks_sizes by exact Hblk. exact Hsz. }
  split; [exact Hsh|]. split; [rewrite cmp_py_total_sum, Hfst; apply cmp_sum_lengths|]. split; [exact Hfst|].
  destruct BLKS as [|b0 br] eqn:EB.
  - left. split; [reflexivity|]. destruct plan; [reflexivity|discriminate Hsz].
  - right. rewrite <- EB in *.
    assert (Hn : rb_nshape (N.to_nat (sg_spd d)) (map (@length N) BLKS)).
    { intros k c Hk. rewrite nth_error_map in Hk. destruct (nth_error BLKS k) as [b|] eqn:Ek; [|discriminate Hk].
      cbn in Hk. injection Hk as <-. destruct (Hsh k b Ek) as (A & B). split; [exact A|]. rewrite map_length. exact B. }
    destruct (cmp_plan_split (N.to_nat (sg_spd d)) plan (map (@length N) BLKS) Hblk ltac:(rewrite map_map; exact Hsz) Hn
                ltac:(rewrite EB; discriminate)) as (pre & n & req & E & Hpre & Hnr & _).
    exists pre, n, req. split; [exact E|]. unfold rf_pd. cbn [py_spd]. rewrite <- nat_N_Z, N2Nat.id in *.
    split; [exact Hpre|]. split; [exact Hnr|]. rewrite EB. discriminate.
Qed.

Lemma cmp_py_run_nil : forall pd t0 pos0 stf, py_run pd t0 pos0 [] = PyOk stf -> pw_disk stf = [] /\ pw_heads stf = [].
Proof.
  intros pd t0 pos0 stf H. unfold py_run in H. destruct (py_div_ok pd); [|discriminate H].
  cbn [py_do_all py_bind] in H.
  assert (E : py_close pd (py_init t0 pos0) = PyOk (py_init t0 pos0)) by reflexivity.
  rewrite E in H. injection H as <-. split; reflexivity.
Qed.

(* the first sample id *)
Lemma cmp_first_none : forall calls g, (ss_first g = None -> ss_samples g = []) ->
  let g' := fold_left (fun g c => fsr_write g (fst c) (snd c)) calls g in
  ss_first g' = None -> ss_samples g' = [].
Proof.
  induction calls as [|[sid samples] calls IH]; intros g Hg; [exact Hg|]. cbn [fold_left fst snd]. apply IH.
  unfold fsr_write. destruct samples as [|s0 sm]; [exact Hg|]. destruct (ss_first g); cbn [ss_first]; intro X; discriminate X.
Qed.

Lemma cmp_fold_def : forall calls g, ss_def (fold_left (fun g c => fsr_write g (fst c) (snd c)) calls g) = ss_def g.
Proof.
  induction calls as [|[sid samples] calls IH]; intros g; [reflexivity|]. cbn [fold_left fst snd]. rewrite IH.
  unfold fsr_write. destruct samples; [reflexivity|]. destruct (ss_first g); reflexivity.
Qed.

Lemma cmp_t0_first : forall d ops,
  let g := fold_left (fun g c => fsr_write g (fst c) (snd c)) (rf_calls ops) (new_sig d) in
  ss_samples g <> [] -> ss_first g = Some (rf_t0 ops).
Proof.
  intros d ops g Hne.
  destruct (ss_first g) as [f|] eqn:Ef.
  - subst g. rewrite rb_first in Ef. cbn [new_sig ss_first] in Ef. destruct (rb_t0_first ops) as [E|E]; rewrite E in Ef; congruence.
  - exfalso. apply Hne. apply (cmp_first_none (rf_calls ops) (new_sig d)); [reflexivity|exact Ef].
Qed.

Lemma cmp_total_pre : forall spd pre acc, Forall cmp_is_blk pre ->
  Forall (fun o => match o with PyBlk m _ => m = spd | PySkip k => (0 <= k)%Z end) pre ->
  fold_right Z.add acc (map cmp_op_size pre) = (Z.of_nat (length pre) * spd + acc)%Z.
Proof.
  intros spd pre acc Hb Hp. induction Hp as [|o pre Ho Hp IH]; [cbn; lia|]. inversion Hb as [|? ? Hb1 Hb2]; subst.
  cbn [map fold_right length]. rewrite (IH Hb2). destruct o as [m r|k]; [cbn [cmp_op_size]; subst m; lia|destruct Hb1].
Qed.

(* ================================================================ C05 / C03: index targets, whole programs *)
Section CMP_PROG.
Variable summ1 : N -> list N -> wm_sentry.
Variable summN : bool -> list wm_sentry -> wm_sentry.
Variables (d0 d : sigdef) (pos0 : Z) (p1 p2 : list wop) (stf : py_wr).
Let w := dt_bits (sg_dtype d).
Let sid := sg_id d.
Let p := p1 ++ WSig d0 :: p2.
Let ops := rp_proj sid p2.
Let stF := fst (wm_run_full summ1 summN p).
Let cs := filter (rf_mine d) (rf_chunks (wm_st_log stF)).
Let offs := map rc_off cs.
Let BLKS := rf_blocks d rf_bs0 ops.
Let pd := rf_pd d.

Hypothesis Hpos0 : (0 < pos0)%Z.
Hypothesis Hsid : sg_id d < 256.
Hypothesis Hsid0 : sg_id d <> 0.
Hypothesis Hty : sg_type d = JLS_SIGNAL_TYPE_FSR.
Hypothesis Hspd : 0 < sg_spd d.
Hypothesis Hw : w < 8 \/ w mod 8 = 0.
Hypothesis Hfill : 0 < wm_fill_buf_samples (sg_dtype d).
Hypothesis Hg1 : 32 * sg_eps d + 16 < 4294967296.
Hypothesis Hg2 : 8 * sg_sumdf d + 16 < 4294967296.
Hypothesis Hg3 : 16 + (sg_spd d * w + 7) / 8 < 4294967296.
Hypothesis Hcons : py_consistent pd.
Hypothesis Hok : Forall (rp_ok sid) p.
Hypothesis Hns : Forall (fun o => match o with WSig d' => sg_id d' <> sid | _ => True end) p1.
Hypothesis Hrc : snd (wm_api_signal_def (fst (wm_steps summ1 summN wm_api_open p1 [])) d0) = 0.
Hypothesis Hal : wm_sig_align d0 = Some d.
Hypothesis Hpy : py_srun pd (w <=? 8) (rf_t0 ops) pos0 (rf_script d rf_bs0 ops) = PyOk stf.

Lemma cmp_prog_base :
  wm_st_fault stF = false /\
  Forall2 (rf_chunk_rel d pos0 (rf_t0 ops) offs BLKS) cs (pw_disk stf) /\
  Forall (fun c => rc_off c <> 0) cs /\
  (forall c, In c cs -> In c (rf_chunks (wm_st_log stF))).
Proof.
  destruct (rp_prog_fsr_partial summ1 summN d0 d pos0 p1 p2 stf Hpos0 Hsid Hsid0 Hty Hspd Hw Hfill Hg1 Hg2 Hg3 Hok Hns Hrc Hal Hpy)
    as (Hflt & cs' & Ecs & HF2).
  fold stF in Hflt, Ecs. fold cs in Ecs. subst cs'. split; [exact Hflt|]. split; [exact HF2|].
  assert (Hsub : forall c, In c cs -> In c (rf_chunks (wm_st_log stF))) by (intros c Hc; exact (cmp_filter_in _ _ _ c Hc)).
  split; [|exact Hsub]. apply Forall_forall. intros c Hc. apply (cmp_chunks_off_nz (wm_st_log stF)). apply Hsub. exact Hc.
Qed.

(* C05 / C03: index targets *)
Theorem cmp_prog_index_targets_lemma :
  wm_st_fault stF = false /\
  forall c, In c (rf_chunks (wm_st_log stF)) -> rf_mine d c = true -> rc_tag c = JLS_TAG_TRACK_FSR_INDEX ->
  exists L ts ents, (1 <= L <= 14)%nat /\ rc_meta c = wm_meta sid (N.of_nat L) /\
    rc_pay c = wm_fsr_index_payload ts (N.of_nat (length ents)) ents /\ ents <> [] /\
    (Z.of_nat (length ents) <= py_cap pd L)%Z /\
    forall k o, nth_error ents k = Some o ->
      (o = 0 -> L = 1%nat) /\
      (o <> 0 -> exists c', In c' (rf_chunks (wm_st_log stF)) /\ rc_off c' = o /\
         match L with
         | 1%nat => rc_tag c' = JLS_TAG_TRACK_FSR_DATA /\ rc_meta c' = wm_meta sid 0 /\
                    exists blk, In blk BLKS /\
                      rc_pay c' = wm_fsr_data_payload (ts + Z.of_nat k * py_spd pd) (N.of_nat (length blk)) w (wm_pack w blk)
         | _ => rc_tag c' = JLS_TAG_TRACK_FSR_INDEX /\ rc_meta c' = wm_meta sid (N.of_nat (pred L)) /\
                exists ents', rc_pay c' = wm_fsr_index_payload (ts + Z.of_nat k * py_step pd L) (N.of_nat (length ents')) ents'
         end).
Proof.
  destruct cmp_prog_base as (Hflt & HF2 & Hnz & Hsub). split; [exact Hflt|].
  intros c Hc Hmine Htag.
  assert (Hccs : In c cs) by (apply filter_In; split; assumption).
  destruct (cmp_setup d (w <=? 8) ops Hspd) as (_ & _ & _ & [(EB & Eplan)|(pre & n & req & Eplan & Hpre & Hn & _)]).
  - (* no block: no chunk *)
    exfalso. unfold py_srun in Hpy. fold pd in Eplan. rewrite Eplan in Hpy. destruct (cmp_py_run_nil _ _ _ _ Hpy) as (Ed & _).
    rewrite Ed in HF2. inversion HF2 as [E1|]. rewrite <- E1 in Hccs. destruct Hccs.
  - unfold py_srun in Hpy. fold pd in Eplan. rewrite Eplan in Hpy.
    destruct (cmp_index_targets_core d pos0 (rf_t0 ops) cs BLKS stf pre n req Hcons Hpos0 Hpre Hn Hpy HF2 Hnz ltac:(lia) c Hccs Htag)
      as (L & ts & ents & HL & Hm & Hp & Hne & Hcap & Hent).
    exists L, ts, ents. repeat (split; [assumption|]).
    intros k o Ho. destruct (Hent k o Ho) as (A & B). split; [exact A|].
    intro Hnz'. destruct (B Hnz') as (c' & Hc' & Rest). exists c'. split; [apply Hsub; exact Hc'|exact Rest].
Qed.

(* C01: the reader's arithmetic on the pyramid, the block it delivers, its content *)
Hypothesis Hwpos : 0 < w.
Hypothesis Hfillv : wm_fill_sample (sg_dtype d) = fill_value (sg_dtype d).

Let g := fold_left (fun g c => fsr_write g (fst c) (snd c)) (rf_calls ops) (new_sig d).
Let plan := py_plan (w <=? 8) (py_sdf pd) 0 (rf_script d rf_bs0 ops).

Theorem cmp_c01_lemma :
  wm_st_fault stF = false /\
  (rd_length g <> 0 -> ss_first g = Some (rf_t0 ops)) /\
  Z.of_N (rd_length g) = py_total (py_blocks plan) /\
  (* length: exact unless omission was requested for a last block that is not a whole number of summary entries *)
  (exists len, py_fsr_length pd (pw_disk stf) (pw_heads stf) = PyOk len /\
     (Z.of_N (rd_length g) - py_sdf pd < len <= Z.of_N (rd_length g))%Z /\
     ((w <= 8 \/ cmp_no_omit ops \/ rd_length g mod sg_sdf d = 0) -> len = Z.of_N (rd_length g))) /\
  forall sig cache starts x,
    (0 <= sig < 256)%Z -> (cc_meta cache <> 4096 + sig \/ cc_off cache = 0)%Z ->
    (0 <= x < Z.of_N (rd_length g))%Z ->
    let t := (rf_t0 ops + x)%Z in
    let i := Z.to_nat (x / py_spd pd) in
    let r := fst (py_rd_data0 pd (pw_disk stf) (pw_heads stf) sig (py_reads pd (pw_disk stf) (pw_heads stf) sig cache starts) t) in
    (exists c1 ci, py_fsr_seek pd (pw_disk stf) (pw_heads stf) 1 t = PyOk (pc_off c1) /\ In c1 (pw_disk stf) /\ pc_kind c1 = PyIndex 1 /\
       (pc_ts c1 <= t < pc_ts c1 + pc_count c1 * py_spd pd)%Z /\
       In ci (rf_chunks (wm_st_log stF)) /\ rc_off ci = rf_psi offs pos0 (pc_off c1) /\ rc_off ci <> 0 /\
       rc_tag ci = JLS_TAG_TRACK_FSR_INDEX /\ rc_meta ci = wm_meta sid 1 /\
       rc_pay ci = wm_fsr_index_payload (pc_ts c1) (Z.to_N (pc_count c1)) (map (rf_psi offs pos0) (pc_entries c1))) /\
    exists blk om, nth_error BLKS i = Some blk /\ nth_error (py_blocks plan) i = Some (Z.of_nat (length blk), om) /\
      (0 <= x - Z.of_nat i * py_spd pd < Z.of_nat (length blk))%Z /\
      if (om : bool)
      then r = PyOk (PyOmitted (rf_t0 ops + Z.of_nat i * py_spd pd) (py_sdf pd * (Z.of_nat (length blk) / py_sdf pd)))
      else exists cd c, r = PyOk (PyStored cd) /\ In cd (pw_disk stf) /\ pc_kind cd = PyData /\
             pc_ts cd = (rf_t0 ops + Z.of_nat i * py_spd pd)%Z /\ pc_count cd = Z.of_nat (length blk) /\
             (pc_ts cd <= t < pc_ts cd + pc_count cd)%Z /\
             In c (rf_chunks (wm_st_log stF)) /\ rc_off c = rf_psi offs pos0 (pc_off cd) /\ rc_off c <> 0 /\
             rc_tag c = JLS_TAG_TRACK_FSR_DATA /\ rc_meta c = wm_meta sid 0 /\
             rc_pay c = wm_payload_header (pc_ts cd) (N.of_nat (length blk)) w ++ pack w blk /\
             forall len, (0 < len)%Z -> (t + len <= pc_ts cd + pc_count cd)%Z ->
               let win := pack w (firstn (Z.to_nat len) (skipn (Z.to_nat (t - pc_ts cd)) blk)) in
               rd_window g (Z.to_N x) (Z.to_N len) = Some win /\
               fp_rd_blocks w (pc_ts cd) [(pc_ts cd, Z.to_N (pc_count cd), skipn 16 (rc_pay c))] (t - pc_ts cd) len
                            (repeat 0 (N.to_nat ((Z.to_N len * w + 7) / 8))) = RD_ok win.
Proof.
  destruct cmp_prog_base as (Hflt & HF2 & Hnz & Hsub). split; [exact Hflt|].
  destruct (rb_blocks_stream d Hspd Hfillv ops) as (Hcat & Hshape). cbv zeta in Hcat. fold g in Hcat. fold BLKS in Hcat, Hshape.
  destruct (cmp_setup d (w <=? 8) ops Hspd) as (_ & Htot & Hfst & Hcase). fold pd plan BLKS in Htot, Hfst, Hcase.
  assert (Hblkplan : Forall cmp_is_blk plan) by (exact (proj1 (cmp_plan_shape d (w <=? 8) (py_sdf pd) ops rf_bs0 0%Z Hspd))).
  assert (Hlen : Z.of_N (rd_length g) = py_total (py_blocks plan)).
  { unfold rd_length. rewrite Htot, Hcat. lia. }
  split. { intro Hne. apply cmp_t0_first. fold ops g. intro E. apply Hne. unfold rd_length. rewrite E. reflexivity. }
  split; [exact Hlen|].
  assert (Hspdz : (0 < py_spd pd)%Z) by (destruct Hcons as (_ & H & _); exact H).
  assert (Hsdfz : (0 < py_sdf pd)%Z) by (destruct Hcons as (H & _); exact H).
  unfold py_srun in Hpy. fold plan in Hpy.
  destruct Hcase as [(EB & Eplan)|(pre & n & req & Eplan & Hpre & Hn & HBne)].
  - (* the signal received no sample *)
    rewrite Eplan in Hpy, Hlen. cbn in Hlen. destruct (cmp_py_run_nil _ _ _ _ Hpy) as (Ed & Eh).
    split.
    + exists 0%Z. rewrite Ed, Eh. split; [reflexivity|]. split; [lia|]. intros _. lia.
    + intros sig cache starts x _ _ Hx. lia.
  - rewrite Eplan in Hpy.
    split.
    + (* length *)
      pose proof (pyr_length_general pd (rf_t0 ops) pos0 pre n req [] stf Hcons Hpos0 Hpre (Forall_nil _) Hn Hpy) as Hlg.
      rewrite <- Eplan, <- Hlen in Hlg.
      eexists. split; [exact Hlg|].
      pose proof (Z.mod_pos_bound n (py_sdf pd) Hsdfz) as Hmb.
      split. { destruct (req && negb (py_nilb (py_blocks pre))); lia. }
      intros Hguard.
      destruct (req && negb (py_nilb (py_blocks pre))) eqn:Ereq; [|lia].
      apply andb_true_iff in Ereq. destruct Ereq as (Ereq & _). subst req.
      assert (Hn0 : (n mod py_sdf pd = 0)%Z); [|lia].
      destruct Hguard as [Hsmall|[Hno|Hmod]].
      * (* <= 8 bits: wr_data itself masks the request *)
        assert (Es : (w <=? 8) = true) by (apply N.leb_le; exact Hsmall).
        pose proof (cmp_plan_small_req (py_sdf pd) (rf_script d rf_bs0 ops) 0%Z) as Hreq.
        unfold plan in Eplan. try rewrite Es in Eplan. rewrite Eplan in Hreq.
        apply Forall_app in Hreq. destruct Hreq as (_ & Hreq). inversion Hreq as [|? ? Hr _]; subst. apply Hr. reflexivity.
      * (* no omission requested *)
        destruct (N.leb_spec w 8) as [Hsmall|Hbig].
        -- assert (Es : (w <=? 8) = true) by (apply N.leb_le; exact Hsmall).
           pose proof (cmp_plan_small_req (py_sdf pd) (rf_script d rf_bs0 ops) 0%Z) as Hreq.
           unfold plan in Eplan. try rewrite Es in Eplan. rewrite Eplan in Hreq.
           apply Forall_app in Hreq. destruct Hreq as (_ & Hreq). inversion Hreq as [|? ? Hr _]; subst. apply Hr. reflexivity.
        -- exfalso. assert (Es : (w <=? 8) = false) by (apply N.leb_gt; exact Hbig).
           pose proof (cmp_plan_big_noreq (py_sdf pd) _ (cmp_script_no_omit d ops rf_bs0 Hno)) as Hreq.
           unfold plan in Eplan. try rewrite Es in Eplan. rewrite Eplan in Hreq.
           apply Forall_app in Hreq. destruct Hreq as (_ & Hreq). inversion Hreq as [|? ? Hr _]; subst. discriminate Hr.
      * (* the total is a whole number of summary entries: so is the last block *)
        destruct Hcons as (_ & _ & _ & _ & Hdiv & _).
        assert (Htotal : Z.of_N (rd_length g) = (Z.of_nat (length pre) * py_spd pd + n)%Z).
        { rewrite Hlen, Eplan. unfold py_blocks. rewrite cmp_py_total_sum.
          assert (Hb : Forall cmp_is_blk (pre ++ [PyBlk n true])) by (rewrite <- Eplan; exact Hblkplan).
          rewrite cmp_py_blocks_sizes by exact Hb. rewrite map_app, fold_right_app. cbn [map fold_right cmp_op_size].
          apply Forall_app in Hb. destruct Hb as (Hb & _). rewrite Z.add_0_r.
          rewrite (cmp_total_pre (py_spd pd) pre n Hb Hpre). reflexivity. }
        assert (Hm : (Z.of_N (rd_length g) mod py_sdf pd = 0)%Z).
        { change (py_sdf pd) with (Z.of_N (sg_sdf d)). rewrite <- N2Z.inj_mod. rewrite Hmod. reflexivity. }
        rewrite Htotal in Hm.
        assert (Hspdm : (py_spd pd = py_sdf pd * (py_spd pd / py_sdf pd))%Z) by (apply Z.div_exact; lia).
        rewrite Hspdm in Hm.
        replace (Z.of_nat (length pre) * (py_sdf pd * (py_spd pd / py_sdf pd)) + n)%Z
          with (n + (Z.of_nat (length pre) * (py_spd pd / py_sdf pd)) * py_sdf pd)%Z in Hm by ring.
        rewrite Z.mod_add in Hm by lia. exact Hm.
    + (* positions *)
      intros sig cache starts x Hsig Hcache Hx t i r.
      rewrite Hlen, Eplan in Hx.
      destruct (cmp_seek_core d pos0 (rf_t0 ops) cs BLKS stf pre n req Hcons Hpos0 Hpre Hn Hpy HF2 ltac:(lia) sig cache starts x Hsig Hcache Hx)
        as ((c1 & ci & Hseek & Hc1 & Hk1 & Hr1 & Hci & Hoi & Hti & Hmi & Hpi) & (m & om & Hblk & Hoff & Hres)).
      fold pd in Hseek, Hr1, Hblk, Hoff, Hres. fold i in Hblk, Hoff, Hres. fold t in Hseek, Hr1, Hres. fold sid in Hmi, Hres. fold offs in Hoi, Hpi, Hres. fold w in Hres.
      split.
      { exists c1, ci. split; [exact Hseek|]. split; [exact Hc1|]. split; [exact Hk1|]. split; [exact Hr1|].
        split; [apply Hsub; exact Hci|]. split; [exact Hoi|]. split; [rewrite Forall_forall in Hnz; apply Hnz; exact Hci|].
        split; [exact Hti|]. split; [exact Hmi|exact Hpi]. }
      (* the block of BLKS with that number *)
      rewrite <- Eplan in Hblk.
      assert (Hbi : exists blk, nth_error BLKS i = Some blk /\ Z.of_nat (length blk) = m).
      { pose proof (map_nth_error fst i _ Hblk) as H1. rewrite Hfst, nth_error_map in H1.
        destruct (nth_error BLKS i) as [blk|]; [|discriminate H1]. cbn in H1. injection H1 as H1. exists blk. split; [reflexivity|exact H1]. }
      destruct Hbi as (blk & Hbi & Hbm). exists blk, om. split; [exact Hbi|]. subst m. split; [exact Hblk|]. split; [exact Hoff|].
      destruct om; [exact Hres|].
      destruct Hres as (cd & c & blk' & Hr & Hcd & Hkd & Htsd & Hcnt & Hc & Hoc & Htc & Hmc & Hbi' & Hbm' & Hpc).
      rewrite Hbi in Hbi'. injection Hbi' as <-.
      exists cd, c. split; [exact Hr|]. split; [exact Hcd|]. split; [exact Hkd|]. split; [exact Htsd|]. split; [exact Hcnt|].
      split; [unfold t; lia|]. split; [apply Hsub; exact Hc|]. split; [exact Hoc|].
      split; [rewrite Forall_forall in Hnz; apply Hnz; exact Hc|]. split; [exact Htc|]. split; [exact Hmc|].
      split. { rewrite Hpc. unfold wm_fsr_data_payload. rewrite (rb_pack_eq w blk Hw). reflexivity. }
      intros len Hlen0 Hlen1 win.
      set (off := (t - pc_ts cd)%Z) in *.
      assert (Hoffx : off = (x - Z.of_nat i * py_spd pd)%Z) by (unfold off, t; lia).
      assert (Hspdn : py_spd pd = Z.of_nat (N.to_nat (sg_spd d))) by (unfold pd, rf_pd; cbn [py_spd]; lia).
      destruct (cmp_block_window (N.to_nat (sg_spd d)) BLKS i blk (Z.to_nat off) (Z.to_nat len) Hshape Hbi ltac:(lia)) as (Hwin & Hbound).
      split.
      * unfold rd_window, rd_length. rewrite <- Hcat.
        destruct (N.leb_spec (Z.to_N x + Z.to_N len) (N.of_nat (length (concat BLKS)))) as [_|Hbad]; [|exfalso; lia].
        unfold win, g. rewrite <- Hwin, cmp_fold_def. cbn [new_sig ss_def]. fold w.
        replace (N.to_nat (Z.to_N len)) with (Z.to_nat len) by lia.
        replace (N.to_nat (Z.to_N x)) with (i * N.to_nat (sg_spd d) + Z.to_nat off)%nat by lia. reflexivity.
      * rewrite Hpc, (cmp_data_payload_skip _ _ w blk Hw). rewrite Hcnt, <- nat_N_Z, N2Z.id.
        apply cmp_rd_one_block; [exact Hwpos|lia|exact Hlen0|lia].
Qed.

End CMP_PROG.

(* ================================================================ component level: all appended chunks, head offsets *)
Lemma cmp_out_off_nz : forall x c, In c (rf_out x) -> rc_off c <> 0.
Proof.
  intros x c H. unfold rf_out in H.
  pose proof (proj1 (cmp_scan_off_nz (wm_rlog (wm_b_raw (wm_fx_base x))))) as HF. rewrite Forall_forall in HF. exact (HF c H).
Qed.

Theorem cmp_comp_fsr_structure_lemma : forall summ1 summN d pos0 x0 ops st,
  (0 < pos0)%Z -> sg_id d < 256 -> 0 < sg_spd d ->
  (dt_bits (sg_dtype d) < 8 \/ dt_bits (sg_dtype d) mod 8 = 0) ->
  0 < wm_fill_buf_samples (sg_dtype d) ->
  32 * sg_eps d + 16 < 4294967296 -> 8 * sg_sumdf d + 16 < 4294967296 ->
  16 + (sg_spd d * dt_bits (sg_dtype d) + 7) / 8 < 4294967296 ->
  py_consistent (rf_pd d) ->
  rf_fresh x0 -> wm_fx_fsr x0 = wm_fsr_open ->
  py_srun (rf_pd d) (dt_bits (sg_dtype d) <=? 8) (rf_t0 ops) pos0 (rf_script d rf_bs0 ops) = PyOk st ->
  let x := wm_fsr_close summ1 summN d (fold_left (rf_do summ1 summN d) ops x0) in
  let w := dt_bits (sg_dtype d) in
  let head := fun L => wm_get_off (wm_tk_offsets (wm_fx_tk x)) (N.of_nat L) in
  exists cs,
    rf_out x = rev cs ++ rf_out x0 /\
    wm_fault (wm_b_raw (wm_fx_base x)) = false /\
    (* every INDEX chunk is followed IN THE FILE by the SUMMARY chunk of its level, same payload timestamp *)
    (forall i c, nth_error cs i = Some c -> rc_tag c = JLS_TAG_TRACK_FSR_INDEX ->
       exists s ts ni ents ns entries, nth_error cs (S i) = Some s /\
         rc_tag s = JLS_TAG_TRACK_FSR_SUMMARY /\ rc_meta s = rc_meta c /\
         rc_pay c = wm_fsr_index_payload ts ni ents /\
         rc_pay s = wm_fsr_summary_payload (sg_dtype d) ts ns entries) /\
    (* index targets *)
    (forall c, In c cs -> rc_tag c = JLS_TAG_TRACK_FSR_INDEX ->
       exists L ts ents, (1 <= L <= 14)%nat /\ rc_meta c = wm_meta (sg_id d) (N.of_nat L) /\
         rc_pay c = wm_fsr_index_payload ts (N.of_nat (length ents)) ents /\ ents <> [] /\
         (Z.of_nat (length ents) <= py_cap (rf_pd d) L)%Z /\
         forall k o, nth_error ents k = Some o ->
           (o = 0 -> L = 1%nat) /\
           (o <> 0 -> exists c', In c' cs /\ rc_off c' = o /\
              match L with
              | 1%nat => rc_tag c' = JLS_TAG_TRACK_FSR_DATA /\ rc_meta c' = wm_meta (sg_id d) 0 /\
                         exists blk, In blk (rf_blocks d rf_bs0 ops) /\
                           rc_pay c' = wm_fsr_data_payload (ts + Z.of_nat k * py_spd (rf_pd d)) (N.of_nat (length blk)) w (wm_pack w blk)
              | _ => rc_tag c' = JLS_TAG_TRACK_FSR_INDEX /\ rc_meta c' = wm_meta (sg_id d) (N.of_nat (pred L)) /\
                     exists ents', rc_pay c' = wm_fsr_index_payload (ts + Z.of_nat k * py_step (rf_pd d) L) (N.of_nat (length ents')) ents'
              end)) /\
    (* the track's head_offsets[] *)
    ((cs = [] /\ forall L, (L < 16)%nat -> head L = 0) \/
     exists T, (1 <= T <= 14)%nat /\
       (forall L, (T < L < 16)%nat -> head L = 0 /\
          forall c, In c cs -> rc_tag c = JLS_TAG_TRACK_FSR_INDEX -> rc_meta c <> wm_meta (sg_id d) (N.of_nat L)) /\
       (forall L, (1 <= L <= T)%nat ->
          exists j c ents, nth_error cs j = Some c /\ head L = rc_off c /\
            rc_tag c = JLS_TAG_TRACK_FSR_INDEX /\ rc_meta c = wm_meta (sg_id d) (N.of_nat L) /\
            rc_pay c = wm_fsr_index_payload (rf_t0 ops) (N.of_nat (length ents)) ents /\
            forall j' c', (j' < j)%nat -> nth_error cs j' = Some c' ->
              ~ (rc_tag c' = JLS_TAG_TRACK_FSR_INDEX /\ rc_meta c' = wm_meta (sg_id d) (N.of_nat L))) /\
       (exists c blk, In c cs /\ head 0%nat = rc_off c /\ rc_tag c = JLS_TAG_TRACK_FSR_DATA /\
          rc_meta c = wm_meta (sg_id d) 0 /\ nth_error (rf_blocks d rf_bs0 ops) 0 = Some blk /\
          rc_pay c = wm_fsr_data_payload (rf_t0 ops) (N.of_nat (length blk)) w (wm_pack w blk))).
Proof.
  intros summ1 summN d pos0 x0 ops st Hpos0 Hsid Hspd Hw Hfill Hg1 Hg2 Hg3 Hcons Hfresh Hopen Hpy.
  pose proof (rf_fsr_refines summ1 summN d pos0 x0 ops st Hpos0 Hsid Hspd Hw Hfill Hg1 Hg2 Hg3 Hfresh Hopen Hpy) as Href.
  pose proof (cmp_setup d (dt_bits (sg_dtype d) <=? 8) ops Hspd) as Hset. cbv zeta in Hset.
  unfold py_srun in Hpy.
  intros x w head. cbv zeta in Href. fold x in Href. clearbody x.
  destruct Href as (cs & Hout & _ & HF2 & Hflt & _ & Hheads).
  exists cs. split; [exact Hout|]. split; [exact Hflt|].
  assert (Hnz : Forall (fun c => rc_off c <> 0) cs).
  { apply Forall_forall. intros c Hc. apply (cmp_out_off_nz x). rewrite Hout. apply in_or_app. left. apply in_rev. rewrite rev_involutive. exact Hc. }
  destruct Hset as (_ & _ & _ & [(EB & Eplan)|(pre & n & req & Eplan & Hpre & Hn & _)]); rewrite Eplan in Hpy.
  - destruct (cmp_py_run_nil _ _ _ _ Hpy) as (Ed & Eh). rewrite Ed in HF2. inversion HF2 as [E1|]. 
    split; [intros i c Hi; destruct i; discriminate Hi|]. split; [intros c []|].
    left. split; [reflexivity|]. intros L HL. unfold head. rewrite (Hheads L HL). unfold py_head_get. rewrite Eh.
    destruct L; reflexivity.
  - assert (H4096 : sg_id d < 4096) by lia.
    split; [exact (cmp_adjacent_core d pos0 (rf_t0 ops) cs _ st pre n req Hcons Hpos0 Hpre Hn Hpy HF2 H4096)|].
    split; [exact (cmp_index_targets_core d pos0 (rf_t0 ops) cs _ st pre n req Hcons Hpos0 Hpre Hn Hpy HF2 Hnz H4096)|].
    right.
    destruct (cmp_heads_core d pos0 (rf_t0 ops) cs _ st pre n req Hcons Hpos0 Hpre Hn Hpy HF2 H4096) as (T & HT & Habove & Hlev & Hzero).
    exists T. split; [exact HT|]. split; [|split].
    + intros L (HL1 & HL2). destruct (Habove L HL1) as (Hh & Hno). split; [|exact (Hno HL2)].
      unfold head. rewrite (Hheads L HL2), Hh. reflexivity.
    + intros L HL. destruct (Hlev L HL) as (j & c & ents & Hj & Hoff & Rest). exists j, c, ents. split; [exact Hj|].
      split; [unfold head; rewrite (Hheads L ltac:(lia)); symmetry; exact Hoff|exact Rest].
    + destruct Hzero as (c & blk & Hc & Hoff & Rest). exists c, blk. split; [exact Hc|].
      split; [unfold head; rewrite (Hheads 0%nat ltac:(lia)); symmetry; exact Hoff|exact Rest].
Qed.

(* ================================================================ when no block is omitted *)
(* a sample width above 8 bits (no automatic omission of constant blocks) and no jls_wr_fsr_omit_data(enable) call:
   every block is stored, so the `om` of cmp_c01_lemma is false at every position *)
Lemma cmp_no_omission_lemma : forall d ops, 8 < dt_bits (sg_dtype d) -> cmp_no_omit ops ->
  Forall (fun b => snd b = false)
         (py_blocks (py_plan (dt_bits (sg_dtype d) <=? 8) (py_sdf (rf_pd d)) 0 (rf_script d rf_bs0 ops))).
Proof.
  intros d ops Hw Hno. replace (dt_bits (sg_dtype d) <=? 8) with false by (symmetry; apply N.leb_gt; exact Hw).
  apply cmp_py_blocks_noreq. apply cmp_plan_big_noreq. apply cmp_script_no_omit. exact Hno.
Qed.
