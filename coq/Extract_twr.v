(* private extraction file of the twr slice (see SLICE_GUIDE.md); at integration the
   TwrModel names below are merged into coq/Extract.v (all prefixed tw_, no clash) *)
From Coq Require Import Extraction ExtrOcamlBasic NArith ZArith List.
From JLS Require Import MrbModel TwrModel.
Extraction Language OCaml.
Extraction "jlsmodel_ext"
  BinInt.Z.add BinInt.Z.opp BinInt.Z.of_N BinInt.Z.to_N BinNat.N.add BinNat.N.mul BinNat.N.of_nat BinNat.N.to_nat
  TwrModel.tw_init TwrModel.tw_step TwrModel.tw_tick TwrModel.tw_run TwrModel.tw_enabled TwrModel.tw_final
  TwrModel.tw_some_sleeping TwrModel.tw_deadlocked TwrModel.tw_EBUSY TwrModel.tw_ETIMEDOUT TwrModel.tw_processed
  TwrModel.tw_acc_msgs TwrModel.tw_unprocessed.
