(* Sample packing core of the FSR writer and reader.  Definitions only.

   Writer: /repo/src/wr_fsr.c  wr_data (block flush), wr_data_inner (fill the block
   buffer through jls_bit_copy), jls_wr_fsr_data (first id / normal / overlap / gap),
   jls_fsr_close (final partial block).  The state keeps exactly what these functions
   use of struct jls_core_fsr_s: whether self->data is allocated, sample_id_offset,
   data->header.timestamp, data->header.entry_count, the bytes of data->data (spd*w/8
   bytes as malloc'ed: ARBITRARY initial content, a parameter of fp_init), and the level-0
   DATA blocks handed to jls_core_wr_data, in order, as (timestamp, entry_count, payload
   bytes after the header).  The summary/index pyramid, constant-block omission and the
   chunk layer are outside this model (other slices).

   Reader: /repo/src/core.c jls_core_fsr, the copy loop.  Finding the block that holds
   a sample (jls_core_rd_fsr_data0: index descent, seek) is abstract here: the block whose
   [timestamp, timestamp + entry_count) contains the sample id.  jls_core_fsr_length is
   abstract too: the sum of the entry counts.

   C arithmetic: entry_count, data_length, ffwd are uint32_t: the explicit [fp_u32];
   bit offsets are uint64_t products of a uint32_t and a width <= 255 and cannot wrap;
   sample ids are int64_t, modelled by unbounded Z (int64 overflow of ids is not
   modelled).  Faults are explicit: FP_oob (an access outside a buffer), FP_nonterm
   (a while loop that makes no progress), FP_div0. *)
From Coq Require Import NArith ZArith List Bool.
From JLS Require Import Generated Spec BitCopyModel.
Import ListNotations.
Local Open Scope N_scope.

(* sizeof(((struct jls_core_fsr_s * ) 0)->buffer_u64) = 4096 * 8; the harness kind `bits`
   prints the implementation's value (consts line) next to this one *)
Definition FP_FILL_BYTES : N := 32768.

Definition fp_u32 (x : N) : N := x mod 4294967296.

Record fp_state := {
  fp_open : bool;                       (* self->data != NULL *)
  fp_first : Z;                         (* self->sample_id_offset *)
  fp_ts : Z;                            (* self->data->header.timestamp *)
  fp_ec : N;                            (* self->data->header.entry_count *)
  fp_buf : list N;                      (* self->data->data[] *)
  fp_blocks : list (Z * N * list N) }.  (* DATA payloads written so far *)

Inductive fp_res := FP_ok (st : fp_state) | FP_oob | FP_nonterm | FP_div0.

(* before the first call; buf0 = what malloc will return for the block buffer *)
Definition fp_init (buf0 : list N) : fp_state :=
  {| fp_open := false; fp_first := 0; fp_ts := 0; fp_ec := 0; fp_buf := buf0; fp_blocks := [] |}.

Definition fp_next (st : fp_state) : Z := (fp_ts st + Z.of_N (fp_ec st))%Z.

(* wr_data: hand the filled part of the block buffer to the chunk layer *)
Definition fp_wr_data (w spd : N) (st : fp_state) : fp_res :=
  if fp_ec st =? 0 then FP_ok st else
  let nbits := fp_u32 (fp_ec st * w) in
  let dl := fp_u32 (nbits + 7) / 8 in                      (* data_length, bytes *)
  let rem := N.land nbits 7 in                             (* data_bits_rem *)
  let obuf :=
    if rem =? 0 then Some (fp_buf st)
    else match bc_get (fp_buf st) (dl - 1) with            (* data[data_length - 1] &= (uint8_t) ((1U << rem) - 1U) *)
         | Some b => bc_set (fp_buf st) (dl - 1) (N.land b (N.land (N.shiftl 1 rem - 1) 255))
         | None => None
         end in
  match obuf with
  | None => FP_oob
  | Some buf' =>
    if dl <=? N.of_nat (length buf') then
      FP_ok {| fp_open := fp_open st; fp_first := fp_first st;
               fp_ts := (fp_ts st + Z.of_N spd)%Z; fp_ec := 0; fp_buf := buf';
               fp_blocks := fp_blocks st ++ [(fp_ts st, fp_ec st, firstn (N.to_nat dl) buf')] |}
    else FP_oob
  end.

(* wr_data_inner(self, data = src, src_bit, data_length = n) *)
Fixpoint fp_wr_inner (fuel : nat) (w spd : N) (st : fp_state) (src : list N) (src_bit : N) (n : N) : fp_res :=
  if n =? 0 then FP_ok st else
  match fuel with
  | O => FP_nonterm
  | S f =>
    let room := fp_u32 (spd + 4294967296 - fp_ec st) in    (* (uint32_t) (self->data_length - entry_count) *)
    let len := if n <? room then n else room in
    match bc_bit_copy (fp_buf st) (fp_ec st * w) src src_bit (len * w) with
    | BC_oob => FP_oob
    | BC_nonterm => FP_nonterm
    | BC_ok buf' =>
      let st1 := {| fp_open := fp_open st; fp_first := fp_first st; fp_ts := fp_ts st;
                    fp_ec := fp_u32 (fp_ec st + len); fp_buf := buf'; fp_blocks := fp_blocks st |} in
      if spd <=? fp_ec st1 then
        match fp_wr_data w spd st1 with
        | FP_ok st2 => fp_wr_inner f w spd st2 src (src_bit + len * w) (n - len)
        | e => e
        end
      else fp_wr_inner f w spd st1 src (src_bit + len * w) (n - len)
    end
  end.

(* the gap-fill source: buffer_u64 viewed as bytes after the fill loops (little endian) *)
Definition fp_fill_buf (dt : N) : list N :=
  if dt =? JLS_DATATYPE_F32 then concat (repeat [0; 0; 192; 127] (N.to_nat (FP_FILL_BYTES / 4)))
  else if dt =? JLS_DATATYPE_F64 then concat (repeat [0; 0; 0; 0; 0; 0; 248; 127] (N.to_nat (FP_FILL_BYTES / 8)))
  else repeat 0 (N.to_nat FP_FILL_BYTES).

(* while (skip) { if (skip < buf_sz) buf_sz = skip; wr_data_inner(buffer_u64, 0, buf_sz); skip -= buf_sz; } *)
Fixpoint fp_gap_loop (fuel : nat) (w spd : N) (st : fp_state) (fill : list N) (skip bufsz : N) : fp_res :=
  if skip =? 0 then FP_ok st else
  match fuel with
  | O => FP_nonterm
  | S f =>
    let bufsz' := if skip <? bufsz then skip else bufsz in
    match fp_wr_inner (N.to_nat (fp_u32 bufsz')) w spd st fill 0 (fp_u32 bufsz') with
    | FP_ok st' => fp_gap_loop f w spd st' fill (skip - bufsz') bufsz'
    | e => e
    end
  end.

(* jls_wr_fsr_data(self, sample_id = sid, data, data_length = n); dt = signal_def.data_type *)
Definition fp_wr_call (dt spd : N) (st0 : fp_state) (sid : Z) (data : list N) (n : N) : fp_res :=
  let w := dt_bits dt in
  if n =? 0 then FP_ok st0 else
  let st := if fp_open st0 then st0
            else {| fp_open := true; fp_first := sid; fp_ts := sid; fp_ec := 0;
                    fp_buf := fp_buf st0; fp_blocks := fp_blocks st0 |} in
  let next := fp_next st in
  if (sid =? next)%Z then fp_wr_inner (N.to_nat n) w spd st data 0 n
  else if (sid <? next)%Z then
    if (sid + Z.of_N n <=? next)%Z then FP_ok st
    else
      let ffwd := fp_u32 (Z.to_N (next - sid)) in
      let n' := fp_u32 (n + 4294967296 - ffwd) in
      fp_wr_inner (N.to_nat n') w spd st data (ffwd * w) n'
  else
    let skip := Z.to_N (sid - next) in
    if (negb (dt =? JLS_DATATYPE_F32)) && (negb (dt =? JLS_DATATYPE_F64)) && (w =? 0) then FP_div0 else
    let bufsz := if dt =? JLS_DATATYPE_F32 then FP_FILL_BYTES / 4
                 else if dt =? JLS_DATATYPE_F64 then FP_FILL_BYTES / 8
                 else (FP_FILL_BYTES * 8) / w in
    match fp_gap_loop (N.to_nat skip) w spd st (fp_fill_buf dt) skip bufsz with
    | FP_ok st' => fp_wr_inner (N.to_nat n) w spd st' data 0 n
    | e => e
    end.

(* a sequence of calls; each call passes exactly the bytes the API requires:
   Spec.pack w samples = ceil(n*w/8) bytes *)
Fixpoint fp_run (dt spd : N) (st : fp_state) (calls : list (Z * list N)) : fp_res :=
  match calls with
  | [] => FP_ok st
  | (sid, samples) :: r =>
    match fp_wr_call dt spd st sid (pack (dt_bits dt) samples) (N.of_nat (length samples)) with
    | FP_ok st' => fp_run dt spd st' r
    | e => e
    end
  end.

(* jls_fsr_close: if (self->data) wr_data(self) *)
Definition fp_close (dt spd : N) (st : fp_state) : fp_res :=
  if fp_open st then fp_wr_data (dt_bits dt) spd st else FP_ok st.

Definition fp_write_all (dt spd : N) (buf0 : list N) (calls : list (Z * list N)) : fp_res :=
  match fp_run dt spd (fp_init buf0) calls with
  | FP_ok st => fp_close dt spd st
  | e => e
  end.

(* ---------------- reader ---------------- *)
Inductive fp_rd_res := RD_ok (data : list N) | RD_param_invalid | RD_not_found | RD_oob | RD_nonterm.

Definition fp_find_block (blocks : list (Z * N * list N)) (sid : Z) : option (Z * N * list N) :=
  find (fun b => let '(ts, cnt, _) := b in (ts <=? sid)%Z && (sid <? ts + Z.of_N cnt)%Z) blocks.

Definition fp_total (blocks : list (Z * N * list N)) : N :=
  fold_right (fun b a => let '(_, cnt, _) := b in cnt + a) 0 blocks.

(* while (data_length > 0) { ... } of jls_core_fsr; sid = file sample id, dst = caller's buffer *)
Fixpoint fp_rd_loop (fuel : nat) (w : N) (blocks : list (Z * N * list N)) (sid len : Z)
         (dst : list N) (dst_bit : N) : fp_rd_res :=
  if (len <=? 0)%Z then RD_ok dst else
  match fuel with
  | O => RD_nonterm
  | S f =>
    match fp_find_block blocks sid with
    | None => RD_not_found
    | Some (ts, cnt, payload) =>
      let idx_start := if (sid >? ts)%Z then (sid - ts)%Z else 0%Z in
      let sz0 := if (sid >? ts)%Z then (Z.of_N cnt - idx_start)%Z else Z.of_N cnt in
      let sz := if (sz0 >? len)%Z then len else sz0 in
      if (sz <=? 0)%Z then RD_not_found else
      match bc_bit_copy dst dst_bit payload (Z.to_N idx_start * w) (Z.to_N sz * w) with
      | BC_oob => RD_oob
      | BC_nonterm => RD_nonterm
      | BC_ok dst' => fp_rd_loop f w blocks (sid + sz)%Z (len - sz)%Z dst' (dst_bit + Z.to_N sz * w)
      end
    end
  end.

(* jls_core_fsr(self, signal, start (zero based), data = dst, data_length = len) *)
Definition fp_rd_blocks (w : N) (first : Z) (blocks : list (Z * N * list N)) (start len : Z) (dst : list N) : fp_rd_res :=
  if (len <=? 0)%Z then RD_ok dst
  else if (start <? 0)%Z then RD_param_invalid
  else if (start + len >? Z.of_N (fp_total blocks))%Z then RD_param_invalid
  else fp_rd_loop (Z.to_nat len) w blocks (start + first)%Z len dst 0.
